(** C20: the algebra behind [Cholesky::find] (cholesky.rs:7-32) in exact arithmetic.

    For a symmetric matrix Q with non-zero pivots the symmetric elimination ("completing the square",
    Cohen, A Course in Computational Algebraic Number Theory, Algorithm 2.7.6) gives
        x^T Q x = sum_i d_i (x_i + sum_{j>i} c_ij x_j)^2,   d_i = A^(i)_ii,  c_ij = A^(i)_ij / A^(i)_ii,
    where A^(0) = Q and A^(i+1)_kl = A^(i)_kl - A^(i)_ik A^(i)_il / A^(i)_ii ([schur]).
    Positive definite (over Q) <=> all pivots positive.
    (stdlib; lia, ring/field on Qc, lra/nra on Q.) *)
From RNT.Model Require Import Base Lll.
From RNT.Refine Require Import LllMat LllGS LllShort LllSqrt LllShortSpec.
From Coq Require Import Lia QArith Qcanon Lqa.
Open Scope Z_scope.

Local Notation F := arithQ.
Local Notation "x +q y" := (Qcplus x y) (at level 50, left associativity).
Local Notation "x *q y" := (Qcmult x y) (at level 40, left associativity).
Local Notation "x -q y" := (Qcminus x y) (at level 50, left associativity).
Local Notation q0 := (Q2Qc 0).
Local Notation q1 := (Q2Qc 1).

(** ** the notions *)

(** x^T Q x for the n x n list matrix Q and a coordinate function x *)
Definition qform (n : nat) (Q : list (list Qc)) (x : nat -> Qc) : Qc :=
  qsum n (fun i => qsum n (fun j => x i *q get2 F Q i j *q x j)).

Definition msym (n : nat) (Q : list (list Qc)) : Prop :=
  forall i j, (i < n)%nat -> (j < n)%nat -> get2 F Q i j = get2 F Q j i.

(** the matrices of the symmetric elimination (Schur complements), as a plain recursion on functions *)
Fixpoint schur (Q : list (list Qc)) (i : nat) (k l : nat) : Qc :=
  match i with
  | O => get2 F Q k l
  | S i' => schur Q i' k l -q Qcdiv (schur Q i' i' k *q schur Q i' i' l) (schur Q i' i' i')
  end.

Definition pivots_pos (Q : list (list Qc)) : Prop :=
  forall i, (i < length Q)%nat -> Qclt q0 (schur Q i i i).

(** positive definite over the rationals *)
Definition posdef (n : nat) (Q : list (list Qc)) : Prop :=
  forall x : nat -> Qc, (exists i, (i < n)%nat /\ x i <> q0) -> Qclt q0 (qform n Q x).

(** ** sums over a range [lo, hi) *)
Definition rsum (lo hi : nat) (f : nat -> Qc) : Qc := qsum (hi - lo) (fun j => f (lo + j)%nat).

Lemma rsum_ext lo hi f g : (forall j, (lo <= j < hi)%nat -> f j = g j) -> rsum lo hi f = rsum lo hi g.
Proof. intros H. unfold rsum. apply qsum_ext. intros j Hj. apply H. lia. Qed.

Lemma rsum_add lo hi f g : rsum lo hi (fun j => f j +q g j) = rsum lo hi f +q rsum lo hi g.
Proof. unfold rsum. apply (qsum_add _ (fun j => f (lo + j)%nat) (fun j => g (lo + j)%nat)). Qed.

Lemma rsum_scale lo hi c f : rsum lo hi (fun j => c *q f j) = c *q rsum lo hi f.
Proof. unfold rsum. apply (qsum_scale _ c (fun j => f (lo + j)%nat)). Qed.

Lemma rsum_zero lo hi f : (forall j, (lo <= j < hi)%nat -> f j = q0) -> rsum lo hi f = q0.
Proof. intros H. unfold rsum. apply qsum_zero. intros j Hj. apply H. lia. Qed.

Lemma qsum_first k f : qsum (S k) f = f 0%nat +q qsum k (fun j => f (S j)).
Proof.
  induction k as [|k IH].
  - cbn [qsum]. ring.
  - change (qsum (S (S k)) f) with (qsum (S k) f +q f (S k)). rewrite IH. cbn [qsum]. ring.
Qed.

Lemma rsum_first lo hi f : (lo < hi)%nat -> rsum lo hi f = f lo +q rsum (S lo) hi f.
Proof.
  intros H. unfold rsum. replace (hi - lo)%nat with (S (hi - S lo)) by lia. rewrite qsum_first.
  rewrite Nat.add_0_r. f_equal. apply qsum_ext. intros j _. f_equal. lia.
Qed.

Lemma rsum_empty lo f : rsum lo lo f = q0.
Proof. unfold rsum. rewrite Nat.sub_diag. reflexivity. Qed.

Lemma rsum_0 n f : rsum 0 n f = qsum n f.
Proof. unfold rsum. rewrite Nat.sub_0_r. apply qsum_ext. intros j _. reflexivity. Qed.

Lemma rsum_mul lo hi u v :
  rsum lo hi (fun k => rsum lo hi (fun l => u k *q v l)) = rsum lo hi u *q rsum lo hi v.
Proof.
  rewrite (rsum_ext lo hi _ (fun k => rsum lo hi v *q u k)).
  - rewrite rsum_scale. ring.
  - intros k _. rewrite rsum_scale. ring.
Qed.

Lemma sq_pos_Q (d t : Q) : (0 < d)%Q -> ~ (t == 0)%Q -> (0 < d * t * t)%Q.
Proof.
  intros Hd Ht. rewrite <- Qmult_assoc. apply Qmult_lt_0_compat; [exact Hd|].
  destruct (Q_dec t 0) as [[L|G]|E]; [| |contradiction].
  - setoid_replace (t * t)%Q with ((-t) * (-t))%Q by ring. apply Qmult_lt_0_compat; lra.
  - apply Qmult_lt_0_compat; lra.
Qed.

(** ** completing the square *)
Section Alg.
Variable n : nat.
Variable Q : list (list Qc).
Hypothesis Hsym : msym n Q.
Local Notation A := (schur Q).

Lemma schur_sym : forall i k l, (k < n)%nat -> (l < n)%nat -> A i k l = A i l k.
Proof.
  induction i as [|i IH]; intros k l Hk Hl; cbn [schur].
  - apply Hsym; assumption.
  - rewrite (IH k l Hk Hl). rewrite (Qcmult_comm (A i i k)). reflexivity.
Qed.

(** s_i = sum_{l>i} A^(i)_il x_l;   T_i = d_i (x_i + s_i / d_i)^2;   the rest form on [i, n) *)
Definition sx (x : nat -> Qc) (i : nat) : Qc := rsum (S i) n (fun l => A i i l *q x l).
Definition Tx (x : nat -> Qc) (i : nat) : Qc :=
  A i i i *q (x i +q Qcdiv (sx x i) (A i i i)) *q (x i +q Qcdiv (sx x i) (A i i i)).
Definition qf (x : nat -> Qc) (i : nat) : Qc :=
  rsum i n (fun k => rsum i n (fun l => x k *q A i k l *q x l)).

Lemma sx_dep x y i : (forall j, (i < j)%nat -> x j = y j) -> sx x i = sx y i.
Proof. intros H. unfold sx. apply rsum_ext. intros j Hj. rewrite H by lia. reflexivity. Qed.

Lemma qf_dep x y i : (forall j, (i <= j)%nat -> x j = y j) -> qf x i = qf y i.
Proof.
  intros H. unfold qf. apply rsum_ext. intros k Hk. apply rsum_ext. intros l Hl.
  rewrite (H k), (H l) by lia. reflexivity.
Qed.

Lemma qform_qf0 x : qform n Q x = qf x 0.
Proof.
  unfold qform, qf. rewrite rsum_0. apply qsum_ext. intros k _. rewrite rsum_0. reflexivity.
Qed.

Lemma qf_top x : qf x n = q0.
Proof. unfold qf. apply rsum_empty. Qed.

Lemma qf_step x i : (i < n)%nat -> A i i i <> q0 -> qf x i = Tx x i +q qf x (S i).
Proof.
  intros Hi Hd.
  assert (E1 : qf x i =
               x i *q A i i i *q x i +q x i *q sx x i +q x i *q sx x i
               +q rsum (S i) n (fun k => rsum (S i) n (fun l => x k *q A i k l *q x l))).
  { unfold qf. rewrite (rsum_first i n) by lia. cbv beta. rewrite (rsum_first i n) by lia. cbv beta.
    rewrite (rsum_ext (S i) n (fun k => rsum i n (fun l => x k *q A i k l *q x l))
               (fun k => x i *q (A i i k *q x k) +q rsum (S i) n (fun l => x k *q A i k l *q x l))).
    2:{ intros k Hk. cbv beta. rewrite (rsum_first i n) by lia. cbv beta. rewrite (schur_sym i k i) by lia. ring. }
    rewrite rsum_add, rsum_scale.
    rewrite (rsum_ext (S i) n (fun l => x i *q A i i l *q x l) (fun l => x i *q (A i i l *q x l)))
      by (intros; ring).
    rewrite rsum_scale. unfold sx. ring. }
  assert (E2 : qf x (S i) =
               rsum (S i) n (fun k => rsum (S i) n (fun l => x k *q A i k l *q x l))
               +q Qcopp (Qcinv (A i i i)) *q (sx x i *q sx x i)).
  { unfold qf. unfold sx. rewrite <- rsum_mul. rewrite <- rsum_scale, <- rsum_add.
    apply rsum_ext. intros k Hk. rewrite <- rsum_scale, <- rsum_add.
    apply rsum_ext. intros l Hl. cbn [schur]. unfold Qcdiv. ring. }
  rewrite E1, E2. unfold Tx. field. exact Hd.
Qed.

Lemma qf_decomp x : forall i, (i <= n)%nat -> (forall i', (i' < i)%nat -> A i' i' i' <> q0) ->
  qform n Q x = qsum i (Tx x) +q qf x i.
Proof.
  induction i as [|i IH]; intros Hi Hd.
  - cbn [qsum]. rewrite qform_qf0. ring.
  - rewrite IH by (try lia; intros; apply Hd; lia). cbn [qsum].
    rewrite (qf_step x i) by (try lia; apply Hd; lia). ring.
Qed.

(** [P] x^T Q x = sum_i d_i (x_i + s_i/d_i)^2 *)
Theorem qform_squares x : (forall i, (i < n)%nat -> A i i i <> q0) -> qform n Q x = qsum n (Tx x).
Proof. intros Hd. rewrite (qf_decomp x n (le_n n) Hd), qf_top. ring. Qed.

(** back substitution: any prescription of the coordinates >= i extends to a vector on which the
    first i squares vanish *)
Lemma elim_vector : forall i, (i <= n)%nat -> (forall i', (i' < i)%nat -> A i' i' i' <> q0) ->
  forall y, exists x, (forall j, (i <= j)%nat -> x j = y j) /\ qform n Q x = qf y i.
Proof.
  induction i as [|i IH]; intros Hi Hd y.
  - exists y. split; [reflexivity|apply qform_qf0].
  - set (y' := fun j => if Nat.eqb j i then Qcopp (Qcdiv (sx y i) (A i i i)) else y j).
    assert (Ey : forall j, (i < j)%nat -> y' j = y j).
    { intros j Hj. unfold y'. destruct (Nat.eqb_spec j i); [lia|reflexivity]. }
    destruct (IH ltac:(lia) ltac:(intros; apply Hd; lia) y') as (x & Hx & Ex).
    exists x. split.
    + intros j Hj. rewrite Hx by lia. apply Ey. lia.
    + rewrite Ex. rewrite qf_step by (try lia; apply Hd; lia).
      rewrite (qf_dep y' y (S i)) by (intros; apply Ey; lia).
      assert (T0 : Tx y' i = q0).
      { unfold Tx. rewrite (sx_dep y' y i Ey).
        assert (Ei : y' i = Qcopp (Qcdiv (sx y i) (A i i i))) by (unfold y'; rewrite Nat.eqb_refl; reflexivity).
        rewrite Ei. ring. }
      rewrite T0. ring.
Qed.

Lemma qf_unit i : (i < n)%nat -> qf (fun j => if Nat.eqb j i then q1 else q0) i = A i i i.
Proof.
  intros Hi. set (y := fun j => if Nat.eqb j i then q1 else q0).
  assert (Y0 : forall j, (i < j)%nat -> y j = q0).
  { intros j Hj. unfold y. destruct (Nat.eqb_spec j i); [lia|reflexivity]. }
  assert (Y1 : y i = q1) by (unfold y; rewrite Nat.eqb_refl; reflexivity).
  unfold qf. rewrite rsum_first by lia. cbv beta. rewrite (rsum_first i n) by lia. cbv beta.
  rewrite (rsum_zero (S i) n (fun l => y i *q A i i l *q y l)) by (intros l Hl; rewrite (Y0 l) by lia; ring).
  rewrite (rsum_zero (S i) n).
  - rewrite Y1. ring.
  - intros k Hk. apply rsum_zero. intros l Hl. rewrite (Y0 k) by lia. ring.
Qed.

(** [P] positive definite => the pivots are positive *)
Theorem posdef_pivots : posdef n Q -> forall i, (i < n)%nat -> Qclt q0 (A i i i).
Proof.
  intros Hp i. induction i as [i IH] using lt_wf_ind. intros Hi.
  assert (Hd : forall i', (i' < i)%nat -> A i' i' i' <> q0).
  { intros i' Hi'. apply not_eq_sym, Qclt_not_eq. apply IH; lia. }
  destruct (elim_vector i ltac:(lia) Hd (fun j => if Nat.eqb j i then q1 else q0)) as (x & Hx & Ex).
  rewrite <- (qf_unit i Hi), <- Ex. apply Hp. exists i. split; [exact Hi|].
  rewrite Hx by lia. rewrite Nat.eqb_refl. exact Q_apart_0_1.
Qed.

(** ** the converse: positive pivots => positive definite *)
Lemma qsum_nonneg k f : (forall j, (j < k)%nat -> Qcle q0 (f j)) -> Qcle q0 (qsum k f).
Proof.
  induction k as [|k IH]; intros H; cbn [qsum].
  - apply Qcle_refl.
  - specialize (IH ltac:(intros; apply H; lia)). specialize (H k ltac:(lia)). to_Q. lra.
Qed.

Lemma qsum_pos k f m : (forall j, (j < k)%nat -> Qcle q0 (f j)) -> (m < k)%nat -> Qclt q0 (f m) ->
  Qclt q0 (qsum k f).
Proof.
  induction k as [|k IH]; intros H Hm Hf; [lia|]. cbn [qsum].
  pose proof (qsum_nonneg k f ltac:(intros; apply H; lia)) as N.
  destruct (Nat.eq_dec m k) as [->|Hne].
  - to_Q. lra.
  - specialize (IH ltac:(intros; apply H; lia) ltac:(lia) Hf). specialize (H k ltac:(lia)). to_Q. lra.
Qed.

Lemma last_nonzero (x : nat -> Qc) : forall k, (exists i, (i < k)%nat /\ x i <> q0) ->
  exists m, (m < k)%nat /\ x m <> q0 /\ forall l, (m < l < k)%nat -> x l = q0.
Proof.
  induction k as [|k IH]; intros (i & Hi & Hx); [lia|].
  destruct (Qc_eq_dec (x k) q0) as [E|NE].
  - destruct (Nat.eq_dec i k) as [->|Hne]; [contradiction|].
    assert (Hik : (i < k)%nat) by lia.
    destruct (IH (ex_intro _ i (conj Hik Hx))) as (m & Hm & Xm & Z).
    exists m. split; [lia|]. split; [exact Xm|]. intros l Hl.
    destruct (Nat.eq_dec l k) as [->|]; [exact E|apply Z; lia].
  - exists k. split; [lia|]. split; [exact NE|]. intros l Hl. lia.
Qed.

(** [P] all pivots positive => positive definite *)
Theorem pivots_posdef : (forall i, (i < n)%nat -> Qclt q0 (A i i i)) -> posdef n Q.
Proof.
  intros Hd x Hx.
  assert (Hd' : forall i, (i < n)%nat -> A i i i <> q0).
  { intros i Hi. apply not_eq_sym, Qclt_not_eq. apply Hd; exact Hi. }
  rewrite (qform_squares x Hd').
  destruct (last_nonzero x n Hx) as (m & Hm & Xm & Z).
  apply (qsum_pos n (Tx x) m).
  - intros j Hj. unfold Tx. apply qc_sq_nonneg. apply Hd; exact Hj.
  - exact Hm.
  - unfold Tx, sx. rewrite rsum_zero by (intros l Hl; rewrite (Z l) by lia; ring).
    assert (E : Qcdiv q0 (A m m m) = q0) by (unfold Qcdiv; ring). rewrite E.
    specialize (Hd m Hm).
    assert (Xm' : ~ (this (x m) == 0)%Q).
    { intros E0. apply Xm. apply Qc_is_canon. rewrite E0. reflexivity. }
    replace (x m +q q0) with (x m) by ring.
    unfold Qclt in *. rewrite this_0 in *. rewrite !this_mult. apply sq_pos_Q; assumption.
Qed.

End Alg.
