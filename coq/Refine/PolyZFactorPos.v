(** * PolyZFactorPos: C07, primitivity and sign of *all* returned factors, conditional on the sign of
    the leading coefficient of the computed gcd(pp, pp') (MathComp). *)
From RNT.Model Require Import Base Poly PolyModP FactorModP Hensel PolyZFactor.
From RNT.Model Require Resultant.
From mathcomp Require Import all_ssreflect ssralg poly.
From mathcomp Require Import ssrZ zify.
From RNT.Refine Require Import PolyRefine PolyDiv PolyZ PolyZFactorMult PolyZFactorMain PolyZFactorTop.
Set Implicit Arguments.
Unset Strict Implicit.
Unset Printing Implicit Defensive.
Import GRing.Theory.
Local Open Scope ring_scope.

Definition primitive (g : seq Z) : Prop :=
  forall d, (forall x, List.In x g -> (d | x)%Z) -> (d | 1)%Z.

Lemma dvd_coef_mul (d : Z) (P Q : {poly Z}) :
  (forall i, (d | P`_i)%Z) -> forall k, (d | (P * Q)`_k)%Z.
Proof.
move=> hP k; rewrite coefM.
elim/big_ind: _ => [|x y hx hy|i _]; first exact: Z.divide_0_r.
- exact: Z.divide_add_r.
- exact: Z.divide_mul_l.
Qed.

Lemma dvd_all_coef (d : Z) (g : seq Z) :
  (forall x, List.In x g -> (d | x)%Z) <-> (forall i, (d | (Poly g)`_i)%Z).
Proof.
split=> [h i|h x /In_nthE [j hj <-]]; last by have := h j; rewrite coef_Poly.
rewrite coef_Poly; case: (ltnP i (size g)) => hi; first exact/h/In_nth_lt.
by rewrite nth_default //; exact: Z.divide_0_r.
Qed.

(** a factor of a primitive polynomial is primitive *)
Lemma primitive_factor (s g : seq Z) (H : {poly Z}) : Poly s = Poly g * H -> primitive s -> primitive g.
Proof.
move=> e ps d /dvd_all_coef hd; apply: ps; apply/dvd_all_coef => i.
by rewrite e; exact: dvd_coef_mul.
Qed.

Lemma lead_coef_canon (g : seq Z) : canonZ g -> lead_coef (Poly g) = last 0 g.
Proof. by move=> cg; rewrite lead_coefE canon_PolyK // nth_last. Qed.

Lemma lead_prod_pos (pps : seq (seq Z)) : (forall g, g \in pps -> prim_pos g) ->
  (0 < lead_coef (\prod_(g <- pps) Poly g))%Z.
Proof.
elim: pps => [|g pps IH] h; first by rewrite big_nil lead_coef1.
rewrite big_cons lead_coefM.
have [cg lg _] : prim_pos g by apply: h; rewrite inE eqxx.
rewrite (lead_coef_canon cg); apply: Z.mul_pos_pos => //.
by apply: IH => g' hg'; apply: h; rewrite inE hg' orbT.
Qed.

(** the last polynomial returned by [get_factors_of_squarefree] inherits sign and primitivity *)
Lemma get_factors_all_prim_pos md (a : seq Z) r fs r' : canonZ a -> (0 < last 0 a)%Z -> primitive a ->
  get_factors_of_squarefree md a r = Done (fs, r') -> forall g, g \in fs -> prim_pos g.
Proof.
move=> ca la pa /(get_factors_spec ca) [pps [lastf [-> cl ea hp]]] g.
rewrite mem_cat inE => /orP [/hp //|/eqP ->]; split=> //.
- have := lead_prod_pos hp; move: la; rewrite -(lead_coef_canon ca) ea lead_coefM (lead_coef_canon cl).
  move: (lead_coef _) => y; rewrite /GRing.mul /GRing.zero /=.
  by move: (last _ _) y => u v; nia.
- exact: (primitive_factor ea pa).
Qed.

(** the value of [resultant_gcd] is stored normalised *)
Lemma resultant_gcd_canon (f h g : seq Z) : f != [::] ->
  (Resultant.resultant_gcd f h).2 = Done g -> canonZ g.
Proof.
rewrite /Resultant.resultant_gcd /Resultant.resultant_smart_gcd.
case: f => [|x f] // _.
rewrite /Resultant.flift /Resultant.fbind.
repeat match goal with
| |- context [match ?X with Done _ => _ | Panic _ => _ | OutOfFuel => _ end] =>
    case: X => [?|?|] //=
| |- context [let (_, _) := ?X in _] => case: X => [? ?] //=
end.
case=> <-; rewrite /Resultant.poly_mul.
match goal with |- is_true (canonZ match ?pf with [::] => _ | _ => _ end) => case: pf => [|? ?] // end.
exact: from_rawZ_canon.
Qed.

(** ** [C] every returned factor is primitive with a positive leading coefficient, provided the gcd
    computed by the run has a positive leading coefficient *)
Theorem factors_prim_pos md (a : seq Z) r c l cof r' g : canonZ a ->
  (Resultant.resultant_gcd (cont_pp a).2 (pdiff opsZ (cont_pp a).2)).2 = Done g ->
  (0 < last 0 g)%Z ->
  factorize_full md a r = Done (c, l, cof, r') -> forall fe, fe \in l -> prim_pos fe.1.
Proof.
move=> ca; rewrite /factorize_full.
case: a ca => [|x0 a'] ca; first by move=> _ _ [_ <- _ _].
set a := x0 :: a'.
have [_ cpp lpp prim _] := cont_pp_main ca (isT : a != [::]) (surjective_pairing (cont_pp a)).
case ecp: (cont_pp a) cpp lpp prim => [conta ppa] /= cpp lpp prim.
move=> eg lg; case: ifP => _; first by case=> _ <- _ _.
have pp0 : ppa != [::] by case: (ppa) lpp => // /Z.lt_irrefl.
have cg := resultant_gcd_canon pp0 eg.
rewrite eg /=.
case esq: (if _ then _ else _) => [sqfree|t|] //=.
have [csq lsq psq] : prim_pos sqfree.
  move: esq; case: ifP => _; last by case=> <-.
  case ed: div_exact => [q|] // [<-].
  have [g0 cq eq] := (div_exact_iff q cpp cg).1 ed.
  split=> //; last exact: (primitive_factor eq prim).
  move: lpp; rewrite -(lead_coef_canon cpp) eq lead_coefM !lead_coef_canon //.
  rewrite /GRing.mul /GRing.zero /=.
  by move: lg; move: (last _ g) (last _ q) => u v; nia.
case egf: get_factors_of_squarefree => [[factors r1]|t|] //=.
have hfs := get_factors_all_prim_pos csq lsq psq egf.
case ee: extract_all => [[cof' result]|t|] //= [_ <- _ _].
have cfs g' : g' \in factors -> canonZ g' by move/hfs => [].
have [l' [-> emap _ _ _]] := extract_all_spec cpp cfs ee.
by move=> fe hfe; apply: hfs; rewrite -emap; apply/mapP; exists fe.
Qed.
