(** * DecompW5Step (C17, fifth wave): what a Round 2 step that returns howmany = 0 says about the order.

    Extracted from the proof of [Round2W4PZ.step_zero_p_maximal]: if [one_step f o p = Done (o', 0)] on an order, then
    with T the table of the order and I_p its p-radical (described by the model's [pow_mod_p], pow = p^k >= deg), every
    u in O with u * I_p inside p I_p has all coordinates divisible by p (the multiplier ring of I_p is O itself).
    With [p_maximal_step_zero] this holds on every p-maximal order.  stdlib + lia. *)
From RNT.Model Require Import Base Poly Algebraic LinAlg MultTable Order Round2.
From RNT.Model Require Hnf Elementary.
From RNT.Refine Require Import MatZ HnfOps HnfSpec HnfMain HnfKernel HnfTotal HnfUnique.
From RNT.Refine Require Import Round2Basic Round2Index Round2Lattice Round2Det Round2Fuel.
From RNT.Refine Require Import Round2W3Ip Round2W3Up Round2W3Step Round2W3Total Round2W3Ring Round2W3Order Round2W3Radical Round2W3Driver.
From RNT.Refine Require MultTableOps AlgNormMx Round2W3Mul Round2W3Table PolyZ Round2W4Index Round2W4Over Round2W4Table.
From RNT.Refine Require Import Round2W4PZ.
From Coq Require Import Lia Znumtheory QArith Qcanon.
Open Scope Z_scope.

Theorem step_zero_multiplier f deg o p o' :
  PolyZ.canonZ f = true -> length f = S deg -> (1 <= deg)%nat -> prime p ->
  is_order f deg o -> one_step f o p = Done (o', 0) ->
  exists T k i_p,
    get_mult_table o f = Done T /\ Z.of_nat deg <= p ^ Z.of_nat k /\ wf deg i_p /\
    (forall x, In_rowspanZ deg x i_p <->
       length x = deg /\ exists r, pow_mod_p x (p ^ Z.of_nat k)
                                     (map (map (map (fun x => Z.rem (Z.rem x (p * p)) p))) T) p = Done r /\
                                   forall j, (j < deg)%nat -> (p | nth j r 0)) /\
    forall u, length u = deg ->
      (forall y, In_rowspanZ deg y i_p ->
         exists z, In_rowspanZ deg z i_p /\ AlgNormMx.tmul T deg u y = vscale p z) ->
      forall j, (p | nth j u 0).
Proof.
  intros Cf Lf D1 Pp [LO [One [T0 GT0]]] H.
  assert (P2 : 2 <= p) by (destruct Pp; lia). assert (P0 : p <> 0) by lia.
  destruct (lower_from_shape deg o LO) as [Lo Wo].
  destruct (one_step_order_one f o p o' 0 deg Cf Lf D1 Pp Lo Wo One H)
    as [T [pow [tbl [tbl2 [i_p [u_p [h [Phi [GT [S1 [S3 [S4 [S5 [S8 [Wh [SPhi [RP [PZh [PL [RAD [ID CL]]]]]]]]]]]]]]]]]]]]].
  destruct (one_step_lattices f o p o' 0 deg Lf D1 P0 H)
    as [pow' [tbl' [tbl2' [i_p' [u_p' [h' [Phi' [S1' [S3' [S4' [S5' [S8' [_ [_ [Wi [_ [PZ [Wu [SpU SpH]]]]]]]]]]]]]]]]]]].
  rewrite S1 in S1'. injection S1' as <-. rewrite S3 in S3'. injection S3' as <- <-.
  rewrite S4 in S4'. injection S4' as <-. rewrite S5 in S5'. injection S5' as <-.
  rewrite S8 in S8'. injection S8' as <-.
  destruct (Round2W3Table.order_table_laws Cf Lf Lo Wo GT) as [CT HC HA].
  destruct (order_has_unit_list f deg o T Cf Lf D1 Lo Wo GT One) as [one [Lone Hone]].
  destruct (mult_tables_exact f o deg p (p * p) tbl tbl2 Lo S3) as [T' [GT' [E2 E1]]].
  rewrite GT in GT'. injection GT' as <-.
  destruct (pow_ge_is_pow _ _ _ S1) as [k Ek].
  assert (Hpow : Z.of_nat deg <= pow).
  { destruct (pow_ge_total (pdeg f) p P2) as [r [Er Hr]]. rewrite S1 in Er. injection Er as <-.
    rewrite (pdeg_len f deg Lf) in Hr. assumption. }
  exists T, k, i_p. split; [assumption|]. split; [rewrite <- Ek; assumption|]. split; [assumption|].
  split; [rewrite <- Ek, <- E1; exact RAD|].
  intros u Lu Mu.
  (* u lies in U_p *)
  assert (Uone : AlgNormMx.tmul T deg u one = u).
  { rewrite HC by assumption. apply Hone. assumption. }
  assert (Ui : In_rowspanZ deg u i_p).
  { destruct (Mu (vscale p one) (PZ one Lone)) as [z [Hz Ez]].
    rewrite Round2W3Mul.tmul_vscale_r in Ez by assumption. rewrite Uone in Ez.
    apply vscale_inj in Ez; [rewrite Ez; assumption|assumption|].
    rewrite Lu. symmetry. apply (rowspan_length deg i_p); assumption. }
  assert (Uu : In_rowspanZ deg u u_p).
  { apply SpU. split; [assumption|]. intros x Hx.
    assert (Lx : length x = deg) by (apply (rowspan_length deg i_p); assumption).
    apply (pI_congr deg p i_p (AlgNormMx.tmul T deg x u)); try assumption; try apply Round2W3Mul.tmul_length.
    - intros j. rewrite E2. apply (Round2W3Table.tmul_red_congr (p * p) x u j CT).
    - rewrite HC by assumption. destruct (Mu x Hx) as [z [Hz Ez]]. rewrite Ez.
      apply pI_iff; [assumption|]. exists z. split; [assumption|reflexivity]. }
  assert (Uh : In_rowspanZ deg u h).
  { apply SpH. destruct (p_rows_shape deg p) as [Lp Wp].
    apply rowspan_app; [assumption|assumption|].
    exists u, (vzero deg). split; [assumption|]. split; [apply rowspan_zero; assumption|].
    symmetry. apply vadd_vzero_r. assumption. }
  (* the index of the result is 1: the lattice of h is p Z^deg *)
  destruct (one_step_index f o p o' 0 deg Lf D1 LO ltac:(lia) H) as [I1 _].
  rewrite Z.pow_0_r in I1.
  destruct (one_step_stages f o p o' 0 H) as [pow' [deg' [tbl' [tbl2' [i_p' [u_p' [h' [nb [index ST]]]]]]]]].
  destruct ST as [T1 T2' T3 T4 T5 T6 T7 T8 T9 T10 T11 T12 T13].
  rewrite (deg_alloc_len f deg Lf) in T2'. injection T2' as <-.
  rewrite S1 in T1. injection T1 as <-. rewrite S3 in T3. injection T3 as <- <-.
  rewrite S4 in T4. injection T4 as <-. rewrite S5 in T5. injection T5 as <-.
  rewrite S8 in T8. injection T8 as <-.
  apply (Round2W4Index.index1_h (deg := deg) (p := p) (o := o) (u := u_p) (h := h) (nb := nb) (o' := o')
           D1 P0 LO Wu S8 T9 T10 T11 I1 (v := u) Uh).
Qed.

(** on a p-maximal order: the step returns, and returns 0 *)
Theorem pmax_multiplier f deg o p :
  PolyZ.canonZ f = true -> length f = S deg -> (1 <= deg)%nat -> prime p ->
  is_order f deg o -> p_maximal f deg p o ->
  exists T k i_p,
    get_mult_table o f = Done T /\ Z.of_nat deg <= p ^ Z.of_nat k /\ wf deg i_p /\
    (forall x, In_rowspanZ deg x i_p <->
       length x = deg /\ exists r, pow_mod_p x (p ^ Z.of_nat k)
                                     (map (map (map (fun x => Z.rem (Z.rem x (p * p)) p))) T) p = Done r /\
                                   forall j, (j < deg)%nat -> (p | nth j r 0)) /\
    forall u, length u = deg ->
      (forall y, In_rowspanZ deg y i_p ->
         exists z, In_rowspanZ deg z i_p /\ AlgNormMx.tmul T deg u y = vscale p z) ->
      forall j, (p | nth j u 0).
Proof.
  intros Cf Lf D1 Pp IO PM.
  destruct (order_step_returns f deg o p Lf D1 Pp IO) as [o' [hh H]].
  pose proof (p_maximal_step_zero f deg o p o' hh Cf Lf D1 Pp IO PM H) as ->.
  apply (step_zero_multiplier f deg o p o'); assumption.
Qed.
