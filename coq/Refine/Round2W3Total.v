(** Round 2 step, third wave (C06): [one_step] returns on every stored basis and prime p as soon as
    the construction of the two multiplication tables does; the lattices I_p and U_p of a returning
    call.  stdlib + lia: assembles Round2W3Ip / Up / Step / Det. *)
From RNT.Model Require Import Base Poly Algebraic LinAlg MultTable Order Round2.
From RNT.Model Require Hnf.
From RNT.Refine Require Import MatZ HnfOps HnfSpec HnfMain HnfKernel HnfTotal HnfUnique.
From RNT.Refine Require Import Round2Basic Round2Index Round2Lattice Round2Det Round2Fuel.
From RNT.Refine Require Import Round2W3Ip Round2W3Up Round2W3Step.
From RNT.Refine Require MultTableOps AlgNormMx Round2W3Mul Round2W3Det.
From Coq Require Import Lia Znumtheory.
Open Scope Z_scope.

(** ** [P] one_step_no_panic *)
Theorem one_step_returns f o p deg tbl tbl2 :
  length f = S deg -> (1 <= deg)%nat -> prime p -> lower_from deg 0 o ->
  mult_tables f o deg p (p * p) = Done (tbl, tbl2) ->
  exists o' hh, one_step f o p = Done (o', hh).
Proof.
  intros Lf D1 Pp LO MT.
  assert (P2 : 2 <= p) by (destruct Pp; lia). assert (P0 : p <> 0) by lia.
  destruct (pow_ge_total (pdeg f) p P2) as [pow [Epow _]].
  pose proof (deg_alloc_len f deg Lf) as Edeg.
  destruct (mult_tables_cube _ _ _ _ _ _ _ MT) as [C1 C2].
  destruct (compute_i_p_total deg p pow tbl C1 D1 P0) as [i_p Eip].
  destruct (compute_i_p_spec deg p pow tbl i_p D1 Eip) as [_ [_ [_ [Wi _]]]].
  destruct (up_loop_total deg p tbl2 i_p C2 D1 P0 Wi (length i_p) O i_p ltac:(lia) Wi) as [u_p [Eloop [Wu Hu]]].
  assert (Lu : (length u_p <= deg)%nat).
  { destruct (length i_p) as [|n] eqn:Li.
    - cbn [seq Hnf.for_loop] in Eloop. injection Eloop as <-. lia.
    - apply hnf_rows_length_le. apply Hu. lia. }
  pose proof (check_widths_ok deg u_p Wu) as Ecw.
  destruct (p_rows_shape deg p) as [Lp Wp].
  destruct (hnf_new_any_total deg (u_p ++ p_rows deg p) ltac:(apply wf_app; split; assumption) D1) as [h Eh].
  destruct (Round2W3Det.step_tail_total D1 Pp LO Wu Eh) as [Lh [nb [o' [k [Enb Efb Hk Eidx [hh Ehh]]]]]].
  exists o', hh. apply (one_step_compose f o p o' hh pow deg tbl tbl2 i_p u_p h nb (p ^ k)).
  constructor; try assumption.
  unfold Hnf.range. rewrite Nat.sub_0_r. exact Eloop.
Qed.

(** [P] one_step_no_panic: every panic of the step, on a stored basis and for a prime p, is a panic of
    the table construction (round2.rs:26-45: the [expect] on [solve_linear_system] or
    [assert!(inv[k].is_integer())], i.e. the input lattice is not closed under multiplication).  In
    particular [assert!(u_p.len() <= deg)], [assert_eq!(u_p.dim(), deg)], [Order::from_basis], the
    [panic!] of [index] and [assert_eq!(&index % p, 0)] are unreachable, and the step does not run out
    of fuel. *)
Theorem one_step_no_panic f o p deg :
  length f = S deg -> (1 <= deg)%nat -> prime p -> lower_from deg 0 o ->
  forall r, one_step f o p = r ->
  match r with
  | Done _ => True
  | Panic t => mult_tables f o deg p (p * p) = Panic t
  | OutOfFuel => mult_tables f o deg p (p * p) = OutOfFuel
  end.
Proof.
  intros Lf D1 Pp LO r Er.
  assert (P2 : 2 <= p) by (destruct Pp; lia).
  destruct (mult_tables f o deg p (p * p)) as [[tbl tbl2]| |] eqn:MT.
  - destruct (one_step_returns f o p deg tbl tbl2 Lf D1 Pp LO MT) as [o' [hh E]].
    rewrite E in Er. subst r. exact I.
  - subst r. unfold one_step. destruct (pow_ge_total (pdeg f) p P2) as [pow [-> _]]. cbn [bind].
    rewrite (deg_alloc_len f deg Lf). cbn [bind]. rewrite MT. reflexivity.
  - subst r. unfold one_step. destruct (pow_ge_total (pdeg f) p P2) as [pow [-> _]]. cbn [bind].
    rewrite (deg_alloc_len f deg Lf). cbn [bind]. rewrite MT. reflexivity.
Qed.

(** ** [P] the lattices of a returning call *)

(** the multiplier condition on generators is the condition on the whole lattice *)
Lemma multiplier_all deg p tbl2 i_p u :
  MultTableOps.cube deg tbl2 = true -> wf deg i_p ->
  (forall i, (i < length i_p)%nat -> In_rowspanZ deg (tmul tbl2 deg (row i_p i) u) (pI p i_p)) <->
  (forall x, In_rowspanZ deg x i_p -> In_rowspanZ deg (tmul tbl2 deg x u) (pI p i_p)).
Proof.
  intros C Wi. split.
  - intros G x [c [Lc ->]]. rewrite Round2W3Mul.tmul_lincomb_l by assumption.
    apply rowspan_lincomb; [apply pI_wf; assumption| |].
    + apply wf_map_len. intros r _. apply Round2W3Mul.tmul_length.
    + intros r Hr. apply in_map_iff in Hr. destruct Hr as [y [<- Hy]].
      destruct (In_nth _ _ [] Hy) as [i [Hi <-]]. apply G. assumption.
  - intros G i Hi. apply G. apply row_in_span; assumption.
Qed.

(** [one_step_lattices]: in a returning call of [one_step] (degree [deg >= 1], [p <> 0]) the two integer
    lattices, in coordinates with respect to the basis of the input order, are
    - I_p = { x in Z^deg : sum_i x_i Phi_i = 0 (mod p) }, Phi_i the first [deg] coordinates of
      [pow_mod_p e_i pow table p] (the kernel of the linearised power map), with p Z^deg inside it;
    - U_p = { u in I_p : x * u in p I_p for every x in I_p }, products by the table mod p^2. *)
Theorem one_step_lattices f o p o' hh deg :
  length f = S deg -> (1 <= deg)%nat -> p <> 0 -> one_step f o p = Done (o', hh) ->
  exists pow tbl tbl2 i_p u_p h Phi,
    pow_ge (pdeg f) p = Done pow /\ mult_tables f o deg p (p * p) = Done (tbl, tbl2) /\
    compute_i_p deg p pow tbl = Done i_p /\
    Hnf.for_loop (Hnf.range 0 (length i_p)) (up_step deg p (p * p) tbl2 i_p) i_p = Done u_p /\
    Hnf.hnf_new (u_p ++ p_rows deg p) = Done h /\
    (* I_p *)
    shape deg deg Phi /\
    (forall i, (i < deg)%nat -> exists r, pow_mod_p (unit_vec deg i) pow tbl p = Done r /\
                                          (deg <= length r)%nat /\ row Phi i = firstn deg r) /\
    wf deg i_p /\
    (forall x, In_rowspanZ deg x i_p <->
               length x = deg /\ forall k, (k < deg)%nat -> (p | nth k (lincomb deg x Phi) 0)) /\
    (forall y, length y = deg -> In_rowspanZ deg (vscale p y) i_p) /\
    (* U_p *)
    wf deg u_p /\
    (forall u, In_rowspanZ deg u u_p <->
               In_rowspanZ deg u i_p /\
               forall x, In_rowspanZ deg x i_p -> In_rowspanZ deg (tmul tbl2 deg x u) (pI p i_p)) /\
    (* the lattice handed to [new_basis] *)
    (forall v, In_rowspanZ deg v h <-> In_rowspanZ deg v (u_p ++ p_rows deg p)).
Proof.
  intros Lf D1 P0 H.
  destruct (one_step_stages f o p o' hh H) as [pow [deg' [tbl [tbl2 [i_p [u_p [h [nb [index ST]]]]]]]]].
  destruct ST as [S1 S2 S3 S4 S5 S6 S7 S8 S9 S10 S11 S12 S13].
  rewrite (deg_alloc_len f deg Lf) in S2. injection S2 as <-.
  destruct (mult_tables_cube _ _ _ _ _ _ _ S3) as [C1 C2].
  destruct (compute_i_p_spec deg p pow tbl i_p D1 S4) as [Phi [SPhi [RPhi [Wi SpI]]]].
  assert (PZ : forall y, length y = deg -> In_rowspanZ deg (vscale p y) i_p).
  { intros y Ly. apply (i_p_contains_p deg p pow tbl); assumption. }
  pose proof S5 as S5'. unfold Hnf.range in S5'. rewrite Nat.sub_0_r in S5'.
  destruct (up_loop_spec deg p tbl2 i_p C2 D1 P0 Wi PZ (length i_p) O i_p u_p ltac:(lia) Wi S5') as [Wu [_ SpU]].
  destruct (p_rows_shape deg p) as [Lp Wp].
  destruct (hnf_new_any deg (u_p ++ p_rows deg p) h ltac:(apply wf_app; split; assumption) D1 S8) as [_ [_ SpH]].
  exists pow, tbl, tbl2, i_p, u_p, h, Phi.
  repeat (split; [assumption|]). split; [|exact SpH].
  intros u. rewrite SpU. rewrite <- (multiplier_all deg p tbl2 i_p u C2 Wi).
  split; intros [A B]; (split; [assumption|]); intros i Hi; apply B; lia.
Qed.
