(** * C08 (second wave): [factorize_mod_p] never panics (ssreflect).

    For p prime, f mod p <> 0, at most 2^64 coefficients and pusize = p or p > deg f, for every
    draw stream and both profiles the outcome is [Done] or [OutOfFuel] -- the latter only from the
    bounded retry loops of the equal-degree stage (which terminate with probability 1 in the code),
    since the deterministic stages return ([FmpTotal]). In particular the assertion
    [assert_eq!(factor.deg(), d)] never fires: every piece of the equal-degree stage is irreducible
    of degree exactly d. *)
From Coq Require Import ZArith List Lia Znumtheory.
From mathcomp Require Import all_ssreflect ssralg poly polydiv ssrint zmodp.
From RNT.Model Require Import Base Poly PolyModP FactorModP.
From RNT.Refine Require Import PolyModPArith PolyModPDivList FermatZ PolyZmod PolyModPDiv MonicZ PolyModPGcd FpPoly HenselProofs FactorNorm FactorProd FpTotal FmpField FmpSqf FmpProduct FmpIrred FmpDegree FmpSplit FmpFull FmpTotal.
From mathcomp Require Import ssrZ zify ring.
Set Implicit Arguments. Unset Strict Implicit. Unset Printing Implicit Defensive.
Import GRing.Theory.
Local Open Scope ring_scope.

Definition safe {A : Type} (o : outcome A) : Prop := (exists a, o = Done a) \/ o = OutOfFuel.

Lemma safe_done A (a : A) : safe (Done a). Proof. by left; exists a. Qed.
Lemma safe_oof A : safe (@OutOfFuel A). Proof. by right. Qed.

(** ** Draws *)

Lemma gen_below_safe fuel bound : forall r, safe (gen_below fuel bound r).
Proof.
  elim: fuel => [|f IH] r /=; first exact: safe_oof.
  case: (gen_biguint _ r) => v r1. case: (v <? bound)%ZZ; [exact: safe_done|exact: IH].
Qed.

Lemma draw_below_safe q r : (0 < q)%ZZ -> safe (draw_below q r).
Proof.
  move=> Hq. rewrite /draw_below. have -> : (0 <? q)%ZZ = true by apply/Z.ltb_lt.
  rewrite /gen_range. have -> : (0 <? q)%ZZ = true by apply/Z.ltb_lt.
  case: (gen_below_safe draw_fuel (q - 0) r) => [[[v r1] ->]| ->] /=; [exact: safe_done|exact: safe_oof].
Qed.

Lemma draw_coeffs_safe k q : (0 < q)%ZZ -> forall r, safe (draw_coeffs k q r).
Proof.
  move=> Hq. elim: k => [|k IH] r /=; first exact: safe_done.
  case: (draw_below_safe r Hq) => [[[c r1] ->]| ->] /=; last exact: safe_oof.
  case: (IH r1) => [[[cs r2] ->]| ->] /=; [exact: safe_done|exact: safe_oof].
Qed.

Section Prime.
Variable p : Z.
Hypothesis Hp : Znumtheory.prime p.
Let Hp2 := prime_ge_2 _ Hp.
Let Hpp : (0 < p)%ZZ. Proof. lia. Qed.
Let Hp0 : p <> Z0. Proof. lia. Qed.

Notation n := (pnat p).
Notation RP l := (redp n (PZ l)).
Let n_prime := n_prime Hp.

(** degree facts *)
Lemma pdeg_rnz x : rnz p x -> pdeg x = (Z.of_nat (size (RP x)) - 1)%ZZ.
Proof. move=> [R N]. rewrite (reduced_size Hp R) /pdeg. by case: (x) N. Qed.

Lemma degs_all_size x d :
  rnz p x -> (1 <= d)%ZZ -> degs_all (RP x) (Z.to_nat d) -> (pdeg x =? 0)%ZZ = false ->
  (d <= pdeg x)%ZZ.
Proof.
  move=> Rx Hd A Nc. have S1 := nonunit_size Hp Rx Nc.
  have [g Ig Dg] := irred_dvd_exists S1.
  have Sg := A g Ig Dg. have L := dvdp_leq (rnz_RP Hp Rx) Dg.
  rewrite (pdeg_rnz Rx). move: Sg L S1. move: (size g) (size (RP x)) => a b. lia.
Qed.

Lemma deg_div_nz x d :
  rnz p x -> (1 <= d)%ZZ -> degs_all (RP x) (Z.to_nat d) -> (pdeg x =? 0)%ZZ = false ->
  (pdeg x / d =? 0)%ZZ = false.
Proof.
  move=> Rx Hd A Nc. have L := degs_all_size Rx Hd A Nc. apply/Z.eqb_neq => E.
  have := Z.div_mod (pdeg x) d ltac:(lia). have := Z.mod_pos_bound (pdeg x) d ltac:(lia). rewrite E. lia.
Qed.

(** exact quotient by a proper divisor is non-constant *)
Lemma quot_nonconst poly b dv :
  rnz p poly -> rnz p b -> rnz p dv -> RP poly = RP dv * RP b ->
  (pdeg b =? pdeg poly)%ZZ = false -> (pdeg dv =? 0)%ZZ = false.
Proof.
  move=> Rp Rb Rd E /Z.eqb_neq Nb. apply/Z.eqb_neq. move: Nb.
  rewrite (pdeg_rnz Rp) (pdeg_rnz Rb) (pdeg_rnz Rd).
  have := size_mul (rnz_RP Hp Rd) (rnz_RP Hp Rb). rewrite -E.
  have := rnz_RP Hp Rd. have := rnz_RP Hp Rb. rewrite -!size_poly_gt0.
  move: (size (RP poly)) (size (RP b)) (size (RP dv)) => x y z. lia.
Qed.

(** ** final_split, odd p *)

Opaque split_retries.
Lemma final_split_odd_safe : forall fuel poly d result r,
  rnz p poly -> (1 <= d)%ZZ -> degs_all (RP poly) (Z.to_nat d) -> (pdeg poly =? 0)%ZZ = false ->
  safe (final_split_odd fuel poly p d result r).
Proof.
  elim=> [|f IH] poly d result r Rp Hd A Nc /=; first exact: safe_oof.
  rewrite /deg_div. have -> : (d =? 0)%ZZ = false by apply/Z.eqb_neq; lia.
  rewrite /= (deg_div_nz Rp Hd A Nc).
  case: (pdeg poly / d =? 1)%ZZ; first exact: safe_done.
  move: split_retries r => m. elim: m => [|m IHm] r0 /=; first exact: safe_oof.
  case: (draw_coeffs_safe (Z.to_nat (2 * d)) Hpp r0) => [[[raw r1] ->]| ->] /=; last exact: safe_oof.
  have [tpow Et] := poly_modpow_total Hp (from_raw opsZ raw) (Z.quot (p ^ d - 1) 2) (proj1 Rp). rewrite Et /=.
  have [tpow1 Es] := poly_mod_sub_total Hp tpow (from_mono opsZ 1). rewrite Es /=.
  have Rt1 := poly_mod_sub_reduced Hp Es.
  have [b Eb] := poly_gcd_total Hp Rt1 (proj1 Rp). rewrite Eb /=.
  have [Rb [_ [t Ht]]] := gcd_rnz Hp Rt1 Rp Eb.
  case: b Eb Rb Ht => [|b0 b'] Eb Rb Ht; first exact: IHm.
  case Eb0: (pdeg (b0 :: b') =? 0)%ZZ => /=; first exact: IHm.
  case Ebp: (pdeg (b0 :: b') =? pdeg poly)%ZZ => /=; first exact: IHm.
  have Db : RP (b0 :: b') %| RP poly by move/(eqpm_RP Hp): Ht; rewrite redpM => ->; exact: dvdp_mulr.
  case: (IH (b0 :: b') d result r1 Rb Hd (degs_all_dvd Db A) Eb0) => [[[res1 r2] ->]| ->] /=; last exact: safe_oof.
  have [dv [rem [Ed _]]] := divrem_reduced_total Hp (proj1 Rp) (proj1 Rb). rewrite Ed /=.
  have [Rdv Edv] := quot_RP Hp Rp Rb Ht Ed.
  have Ddv : RP dv %| RP poly by rewrite Edv; exact: dvdp_mulr.
  apply: IH => //; first exact: (degs_all_dvd Ddv A).
  exact: (quot_nonconst Rp Rb Rdv Edv Ebp).
Qed.
Transparent split_retries.

(** ** The pieces have degree exactly d *)

Lemma PZprod_dvd (l : list (list Z)) g : List.In g l -> RP g %| redp n (PZprod l).
Proof.
  elim: l => [|x l IH] //= [->|I]; rewrite redpM; first exact: dvdp_mulr.
  apply: dvdp_mull. exact: IH.
Qed.

Lemma final_split_pieces poly d r out r' :
  rnz p poly -> (1 <= d)%ZZ -> degs_all (RP poly) (Z.to_nat d) ->
  final_split poly p d r = Done (out, r') ->
  List.Forall (fun g => rnz p g /\ pdeg g = d) out.
Proof.
  move=> Rp Hd A H.
  have [P F] := final_split_product Hp Rp H.
  have I := final_split_irred Hp Rp Hd A H.
  apply/List.Forall_forall => g Hg.
  have Rg := proj1 (List.Forall_forall _ _) F g Hg.
  have Ig := proj1 (List.Forall_forall _ _) I g Hg.
  split=> //.
  have Dg : RP g %| RP poly by move/(eqpm_RP Hp): P => ->; exact: PZprod_dvd.
  have Sg := A _ Ig Dg. have [S1 _] := Ig.
  rewrite (pdeg_rnz Rg). move: Sg S1. move: (size (RP g)) => a. lia.
Qed.

Lemma normalise_total : forall spl d e result,
  List.Forall (fun g => rnz p g /\ pdeg g = d) spl ->
  exists out, normalise_factors spl p d e result = Done out.
Proof.
  elim=> [|factor rest IH] d e result Fs /=; first by eexists.
  have [[Rf Df] Frest] : (rnz p factor /\ pdeg factor = d) /\ List.Forall (fun g => rnz p g /\ pdeg g = d) rest
    by move: Fs => /List.Forall_cons_iff.
  have -> : (pdeg factor =? d)%ZZ = true by apply/Z.eqb_eq.
  rewrite /=. have [inv ->] := modinv_total (coef_at opsZ factor (Z.to_nat d)) p. rewrite /=.
  have [f' ->] := poly_mod_total (pmul opsZ factor (from_mono opsZ inv)) p Hp0. rewrite /=. exact: IH.
Qed.

End Prime.

(** ** final_split, p = 2 *)

Lemma trace_loop_total : forall k c t poly,
  reduced 2 poly -> exists out, trace_loop k c t poly = Done out.
Proof.
  have P2 := prime_2. have H2 : (0 < 2)%ZZ by []. have H20 : 2%ZZ <> Z0 by [].
  elim=> [|k IH] c t poly Rp /=; first by eexists.
  have [c1 E1] := poly_mod_total (padd opsZ (pmul opsZ c c) t) 2 H20. rewrite E1 /=.
  have R1 := poly_mod_is_reduced H2 E1.
  have [q [c2 [E2 _]]] := divrem_reduced_total P2 R1 Rp. rewrite E2 /=. exact: IH.
Qed.

Lemma final_split_2_safe : forall fuel poly d result,
  rnz 2 poly -> (1 <= d)%ZZ -> degs_all (redp (pnat 2) (PZ poly)) (Z.to_nat d) -> (pdeg poly =? 0)%ZZ = false ->
  safe (final_split_2 fuel poly d result).
Proof.
  have P2 := prime_2.
  elim=> [|f IH] poly d result Rp Hd A Nc /=; first exact: safe_oof.
  rewrite /deg_div. have -> : (d =? 0)%ZZ = false by apply/Z.eqb_neq; lia.
  rewrite /= (deg_div_nz P2 Rp Hd A Nc).
  case: (pdeg poly / d =? 1)%ZZ; first exact: safe_done.
  have Rx : reduced 2 poly_x.
  { rewrite /poly_x /=. split; first by []. by repeat constructor. }
  move: (length poly + 2)%coq_nat poly_x Rx => m. elim: m => [|m IHm] t Rt /=; first exact: safe_oof.
  have [c Ec] := trace_loop_total (Z.to_nat (d - 1)) t t (proj1 Rp). rewrite Ec /=.
  have Rc := trace_loop_reduced Rt (proj1 Rp) Ec.
  have [b Eb] := poly_gcd_total P2 (proj1 Rp) Rc. rewrite Eb /=.
  have [Rb [[s Hs] _]] := gcd_rnz_l P2 Rp Rc Eb.
  case Eb0: (pdeg b =? 0)%ZZ => /=; first by apply: IHm; exact: mul_x2_reduced.
  case Ebp: (pdeg b =? pdeg poly)%ZZ => /=; first by apply: IHm; exact: mul_x2_reduced.
  have Db : redp (pnat 2) (PZ b) %| redp (pnat 2) (PZ poly).
  { move/(eqpm_RP P2): Hs. rewrite redpM => ->. exact: dvdp_mulr. }
  case: (IH b d result Rb Hd (degs_all_dvd Db A) Eb0) => [[res1 ->]| ->] /=; last exact: safe_oof.
  have [dv [rem [Ed _]]] := divrem_reduced_total P2 (proj1 Rp) (proj1 Rb). rewrite Ed /=.
  have [Rdv Edv] := quot_RP P2 Rp Rb Hs Ed.
  have Ddv : redp (pnat 2) (PZ dv) %| redp (pnat 2) (PZ poly) by rewrite Edv; exact: dvdp_mulr.
  apply: IH => //; first exact: (degs_all_dvd Ddv A).
  exact: (quot_nonconst P2 Rp Rb Rdv Edv Ebp).
Qed.

Section Top.
Variable p : Z.
Hypothesis Hp : Znumtheory.prime p.
Let Hp2 := prime_ge_2 _ Hp.
Let Hpp : (0 < p)%ZZ. Proof. lia. Qed.
Let Hp0 : p <> Z0. Proof. lia. Qed.

Notation n := (pnat p).
Notation RP l := (redp n (PZ l)).

Lemma final_split_safe poly d r :
  rnz p poly -> (1 <= d)%ZZ -> degs_all (RP poly) (Z.to_nat d) -> (pdeg poly =? 0)%ZZ = false ->
  safe (final_split poly p d r).
Proof.
  move=> Rp Hd A Nc. rewrite /final_split. case Eo: (Z.odd p); first exact: final_split_odd_safe.
  have E2 : p = 2%ZZ.
  { have Hev : Z.even p = true by rewrite -Z.negb_odd Eo.
    move/Z.even_spec: Hev => [k Hk].
    have D : (2 | p)%ZZ by exists k; lia.
    case: (prime_divisors _ Hp _ D); lia. }
  move: Hp Rp A. rewrite E2 => Hp' Rp A.
  have A' : degs_all (redp (pnat 2) (PZ poly)) (Z.to_nat d) by move=> g Ig Dg; exact: A Ig Dg.
  case: (final_split_2_safe (length poly + 1) [::] Rp Hd A' Nc) => [[res ->]| ->] /=; [exact: safe_done|exact: safe_oof].
Qed.

Lemma split_degrees_safe : forall degrees e result r,
  List.Forall (dpair_ok p) degrees -> safe (split_degrees degrees p e result r).
Proof.
  elim=> [|[prod d] rest IH] e result r Fd /=; first exact: safe_done.
  have [[Rp /= [Hd A]] Frest] : dpair_ok p (prod, d) /\ List.Forall (dpair_ok p) rest by move: Fd => /List.Forall_cons_iff.
  case E0: (pdeg prod =? 0)%ZZ; first exact: IH.
  case: (final_split_safe r Rp Hd A E0) => [[[spl r1] Ef]| ->] /=; last exact: safe_oof.
  rewrite Ef /=.
  have [res' ->] := normalise_total Hp e result (final_split_pieces Hp Rp Hd A Ef). rewrite /=. exact: IH.
Qed.

Lemma split_sqfree_safe md : forall sq result r,
  List.Forall (sqgood p md) sq -> sqfreep (Rad p sq) -> safe (split_sqfree sq p result r).
Proof.
  elim=> [|[s e] rest IH] result r Fs S /=; first exact: safe_done.
  have [[Rs [_ /= He]] Frest] : sqgood p md (s, e) /\ List.Forall (sqgood p md) rest by move: Fs => /List.Forall_cons_iff.
  rewrite /= in S.
  have Ss : sqfreep (RP s) by apply: sqfreep_dvd S _; exact: dvdp_mulr.
  have Srest : sqfreep (Rad p rest) by apply: sqfreep_dvd S _; exact: dvdp_mull.
  have [degrees Ed] := degree_total Hp Rs. rewrite Ed /=.
  have Fd := degree_ok Hp Rs Ss Ed.
  case: (split_degrees_safe e result r Fd) => [[[res' r1] ->]| ->] /=; last exact: safe_oof.
  exact: IH.
Qed.

(** [P] no panic. *)
Theorem factorize_safe md poly poly1 pusize r :
  (Z.of_nat (length poly) <= two64)%ZZ ->
  pusize = p \/ (Z.of_nat (length poly) <= p)%ZZ ->
  poly_mod poly p = Done poly1 -> poly1 <> [::] ->
  safe (factorize_mod_p md poly p pusize r).
Proof.
  move=> Hl Hpu Em N1.
  have -> : factorize_mod_p md poly p pusize r = factorize_mod_p md poly p p r.
  { case: Hpu => [->|Hlp] //. rewrite /factorize_mod_p Em. cbn [bind].
    rewrite (@squarefree_pu p Hp md poly1 pusize p) //. have := poly_mod_length Hp Em. lia. }
  rewrite /factorize_mod_p Em. cbn [bind].
  have [C1 R1] := poly_mod_is_reduced Hpp Em.
  have Em1 : poly_mod poly1 p = Done poly1 by apply: poly_mod_id.
  have Hl1 : (Z.of_nat (length poly1) <= two64)%ZZ by have := poly_mod_length Hp Em; lia.
  have [sq Es] := squarefree_total Hp md Hl1 (or_introl (erefl p)) Em1 N1. rewrite Es. cbn [bind].
  have Fs := squarefree_good Hp (Z.lt_le_incl _ _ Hpp) Es.
  have Ss := squarefree_rad Hp Es.
  exact: split_sqfree_safe Fs Ss.
Qed.

End Top.
