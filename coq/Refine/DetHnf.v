(** * DetHnf: determinant and rank statements for the HNF entry points (C02, C03), through the
      bridge DetBridge.v: det U = +-1, #rows H = rank of A over Q (k = n - rank), and
      [HNF::determinant] of the normal form of a square non-singular A is |det A|.
      Style: ssreflect/MathComp. *)
From Coq Require Import ZArith List.
From mathcomp Require Import all_ssreflect ssralg zmodp matrix mxalgebra.
From mathcomp Require Import ssrZ zify.
From Coq Require Import QArith Qcanon.
From RNT.Model Require Import Base Poly LinAlg Hnf.
From RNT.Refine Require Import QcField LinAlgQc MatZ HnfOps HnfSpec HnfMain HnfDet DetPivot DetBridge.
Set Implicit Arguments.
Unset Strict Implicit.
Unset Printing Implicit Defensive.
Import GRing.Theory.
Local Close Scope Z_scope.
Local Close Scope Q_scope.
Local Close Scope Qc_scope.
Local Open Scope ring_scope.

(** ** C03: det U = +-1 *)
Theorem hnf_U_det A n m H U k :
  shape n m A -> (1 <= n)%coq_nat -> (1 <= m)%coq_nat -> hnf_with_u A = Done (H, U, k) ->
  \det (zmx n n U) = 1%Z \/ \det (zmx n n U) = (-1)%Z.
Proof.
move=> sA hn hm E.
case: (hnf_with_u_correct A n m H U k sA hn hm E) => _ [sU [uU _]].
exact: unimodular_det.
Qed.

(** ** an echelon matrix over a field has independent rows *)
Lemma row_free_echelon (F : fieldType) r m (M : 'M[F]_(r, m)) (p : 'I_r -> 'I_m) :
  (forall t, M t (p t) != 0) -> (forall t t' : 'I_r, (t' < t)%nat -> M t' (p t) = 0) -> row_free M.
Proof.
move=> hd hz.
pose S : 'M[F]_(m, r) := \matrix_(j, t) (j == p t)%:R.
have eN t t' : (M *m S) t t' = M t (p t').
  rewrite mxE (bigD1 (p t')) //= mxE eqxx mulr1 big1 ?addr0 // => j ne.
  by rewrite mxE (negbTE ne) mulr0.
have trig : is_trig_mx (M *m S).
  by apply/is_trig_mxP => i j lt; rewrite eN hz.
have unitN : M *m S \in unitmx.
  rewrite unitmxE unitfE det_trig //; apply/prodf_neq0 => i _; rewrite eN; exact: hd.
rewrite /row_free eqn_leq rank_leq_row /=.
by rewrite -{1}(mxrank_unit unitN) mxrankM_maxl.
Qed.

Lemma hnf_rows_row_free m H : hnf_rows m 0 H -> row_free (mxQ (length H) m H).
Proof.
move=> /hnf_rows_pivots [p [P1 P2]].
set r := length H.
have pm (t : 'I_r) : (p t < m)%nat.
  by have /ltP ht := ltn_ord t; case: (P1 t ht) => [[_ /ltP]].
pose po (t : 'I_r) := Ordinal (pm t).
apply: (@row_free_echelon _ r m _ po) => [t | t t' lt].
- have /ltP ht := ltn_ord t; case: (P1 t ht) => _ [pos _].
  rewrite !mxE /= q_of_Z_eq0; apply/eqP; move: pos; rewrite /ent /MatZ.row; lia.
- have /ltP ht := ltn_ord t; have /ltP hlt := lt.
  have := @pivots_above H p (fun t ht => proj2 (proj2 (P1 t ht))) P2 t t' hlt ht.
  by rewrite !mxE /= /ent /MatZ.row => ->; rewrite (rmorph0 q_of_Z_rmorphism).
Qed.

(** ** C02/C03: #rows H = rank of A over Q, k = n - rank *)
Theorem hnf_rank_Q A n m H U k :
  shape n m A -> (1 <= n)%coq_nat -> (1 <= m)%coq_nat -> hnf_with_u A = Done (H, U, k) ->
  \rank (mxQ n m A) = length H /\ k = (n - \rank (mxQ n m A))%nat.
Proof.
move=> sA hn hm E.
case: (hnf_with_u_correct A n m H U k sA hn hm E) => hr [sU [uU [eUA ek]]].
have wH : wf m H := hnf_rows_wf m 0 H hr.
set r := length H in ek *.
have en : n = (k + r)%nat by lia.
move: sA sU uU eUA {hn E ek}; rewrite en => sA sU uU eUA.
have [V [VU _]] := unimodular_unit sU uU.
have unitU : mxQ (k + r) (k + r) U \in unitmx.
  have: map_mx q_of_Z V *m mxQ (k + r) (k + r) U = 1%:M by rewrite /mxQ -map_mxM VU map_mx1.
  by case/mulmx1_unit.
have eq1 : mxQ (k + r) (k + r) U *m mxQ (k + r) m A = col_mx 0 (mxQ r m H).
  case: sA sU => lA wA [lU wU].
  rewrite -(mxQ_mmul lU wA lA) eUA /mxQ zmx_cat ?List.repeat_length //.
  by rewrite map_col_mx zmx_zero_rows map_mx0.
have rk : \rank (mxQ (k + r) m A) = r.
  have full : row_full (mxQ (k + r) (k + r) U) by rewrite row_full_unit.
  rewrite -(eqmxMfull _ full).1 eq1 -(addsmxE _ _).1 (adds0mx _ _).1.
  exact/eqP/hnf_rows_row_free.
by rewrite rk addnK.
Qed.

(** ** C02: the determinant of the normal form of a square matrix is |det| (the lattice index) *)
Lemma fold_left_prod (f : nat -> Z) l a :
  List.fold_left (fun acc t => (acc * f t)%Z) l a = a * \prod_(t <- l) f t.
Proof.
elim: l a => [|t l IH] a /=; first by rewrite big_nil mulr1.
by rewrite IH big_cons mulrA.
Qed.

Lemma Lseq_iota a n : List.seq a n = iota a n.
Proof. by elim: n a => //= n IH a; rewrite IH. Qed.

Lemma diag_prod_ord n (H : list (list Z)) : length H = n ->
  diag_prod H = \prod_(i < n) zmx n n H i i.
Proof.
move=> lH; rewrite /diag_prod fold_left_prod mul1r lH Lseq_iota.
have -> : iota 0 n = index_iota 0 n by rewrite /index_iota subn0.
by rewrite big_mkord; apply: eq_bigr => i _; rewrite mxE.
Qed.

Theorem determinant_index A n H :
  shape n n A -> (1 <= n)%coq_nat -> hnf_new A = Done H ->
  (\det (zmx n n A) <> 0%Z -> length H = n /\ hnf_determinant H = Done (Z.abs (\det (zmx n n A)))) /\
  (\det (zmx n n A) = 0%Z -> (length H < n)%coq_nat /\
     hnf_determinant H = Done (if (length H =? 0)%coq_nat then 1%Z else 0%Z)).
Proof.
move=> sA hn /hnf_new_Done [U [k E]].
have [rk ek] := hnf_rank_Q sA hn hn E.
case: (hnf_with_u_correct A n n H U k sA hn hn E) => hr [sU [uU [eUA ekn]]].
have [dspec dpos] := HnfDet.determinant_spec n H hr hn.
split=> [d0|d0].
- have rn : \rank (mxQ n n A) = n by apply: mxrank_unit; rewrite mxQ_unit; apply/eqP.
  have lH : length H = n by rewrite -rk.
  have k0 : k = 0%nat by rewrite ek rn subnn.
  split=> //; rewrite dspec lH.
  have -> : (n =? 0)%coq_nat = false by apply/Nat.eqb_neq; lia.
  rewrite Nat.eqb_refl; congr Done.
  case: (dpos lH) => pos tri.
  move: eUA; rewrite k0 /= => eUA.
  case: sA sU => lA wA [lU wU].
  have eH : zmx n n H = zmx n n U *m zmx n n A by rewrite -(zmx_mmul lU wA lA) eUA.
  have dH : \det (zmx n n H) = diag_prod H.
    rewrite (diag_prod_ord lH) det_trig //; apply/is_trig_mxP => i j lt.
    have /ltP hi := ltn_ord i; have /ltP hlt := lt.
    by rewrite mxE; case: (tri i hi) => _ /(_ j hlt).
  have := congr1 (@matrix.determinant _ n) eH; rewrite det_mulmx dH.
  have := unimodular_det (conj lU wU) uU.
  move: (\det (zmx n n U)) (\det (zmx n n A)) (diag_prod H) pos => dU dA dh pos.
  by case=> ->; lia.
- have lt : (length H < n)%coq_nat.
    apply/ltP; rewrite -rk ltn_neqAle rank_leq_row andbT.
    apply/negP => /eqP rn; have : row_free (mxQ n n A) by rewrite /row_free rn.
    by rewrite row_free_unit mxQ_unit d0 eqxx.
  split=> //; rewrite dspec.
  by have -> : (length H =? n)%coq_nat = false by apply/Nat.eqb_neq; lia.
Qed.

(** ** C03: the number of kernel rows returned by [HNF::kernel] *)
Theorem kernel_rank_count A n m K :
  shape n m A -> (1 <= n)%coq_nat -> (1 <= m)%coq_nat -> hnf_kernel A = Done K ->
  length K = (n - \rank (mxQ n m A))%nat.
Proof.
move=> sA hn hm E.
case: (kernel_annihilates A n m K sA hn hm E) => H [U [k [E' [_ [lK _]]]]].
by case: (hnf_rank_Q sA hn hm E') => _ <-.
Qed.

(** ** C02: for any generating set, [determinant] is |det| of any square basis matrix of the lattice *)
From RNT.Refine Require Import HnfTotal.

Theorem determinant_index_lattice A B n m H :
  shape n m A -> shape m m B -> (1 <= n)%coq_nat -> (1 <= m)%coq_nat ->
  (forall v, In_rowspanZ m v A <-> In_rowspanZ m v B) ->
  \det (zmx m m B) <> 0%Z -> hnf_new A = Done H ->
  hnf_determinant H = Done (Z.abs (\det (zmx m m B))).
Proof.
move=> sA sB hn hm span d0 E.
rewrite (hnf_canonical_eq A B n m m sA sB hn hm hm span) in E.
by case: (determinant_index sB hm E) => /(_ d0) [].
Qed.

(** a square normal form: its determinant is the (positive) product of the pivots *)
Lemma hnf_square_det m H : hnf_rows m 0 H -> (1 <= m)%coq_nat -> length H = m ->
  \det (zmx m m H) = diag_prod H /\ (0 < diag_prod H)%Z.
Proof.
move=> hr hm lH; have [_ dpos] := HnfDet.determinant_spec m H hr hm.
case: (dpos lH) => pos tri; split=> //.
rewrite (diag_prod_ord lH) det_trig //; apply/is_trig_mxP => i j lt.
have /ltP hi := ltn_ord i; have /ltP hlt := lt.
by rewrite mxE; case: (tri i hi) => _ /(_ j hlt).
Qed.
