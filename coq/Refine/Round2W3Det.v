(** Round 2 step, third wave (C06): the second half of [one_step] never panics on a stored basis and
    a prime p.  [HNF::new(U_p; p I)] has full rank (so [assert_eq!(u_p.dim(), deg)] passes), the new
    basis (h / p) O is non-singular (so [Order::from_basis] returns), the old basis is an integer
    combination S of the new one with det S dividing p^deg (so [index] returns a power of p and every
    [assert_eq!(index % p, 0)] passes).  Style: ssreflect/MathComp on the determinant bridge. *)
From Coq Require Import ZArith List Znumtheory.
From mathcomp Require Import all_ssreflect ssralg zmodp matrix mxalgebra.
From mathcomp Require Import ssrZ zify.
From Coq Require Import QArith Qcanon.
From RNT.Model Require Import Base Poly Algebraic LinAlg MultTable Order Round2.
From RNT.Model Require Hnf.
From RNT.Refine Require Import QcField LinAlgQc MatZ HnfSpec HnfMain HnfDet HnfTotal OrderLint OrderCanon DetBridge DetHnf DetOrder.
From RNT.Refine Require Round2Basic Round2Index Round2Lattice Round2Det Round2W3Ip Round2W3Step.
Set Implicit Arguments.
Unset Strict Implicit.
Unset Printing Implicit Defensive.
Import GRing.Theory.
Local Close Scope Z_scope.
Local Close Scope Q_scope.
Local Close Scope Qc_scope.
Local Open Scope ring_scope.

(** ** [p_rows] is the scalar matrix p *)
Lemma zmx_p_rows deg (p : Z) : zmx deg deg (p_rows deg p) = p%:M.
Proof.
apply/matrixP => i j; rewrite !mxE.
have /ltP hi := ltn_ord i; have /ltP hj := ltn_ord j.
rewrite (Round2W3Step.ent_p_rows deg p i j hi hj) eq_sym.
case: Nat.eqb_spec => [e|ne]; case: eqP => [e'|ne']; rewrite ?mulr1n ?mulr0n //.
- by case: ne'; apply: val_inj.
- by case: ne; rewrite e'.
Qed.

(** ** full rank of the normal form of [U_p; p I] *)
Theorem hnf_full_rank deg (p : Z) (u h : list (list Z)) :
  (1 <= deg)%coq_nat -> p <> 0%Z -> wf deg u ->
  Hnf.hnf_new (List.app u (p_rows deg p)) = Done h -> length h = deg.
Proof.
move=> hd p0 wu E.
have [lp wp] := Round2Lattice.p_rows_shape deg p.
set n := (length u + deg)%nat.
have sA : shape n deg (List.app u (p_rows deg p)).
  by split; [rewrite List.app_length lp|apply/wf_app].
have hn : (1 <= n)%coq_nat by rewrite /n; lia.
have [U [k EU]] := hnf_new_Done _ _ E.
have [rk _] := hnf_rank_Q sA hn hd EU.
rewrite -rk /mxQ zmx_cat // map_col_mx zmx_p_rows map_scalar_mx.
apply/eqP; rewrite eqn_leq rank_leq_col /=.
have p0' : q_of_Z p != 0 by rewrite q_of_Z_eq0; apply/eqP.
have rkp : \rank ((q_of_Z p)%:M : 'M[Qc_fieldType]_deg) = deg.
  by rewrite -scalemx1 mxrank_scale_nz // mxrank1.
set X := map_mx _ _.
have : (\rank ((q_of_Z p)%:M : 'M[Qc_fieldType]_deg) <= \rank (col_mx X (q_of_Z p)%:M))%nat.
  by apply: mxrankS; rewrite -addsmxE addsmxSr.
by rewrite rkp.
Qed.

(** ** integer combinations of rational rows as sums *)
Lemma combQ_sum (c : list Z) (B : qmat) j :
  Round2Lattice.combQ c B j
  = \sum_(i < length B) q_of_Z (List.nth i c 0%Z) * (List.nth j (List.nth i B [::]) (Q2Qc 0) : Qc).
Proof.
elim: B c => [|r B IH] c.
  by rewrite big_ord0; case: c.
case: c => [|c0 c].
  rewrite [Round2Lattice.combQ _ _ _]/= big1 // => i _.
  by rewrite nth_nil_Z (rmorph0 q_of_Z_rmorphism) mul0r.
by rewrite [Round2Lattice.combQ _ _ _]/= big_ord_recl /= (IH c).
Qed.

Lemma firstn_all_len A (l : list A) n : length l = n -> List.firstn n l = l.
Proof. by move=> <-; exact: List.firstn_all. Qed.

(** the new basis as a matrix: (1/p) h O *)
Lemma qmx_new_basis deg (p : Z) (h : list (list Z)) (o nb : qmat) :
  shape deg deg h -> length o = deg ->
  (forall i k, (i < deg)%coq_nat -> (k < deg)%coq_nat ->
     List.nth k (List.nth i nb [::]) q0
     = Qcdiv (Round2Lattice.combQ (List.firstn deg (List.nth i h [::])) o k) (qz p)) ->
  qmx deg deg nb = (q_of_Z p)^-1 *: (mxQ deg deg h *m qmx deg deg o).
Proof.
move=> [lh wh] lo e; apply/matrixP => i k; rewrite !mxE.
have /ltP hi := ltn_ord i; have /ltP hk := ltn_ord k.
rewrite -[Q2Qc 0]/q0 (e i k hi hk) firstn_all_len; last first.
  by have := wf_row deg h i wh; rewrite lh => /(_ hi).
rewrite combQ_sum lo -[Qcdiv _ _]/(_ / q_of_Z p) mulrC; congr (_ * _).
by apply: eq_bigr => t _; rewrite !mxE.
Qed.

(** ring power on [Z] *)
Lemma zexp_pow (p : Z) n : p ^+ n = Z.pow p (Z.of_nat n).
Proof.
elim: n => [|n IH]; first by rewrite expr0.
by rewrite exprS IH Nat2Z.inj_succ Z.pow_succ_r //; lia.
Qed.

Lemma lower_det_neq0 deg o : Round2Det.lower_from deg 0 o -> \det (qmx deg deg o) != 0.
Proof.
move=> LO; have [d [Ed Pd]] := Round2Det.determinant_lower deg o LO.
have := determinant_ok Ed; rewrite /= (Round2Det.lf_len _ _ _ LO) => <-.
by apply/eqP; exact: Round2Det.qlt0_neq.
Qed.

Lemma lower_square deg o : Round2Det.lower_from deg 0 o -> length o = deg /\ square o /\ qshape deg deg o.
Proof.
move=> LO; have [lo wo] := Round2Det.lower_from_shape deg o LO.
by split=> //; split; [rewrite /square lo|split].
Qed.

(** ** [P] the second half of the step returns *)
Theorem step_tail_total deg (p : Z) (o : qmat) (u h : list (list Z)) :
  (1 <= deg)%coq_nat -> Znumtheory.prime p -> Round2Det.lower_from deg 0 o -> wf deg u ->
  Hnf.hnf_new (List.app u (p_rows deg p)) = Done h ->
  length h = deg /\
  exists nb o' k,
    [/\ new_basis deg p h o = Done nb, from_basis nb = Done o', (0 <= k)%Z,
        order_index o' o = Done (Z.pow p k) & exists hh, howmany_of (Z.pow p k) p = Done hh].
Proof.
move=> hd pp LO wu E.
have p2 : (2 <= p)%Z by case: pp; lia.
have p0 : p <> 0%Z by lia.
have lh := hnf_full_rank hd p0 wu E.
split=> //.
have [lp wp] := Round2Lattice.p_rows_shape deg p.
have wA : wf deg (List.app u (p_rows deg p)) by apply/wf_app.
have [hr [wh _]] := Round2W3Ip.hnf_new_any deg _ h wA hd E.
have sh : shape deg deg h by [].
have [lo [sqo so]] := lower_square LO.
have [nb Enb] := Round2W3Step.new_basis_total deg p h o p0 sh lo so.2.
have [_ [lnb [wnb enb]]] := Round2Lattice.new_basis_spec deg p h o nb hd Enb.
have snb : qshape deg deg nb by [].
have qnb := qmx_new_basis sh lo enb.
have do0 := lower_det_neq0 LO.
have [dh dhpos] := hnf_square_det hr hd lh.
have p0' : q_of_Z p != 0 by rewrite q_of_Z_eq0; apply/eqP.
have dnb : \det (qmx deg deg nb) != 0.
  rewrite qnb detZ det_mulmx !mulf_neq0 ?expf_neq0 ?invr_eq0 //.
  by rewrite det_mxQ q_of_Z_eq0 dh; apply/eqP; lia.
have [o' Eo'] := hnf_reduce_total hd snb dnb.
have [U [V [sU [sV [eo' enb']]]]] := hnf_reduce_equiv deg nb o' hd snb Eo'.
have [l' [p' [l'pos p'pos lo' sqo' do']]] := stored_det hd snb Eo'.
have so' : qshape deg deg o' by split=> //; move: sqo'; rewrite /square lo'.
have do'0 : \det (qmx deg deg o') != 0.
  apply/eqP => d0; move: do'; rewrite d0 mulr0 => /esym/eqP.
  by rewrite q_of_Z_eq0 => /eqP; lia.
(* p I = C h *)
have [C [sC eC]] := Round2W3Step.p_rows_factor deg p u h hd wu E lh.
have eCh : zmx deg deg C *m zmx deg deg h = p%:M.
  by rewrite -(zmx_mmul sC.1 wh lh) eC zmx_p_rows.
(* the old basis in terms of the new one *)
have qo' : qmx deg deg o' = mxQ deg deg U *m qmx deg deg nb by rewrite {1}eo' (qmx_qmmul sU.1 snb).
have qnb' : qmx deg deg nb = mxQ deg deg V *m qmx deg deg o' by rewrite {1}enb' (qmx_qmmul sV.1 so').
have qo : qmx deg deg o = map_mx q_of_Z (zmx deg deg C *m zmx deg deg V) *m qmx deg deg o'.
  rewrite map_mxM -mulmxA -/(mxQ deg deg V) -qnb' qnb -scalemxAr mulmxA /mxQ -map_mxM eCh map_scalar_mx.
  by rewrite mul_scalar_mx scalerA mulVf // scale1r.
have idx := order_index_spec_n lo' lo sqo' sqo do'0 qo.
(* V U = 1 *)
have VU : zmx deg deg V *m zmx deg deg U = 1%:M.
  have VUQ : map_mx q_of_Z (zmx deg deg V *m zmx deg deg U) = 1%:M.
    rewrite map_mxM.
    have unb : qmx deg deg nb \in unitmx by rewrite unitmxE unitfE.
    apply: (can_inj (mulmxK unb)); rewrite mul1mx.
    by rewrite -mulmxA -/(mxQ deg deg U) -qo' -/(mxQ deg deg V) -qnb'.
  apply/matrixP => i j; apply: q_of_Z_inj.
  move/matrixP/(_ i j): VUQ; rewrite [in LHS]mxE => ->.
  by rewrite !mxE (rmorph_nat q_of_Z_rmorphism).
(* det S divides p^deg *)
set S := zmx deg deg C *m zmx deg deg V in qo idx.
have dvd : (\det S | Z.pow p (Z.of_nat deg))%Z.
  exists (\det (zmx deg deg U) * \det (zmx deg deg h)).
  rewrite -zexp_pow -(det_scalar deg p) -eCh /S !det_mulmx.
  have := congr1 (@matrix.determinant _ deg) VU; rewrite det_mulmx det1.
  move: (\det (zmx deg deg C)) (\det (zmx deg deg V)) (\det (zmx deg deg U)) (\det (zmx deg deg h)) => c v w x e.
  have -> : ((w * x)%R * (c * v)%R)%Z = ((c * x) * (v * w))%R by lia.
  by rewrite e mulr1.
have LO' : Round2Det.lower_from deg 0 o'.
  by apply: (Round2Det.hnf_reduce_lower deg nb o' hd lnb wnb Eo').
have ipos := Round2Det.order_index_pos deg o' o _ LO' LO idx.
have [k [k0 ek]] := Round2W3Step.prime_pow_divisor p pp _ _ (Zle_0_nat deg) (ltac:(lia) : (0 < \det S)%Z) dvd.
exists nb, o', k; split=> //; first by rewrite idx ek.
exact: (Round2W3Step.howmany_of_pow p k p2 k0).
Qed.

(** every linear system over a stored basis has a solution *)
Lemma lower_solvable deg (o : qmat) (v : list Qc) :
  Round2Det.lower_from deg 0 o -> length v = deg ->
  exists x, solve_linear_system fopsQc o v = Done (Ok x).
Proof.
move=> LO lv; have [lo [sqo _]] := lower_square LO.
apply: solve_complete => //; first by rewrite lo.
by rewrite /= lo; exact: lower_det_neq0.
Qed.
