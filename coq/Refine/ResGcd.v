(** [resultant_smart_gcd] (model) against MathComp's [gcdp]: conditional on the exactness flag the
    result is associated (over the fraction field, [%=]) to the gcd of the inputs and has positive
    leading coefficient. ssreflect/MathComp style. *)
From RNT.Model Require Import Base Poly Resultant.
From Coq Require Import ZArith.
From mathcomp Require Import all_ssreflect ssralg poly polydiv.
From mathcomp Require Import ssrZ zify.
From RNT.Refine Require Import PolyRefine PolyDiv PolyZ ResInt.
From RNT.Refine Require ResProofs ResProofs2.
Set Implicit Arguments.
Unset Strict Implicit.
Unset Printing Implicit Defensive.
Import GRing.Theory.
Import Pdiv.Idomain.
Local Open Scope ring_scope.

Lemma gcd_step_eqp (F G Q P H : {poly Z}) (c phi : Z) :
  c != 0 -> phi != 0 -> c *: F = Q * G + P -> P = phi *: H -> gcdp F G %= gcdp G H.
Proof.
move=> nzc nzphi defF defP.
apply: eqp_trans (_ : gcdp (c *: F) G %= _); first by rewrite eqp_sym gcdp_scalel.
rewrite defF defP; apply: eqp_trans (gcdpC _ _) _.
apply: eqp_trans (gcdp_addl_mul _ _ _) _.
exact: gcdp_scaler.
Qed.

Lemma Poly1Z (x : Z) : Poly [:: x] = x%:P.
Proof. by rewrite /= cons_poly_def mul0r add0r. Qed.

Section GcdLoop.
Variable gam : {poly Z}.

Lemma gcd_loop_poly fuel : forall (f g : seq Z) (a b : Z) ex ff,
  canonZ f -> f != [::] -> canonZ g -> a != 0 -> b != 0 ->
  gcdp (Poly f) (Poly g) %= gam ->
  gcd_loop fuel f g a b ex = (true, Done ff) ->
  [/\ canonZ ff, ff != [::] & Poly ff %= gam].
Proof.
elim: fuel => // k IH f g a b ex ff cf nf cg nza nzb hg.
rewrite ResProofs.gcd_loop_S.
case eg: g cg hg => [|g0 g'] cg hg.
  by case=> _ <-; split=> //; move: hg; rewrite /= gcdp0.
rewrite -eg in cg hg *.
have ng : g != [::] by rewrite eg. have ng' : g <> [::] by apply/eqP.
have hf : (0 < size f)%N by rewrite lt0n size_eq0.
have hsg : (0 < size g)%N by rewrite lt0n size_eq0.
have nzG : Poly g != 0 by rewrite canon_Poly_eq0.
rewrite !pdeg_sizeZ //.
case: ifP => [/Z.eqb_eq g1 | /Z.eqb_neq g1].
  have sg1 : size g = 1%N by move: g1 hsg; clear; lia.
  have eg1 : g = [:: g0] by move: sg1; rewrite eg; case: (g').
  case=> _ <-; split=> //.
  have nzg0 : g0 != 0 by move: nzG; rewrite eg1 Poly1Z polyC_eq0.
  apply: eqp_trans hg; rewrite eqp_sym eg1 Poly1Z -[g0%:P]mulr1 -scale_polyE.
  apply: eqp_trans (gcdp_scaler _ _ nzg0) _.
  by rewrite from_mono1 Poly1Z gcdp1.
case: ifP => [/Z.ltb_lt ltfg | /Z.ltb_ge gefg].
  apply: IH => //; apply: eqp_trans hg; exact: gcdpC.
have le_gf : (size g <= size f)%N by move: gefg; clear; lia.
case S: (sub_step f g a b ex) => [e1 [[[[f1 g1'] a1] b1]| |]] //= L.
have e1t : e1 = true by apply: (ResProofs2.gcd_loop_mono _ _ _ _ _ _ _ _ L).
rewrite e1t in S L.
have cf' : ResProofs2.canon f by apply/canon_canonZ.
have zl : zlast g <> 0%Z.
  by move/canon_canonZ: cg => [] // h; move: ng; rewrite h.
have nza' : a <> 0%Z by apply/eqP.
have nzb' : b <> 0%Z by apply/eqP.
have dle : (pdeg g <= pdeg f)%Z by rewrite !pdeg_sizeZ //; move: le_gf; clear; lia.
have [g2 [a2 [b2 [[ef1 eg1 ea1 eb1] [cg1 [nza1 [nzb1 ltg1]]]]]]] :=
  ResProofs2.sub_step_inv f g a b ex _ cf' ng' zl nza' nzb' dle S.
rewrite ef1 in S L; rewrite -eg1 -ea1 -eb1 in cg1 nza1 nzb1 ltg1.
have [a1E b1E [Q [P [defA szP defP]]]] := sub_step_poly cf cg ng le_gf S.
have cg1' : canonZ g1' by apply/canon_canonZ.
apply: IH L => //; try exact/eqP.
apply: eqp_trans hg; rewrite eqp_sym.
apply: (gcd_step_eqp _ _ defA defP); first by rewrite expf_neq0 // lead_coef_eq0.
by rewrite mulf_neq0 ?expf_neq0.
Qed.

End GcdLoop.

(** content and primitive part as computed by [content_chk] / [poly_div] *)
Lemma content_pp (p : seq Z) : canonZ p -> p != [::] ->
  exists c pp, [/\ content_chk p = Done c, poly_div p c = Done pp, c != 0 &
                   [/\ c *: Poly pp = Poly p, canonZ pp, pp != [::] & (0 < last 0 pp)%Z]].
Proof.
move=> cp np; case E: (cont_pp p) => [c pp].
have [H1 H2 H3 _ _] := cont_pp_main cp np E.
have nzP : Poly p != 0 by rewrite canon_Poly_eq0.
have nzc : c != 0 by apply: contraNneq nzP => c0; rewrite -H1 c0 scale0r.
have npp : pp != [::] by apply: contraNneq nzP => e; rewrite -H1 e /= scaler0.
exists c, pp; split=> //.
- rewrite /content_chk /content E /=; case: (p) np => // x t _.
  by move/eqP/Z.eqb_neq: nzc => ->.
- rewrite /poly_div; case ep: p np E => [|x t] // _; rewrite -ep.
  move/eqP/Z.eqb_neq: (nzc) => ->; rewrite /cont_pp ep -ep => -[ec <-].
  by rewrite ec.
Qed.

Lemma Poly_map_mulr (l : seq Z) (d : Z) : Poly (List.map (fun c => (c * d)%Z) l) = d *: Poly l.
Proof.
rewrite Lmap_eq; apply/polyP=> i; rewrite coefZ !coef_Poly.
case: (ltnP i (size l)) => hi; first by rewrite (nth_map 0) // mulrC.
by rewrite !nth_default ?size_map // mulr0.
Qed.

(** [C] [gcd_partial]: canonical inputs, f <> 0. If the run returns [d] with exactness flag true, then
    [d] is associated over Q to the gcd of f and g (MathComp [gcdp] on the integral domain Z: equality up to
    non-zero constant factors), is canonical, and has positive leading coefficient.
    Full statement (not proved): the flag is always true; moreover d | f and d | g in Z[x] with coprime
    cofactor contents (Gauss lemma), and deg d = deg f + deg g - rank Sylvester. *)
Theorem gcd_partial (f g : seq Z) d :
  ResProofs.canonb f = true -> ResProofs.canonb g = true -> f <> [::] ->
  resultant_gcd f g = (true, Done d) ->
  [/\ Poly d %= gcdp (Poly f) (Poly g), (0 < lead_coef (Poly d))%Z & ResProofs.canonb d = true].
Proof.
rewrite !canonb_canonZ => cf cg /eqP nf; rewrite /resultant_gcd /resultant_smart_gcd.
case ef: f nf => [|f0 f'] // _; rewrite -ef.
have nf : f != [::] by rewrite ef.
have [cf0 [f1 [E1 E2 nzcf [Hf cf1 nf1 _]]]] := content_pp cf nf.
have [cg0 [g1 [Hcg Hdg [Hg cg1]]]] : exists cg0 g1, [/\ content_chk g = Done cg0, poly_div g cg0 = Done g1 &
     Poly g %= Poly g1 /\ canonZ g1].
  case eg: g cg => [|g0 g'] cg; first by exists 0, [::]; split=> //; split=> //; exact: eqpxx.
  rewrite -eg in cg *; have ng : g != [::] by rewrite eg.
  have [c [pp [Ec Ep nzc [H cpp _ _]]]] := content_pp cg ng.
  by exists c, pp; split=> //; split=> //; rewrite -H eqp_scale.
rewrite E1 /= Hcg /= E2 /= Hdg /=.
case L: (gcd_loop _ _ _ _ _ _) => [e1 [ff| |]] //=.
case C1: (content_chk ff) => [c'| |] //=; case C2: (poly_div ff c') => [pf| |] //= [e1t <-].
rewrite e1t in L.
have one0 : (1 : Z) != 0 by [].
have [cff nff Hff] := gcd_loop_poly cf1 nf1 cg1 one0 one0 (eqpxx _) L.
have [c'' [pf' [C1' C2' nzc' [Hpf cpf npf lpf]]]] := content_pp cff nff.
move: C1 C2; rewrite C1' => -[<-]; rewrite C2' => -[<-].
set dd := Z.gcd cf0 cg0.
have ddpos : (0 < dd)%Z.
  have := Z.gcd_nonneg cf0 cg0; have := Z.gcd_eq_0 cf0 cg0; rewrite -/dd.
  by move/eqP: nzcf; clear; lia.
have nzdd : dd != 0 by apply/eqP; move: ddpos; clear; lia.
have ePd : Poly (poly_mul pf' dd) = dd *: Poly pf'.
  by rewrite /poly_mul; case: (pf') npf => // x t _; rewrite /from_raw opsZ_eq Poly_strip Poly_map_mulr.
have lcpf : lead_coef (Poly pf') = last 0 pf' by rewrite -zlast_lead // /zlast Llast_eq.
split.
- rewrite ePd; apply: eqp_trans (eqp_scale _ nzdd) _.
  apply: eqp_trans (_ : Poly ff %= _); first by rewrite -Hpf eqp_sym eqp_scale.
  apply: eqp_trans Hff _; apply: eqp_gcd; last by rewrite eqp_sym.
  by rewrite -Hf eqp_sym eqp_scale.
- by rewrite ePd lead_coefZ lcpf; apply: Z.mul_pos_pos.
- by rewrite /poly_mul; case: (pf') npf => // x t _; rewrite /from_raw opsZ_eq; apply: strip_canon.
Qed.
