(** * IdealW6Dual (C16, sixth wave): what [Ideal::inv] returns.  For an order with commutative associative table
      and non-singular trace form ([get_inv_diff] returns D = (l, Nd)) and a full-rank lattice I in normal form,
      [ideal_inv I D = Done (a, N)] implies a = cap_z I > 0 and
        v in N  <->  for all w in I, a divides every coordinate of v * w,
      i.e. N = a (O : I): the colon lattice scaled by a.  (Trace duality twice: N/a is the trace dual of
      I * dual(O), and dual(dual(O)) = O.)  No maximality, no unit element needed.
      Style: ssreflect/MathComp. *)
From Coq Require Import ZArith List.
From mathcomp Require Import all_ssreflect ssralg zmodp matrix mxalgebra.
From mathcomp Require Import ssrZ zify.
From Coq Require Import QArith Qcanon.
From RNT.Model Require Import Base Poly Algebraic LinAlg MultTable Ideal.
From RNT.Model Require Hnf.
From RNT.Refine Require Import QcField LinAlgQc LinAlgList MatZ HnfSpec HnfMain IdealMul IdealSpec IdealLaws IdealInv IdealCapZ.
From RNT.Refine Require Import DetBridge DetHnf DetIdeal DetInvDiff OrderW3Dual AlgNormMx AlgNormFlags IdealW6Core IdealW6Trace.
From RNT.Refine Require MultTableOps.
Set Implicit Arguments.
Unset Strict Implicit.
Unset Printing Implicit Defensive.
Import GRing.Theory.
Local Close Scope Z_scope.
Local Close Scope Q_scope.
Local Close Scope Qc_scope.
Local Open Scope ring_scope.

(** ** pairing a row vector with the elements of a lattice *)
Definition pair_rv n (x : 'rV[Z]_n) (w : list Z) : Z := (x *m (zrv n w)^T) 0 0.

Lemma pair_rv_mx n p (x : 'rV[Z]_n) (A : list (list Z)) (i : 'I_p) :
  (x *m (zmx p n A)^T) 0 i = pair_rv x (List.nth i A [::]).
Proof. by rewrite /pair_rv !mxE; apply: eq_bigr => k _; rewrite !mxE. Qed.

Lemma dvd_sum (I : Type) (r : list I) (F : I -> Z) (s : Z) :
  (forall i, Z.divide s (F i)) -> Z.divide s (\sum_(i <- r) F i).
Proof.
move=> h; elim/big_ind: _ => [|a b [qa ->] [qb ->]|i _]; [by exists 0%Z| |exact: h].
by exists (qa + qb)%Z; rewrite -[(_ + _)%R]/(_ + _)%Z; lia.
Qed.

Lemma dvd_mulr (s a b : Z) : Z.divide s a -> Z.divide s (a * b).
Proof. by case=> q ->; exists (q * b)%Z; lia. Qed.

Lemma dual_rows n p (x : 'rV[Z]_n) (A : list (list Z)) (s : Z) : s <> 0%Z -> shape p n A ->
  (exists c : 'rV[Z]_p, x *m (zmx p n A)^T = s *: c) <->
  (forall w, In_rowspanZ n w A -> Z.divide s (pair_rv x w)).
Proof.
move=> s0 [lA wA]; split.
  move=> [c ec] w /(rowspan_mx w wA lA) [lw [cw ew]].
  rewrite /pair_rv ew trmx_mul mulmxA ec -scalemxAl mxE.
  by exists ((c *m cw^T) 0 0); rewrite mulrC.
move=> h.
exists (\row_i Z.div (pair_rv x (List.nth i A [::])) s).
apply/rowP => i; rewrite pair_rv_mx [RHS]mxE [X in _ * X]mxE.
have [q eq] : Z.divide s (pair_rv x (List.nth i A [::])).
  apply: h; apply: span_row_in => //; apply: List.nth_In; rewrite lA; exact/ltP.
by rewrite eq Z.div_mul // -[(s * q)%R]/(s * q)%Z; lia.
Qed.

Lemma span_dvd n (x : 'rV[Z]_n) (A : list (list Z)) (s : Z) : wf n A ->
  (forall r, List.In r A -> Z.divide s (pair_rv x r)) ->
  forall w, In_rowspanZ n w A -> Z.divide s (pair_rv x w).
Proof.
move=> wA h w /(rowspan_mx w wA (erefl _)) [lw [cw ew]].
rewrite /pair_rv ew trmx_mul mulmxA mxE; apply: dvd_sum => i.
apply: dvd_mulr; rewrite pair_rv_mx; apply: h.
by apply: List.nth_In; exact/ltP.
Qed.

(** a normal form has at most as many rows as columns *)
Lemma hnf_len_le n H : hnf_rows n 0 H -> (length H <= n)%nat.
Proof.
move=> /hnf_rows_row_free; rewrite /row_free => /eqP <-; exact: rank_leq_col.
Qed.

(** the quotient returned by [mul_inv_from_right_exact] has as many rows as its first argument *)
Lemma mul_inv_len a b r : mul_inv_from_right_exact a b = Done (Ok r) -> length r = length a.
Proof.
rewrite /mul_inv_from_right_exact => E.
bind_inv E as brat Eb. bind_inv E as ri Er.
case: ri Er E => [invb|e] Er E //. bind_inv E as ans Ea. case: E => <-.
exact: (mapM_length _ _ _ Ea).
Qed.

Lemma pair_trf n t (v w : list Z) : pair_rv (zrv n v *m trace_form t n) w = trf n t v w.
Proof. by []. Qed.

(** ** the colon lattice, in coordinates: v / a is in (O : I) *)
Definition in_colon (t : table) (a : Z) (HI : list (list Z)) (v : list Z) : Prop :=
  length v = length t /\
  forall w, In_rowspanZ (length t) w HI -> forall j, Z.divide a (List.nth j (bil t v w) 0%Z).

Section InvDual.
Variables (n : nat) (t : table).
Hypothesis ct : MultTableOps.cube n t.
Hypothesis n0 : (0 < n)%nat.
Hypothesis hc : tcomm t n.
Hypothesis ha : tassoc t n.

Let T := trace_form t n.
Let lt : length t = n. Proof. by case/andP: ct => /eqP. Qed.
Let ht : tshape t := cube_tshape ct.
Let hn : (1 <= n)%coq_nat. Proof. exact/leP. Qed.

(** x in a Z^n  <->  a l | Tr(x z) for all z in Nd = l dual(O) *)
Lemma dual_of_inv_diff (l : Z) (h : list (list Z)) (x : list Z) (a : Z) :
  mt_inv_diff t = Done (l, h) -> size x = n ->
  (forall z, In_rowspanZ n z h -> Z.divide (a * l) (trf n t x z)) <->
  (forall j, Z.divide a (List.nth j x 0%Z)).
Proof.
move=> E sx.
have [int [lpos sI Eh IT TI]] := inv_diff_scaled_inverse ct n0 E.
have [_ [wh sp]] := hnf_new_correct int n n h sI hn hn Eh.
have Tsym := trace_form_sym ct hc.
have DD := @dual_dual n T (zmx n n int) l Tsym IT lpos (zrv n x) a.
split.
  move=> hz j; case: (ltnP j n) => hj; last first.
    by rewrite List.nth_overflow; [exists 0%Z|rewrite -[length x]/(size x) sx; apply/leP].
  have := proj1 DD _ (Ordinal hj); rewrite mxE /=; apply => u.
  pose z : list Z := [seq u 0 i | i <- enum 'I_n].
  have sz : length z = n by rewrite -[length z]/(size z) size_map size_enum_ord.
  have ez : zrv n z = u.
    by apply/rowP => i; rewrite mxE Lnth_nth (nth_map i) ?size_enum_ord // nth_ord_enum.
  pose w := lincomb n z int.
  have ew : zrv n w = u *m zmx n n int by rewrite (zrv_lincomb _ sI.2 sI.1) ez.
  have := hz w; rewrite /trf ew; apply.
  by apply/sp; exists z; rewrite sz sI.1.
move=> hx z /sp /(rowspan_mx z sI.2 sI.1) [lz [u eu]].
by rewrite /trf eu; apply: (proj2 DD) => j; have := hx j; rewrite mxE.
Qed.

(** ** [P] inv_dual_spec, in the vocabulary of cube / tmul *)
Theorem inv_dual_cube m (HI : list (list Z)) l hd a N :
  wf n HI -> is_hnf HI = true -> length HI = n ->
  mt_inv_diff t = Done (l, hd) ->
  ideal_inv m (mkIdeal HI t) (l, mkIdeal hd t) = Done (a, N) ->
  [/\ i_table N = t, wf n (i_hnf N), is_hnf (i_hnf N) = true, cap_z (mkIdeal HI t) = Done a /\ (0 < a)%Z
    & forall v, In_rowspanZ n v (i_hnf N) <->
        (length v = n /\ forall w, In_rowspanZ n w HI -> forall j, Z.divide a (List.nth j (bil t v w) 0%Z))].
Proof.
move=> wI iI lI Ed E.
have [int [lpos sI Eh IT TI]] := inv_diff_scaled_inverse ct n0 Ed.
have [ihd [whd spd]] := hnf_new_correct int n n hd sI hn hn Eh.
(* unfold inv *)
move: E; rewrite /ideal_inv /ideal_deg /mt_deg /frac_numer /frac_denom /frac_new /ideal_new /= lt => E.
bind_inv E as az Eaz. bind_inv E as c0 Ec0. bind_inv E as tr Etr. bind_inv E as tnt Etnt.
bind_inv E as r Er. bind_inv E as trd Etrd. bind_inv E as hN EhN.
case: E => ea eN; rewrite -{}eN -{}ea /=.
case: r Er Etrd => [r|e] Er //= [er]; rewrite {}er in Er.
(* cap_z *)
have [a' [Ea' [apos _]]] := @cap_z_spec (mkIdeal HI t) n wI iI lI hn.
move: Ea'; rewrite Eaz => -[ea']; rewrite -{a'}ea' in apos.
(* the product *)
have := @mul_spec m (mkIdeal HI t) (mkIdeal hd t) c0; rewrite /= lt => /(_ ht wI whd hn Ec0).
move=> [tc0 [ic0 [wc0 spc0]]].
have hrc0 := is_hnf_hnf_rows n (i_hnf c0) wc0 ic0.
have lc0 : length (i_hnf c0) = n.
  apply/eqP; rewrite eqn_leq (hnf_len_le hrc0) /=.
  by rewrite /Hnf.hnf_as_vecs in Etnt; exact: (tnt_matrix_rows n0 Etnt).
have sc0 : shape n n (i_hnf c0) by split.
have [str etr] := trace_matrix_zmx ct Etr.
have [stnt etnt] := tnt_matrix_zmx str sc0 Etnt.
have := mul_inv_ok Er; rewrite /= scaled_identity_length scaled_identity_zmx etnt etr => eG.
have wtrd : wf n trd by have := mul_inv_shape _ _ _ Er; rewrite scaled_identity_length.
have ltrd : length trd = n by rewrite (mul_inv_len Er) scaled_identity_length.
have [ihN [whN spN]] := hnf_new_correct0 trd n hN wtrd hn EhN.
have al0 : (az * l)%Z <> 0%Z by lia.
split=> // v.
rewrite (spN v) (rowspan_mx v wtrd ltrd).
split.
  case=> lv /(rowlat_scaled_dual al0 eG).
  rewrite mulmxA => /(dual_rows (zrv n v *m T) al0 sc0) hC; split=> // w hw.
  have sw : size w = n by rewrite -[size w]/(length w) (span_length n w HI).
  have sv : size v = n by [].
  have sbil : size (bil t v w) = n by rewrite -[size _]/(length _) bil_length.
  apply/(dual_of_inv_diff _ Ed sbil) => z hz.
  have sz : size z = n by rewrite -[size z]/(length z) (span_length n z hd).
  rewrite (bil_tmul ct sv sw) (trf_assoc ct ha sv sw sz) -(bil_tmul ct sw sz) -pair_trf.
  apply: hC; apply/spc0.
  by have := @prod_rows_member t HI hd w z ht; rewrite lt; apply.
case=> lv hv; split=> //; apply/(rowlat_scaled_dual al0 eG).
rewrite mulmxA; apply/(dual_rows (zrv n v *m T) al0 sc0) => w /spc0.
have wpr : wf n (prod_rows t HI hd) by have := prod_rows_wf t HI hd ht; rewrite lt.
apply: (span_dvd wpr) => rw /List.in_map_iff [[y z] [<- /List.in_prod_iff [hy hz]]] /=.
have Iy : In_rowspanZ n y HI by apply: span_row_in.
have Iz : In_rowspanZ n z hd by apply: span_row_in.
have sy : size y = n by rewrite -[size y]/(length y) (span_length n y HI).
have sz : size z = n by rewrite -[size z]/(length z) (span_length n z hd).
have sv : size v = n by [].
have sbil : size (bil t v y) = n by rewrite -[size _]/(length _) bil_length.
rewrite pair_trf (bil_tmul ct sy sz) -(trf_assoc ct ha sv sy sz) -(bil_tmul ct sv sy).
by move: z Iz {hz sz}; apply/(dual_of_inv_diff _ Ed sbil); apply: hv.
Qed.
End InvDual.

(** ** [P] inv_dual_spec: the entry points [get_inv_diff], [ideal_inv], boolean flags *)
Theorem inv_dual_spec m I D a N :
  let t := i_table I in let n := length t in
  tshape t -> table_comm t = true -> table_assoc t = true -> (1 <= n)%coq_nat ->
  wf n (i_hnf I) -> is_hnf (i_hnf I) = true -> length (i_hnf I) = n ->
  get_inv_diff t = Done D -> ideal_inv m I D = Done (a, N) ->
  [/\ i_table N = t, wf n (i_hnf N), is_hnf (i_hnf N) = true, cap_z I = Done a /\ (0 < a)%Z
    & forall v, In_rowspanZ n v (i_hnf N) <-> in_colon t a (i_hnf I) v].
Proof.
case: I => HI t /= ht fc fa hn wI iI lI.
have ct := tshape_cube ht.
have n0 : (0 < length t)%nat by apply/leP.
rewrite /get_inv_diff; case Ed: (mt_inv_diff t) => [[l hd]| |] //= [<-] E.
exact: (inv_dual_cube ct n0 (flag_tcomm ct fc) (flag_tassoc ct fa) wI iI lI Ed E).
Qed.
