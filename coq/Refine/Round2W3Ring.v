(** Round 2 step, third wave (C06): the lattice U_p + p Z^n handed to [new_basis] is closed under the
    multiplication of the input order, up to the factor p (so that (U_p + p O)/p is closed under
    multiplication), PROVIDED I_p is an ideal of the order (it is the radical of p O; that needs the
    additivity of x -> x^(p^k) mod p, which is not proved) and the exact integer table of the order is
    commutative and associative (it is, for tables of orders: C14 [table_of_order_comm_assoc]).
    stdlib + lia. *)
From RNT.Model Require Import Base Poly Algebraic LinAlg MultTable Order Round2.
From RNT.Model Require Hnf.
From RNT.Refine Require Import MatZ HnfOps HnfSpec HnfMain HnfKernel HnfTotal HnfUnique.
From RNT.Refine Require Import Round2Basic Round2Index Round2Lattice Round2Det Round2Fuel.
From RNT.Refine Require Import Round2W3Ip Round2W3Up Round2W3Step Round2W3Total.
From RNT.Refine Require MultTableOps AlgNormMx Round2W3Mul MultTableGet.
From Coq Require Import Lia Znumtheory.
Open Scope Z_scope.

(** ** more on spans *)
Lemma vscale_inj p a b : p <> 0 -> length a = length b -> vscale p a = vscale p b -> a = b.
Proof.
  intros P0 L E. apply vec_ext with (length a); [reflexivity|lia|].
  intros k Hk. apply (f_equal (fun l => nth k l 0)) in E. rewrite !nth_vscale in E. nia.
Qed.

Lemma vscale_vscale p q v : vscale p (vscale q v) = vscale (p * q) v.
Proof. unfold vscale. rewrite map_map. apply map_ext. intros. lia. Qed.

Lemma rowspan_app m A B v : wf m A -> wf m B ->
  In_rowspanZ m v (A ++ B) <-> exists a b, In_rowspanZ m a A /\ In_rowspanZ m b B /\ v = vadd a b.
Proof.
  intros WA WB. split.
  - intros [c [Lc ->]]. rewrite app_length in Lc.
    exists (lincomb m (firstn (length A) c) A), (lincomb m (skipn (length A) c) B).
    split; [exists (firstn (length A) c); split; [rewrite firstn_length; lia|reflexivity]|].
    split; [exists (skipn (length A) c); split; [rewrite skipn_length; lia|reflexivity]|].
    rewrite <- (firstn_skipn (length A) c) at 1. apply lincomb_app; try assumption. rewrite firstn_length. lia.
  - intros [a [b [[c [Lc ->]] [[d [Ld ->]] ->]]]]. exists (c ++ d). split; [rewrite !app_length; lia|].
    symmetry. apply lincomb_app; assumption.
Qed.

Lemma rowspan_p_rows deg p v :
  In_rowspanZ deg v (p_rows deg p) <-> exists y, length y = deg /\ v = vscale p y.
Proof.
  destruct (p_rows_shape deg p) as [Lp Wp]. split.
  - intros [c [Lc ->]]. exists c. split; [lia|]. apply lincomb_p_rows. lia.
  - intros [y [Ly ->]]. exists y. split; [lia|]. symmetry. apply lincomb_p_rows. assumption.
Qed.

Section Closure.
Variables (deg : nat) (p : Z) (T : table) (i_p u_p : mat).
Hypothesis CT : MultTableOps.cube deg T = true.
Hypothesis HC : AlgNormMx.tcomm T deg.
Hypothesis HA : AlgNormMx.tassoc T deg.
Hypothesis P0 : p <> 0.
Hypothesis Wi : wf deg i_p.
Hypothesis Wu : wf deg u_p.
(** p Z^deg is inside I_p *)
Hypothesis PZ : forall y, length y = deg -> In_rowspanZ deg (vscale p y) i_p.
(** I_p is an ideal of the order *)
Hypothesis ID : forall x y, In_rowspanZ deg x i_p -> length y = deg -> In_rowspanZ deg (tmul T deg y x) i_p.
(** U_p is the p-fold multiplier lattice of I_p *)
Hypothesis UP : forall u, In_rowspanZ deg u u_p <->
  In_rowspanZ deg u i_p /\ forall x, In_rowspanZ deg x i_p -> In_rowspanZ deg (tmul T deg x u) (pI p i_p).

Let len_i x : In_rowspanZ deg x i_p -> length x = deg := rowspan_length deg i_p x Wi.

(** p Z^deg is inside U_p *)
Lemma pZ_in_U y : length y = deg -> In_rowspanZ deg (vscale p y) u_p.
Proof.
  intros Ly. apply UP. split; [apply PZ; assumption|]. intros x Hx.
  rewrite Round2W3Mul.tmul_vscale_r by assumption.
  apply pI_iff; [assumption|]. exists (tmul T deg x y). split; [|reflexivity].
  rewrite HC by (first [assumption | apply len_i; assumption]). apply ID; assumption.
Qed.

(** the lattice [U_p + p Z^deg] is U_p *)
Lemma span_L v : In_rowspanZ deg v (u_p ++ p_rows deg p) <-> In_rowspanZ deg v u_p.
Proof.
  destruct (p_rows_shape deg p) as [Lp Wp]. rewrite rowspan_app by assumption. split.
  - intros [a [b [Ha [Hb ->]]]]. apply rowspan_add; [assumption|assumption|].
    apply rowspan_p_rows in Hb. destruct Hb as [y [Ly ->]]. apply pZ_in_U. assumption.
  - intros Hv. exists v, (vzero deg). split; [assumption|]. split; [apply rowspan_zero; assumption|].
    symmetry. apply vadd_vzero_r. apply (rowspan_length deg u_p); assumption.
Qed.

(** the product of two elements of U_p is p times an element of U_p *)
Lemma U_closed u v : In_rowspanZ deg u u_p -> In_rowspanZ deg v u_p ->
  exists w, In_rowspanZ deg w u_p /\ tmul T deg u v = vscale p w.
Proof.
  intros Hu Hv. pose proof (proj1 (UP u) Hu) as [Iu Mu]. pose proof (proj1 (UP v) Hv) as [Iv Mv].
  pose proof (len_i u Iu) as Lu. pose proof (len_i v Iv) as Lv.
  destruct (proj1 (pI_iff deg p i_p _ Wi) (Mv u Iu)) as [w [Iw Ew]].
  pose proof (len_i w Iw) as Lw.
  exists w. split; [|exact Ew]. apply UP. split; [assumption|]. intros x Ix.
  pose proof (len_i x Ix) as Lx.
  (* p (x w) = x (u v) = (x u) v = (p z) v = p (z v) = p (p z') *)
  destruct (proj1 (pI_iff deg p i_p _ Wi) (Mu x Ix)) as [z [Iz Ez]].
  pose proof (len_i z Iz) as Lz.
  destruct (proj1 (pI_iff deg p i_p _ Wi) (Mv z Iz)) as [z' [Iz' Ez']].
  pose proof (len_i z' Iz') as Lz'.
  apply pI_iff; [assumption|]. exists z'. split; [assumption|].
  apply (vscale_inj p); [assumption|rewrite vscale_length, Round2W3Mul.tmul_length; lia|].
  rewrite <- Round2W3Mul.tmul_vscale_r by assumption. rewrite <- Ew.
  rewrite <- HA by assumption. rewrite Ez.
  rewrite Round2W3Mul.tmul_vscale_l by assumption. rewrite Ez'. reflexivity.
Qed.

(** [C] ring closure in coordinates: for a, b in U_p + p Z^deg, a * b lies in p (U_p + p Z^deg) *)
Theorem L_closed h :
  (forall v, In_rowspanZ deg v h <-> In_rowspanZ deg v (u_p ++ p_rows deg p)) -> wf deg h ->
  forall a b, In_rowspanZ deg a h -> In_rowspanZ deg b h -> In_rowspanZ deg (tmul T deg a b) (pI p h).
Proof.
  intros SH Wh a b Ha Hb. apply SH, span_L in Ha. apply SH, span_L in Hb.
  destruct (U_closed a b Ha Hb) as [w [Hw ->]].
  apply pI_iff; [assumption|]. exists w. split; [|reflexivity]. apply SH, span_L. assumption.
Qed.
End Closure.

(** ** the exact table behind the two reduced tables *)
Lemma mapM_rel {A B C} (f : A -> outcome B) (g : A -> outcome C) (h : C -> B) : forall l ys,
  (forall x y, In x l -> f x = Done y -> exists z, g x = Done z /\ y = h z) ->
  mapM f l = Done ys -> exists zs, mapM g l = Done zs /\ ys = map h zs.
Proof.
  induction l as [|x l IH]; intros ys H E; cbn [mapM] in E.
  - injection E as <-. exists []. split; reflexivity.
  - destruct (f x) as [y| |] eqn:Fx; cbn [bind] in E; try discriminate.
    destruct (mapM f l) as [t| |] eqn:Ft; cbn [bind] in E; try discriminate.
    injection E as <-. destruct (H x y (or_introl eq_refl) Fx) as [z [Gz ->]].
    destruct (IH t) as [zs [Gzs ->]]; [intros x' y' Hx'; apply H; right; assumption|reflexivity|].
    exists (z :: zs). cbn [mapM]. rewrite Gz, Gzs. split; reflexivity.
Qed.

Definition red2 (p p2 : Z) (x : Z) : Z * Z := (Z.rem x p2, Z.rem (Z.rem x p2) p).

Lemma table_entries_exact deg inv p p2 l :
  table_entries deg inv p p2 = Done l ->
  exists v, to_int_vec deg inv = Done v /\ l = map (red2 p p2) v.
Proof.
  unfold table_entries, to_int_vec. apply mapM_rel. intros k y _ E. cbv beta in *.
  destruct (nth_chk inv k) as [x| |]; cbn [bind] in *; try discriminate.
  destruct (assert_ (q_is_integer x)) as [[]| |]; cbn [bind] in *; try discriminate.
  unfold zrem in E. destruct (p2 =? 0); cbn [bind] in E; try discriminate.
  destruct (p =? 0); cbn [bind] in E; try discriminate. injection E as <-.
  eexists. split; reflexivity.
Qed.

Theorem mult_tables_exact f o deg p p2 tbl tbl2 :
  length o = deg -> mult_tables f o deg p p2 = Done (tbl, tbl2) ->
  exists T, get_mult_table o f = Done T /\
            tbl2 = map (map (map (fun x => Z.rem x p2))) T /\
            tbl = map (map (map (fun x => Z.rem (Z.rem x p2) p))) T.
Proof.
  intros Lo H. unfold mult_tables in H.
  destruct (mapM _ (seq 0 deg)) as [cells| |] eqn:EC; cbn [bind] in H; try discriminate.
  injection H as <- <-. unfold get_mult_table. rewrite Lo.
  eapply (mapM_rel _ _ (map (map (red2 p p2)))) in EC.
  - destruct EC as [T [ET ->]]. exists T. split; [exact ET|].
    split; rewrite map_map; apply map_ext; intros a; rewrite map_map; apply map_ext; intros b;
      rewrite map_map; apply map_ext; intros x; reflexivity.
  - intros i y _ E. cbv beta in *.
    destruct (nth_chk o i) as [bi| |]; cbn [bind] in *; try discriminate.
    eapply (mapM_rel _ _ (map (red2 p p2))) in E; [exact E|].
    intros j y' _ E'. cbv beta in *.
    destruct (nth_chk o j) as [bj| |]; cbn [bind] in *; try discriminate.
    destruct (alg_mul f (from_raw opsQc bi) (from_raw opsQc bj)) as [prod| |]; cbn [bind] in *; try discriminate.
    destruct (solve_linear_system fopsQc o (coefs_upto deg prod)) as [r| |]; cbn [bind] in *; try discriminate.
    destruct (unwrap_ok r) as [inv| |]; cbn [bind] in *; try discriminate.
    apply table_entries_exact. exact E'.
Qed.
