(** * W8C06Main (C06, eighth wave): the discriminant returned by the driver does not depend on the generator.

      [poly_shift f k] = f(x + k) (minimal polynomial of theta - k), [poly_scale f c] = c^n f(x / c) (minimal polynomial of
      c theta, same leading coefficient; c = -1: of -theta), both computed with the model's own polynomial arithmetic /
      integer powers.  For f and g = one of these, under the hypotheses of [find_integral_basis_maximal_all] for both:
      the orders returned by [find_integral_basis] have the same [order_disc].
      Also: the order returned by the driver contains every order of Q[x]/(f) and is the only maximal one (as a lattice).
      Style: ssreflect/MathComp ([QcRing] world). *)
From RNT.Model Require Import Base Poly Algebraic LinAlg MultTable Order.
From RNT.Model Require Round2.
From Coq Require Import QArith Qcanon.
From mathcomp Require Import all_ssreflect ssralg zmodp poly polydiv matrix mxalgebra mxpoly.
From mathcomp Require Import ssrZ zify.
From RNT.Refine Require Import QcRing PolyRefine PolyDiv PolyZ PolyQ AlgMul AlgQuot MultTableOps ResAgree.
From RNT.Refine Require Import W8C06Bridge.
From RNT.Refine Require Round2Lattice Round2Det Round2W3Driver Round2W4PZ Round2W5Driver.
Set Implicit Arguments.
Unset Strict Implicit.
Unset Printing Implicit Defensive.
Import GRing.Theory.
Local Close Scope Z_scope.
Local Close Scope Q_scope.
Local Close Scope Qc_scope.
Local Open Scope ring_scope.

(** ** the two changes of generator on coefficient lists *)
Definition poly_shift (f : list Z) (k : Z) : list Z :=
  List.fold_right (fun c acc => padd opsZ (pmul opsZ acc (k :: 1%Z :: nil)) (from_mono opsZ c)) nil f.

Definition poly_scale (f : list Z) (c : Z) : list Z :=
  List.map (fun i => (List.nth i f 0 * c ^ Z.of_nat (length f - 1 - i))%Z) (List.seq 0 (length f)).

(** *** shift *)
Lemma Poly_k1 (k : Z) : Poly [:: k; 1%Z] = 'X + k%:P :> {poly Z}.
Proof. by rewrite /= !cons_poly_def mul0r add0r mul1r. Qed.

Lemma canon_shift f k : canonZ (poly_shift f k).
Proof.
case: f => [|c f] //=; rewrite opsZ_eq; apply: canon_padd; first exact: canon_pmul.
exact: strip_canon.
Qed.

Lemma Poly_shift f k : Poly (poly_shift f k) = Poly f \Po ('X + k%:P) :> {poly Z}.
Proof.
elim: f => [|c f IH]; first by rewrite /= comp_poly0.
rewrite [poly_shift _ _]/= opsZ_eq Poly_padd Poly_pmul -opsZ_eq -/(poly_shift f k) IH Poly_k1.
rewrite /from_mono /from_raw Poly_strip [Poly [:: c]]/= [Poly (c :: f)]/= !cons_poly_def mul0r add0r.
by rewrite comp_polyD comp_polyM comp_polyX comp_polyC.
Qed.

Lemma size_shift f k : canonZ f -> size (poly_shift f k) = size f.
Proof.
move=> cf; rewrite -(canon_size_Poly (canon_shift f k)) Poly_shift size_comp_poly2 ?canon_size_Poly //.
by rewrite size_XaddC.
Qed.

Lemma Fq_Poly (f : seq Z) : Fq f = map_poly Qc_ofZ (Poly f).
Proof. by rewrite /Fq -Lmap_eq Poly_map_ofZ. Qed.

Lemma Fq_shift f k : Fq (poly_shift f k) = Fq f \Po ('X + (Qc_ofZ k)%:P).
Proof. by rewrite !Fq_Poly Poly_shift map_comp_poly rmorphD /= map_polyX map_polyC. Qed.

(** *** scale *)
Lemma poly_scale_mkseq f c :
  poly_scale f c = mkseq (fun i => nth 0 f i * c ^+ ((size f).-1 - i)) (size f).
Proof.
rewrite /poly_scale /mkseq Lseq_eq Lmap_eq; apply: eq_map => i.
by rewrite Lnth_eq -Zpow_exp Llength_eq subn1.
Qed.

Lemma size_scale f c : size (poly_scale f c) = size f.
Proof. by rewrite poly_scale_mkseq size_mkseq. Qed.

Lemma nth_scale f c i : (i < size f)%N -> nth 0 (poly_scale f c) i = nth 0 f i * c ^+ ((size f).-1 - i).
Proof. by move=> hi; rewrite poly_scale_mkseq nth_mkseq. Qed.

Lemma canon_scale f c : canonZ f -> canonZ (poly_scale f c).
Proof.
case: f => [|a f] // cf.
have s0 : poly_scale (a :: f) c != [::] by rewrite -size_eq0 size_scale.
move: cf; rewrite /canonZ !canon_last // !(last_nth 0) size_scale /=.
by rewrite -[size f]/((size (a :: f)).-1) nth_scale //= subnn expr0 mulr1.
Qed.

Lemma coef_Fq (f : seq Z) i : (Fq f)`_i = Qc_ofZ (nth 0 f i).
Proof.
rewrite /Fq coef_Poly; case: (ltnP i (size f)) => hi; first by rewrite (nth_map 0).
by rewrite !nth_default ?size_map // (rmorph0 Qc_ofZ_rmorphism).
Qed.

Lemma coef_comp_scaleX (K : fieldType) (p : {poly K}) (c : K) i : (p \Po (c *: 'X))`_i = p`_i * c ^+ i.
Proof.
rewrite coef_comp_poly.
case: (ltnP i (size p)) => hi; last first.
  rewrite [p`_i]nth_default // mul0r big1 // => j _.
  rewrite exprZn coefZ coefXn; case: eqP => [e|]; last by rewrite !mulr0.
  by move: hi; rewrite e leqNgt ltn_ord.
rewrite (bigD1 (Ordinal hi)) //= exprZn coefZ coefXn eqxx mulr1 big1 ?addr0 // => j ne.
rewrite exprZn coefZ coefXn; case: eqP => [e|]; last by rewrite !mulr0.
by case/eqP: ne; apply: val_inj.
Qed.

Section Scale.
Variables (f : seq Z) (n : nat) (c : Z).
Hypothesis szf : size f = n.+1.
Hypothesis c0 : c != 0.
Let cq : Qc := Qc_ofZ c.
Let cq0 : cq != 0. Proof. by rewrite -(rmorph0 Qc_ofZ_rmorphism) (inj_eq Qc_ofZ_inj). Qed.

Lemma coef_Fq_scale i : (Fq (poly_scale f c))`_i * cq ^+ i = cq ^+ n * (Fq f)`_i.
Proof.
rewrite !coef_Fq; case: (ltnP i (size f)) => hi; last first.
  by rewrite !nth_default ?size_scale // (rmorph0 Qc_ofZ_rmorphism) mul0r mulr0.
rewrite nth_scale // szf /= (rmorphM Qc_ofZ_rmorphism) (rmorphX Qc_ofZ_rmorphism) -/cq.
by rewrite -mulrA -exprD subnK 1?mulrC // -ltnS -szf.
Qed.

Lemma Fq_scale_comp : Fq (poly_scale f c) \Po (cq *: 'X) = cq ^+ n *: Fq f.
Proof. by apply/polyP => i; rewrite coef_comp_scaleX coefZ coef_Fq_scale. Qed.

Lemma Fq_scale_comp_inv : Fq f \Po (cq^-1 *: 'X) = cq ^- n *: Fq (poly_scale f c).
Proof.
apply/polyP => i; rewrite coef_comp_scaleX coefZ.
apply: (mulfI (expf_neq0 n cq0)); rewrite mulrA mulrA divff ?expf_neq0 // mul1r.
rewrite -coef_Fq_scale -mulrA exprVn divff ?mulr1 // expf_neq0 //.
Qed.

Lemma scaleX_inv : (cq *: 'X) \Po (cq^-1 *: 'X) = 'X :> {poly Qc}.
Proof. by rewrite comp_polyZ comp_polyX scalerA divff // scale1r. Qed.

End Scale.

(** ** the driver *)
Definition disc_hyp (m : mode) (f : list Z) : Prop :=
  forall o0 d0, non_monic_initial_order f = Done o0 -> Round2.order_disc m o0 f = Done d0 ->
    d0 <> 0%Z /\ (Z.log2 (Z.abs d0) < two64)%Z.

Lemma is_order_lat f n O : Round2W3Driver.is_order f n O -> lat_order f n O.
Proof.
case=> LO [O1 GT]; have [lo wo] := Round2Det.lower_from_shape n O LO.
by split.
Qed.

Lemma driver_lat m (f : list Z) n O :
  canonZ f -> size f = n.+1 -> (0 < n)%N -> (2 * Z.of_nat n < two64)%Z -> disc_hyp m f ->
  Round2.find_integral_basis m f = Done O ->
  [/\ Round2W3Driver.is_order f n O, lat_order f n O & lat_maximal f n O].
Proof.
move=> cf szf n0 small hd E.
have n1 : (1 <= n)%coq_nat by apply/leP.
have [O' [E' [IO M]]] := Round2W5Driver.find_integral_basis_maximal_all m f n cf szf n1 small hd.
have eO : O' = O by move: E'; rewrite E => -[].
rewrite -eO; split=> //; first exact: is_order_lat.
by move=> o2 /M [].
Qed.

(** [P] the order returned by the driver contains every order of Q[x]/(f) (every lattice containing 1 on which
    [get_mult_table] returns), and is the only maximal one *)
Theorem driver_contains_every_order m (f : list Z) n O O2 :
  canonZ f -> size f = n.+1 -> (0 < n)%N -> (2 * Z.of_nat n < two64)%Z -> disc_hyp m f ->
  Round2.find_integral_basis m f = Done O -> lat_order f n O2 -> lat_sub n O2 O.
Proof.
move=> cf szf n0 small hd E l2.
have [_ lO mO] := driver_lat cf szf n0 small hd E.
exact: (maximal_contains cf szf n0 lO mO l2).
Qed.

(** [P] generic change of generator: g(h) = 0 mod f and x |-> h invertible *)
Theorem disc_invariant_driver_unit m (f g : list Z) n (h : {poly Qc}) Of Og :
  canonZ f -> canonZ g -> size f = n.+1 -> size g = n.+1 -> (0 < n)%N -> (2 * Z.of_nat n < two64)%Z ->
  (Fq g \Po h) %% Fq f = 0 -> W8C06Alg.Phi (Fq f) n h \in unitmx ->
  disc_hyp m f -> disc_hyp m g ->
  Round2.find_integral_basis m f = Done Of -> Round2.find_integral_basis m g = Done Og ->
  exists d : Z, Round2.order_disc m Of f = Done d /\ Round2.order_disc m Og g = Done d.
Proof.
move=> cf cg szf szg n0 small Gh uP hdf hdg Ef Eg.
have [_ lf mf] := driver_lat cf szf n0 small hdf Ef.
have [_ lg mg] := driver_lat cg szg n0 small hdg Eg.
exact: (disc_invariant_gen m cf cg szf szg n0 small Gh uP lf mf lg mg).
Qed.

Theorem disc_invariant_driver m (f g : list Z) n (h h' : {poly Qc}) Of Og :
  canonZ f -> canonZ g -> size f = n.+1 -> size g = n.+1 -> (0 < n)%N -> (2 * Z.of_nat n < two64)%Z ->
  (Fq g \Po h) %% Fq f = 0 -> (Fq f \Po h') %% Fq g = 0 -> h \Po h' = 'X ->
  disc_hyp m f -> disc_hyp m g ->
  Round2.find_integral_basis m f = Done Of -> Round2.find_integral_basis m g = Done Og ->
  exists d : Z, Round2.order_disc m Of f = Done d /\ Round2.order_disc m Og g = Done d.
Proof.
move=> cf cg szf szg n0 small Gh Fh' hh' hdf hdg Ef Eg.
have uP := W8C06Alg.Phi_unit (size_Fq cf szf) (size_Fq cg szg) Fh' hh'.
exact: (disc_invariant_driver_unit cf cg szf szg n0 small Gh uP hdf hdg Ef Eg).
Qed.

(** [P] theta + k *)
Theorem disc_invariant_shift m (f : list Z) (k : Z) n Of Og :
  canonZ f -> size f = n.+1 -> (0 < n)%N -> (2 * Z.of_nat n < two64)%Z ->
  disc_hyp m f -> disc_hyp m (poly_shift f k) ->
  Round2.find_integral_basis m f = Done Of -> Round2.find_integral_basis m (poly_shift f k) = Done Og ->
  exists d : Z, Round2.order_disc m Of f = Done d /\ Round2.order_disc m Og (poly_shift f k) = Done d.
Proof.
move=> cf szf n0 small hdf hdg Ef Eg.
have szg : size (poly_shift f k) = n.+1 by rewrite size_shift.
set kq : Qc := Qc_ofZ k.
have e1 : ('X + kq%:P) \Po ('X - kq%:P) = 'X :> {poly Qc}.
  by rewrite comp_polyD comp_polyX comp_polyC subrK.
have e2 : ('X - kq%:P) \Po ('X + kq%:P) = 'X :> {poly Qc}.
  by rewrite comp_polyB comp_polyX comp_polyC addrK.
apply: (@disc_invariant_driver m f (poly_shift f k) n ('X - kq%:P) ('X + kq%:P) Of Og) => //.
- exact: canon_shift.
- by rewrite Fq_shift -comp_polyA e1 comp_polyXr modpp.
- by rewrite -Fq_shift modpp.
Qed.

(** [P] c theta (c <> 0) *)
Theorem disc_invariant_scale m (f : list Z) (c : Z) n Of Og :
  canonZ f -> size f = n.+1 -> (0 < n)%N -> (2 * Z.of_nat n < two64)%Z -> c <> 0%Z ->
  disc_hyp m f -> disc_hyp m (poly_scale f c) ->
  Round2.find_integral_basis m f = Done Of -> Round2.find_integral_basis m (poly_scale f c) = Done Og ->
  exists d : Z, Round2.order_disc m Of f = Done d /\ Round2.order_disc m Og (poly_scale f c) = Done d.
Proof.
move=> cf szf n0 small /eqP c0 hdf hdg Ef Eg.
have szg : size (poly_scale f c) = n.+1 by rewrite size_scale.
apply: (@disc_invariant_driver m f (poly_scale f c) n (Qc_ofZ c *: 'X) ((Qc_ofZ c)^-1 *: 'X) Of Og) => //.
- exact: canon_scale.
- by rewrite (@Fq_scale_comp f n c szf) modpZl modpp scaler0.
- by rewrite (@Fq_scale_comp_inv f n c szf c0) modpZl modpp scaler0.
- exact: scaleX_inv.
Qed.

(** ** 1 / theta: the reversed polynomial (f(0) <> 0) *)
From RNT.Refine Require Import W8C06Recip.

Lemma Lrev_rev A (l : list A) : List.rev l = rev l.
Proof. by elim: l => [|x l IH] //=; rewrite IH rev_cons -cats1. Qed.

Lemma Fq_rev (f : seq Z) n : size f = n.+1 -> Fq (rev f) = prev n (Fq f).
Proof.
move=> szf; apply/polyP => i; rewrite coef_Fq coef_poly; case: ltnP => hi.
  by rewrite coef_Fq nth_rev szf // subSS.
by rewrite nth_default ?size_rev ?szf // (rmorph0 Qc_ofZ_rmorphism).
Qed.

Lemma canon_rev (f : seq Z) : nth 0 f 0 != 0 -> canonZ (rev f).
Proof.
case: f => [|a f]; first by rewrite eqxx.
move=> /= a0; rewrite /canonZ canon_last; last by rewrite -size_eq0 size_rev.
by rewrite rev_cons last_rcons.
Qed.

(** [P] 1 / theta *)
Theorem disc_invariant_recip m (f : list Z) n Of Og :
  canonZ f -> size f = n.+1 -> (0 < n)%N -> (2 * Z.of_nat n < two64)%Z -> nth 0 f 0 != 0 ->
  disc_hyp m f -> disc_hyp m (rev f) ->
  Round2.find_integral_basis m f = Done Of -> Round2.find_integral_basis m (rev f) = Done Og ->
  exists d : Z, Round2.order_disc m Of f = Done d /\ Round2.order_disc m Og (rev f) = Done d.
Proof.
move=> cf szf n0 small f0 hdf hdg Ef Eg.
have szg : size (rev f) = n.+1 by rewrite size_rev.
have szF := size_Fq cf szf.
have F00 : (Fq f)`_0 != 0.
  by rewrite coef_Fq -(rmorph0 Qc_ofZ_rmorphism) (inj_eq Qc_ofZ_inj).
apply: (@disc_invariant_driver_unit m f (rev f) n (xinv n (Fq f)) Of Og) => //.
- exact: canon_rev.
- by rewrite (Fq_rev szf); exact: (prev_comp_xinv n0 szF F00).
- exact: (Phi_recip_unit n0 szF F00).
Qed.
