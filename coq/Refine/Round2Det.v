(** The determinant ([LinAlg.determinant] over [Qc]) of a lower triangular matrix with positive
    diagonal is positive; stored bases of orders ([hnf_reduce]) are of this kind (stdlib + lia). *)
From RNT.Model Require Import Base Poly Algebraic LinAlg MultTable Order Round2.
From RNT.Model Require Hnf.
From RNT.Refine Require Import MatZ HnfSpec HnfMain HnfDet Round2Basic Round2Index Round2Lattice.
From Coq Require Import QArith Qcanon Lia.
Open Scope Z_scope.

Local Notation qlt0 x := (Qclt q0 x).

(** ** list helpers *)
Lemma upd_same {A} (l : list A) d : forall i, upd l i (nth i l d) = l.
Proof.
  induction l as [|x l IH]; intros i; [reflexivity|].
  destruct i as [|i]; [reflexivity|]. cbn [upd nth]. rewrite IH. reflexivity.
Qed.

Lemma nth_chk_ok {A} (l : list A) i d : (i < length l)%nat -> nth_chk l i = Done (nth i l d).
Proof.
  intros H. unfold nth_chk. rewrite nth_error_nth' with (d := d) by assumption. reflexivity.
Qed.

Lemma mapM_total {A B} (f : A -> outcome B) (P : A -> B -> Prop) : forall l,
  (forall x, In x l -> exists y, f x = Done y /\ P x y) ->
  exists r, mapM f l = Done r /\ length r = length l /\
            forall i dx dy, (i < length l)%nat -> P (nth i l dx) (nth i r dy).
Proof.
  induction l as [|x l IH]; intros H.
  - exists []. split; [reflexivity|]. split; [reflexivity|]. intros i dx dy Hi. cbn in Hi. lia.
  - destruct (H x (or_introl eq_refl)) as [y [Fy Py]].
    destruct IH as [r [Mr [Lr Pr]]]; [intros z Hz; apply H; right; assumption|].
    exists (y :: r). cbn [mapM]. rewrite Fy, Mr. cbn [bind]. split; [reflexivity|].
    split; [cbn; lia|]. intros [|i] dx dy Hi; [exact Py|]. cbn [nth]. apply Pr. cbn in Hi. lia.
Qed.

Lemma nth_skipn {A} (l : list A) d : forall i u, nth u (skipn i l) d = nth (i + u) l d.
Proof.
  induction l as [|x l IH]; intros i u.
  - rewrite skipn_nil. destruct u, i; reflexivity.
  - destruct i as [|i]; [reflexivity|]. cbn [skipn]. rewrite IH. reflexivity.
Qed.

(** ** [zip_from] / [zip_range] on rows that are long enough *)
Lemma zip_from_spec (g : nat -> Qc -> Qc -> Qc) : forall cnt k s r,
  (cnt <= length s)%nat -> (cnt <= length r)%nat ->
  exists t, zip_from cnt k g s r = Done t /\ length t = length r /\
    (forall u, (u < cnt)%nat -> nth u t q0 = g (k + u)%nat (nth u r q0) (nth u s q0)) /\
    (forall u, (cnt <= u)%nat -> nth u t q0 = nth u r q0).
Proof.
  induction cnt as [|cnt IH]; intros k s r Hs Hr.
  - exists r. cbn. repeat split; auto. intros u Hu. lia.
  - destruct s as [|y s]; [cbn in Hs; lia|]. destruct r as [|x r]; [cbn in Hr; lia|].
    destruct (IH (S k) s r ltac:(cbn in Hs; lia) ltac:(cbn in Hr; lia)) as [t [Zt [Lt [A B]]]].
    exists (g k x y :: t). cbn [zip_from]. rewrite Zt. cbn [bind]. split; [reflexivity|].
    split; [cbn; lia|]. split.
    + intros [|u] Hu; cbn [nth]; [rewrite Nat.add_0_r; reflexivity|].
      rewrite A by lia. f_equal. lia.
    + intros [|u] Hu; [lia|]. cbn [nth]. apply B. lia.
Qed.

Lemma zip_range_spec (g : nat -> Qc -> Qc -> Qc) lo cnt s r :
  (lo + cnt <= length s)%nat -> (lo + cnt <= length r)%nat ->
  exists t, zip_range lo cnt g s r = Done t /\ length t = length r /\
    (forall u, (lo <= u < lo + cnt)%nat -> nth u t q0 = g u (nth u r q0) (nth u s q0)) /\
    (forall u, (u < lo \/ lo + cnt <= u)%nat -> nth u t q0 = nth u r q0).
Proof.
  intros Hs Hr. unfold zip_range. destruct cnt as [|cnt].
  - exists r. repeat split; auto. intros u Hu. lia.
  - destruct (zip_from_spec g (S cnt) lo (skipn lo s) (skipn lo r)) as [t [Zt [Lt [A B]]]];
      try (rewrite skipn_length; lia).
    rewrite Zt. cbn [bind]. eexists. split; [reflexivity|].
    assert (Lf : length (firstn lo r) = lo) by (apply firstn_length_le; lia).
    split; [rewrite app_length, Lf, Lt, skipn_length; lia|]. split.
    + intros u Hu. rewrite app_nth2 by lia. rewrite Lf.
      rewrite A by lia. rewrite !nth_skipn. replace (lo + (u - lo))%nat with u by lia. reflexivity.
    + intros u [Hu|Hu].
      * rewrite app_nth1 by lia. rewrite <- (firstn_skipn lo r) at 2. rewrite app_nth1 by lia. reflexivity.
      * rewrite app_nth2 by lia. rewrite Lf. rewrite B by lia. rewrite nth_skipn. f_equal. lia.
Qed.

(** ** Lower triangular matrices with positive diagonal, from row [i] on *)
Definition ent_q (a : qmat) (t c : nat) : Qc := nth c (nth t a []) q0.

Record lower_from (n i : nat) (a : qmat) : Prop := {
  lf_len : length a = n;
  lf_rows : forall t, (t < n)%nat -> length (nth t a []) = n;
  lf_diag : forall t, (i <= t < n)%nat -> qlt0 (ent_q a t t);
  lf_zero : forall t c, (i <= t < n)%nat -> (t < c < n)%nat -> ent_q a t c = q0 }.

Lemma qlt0_neq x : qlt0 x -> x <> q0.
Proof. intros H E. subst x. apply (Qclt_not_eq _ _ H). reflexivity. Qed.

Lemma is0_false x : x <> q0 -> is0 (fr fopsQc) x = false.
Proof.
  intros H. unfold is0. cbn [fopsQc fr opsQc reqb r0].
  destruct (Qeq_bool x (Q2Qc 0)) eqn:E; [|reflexivity].
  exfalso. apply H. apply Qc_is_canon. apply Qeq_bool_iff. exact E.
Qed.

(** one elimination step on a row below the pivot row: entries right of column [i] are unchanged *)
Lemma det_elim_row_spec n i (ai aj : list Qc) :
  (i < n)%nat -> length ai = n -> length aj = n -> nth i ai q0 <> q0 ->
  (forall c, (i < c < n)%nat -> nth c ai q0 = q0) ->
  exists r, det_elim_row fopsQc i n ai aj = Done r /\ length r = n /\
            forall c, (i < c < n)%nat -> nth c r q0 = nth c aj q0.
Proof.
  intros Hi La Lj Piv Z. unfold det_elim_row.
  rewrite (nth_chk_ok aj i q0) by lia. rewrite (nth_chk_ok ai i q0) by lia. cbn [bind].
  unfold div_chk. rewrite is0_false by assumption. cbn [bind].
  destruct (zip_range_spec (fun _ u v => rsub (fr fopsQc) u (rmul (fr fopsQc) (fdiv fopsQc (nth i aj q0) (nth i ai q0)) v))
              i (n - i) ai aj ltac:(lia) ltac:(lia)) as [t [Zt [Lt [A _]]]].
  exists t. split; [exact Zt|]. split; [lia|].
  intros c Hc. rewrite A by lia. rewrite (Z c Hc). cbn [fopsQc fr opsQc rsub rmul]. unfold q0. ring.
Qed.

Lemma nth_skipn_hd {A} (l : list A) d i : (i < length l)%nat -> skipn i l = nth i l d :: skipn (S i) l.
Proof. apply skipn_nth_cons. Qed.

(** [det_loop] on such a matrix: no row swap, the result is multiplied by the (positive) pivots *)
Lemma det_loop_lower n : forall cnt i a result,
  (cnt + i = n)%nat -> lower_from n i a -> qlt0 result ->
  exists d, det_loop fopsQc cnt i n a result = Done d /\ qlt0 d.
Proof.
  induction cnt as [|cnt IH]; intros i a result Hc LF Rpos.
  - exists result. split; [reflexivity|assumption].
  - destruct LF as [L1 L2 L3 L4].
    assert (Hi : (i < n)%nat) by lia.
    cbn [det_loop].
    rewrite (nth_skipn_hd a [] i) by lia. cbn [find_in_col].
    rewrite (nth_chk_ok (nth i a []) i q0) by (rewrite L2; lia). cbn [bind].
    pose proof (L3 i ltac:(lia)) as Pi. unfold ent_q in Pi.
    rewrite is0_false by (apply qlt0_neq; exact Pi). cbn [bind].
    unfold swap_chk. rewrite (nth_chk_ok a i []) by lia. cbn [bind].
    rewrite !upd_same. rewrite Nat.eqb_refl.
    rewrite (nth_chk_ok a i []) by lia. cbn [bind].
    destruct (mapM_total (det_elim_row fopsQc i n (nth i a []))
                (fun aj r => length r = n /\ forall c, (i < c < n)%nat -> nth c r q0 = nth c aj q0)
                (skipn (S i) a)) as [rest [Mr [Lr Pr]]].
    { intros aj Hin. destruct (In_nth _ _ [] Hin) as [u [Hu <-]]. rewrite skipn_length in Hu.
      rewrite nth_skipn.
      apply det_elim_row_spec; try assumption.
      - apply L2; lia.
      - apply L2; lia.
      - apply qlt0_neq. exact Pi.
      - intros c Hcc. apply (L4 i c); lia. }
    rewrite Mr. cbn [bind].
    rewrite skipn_length in Lr.
    set (a' := firstn (S i) a ++ rest).
    assert (Lf : length (firstn (S i) a) = S i) by (apply firstn_length_le; lia).
    assert (Na : forall t, (t <= i)%nat -> nth t a' [] = nth t a []).
    { intros t Ht. unfold a'. rewrite app_nth1 by lia.
      rewrite <- (firstn_skipn (S i) a) at 2. rewrite app_nth1 by lia. reflexivity. }
    assert (Nb : forall t, (i < t < n)%nat ->
               length (nth t a' []) = n /\ forall c, (i < c < n)%nat -> nth c (nth t a' []) q0 = nth c (nth t a []) q0).
    { intros t Ht. unfold a'. rewrite app_nth2 by lia. rewrite Lf.
      specialize (Pr (t - S i)%nat [] [] ltac:(rewrite skipn_length; lia)).
      rewrite nth_skipn in Pr. replace (S i + (t - S i))%nat with t in Pr by lia. exact Pr. }
    rewrite (nth_chk_ok a' i []) by (unfold a'; rewrite app_length; lia).
    cbn [bind]. rewrite Na by lia.
    rewrite (nth_chk_ok (nth i a []) i q0) by (rewrite L2; lia). cbn [bind].
    apply IH; [lia| |].
    + split.
      * unfold a'. rewrite app_length, Lf, Lr. lia.
      * intros t Ht. destruct (Nat.le_gt_cases t i) as [Le|Gt]; [rewrite Na by lia; apply L2; lia|].
        apply Nb; lia.
      * intros t Ht. unfold ent_q. destruct (Nb t ltac:(lia)) as [_ E]. rewrite E by lia. apply L3. lia.
      * intros t c Ht Hcc. unfold ent_q. destruct (Nb t ltac:(lia)) as [_ E]. rewrite E by lia. apply L4; lia.
    + cbn [fopsQc fr opsQc rmul]. unfold q0 in *.
      set (pv := nth i (nth i a []) (Q2Qc 0)) in *.
      assert (M : (Q2Qc 0 * pv < result * pv)%Qc) by (apply Qcmult_lt_compat_r; assumption).
      replace (Q2Qc 0 * pv)%Qc with (Q2Qc 0) in M by ring. exact M.
Qed.

Lemma determinant_lower n a : lower_from n 0 a -> exists d, determinant fopsQc a = Done d /\ qlt0 d.
Proof.
  intros LF. unfold determinant. rewrite (lf_len _ _ _ LF).
  apply det_loop_lower; [lia|assumption|]. cbn [fopsQc fr opsQc r1]. unfold q0. reflexivity.
Qed.

(** ** Stored bases of orders are lower triangular with positive diagonal *)
Lemma ratio_pos x l : 0 < x -> 0 < l -> qlt0 (ratio_new x l).
Proof.
  intros Hx Hl. unfold ratio_new, Qcdiv, Qcmult, Qcinv, Qclt, q0, Q2Qc. cbn [this].
  rewrite !Qred_correct. rewrite !qz_this.
  apply Qmult_lt_0_compat.
  - rewrite Zlt_Qlt in Hx. exact Hx.
  - apply Qinv_lt_0_compat. rewrite Zlt_Qlt in Hl. exact Hl.
Qed.

Lemma ratio_zero l : ratio_new 0 l = q0.
Proof. unfold ratio_new, Qcdiv. rewrite qz_0. unfold q0. ring. Qed.

Lemma hnf_reduce_lower deg b r :
  (1 <= deg)%nat -> length b = deg -> Forall (fun row => length row = deg) b ->
  hnf_reduce b = Done r -> lower_from deg 0 r.
Proof.
  intros D1 Lb Wb. unfold hnf_reduce. rewrite Lb.
  destruct (lcm_den_spec b 1 ltac:(lia)) as [Lpos _].
  set (l := lcm_den 1 b) in *. intros H.
  destruct (int_matrix deg deg l b) as [bi| |] eqn:BI; cbn [bind] in H; try discriminate.
  destruct (Hnf.hnf_new bi) as [h| |] eqn:HN; cbn [bind] in H; try discriminate.
  apply int_matrix_spec in BI. destruct BI as [SB _].
  apply hnf_new_Done in HN. destruct HN as [U [k HU]].
  destruct (hnf_with_u_correct bi deg deg h U k SB D1 D1 HU) as [HR [_ [_ [_ Hk]]]].
  apply rat_matrix_spec in H. destruct H as [Lr ER].
  assert (Lh : length h = deg).
  { destruct (ER (deg - 1)%nat O ltac:(lia) ltac:(lia)) as [_ [A _]]. lia. }
  destruct (determinant_spec deg h HR D1) as [_ Piv]. destruct (Piv Lh) as [_ Piv'].
  split.
  - assumption.
  - intros t Ht. destruct (ER t O Ht ltac:(lia)) as [_ [_ A]]. exact A.
  - intros t Ht. unfold ent_q. destruct (ER t t ltac:(lia) ltac:(lia)) as [-> _].
    apply ratio_pos; [|assumption]. apply (Piv' t). lia.
  - intros t c Ht Hc. unfold ent_q. destruct (ER t c ltac:(lia) ltac:(lia)) as [-> _].
    destruct (Piv' t ltac:(lia)) as [_ Z]. unfold ent, row in Z. rewrite Z by lia. apply ratio_zero.
Qed.

Lemma non_monic_lower f deg o0 :
  length f = S deg -> (1 <= deg)%nat -> non_monic_initial_order f = Done o0 -> lower_from deg 0 o0.
Proof.
  intros Lf D1 H. unfold non_monic_initial_order in H.
  assert (DA : deg_alloc f = Done deg).
  { unfold deg_alloc. destruct f as [|a f']; [discriminate|]. f_equal.
    unfold pdeg. change (length (a :: f')) with (S (length f')) in *. lia. }
  rewrite DA in H. cbn [bind] in H.
  destruct (deg =? 0)%nat eqn:E; [apply Nat.eqb_eq in E; lia|].
  apply hnf_reduce_lower with (deg := deg) in H; [assumption|assumption| |].
  - rewrite map_length, seq_length. reflexivity.
  - apply Forall_forall. intros r Hr. apply in_map_iff in Hr. destruct Hr as [i [<- _]].
    rewrite map_length, seq_length. reflexivity.
Qed.

Lemma lower_from_shape deg o : lower_from deg 0 o ->
  length o = deg /\ Forall (fun r => length r = deg) o.
Proof.
  intros [L1 L2 _ _]. split; [assumption|]. apply Forall_forall. intros r Hr.
  destruct (In_nth _ _ [] Hr) as [i [Hi <-]]. apply L2. lia.
Qed.

Lemma one_step_lower f o p o' hh deg :
  length f = S deg -> (1 <= deg)%nat -> one_step f o p = Done (o', hh) -> lower_from deg 0 o'.
Proof.
  intros Lf D1 H.
  apply one_step_inv in H. destruct H as [deg' [u_p [h [nb [DA [_ [_ [_ [NB FB]]]]]]]]].
  assert (DA' : deg_alloc f = Done deg).
  { unfold deg_alloc. destruct f as [|a f']; [discriminate|]. f_equal.
    unfold pdeg. change (length (a :: f')) with (S (length f')) in *. lia. }
  rewrite DA' in DA. injection DA as DA. subst deg'.
  apply new_basis_spec in NB; [|assumption]. destruct NB as [_ [Lnb [Wnb _]]].
  apply (hnf_reduce_lower deg nb o' D1 Lnb Wnb FB).
Qed.

Lemma qz_pos z : qlt0 (qz z) -> 0 < z.
Proof.
  unfold Qclt, q0. rewrite qz_this. cbn [Q2Qc this]. intros H.
  change (Qred 0) with (inject_Z 0) in H. rewrite <- Zlt_Qlt in H. exact H.
Qed.

Lemma Qcinv_pos x : qlt0 x -> qlt0 (Qcinv x).
Proof.
  unfold Qclt. intros H. unfold Qcinv, Q2Qc. cbn [this]. rewrite Qred_correct.
  apply Qinv_lt_0_compat. exact H.
Qed.

(** the index of one such basis over another is a positive integer whenever it is an integer *)
Lemma order_index_pos deg a b i :
  lower_from deg 0 a -> lower_from deg 0 b -> order_index a b = Done i -> 1 <= i.
Proof.
  intros LA LB H. unfold order_index in H.
  destruct (determinant_lower deg b LB) as [db [Db Pb]].
  destruct (determinant_lower deg a LA) as [da [Da Pa]].
  rewrite Db, Da in H. cbn [bind] in H.
  destruct (div_chk fopsQc db da) as [q| |] eqn:Q; cbn [bind] in H; try discriminate.
  destruct (q_is_integer q) eqn:I; [|discriminate]. injection H as <-.
  apply div_chk_Qc in Q. destruct Q as [N Q]. apply q_integer_qz in I.
  assert (P : qlt0 (qz (q_to_integer q))).
  { rewrite <- I, Q. unfold Qcdiv.
    pose proof (Qcinv_pos da Pa) as Pi.
    set (ia := Qcinv da) in *.
    assert (M : (Q2Qc 0 * ia < db * ia)%Qc) by (apply Qcmult_lt_compat_r; assumption).
    replace (Q2Qc 0 * ia)%Qc with (Q2Qc 0) in M by ring. exact M. }
  apply qz_pos in P. lia.
Qed.

(** [P] one_step_index: on a stored basis of an order (lower triangular, positive diagonal, as
    [Order::from_basis] produces them) the step returns [howmany >= 0] with
    [index(new, old) = p ^ howmany], for every p > 0 and non-constant f. *)
Theorem one_step_index f o p o' h deg :
  length f = S deg -> (1 <= deg)%nat -> lower_from deg 0 o -> 0 < p ->
  one_step f o p = Done (o', h) ->
  order_index o' o = Done (p ^ h) /\ 0 <= h /\ lower_from deg 0 o'.
Proof.
  intros Lf D1 LO Pp H.
  pose proof (one_step_lower f o p o' h deg Lf D1 H) as LO'.
  destruct (one_step_index_partial f o p o' h Pp H) as [index [I [Hh [Hi _]]]].
  pose proof (order_index_pos deg o' o index LO' LO I) as P1.
  rewrite <- (Hi P1). auto.
Qed.

Lemma reachable_at_lower f p deg o o1 :
  length f = S deg -> (1 <= deg)%nat -> lower_from deg 0 o -> reachable_at f p o o1 -> lower_from deg 0 o1.
Proof.
  intros Lf D1 LO R. induction R; [assumption|].
  eapply one_step_lower; eassumption.
Qed.

(** [C] no u64 underflow in [e -= 2 * howmany] (dev profile), for the orders the driver really
    handles (stored bases): the only panics of the [while] loop are those of [one_step], PROVIDED
    every lattice produced on the way has an integral discriminant (it is an order; this is the
    mathematical content that is not proved).  [p ^ e * r], p prime not dividing r, is the
    discriminant of the order the loop starts with. *)
Theorem prime_loop_no_underflow discf f p r deg :
  length f = S deg -> (1 <= deg)%nat ->
  Znumtheory.prime p -> Znumtheory.rel_prime p r ->
  forall fuel o e t,
  0 <= e < two64 -> lower_from deg 0 o ->
  order_discriminant Checked discf o f = Done (p ^ e * r) ->
  (forall o1 o2 h, reachable_at f p o o1 -> one_step f o1 p = Done (o2, h) ->
     exists d2, order_discriminant Checked discf o2 f = Done d2) ->
  prime_loop fuel Checked f o p e = Panic t ->
  exists o1, reachable_at f p o o1 /\ one_step f o1 p = Panic t.
Proof.
  intros Lf D1 Pp Rp fuel o e t He LO D G H.
  apply (prime_loop_bookkeeping discf f p r Pp Rp fuel o e t He D); [|assumption].
  intros o1 o2 h R S.
  destruct (G o1 o2 h R S) as [d2 D2].
  pose proof (reachable_at_lower f p deg o o1 Lf D1 LO R) as L1.
  assert (P0 : 0 < p) by (destruct Pp; lia).
  destruct (one_step_index f o1 p o2 h deg Lf D1 L1 P0 S) as [I [Hh _]].
  exists d2, (p ^ h). split; [assumption|]. split; [assumption|].
  assert (0 < p ^ h) by (apply Z.pow_pos_nonneg; lia). lia.
Qed.

Lemma order_disc_inv m b f d :
  order_disc m b f = Done d ->
  exists discf, snd (Resultant.discriminant m f) = Done discf /\ order_discriminant m discf b f = Done d.
Proof.
  unfold order_disc. intros H. bind_inv H. bind_inv H. exists a0. split; [reflexivity|assumption].
Qed.

(** [P] the data returned by [ib_find]: disc(start) = disc(O) * index^2, and for a non-constant f
    the index is a positive integer and O contains the starting order. *)
Theorem ib_find_disc_index m f O d i :
  ib_find m f = Done (O, d, i) ->
  exists o0 d0,
    find_integral_basis m f = Done O /\ non_monic_initial_order f = Done o0 /\
    order_disc m o0 f = Done d0 /\ order_disc m O f = Done d /\ order_index O o0 = Done i /\
    d0 = d * i * i.
Proof.
  unfold ib_find. intros H.
  bind_inv H. bind_inv H. bind_inv H. bind_inv H. injection H as <- <- <-.
  destruct (find_integral_basis_fixpoint m f a E) as [o0 [d0 [fac [N0 [D0 _]]]]].
  rewrite N0 in E1. injection E1 as <-.
  exists o0, d0. split; [reflexivity|]. split; [reflexivity|]. split; [assumption|]. split; [assumption|]. split; [assumption|].
  apply order_disc_inv in D0, E0.
  destruct D0 as [discf [X0 D0]], E0 as [discf' [X1 D1]].
  rewrite X0 in X1. injection X1 as <-.
  eapply disc_index; eassumption.
Qed.

Theorem ib_find_index_pos m f O d i deg :
  length f = S deg -> (1 <= deg)%nat -> ib_find m f = Done (O, d, i) -> 1 <= i.
Proof.
  intros Lf D1 H.
  destruct (ib_find_disc_index m f O d i H) as [o0 [d0 [F [N0 [_ [_ [I _]]]]]]].
  pose proof (non_monic_lower f deg o0 Lf D1 N0) as L0.
  destruct (find_integral_basis_fixpoint m f O F) as [o0' [_ [_ [N0' [_ [_ [_ R]]]]]]].
  rewrite N0 in N0'. injection N0' as <-.
  assert (LO : lower_from deg 0 O).
  { clear -Lf D1 L0 R. induction R; [assumption|]. eapply one_step_lower; eassumption. }
  apply (order_index_pos deg O o0 i LO L0 I).
Qed.

(** ** 1 lies in the returned order *)
Definition one_vec (deg : nat) : list Qc := map (fun j => if (j =? 0)%nat then Q2Qc 1 else q0) (seq 0 deg).

Lemma nm_row0 f deg : (1 <= deg)%nat -> map (fun j => nm_entry f deg 0 j) (seq 0 deg) = one_vec deg.
Proof.
  intros D1. unfold one_vec. apply map_ext. intros j. unfold nm_entry.
  destruct j as [|j]; [reflexivity|]. cbn. reflexivity.
Qed.

Theorem find_integral_basis_one m f deg O :
  length f = S deg -> (1 <= deg)%nat -> find_integral_basis m f = Done O -> in_spanQ deg (one_vec deg) O.
Proof.
  intros Lf D1 H.
  destruct (find_integral_basis_fixpoint m f O H) as [o0 [_ [_ [N0 _]]]].
  destruct (find_integral_basis_contains m f deg O o0 Lf D1 H N0) as [LO [WO C]].
  pose proof N0 as N0'. unfold non_monic_initial_order in N0'.
  assert (DA : deg_alloc f = Done deg).
  { unfold deg_alloc. destruct f as [|a f']; [discriminate|]. f_equal.
    unfold pdeg. change (length (a :: f')) with (S (length f')) in *. lia. }
  rewrite DA in N0'. cbn [bind] in N0'.
  destruct (deg =? 0)%nat eqn:E; [apply Nat.eqb_eq in E; lia|].
  apply hnf_reduce_contains with (deg := deg) in N0'; [|assumption| |].
  - destruct N0' as [L0 [W0 C0]].
    apply in_spanQ_trans with o0; try assumption.
    specialize (C0 0%nat D1).
    rewrite nth_indep with (d' := map (fun j => nm_entry f deg 0 j) (seq 0 deg)) in C0
      by (rewrite map_length, seq_length; lia).
    rewrite (map_nth (fun i => map (fun j => nm_entry f deg i j) (seq 0 deg))) in C0.
    rewrite seq_nth in C0 by lia. cbn [Nat.add] in C0. rewrite nm_row0 in C0 by assumption. exact C0.
  - rewrite map_length, seq_length. reflexivity.
  - apply Forall_forall. intros r Hr. apply in_map_iff in Hr. destruct Hr as [i [<- _]].
    rewrite map_length, seq_length. reflexivity.
Qed.
