(** Round 2 driver, fourth wave (C06): wrappers (hypotheses on [length] / [Forall]) around two MathComp results:
    [Order::discriminant] returns on every order ([OrderW3DiscInt.order_disc_trace_form], C15) and
    [Order::from_basis] returns on a lower triangular basis with positive diagonal
    ([DetOrder.hnf_reduce_total]).  Style: ssreflect/MathComp. *)
From Coq Require Import ZArith List Znumtheory.
From mathcomp Require Import all_ssreflect ssralg zmodp matrix mxalgebra.
From mathcomp Require Import ssrZ zify.
From Coq Require Import QArith Qcanon.
From RNT.Model Require Import Base Poly Algebraic LinAlg MultTable Order Round2.
From RNT.Refine Require Import QcField LinAlgQc MatZ OrderLint OrderCanon DetBridge DetOrder.
From RNT.Refine Require Round2Det Round2W3Det OrderW3DiscInt PolyZ MultTableOps.
Set Implicit Arguments.
Unset Strict Implicit.
Unset Printing Implicit Defensive.
Import GRing.Theory.
Local Close Scope Z_scope.
Local Close Scope Q_scope.
Local Close Scope Qc_scope.
Local Open Scope ring_scope.

Lemma forall_rows_size n (b : list (list Qc)) : length b = n -> List.Forall (fun r => length r = n) b ->
  forall i, (i < n)%nat -> size (seq.nth [::] b i) = n.
Proof.
move=> lb wb i hi; move/List.Forall_forall: wb; apply.
rewrite -Lnth_nth; apply: List.nth_In; rewrite lb; exact/ltP.
Qed.

(** [Order::discriminant] returns an integer on every deg x deg basis on which [Order::get_mult_table] returns *)
Theorem order_disc_returns (m : mode) (f : list Z) (n : nat) (b : list (list Qc)) (T : table) :
  PolyZ.canonZ f = true -> length f = S n -> (1 <= n)%coq_nat -> (2 * Z.of_nat n < two64)%Z ->
  length b = n -> List.Forall (fun r => length r = n) b ->
  get_mult_table b f = Done T ->
  exists d, order_disc m b f = Done d.
Proof.
move=> cf lf hn small lb wb gt.
have hn' : (0 < n)%nat by apply/ltP.
exists (\det (DetInvDiff.trace_form T n)).
exact: (@OrderW3DiscInt.order_disc_trace_form m f n cf lf hn' small b lb (forall_rows_size lb wb) T gt).
Qed.

(** [hnf_reduce] returns on a lower triangular basis with positive diagonal *)
Theorem hnf_reduce_lower_total n (b : list (list Qc)) :
  (1 <= n)%coq_nat -> Round2Det.lower_from n 0 b -> exists r, hnf_reduce b = Done r.
Proof.
move=> hn LO; have [_ [_ sb]] := Round2W3Det.lower_square LO.
exact: (hnf_reduce_total hn sb (Round2W3Det.lower_det_neq0 LO)).
Qed.
