(** Round 2 step: the lattice returned by [one_step] contains the input order
    (stdlib + lia; uses the HNF development for [HNF::new]). *)
From RNT.Model Require Import Base Poly Algebraic LinAlg MultTable Order Round2.
From RNT.Model Require Hnf Elementary Resultant.
From RNT.Refine Require Import MatZ HnfMain HnfUnique Round2Basic Round2Index.
From Coq Require Import QArith Qcanon Lia Znumtheory.
Open Scope Z_scope.

(** ** [mapM] *)
Lemma mapM_Done {A B} (f : A -> outcome B) : forall l r,
  mapM f l = Done r -> length r = length l /\
  forall i a d, nth_error l i = Some a -> f a = Done (nth i r d).
Proof.
  induction l as [|x l IH]; intros r H; cbn [mapM] in H.
  - injection H as <-. split; [reflexivity|]. intros [|i] a d E; discriminate.
  - destruct (f x) as [y| |] eqn:Fx; cbn [bind] in H; try discriminate.
    destruct (mapM f l) as [t| |] eqn:Ft; cbn [bind] in H; try discriminate.
    injection H as <-. destruct (IH t eq_refl) as [L N]. split; [cbn; lia|].
    intros [|i] a d E; cbn in E.
    + injection E as <-. assumption.
    + cbn [nth]. apply N. assumption.
Qed.

Lemma mapM_seq_Done {B} (f : nat -> outcome B) s n r :
  mapM f (seq s n) = Done r -> length r = n /\
  forall i d, (i < n)%nat -> f (s + i)%nat = Done (nth i r d).
Proof.
  intros H. apply mapM_Done in H. destruct H as [L N]. rewrite seq_length in L.
  split; [assumption|]. intros i d Hi. apply N.
  rewrite nth_error_nth' with (d := O) by (rewrite seq_length; assumption).
  rewrite seq_nth by assumption. reflexivity.
Qed.

Lemma nth_chk_Done {A} (l : list A) i x d : nth_chk l i = Done x -> (i < length l)%nat /\ nth i l d = x.
Proof.
  unfold nth_chk. destruct (nth_error l i) eqn:E; [|discriminate]. intros H. injection H as <-.
  split; [apply nth_error_Some; congruence|]. apply nth_error_nth. assumption.
Qed.

(** ** The common denominator [lcm_den] *)
Lemma q_den_pos x : 0 < q_den x.
Proof. unfold q_den. lia. Qed.

Lemma lcm_pos a b : 0 < a -> 0 < b -> 0 < Z.lcm a b.
Proof.
  intros A B. pose proof (Z.lcm_nonneg a b).
  assert (Z.lcm a b <> 0) by (rewrite Z.lcm_eq_0; lia). lia.
Qed.

Lemma lcm_row_spec : forall row l0, 0 < l0 ->
  let l := fold_left (fun l x => Z.lcm l (q_den x)) row l0 in
  0 < l /\ (l0 | l) /\ forall x, In x row -> (q_den x | l).
Proof.
  induction row as [|y row IH]; intros l0 P; cbn [fold_left].
  - split; [assumption|]. split; [apply Z.divide_refl|]. intros x [].
  - destruct (IH (Z.lcm l0 (q_den y)) (lcm_pos _ _ P (q_den_pos y))) as [A [B C]].
    split; [assumption|]. split.
    + eapply Z.divide_trans; [apply Z.divide_lcm_l|exact B].
    + intros x [<-|I]; [|apply C; assumption].
      eapply Z.divide_trans; [apply Z.divide_lcm_r|exact B].
Qed.

Lemma lcm_den_spec : forall b l0, 0 < l0 ->
  0 < lcm_den l0 b /\ (l0 | lcm_den l0 b) /\
  forall row x, In row b -> In x row -> (q_den x | lcm_den l0 b).
Proof.
  unfold lcm_den. induction b as [|r b IH]; intros l0 P; cbn [fold_left].
  - split; [assumption|]. split; [apply Z.divide_refl|]. intros row x [].
  - destruct (lcm_row_spec r l0 P) as [A [B C]].
    destruct (IH _ A) as [A' [B' C']].
    split; [assumption|]. split; [eapply Z.divide_trans; eassumption|].
    intros row x [<-|I] Ix.
    + eapply Z.divide_trans; [apply C; assumption|exact B'].
    + eapply C'; eassumption.
Qed.

(** ** Scaling by a common denominator is exact *)
Lemma qz_this z : this (qz z) = inject_Z z.
Proof. unfold qz, Q2Qc. cbn [this]. apply Qred_identity. unfold inject_Z. cbn [Qnum Qden]. apply Z.gcd_1_r. Qed.

Lemma scale_exact (x : Qc) l : (q_den x | l) -> qz (scale_to_int l x) = Qcmult x (qz l).
Proof.
  intros [k Hk]. unfold scale_to_int.
  assert (E : Qcmult x (qz l) = qz (Qnum (this x) * k)).
  { apply Qc_is_canon. unfold Qcmult, Q2Qc. cbn [this]. rewrite Qred_correct, !qz_this.
    unfold q_den in Hk. destruct x as [[n d] c]. cbn [this Qnum Qden] in *.
    unfold Qeq, Qmult, inject_Z. cbn [Qnum Qden]. subst l. lia. }
  rewrite E. f_equal. apply q_to_integer_qz.
Qed.

(** ** Integer combinations of rational rows, entry by entry *)
Fixpoint combQ (c : list Z) (B : qmat) (j : nat) : Qc :=
  match c, B with
  | c0 :: c', r :: B' => Qcplus (Qcmult (qz c0) (nth j r q0)) (combQ c' B' j)
  | _, _ => q0
  end.

(** [v] (its first [m] entries) is an integer combination of the rows of [B] *)
Definition in_spanQ (m : nat) (v : list Qc) (B : qmat) : Prop :=
  exists c : list Z, length c = length B /\ forall j, (j < m)%nat -> nth j v q0 = combQ c B j.

Lemma qz_add a b : qz (a + b) = Qcplus (qz a) (qz b).
Proof.
  apply Qc_is_canon. unfold Qcplus, Q2Qc. cbn [this]. rewrite Qred_correct, !qz_this.
  unfold Qeq, Qplus, inject_Z. cbn [Qnum Qden]. lia.
Qed.

Lemma qz_0 : qz 0 = q0.
Proof. reflexivity. Qed.

Lemma comb_entry m (L : Qc) j : L <> q0 -> (j < m)%nat ->
  forall c H r, wf m H -> length r = length H ->
  (forall k, (k < length H)%nat -> nth j (nth k r []) q0 = Qcdiv (qz (nth j (nth k H []) 0)) L) ->
  Qcdiv (qz (nth j (lincomb m c H) 0)) L = combQ c r j.
Proof.
  intros NL Hj. induction c as [|c0 c IH]; intros H r WF LR E.
  - rewrite lincomb_nil_l, nth_vzero. cbn [combQ]. rewrite qz_0. unfold q0 in *. field. exact NL.
  - destruct H as [|h H]; destruct r as [|r0 r]; try discriminate.
    + rewrite lincomb_nil_r, nth_vzero. cbn [combQ]. rewrite qz_0. unfold q0 in *. field. exact NL.
    + apply wf_cons in WF. destruct WF as [Wh WH].
      rewrite nth_lincomb_cons by assumption. cbn [combQ].
      rewrite <- (IH H r WH); [| cbn in LR; lia |].
      * rewrite qz_add, qz_mul. pose proof (E O ltac:(cbn; lia)) as E0. cbn [nth] in E0. rewrite E0.
        unfold q0 in *. field. exact NL.
      * intros k Hk. apply (E (S k)). cbn. lia.
Qed.

(** ** [int_matrix], [rat_matrix] entry by entry *)
Lemma int_matrix_spec rows cols l b bi :
  int_matrix rows cols l b = Done bi ->
  shape rows cols bi /\
  forall i j, (i < rows)%nat -> (j < cols)%nat ->
    nth j (nth i bi []) 0 = scale_to_int l (nth j (nth i b []) q0) /\
    (i < length b)%nat /\ (j < length (nth i b []))%nat.
Proof.
  unfold int_matrix. intros H. apply mapM_seq_Done in H. destruct H as [L N].
  split.
  - split; [assumption|]. apply Forall_forall. intros r Hr.
    destruct (In_nth _ _ [] Hr) as [i [Hi <-]]. rewrite L in Hi.
    specialize (N i [] Hi). cbn in N. apply mapM_seq_Done in N. tauto.
  - intros i j Hi Hj. specialize (N i [] Hi). cbn in N.
    apply mapM_seq_Done in N. destruct N as [_ N]. specialize (N j 0 Hj). cbn in N.
    destruct (nth_chk b i) as [ri| |] eqn:Ri; cbn [bind] in N; try discriminate.
    destruct (nth_chk ri j) as [x| |] eqn:Xj; cbn [bind] in N; try discriminate.
    injection N as N. apply (nth_chk_Done _ _ _ []) in Ri. destruct Ri as [Ri <-].
    apply (nth_chk_Done _ _ _ q0) in Xj. destruct Xj as [Xj <-]. auto.
Qed.

Lemma rat_matrix_spec rows cols l h r :
  rat_matrix rows cols l h = Done r ->
  length r = rows /\
  forall i j, (i < rows)%nat -> (j < cols)%nat ->
    nth j (nth i r []) q0 = ratio_new (nth j (nth i h []) 0) l /\
    (i < length h)%nat /\ length (nth i r []) = cols.
Proof.
  unfold rat_matrix. intros H. apply mapM_seq_Done in H. destruct H as [L N].
  split; [assumption|].
  intros i j Hi Hj. specialize (N i [] Hi). cbn in N.
  apply mapM_seq_Done in N. destruct N as [Lr N]. specialize (N j q0 Hj). cbn in N.
  destruct (nth_chk h i) as [ri| |] eqn:Ri; cbn [bind] in N; try discriminate.
  destruct (nth_chk ri j) as [x| |] eqn:Xj; cbn [bind] in N; try discriminate.
  injection N as N. apply (nth_chk_Done _ _ _ []) in Ri. destruct Ri as [Ri <-].
  apply (nth_chk_Done _ _ _ 0) in Xj. destruct Xj as [Xj <-]. auto.
Qed.

Lemma qz_nonzero l : l <> 0 -> qz l <> q0.
Proof. intros H E. apply H. apply qz_inj. exact E. Qed.

(** ** [hnf_reduce] keeps every input row in the lattice of the result *)
Lemma hnf_reduce_contains deg b r :
  (1 <= deg)%nat -> length b = deg -> Forall (fun row => length row = deg) b ->
  hnf_reduce b = Done r ->
  length r = deg /\ Forall (fun row => length row = deg) r /\
  forall i, (i < deg)%nat -> in_spanQ deg (nth i b []) r.
Proof.
  intros D1 Lb Wb. unfold hnf_reduce. rewrite Lb.
  destruct (lcm_den_spec b 1 ltac:(lia)) as [Lpos [_ Ldiv]].
  set (l := lcm_den 1 b) in *. intros H.
  destruct (int_matrix deg deg l b) as [bi| |] eqn:BI; cbn [bind] in H; try discriminate.
  destruct (Hnf.hnf_new bi) as [h| |] eqn:HN; cbn [bind] in H; try discriminate.
  apply int_matrix_spec in BI. destruct BI as [SB EB].
  destruct (hnf_new_correct bi deg deg h SB D1 D1 HN) as [_ [Wh Span]].
  apply hnf_new_Done in HN. destruct HN as [U [k HU]].
  destruct (hnf_with_u_correct bi deg deg h U k SB D1 D1 HU) as [_ [_ [_ [_ Hk]]]].
  apply rat_matrix_spec in H. destruct H as [Lr ER].
  assert (Lh : length h = deg).
  { destruct (ER (deg - 1)%nat O ltac:(lia) ltac:(lia)) as [_ [A _]]. lia. }
  split; [assumption|]. split.
  { apply Forall_forall. intros row Hr. destruct (In_nth _ _ [] Hr) as [i [Hi <-]].
    destruct (ER i O ltac:(lia) ltac:(lia)) as [_ [_ A]]. exact A. }
  intros i Hi.
  assert (IS : In_rowspanZ deg (row bi i) h).
  { apply Span. apply HnfUnique.row_in_span; [apply SB|]. destruct SB as [-> _]. assumption. }
  destruct IS as [c [Lc Ec]].
  exists c. split; [lia|]. intros j Hj.
  rewrite <- (comb_entry deg (qz l) j (qz_nonzero l ltac:(lia)) Hj c h r Wh ltac:(lia)).
  - rewrite <- Ec. unfold row. destruct (EB i j Hi Hj) as [-> _].
    rewrite scale_exact.
    + unfold q0. field. apply (qz_nonzero l). lia.
    + apply (Ldiv (nth i b [])); apply nth_In; [lia|].
      rewrite Forall_forall in Wb. rewrite (Wb (nth i b [])) by (apply nth_In; lia). assumption.
  - intros t Ht. destruct (ER t j ltac:(lia) Hj) as [-> _]. reflexivity.
Qed.

(** ** Linearity of [combQ] in the coefficient vector *)
Lemma combQ_nil_r c j : combQ c [] j = q0.
Proof. destruct c; reflexivity. Qed.

Lemma combQ_vzero n o j : combQ (vzero n) o j = q0.
Proof.
  revert o. induction n as [|n IH]; intros o; [reflexivity|].
  change (vzero (S n)) with (0 :: vzero n). destruct o as [|r o]; [reflexivity|].
  cbn [combQ]. rewrite IH, qz_0. unfold q0. ring.
Qed.

Lemma combQ_vadd o j : forall v w, length v = length w ->
  combQ (vadd v w) o j = Qcplus (combQ v o j) (combQ w o j).
Proof.
  revert o. unfold vadd.
  induction o as [|r o IH]; intros v w L.
  - rewrite !combQ_nil_r. unfold q0. ring.
  - destruct v as [|x v]; destruct w as [|y w]; try discriminate.
    + cbn. unfold q0. ring.
    + cbn [map2 combQ]. rewrite IH by (cbn in L; lia). rewrite qz_add. ring.
Qed.

Lemma combQ_vscale a o j : forall v, combQ (vscale a v) o j = Qcmult (qz a) (combQ v o j).
Proof.
  unfold vscale. revert o.
  induction o as [|r o IH]; intros v.
  - rewrite !combQ_nil_r. unfold q0. ring.
  - destruct v as [|x v]; [cbn; unfold q0; ring|].
    cbn [map combQ]. rewrite IH, qz_mul. ring.
Qed.

(** a combination of rows that are themselves (scaled) combinations *)
Lemma comb_comb m (o : qmat) (P : Qc) j : P <> q0 ->
  forall c h nb, wf m h -> length nb = length h ->
  (forall k, (k < length h)%nat -> nth j (nth k nb []) q0 = Qcdiv (combQ (nth k h []) o j) P) ->
  combQ c nb j = Qcdiv (combQ (lincomb m c h) o j) P.
Proof.
  intros NP. induction c as [|c0 c IH]; intros h nb WF L E.
  - rewrite lincomb_nil_l, combQ_vzero. cbn. unfold q0 in *. field. exact NP.
  - destruct h as [|h0 h]; destruct nb as [|n0 nb]; try discriminate.
    + rewrite lincomb_nil_r, combQ_vzero. cbn. unfold q0 in *. field. exact NP.
    + apply wf_cons in WF. destruct WF as [W0 WH].
      cbn [lincomb combQ].
      rewrite combQ_vadd by (rewrite vscale_length, lincomb_length; auto).
      rewrite combQ_vscale.
      rewrite (IH h nb WH); [|cbn in L; lia|intros k Hk; apply (E (S k)); cbn; lia].
      pose proof (E O ltac:(cbn; lia)) as E0. cbn [nth] in E0. rewrite E0.
      unfold q0 in *. field. exact NP.
Qed.

Lemma skipn_cons_inv {A} (l : list A) : forall s r t d,
  skipn s l = r :: t -> skipn (S s) l = t /\ nth s l d = r /\ (s < length l)%nat.
Proof.
  induction l as [|x l IH]; intros s r t d H.
  - destruct s; discriminate.
  - destruct s as [|s].
    + cbn in H. injection H as <- <-. cbn. repeat split. lia.
    + cbn [skipn] in H. destruct (IH s r t d H) as [A1 [A2 A3]]. cbn [nth length]. repeat split; try assumption. lia.
Qed.

(** the rows [p e_i] *)
Lemma combQ_unit p i j (o : qmat) : forall n s, (s <= i < s + n)%nat ->
  combQ (map (fun t => if (t =? i)%nat then p else 0) (seq s n)) (skipn s o) j
  = Qcmult (qz p) (nth j (nth i o []) q0).
Proof.
  induction n as [|n IH]; intros s Hs; [lia|].
  cbn [seq map].
  destruct (skipn s o) as [|r o'] eqn:Sk.
  - cbn [combQ]. assert (length o <= s)%nat.
    { destruct (Nat.le_gt_cases (length o) s); [assumption|].
      apply (f_equal (@length _)) in Sk. rewrite skipn_length in Sk. cbn in Sk. lia. }
    rewrite (nth_overflow o) by lia. destruct j; cbn; unfold q0; ring.
  - destruct (skipn_cons_inv o s r o' [] Sk) as [Sk' [Hr _]].
    cbn [combQ]. destruct (s =? i)%nat eqn:Es.
    + apply Nat.eqb_eq in Es. subst i. rewrite Hr.
      assert (G : forall n s' o', (s < s')%nat ->
                combQ (map (fun t => if (t =? s)%nat then p else 0) (seq s' n)) o' j = q0).
      { clear. induction n as [|n IH]; intros s' o' Hs; [reflexivity|].
        cbn [seq map]. destruct o' as [|r o']; [reflexivity|]. cbn [combQ].
        destruct (s' =? s)%nat eqn:E; [apply Nat.eqb_eq in E; lia|].
        rewrite IH by lia. rewrite qz_0. unfold q0. ring. }
      pose proof (G n (S s) o' ltac:(lia)) as Z0'.
      rewrite Z0'. unfold q0. ring.
    + apply Nat.eqb_neq in Es. rewrite <- Sk', IH by lia. rewrite qz_0. unfold q0. ring.
Qed.

(** ** [new_basis]: rows [(h_i / p) * O] *)
Lemma addmulq_prefix_spec : forall n acc orow r res,
  addmulq_prefix n acc orow r = Done res ->
  length res = length acc /\ (n <= length acc)%nat /\ (n <= length orow)%nat /\
  forall k, (k < n)%nat -> nth k res q0 = Qcplus (nth k acc q0) (Qcmult r (nth k orow q0)).
Proof.
  induction n as [|n IH]; intros acc orow r res H; cbn [addmulq_prefix] in H.
  - injection H as <-. repeat split; try lia.
  - destruct acc as [|x acc]; [discriminate|]. destruct orow as [|y orow]; [discriminate|].
    destruct (addmulq_prefix n acc orow r) as [t| |] eqn:E; cbn [bind] in H; try discriminate.
    injection H as <-. destruct (IH _ _ _ _ E) as [A [B [C D]]].
    cbn [length]. repeat split; try lia.
    intros [|k] Hk; [reflexivity|]. cbn [nth]. apply D. lia.
Qed.

Lemma skipn_nth_cons {A} (l : list A) d : forall s, (s < length l)%nat ->
  skipn s l = nth s l d :: skipn (S s) l.
Proof.
  induction l as [|x l IH]; intros s Hs; [cbn in Hs; lia|].
  destruct s as [|s]; [reflexivity|]. cbn [skipn nth]. rewrite (IH s) by (cbn in Hs; lia). reflexivity.
Qed.

Definition nb_body (deg : nat) (p : Z) (h : Hnf.mat) (o : qmat) (i : nat) :=
  fun (j : nat) (acc : list Qc) =>
    do x <- Hnf.get h i j;
    do _ <- (if p =? 0 then Panic PDiv0 else Done tt);
    do oj <- nth_chk o j;
    addmulq_prefix deg acc oj (ratio_new x p).

Lemma nb_row_loop deg p h o i : forall n s acc res,
  Hnf.for_loop (seq s n) (nb_body deg p h o i) acc = Done res ->
  length acc = deg ->
  length res = deg /\
  ((1 <= n)%nat -> p <> 0) /\
  forall k, (k < deg)%nat ->
    nth k res q0 = Qcplus (nth k acc q0)
                     (Qcdiv (combQ (firstn n (skipn s (nth i h []))) (skipn s o) k) (qz p)).
Proof.
  induction n as [|n IH]; intros s acc res H La; cbn [seq Hnf.for_loop] in H.
  - injection H as <-. split; [assumption|]. split; [lia|]. intros k Hk. cbn [firstn combQ].
    unfold Qcdiv, q0. ring.
  - destruct (nb_body deg p h o i s acc) as [acc'| |] eqn:B; cbn [bind] in H; try discriminate.
    unfold nb_body, Hnf.get in B.
    destruct (nth_chk h i) as [hi| |] eqn:Hi; cbn [bind] in B; try discriminate.
    destruct (nth_chk hi s) as [x| |] eqn:X; cbn [bind] in B; try discriminate.
    destruct (p =? 0) eqn:P0; cbn [bind] in B; try discriminate.
    destruct (nth_chk o s) as [oj| |] eqn:Oj; cbn [bind] in B; try discriminate.
    apply addmulq_prefix_spec in B. destruct B as [B1 [B2 [B3 B4]]].
    destruct (IH (S s) acc' res H ltac:(lia)) as [R1 [_ R3]].
    apply (nth_chk_Done _ _ _ []) in Hi. destruct Hi as [Hi1 Hi2].
    apply (nth_chk_Done _ _ _ 0) in X. destruct X as [X1 X2].
    apply (nth_chk_Done _ _ _ []) in Oj. destruct Oj as [O1 O2].
    apply Z.eqb_neq in P0.
    split; [assumption|]. split; [auto|]. intros k Hk.
    rewrite R3 by assumption. rewrite B4 by lia.
    rewrite Hi2. rewrite (skipn_nth_cons hi 0 s X1), (skipn_nth_cons o [] s O1).
    cbn [firstn combQ]. rewrite X2, O2. unfold ratio_new.
    pose proof (qz_nonzero p P0) as NP. unfold q0 in *. field. exact NP.
Qed.

Lemma new_basis_spec deg p h o nb :
  (1 <= deg)%nat -> new_basis deg p h o = Done nb ->
  p <> 0 /\ length nb = deg /\ Forall (fun row => length row = deg) nb /\
  forall i k, (i < deg)%nat -> (k < deg)%nat ->
    nth k (nth i nb []) q0 = Qcdiv (combQ (firstn deg (nth i h [])) o k) (qz p).
Proof.
  intros D1 H. unfold new_basis in H. apply mapM_seq_Done in H. destruct H as [L N].
  assert (R : forall i, (i < deg)%nat ->
            Hnf.for_loop (seq 0 deg) (nb_body deg p h o i) (repeat q0 deg) = Done (nth i nb [])).
  { intros i Hi. specialize (N i [] Hi). cbn in N. unfold Hnf.range in N. rewrite Nat.sub_0_r in N. exact N. }
  split.
  { destruct (nb_row_loop deg p h o O deg O _ _ (R O ltac:(lia)) (repeat_length _ _)) as [_ [P _]]. auto. }
  split; [assumption|]. split.
  - apply Forall_forall. intros row Hr. destruct (In_nth _ _ [] Hr) as [i [Hi <-]]. rewrite L in Hi.
    destruct (nb_row_loop deg p h o i deg O _ _ (R i Hi) (repeat_length _ _)) as [A _]. exact A.
  - intros i k Hi Hk.
    destruct (nb_row_loop deg p h o i deg O _ _ (R i Hi) (repeat_length _ _)) as [_ [_ A]].
    rewrite A by assumption. cbn [skipn].
    rewrite nth_repeat. unfold q0. ring.
Qed.

(** ** Assembling: the result of [one_step] contains the input order *)
Lemma one_step_inv f o p o' hh :
  one_step f o p = Done (o', hh) ->
  exists deg u_p h nb,
    deg_alloc f = Done deg /\ Hnf.check_widths deg u_p = Done tt /\
    Hnf.hnf_new (u_p ++ p_rows deg p) = Done h /\ length h = deg /\
    new_basis deg p h o = Done nb /\ from_basis nb = Done o'.
Proof.
  unfold one_step. intros H.
  bind_inv H. bind_inv H. bind_inv H. destruct a1 as [tbl tbl2].
  bind_inv H. bind_inv H. bind_inv H. bind_inv H. bind_inv H. bind_inv H. bind_inv H. bind_inv H.
  bind_inv H. bind_inv H.
  injection H as <- <-.
  exists a0, a2, a5, a7. destruct a4.
  unfold assert_ in E7. destruct (Hnf.hnf_dim a5 =? a0)%nat eqn:D; [|discriminate].
  apply Nat.eqb_eq in D. unfold Hnf.hnf_dim in D. auto 10.
Qed.

Lemma check_widths_wf m : forall rows, Hnf.check_widths m rows = Done tt -> wf m rows.
Proof.
  induction rows as [|r rows IH]; intros H; [apply Forall_nil|].
  cbn [Hnf.check_widths] in H. destruct (length r =? m)%nat eqn:E; [|discriminate].
  apply Nat.eqb_eq in E. apply wf_cons. split; [exact E|apply IH; exact H].
Qed.

Definition pe (deg : nat) (p : Z) (i : nat) : list Z :=
  map (fun t => if (t =? i)%nat then p else 0) (seq 0 deg).

Lemma p_rows_nth deg p i : (i < deg)%nat -> nth i (p_rows deg p) [] = pe deg p i.
Proof.
  intros Hi. unfold p_rows.
  change (map (fun i0 => map (fun j => if (j =? i0)%nat then p else 0) (seq 0 deg)) (seq 0 deg))
    with (map (pe deg p) (seq 0 deg)).
  rewrite nth_indep with (d' := pe deg p O) by (rewrite map_length, seq_length; assumption).
  rewrite (map_nth (pe deg p)). rewrite seq_nth by assumption. reflexivity.
Qed.

Lemma p_rows_shape deg p : shape deg deg (p_rows deg p).
Proof.
  unfold p_rows. split; [rewrite map_length, seq_length; reflexivity|].
  apply Forall_forall. intros r Hr. apply in_map_iff in Hr. destruct Hr as [i [<- _]].
  rewrite map_length, seq_length. reflexivity.
Qed.

Lemma fin_choice {A} (P : nat -> A -> Prop) (d : A) : forall n,
  (forall k, (k < n)%nat -> exists a, P k a) ->
  exists l, length l = n /\ forall k, (k < n)%nat -> P k (nth k l d).
Proof.
  induction n as [|n IH]; intros H.
  - exists []. split; [reflexivity|]. intros k Hk. lia.
  - destruct IH as [l [L N]]; [intros k Hk; apply H; lia|].
    destruct (H n ltac:(lia)) as [a Pa].
    exists (l ++ [a]). split; [rewrite app_length; cbn; lia|].
    intros k Hk. destruct (Nat.eq_dec k n) as [->|Ne].
    + rewrite app_nth2 by lia. rewrite L, Nat.sub_diag. exact Pa.
    + rewrite app_nth1 by lia. apply N. lia.
Qed.

Lemma Qcdiv_1 x : Qcdiv x (Q2Qc 1) = x.
Proof. field. discriminate. Qed.

Lemma in_spanQ_trans m (v : list Qc) (nb o' : qmat) :
  length nb = m -> length o' = m ->
  in_spanQ m v nb -> (forall k, (k < m)%nat -> in_spanQ m (nth k nb []) o') -> in_spanQ m v o'.
Proof.
  intros Lnb Lo [c [Lc Ec]] Hk.
  destruct (fin_choice (fun k d => length d = m /\ forall j, (j < m)%nat -> nth j (nth k nb []) q0 = combQ d o' j) [] m)
    as [D [LD ND]].
  { intros k Hkm. destruct (Hk k Hkm) as [d [Ld Ed]]. exists d. split; [lia|assumption]. }
  assert (WD : wf m D).
  { apply Forall_forall. intros r Hr. destruct (In_nth _ _ [] Hr) as [k [Hk' <-]]. apply ND. lia. }
  exists (lincomb m c D). split; [rewrite lincomb_length; auto|].
  intros j Hj. rewrite Ec by assumption.
  rewrite (comb_comb m o' (Q2Qc 1) j ltac:(discriminate) c D nb WD ltac:(lia)).
  - apply Qcdiv_1.
  - intros k Hk'. rewrite Qcdiv_1. apply ND; lia.
Qed.

(** [P] one_step_contains: for a non-constant f (degree [deg >= 1]) and an input order given by a
    [deg x deg] rational basis, the lattice returned by [one_step] has [deg] basis rows and every
    basis row of the input order is an integer combination of them. *)
Theorem one_step_contains f o p o' hh deg :
  length f = S deg -> (1 <= deg)%nat ->
  length o = deg -> Forall (fun r => length r = deg) o ->
  one_step f o p = Done (o', hh) ->
  length o' = deg /\ Forall (fun r => length r = deg) o' /\
  forall i, (i < deg)%nat -> in_spanQ deg (nth i o []) o'.
Proof.
  intros Lf D1 Lo Wo H.
  apply one_step_inv in H. destruct H as [deg' [u_p [h [nb [DA [CW [HN [Lh [NB FB]]]]]]]]].
  assert (DA' : deg_alloc f = Done deg).
  { unfold deg_alloc. destruct f as [|a f']; [discriminate|]. f_equal.
    unfold pdeg. change (length (a :: f')) with (S (length f')) in *. lia. }
  rewrite DA' in DA. injection DA as DA.
  subst deg'.
  apply check_widths_wf in CW.
  destruct (p_rows_shape deg p) as [Lp Wp].
  assert (SA : shape (length u_p + deg) deg (u_p ++ p_rows deg p)).
  { split; [rewrite app_length, Lp; reflexivity|]. apply wf_app. split; assumption. }
  destruct (hnf_new_correct _ _ _ _ SA ltac:(lia) D1 HN) as [_ [Wh Span]].
  apply new_basis_spec in NB; [|assumption]. destruct NB as [P0 [Lnb [Wnb Enb]]].
  unfold from_basis in FB.
  destruct (hnf_reduce_contains deg nb o' D1 Lnb Wnb FB) as [Lo' [Wo' Cnb]].
  split; [assumption|]. split; [assumption|]. intros i Hi.
  apply in_spanQ_trans with nb; try assumption.
  assert (IS : In_rowspanZ deg (pe deg p i) h).
  { apply Span. rewrite <- p_rows_nth by assumption.
    replace (nth i (p_rows deg p) []) with (row (u_p ++ p_rows deg p) (length u_p + i)).
    - apply row_in_span; [apply SA|]. rewrite app_length, Lp. lia.
    - unfold row. rewrite app_nth2 by lia. f_equal. lia. }
  destruct IS as [c [Lc Ec]].
  exists c. split; [lia|]. intros j Hj.
  rewrite (comb_comb deg o (qz p) j (qz_nonzero p P0) c h nb Wh ltac:(lia)).
  - rewrite <- Ec. unfold pe. pose proof (combQ_unit p i j o deg O ltac:(lia)) as U.
    cbn [skipn] in U. rewrite U. pose proof (qz_nonzero p P0) as NP. unfold q0 in *. field. exact NP.
  - intros k Hk. rewrite Enb by lia.
    rewrite firstn_all2; [reflexivity|].
    pose proof (wf_row deg h k Wh ltac:(lia)) as Wr. unfold row in Wr. lia.
Qed.

Lemma in_spanQ_refl m (B : qmat) i : length B = m -> (i < m)%nat -> in_spanQ m (nth i B []) B.
Proof.
  intros L Hi. exists (unit_from 0 m i). split; [rewrite unit_from_length; lia|].
  intros j Hj. unfold unit_from.
  pose proof (combQ_unit 1 i j B m O ltac:(lia)) as U. cbn [skipn] in U.
  replace (map (fun j0 => if (i =? j0)%nat then 1 else 0) (seq 0 m))
    with (map (fun t => if (t =? i)%nat then 1 else 0) (seq 0 m)).
  - rewrite U. change (qz 1) with (Q2Qc 1). ring.
  - apply map_ext. intros t. rewrite Nat.eqb_sym. reflexivity.
Qed.

(** [P] containment along a chain of steps *)
Theorem reachable_contains f deg o o' :
  length f = S deg -> (1 <= deg)%nat ->
  length o = deg -> Forall (fun r => length r = deg) o ->
  reachable f o o' ->
  length o' = deg /\ Forall (fun r => length r = deg) o' /\
  forall i, (i < deg)%nat -> in_spanQ deg (nth i o []) o'.
Proof.
  intros Lf D1 Lo Wo R. induction R as [|o1 p o2 h R IH S].
  - split; [assumption|]. split; [assumption|]. intros i Hi. apply in_spanQ_refl; assumption.
  - destruct IH as [L1 [W1 C1]].
    destruct (one_step_contains f o1 p o2 h deg Lf D1 L1 W1 S) as [L2 [W2 C2]].
    split; [assumption|]. split; [assumption|]. intros i Hi.
    apply in_spanQ_trans with o1; auto.
Qed.

(** the starting order is a [deg x deg] basis *)
Lemma non_monic_shape f deg o0 :
  length f = S deg -> (1 <= deg)%nat -> non_monic_initial_order f = Done o0 ->
  length o0 = deg /\ Forall (fun r => length r = deg) o0.
Proof.
  intros Lf D1 H. unfold non_monic_initial_order in H.
  assert (DA : deg_alloc f = Done deg).
  { unfold deg_alloc. destruct f as [|a f']; [discriminate|]. f_equal.
    unfold pdeg. change (length (a :: f')) with (S (length f')) in *. lia. }
  rewrite DA in H. cbn [bind] in H.
  destruct (deg =? 0)%nat eqn:E; [apply Nat.eqb_eq in E; lia|].
  apply hnf_reduce_contains with (deg := deg) in H; [tauto|assumption| |].
  - rewrite map_length, seq_length. reflexivity.
  - apply Forall_forall. intros r Hr. apply in_map_iff in Hr. destruct Hr as [i [<- _]].
    rewrite map_length, seq_length. reflexivity.
Qed.

(** [P] find_integral_basis_contains: the returned basis has [deg] rows of length [deg] and every basis
    row of the starting order Z[theta] cap Z[1/theta] is an integer combination of its rows. *)
Theorem find_integral_basis_contains m f deg O o0 :
  length f = S deg -> (1 <= deg)%nat ->
  find_integral_basis m f = Done O -> non_monic_initial_order f = Done o0 ->
  length O = deg /\ Forall (fun r => length r = deg) O /\
  forall i, (i < deg)%nat -> in_spanQ deg (nth i o0 []) O.
Proof.
  intros Lf D1 H H0.
  destruct (find_integral_basis_fixpoint m f O H) as [o0' [disc [fac [E0 [_ [_ [_ R]]]]]]].
  rewrite H0 in E0. injection E0 as <-.
  destruct (non_monic_shape f deg o0 Lf D1 H0) as [L0 W0].
  apply (reachable_contains f deg o0 O); assumption.
Qed.
