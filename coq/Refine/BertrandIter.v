(** * The prime iterator never runs out of fuel (Bertrand) and enumerates all primes in increasing order.
    stdlib + lia style. The model ([Elementary.primes_next], [primes_take]) gives one [next()] started at [now]
    the fuel [now + 2]; a prime in [now, 2 now - 2] exists by Bertrand's postulate ([BertrandZ.bertrand_Z]). *)
From Coq Require Import ZArith List Lia Znumtheory Sorted.
From RNT.Model Require Import Base Elementary.
From RNT.Refine Require Import ElemProofs.
From RNT.Refine Require BertrandZ.
Import ListNotations.
Open Scope Z_scope.

(** With a prime [p >= now] closer than the fuel, [primes_next] returns. *)
Lemma primes_next_fuel : forall fuel now p, prime p -> now <= p -> (Z.to_nat (p - now) < fuel)%nat ->
  exists q, primes_next fuel now = Done (q, q + 1).
Proof.
  induction fuel as [|f IH]; intros now p Hp Hle Hf; [lia|].
  cbn [primes_next]. destruct (td_is_prime_spec now) as (b & E & Hb). rewrite E. cbn [bind].
  destruct b.
  - exists now. reflexivity.
  - assert (now <> p) by (intros ->; apply Hb in Hp; discriminate).
    apply (IH (now + 1) p Hp); lia.
Qed.

(** [P] one [next()] of the iterator always returns, with the least prime >= now (fuel now + 2 suffices). *)
Theorem primes_next_total : forall now, 1 <= now ->
  exists p, primes_next (Z.to_nat now + 2) now = Done (p, p + 1) /\
            now <= p /\ p <= 2 * now /\ prime p /\ (forall q, now <= q < p -> ~ prime q).
Proof.
  intros now Hnow.
  assert (Hex : exists p, prime p /\ now <= p /\ p <= 2 * now /\ (Z.to_nat (p - now) < Z.to_nat now + 2)%nat).
  { destruct (Z.eq_dec now 1) as [->|Hne].
    - exists 2. split; [exact prime_2|]. cbn. lia.
    - destruct (BertrandZ.bertrand_Z (now - 1)) as (p & Hp & H1 & H2); [lia|].
      exists p. split; [exact Hp|]. lia. }
  destruct Hex as (p & Hp & H1 & H2 & H3).
  destruct (primes_next_fuel _ now p Hp H1 H3) as (q & E).
  exists q. split; [exact E|].
  destruct (primes_next_spec _ _ _ _ E) as (_ & E2 & E3 & E4).
  split; [exact E2|]. split; [|split; [exact E3|exact E4]].
  destruct (Z.le_gt_cases q p) as [L|G]; [lia|]. exfalso. apply (E4 p); [lia|exact Hp].
Qed.

(** [P] [take k] always returns. *)
Lemma primes_take_total_from : forall k now, 1 <= now -> exists l, primes_take k now = Done l.
Proof.
  induction k as [|k IH]; intros now Hnow; cbn [primes_take].
  - exists []. reflexivity.
  - destruct (primes_next_total now Hnow) as (p & E & H1 & _). rewrite E. cbn [bind].
    destruct (IH (p + 1)) as (rest & R); [lia|]. rewrite R. cbn [bind].
    exists (p :: rest). reflexivity.
Qed.

(** [P] total correctness of [Primes::new().take(k)]: it returns the first k primes. *)
Theorem primes_take_total : forall k, exists l, primes_take k 2 = Done l /\
  length l = k /\ StronglySorted Z.lt l /\
  (forall p, In p l -> prime p) /\
  (forall q p, prime q -> In p l -> q <= p -> In q l).
Proof.
  intros k. destruct (primes_take_total_from k 2) as (l & E); [lia|].
  exists l. split; [exact E|].
  destruct (primes_take_spec _ _ _ E) as (H1 & H2 & H3 & H4).
  split; [exact H1|]. split; [exact H2|]. split.
  - intros p Hp. apply H3. exact Hp.
  - intros q p Hq Hp Hle. apply (H4 q p); auto. destruct Hq as [Hq _]. lia.
Qed.

(** A strictly increasing list of k integers >= a contains an element >= a + k - 1. *)
Lemma sorted_last_big : forall l a, StronglySorted Z.lt l -> (forall x, In x l -> a <= x) -> l <> [] ->
  exists x, In x l /\ a + Z.of_nat (length l) - 1 <= x.
Proof.
  induction l as [|h t IH]; intros a S Hge Hne; [congruence|].
  inversion S as [|? ? St Hall]; subst.
  destruct t as [|h2 t'].
  - exists h. split; [left; reflexivity|]. cbn [length]. specialize (Hge h (or_introl eq_refl)). lia.
  - destruct (IH (a + 1) St) as (x & Hx & Hbig).
    + intros x Hx. rewrite Forall_forall in Hall. specialize (Hall x Hx). specialize (Hge h (or_introl eq_refl)). lia.
    + discriminate.
    + exists x. split; [right; exact Hx|]. cbn [length] in *. lia.
Qed.

(** [P] the iterator enumerates ALL primes: every prime q is among the first q outputs. *)
Theorem primes_iter_complete : forall q, prime q ->
  exists l, primes_take (Z.to_nat q) 2 = Done l /\ In q l.
Proof.
  intros q Hq. destruct (primes_take_total (Z.to_nat q)) as (l & E & Hlen & Hs & Hp & Hdown).
  exists l. split; [exact E|].
  assert (Hq1 : 1 < q) by (destruct Hq; assumption).
  destruct (sorted_last_big l 2 Hs) as (x & Hx & Hbig).
  - intros x Hx. specialize (Hp x Hx). destruct Hp. lia.
  - intros ->. cbn in Hlen. lia.
  - apply (Hdown q x Hq Hx). rewrite Hlen in Hbig. lia.
Qed.

(** [P] the outputs are consistent: [take k] is a prefix of [take (k+1)] (so "the k-th output" is well defined). *)
Lemma primes_take_snoc : forall k now l l', primes_take k now = Done l -> primes_take (S k) now = Done l' ->
  exists x, l' = l ++ [x].
Proof.
  induction k as [|k IH]; intros now l l' H H'.
  - cbn [primes_take] in H. inversion H; subst. cbn [primes_take] in H'.
    destruct (primes_next (Z.to_nat now + 2) now) as [[p now']| |]; cbn [bind] in H'; try discriminate.
    inversion H'; subst. exists p. reflexivity.
  - remember (S k) as k1. cbn [primes_take] in H'. subst k1. cbn [primes_take] in H.
    destruct (primes_next (Z.to_nat now + 2) now) as [[p now']| |]; cbn [bind] in H, H'; try discriminate.
    destruct (primes_take k now') as [rest| |] eqn:R; cbn [bind] in H; try discriminate.
    destruct (primes_take (S k) now') as [rest'| |] eqn:R'; cbn [bind] in H'; try discriminate.
    inversion H; inversion H'; subst.
    destruct (IH now' rest rest' R R') as (x & ->). exists x. reflexivity.
Qed.
