(** * MultTableNorm: [MultTable::norm] returns the determinant of the integer matrix
    [sum_i a_i T_i] (the matrix of multiplication by [a]); in particular the truncating
    [to_integer] at the end of [norm] is exact (C14).  Style: ssreflect/MathComp, matrices
    over [QcField] (the C18 development). *)
From Coq Require Import QArith Qcanon.
From RNT.Model Require Import Base Poly Algebraic LinAlg MultTable.
From RNT.Model Require Hnf.
From mathcomp Require Import all_ssreflect ssralg zmodp matrix mxalgebra.
From mathcomp Require Import ssrZ zify.
From RNT.Refine Require Import QcField LinAlgQc MultTableOps.
From RNT.Refine Require OrderIndex.
Set Implicit Arguments.
Unset Strict Implicit.
Unset Printing Implicit Defensive.
Import GRing.Theory.
Local Close Scope Z_scope.
Local Close Scope Q_scope.
Local Open Scope ring_scope.

Lemma size_set_row A (l : seq A) j x : size (Hnf.set_row l j x) = size l.
Proof. by elim: l j => [|y l IH] [|j] //=; rewrite IH. Qed.

Lemma set_row_cat A (l1 l2 : seq A) x y j : size l1 = j ->
  Hnf.set_row (l1 ++ x :: l2) j y = l1 ++ y :: l2.
Proof. by move=> <-; elim: l1 => //= z l1 ->. Qed.

(** [for j in 0..n { s[j] = upd(j, s[j]) }] *)
Lemma foldl_set_row A (d : A) (upd : nat -> A -> A) n (s : seq A) : size s = n ->
  foldl (fun s j => Hnf.set_row s j (upd j (nth d s j))) s (iota 0 n)
  = mkseq (fun j => upd j (nth d s j)) n.
Proof.
move=> sz.
have H cnt : (cnt <= n)%N ->
    foldl (fun s j => Hnf.set_row s j (upd j (nth d s j))) s (iota 0 cnt)
    = mkseq (fun j => upd j (nth d s j)) cnt ++ drop cnt s.
  elim: cnt => [|cnt IH] hc; first by rewrite /= drop0.
  rewrite -addn1 iotaD foldl_cat IH ?(ltnW hc) //= add0n.
  have hs : (cnt < size s)%N by rewrite sz.
  rewrite (drop_nth d hs).
  set mk := mkseq _ cnt.
  have szmk : size mk = cnt by rewrite size_mkseq.
  rewrite nth_cat szmk ltnn subnn /= (set_row_cat _ _ _ szmk) addn1.
  by rewrite -cat_rcons -[rcons _ _]/(rcons (mkseq _ cnt) ((fun j => upd j (nth d s j)) cnt)) -mkseqS.
by rewrite H // -sz drop_size cats0.
Qed.

Lemma addq_prefix_ok n (srow : seq Qc) (trow : seq Z) ai : size srow = n -> (n <= size trow)%N ->
  addq_prefix n srow trow ai
  = Done (mkseq (fun k => (nth (Q2Qc 0) srow k : Qc) + q_of_Z (ai * nth 0 trow k)) n).
Proof.
elim: n srow trow => [|n IH] [|x srow] [|y trow] // [sr] sw.
rewrite [addq_prefix _ _ _ _]/= (IH srow trow sr sw) /bind; congr Done.
apply: (@eq_from_nth _ (Q2Qc 0)) => [|k]; first by rewrite [LHS]/= !size_mkseq.
rewrite [size _]/= size_mkseq => hk.
rewrite [in RHS]nth_mkseq //; case: k hk => [|k] hk //=.
by rewrite nth_mkseq.
Qed.

Definition rep_coef (t : table) (a : seq Z) (n j k : nat) : Z :=
  \sum_(i <- iota 0 n) nth 0 a i * T3 t i j k.

Definition qsquare (n : nat) (s : seq (seq Qc)) : Prop :=
  size s = n /\ forall j, (j < n)%N -> size (nth [::] s j) = n.

Definition qent (s : seq (seq Qc)) j k : Qc := nth (Q2Qc 0) (nth [::] s j) k.

Lemma foldl_acc2 n (h : nat -> nat -> nat -> Qc) (g : nat -> seq (seq Qc) -> seq (seq Qc)) js s :
  (forall i s, qsquare n s -> qsquare n (g i s) /\
      forall j k, (j < n)%N -> (k < n)%N -> qent (g i s) j k = qent s j k + h i j k) ->
  qsquare n s ->
  qsquare n (foldl (fun s i => g i s) s js) /\
  forall j k, (j < n)%N -> (k < n)%N ->
    qent (foldl (fun s i => g i s) s js) j k = qent s j k + \sum_(i <- js) h i j k.
Proof.
move=> hg; elim: js s => [|i js IH] s sq /=.
  by split=> // j k _ _; rewrite big_nil addr0.
have [sq' e'] := hg i s sq; have [sq'' e''] := IH _ sq'.
by split=> // j k hj hk; rewrite e'' // e' // big_cons addrA.
Qed.

(** the matrix built by [norm] and [inv]: [sum[j][k] = sum_i a[i] * table[i][j][k]] *)
Theorem mt_rep_closed n t a : cube n t -> size a = n ->
  mt_rep t a = Done (mkseq (fun j => mkseq (fun k => q_of_Z (rep_coef t a n j k)) n) n).
Proof.
move=> ct sa; rewrite /mt_rep /mt_deg.
have st : size t = n by case/andP: ct => /eqP.
rewrite Llength_eq' st range0_eq !Lrepeat_eq'.
set body := (X in Hnf.for_loop _ X _).
pose upd i j (row : seq Qc) := mkseq (fun k => (nth (Q2Qc 0) row k : Qc) + q_of_Z (nth 0 a i * T3 t i j k)) n.
pose gout i (s : seq (seq Qc)) := mkseq (fun j => upd i j (nth [::] s j)) n.
have gout_ok i s : qsquare n s -> qsquare n (gout i s) /\
    forall j k, (j < n)%N -> (k < n)%N ->
      qent (gout i s) j k = qent s j k + q_of_Z (nth 0 a i * T3 t i j k).
  move=> sq; split.
    by split; rewrite ?size_mkseq // => j hj; rewrite nth_mkseq // size_mkseq.
  by move=> j k hj hk; rewrite /qent nth_mkseq // nth_mkseq.
have hb i s : i \in iota 0 n -> qsquare n s -> body i s = Done (gout i s) /\ qsquare n (gout i s).
  rewrite mem_iota add0n => /andP[_ hi] sq; rewrite /body.
  rewrite (nth_chk_ok 0) ?sa // (nth_chk_ok [::]) ?st // /bind.
  set body2 := (X in Hnf.for_loop _ X _).
  pose gin j (s' : seq (seq Qc)) := Hnf.set_row s' j (upd i j (nth [::] s' j)).
  have sqset j s' : (j < n)%N -> qsquare n s' -> qsquare n (gin j s').
    move=> hj [sz rows]; split; first by rewrite size_set_row.
    move=> j' hj'; rewrite /gin.
    have -> : s' = take j s' ++ nth [::] s' j :: drop j.+1 s' by rewrite -drop_nth ?sz // cat_take_drop.
    have szt : size (take j s') = j by rewrite size_take sz hj.
    rewrite (set_row_cat _ _ _ szt) !nth_cat szt.
    case: ltngtP => // [h|h|->]; last by rewrite subnn /= size_mkseq.
      by rewrite nth_take // rows.
    have -> : (j' - j = (j' - j).-1.+1)%N by lia.
    rewrite /= nth_drop.
    have -> : (j.+1 + (j' - j).-1 = j')%N by lia.
    exact: rows.
  have hb2 j s' : j \in iota 0 n -> qsquare n s' -> body2 j s' = Done (gin j s') /\ qsquare n (gin j s').
    rewrite mem_iota add0n => /andP[_ hj] sq'; rewrite /body2; split; last exact: sqset.
    case: sq' => sz rows.
    rewrite (nth_chk_ok [::]) ?(cube_row ct) // (nth_chk_ok [::]) ?sz // /bind.
    by rewrite addq_prefix_ok ?rows ?(cube_cell ct).
  have [-> _] := @for_loop_foldl _ (qsquare n) (iota 0 n) body2 gin s hb2 sq.
  case: (sq) => sz _; rewrite (foldl_set_row [::] (upd i) sz); split=> //.
  by have [] := gout_ok i s sq.
have sq0 : qsquare n (nseq n (nseq n (Q2Qc 0))).
  by split; rewrite ?size_nseq // => j hj; rewrite nth_nseq hj size_nseq.
have [-> _] := @for_loop_foldl _ (qsquare n) (iota 0 n) body gout _ hb sq0.
have [[sz rows] e] := @foldl_acc2 n (fun i j k => q_of_Z (nth 0 a i * T3 t i j k)) gout (iota 0 n) _ gout_ok sq0.
congr Done; apply: (@eq_from_nth _ [::]); rewrite ?size_mkseq // sz => j hj.
rewrite nth_mkseq //; apply: (@eq_from_nth _ (Q2Qc 0)); rewrite ?size_mkseq ?rows // => k hk.
rewrite nth_mkseq // -/(qent _ j k) e // /qent !nth_nseq hj nth_nseq hk add0r /rep_coef.
by rewrite rmorph_sum.
Qed.

(** [P] norm = determinant of the multiplication matrix [sum_i a_i T_i] (an integer matrix: the
    final [to_integer] does not truncate) *)
Theorem mt_norm_det n t a : cube n t -> size a = n ->
  mt_norm t a = Done (\det (\matrix_(j < n, k < n) rep_coef t a n j k)).
Proof.
move=> ct sa; rewrite /mt_norm (mt_rep_closed ct sa) /bind.
set s := mkseq _ n.
have ls : length s = n by rewrite Llength_eq' size_mkseq.
have sqs : square s.
  apply/List.Forall_forall => r /(@List.In_nth _ _ _ [::]) [j []]; rewrite ls => /ltP hj <-.
  by rewrite Lnth_eq'' nth_mkseq // !Llength_eq' !size_mkseq.
have [d ed] := determinant_total sqs.
rewrite ed; congr Done.
have := determinant_ok ed; rewrite /= ls => ->.
set M := \matrix_(j, k) _.
have -> : qmx n n s = map_mx q_of_Z M.
  apply/matrixP => j k; rewrite !mxE !Lnth_eq''.
  by rewrite nth_mkseq // nth_mkseq.
by rewrite det_map_mx; exact: OrderIndex.q_to_integer_qz.
Qed.
