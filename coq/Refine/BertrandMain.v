(** * Bertrand's postulate (Erdos' proof), layer 3: the contradiction for n >= 1024, the small cases, the theorem.
    MathComp style, everything over [nat] (no reals: the analytic inequality is (2n)^(3(s+2)) < 2^(2n) for
    s = floor(sqrt(2n)), n >= 1024, obtained from 9(k+1)^2 <= 2^(k-1) for k >= 12).

    [bertrand_nat] : forall n, 0 < n -> exists p, prime p /\ n < p <= 2n *)
From mathcomp Require Import all_ssreflect.
From mathcomp Require Import zify.
From RNT.Refine Require Import BertrandBin BertrandVal.
Set Implicit Arguments.
Unset Strict Implicit.
Unset Printing Implicit Defensive.

(** ** Integer square root (existence is all that is needed) *)
Lemma sqrt_ex m : exists s, s ^ 2 <= m < s.+1 ^ 2.
Proof.
elim: m => [|m [s /andP[H1 H2]]]; first by exists 0.
have [lt|ge] := ltnP m.+1 (s.+1 ^ 2).
- by exists s; rewrite lt (leq_trans H1).
- exists s.+1; rewrite ge /=.
  move: H2 ge; rewrite -!mulnn; nia.
Qed.

(** ** Upper bound for C(2n,n) when there is no prime in (n, 2n] *)
Lemma central_upper n s : 2 < n -> n.*2 < s.+1 ^ 2 ->
  (forall p, prime p -> n < p <= n.*2 -> False) ->
  'C(n.*2, n) <= (n.*2) ^ s.+1 * primorial (n.*2 %/ 3).
Proof.
move=> n2 lts noP.
have n0 : 0 < n by lia.
set N := 'C(n.*2, n); set K := n.*2 %/ 3.
have N0 : 0 < N by rewrite bin_gt0 -addnn leq_addr.
pose M := N + s + K.
have EN : N = \prod_(0 <= p < M.+1) p ^ logn p N.
  by rewrite -{1}(partnT N0) (@widen_partn M) // /M; lia.
rewrite {1}EN (bigID (fun p => p <= s)) /=; apply: leq_mul.
- have -> : n.*2 ^ s.+1 = \prod_(0 <= p < M.+1 | p <= s) n.*2.
    rewrite -[s.+1]subn0 -prod_nat_const_nat (@big_nat_widen _ _ _ 0 s.+1 M.+1) /=; last by rewrite /M; lia.
    by apply: eq_bigl => p; rewrite ltnS.
  by apply: leq_prod => p _; exact: central_pow_le.
- have -> : primorial K = \prod_(0 <= p < M.+1 | prime p && (p < K.+1)) p.
    by rewrite /primorial (@big_nat_widen _ _ _ 0 K.+1 M.+1) // /M; lia.
  rewrite big_mkcond [X in _ <= X]big_mkcond /=; apply: leq_prod => p _.
  have [les|lts'] := leqP p s; first by case: ifP => // /andP[/prime_gt0].
  rewrite /=.
  case pP: (prime p); last by rewrite lognE pP.
  have p2 : n.*2 < p ^ 2.
    by apply: leq_trans lts _; rewrite leq_exp2r.
  have le1 := central_logn_le1 n0 p2; rewrite -/N in le1.
  have [leK|ltK] /= := ltnP p K.+1.
    by rewrite -[X in _ <= X]expn1 leq_exp2l // prime_gt1.
  suff -> : logn p N = 0 by [].
  have H3 : n.*2 < 3 * p.
    have Hr := ltn_pmod n.*2 (isT : 0 < 3); have Hd := divn_eq n.*2 3.
    move: ltK Hr Hd; rewrite /K; move: (n.*2) (n.*2 %/ 3) (n.*2 %% 3) => m a r; clear -p; lia.
  have [lepn|ltnp] := leqP p n.
    apply: central_logn_eq0 => //.
    have : 2 <= K by rewrite /K leq_divRL //; lia.
    lia.
  have [lep2n|lt2np] := leqP p n.*2; first by case: (noP p pP); rewrite ltnp lep2n.
  exact: central_logn_big.
Qed.

(** ** The arithmetic contradiction *)

Lemma pow2_ge_sq j : 9 * (j + 13) ^ 2 <= 2 ^ (j + 11).
Proof.
elim: j => [|j IH]; first by [].
rewrite !addSn [2 ^ _]expnS; move: IH; rewrite -!mulnn; move: (2 ^ (j + 11)) => E.
have : 13 <= j + 13 by lia.
move: (j + 13) => x Hx IH.
have H : 2 * x + 1 <= x * x by nia.
lia.
Qed.

Lemma bertrand_arith n s : 1024 <= n -> s ^ 2 <= n.*2 < s.+1 ^ 2 ->
  4 ^ n <= n.*2 * (n.*2 ^ s.+1 * 4 ^ (n.*2 %/ 3)) -> False.
Proof.
move=> nbig /andP[s1 s2] H.
set m := n.*2 in s1 s2 H; set K := m %/ 3 in H.
have m0 : 0 < m by rewrite /m; lia.
have K3 : K * 3 <= m by exact: leq_trunc_div.
(* step A: cube and cancel 4^(2n) *)
have HA : 4 ^ n <= m ^ (3 * s.+2).
  have H' : 4 ^ n <= m ^ s.+2 * 4 ^ K by rewrite [m ^ s.+2]expnS -mulnA.
  have := H'; rewrite -(leq_exp2r _ _ (isT : 0 < 3)) expnMn -!expnM => H3.
  have H4 : 4 ^ (K * 3) <= 4 ^ m by rewrite leq_exp2l.
  have H5 : 4 ^ (n * 3) = 4 ^ n * 4 ^ m by rewrite -expnD /m -addnn; congr (_ ^ _); lia.
  have H6 : 4 ^ n * 4 ^ m <= m ^ (3 * s.+2) * 4 ^ m.
    rewrite -H5 [3 * _]mulnC; apply: leq_trans H3 _; rewrite leq_mul2l H4 orbT //.
  by move: H6; rewrite leq_mul2r expn_eq0 /=.
(* step B: compare exponents of 2 *)
pose k := (trunc_log 2 m).+1.
have k1 : m < 2 ^ k by exact: trunc_log_ltn.
have k2 : 2 ^ k.-1 <= m by exact: trunc_logP.
have HB : m < k * (3 * s.+2).
  have E4 : 4 ^ n = 2 ^ m by rewrite /m -mul2n expnM.
  have : 2 ^ m < 2 ^ (k * (3 * s.+2)).
    rewrite -E4 expnM; apply: leq_ltn_trans HA _.
    by rewrite ltn_exp2r // muln_gt0.
  by rewrite ltn_exp2l.
(* step C: k >= 12 and s >= 3k + 3 *)
have k12 : 11 <= k.-1.
  by apply: trunc_log_max => //; rewrite /m; move: nbig; rewrite -[2 ^ 11]/(2048); lia.
have HC : 9 * k.+1 ^ 2 <= 2 ^ k.-1.
  have := pow2_ge_sq (k.-1 - 11); rewrite subnK //.
  by have -> : k.-1 - 11 + 13 = k.+1 by rewrite /k /= in k12 *; lia.
have HD : (3 * k.+1) ^ 2 < s.+1 ^ 2.
  by rewrite expnMn; apply: leq_ltn_trans s2; apply: leq_trans k2.
rewrite ltn_exp2r // in HD.
move: HB s1; rewrite -mulnn; move: k HD {k1 k2 k12 HC} => k HD; nia.
Qed.

(** ** Small cases: a chain of primes, each below twice its predecessor *)
Lemma bertrand_small n : 0 < n -> n < 1259 -> exists p, prime p /\ n < p <= n.*2.
Proof.
move=> n0 nlt.
have C q : prime q -> n < q -> q <= n.*2 -> exists p, prime p /\ n < p <= n.*2.
  by move=> qP l1 l2; exists q; rewrite l1 l2.
have [?|?] := ltnP n 2; first by apply: (C 2) => //; lia.
have [?|?] := ltnP n 3; first by apply: (C 3) => //; lia.
have [?|?] := ltnP n 5; first by apply: (C 5) => //; lia.
have [?|?] := ltnP n 7; first by apply: (C 7) => //; lia.
have [?|?] := ltnP n 13; first by apply: (C 13) => //; lia.
have [?|?] := ltnP n 23; first by apply: (C 23) => //; lia.
have [?|?] := ltnP n 43; first by apply: (C 43) => //; lia.
have [?|?] := ltnP n 83; first by apply: (C 83) => //; lia.
have [?|?] := ltnP n 163; first by apply: (C 163) => //; lia.
have [?|?] := ltnP n 317; first by apply: (C 317) => //; lia.
have [?|?] := ltnP n 631; first by apply: (C 631) => //; lia.
by apply: (C 1259) => //; lia.
Qed.

(** ** Bertrand's postulate *)
Theorem bertrand_nat n : 0 < n -> exists p, prime p /\ n < p <= n.*2.
Proof.
move=> n0.
have [small|big] := ltnP n 1259; first exact: bertrand_small.
pose P := fun p => prime p && (n < p).
have [/hasP[p]|/hasPn no] := boolP (has P (iota 0 n.*2.+1)).
  rewrite mem_iota add0n /= ltnS /P => lep /andP[pP ltp].
  by exists p; rewrite ltp lep.
exfalso.
have noP : forall p, prime p -> n < p <= n.*2 -> False.
  move=> p pP /andP[l1 l2]; have := no p; rewrite mem_iota add0n /= ltnS => /(_ l2).
  by rewrite /P pP l1.
have [s /andP[s1 s2]] := sqrt_ex n.*2.
have n2 : 2 < n by lia.
have U := central_upper n2 s2 noP.
have L := central_bin_lower n0.
apply: (@bertrand_arith n s); [lia | by rewrite s1 s2 |].
apply: leq_trans L _; rewrite leq_mul2l; apply/orP; right.
apply: leq_trans U _; rewrite leq_mul2l; apply/orP; right.
exact: primorial_le.
Qed.
