(** * DetSinglyGen (C15): [hnf_reduce] keeps the determinant up to the sign that makes it positive;
      the power-basis order Z[theta] of a monic minimal polynomial f (degree >= 2) therefore has
      determinant 1 and [discriminant_with_min_poly] returns disc f.  Matrix world ([QcField]);
      the rows of [singly_gen] come from DetSinglyGenA.v.  Style: ssreflect/MathComp. *)
From Coq Require Import ZArith List.
From mathcomp Require Import all_ssreflect ssralg zmodp matrix mxalgebra.
From mathcomp Require Import ssrZ zify.
From Coq Require Import QArith Qcanon.
From RNT.Model Require Import Base Poly Algebraic LinAlg MultTable Order.
From RNT.Model Require Hnf.
From RNT.Refine Require Import QcField LinAlgQc MatZ OrderLint OrderCanon DetBridge DetHnf DetOrder.
From RNT.Refine Require OrderIndex DetSinglyGenA.
Set Implicit Arguments.
Unset Strict Implicit.
Unset Printing Implicit Defensive.
Import GRing.Theory.
Local Close Scope Z_scope.
Local Close Scope Q_scope.
Local Close Scope Qc_scope.
Local Open Scope ring_scope.

(** ** [hnf_reduce] multiplies the determinant by +-1, and the result is positive *)
Theorem hnf_reduce_det n b r : (1 <= n)%coq_nat -> qshape n n b -> hnf_reduce b = Done r ->
  exists s : Z, (s = 1%Z \/ s = (-1)%Z) /\ \det (qmx n n r) = q_of_Z s * \det (qmx n n b).
Proof.
move=> hn sb E.
have [U [V [sU [sV [er eb]]]]] := hnf_reduce_equiv n b r hn sb E.
have [l [p [lpos ppos lr sqr dr]]] := stored_det hn sb E.
have sr : qshape n n r by split=> //; move: sqr; rewrite /square lr.
have e1 : \det (qmx n n r) = q_of_Z (\det (zmx n n U)) * \det (qmx n n b).
  by rewrite {1}er (qmx_qmmul sU.1 sb) det_mulmx det_map_mx.
have e2 : \det (qmx n n b) = q_of_Z (\det (zmx n n V)) * \det (qmx n n r).
  by rewrite {1}eb (qmx_qmmul sV.1 sr) det_mulmx det_map_mx.
have r0 : \det (qmx n n r) != 0.
  apply/eqP => d0; move: dr; rewrite d0 mulr0 => /esym/eqP.
  by rewrite q_of_Z_eq0 => /eqP; lia.
exists (\det (zmx n n U)); split=> //.
have : q_of_Z (\det (zmx n n U) * \det (zmx n n V)) * \det (qmx n n r) = 1 * \det (qmx n n r).
  by rewrite mul1r rmorphM /= -mulrA -e2 -e1.
move/(mulIf r0); rewrite -(rmorph1 q_of_Z_rmorphism) => /q_of_Z_inj e.
by case: (Z.mul_eq_1 _ _ e); [left|right].
Qed.

Theorem hnf_reduce_det1 n b r : (1 <= n)%coq_nat -> qshape n n b -> hnf_reduce b = Done r ->
  \det (qmx n n b) = 1 -> \det (qmx n n r) = 1.
Proof.
move=> hn sb E b1.
have [s [hs]] := hnf_reduce_det hn sb E; rewrite b1 mulr1 => er.
have [l [p [lpos ppos _ _]]] := stored_det hn sb E; rewrite er.
case: hs => ->; first by rewrite (rmorph1 q_of_Z_rmorphism).
rewrite -rmorphX -rmorphM /= => /q_of_Z_inj e.
have := zexp_pos n lpos; move: e; move: (l ^+ n) => x e X.
by have : (x * -1 = p)%Z := e; lia.
Qed.

(** ** the unit rows form the identity matrix *)
Lemma nth_unit_row n i j : (i < n)%nat ->
  List.nth j (DetSinglyGenA.unit_row n i) (Q2Qc 0) = (i == j)%:R :> Qc.
Proof.
move=> hi; rewrite /DetSinglyGenA.unit_row.
case: (ltngtP i j) => hij.
- rewrite List.app_nth2 List.repeat_length; last by apply/leP; lia.
  have -> : (j - i)%coq_nat = (j - i).-1.+1 by lia.
  by rewrite /=; exact: nth_qvzero.
- rewrite List.app_nth1 ?List.repeat_length; last by apply/ltP.
  exact: nth_qvzero.
- rewrite hij List.app_nth2 List.repeat_length; last by apply/leP.
  by have -> : (j - j)%coq_nat = 0%nat by lia.
Qed.

Lemma qmx_unit_rows n : qmx n n (List.map (DetSinglyGenA.unit_row n) (List.seq 0 n)) = 1%:M.
Proof.
apply/matrixP => i j; rewrite !mxE.
have /ltP hi := ltn_ord i.
set f := DetSinglyGenA.unit_row n.
rewrite (List.nth_indep _ [::] (f 0%nat)) ?List.map_length ?List.seq_length //.
rewrite (List.map_nth f (List.seq 0 n) 0%nat i) List.seq_nth // -[(0 + i)%coq_nat]/(i : nat) /f.
by rewrite nth_unit_row.
Qed.

Lemma unit_rows_shape n : qshape n n (List.map (DetSinglyGenA.unit_row n) (List.seq 0 n)).
Proof.
split; first by rewrite List.map_length List.seq_length.
apply/List.Forall_forall => r /List.in_map_iff [i [<- /List.in_seq [_ hi]]].
rewrite /DetSinglyGenA.unit_row List.app_length /= !List.repeat_length; lia.
Qed.

(** ** [P] singly_gen_disc *)
Theorem singly_gen_disc m (f : list Z) n discf o d :
  length f = n.+1 -> (2 <= n)%coq_nat -> List.nth n f 0%Z = 1%Z ->
  singly_gen f (alg_new f) = Done o -> order_discriminant m discf o f = Done d ->
  d = discf.
Proof.
move=> lf n2 monic Eo Ed.
have n2' : (2 <= n)%nat by apply/leP.
have hn : (1 <= n)%coq_nat by lia.
have monic' : seq.nth 0%Z f n = 1%Z by rewrite -Lnth_nth.
rewrite (DetSinglyGenA.singly_gen_power_basis lf n2' monic') in Eo.
have det1 := hnf_reduce_det1 hn (unit_rows_shape n) Eo (etrans (congr1 _ (qmx_unit_rows n)) (det1 _ _)).
have [l [p [_ _ lo sqo _]]] := stored_det hn (unit_rows_shape n) Eo.
have [dt [e [Edet [fne [Ee [lc0 V]]]]]] := OrderIndex.order_discriminant_inv _ _ _ _ _ Ed.
have := determinant_ok Edet; rewrite /= lo det1 => edt.
have pf : pdeg f = Z.of_nat n.
  rewrite /pdeg; case: (f) lf => [|y s] // [ls].
  by rewrite -[length (y :: s)]/((length s).+1) ls; lia.
move: lc0 V; rewrite pf Nat2Z.id /coef_at /= monic edt.
have -> : (1 ^ e = if (0 <=? e)%Z then 1 else 0)%Z.
  by case: Z.leb_spec => h; [rewrite Z.pow_1_l|rewrite Z.pow_neg_r].
case: (0 <=? e)%Z => [_|[]//].
rewrite -[Qcmult _ _]/(q_of_Z discf * 1 * 1) -[Qcdiv _ _]/(_ / q_of_Z 1) !mulr1.
by move=> /q_of_Z_inj.
Qed.

(** ... and it does return disc f (no overflow of [2 * (deg - 1)] for any realistic degree) *)
Theorem singly_gen_disc_returns m (f : list Z) n discf o :
  length f = n.+1 -> (2 <= n)%coq_nat -> List.nth n f 0%Z = 1%Z -> (2 * Z.of_nat n < two64)%Z ->
  singly_gen f (alg_new f) = Done o -> order_discriminant m discf o f = Done discf.
Proof.
move=> lf n2 monic small Eo.
have n2' : (2 <= n)%nat by apply/leP.
have hn : (1 <= n)%coq_nat by lia.
have monic' : seq.nth 0%Z f n = 1%Z by rewrite -Lnth_nth.
have Eo' := Eo; rewrite (DetSinglyGenA.singly_gen_power_basis lf n2' monic') in Eo'.
have det1 := hnf_reduce_det1 hn (unit_rows_shape n) Eo' (etrans (congr1 _ (qmx_unit_rows n)) (det1 _ _)).
have [l [p [_ _ lo sqo _]]] := stored_det hn (unit_rows_shape n) Eo'.
have [dt Edet] := determinant_total sqo.
have := determinant_ok Edet; rewrite /= lo det1 => edt.
have pf : pdeg f = Z.of_nat n.
  rewrite /pdeg; case: (f) lf => [|y s] // [ls].
  by rewrite -[length (y :: s)]/((length s).+1) ls; lia.
rewrite /order_discriminant Edet /bind pf.
have -> : assert_ (match f with [::] => false | _ => true end) = Done tt by case: (f) lf.
have u1 : u64_norm m (Z.of_nat n - 1) = Done (Z.of_nat n - 1)%Z.
  rewrite /u64_norm; have -> // : ((0 <=? Z.of_nat n - 1) && (Z.of_nat n - 1 <? two64))%Z = true.
  by apply/andP; split; [apply/Z.leb_le|apply/Z.ltb_lt]; move: small n2; clear; lia.
have u2 : u64_norm m (2 * (Z.of_nat n - 1)) = Done (2 * (Z.of_nat n - 1))%Z.
  rewrite /u64_norm; have -> // : ((0 <=? 2 * (Z.of_nat n - 1)) && (2 * (Z.of_nat n - 1) <? two64))%Z = true.
  by apply/andP; split; [apply/Z.leb_le|apply/Z.ltb_lt]; move: small n2; clear; lia.
rewrite u1 u2 Nat2Z.id.
have -> : coef_at opsZ f n = 1%Z by exact: monic.
rewrite Z.pow_1_l; last by move: n2; clear; lia.
rewrite OrderIndex.div_chk_ok; last by [].
rewrite edt -[Qcmult _ _]/(q_of_Z discf * 1 * 1) -[Qcdiv _ _]/(_ / q_of_Z 1) !mulr1.
by rewrite -[q_of_Z discf]/(qz discf) OrderIndex.q_is_integer_qz OrderIndex.q_to_integer_qz.
Qed.
