(** Round 2 driver, fifth wave (C06): the starting order of ANY f with non-zero leading coefficient is an order.
    [non_monic_initial_order f] is computed (its generator matrix is lower triangular with diagonal 1, a_n, .., a_n)
    and [Order::get_mult_table] returns on it: the lattice <1, w_1, .., w_(n-1)>, w_i = a_n x^i + .. + a_(n-i+1) x,
    is closed under multiplication modulo f (Dedekind; formula of Round2W5Ident).  Style: ssreflect/MathComp. *)
From RNT.Model Require Import Base Poly Algebraic LinAlg MultTable Order.
From Coq Require Import QArith Qcanon.
From mathcomp Require Import all_ssreflect ssralg poly polydiv matrix.
From mathcomp Require Import ssrZ zify ring.
From RNT.Refine Require Import QcRing PolyRefine PolyDiv PolyZ PolyQ AlgMul AlgQuot MultTableOps MultTableGet TableAgrees.
From RNT.Refine Require Import QcField LinAlgQc OrderCanon OrderW3Span DetOrder.
From RNT.Refine Require Round2Lattice Round2Det Round2W3Step Round2W3Det Round2W3Lift Round2W3Driver Round2W3Monic.
From RNT.Refine Require Import Round2W5Ident.
Set Implicit Arguments.
Unset Strict Implicit.
Unset Printing Implicit Defensive.
Import GRing.Theory.
Local Open Scope ring_scope.

(** ** integer combinations of a family of polynomials *)
Section InZ.
Variable n : nat.

Definition inZ (W : nat -> {poly Qc}) (g : {poly Qc}) : Prop :=
  exists c : nat -> Z, g = \sum_(k <- iota 0 n) qz (c k) *: W k.

Variable W : nat -> {poly Qc}.

Lemma inZ0 : inZ W 0.
Proof. by exists (fun _ => 0%Z); rewrite big1 // => k _; rewrite scale0r. Qed.

Lemma inZD g h : inZ W g -> inZ W h -> inZ W (g + h).
Proof.
move=> [c ->] [d ->]; exists (fun k => Z.add (c k) (d k)).
by rewrite -big_split /=; apply: eq_bigr => k _; rewrite -scalerDl -qzD.
Qed.

Lemma inZZ (z : Z) g : inZ W g -> inZ W (qz z *: g).
Proof.
move=> [c ->]; exists (fun k => Z.mul z (c k)).
by rewrite scaler_sumr; apply: eq_bigr => k _; rewrite scalerA -qzM.
Qed.

Lemma qzN1 : qz (-1) = -1.
Proof. by apply/eqP; rewrite -subr_eq0 opprK -[1]/(qz 1) -qzD. Qed.

Lemma inZN g : inZ W g -> inZ W (- g).
Proof. by move=> /(inZZ (-1)); rewrite qzN1 scaleN1r. Qed.

Lemma inZB g h : inZ W g -> inZ W h -> inZ W (g - h).
Proof. by move=> hg /inZN; exact: inZD. Qed.

Lemma inZ_sum (I : Type) (r : seq I) (P : pred I) (G : I -> {poly Qc}) :
  (forall i, P i -> inZ W (G i)) -> inZ W (\sum_(i <- r | P i) G i).
Proof. by move=> h; elim/big_rec: _ => [|i x Pi hx]; [exact: inZ0|apply: inZD => //; exact: h]. Qed.

Lemma inZ_gen k : (k < n)%N -> inZ W (W k).
Proof.
move=> hk; exists (fun t => if t == k then 1%Z else 0%Z).
rewrite (bigD1_seq k) ?mem_iota ?iota_uniq //= eqxx scale1r big1 ?addr0 // => t /negbTE ->.
by rewrite scale0r.
Qed.

(** products modulo F *)
Lemma inZ_mulmod (F : {poly Qc}) g h :
  (forall i j, (i < n)%N -> (j < n)%N -> inZ W ((W i * W j) %% F)) ->
  inZ W g -> inZ W h -> inZ W ((g * h) %% F).
Proof.
move=> hp [c ->] [d ->].
rewrite mulr_suml modp_sum big_seq; apply: inZ_sum => i; rewrite mem_iota add0n => /andP[_ hi].
rewrite mulr_sumr modp_sum big_seq; apply: inZ_sum => j; rewrite mem_iota add0n => /andP[_ hj].
rewrite -scalerAl -scalerAr scalerA modpZl -qzM; apply: inZZ; exact: hp.
Qed.
End InZ.

(** a family whose members are integer combinations of [W'] *)
Lemma inZ_trans n (W W' : nat -> {poly Qc}) g :
  (forall k, (k < n)%N -> inZ n W' (W k)) -> inZ n W g -> inZ n W' g.
Proof.
move=> h [c ->]; rewrite big_seq; apply: inZ_sum => k; rewrite mem_iota add0n => /andP[_ hk].
by apply: inZZ; apply: h.
Qed.

(** the list form used by [Round2W3Lift.table_returns] *)
Lemma inZ_coords n (b : seq (seq Qc)) g : inZ n (fun k => Poly (nth [::] b k)) g ->
  exists c : seq Z, size c = n /\ g = of_coords n b (map qz c).
Proof.
move=> [c ->]; exists (mkseq c n); split; first by rewrite size_mkseq.
rewrite /of_coords; apply: eq_big_seq => k; rewrite mem_iota add0n => /andP[_ hk].
by rewrite (nth_map 0%Z) ?size_mkseq // nth_mkseq.
Qed.

Lemma coords_inZ n (b : seq (seq Qc)) (c : seq Z) :
  inZ n (fun k => Poly (nth [::] b k)) (of_coords n b (map qz c)).
Proof.
exists (fun k => nth 0%Z c k); rewrite /of_coords; apply: eq_bigr => k _.
by rewrite Round2W3Lift.nth_map_qz.
Qed.

(** ** Dedekind's generators modulo f *)
Section Dedekind.
Variables (f : seq Z) (n : nat).
Hypothesis cf : canonZ f.
Hypothesis szf : size f = n.+1.
Hypothesis n1 : (0 < n)%N.
Let F := Fq f.

(** b_u = a_(n-u), the coefficients of f read from the top; 0 beyond *)
Definition topZ (u : nat) : Z := if (u <= n)%N then nth 0%Z f (n - u) else 0%Z.
Definition topQ (u : nat) : Qc := qz (topZ u).

Let B := nm_rows f n.
Let WB (k : nat) : {poly Qc} := Poly (nth [::] B k).

Lemma coef_F j : F`_j = if (j <= n)%N then qz (nth 0%Z f j) else 0.
Proof.
rewrite /F /Fq coef_Poly; case: ifP => hj; first by rewrite (nth_map 0%Z) // szf.
by rewrite nth_default // size_map szf ltnNge hj.
Qed.

Lemma sB : size B = n.
Proof. by have [] := nm_rows_qshape f n. Qed.

Lemma rB i : (i < n)%N -> size (nth [::] B i) = n.
Proof.
move=> hi; have [lB wB] := nm_rows_qshape f n.
move/List.Forall_forall: wB; apply; rewrite -Lnth_eq; apply: List.nth_In.
by rewrite lB; apply/ltP.
Qed.

(** the rows of the generator matrix as polynomials *)
Lemma WB0 : WB 0 = 1.
Proof.
rewrite /WB /B -Lnth_eq nm_rows_row0; last exact/ltP.
rewrite /qe0 /= cons_poly_def; apply/polyP => j.
rewrite coefD coefMX coefC coef_Poly.
have -> : nth 0 (List.repeat q0 (n - 1)) j.-1 = 0.
  by rewrite Lrepeat_eq' nth_nseq; case: ifP.
by case: j => [|j] /=; rewrite add0r.
Qed.

Lemma WBS i : (0 < i < n)%N -> WB i = DP topQ i.
Proof.
move=> /andP[i0 hi]; apply/polyP => j; rewrite coef_DP coef_Poly.
case: (ltnP j n) => hj; last first.
  rewrite nth_default ?rB //; case: ifP => // /andP[_ ji]; lia.
have := nm_rows_entry f n i j (ltP hi) (ltP hj); rewrite q0E !Lnth_eq -/B => ->.
have -> : (i =? 0)%nat = false by apply/Nat.eqb_neq; lia.
rewrite /=.
case h : ((1 <=? j)%nat && (j <=? i)%nat).
  have -> : (0 < j <= i)%N by lia.
  rewrite /topQ /topZ (_ : (i - j <= n)%N); last by lia.
  by rewrite /coef_at Lnth_eq.
by have -> // : (0 < j <= i)%N = false by lia.
Qed.

Lemma size_WB i : (i < n)%N -> (size (WB i) < size F)%N.
Proof. by move=> hi; rewrite /F (size_Fq cf szf) ltnS (leq_trans (size_Poly _)) // rB. Qed.

(** D_n = f - a_0 and D_(n+1+m) = x^(m+1) f *)
Lemma DPn : DP topQ n = F - (topQ n)%:P.
Proof.
apply/polyP => j; rewrite coef_DP coefB coefC coef_F /topQ /topZ.
case: j => [|j] /=; first by rewrite leqnn subnn subrr.
rewrite subr0; case: ifP => // hj.
by rewrite leq_subr subKn.
Qed.

Lemma topQ_big u : (n < u)%N -> topQ u = 0.
Proof. by move=> hu; rewrite /topQ /topZ leqNgt hu. Qed.

Lemma DPbig m : DP topQ (n.+1 + m) = 'X^m.+1 * F.
Proof.
elim: m => [|m IH].
  by rewrite addn0 DPS DPn mulrBr expr1 -mul_polyC [_%:P * _]mulrC subrK.
by rewrite addnS DPS topQ_big ?scale0r ?addr0 ?IH ?exprS ?mulrA //; lia.
Qed.

(** every D_k is an integer combination of 1, w_1, .., w_(n-1) modulo f *)
Lemma DP_mod k : inZ n WB (DP topQ k %% F).
Proof.
case: (ltngtP k n) => hk.
- case: k hk => [|k] hk; first by rewrite DP0 mod0p; exact: inZ0.
  rewrite -WBS ?hk // modp_small ?size_WB //; exact: inZ_gen.
- have -> : k = (n.+1 + (k - n.+1))%N by lia.
  by rewrite DPbig modp_mull; exact: inZ0.
- rewrite hk DPn modpD modpp add0r modNp modp_small; last first.
    by rewrite size_polyC /F (size_Fq cf szf); case: (_ != 0).
  apply: inZN; rewrite -[_%:P]mulr1 mul_polyC -WB0; apply: inZZ; exact: inZ_gen.
Qed.

(** [P] Dedekind: the lattice <1, w_1, .., w_(n-1)> is closed under multiplication modulo f *)
Theorem nm_rows_closed i j : (i < n)%N -> (j < n)%N -> inZ n WB ((WB i * WB j) %% F).
Proof.
move=> hi hj.
case: i hi => [|i] hi; first by rewrite WB0 mul1r modp_small ?size_WB //; exact: inZ_gen.
case: j hj => [|j] hj; first by rewrite WB0 mulr1 modp_small ?size_WB //; exact: inZ_gen.
rewrite !WBS ?hi ?hj // DP_mul modpD modNp !modp_sum.
apply: inZB; apply: inZ_sum => u _; rewrite modpZl; apply: inZZ; exact: DP_mod.
Qed.

End Dedekind.

(** ** the stored basis: same lattice, hence closed under multiplication *)
Section Stored.
Variables (f : seq Z) (n : nat).
Hypothesis cf : canonZ f.
Hypothesis szf : size f = n.+1.
Hypothesis n1 : (0 < n)%N.

Lemma nm_unfold : non_monic_initial_order f = hnf_reduce (nm_rows f n).
Proof.
rewrite /non_monic_initial_order (Round2W3Step.deg_alloc_len f n) //=.
by case: (n) n1.
Qed.

(** the generator matrix is lower triangular with diagonal 1, a_n, .., a_n *)
Lemma nm_rows_det : \det (qmx n n (nm_rows f n)) != 0.
Proof.
have lc : qz (nth 0%Z f n) != 0.
  rewrite Round2W3Lift.qz_eq0 //; apply/eqP.
  by move: cf; rewrite /canonZ /canon (last_nth 0%Z) szf.
rewrite det_trig; last first.
  apply/is_trig_mxP => i j hij; rewrite mxE.
  have := nm_rows_entry f n i j (ltP (ltn_ord i)) (ltP (ltn_ord j)); rewrite q0E => ->.
  have -> : ((i =? 0)%nat && (j =? 0)%nat) = false by lia.
  by have -> : ((1 <=? j)%nat && (j <=? i)%nat) = false by lia.
apply/prodf_neq0 => i _; rewrite mxE.
have := nm_rows_entry f n i i (ltP (ltn_ord i)) (ltP (ltn_ord i)); rewrite q0E => ->.
case: (nat_of_ord i) => [|k] //=.
have -> : (k <=? k)%nat = true by lia.
by rewrite /coef_at Lnth_eq (_ : (n - (k - k)%coq_nat)%coq_nat = n); last lia.
Qed.

(** [P] the starting order of every f of degree >= 1 with non-zero leading coefficient is computed *)
Theorem non_monic_total : exists o0, non_monic_initial_order f = Done o0.
Proof.
rewrite nm_unfold; apply: (hnf_reduce_total (n := n)); first exact/ltP.
  exact: nm_rows_qshape.
exact: nm_rows_det.
Qed.

(** [P] ... and [Order::get_mult_table] returns on it *)
Theorem non_monic_start_table o0 : non_monic_initial_order f = Done o0 ->
  exists T0, get_mult_table o0 f = Done T0.
Proof.
move=> N0.
have lf : length f = n.+1 by rewrite Llength_eq.
have hn : (1 <= n)%coq_nat by apply/ltP.
have LO := Round2Det.non_monic_lower f n o0 lf hn N0.
have [lo wo] := Round2Det.lower_from_shape n o0 LO.
have so : size o0 = n by rewrite -Llength_eq.
have ro := Round2W3Lift.rows_size so wo.
have [lB wB] := nm_rows_qshape f n.
have sB' : size (nm_rows f n) = n by rewrite -Llength_eq.
have rB' := Round2W3Lift.rows_size sB' wB.
move: (N0); rewrite nm_unfold => E.
have OinB := Round2W3Driver.hnf_reduce_span n (nm_rows f n) o0 hn (conj lB wB) E.
have [_ [_ BinO]] := Round2Lattice.hnf_reduce_contains n (nm_rows f n) o0 hn lB wB E.
pose WB k : {poly Qc} := Poly (nth [::] (nm_rows f n) k).
pose WO k : {poly Qc} := Poly (nth [::] o0 k).
have O_B k : (k < n)%N -> inZ n WB (WO k).
  move=> hk; have [c [lc ec]] := OinB k (ltP hk).
  have sc : size c = n by rewrite -Llength_eq lc lB.
  rewrite /WO (Round2W3Lift.poly_of_comb sB' rB' (ro k hk) sc); first exact: coords_inZ.
  by move=> j hj; rewrite -Lnth_eq; exact: ec.
have B_O k : (k < n)%N -> inZ n WO (WB k).
  move=> hk; have [c [lc ec]] := BinO k (ltP hk).
  have sc : size c = n by rewrite -Llength_eq lc lo.
  rewrite /WB (Round2W3Lift.poly_of_comb so ro (rB' k hk) sc); first exact: coords_inZ.
  by move=> j hj; rewrite -Lnth_eq; exact: ec.
apply: (Round2W3Lift.table_returns cf szf so ro).
  by move=> v sv; apply: (Round2W3Det.lower_solvable LO); rewrite Llength_eq.
move=> i j hi hj; apply: inZ_coords.
apply: (inZ_trans B_O); apply: inZ_mulmod; [|exact: O_B|exact: O_B].
exact: (nm_rows_closed cf szf n1).
Qed.

(** [P] Dedekind's lemma on the generators themselves: [Order::get_mult_table] returns on the rows
    1, a_n x, a_n x^2 + a_(n-1) x, .. written by [non_monic_initial_order] (before [hnf_reduce]) *)
Theorem nm_rows_table : exists T, get_mult_table (nm_rows f n) f = Done T.
Proof.
have [lB wB] := nm_rows_qshape f n.
have sB' : size (nm_rows f n) = n by rewrite -Llength_eq.
have rB' := Round2W3Lift.rows_size sB' wB.
apply: (Round2W3Lift.table_returns cf szf sB' rB').
  move=> v sv; apply: solve_complete; rewrite /square ?lB //.
  exact: nm_rows_det.
by move=> i j hi hj; apply: inZ_coords; exact: (nm_rows_closed cf szf n1).
Qed.

End Stored.

(** ** the same with hypotheses on [length] (for the stdlib files) *)
Theorem non_monic_total_list (f : list Z) (deg : nat) :
  canonZ f = true -> length f = S deg -> (1 <= deg)%coq_nat ->
  exists o0, non_monic_initial_order f = Done o0.
Proof. by move=> cf lf /ltP d1; apply: (non_monic_total (n := deg)). Qed.

Theorem non_monic_start_table_list (f : list Z) (deg : nat) o0 :
  canonZ f = true -> length f = S deg -> (1 <= deg)%coq_nat ->
  non_monic_initial_order f = Done o0 -> exists T0, get_mult_table o0 f = Done T0.
Proof. by move=> cf lf /ltP d1; apply: (non_monic_start_table (n := deg)). Qed.

Theorem nm_rows_table_list (f : list Z) (deg : nat) :
  canonZ f = true -> length f = S deg -> (1 <= deg)%coq_nat ->
  exists T, get_mult_table (nm_rows f deg) f = Done T.
Proof. by move=> cf lf /ltP d1; apply: (nm_rows_table (n := deg)). Qed.
