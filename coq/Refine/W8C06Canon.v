(** * W8C06Canon (C06, eighth wave): two maximal orders are stored identically.
      From [maximal_order_unique] (same lattice) and C15 [order_canonical] (HNF canonicity of [Order::from_basis]):
      [from_basis] has the same outcome on any two orders without larger order.  stdlib + lia. *)
From RNT.Model Require Import Base Poly Algebraic LinAlg MultTable Order.
From RNT.Refine Require Import MatZ OrderCanon Round2Lattice Round2W3Driver W8C06Props.
From RNT.Refine Require PolyZ.
From Coq Require Import List Lia QArith Qcanon.
Import ListNotations.
Open Scope Z_scope.

Lemma list_ext_q (a b : list Qc) m : length a = m -> length b = m ->
  (forall j, (j < m)%nat -> nth j a q0 = nth j b q0) -> a = b.
Proof.
  revert b m. induction a as [|x a IH]; intros [|y b] m La Lb H; cbn in *; try congruence; try lia.
  destruct m as [|m]; [lia|]. f_equal.
  - apply (H 0%nat). lia.
  - apply (IH b m); try lia. intros j Hj. apply (H (S j)). lia.
Qed.

(** a lattice inclusion, row by row, is a product by an integer matrix *)
Lemma lattice_sub_qmmul n (o2 o1 : qmat) :
  length o2 = n -> Forall (fun r => length r = n) o2 -> qshape n n o1 -> lattice_sub n o2 o1 ->
  exists U, shape n n U /\ o2 = qmmul n U o1.
Proof.
  intros L2 W2 [L1 W1] S.
  destruct (fin_choice (fun t c => length c = n /\ forall j, (j < n)%nat -> nth j (nth t o2 []) q0 = combQ c o1 j) [] n)
    as [U [LU HU]].
  { intros t Ht. destruct (S t Ht) as [c [Lc Hc]]. exists c. split; [congruence|assumption]. }
  exists U. split.
  - split; [assumption|]. apply Forall_forall. intros r Hr. destruct (In_nth _ _ [] Hr) as [t [Ht <-]].
    apply HU. lia.
  - apply (nth_ext _ _ [] []); [unfold qmmul; rewrite map_length; lia|].
    intros t Ht. rewrite L2 in Ht. unfold qmmul.
    rewrite (nth_indep (map (fun u => qlincomb n u o1) U) [] ((fun u => qlincomb n u o1) [])) by (rewrite map_length; lia).
    rewrite (map_nth (fun u => qlincomb n u o1)).
    destruct (HU t Ht) as [Lc Hc].
    apply (list_ext_q _ _ n).
    + rewrite Forall_forall in W2. apply W2. apply nth_In. lia.
    + apply qlincomb_length. assumption.
    + intros j Hj. rewrite (Hc j Hj). symmetry. apply qlincomb_combQ; assumption.
Qed.

(** [P] two orders without larger order have the same stored form *)
Theorem maximal_order_same_stored (f : list Z) (n : nat) (O1 O2 : qmat) :
  PolyZ.canonZ f = true -> length f = S n -> (1 <= n)%nat ->
  weak_order f n O1 -> no_larger_order f n O1 -> weak_order f n O2 -> no_larger_order f n O2 ->
  from_basis O1 = from_basis O2.
Proof.
  intros Cf Lf N1 W1 M1 W2 M2.
  destruct (maximal_order_unique Cf Lf N1 W1 M1 W2 M2) as [S12 S21].
  destruct W1 as [L1 [R1 _]]. destruct W2 as [L2 [R2 _]].
  destruct (lattice_sub_qmmul n O2 O1 L2 R2 (conj L1 R1) S21) as [U [SU EU]].
  destruct (lattice_sub_qmmul n O1 O2 L1 R1 (conj L2 R2) S12) as [V [SV EV]].
  apply (order_canonical n U V O1 O2 N1 (conj L1 R1) SU SV EU EV).
Qed.

(** ... hence equal stored bases when both are fixed points of [from_basis] (stored normal forms) *)
Corollary maximal_order_stored_equal (f : list Z) (n : nat) (O1 O2 : qmat) :
  PolyZ.canonZ f = true -> length f = S n -> (1 <= n)%nat ->
  weak_order f n O1 -> no_larger_order f n O1 -> weak_order f n O2 -> no_larger_order f n O2 ->
  from_basis O1 = Done O1 -> from_basis O2 = Done O2 -> O1 = O2.
Proof.
  intros Cf Lf N1 W1 M1 W2 M2 F1 F2.
  pose proof (maximal_order_same_stored f n O1 O2 Cf Lf N1 W1 M1 W2 M2) as E.
  rewrite F1, F2 in E. injection E as E. exact E.
Qed.
