(** C20: Gram determinants of the CURRENT BASIS (not only of the rows the run has reached), exact arithmetic.

    [dN B i] = |b*_i|^2 by the textbook formulas ([gram_schmidt]), [gd B i] = |b*_0|^2 ... |b*_i|^2.
    A state satisfying the loop invariant can be completed (by running step 2 on the remaining rows) to a
    state with the same basis whose Gram-Schmidt data cover all rows; with it:
    RED leaves every [gd] unchanged; SWAP after a failed Lovasz test makes [gd (k-1)] strictly smaller and
    leaves the others unchanged.   (stdlib; lia, ring on Qc.) *)
From RNT.Model Require Import Base Lll.
From RNT.Refine Require Import LllMat LllGS LllSqrt LllShort LllReduced LllTrace
                               LllExitStep2 LllExitIndep LllExitLoop LllExitGS LllExitTotal LllExitPotential.
From Coq Require Import Lia QArith Qcanon Lqa.
Open Scope Z_scope.

Local Notation F := arithQ.
Local Notation "x +q y" := (Qcplus x y) (at level 50, left associativity).
Local Notation "x *q y" := (Qcmult x y) (at level 40, left associativity).
Local Notation "x -q y" := (Qcminus x y) (at level 50, left associativity).
Local Notation q0 := (Q2Qc 0).
Local Notation q1 := (Q2Qc 1).

Definition dN (B : list (list Qc)) (i : nat) : Qc := gs_norm (gram_schmidt B) i.
Definition gd (B : list (list Qc)) (i : nat) : Qc := qprod (S i) (dN B).

(** what RED and SWAP do to the basis, from the definitions *)
Lemma red_basis_explicit n (s : lstate (T:=Qc)) k l s' : red F n s k l = Done s' ->
  l_basis s' =
  if Qc_leb Qc_half (Qc_abs (Mu s k l))
  then red_basis F n (l_basis s) k l (Qc_floor (Mu s k l +q Qc_half))
  else l_basis s.
Proof.
  unfold red. intros R.
  change (fleb F (fhalf F) (fabs F (get2 F (l_mu s) k l))) with (Qc_leb Qc_half (Qc_abs (Mu s k l))) in R.
  destruct (Qc_leb Qc_half (Qc_abs (Mu s k l))).
  2:{ inversion R; subst. reflexivity. }
  cbn [to_int ffloor fadd fhalf F arithQ bind] in R.
  unfold upd_prefix in R.
  destruct (Nat.leb n (length (row (l_basis s) k)) && Nat.leb n (length (row (l_basis s) l)))%bool;
    cbn [bind] in R; try discriminate.
  destruct (Nat.leb n (length (rowZ (l_h s) k)) && Nat.leb n (length (rowZ (l_h s) l)))%bool;
    cbn [bind] in R; try discriminate.
  inversion R; subst; clear R. cbn [l_basis]. reflexivity.
Qed.

Lemma swap_basis_explicit n (s : lstate (T:=Qc)) k s' : swap F n s k = Done s' ->
  l_basis s' = swap_nth [] (l_basis s) k (k + 1).
Proof.
  unfold swap. intros H.
  match type of H with context [upd_prefix ?f ?a ?b ?c] => destruct (upd_prefix f a b c) end;
    cbn [bind] in H; try discriminate.
  match type of H with context [upd_prefix ?f ?a ?b ?c] => destruct (upd_prefix f a b c) end;
    cbn [bind] in H; try discriminate.
  inversion H; subst; clear H. reflexivity.
Qed.

Section Full.
Variable n : nat.

(** ** completion *)
Lemma complete_state : forall d s, linv n s -> (S (l_kmax s) + d = n)%nat ->
  exists t, linv n t /\ S (l_kmax t) = n /\ l_basis t = l_basis s /\
    (forall i, (i <= l_kmax s)%nat -> Nb t i = Nb s i) /\
    (forall a b, (a <= l_kmax s)%nat -> Mu t a b = Mu s a b).
Proof.
  induction d as [|d IH]; intros s L Hd.
  - exists s. split; [exact L|]. split; [lia|]. split; [reflexivity|]. split; reflexivity.
  - set (s0 := with_k s (S (l_kmax s))).
    assert (L0 : linv n s0) by (apply linv_with_k; exact L).
    destruct (step2_linv n s0 L0 ltac:(cbn [s0 with_k l_k]; lia) ltac:(cbn [s0 with_k l_k l_kmax]; lia))
      as (L1 & _ & _ & EM & EN).
    pose proof (li_wf n s0 L0) as W0.
    destruct (step2_entries n s0 W0 ltac:(cbn [s0 with_k l_k]; lia) ltac:(cbn [s0 with_k l_k l_kmax]; lia))
      as (_ & E2 & EB & _).
    cbn [s0 with_k l_k l_kmax l_basis] in E2, EB, EM, EN.
    destruct (IH (step2 F s0) L1 ltac:(rewrite E2; lia)) as (t & Lt & Et & EBt & ENt & EMt).
    exists t. split; [exact Lt|]. split; [exact Et|]. split; [rewrite EBt; exact EB|].
    rewrite E2 in ENt, EMt. split.
    + intros i Hi. rewrite ENt by lia. apply EN. lia.
    + intros a b Ha. rewrite EMt by lia. apply EM. lia.
Qed.

Lemma complete_state' s : linv n s ->
  exists t, linv n t /\ S (l_kmax t) = n /\ l_basis t = l_basis s /\
    (forall i, (i <= l_kmax s)%nat -> Nb t i = Nb s i) /\
    (forall a b, (a <= l_kmax s)%nat -> Mu t a b = Mu s a b).
Proof.
  intros L. pose proof (li_wf n s L) as W.
  assert (Hk : (l_kmax s < n)%nat) by (destruct W as (_ & _ & _ & _ & ? & _); lia).
  apply (complete_state (n - S (l_kmax s))%nat s L). lia.
Qed.

(** ** the textbook norms are the maintained ones *)
Lemma full_dN s : linv n s -> S (l_kmax s) = n -> forall i, (i < n)%nat -> dN (l_basis s) i = Nb s i.
Proof.
  intros [W G P I] Emax i Hi.
  assert (NZ : forall j, (j < n)%nat -> Nb s j <> q0) by (intros j Hj; apply qc_pos_nz; apply P; lia).
  unfold dN, gs_norm. rewrite (gram_schmidt_table n s W G Emax NZ). unfold gs_table_of.
  rewrite (nth_map_in _ (seq 0 n) i 0%nat) by (rewrite seq_length; exact Hi).
  rewrite seq_nth by exact Hi. cbn [fst Nat.add].
  rewrite (qdot_qsum _ _ n) by (apply (square_row n); [apply W|exact Hi]).
  symmetry. apply (gs3 n s G). lia.
Qed.

Lemma full_gd s : linv n s -> S (l_kmax s) = n -> forall i, (i < n)%nat -> gd (l_basis s) i = gramdet s i.
Proof.
  intros L Emax i Hi. unfold gd, gramdet. apply qprod_ext. intros j Hj. apply full_dN; try assumption. lia.
Qed.

Lemma state_dN s : linv n s -> forall i, (i <= l_kmax s)%nat -> dN (l_basis s) i = Nb s i.
Proof.
  intros L i Hi. destruct (complete_state' s L) as (t & Lt & Et & EB & EN & _).
  pose proof (li_wf n s L) as W.
  assert (Hk : (l_kmax s < n)%nat) by (destruct W as (_ & _ & _ & _ & ? & _); lia).
  rewrite <- EB, (full_dN t Lt Et) by lia. apply EN. exact Hi.
Qed.

Lemma dN_pos s : linv n s -> forall i, (i < n)%nat -> Qclt q0 (dN (l_basis s) i).
Proof.
  intros L i Hi. destruct (complete_state' s L) as (t & Lt & Et & EB & _).
  rewrite <- EB, (full_dN t Lt Et) by lia. apply (li_pos n t Lt). lia.
Qed.

(** ** RED *)
Lemma red_dN s k l s' : linv n s -> (l < k)%nat -> (k <= l_kmax s)%nat -> red F n s k l = Done s' ->
  forall i, (i < n)%nat -> dN (l_basis s') i = dN (l_basis s) i.
Proof.
  intros L Hl Hk R i Hi.
  destruct (complete_state' s L) as (t & Lt & Et & EB & EN & EM).
  pose proof (li_wf n t Lt) as Wt.
  assert (Hkn : (k < n)%nat) by (destruct (li_wf n s L) as (_ & _ & _ & _ & ? & _); lia).
  destruct (red_total n t k l Wt Hl Hkn) as [t' R'].
  assert (EB' : l_basis t' = l_basis s').
  { rewrite (red_basis_explicit n t k l t' R'), (red_basis_explicit n s k l s' R).
    rewrite (EM k l Hk), EB. reflexivity. }
  pose proof (red_linv n t k l t' Lt Hl ltac:(lia) R') as Lt'.
  destruct (red_facts n t k l t' Wt Hl Hkn R') as (Emax' & _ & EN' & _).
  rewrite <- EB', <- EB. rewrite (full_dN t' Lt') by (try exact Hi; lia). rewrite (full_dN t Lt Et) by exact Hi.
  apply EN'.
Qed.

(** ** SWAP after a failed Lovasz test *)
Lemma swap_gd s s' : linv n s -> (1 <= l_k s <= l_kmax s)%nat ->
  lovasz_fails F s = true -> swap F n s (l_k s - 1) = Done s' ->
  Qclt (gd (l_basis s') (l_k s - 1)) (gd (l_basis s) (l_k s - 1)) /\
  (forall i, i <> (l_k s - 1)%nat -> (i < n)%nat -> gd (l_basis s') i = gd (l_basis s) i) /\
  (forall i, (i < n)%nat -> Qclt q0 (gd (l_basis s') i)).
Proof.
  intros L Hk LF SW.
  destruct (complete_state' s L) as (t & Lt & Et & EB & EN & EM).
  set (t0 := with_k t (l_k s)).
  assert (Lt0 : linv n t0) by (apply linv_with_k; exact Lt).
  assert (Hkn : (l_kmax s < n)%nat) by (destruct (li_wf n s L) as (_ & _ & _ & _ & ? & _); lia).
  assert (LF0 : lovasz_fails F t0 = true).
  { unfold lovasz_fails in *. cbn [t0 with_k l_k l_mu l_b].
    change (get2 F (l_mu t) (l_k s) (l_k s - 1)) with (Mu t (l_k s) (l_k s - 1)).
    change (get1 F (l_b t) (l_k s)) with (Nb t (l_k s)). change (get1 F (l_b t) (l_k s - 1)) with (Nb t (l_k s - 1)).
    rewrite (EM (l_k s) (l_k s - 1)%nat) by lia. rewrite !EN by lia. exact LF. }
  destruct (swap_total n t0 (l_k s - 1)%nat (li_wf n t0 Lt0) ltac:(lia)) as [t' SW'].
  assert (EB' : l_basis t' = l_basis s').
  { rewrite (swap_basis_explicit n t0 _ t' SW'), (swap_basis_explicit n s _ s' SW).
    cbn [t0 with_k l_basis]. rewrite EB. reflexivity. }
  destruct (swap_linv n t0 (l_k s - 1)%nat t' Lt0 ltac:(cbn [t0 with_k l_kmax]; lia) SW') as (Lt' & Emax' & _).
  destruct (swap_potential n t0 t' Lt0 ltac:(cbn [t0 with_k l_k l_kmax]; lia) LF0 SW') as (P1 & P2 & P3).
  cbn [t0 with_k l_k l_kmax] in P1, P2, P3, Emax'.
  assert (Gt : forall i, (i < n)%nat -> gd (l_basis s) i = gramdet t0 i).
  { intros i Hi. rewrite <- EB. rewrite (full_gd t Lt Et i Hi). reflexivity. }
  assert (Gt' : forall i, (i < n)%nat -> gd (l_basis s') i = gramdet t' i).
  { intros i Hi. rewrite <- EB'. apply (full_gd t' Lt'); [lia|exact Hi]. }
  split; [|split].
  - rewrite Gt, Gt' by lia. eapply Qclt_trans; [exact P1|].
    assert (Pos : Qclt q0 (gramdet t0 (l_k s - 1))).
    { unfold gramdet. apply qprod_pos. intros j Hj. apply (li_pos n t0 Lt0). cbn [t0 with_k l_kmax]. lia. }
    clear - Pos. to_Q. assert (E : (this Qc_34 == 3 # 4)%Q) by reflexivity. rewrite E. lra.
  - intros i Hne Hi. rewrite Gt, Gt' by exact Hi. apply P2; [exact Hne|lia].
  - intros i Hi. rewrite Gt' by exact Hi. apply P3. lia.
Qed.

End Full.
