(** * OrderW3TraceTable (C15): the trace form of an order is B P B^T.

      If [get_mult_table b f = Done t] (b an n x n rational basis matrix B, f of degree n >= 1),
      the integer matrix of the trace form of the table, Tr_ij = trace(w_i w_j) ([trZ], the same
      matrix as [DetInvDiff.trace_form]), is B * P * B^T over Qc, with P the trace form of the
      power basis of Q[x]/(f) ([OrderW3Trace.pform]).  Hence
         qz (det Tr) * (-1)^rev * lc^n * lc^(n-1) = (det B)^2 * Res(f', f).
      Style: ssreflect/MathComp, polynomials and matrices over [QcRing]. *)
From RNT.Model Require Import Base Poly Algebraic LinAlg MultTable Order.
From Coq Require Import QArith Qcanon.
From mathcomp Require Import all_ssreflect ssralg zmodp poly polydiv perm matrix mxalgebra mxpoly.
From mathcomp Require Import ssrZ zify.
From RNT.Refine Require Import QcRing PolyRefine PolyDiv PolyZ PolyQ AlgMul AlgQuot MultTableOps MultTableGet
     TableAgrees ResAgree AlgNormOrder AlgNormRes OrderW3Trace.
From RNT.Refine Require AlgNormMx SubresFlag ResPRS.
Set Implicit Arguments.
Unset Strict Implicit.
Unset Printing Implicit Defensive.
Import GRing.Theory.
Local Open Scope ring_scope.

(** the integer matrix of the trace form of a table *)
Definition trZ (t : table) (n : nat) : 'M[Z]_n :=
  \matrix_(i < n, j < n) trace_val t (nth [::] (nth [::] t i) j) n.

Lemma redmx_mod (K : fieldType) (F G : {poly K}) n : redmx F (G %% F) n = redmx F G n.
Proof. by apply/matrixP => j k; rewrite !mxE modp_mul2. Qed.

Lemma mxtrace_map_ofZ n (A : 'M[Z]_n) : \tr (map_mx Qc_ofZ A) = Qc_ofZ (\tr A).
Proof. by rewrite /mxtrace (rmorph_sum Qc_ofZ_rmorphism); apply: eq_bigr => i _; rewrite mxE. Qed.

Section TraceTable.
Variables (f : seq Z) (n : nat).
Hypothesis cf : canonZ f.
Hypothesis szf : size f = n.+1.
Hypothesis n0 : (0 < n)%N.
Variable b : seq (seq Qc).
Hypothesis sb : size b = n.
Hypothesis rb : forall i, (i < n)%N -> size (nth [::] b i) = n.
Variable t : table.
Hypothesis gt : get_mult_table b f = Done t.
Let F := Fq f.
Let a : Qc := lead_coef F.
Let szF : size F = n.+1 := size_Fq cf szf.
Let B : 'M[Qc]_n := bmx n b.
Let W i : {poly Qc} := Poly (nth [::] b i).

Let a0 : a != 0. Proof. by rewrite lead_coef_eq0 -size_poly_eq0 szF. Qed.

Lemma W_sum (i : 'I_n) : W i = \sum_(p < n) B i p *: 'X^p.
Proof.
have sW : (size (W i) <= n)%N by rewrite (leq_trans (size_Poly _)) // rb.
rewrite {1}(poly_small sW); apply: eq_bigr => p _.
by rewrite coef_Poly mxE.
Qed.

(** one entry: a * qz Tr_ij = tau (W_i W_j F') *)
Lemma trZ_tau (i j : 'I_n) : a * Qc_ofZ (trZ t n i j) = tau F n (W i * W j * F^`()).
Proof.
have ctt := ct cf szf sb rb gt.
have hc := order_tcomm cf szf sb rb gt.
set aij := nth [::] (nth [::] t i) j.
have [st sti sa e] := table_facts cf szf sb rb gt (ltn_ord i) (ltn_ord j).
have etr : trace_val t aij n = \tr (AlgNormMx.Mrep t n aij).
  have := AlgNormMx.mt_trace_Mrep ctt hc sa; rewrite (mt_trace_closed ctt sa).
  by case.
have eG : of_coords n b (map qz aij) = (W i * W j) %% F.
  rewrite -e /of_coords; apply: eq_bigr => k _.
  by rewrite nth_map_qz.
have conj := Mrep_conj cf szf sb rb gt sa; rewrite eG -/F redmx_mod in conj.
have Bu : B \in unitmx := bmx_unit n0 sb rb gt.
have etr2 : \tr (map_mx Qc_ofZ (AlgNormMx.Mrep t n aij)) = \tr (redmx F (W i * W j) n).
  have -> : map_mx Qc_ofZ (AlgNormMx.Mrep t n aij) = B *m (redmx F (W i * W j) n *m invmx B).
    by rewrite mulmxA -conj mulmxK.
  by rewrite mxtrace_mulC mulmxKV.
rewrite mxE etr -mxtrace_map_ofZ etr2.
exact: (tr_redmx szF n0).
Qed.

(** [P] Tr = B P B^T *)
Theorem trZ_pform : map_mx Qc_ofZ (trZ t n) = B *m pform F n *m B^T.
Proof.
apply/matrixP => i j; apply: (can_inj (mulKf a0)).
have L : tau F n (W i * W j * F^`()) = \sum_(p < n) \sum_(q < n) B i p * B j q * (a * pform F n p q).
  rewrite (W_sum i) (W_sum j) !mulr_suml (tau_sum F n); apply: eq_bigr => p _.
  rewrite mulr_sumr mulr_suml (tau_sum F n); apply: eq_bigr => q _.
  rewrite -scalerAl -scalerAl -scalerAr -scalerAl !(tauZ F n) (pformE szF n0) mulrA.
  by [].
rewrite [in LHS]mxE trZ_tau L mxE mulr_sumr exchange_big /=; apply: eq_bigr => q _.
rewrite [(B *m _) i q]mxE mulr_suml mulr_sumr; apply: eq_bigr => p _.
by rewrite [B^T q j]mxE mulrCA mulrAC.
Qed.

(** [P] determinants *)
Theorem det_trZ : Qc_ofZ (\det (trZ t n)) = \det B ^+ 2 * \det (pform F n).
Proof. by rewrite -det_map_mx trZ_pform !det_mulmx det_tr expr2 mulrAC. Qed.

Theorem det_trZ_resultant :
  Qc_ofZ (\det (trZ t n)) * ((-1) ^+ revp n * a ^+ n) * a ^+ (size F^`()).-1
  = \det B ^+ 2 * resultant F^`() F.
Proof. by rewrite det_trZ -(det_pform_resultant szF n0) !mulrA. Qed.

End TraceTable.

(** ** the value computed by [discriminant_with_min_poly] *)
Lemma disc_algebra (K : fieldType) (T s A Dt R dl e : K) n : A != 0 -> (0 < n)%N ->
  T * (s * A ^+ n) * A ^+ n.-1 = Dt ^+ 2 * R -> dl * A = e * R ->
  e * e = 1 -> dl * Dt * Dt = e * s * T * A ^+ (n.-1).*2.
Proof.
move=> A0 n0 H Hd ee; apply: (mulIf A0).
have -> : dl * Dt * Dt * A = e * (Dt ^+ 2 * R).
  by rewrite mulrAC [dl * Dt * A]mulrAC Hd -!mulrA [R * _]mulrC -mulrA.
have eA : A ^+ (n.-1).*2 * A = A ^+ n * A ^+ n.-1.
  by rewrite -exprSr -exprD; congr (A ^+ _); lia.
by rewrite -H -!mulrA eA; congr (e * _); rewrite mulrCA !mulrA.
Qed.

Section DiscValue.
Variables (f : seq Z) (n : nat).
Hypothesis cf : canonZ f.
Hypothesis szf : size f = n.+1.
Hypothesis n0 : (0 < n)%N.
Variable b : seq (seq Qc).
Hypothesis sb : size b = n.
Hypothesis rb : forall i, (i < n)%N -> size (nth [::] b i) = n.
Variable t : table.
Hypothesis gt : get_mult_table b f = Done t.

Let pf : {poly Z} := Poly f.

Lemma size_pf : size pf = n.+1.
Proof. by rewrite /pf (canon_size_Poly cf) szf. Qed.

(** [P] if d * lc f = (-1)^k Res(f', f) over Z (what C05 proves of [discriminant f] with k = n(n-1)/2), then
    d * (det B)^2 = (-1)^(k + rev) det(Tr) * lc^(2n-2) over Qc: the rational number whose integrality the code
    asserts is +- det of the integer matrix of the trace form *)
Theorem disc_value (d : Z) (k : nat) :
  d * lead_coef pf = (-1) ^+ k * resultant pf^`() pf ->
  Qc_ofZ d * \det (bmx n b) * \det (bmx n b)
  = Qc_ofZ ((-1) ^+ (k + odd_perm (revp n)) * \det (trZ t n)) * Qc_ofZ (lead_coef pf) ^+ (n.-1).*2.
Proof.
move=> Hd.
have f0z : Qc_ofZ 0 = 0 := rmorph0 Qc_ofZ_rmorphism.
have eF : Fq f = map_poly Qc_ofZ pf by rewrite /Fq -Lmap_eq Poly_map_ofZ.
have eF' : (Fq f)^`() = map_poly Qc_ofZ pf^`() by rewrite eF deriv_map.
have sp : (1 < size pf)%N by rewrite size_pf.
have sF' : (size (Fq f)^`()).-1 = n.-1.
  by rewrite eF' (size_map_inj_poly Qc_ofZ_inj f0z) (SubresFlag.size_derivZ sp) size_pf.
have lc0 : lead_coef pf != 0 by rewrite lead_coef_eq0 -size_poly_eq0 size_pf.
have lc0' : lead_coef pf^`() != 0.
  by rewrite lead_coef_eq0 -size_poly_eq0 (SubresFlag.size_derivZ sp) size_pf /=; lia.
have eR : resultant (Fq f)^`() (Fq f) = Qc_ofZ (resultant pf^`() pf).
  rewrite eF' eF (@ResPRS.map_resultant_gen _ _ Qc_ofZ_rmorphism) //.
    by rewrite -f0z (inj_eq Qc_ofZ_inj).
  by rewrite -f0z (inj_eq Qc_ofZ_inj).
have ea : lead_coef (Fq f) = Qc_ofZ (lead_coef pf) by rewrite eF (lead_coef_map_inj Qc_ofZ_inj f0z).
have H := det_trZ_resultant cf szf n0 sb rb gt; rewrite sF' eR ea in H.
have A0 : Qc_ofZ (lead_coef pf) != 0 by rewrite -f0z (inj_eq Qc_ofZ_inj).
have Hd' : Qc_ofZ d * Qc_ofZ (lead_coef pf) = (-1) ^+ k * Qc_ofZ (resultant pf^`() pf).
  by rewrite -(rmorphM Qc_ofZ_rmorphism) Hd (rmorphM Qc_ofZ_rmorphism) (rmorphX Qc_ofZ_rmorphism) (rmorphN1 Qc_ofZ_rmorphism).
have ee : (-1) ^+ k * (-1) ^+ k = 1 :> Qc by rewrite -expr2 sqrr_sign.
rewrite (disc_algebra A0 n0 H Hd' ee).
rewrite (rmorphM Qc_ofZ_rmorphism) (rmorphX Qc_ofZ_rmorphism) (rmorphN1 Qc_ofZ_rmorphism) exprD.
by [].
Qed.

(** with the sign of C05's [discriminant_spec], k = n(n-1)/2: the signs cancel ([OrderW3Trace.sign_revp]) *)
Theorem disc_value_exact (d : Z) :
  d * lead_coef pf = (-1) ^+ ((n * n.-1) %/ 2) * resultant pf^`() pf ->
  Qc_ofZ d * \det (bmx n b) * \det (bmx n b)
  = Qc_ofZ (\det (trZ t n)) * Qc_ofZ (lead_coef pf) ^+ (n.-1).*2.
Proof. by move=> /disc_value ->; rewrite sign_revp; congr (Qc_ofZ _ * _); exact: mul1r. Qed.

(** the same in neutral vocabulary ([Qcmult], [qz], powers in Z), for the matrix world *)
Theorem disc_value_neutral (d : Z) :
  d * lead_coef pf = (-1) ^+ ((n * n.-1) %/ 2) * resultant pf^`() pf ->
  Qcmult (Qcmult (qz d) (\det (bmx n b))) (\det (bmx n b))
  = Qcmult (qz (\det (trZ t n))) (qz (lead_coef pf ^+ (n.-1).*2)).
Proof.
move=> /disc_value_exact H.
have -> : qz (lead_coef pf ^+ (n.-1).*2) = Qc_ofZ (lead_coef pf) ^+ (n.-1).*2.
  by rewrite qzE (rmorphX Qc_ofZ_rmorphism).
exact: H.
Qed.

End DiscValue.
