(** * DetInvDiffA (C16): inversion of a normal return of [MultTable::get_inv_diff]
      (mult_table.rs:86-110): the pieces computed on the way and what the lcm loop guarantees.
      Stdlib + lia; the matrix part is in DetInvDiff.v. *)
From RNT.Model Require Import Base Poly Algebraic LinAlg MultTable.
From RNT.Model Require Hnf.
From RNT.Refine Require Import LinAlgList OrderLint.
From Coq Require Import ZArith Lia List QArith Qcanon.
Import ListNotations.
Open Scope Z_scope.

Definition qent (d : list (list Qc)) (i j : nat) : Qc := nth j (nth i d []) q0.

Lemma q_den_pos x : 0 < q_den x.
Proof. unfold q_den. lia. Qed.

Lemma lcm_step l x : 0 < l -> 0 < Z.lcm l (q_den x) /\ (l | Z.lcm l (q_den x)) /\ (q_den x | Z.lcm l (q_den x)).
Proof.
  intros Hl. pose proof (q_den_pos x) as Hx. split; [|split].
  - pose proof (Z.lcm_nonneg l (q_den x)).
    assert (Z.lcm l (q_den x) <> 0) by (intros E; apply Z.lcm_eq_0 in E; lia). lia.
  - apply Z.divide_lcm_l.
  - apply Z.divide_lcm_r.
Qed.

(** inner loop: [for j in js { l = lcm(l, d[i][j].denom()) }] *)
Lemma lcm_inner_inv (d : list (list Qc)) i : forall js l0 l1,
  Hnf.for_loop js (fun j l => do di <- nth_chk d i; do x <- nth_chk di j; Done (Z.lcm l (q_den x))) l0 = Done l1 ->
  0 < l0 -> 0 < l1 /\ (l0 | l1) /\ forall j, In j js -> (q_den (qent d i j) | l1).
Proof.
  induction js as [|j js IH]; intros l0 l1 H Hl0; cbn [Hnf.for_loop] in H.
  - injection H as <-. split; auto. split; [apply Z.divide_refl|]. intros j [].
  - bind_inv H as l' E. bind_inv E as di Ei. bind_inv E as x Ex. injection E as <-.
    apply nth_chk_inv in Ei. destruct Ei as [_ Ei]. apply nth_chk_inv in Ex. destruct Ex as [_ Ex].
    destruct (lcm_step l0 x Hl0) as (P1 & P2 & P3).
    destruct (IH _ _ H P1) as (Q1 & Q2 & Q3). split; auto. split; [eapply Z.divide_trans; eauto|].
    intros j' [<-|Hj']; auto. unfold qent. rewrite (Ei []), (Ex q0). eapply Z.divide_trans; eauto.
Qed.

Lemma lcm_outer_inv (d : list (list Qc)) js : forall is l0 l1,
  Hnf.for_loop is (fun i l =>
    Hnf.for_loop js (fun j l => do di <- nth_chk d i; do x <- nth_chk di j; Done (Z.lcm l (q_den x))) l) l0 = Done l1 ->
  0 < l0 -> 0 < l1 /\ (l0 | l1) /\ forall i j, In i is -> In j js -> (q_den (qent d i j) | l1).
Proof.
  induction is as [|i is IH]; intros l0 l1 H Hl0; cbn [Hnf.for_loop] in H.
  - injection H as <-. split; auto. split; [apply Z.divide_refl|]. intros i j [].
  - bind_inv H as l' E. destruct (lcm_inner_inv d i js l0 l' E Hl0) as (P1 & P2 & P3).
    destruct (IH _ _ H P1) as (Q1 & Q2 & Q3). split; auto. split; [eapply Z.divide_trans; eauto|].
    intros i' j [<-|Hi'] Hj; auto. eapply Z.divide_trans; [apply P3|]; eauto.
Qed.

(** the scaled matrix: every entry is exactly [d[i][j] * l] *)
Lemma scaled_entries (d : list (list Qc)) l n int :
  mapM (fun i => mapM (fun j => do di <- nth_chk d i; do x <- nth_chk di j;
                                 Done (q_to_integer (Qcmult x (qz l)))) (seq 0 n)) (seq 0 n) = Done int ->
  length int = n /\ Forall (fun r => length r = n) int /\
  forall i j, (i < n)%nat -> (j < n)%nat ->
    nth j (nth i int []) 0 = q_to_integer (Qcmult (qent d i j) (qz l)).
Proof.
  intros H. destruct (mapM_inv _ _ _ H) as [L N]. rewrite seq_length in L, N. split; auto.
  assert (R : forall i, (i < n)%nat -> length (nth i int []) = n /\
            forall j, (j < n)%nat -> nth j (nth i int []) 0 = q_to_integer (Qcmult (qent d i j) (qz l))).
  { intros i Hi. specialize (N i O [] Hi). rewrite seq_nth in N by auto. cbn [plus] in N.
    destruct (mapM_inv _ _ _ N) as [L2 N2]. rewrite seq_length in L2, N2. split; auto.
    intros j Hj. specialize (N2 j O 0 Hj). rewrite seq_nth in N2 by auto. cbn [plus] in N2.
    bind_inv N2 as di Ei. bind_inv N2 as x Ex. injection N2 as <-.
    apply nth_chk_inv in Ei. destruct Ei as [_ Ei]. apply nth_chk_inv in Ex. destruct Ex as [_ Ex].
    unfold qent. now rewrite (Ei []), (Ex q0). }
  split.
  - apply Forall_forall. intros r Hr. apply (In_nth _ _ []) in Hr. destruct Hr as [i [Hi <-]].
    apply R. lia.
  - intros i j Hi Hj. apply R; auto.
Qed.

(** [P] inversion of [get_inv_diff] *)
Theorem mt_inv_diff_inv t l h : mt_inv_diff t = Done (l, h) ->
  let n := mt_deg t in
  exists tr d int,
    mapM (fun i => mapM (fun j => do ti <- nth_chk t i; do v <- nth_chk ti j;
                                   do x <- mt_trace t v; Done (qz x)) (seq 0 n)) (seq 0 n) = Done tr /\
    inv fopsQc tr = Done (Ok d) /\
    0 < l /\ (forall i j, (i < n)%nat -> (j < n)%nat -> lint l (qent d i j)) /\
    length int = n /\ Forall (fun r => length r = n) int /\
    (forall i j, (i < n)%nat -> (j < n)%nat -> qz (nth j (nth i int []) 0) = Qcmult (qent d i j) (qz l)) /\
    Hnf.hnf_new int = Done h.
Proof.
  intros H n. unfold mt_inv_diff in H. fold n in H.
  bind_inv H as tr Etr. bind_inv H as r Er. bind_inv H as d Ed. bind_inv H as l' El.
  bind_inv H as int Eint. bind_inv H as h' Eh. injection H as <- <-.
  destruct r as [d'|e]; [|discriminate]. injection Ed as ->.
  destruct (lcm_outer_inv d (Hnf.range 0 n) (Hnf.range 0 n) 1 l' El ltac:(lia)) as (Lp & _ & Ld).
  destruct (scaled_entries d l' n int Eint) as (LI & WI & EI).
  assert (Li : forall i j, (i < n)%nat -> (j < n)%nat -> lint l' (qent d i j)).
  { intros i j Hi Hj. apply lint_den. apply Ld; unfold Hnf.range; apply in_seq; lia. }
  exists tr, d, int.
  split; [reflexivity|]. split; [exact Er|]. split; [exact Lp|]. split; [exact Li|].
  split; [exact LI|]. split; [exact WI|]. split; [|exact Eh].
  intros i j Hi Hj. rewrite EI by auto. apply (lint_scale l' (qent d i j)). apply Li; auto.
Qed.
