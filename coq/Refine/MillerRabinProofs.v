(** * Miller-Rabin ([is_prime], src/prime.rs): proofs about the model (stdlib + lia). *)
From Coq Require Import ZArith List Bool Lia Znumtheory Zpow_facts.
From RNT.Model Require Import Base Elementary.
From RNT.Refine Require FermatBridge.
Open Scope Z_scope.

(** ** modpow *)

Lemma modpow_pos_spec : forall b e m, 0 < m -> modpow_pos b e m = b ^ Zpos e mod m.
Proof.
  intros b e m Hm. induction e as [e IH|e IH|]; cbn [modpow_pos].
  - rewrite IH. rewrite Pos2Z.inj_xI.
    rewrite Z.pow_add_r, Z.pow_1_r by lia.
    replace (2 * Z.pos e) with (Z.pos e + Z.pos e) by lia. rewrite Z.pow_add_r by lia.
    rewrite <- Z.mul_mod by lia. rewrite Z.mul_mod_idemp_l by lia. f_equal; ring.
  - rewrite IH. rewrite Pos2Z.inj_xO.
    replace (2 * Z.pos e) with (Z.pos e + Z.pos e) by lia. rewrite Z.pow_add_r by lia.
    rewrite <- Z.mul_mod by lia. reflexivity.
  - rewrite Z.pow_1_r. reflexivity.
Qed.

(** [P] the model of [BigInt::modpow] is b^e mod m. *)
Lemma modpow_spec : forall b e m, 0 < m -> 0 <= e -> modpow b e m = b ^ e mod m.
Proof.
  intros b e m Hm He. destruct e as [|p|p]; cbn [modpow].
  - reflexivity.
  - apply modpow_pos_spec; exact Hm.
  - lia.
Qed.

(** ** Strong probable primes: the textbook definition and the model's round *)

(** [a] is a strong liar for [n] with n - 1 = d * 2^c. *)
Definition strong_liar (n d c a : Z) : Prop :=
  a ^ d mod n = 1 \/ exists j, 0 <= j < c /\ a ^ (d * 2 ^ j) mod n = n - 1.

(** One round of the model, as a function of the base drawn. *)
Definition mr_round (n d : Z) (c : nat) (a : Z) : bool :=
  let tmp := modpow a d n in
  if tmp =? 1 then true
  else match mr_inner c tmp n with
       | inl b => b
       | inr t => t =? 1
       end.

Lemma mr_rounds_unfold : forall k n d c r,
  mr_rounds (S k) n d c r =
  (do '(a, r1) <- gen_range draw_fuel 1 n r;
   if mr_round n d c a then mr_rounds k n d c r1 else Done (false, r1)).
Proof.
  intros. cbn [mr_rounds]. unfold mr_round.
  destruct (gen_range draw_fuel 1 n r) as [[a r1]| |]; cbn [bind]; try reflexivity.
  destruct (modpow a d n =? 1); [reflexivity|].
  destruct (mr_inner c (modpow a d n) n) as [[|]|t]; try reflexivity.
  destruct (t =? 1); reflexivity.
Qed.

Lemma pow_mod_l : forall a e n, 0 < n -> (a mod n) ^ e mod n = a ^ e mod n.
Proof. intros. symmetry. apply Zpower_mod. lia. Qed.

Lemma mr_inner_spec : forall c tmp n, 2 < n -> 0 <= tmp < n -> tmp <> 1 ->
  (match mr_inner c tmp n with inl b => b | inr t => t =? 1 end) = true <->
  exists j, 0 <= j < Z.of_nat c /\ tmp ^ (2 ^ j) mod n = n - 1.
Proof.
  induction c as [|c IH]; intros tmp n Hn Ht Ht1; cbn [mr_inner].
  - split.
    + intros H. apply Z.eqb_eq in H. contradiction.
    + intros (j & Hj & _). lia.
  - destruct (Z.eqb_spec tmp (n - 1)) as [E|NE].
    + split; [|reflexivity]. intros _. exists 0. split; [lia|].
      change (2 ^ 0) with 1. rewrite Z.pow_1_r. rewrite Z.mod_small; lia.
    + rewrite modpow_spec by lia.
      assert (Hstep : forall j, 0 <= j -> (tmp ^ 2 mod n) ^ (2 ^ j) mod n = tmp ^ (2 ^ (j + 1)) mod n).
      { intros j Hj. rewrite pow_mod_l by lia. rewrite <- Z.pow_mul_r by (try apply Z.pow_nonneg; lia).
        rewrite Z.pow_add_r by lia. f_equal. f_equal. change (2 ^ 1) with 2. ring. }
      assert (Hrhs : (exists j, 0 <= j < Z.of_nat (S c) /\ tmp ^ (2 ^ j) mod n = n - 1) <->
                     (exists j, 0 <= j < Z.of_nat c /\ (tmp ^ 2 mod n) ^ (2 ^ j) mod n = n - 1)).
      { split.
        - intros (j & Hj & E). destruct (Z.eq_dec j 0) as [->|Hj0].
          + change (2 ^ 0) with 1 in E. rewrite Z.pow_1_r, Z.mod_small in E by lia. contradiction.
          + exists (j - 1). split; [lia|]. rewrite Hstep by lia. replace (j - 1 + 1) with j by ring. exact E.
        - intros (j & Hj & E). exists (j + 1). split; [lia|]. rewrite <- Hstep by lia. exact E. }
      rewrite Hrhs.
      destruct (Z.eqb_spec (tmp ^ 2 mod n) 1) as [E1|NE1].
      * split; [discriminate|]. intros (j & Hj & E). exfalso.
        rewrite E1, Z.pow_1_l, Z.mod_small in E by (try apply Z.pow_nonneg; lia). lia.
      * apply IH; [lia| |exact NE1]. apply Z.mod_pos_bound; lia.
Qed.

(** The model's round passes exactly the strong liars. *)
Lemma mr_round_spec : forall n d c a, 2 < n -> 0 <= d ->
  mr_round n d c a = true <-> strong_liar n d (Z.of_nat c) a.
Proof.
  intros n d c a Hn Hd. unfold mr_round, strong_liar. rewrite modpow_spec by lia.
  destruct (Z.eqb_spec (a ^ d mod n) 1) as [E|NE].
  - split; auto.
  - rewrite mr_inner_spec; [|lia|apply Z.mod_pos_bound; lia|exact NE].
    assert (Hj : forall j, 0 <= j -> (a ^ d mod n) ^ (2 ^ j) mod n = a ^ (d * 2 ^ j) mod n).
    { intros j Hj. rewrite pow_mod_l by lia. rewrite <- Z.pow_mul_r by (try apply Z.pow_nonneg; lia). reflexivity. }
    split.
    + intros (j & Hj1 & E). right. exists j. split; [exact Hj1|]. rewrite <- Hj by lia. exact E.
    + intros [E|(j & Hj1 & E)]; [contradiction|]. exists j. split; [exact Hj1|]. rewrite Hj by lia. exact E.
Qed.

(** ** The sequence of bases drawn from a stream *)

Inductive drawn (n : Z) : rng -> list Z -> rng -> Prop :=
| drawn_nil : forall r, drawn n r [] r
| drawn_cons : forall r a r1 l r2,
    gen_range draw_fuel 1 n r = Done (a, r1) -> drawn n r1 l r2 -> drawn n r (a :: l) r2.

Lemma mr_rounds_witness : forall n d c k l r r',
  drawn n r l r' -> (length l <= k)%nat ->
  (exists a, In a l /\ mr_round n d c a = false) ->
  exists r'', mr_rounds k n d c r = Done (false, r'').
Proof.
  intros n d c k l r r' D. revert k. induction D as [r|r a r1 l r2 G D IH]; intros k Hk (w & Hin & Hw).
  - destruct Hin.
  - destruct k as [|k]; [cbn in Hk; lia|]. rewrite mr_rounds_unfold, G. cbn [bind].
    destruct (mr_round n d c a) eqn:Ea.
    + apply IH; [cbn in Hk; lia|]. destruct Hin as [->|Hin]; [congruence|]. eauto.
    + eauto.
Qed.

Lemma mr_rounds_liars : forall n d c l r r',
  drawn n r l r' -> (forall a, In a l -> mr_round n d c a = true) ->
  mr_rounds (length l) n d c r = Done (true, r').
Proof.
  intros n d c l r r' D. induction D as [r|r a r1 l r2 G D IH]; intros Hall.
  - reflexivity.
  - cbn [length]. rewrite mr_rounds_unfold, G. cbn [bind].
    rewrite (Hall a (or_introl eq_refl)). apply IH. intros; apply Hall; right; assumption.
Qed.

(** Every terminating run is explained by the bases it drew. *)
Lemma mr_rounds_inv : forall n d c k r b r',
  mr_rounds k n d c r = Done (b, r') ->
  exists l, drawn n r l r' /\ (length l <= k)%nat /\
    if b then length l = k /\ (forall a, In a l -> mr_round n d c a = true)
    else exists l0 w, l = l0 ++ [w] /\ mr_round n d c w = false /\ (forall a, In a l0 -> mr_round n d c a = true).
Proof.
  intros n d c k. induction k as [|k IH]; intros r b r' H.
  - cbn in H. inversion H; subst. exists []. split; [constructor|]. split; [cbn; lia|]. split; [reflexivity|]. intros a [].
  - rewrite mr_rounds_unfold in H.
    destruct (gen_range draw_fuel 1 n r) as [[a r1]| |] eqn:G; cbn [bind] in H; try discriminate.
    destruct (mr_round n d c a) eqn:Ea.
    + apply IH in H. destruct H as (l & D & Hl & Hb). exists (a :: l).
      split; [econstructor; eauto|]. split; [cbn; lia|].
      destruct b.
      * destruct Hb as [Hb1 Hb2]. split; [cbn; lia|]. intros x [<-|Hx]; auto.
      * destruct Hb as (l0 & w & -> & Hw & Hl0). exists (a :: l0), w. split; [reflexivity|]. split; [exact Hw|].
        intros x [<-|Hx]; auto.
    + inversion H; subst. exists [a]. split; [econstructor; eauto; constructor|]. split; [cbn; lia|].
      exists [], a. split; [reflexivity|]. split; [exact Ea|]. intros x [].
Qed.

(** ** The decomposition n - 1 = d * 2^c *)

Definition mr_decomp (n : Z) : Z * Z := split_pow2 (Z.to_nat (zbits n)) (n - 1) 0.

Lemma split_pow2_spec : forall fuel d0 c0, 0 < d0 < 2 ^ Z.of_nat fuel ->
  forall d c, split_pow2 fuel d0 c0 = (d, c) ->
  Z.odd d = true /\ 0 < d /\ c0 <= c /\ d0 = d * 2 ^ (c - c0).
Proof.
  induction fuel as [|f IH]; intros d0 c0 H d c E; cbn [split_pow2] in E.
  - change (2 ^ Z.of_nat 0) with 1 in H. lia.
  - destruct (Z.even d0) eqn:Ev.
    + rewrite Nat2Z.inj_succ, Z.pow_succ_r in H by lia.
      apply Z.even_spec in Ev. destruct Ev as [h Hh].
      assert (Hd : d0 / 2 = h) by (subst d0; rewrite Z.mul_comm, Z.div_mul; lia).
      rewrite Hd in E. apply IH in E; [|lia]. destruct E as (E1 & E2 & E3 & E4).
      split; [exact E1|]. split; [exact E2|]. split; [lia|].
      replace (c - c0) with (Z.succ (c - (c0 + 1))) by lia. rewrite Z.pow_succ_r by lia. lia.
    + inversion E; subst. rewrite <- Z.negb_even, Ev. split; [reflexivity|]. split; [lia|]. split; [lia|].
      rewrite Z.sub_diag. change (2 ^ 0) with 1. ring.
Qed.

Lemma mr_decomp_spec : forall n d c, 2 <= n -> mr_decomp n = (d, c) ->
  Z.odd d = true /\ 0 < d /\ 0 <= c /\ n - 1 = d * 2 ^ c.
Proof.
  intros n d c Hn E. unfold mr_decomp in E. apply split_pow2_spec in E.
  - rewrite Z.sub_0_r in E. exact E.
  - assert (Hz : zbits n = Z.log2 n + 1) by (unfold zbits; destruct (Z.leb_spec n 0); lia).
    pose proof (Z.log2_nonneg n). rewrite Z2Nat.id by lia. rewrite Hz.
    pose proof (Z.log2_spec n ltac:(lia)). lia.
Qed.

Lemma is_prime_odd : forall n r d c, 2 < n -> Z.odd n = true -> mr_decomp n = (d, c) ->
  is_prime n r = mr_rounds 20 n d (Z.to_nat c) r.
Proof.
  intros n r d c Hn Ho E. unfold is_prime.
  destruct (Z.leb_spec n 1); [lia|]. destruct (Z.eqb_spec n 2); [lia|].
  rewrite <- Z.negb_odd, Ho. cbn [negb]. unfold mr_decomp in E. rewrite E. reflexivity.
Qed.

(** ** Draws are in range *)

Lemma next_byte_range : forall r, 0 <= fst (next_byte r) < 256.
Proof.
  intros r. unfold next_byte. destruct (rng_bytes r); cbn [fst]; [lia|]. apply Z.mod_pos_bound. lia.
Qed.

Lemma take_le_nonneg : forall k r, 0 <= fst (take_le k r).
Proof.
  induction k as [|k IH]; intros r; cbn [take_le]; [cbn; lia|].
  pose proof (next_byte_range r) as B. destruct (next_byte r) as [b r1]. cbn [fst] in B.
  specialize (IH r1). destruct (take_le k r1) as [v r2]. cbn [fst] in *. lia.
Qed.

Lemma div_nonneg : forall a b, 0 <= a -> 0 <= b -> 0 <= a / b.
Proof.
  intros a b Ha Hb. destruct (Z.eq_dec b 0) as [->|]; [rewrite Zdiv_0_r; lia|apply Z.div_pos; lia].
Qed.

Lemma gen_biguint_nonneg : forall bits r, 0 <= fst (gen_biguint bits r).
Proof.
  intros bits r. unfold gen_biguint.
  set (len := if bits mod 32 =? 0 then bits / 32 else bits / 32 + 1).
  pose proof (take_le_nonneg (Z.to_nat (4 * len)) r) as T.
  destruct (take_le (Z.to_nat (4 * len)) r) as [v r1]. cbn [fst] in T.
  destruct (bits mod 32 =? 0); cbn [fst]; [exact T|].
  assert (0 <= 2 ^ (32 * (len - 1))) by (apply Z.pow_nonneg; lia).
  assert (0 <= 2 ^ (32 - bits mod 32)) by (apply Z.pow_nonneg; lia).
  assert (0 <= v mod 2 ^ (32 * (len - 1))).
  { destruct (Z.eq_dec (2 ^ (32 * (len - 1))) 0) as [e|ne]; [rewrite e, Zmod_0_r; lia|apply Z.mod_pos_bound; lia]. }
  assert (0 <= v / 2 ^ (32 * (len - 1)) / 2 ^ (32 - bits mod 32)).
  { apply div_nonneg; [apply div_nonneg|]; lia. }
  nia.
Qed.

Lemma gen_below_cases : forall fuel bound r,
  gen_below fuel bound r = OutOfFuel \/
  exists v r1, gen_below fuel bound r = Done (v, r1) /\ 0 <= v < bound.
Proof.
  induction fuel as [|f IH]; intros bound r; cbn [gen_below]; [left; reflexivity|].
  pose proof (gen_biguint_nonneg (zbits bound) r) as N.
  destruct (gen_biguint (zbits bound) r) as [v r1]. cbn [fst] in N.
  destruct (Z.ltb_spec v bound); [right; exists v, r1; split; [reflexivity|lia]|apply IH].
Qed.

Lemma gen_range_cases : forall fuel lo hi r, lo < hi ->
  gen_range fuel lo hi r = OutOfFuel \/
  exists a r1, gen_range fuel lo hi r = Done (a, r1) /\ lo <= a < hi.
Proof.
  intros fuel lo hi r H. unfold gen_range. destruct (Z.ltb_spec lo hi); [|lia].
  destruct (gen_below_cases fuel (hi - lo) r) as [E|(v & r1 & E & Hv)]; rewrite E; cbn [bind].
  - left; reflexivity.
  - right. exists (lo + v), r1. split; [reflexivity|lia].
Qed.

Lemma drawn_range : forall n r l r', 1 < n -> drawn n r l r' -> forall a, In a l -> 1 <= a < n.
Proof.
  intros n r l r' Hn D. induction D as [r|r a r1 l r2 G D IH]; intros x Hx; [destruct Hx|].
  destruct Hx as [<-|Hx]; [|apply IH; exact Hx].
  destruct (gen_range_cases draw_fuel 1 n r Hn) as [E|(a' & r1' & E & Ha)]; rewrite E in G; [discriminate|].
  inversion G; subst. exact Ha.
Qed.

(** ** Number theory: for a prime every base in [1, n) is a strong liar *)

Lemma mod_of_divide : forall x n t, 0 < n -> 0 <= t < n -> (n | x - t) -> x mod n = t.
Proof.
  intros x n t Hn Ht [q Hq]. symmetry. apply (Z.mod_unique_pos _ _ q); lia.
Qed.

Lemma sqrt_one_prime : forall n x, prime n -> 2 < n -> x ^ 2 mod n = 1 -> x mod n = 1 \/ x mod n = n - 1.
Proof.
  intros n x Hp Hn H.
  assert (D : (n | (x - 1) * (x + 1))).
  { exists (x ^ 2 / n). pose proof (Z.div_mod (x ^ 2) n ltac:(lia)) as E. rewrite H in E.
    replace ((x - 1) * (x + 1)) with (x ^ 2 - 1) by ring. lia. }
  apply prime_mult in D; [|exact Hp]. destruct D as [D|D].
  - left. apply mod_of_divide; [lia|lia|exact D].
  - right. apply mod_of_divide; [lia|lia|]. replace (x - (n - 1)) with (x + 1 + (-1) * n) by ring.
    apply Z.divide_add_r; [exact D|]. apply Z.divide_mul_r. apply Z.divide_refl.
Qed.

Lemma sqrt_chain : forall n, prime n -> 2 < n -> forall c x, x ^ (2 ^ Z.of_nat c) mod n = 1 ->
  x mod n = 1 \/ exists j, 0 <= j < Z.of_nat c /\ x ^ (2 ^ j) mod n = n - 1.
Proof.
  intros n Hp Hn. induction c as [|c IH]; intros x H.
  - change (2 ^ Z.of_nat 0) with 1 in H. rewrite Z.pow_1_r in H. left; exact H.
  - assert (Hstep : forall j, 0 <= j -> (x ^ 2) ^ (2 ^ j) = x ^ (2 ^ (j + 1))).
    { intros j Hj. rewrite <- Z.pow_mul_r by (try apply Z.pow_nonneg; lia).
      rewrite Z.pow_add_r by lia. f_equal. change (2 ^ 1) with 2. ring. }
    rewrite Nat2Z.inj_succ in *. unfold Z.succ in H. rewrite <- Hstep in H by lia.
    destruct (IH _ H) as [E|(j & Hj & E)].
      assert (E' : x ^ 2 mod n = 1) by exact E.
      destruct (sqrt_one_prime n x Hp Hn E') as [L|R]; [left; exact L|].
      right. exists 0. split; [lia|]. change (2 ^ 0) with 1. rewrite Z.pow_1_r. exact R.
    + right. exists (j + 1). split; [lia|]. rewrite <- Hstep by lia. exact E.
Qed.

Lemma fermat_pred : forall n a, prime n -> 1 <= a < n -> a ^ (n - 1) mod n = 1.
Proof.
  intros n a Hp Ha. pose proof (FermatBridge.fermat_Z Hp (a := a) ltac:(lia)) as F.
  assert (Hn : 1 < n) by (destruct Hp; assumption).
  assert (D : (n | a * (a ^ (n - 1) - 1))).
  { replace (a * (a ^ (n - 1) - 1)) with (a ^ n - a).
    - apply Z.mod_divide; [lia|]. rewrite Zminus_mod, F, Z.sub_diag. apply Z.mod_0_l; lia.
    - replace n with (Z.succ (n - 1)) at 1 by lia. rewrite Z.pow_succ_r by lia. ring. }
  apply prime_mult in D; [|exact Hp]. destruct D as [D|D].
  - apply Z.divide_pos_le in D; lia.
  - apply mod_of_divide; [lia|lia|exact D].
Qed.

Lemma prime_all_liars : forall n d c a, prime n -> 2 < n -> 0 < d -> 0 <= c -> n - 1 = d * 2 ^ c ->
  1 <= a < n -> strong_liar n d c a.
Proof.
  intros n d c a Hp Hn Hd Hc E Ha. unfold strong_liar.
  pose proof (fermat_pred n a Hp Ha) as F. rewrite E, Z.pow_mul_r in F by (try apply Z.pow_nonneg; lia).
  rewrite <- (Z2Nat.id c Hc) in F. apply sqrt_chain in F; [|exact Hp|exact Hn].
  rewrite Z2Nat.id in F by exact Hc.
  destruct F as [L|(j & Hj & R)].
  - left. exact L.
  - right. exists j. split; [exact Hj|]. rewrite Z.pow_mul_r by (try apply Z.pow_nonneg; lia). exact R.
Qed.

(** ** Top-level statements about [is_prime] *)

(** [P] if one of the (at most 20) bases drawn is not a strong liar, the verdict is false. *)
Lemma witness_rejects : forall n d c r l r', 2 < n -> Z.odd n = true -> mr_decomp n = (d, c) ->
  drawn n r l r' -> (length l <= 20)%nat ->
  (exists a, In a l /\ ~ strong_liar n d c a) ->
  exists r'', is_prime n r = Done (false, r'').
Proof.
  intros n d c r l r' Hn Ho E D Hl (a & Hin & Hw).
  destruct (mr_decomp_spec n d c ltac:(lia) E) as (_ & Hd & Hc & _).
  rewrite (is_prime_odd n r d c Hn Ho E).
  eapply mr_rounds_witness; eauto. exists a. split; [exact Hin|].
  destruct (mr_round n d (Z.to_nat c) a) eqn:R; [|reflexivity]. exfalso. apply Hw.
  apply mr_round_spec in R; [|lia|lia]. rewrite Z2Nat.id in R by lia. exact R.
Qed.

(** [P] conversely, if the 20 bases drawn are all strong liars, the verdict is true (this is the error case for composite n). *)
Lemma liars_accept : forall n d c r l r', 2 < n -> Z.odd n = true -> mr_decomp n = (d, c) ->
  drawn n r l r' -> length l = 20%nat ->
  (forall a, In a l -> strong_liar n d c a) ->
  is_prime n r = Done (true, r').
Proof.
  intros n d c r l r' Hn Ho E D Hl Hall.
  destruct (mr_decomp_spec n d c ltac:(lia) E) as (_ & Hd & Hc & _).
  rewrite (is_prime_odd n r d c Hn Ho E). rewrite <- Hl.
  apply mr_rounds_liars; [exact D|]. intros a Ha. apply mr_round_spec; [lia|lia|].
  rewrite Z2Nat.id by lia. auto.
Qed.

(** [P] every terminating run on an odd n > 2 is explained by the bases drawn: verdict true = 20 strong liars were
    drawn; verdict false = the last base drawn is not a strong liar (and the earlier ones are). *)
Lemma is_prime_verdict : forall n d c r b r', 2 < n -> Z.odd n = true -> mr_decomp n = (d, c) ->
  is_prime n r = Done (b, r') ->
  exists l, drawn n r l r' /\ (length l <= 20)%nat /\
    if b then length l = 20%nat /\ (forall a, In a l -> strong_liar n d c a)
    else exists l0 w, l = l0 ++ [w] /\ ~ strong_liar n d c w /\ (forall a, In a l0 -> strong_liar n d c a).
Proof.
  intros n d c r b r' Hn Ho E H.
  destruct (mr_decomp_spec n d c ltac:(lia) E) as (_ & Hd & Hc & _).
  rewrite (is_prime_odd n r d c Hn Ho E) in H. apply mr_rounds_inv in H.
  destruct H as (l & D & Hl & Hb). exists l. split; [exact D|]. split; [exact Hl|].
  assert (Hs : forall a, mr_round n d (Z.to_nat c) a = true <-> strong_liar n d c a).
  { intros a. rewrite mr_round_spec by lia. rewrite Z2Nat.id by lia. reflexivity. }
  destruct b.
  - destruct Hb as [Hb1 Hb2]. split; [exact Hb1|]. intros a Ha. apply Hs. auto.
  - destruct Hb as (l0 & w & -> & Hw & Hl0). exists l0, w. split; [reflexivity|]. split.
    + intros S. apply Hs in S. congruence.
    + intros a Ha. apply Hs. auto.
Qed.

(** [P] a base sharing a factor with n is never a strong liar. *)
Lemma gcd_witness : forall n d c a, 2 < n -> 0 < d -> 0 <= c -> Z.gcd a n <> 1 -> ~ strong_liar n d c a.
Proof.
  intros n d c a Hn Hd Hc Hg S.
  assert (K : forall e t, 1 <= e -> a ^ e mod n = t -> (Z.gcd a n | t)).
  { intros e t He Ht. pose proof (Z.div_mod (a ^ e) n ltac:(lia)) as DM. rewrite Ht in DM.
    replace t with (a ^ e - n * (a ^ e / n)) by lia.
    apply Z.divide_sub_r.
    - replace e with (Z.succ (e - 1)) by lia. rewrite Z.pow_succ_r by lia.
      apply Z.divide_mul_l. apply Z.gcd_divide_l.
    - apply Z.divide_mul_l. apply Z.gcd_divide_r. }
  assert (G1 : (Z.gcd a n | 1)).
  { destruct S as [S|(j & Hj & S)].
    - apply (K d 1); [lia|exact S].
    - assert (0 < 2 ^ j) by (apply Z.pow_pos_nonneg; lia).
      apply (K (d * 2 ^ j) (n - 1)) in S; [|nia].
      replace 1 with (n - (n - 1)) by ring. apply Z.divide_sub_r; [apply Z.gcd_divide_r|exact S]. }
  apply Z.divide_1_r_nonneg in G1; [contradiction|apply Z.gcd_nonneg].
Qed.

(** [P] one-sided error: a prime is never rejected, whatever the draw stream. The only other outcome is [OutOfFuel],
    which the draw routine yields when 4096 successive candidates are rejected (it never panics here). *)
Lemma is_prime_complete : forall n r, prime n ->
  (exists r', is_prime n r = Done (true, r')) \/ is_prime n r = OutOfFuel.
Proof.
  intros n r Hp. assert (Hn1 : 1 < n) by (destruct Hp; assumption).
  destruct (Z.eq_dec n 2) as [->|Hn2]; [left; exists r; reflexivity|].
  assert (Hn : 2 < n) by lia.
  assert (Ho : Z.odd n = true).
  { destruct (Z.odd n) eqn:O; [reflexivity|]. exfalso.
    rewrite <- Z.negb_even in O. apply negb_false_iff, Z.even_spec in O. destruct O as [h Hh].
    assert (D : (2 | n)) by (exists h; lia).
    apply prime_divisors in D; [|exact Hp]. lia. }
  destruct (mr_decomp n) as [d c] eqn:E.
  destruct (mr_decomp_spec n d c ltac:(lia) E) as (_ & Hd & Hc & Hdc).
  rewrite (is_prime_odd n r d c Hn Ho E).
  generalize 20%nat as k. intros k. revert r. induction k as [|k IH]; intros r.
  - left. exists r. reflexivity.
  - rewrite mr_rounds_unfold.
    destruct (gen_range_cases draw_fuel 1 n r Hn1) as [G|(a & r1 & G & Ha)]; rewrite G; cbn [bind]; [right; reflexivity|].
    assert (R : mr_round n d (Z.to_nat c) a = true).
    { apply mr_round_spec; [lia|lia|]. rewrite Z2Nat.id by lia. apply prime_all_liars; assumption. }
    rewrite R. apply IH.
Qed.

(** For a prime, a run that terminates says true. *)
Corollary is_prime_complete_done : forall n r b r', prime n -> is_prime n r = Done (b, r') -> b = true.
Proof.
  intros n r b r' Hp H. destruct (is_prime_complete n r Hp) as [(r'' & E)|E]; rewrite E in H; [|discriminate].
  inversion H; reflexivity.
Qed.

(** [P] [is_prime] never panics (the range 1 .. n handed to the draw routine is non-empty when the rounds run). *)
Lemma is_prime_no_panic : forall n r t, is_prime n r <> Panic t.
Proof.
  intros n r t. unfold is_prime.
  destruct (Z.leb_spec n 1); [discriminate|]. destruct (Z.eqb_spec n 2); [discriminate|].
  destruct (Z.even n); [discriminate|].
  destruct (split_pow2 (Z.to_nat (zbits n)) (n - 1) 0) as [d c].
  generalize 20%nat as k. intros k. revert r. induction k as [|k IH]; intros r; [discriminate|].
  rewrite mr_rounds_unfold.
  destruct (gen_range_cases draw_fuel 1 n r ltac:(lia)) as [G|(a & r1 & G & Ha)]; rewrite G; cbn [bind]; [discriminate|].
  destruct (mr_round n d (Z.to_nat c) a); [apply IH|discriminate].
Qed.

Lemma prime_7 : prime 7.
Proof.
  apply prime_intro; [lia|]. intros k Hk.
  assert (C : k = 1 \/ k = 2 \/ k = 3 \/ k = 4 \/ k = 5 \/ k = 6) by lia.
  destruct C as [->|[->|[->|[->|[->| ->]]]]]; apply Zgcd_1_rel_prime; reflexivity.
Qed.

(** ** OutOfFuel needs a long stream: an exhausted stream yields the draw 0, which is always accepted *)

Definition remaining (r : rng) : nat := length (rng_bytes r).

Lemma next_byte_len : forall r, remaining (snd (next_byte r)) = Nat.pred (remaining r).
Proof. intros [l e]. unfold next_byte, remaining. destruct l; reflexivity. Qed.

Lemma take_le_len : forall k r, remaining (snd (take_le k r)) = (remaining r - k)%nat.
Proof.
  induction k as [|k IH]; intros r; cbn [take_le]; [cbn [snd]; lia|].
  pose proof (next_byte_len r) as N. destruct (next_byte r) as [b r1]. cbn [snd] in N.
  specialize (IH r1). destruct (take_le k r1) as [v r2]. cbn [snd] in *. lia.
Qed.

Lemma take_le_empty : forall k r, rng_bytes r = [] -> fst (take_le k r) = 0.
Proof.
  induction k as [|k IH]; intros r E; cbn [take_le]; [reflexivity|].
  unfold next_byte. rewrite E. specialize (IH (mkRng [] true) eq_refl).
  destruct (take_le k (mkRng [] true)) as [v r2]. cbn [fst] in *. lia.
Qed.

Lemma gen_biguint_empty : forall bits r, rng_bytes r = [] -> fst (gen_biguint bits r) = 0.
Proof.
  intros bits r E. unfold gen_biguint.
  set (len := if bits mod 32 =? 0 then bits / 32 else bits / 32 + 1).
  pose proof (take_le_empty (Z.to_nat (4 * len)) r E) as T.
  destruct (take_le (Z.to_nat (4 * len)) r) as [v r1]. cbn [fst] in T. subst v.
  destruct (bits mod 32 =? 0); cbn [fst]; [reflexivity|].
  rewrite Zmod_0_l, !Zdiv_0_l. lia.
Qed.

Lemma gen_biguint_len : forall bits r,
  (remaining (snd (gen_biguint bits r)) <= remaining r)%nat /\
  (0 < bits -> (0 < remaining r)%nat -> (remaining (snd (gen_biguint bits r)) < remaining r)%nat).
Proof.
  intros bits r. unfold gen_biguint.
  set (len := if bits mod 32 =? 0 then bits / 32 else bits / 32 + 1).
  pose proof (take_le_len (Z.to_nat (4 * len)) r) as T.
  assert (Hlen : 0 < bits -> 1 <= len).
  { intros Hb. unfold len. destruct (Z.eqb_spec (bits mod 32) 0) as [E|NE].
    - apply Z.mod_divide in E; [|lia]. destruct E as [q ->]. rewrite Z.div_mul by lia. lia.
    - assert (0 <= bits / 32) by (apply Z.div_pos; lia). lia. }
  destruct (take_le (Z.to_nat (4 * len)) r) as [v r1]. cbn [snd] in T.
  assert (S : snd (if bits mod 32 =? 0 then (v, r1)
                   else (v mod 2 ^ (32 * (len - 1)) + 2 ^ (32 * (len - 1)) * (v / 2 ^ (32 * (len - 1)) / 2 ^ (32 - bits mod 32)), r1)) = r1)
    by (destruct (bits mod 32 =? 0); reflexivity).
  rewrite S. split; [lia|]. intros Hb Hr. specialize (Hlen Hb). lia.
Qed.

Lemma gen_below_len : forall fuel bound r v r1, gen_below fuel bound r = Done (v, r1) -> (remaining r1 <= remaining r)%nat.
Proof.
  induction fuel as [|f IH]; intros bound r v r1 H; cbn [gen_below] in H; [discriminate|].
  pose proof (proj1 (gen_biguint_len (zbits bound) r)) as L.
  destruct (gen_biguint (zbits bound) r) as [v0 r0]. cbn [snd] in L.
  destruct (v0 <? bound).
  - inversion H; subst. exact L.
  - apply IH in H. lia.
Qed.

Lemma gen_below_short : forall fuel bound r, 0 < bound -> (remaining r < fuel)%nat ->
  gen_below fuel bound r <> OutOfFuel.
Proof.
  induction fuel as [|f IH]; intros bound r Hb Hr; [lia|]. cbn [gen_below].
  assert (Hz : 0 < zbits bound) by (unfold zbits; destruct (Z.leb_spec bound 0); [lia|pose proof (Z.log2_nonneg bound); lia]).
  pose proof (gen_biguint_len (zbits bound) r) as [L1 L2].
  pose proof (gen_biguint_empty (zbits bound) r) as Em.
  destruct (gen_biguint (zbits bound) r) as [v0 r0]. cbn [fst snd] in *.
  destruct (Z.ltb_spec v0 bound); [discriminate|].
  apply IH; [exact Hb|].
  destruct (rng_bytes r) eqn:E; [specialize (Em eq_refl); lia|].
  assert (0 < remaining r)%nat by (unfold remaining; rewrite E; cbn; lia).
  specialize (L2 Hz H0). lia.
Qed.

Lemma mr_rounds_short : forall k n d c r, 1 < n -> (remaining r < draw_fuel)%nat -> mr_rounds k n d c r <> OutOfFuel.
Proof.
  induction k as [|k IH]; intros n d c r Hn Hr; [discriminate|].
  rewrite mr_rounds_unfold. unfold gen_range. destruct (Z.ltb_spec 1 n); [|lia].
  pose proof (gen_below_short draw_fuel (n - 1) r ltac:(lia) Hr) as NF.
  destruct (gen_below draw_fuel (n - 1) r) as [[v r1]| |] eqn:G; cbn [bind]; [|discriminate|contradiction].
  apply gen_below_len in G.
  destruct (mr_round n d c (1 + v)); [apply IH; [exact Hn|lia]|discriminate].
Qed.

(** [P] on a stream of fewer than 4096 bytes the model never runs out of fuel. *)
Lemma is_prime_short_stream : forall n r, (length (rng_bytes r) < 4096)%nat -> is_prime n r <> OutOfFuel.
Proof.
  intros n r Hr. unfold is_prime.
  destruct (Z.leb_spec n 1); [discriminate|]. destruct (Z.eqb_spec n 2); [discriminate|].
  destruct (Z.even n); [discriminate|].
  destruct (split_pow2 (Z.to_nat (zbits n)) (n - 1) 0) as [d c].
  apply mr_rounds_short; [lia|exact Hr].
Qed.

(** [P] so a prime is accepted on every such stream. *)
Corollary is_prime_complete_short_stream : forall n r, prime n -> (length (rng_bytes r) < 4096)%nat ->
  exists r', is_prime n r = Done (true, r').
Proof.
  intros n r Hp Hr. destruct (is_prime_complete n r Hp) as [H|H]; [exact H|].
  exfalso. exact (is_prime_short_stream n r Hr H).
Qed.
