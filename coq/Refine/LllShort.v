(** C20: the short-vector enumeration in exact arithmetic -- soundness.
    (stdlib + lia + ring on Qc.) *)
From RNT.Model Require Import Base Lll.
From RNT.Refine Require Import LllMat.
From Coq Require Import Lia QArith Qcanon.
Open Scope Z_scope.

Local Notation F := arithQ.
Local Notation "x +q y" := (Qcplus x y) (at level 50, left associativity).
Local Notation "x *q y" := (Qcmult x y) (at level 40, left associativity).
Local Notation "x -q y" := (Qcminus x y) (at level 50, left associativity).
Local Notation q0 := (Q2Qc 0).

(** ** The local loop of [dfs] as a top-level function *)
Section Loop.
Variable rec : Qc -> list Z -> list (Qc * list Z) -> bool * list (Qc * list Z).
Variables (rem qii u : Qc) (x : list Z) (i : nat).
Fixpoint dfs_loop (cnt : nat) (xi : Z) (res : list (Qc * list Z)) {struct cnt} : bool * list (Qc * list Z) :=
  match cnt with
  | O => (false, res)
  | S cnt' =>
    let xu := fadd F (fofZ F xi) u in
    let new_rem := fsub F rem (fmul F (fmul F qii xu) xu) in
    let '(stop, res') := rec new_rem (set_nth x i xi) res in
    if stop then (true, res') else dfs_loop cnt' (xi + 1) res'
  end.
End Loop.

(** ** The quantities the enumeration maintains *)
Definition gq (q : list (list Qc)) (i j : nat) : Qc := get2 F q i j.
Definition qz (z : Z) : Qc := Qc_of_Z z.
(** u_i = sum_{j > i} q_ij x_j, as [dfs] accumulates it *)
Definition uval (q : list (list Qc)) (x : list Z) (i : nat) : Qc :=
  for_range (i + 1) (length q) (fun j u => u +q gq q i j *q qz (nth j x 0)) q0.
(** q_ii (x_i + u_i)^2 *)
Definition term (q : list (list Qc)) (x : list Z) (i : nat) : Qc :=
  gq q i i *q (qz (nth i x 0) +q uval q x i) *q (qz (nth i x 0) +q uval q x i).
(** sum_{i >= idx} q_ii (x_i + u_i)^2 *)
Definition pv (q : list (list Qc)) (x : list Z) (idx : nat) : Qc :=
  fold_right (fun i acc => acc +q term q x i) q0 (seq idx (length q - idx)).
(** the value of the form at [x]: sum_i q_ii (x_i + sum_{j>i} q_ij x_j)^2 *)
Definition qvalue (q : list (list Qc)) (x : list Z) : Qc := pv q x 0.

Lemma dfs_S q c rem i x res :
  dfs F q c rem (S i) x res =
  if fltb F rem (f0 F) then (false, res)
  else dfs_loop (fun r x' rs => dfs F q c r i x' rs) rem (gq q i i) (uval q x i) x i
         (Z.to_nat (fup F (fdiv F rem (gq q i i)) (uval q x i) - fdown F (fdiv F rem (gq q i i)) (uval q x i) + 1))
         (fdown F (fdiv F rem (gq q i i)) (uval q x i)) res.
Proof. reflexivity. Qed.

Lemma dfs_0 q c rem x res :
  dfs F q c rem 0 x res =
  if fltb F rem (f0 F) then (false, res)
  else if forallb (Z.eqb 0) x then (true, res) else (false, res ++ [(fsub F c rem, x)]).
Proof. reflexivity. Qed.

Lemma for_range_ext {S} lo hi (f g : nat -> S -> S) s :
  (forall j t, (lo <= j < hi)%nat -> f j t = g j t) -> for_range lo hi f s = for_range lo hi g s.
Proof.
  unfold for_range. intros H.
  assert (G : forall l, (forall j, In j l -> (lo <= j < hi)%nat) -> forall s,
             fold_left (fun s i => f i s) l s = fold_left (fun s i => g i s) l s).
  { induction l as [|a l IH]; intros Hl s0; cbn; [reflexivity|].
    rewrite H by (apply Hl; left; reflexivity). apply IH. intros j Hj. apply Hl. right. exact Hj. }
  apply G. intros j Hj. apply in_seq in Hj. lia.
Qed.

Lemma uval_set q x i k xi : (i <= k)%nat -> uval q (set_nth x i xi) k = uval q x k.
Proof.
  intros H. unfold uval. apply for_range_ext. intros j t Hj.
  rewrite nth_set_nth_neq by lia. reflexivity.
Qed.

Lemma term_set_above q x i k xi : (i < k)%nat -> term q (set_nth x i xi) k = term q x k.
Proof.
  intros H. unfold term. rewrite uval_set by lia. rewrite nth_set_nth_neq by lia. reflexivity.
Qed.

Lemma term_set_at q x i xi : (i < length x)%nat ->
  term q (set_nth x i xi) i = gq q i i *q (qz xi +q uval q x i) *q (qz xi +q uval q x i).
Proof.
  intros H. unfold term. rewrite uval_set by lia. rewrite nth_set_nth_eq by exact H. reflexivity.
Qed.

Lemma pv_ext q x y idx : (forall k, (idx <= k < length q)%nat -> term q x k = term q y k) -> pv q x idx = pv q y idx.
Proof.
  intros H. unfold pv.
  assert (G : forall l, (forall k, In k l -> (idx <= k < length q)%nat) ->
             fold_right (fun i acc => acc +q term q x i) q0 l = fold_right (fun i acc => acc +q term q y i) q0 l).
  { induction l as [|a l IH]; intros Hl; cbn; [reflexivity|].
    rewrite IH by (intros k Hk; apply Hl; right; exact Hk).
    rewrite H by (apply Hl; left; reflexivity). reflexivity. }
  apply G. intros k Hk. apply in_seq in Hk. lia.
Qed.

Lemma pv_set q x i xi : pv q (set_nth x i xi) (S i) = pv q x (S i).
Proof. apply pv_ext. intros k Hk. apply term_set_above. lia. Qed.

Lemma pv_S q x idx : (idx < length q)%nat -> pv q x idx = pv q x (S idx) +q term q x idx.
Proof.
  intros H. unfold pv. replace (length q - idx)%nat with (S (length q - S idx)) by lia. reflexivity.
Qed.

Lemma pv_top q x : pv q x (length q) = q0.
Proof. unfold pv. rewrite Nat.sub_diag. reflexivity. Qed.

(** ** Soundness *)
Definition nonzero (x : list Z) : Prop := forallb (Z.eqb 0) x = false.
Definition good (q : list (list Qc)) (c : Qc) (vx : Qc * list Z) : Prop :=
  length (snd vx) = length q /\ nonzero (snd vx) /\ fst vx = qvalue q (snd vx) /\ Qcle (fst vx) c.

Lemma Qc_ltb_false a b : Qc_ltb a b = false -> Qcle b a.
Proof. unfold Qc_ltb. intros H. apply Bool.negb_false_iff in H. apply Qle_bool_iff in H. exact H. Qed.
Lemma Qc_ltb_true a b : Qc_ltb a b = true -> Qclt a b.
Proof.
  unfold Qc_ltb. intros H. apply Bool.negb_true_iff in H.
  apply Qnot_le_lt. intros L. apply Qle_bool_iff in L. congruence.
Qed.

Lemma dfs_sound q c : forall idx rem x res stop res',
  dfs F q c rem idx x res = (stop, res') ->
  length x = length q -> (idx <= length q)%nat -> rem = c -q pv q x idx ->
  Forall (good q c) res -> Forall (good q c) res'.
Proof.
  induction idx as [|i IH]; intros rem x res stop res' D Lx Hidx Hrem G.
  - rewrite dfs_0 in D. cbn [fltb f0 F arithQ] in D.
    destruct (Qc_ltb rem q0) eqn:Eneg; [inversion D; subst; exact G|].
    destruct (forallb (Z.eqb 0) x) eqn:Ez; inversion D; subst; [exact G|].
    apply Forall_app. split; [exact G|]. constructor; [|constructor].
    unfold good; cbn [fst snd fsub F arithQ]. repeat split; try assumption.
    + unfold qvalue. ring.
    + apply Qc_ltb_false in Eneg.
      apply Qcle_minus_iff. replace (c +q - (c -q (c -q pv q x 0%nat))) with (c -q pv q x 0%nat) by ring.
      exact Eneg.
  - rewrite dfs_S in D. cbn [fltb f0 F arithQ] in D.
    destruct (Qc_ltb rem q0) eqn:Eneg; [inversion D; subst; exact G|].
    revert D G.
    generalize (Z.to_nat (fup F (fdiv F rem (gq q i i)) (uval q x i) - fdown F (fdiv F rem (gq q i i)) (uval q x i) + 1)).
    generalize (fdown F (fdiv F rem (gq q i i)) (uval q x i)).
    intros xi0 cnt. revert res stop res' xi0.
    induction cnt as [|cnt IHc]; intros res stop res' xi D G; cbn [dfs_loop] in D.
    + inversion D; subst. exact G.
    + match type of D with context [dfs F q c ?r i ?x' res] => destruct (dfs F q c r i x' res) as [st1 res1] eqn:D1 end.
      assert (G1 : Forall (good q c) res1).
      { eapply IH; [exact D1| | | |exact G].
        - rewrite length_set_nth. exact Lx.
        - lia.
        - rewrite (pv_S q _ i) by lia. rewrite pv_set. rewrite term_set_at by lia.
          subst rem. cbn [fadd fsub fmul fofZ F arithQ]. unfold qz. ring. }
      destruct st1; [inversion D; subst; exact G1|]. eapply IHc; eassumption.
Qed.

(** [find_value] is the value of the form *)
Lemma fold_left_add_shift {A} (g : A -> Qc) l s :
  fold_left (fun t j => t +q g j) l s = s +q fold_left (fun t j => t +q g j) l q0.
Proof.
  revert s; induction l as [|a l IH]; intros s; cbn; [ring|].
  rewrite IH. rewrite (IH (q0 +q g a)). ring.
Qed.

Lemma fold_left_right_add {A} (g : A -> Qc) l :
  fold_left (fun t j => t +q g j) l q0 = fold_right (fun j acc => acc +q g j) q0 l.
Proof.
  induction l as [|a l IH]; cbn; [reflexivity|].
  rewrite fold_left_add_shift, IH. ring.
Qed.

Lemma get1_map x j : get1 F (map (fofZ F) x) j = qz (nth j x 0).
Proof. unfold get1. cbn [fofZ f0 F arithQ]. change q0 with (Qc_of_Z 0). rewrite map_nth. reflexivity. Qed.

Lemma for_range_add_shift lo hi (g : nat -> Qc) s :
  for_range lo hi (fun j t => t +q g j) s = s +q for_range lo hi (fun j t => t +q g j) q0.
Proof. unfold for_range. apply (fold_left_add_shift g). Qed.

Lemma find_value_qvalue q x : length x = length q ->
  find_value F q (map (fofZ F) x) = Done (qvalue q x).
Proof.
  intros L. unfold find_value. rewrite map_length, L, Nat.eqb_refl. cbn [negb]. f_equal.
  rewrite (for_range_ext 0 (length q) _ (fun i val => val +q term q x i)).
  - unfold qvalue, pv, for_range. rewrite Nat.sub_0_r. apply (fold_left_right_add (term q x)).
  - intros i val Hi.
    rewrite (for_range_ext (i + 1) (length q) _ (fun j t => t +q gq q i j *q qz (nth j x 0))).
    2:{ intros j t Hj. rewrite get1_map. reflexivity. }
    rewrite for_range_add_shift. rewrite get1_map. unfold term, uval. reflexivity.
Qed.

Theorem short_vectors_sound : forall (q : list (list Qc)) (c : Qc) (l : list (Qc * list Z)),
  find_short_vectors F q c = Done l ->
  Forall (fun vx =>
            length (snd vx) = length q /\
            forallb (Z.eqb 0) (snd vx) = false /\
            find_value F q (map (fofZ F) (snd vx)) = Done (fst vx) /\
            Qcle (fst vx) c) l.
Proof.
  intros q c l H. unfold find_short_vectors in H.
  destruct (dfs F q c c (length q) (repeat 0 (length q)) []) as [stop res] eqn:D.
  destruct stop; [|discriminate]. inversion H; subst; clear H.
  apply dfs_sound in D.
  - eapply Forall_impl; [|exact D]. intros [v x] (L & NZ & V & C); cbn [fst snd] in *.
    repeat split; try assumption. rewrite V. apply find_value_qvalue. exact L.
  - apply repeat_length.
  - lia.
  - rewrite pv_top. ring.
  - constructor.
Qed.
