(** Round 2 driver, fifth wave (C06): the multiplication formula of Dedekind's basis.
    For any sequence b_0, b_1, .. in a commutative ring, let D_k = b_0 X^k + b_1 X^(k-1) + .. + b_(k-1) X
    (k >= 0; D_0 = 0).  Then, as polynomials,
      D_i D_j = sum_(u < i) b_u D_(i+j-u) - sum_(v < i) b_(j+v) D_(i-v).
    (With b_u = a_(n-u) the coefficients of f = sum a_k x^k read from the top, D_1 .. D_(n-1) are the generators
    a_n x^i + .. + a_(n-i+1) x of the starting order Z[theta] cap Z[1/theta], D_n = f - a_0, D_k = x^(k-n) f for
    k > n: the formula shows that the lattice <1, D_1, .., D_(n-1)> is closed under multiplication modulo f.)
    Style: ssreflect/MathComp. *)
From mathcomp Require Import all_ssreflect ssralg poly.
From mathcomp Require Import ssrZ zify ring.
Set Implicit Arguments.
Unset Strict Implicit.
Unset Printing Implicit Defensive.
Import GRing.Theory.
Local Open Scope ring_scope.

Section Ident.
Variable R : comRingType.
Variable b : nat -> R.

Definition DP (k : nat) : {poly R} := \sum_(u < k) b u *: 'X^(k - u).

Lemma DP0 : DP 0 = 0.
Proof. by rewrite /DP big_ord0. Qed.

Lemma DP1 : DP 1 = b 0%N *: 'X.
Proof. by rewrite /DP big_ord_recl big_ord0 addr0 subn0 expr1. Qed.

(** D_(k+1) = X D_k + b_k X *)
Lemma DPS k : DP k.+1 = 'X * DP k + b k *: 'X.
Proof.
rewrite /DP big_ord_recr /= subSnn expr1; congr (_ + _).
rewrite mulr_sumr; apply: eq_bigr => u _.
have hu := ltn_ord u.
by rewrite subSn 1?ltnW // exprS scalerAr.
Qed.

(** the coefficients: b_(k-j) at X^j for 1 <= j <= k *)
Lemma coef_DP k j : (DP k)`_j = if (0 < j <= k)%N then b (k - j)%N else 0.
Proof.
rewrite /DP coef_sum.
case: ifP => [/andP[j0 jk]|hj].
  have hk : (k - j < k)%N by lia.
  rewrite (bigD1 (Ordinal hk)) //= coefZ coefXn subKn // eqxx mulr1 big1 ?addr0 // => u hu.
  rewrite coefZ coefXn; case: eqP => [e|]; rewrite ?mulr0 //.
  by case/eqP: hu; apply: val_inj => /=; have := ltn_ord u; lia.
apply: big1 => u _; have hu := ltn_ord u.
by rewrite coefZ coefXn; case: eqP => [e|]; rewrite ?mulr0 //; move: hj; rewrite e; lia.
Qed.

Lemma XDP k : 'X * DP k = DP k.+1 - b k *: 'X.
Proof. by rewrite DPS addrK. Qed.

(** both sides are sum_(u <= i) b_u b_(i+j-u) *)
Lemma conv_sym i j :
  \sum_(v < i) b (j + v)%N * b (i - v)%N + b 0%N * b (i + j)%N
  = \sum_(u < i) b u * b (i + j - u)%N + b i * b j.
Proof.
transitivity (\sum_(u < i.+1) b u * b (i + j - u)%N); last first.
  by rewrite big_ord_recr /= addKn.
rewrite big_ord_recl /= subn0 addrC; congr (_ + _).
rewrite (reindex_inj rev_ord_inj) /=; apply: eq_bigr => v _.
have hv := ltn_ord v.
rewrite /bump /= add1n mulrC; congr (b _ * b _); lia.
Qed.

(** the multiplication formula *)
Theorem DP_mul i j :
  DP i * DP j = \sum_(u < i) b u *: DP (i + j - u) - \sum_(v < i) b (j + v)%N *: DP (i - v).
Proof.
elim: i => [|i IH]; first by rewrite DP0 mul0r !big_ord0 subrr.
have E1 : 'X * (\sum_(u < i) b u *: DP (i + j - u))
          = \sum_(u < i) b u *: DP (i.+1 + j - u) - (\sum_(u < i) b u * b (i + j - u)%N) *: 'X.
  rewrite mulr_sumr scaler_suml -sumrB; apply: eq_bigr => u _.
  have hu := ltn_ord u.
  rewrite -scalerAr XDP scalerBr scalerA; congr (b u *: DP _ - _); lia.
have E2 : 'X * (\sum_(v < i) b (j + v)%N *: DP (i - v))
          = \sum_(v < i) b (j + v)%N *: DP (i.+1 - v) - (\sum_(v < i) b (j + v)%N * b (i - v)%N) *: 'X.
  rewrite mulr_sumr scaler_suml -sumrB; apply: eq_bigr => v _.
  have hv := ltn_ord v.
  rewrite -scalerAr XDP scalerBr scalerA; congr (b _ *: DP _ - _); lia.
rewrite DPS mulrDl -mulrA IH mulrBr E1 E2 -scalerAl XDP.
rewrite !big_ord_recr /=.
have -> : (i.+1 + j - i = j.+1)%N by lia.
have -> : (i.+1 - i = 1)%N by lia.
rewrite DP1 [(j + i)%N]addnC.
have /(canRL (addrK _)) -> := conv_sym i j.
rewrite !scalerBr !scalerBl !scalerDl !scalerA.
set S1 := \sum_(u < i) b u *: DP (i.+1 + j - u).
set S2 := \sum_(v < i) b (j + v)%N *: DP (i.+1 - v).
set A := \sum_(u < i) b u * b (i + j - u)%N.
rewrite [b (i + j)%N * b 0%N]mulrC.
move: (A *: 'X) ((b i * b j) *: 'X) ((b 0%N * b (i + j)%N) *: 'X) (b i *: DP j.+1) => a c d e.
ring.
Qed.

End Ident.
