(** Round 2 step, fourth wave (C06): indices of lattices, in the matrix world.
    - an order O contained in a lattice O'' (rows of [o] integer combinations of rows of [o2]): O = S O'' with an
      integer matrix S, [index(O'', O)] returns det S, and |det S| Z^n is inside the row lattice of S
      (|det S| O'' is inside O: adjugate);
    - if a prime p divides det S there is an integer vector a, not in p Z^n, with a S in p Z^n (an element of
      O'' outside O that p carries into O);
    - if the index of the result of a Round 2 step over its input is 1 then the lattice U_p + p Z^n is p Z^n.
    Style: ssreflect/MathComp. *)
From Coq Require Import ZArith List Znumtheory.
From mathcomp Require Import all_ssreflect ssralg ssrint zmodp matrix mxalgebra.
From mathcomp Require Import ssrZ zify.
From Coq Require Import QArith Qcanon.
From RNT.Model Require Import Base Poly Algebraic LinAlg MultTable Order Round2.
From RNT.Model Require Hnf.
From RNT.Refine Require Import QcField LinAlgQc MatZ HnfSpec HnfMain HnfDet HnfTotal OrderLint OrderCanon DetBridge DetHnf DetOrder.
From RNT.Refine Require Round2Basic Round2Index Round2Lattice Round2Det Round2W3Ip Round2W3Step Round2W3Det.
From RNT.Refine Require Import Round2W3Frob.
Set Implicit Arguments.
Unset Strict Implicit.
Unset Printing Implicit Defensive.
Import GRing.Theory.
Local Close Scope Z_scope.
Local Close Scope Q_scope.
Local Close Scope Qc_scope.
Local Open Scope ring_scope.

(** ** O inside O'': the matrix S *)
Lemma span_mx n (o o2 : qmat) : length o2 = n ->
  (forall t, (t < n)%coq_nat -> Round2Lattice.in_spanQ n (List.nth t o [::]) o2) ->
  exists S : list (list Z), shape n n S /\ qmx n n o = mxQ n n S *m qmx n n o2.
Proof.
move=> lo2 h.
have [D [lD hD]] := @Round2Lattice.fin_choice (list Z)
    (fun t d => length d = n /\ forall j, (j < n)%coq_nat ->
       List.nth j (List.nth t o [::]) Algebraic.q0 = Round2Lattice.combQ d o2 j) [::] n
    (fun t ht => let: ex_intro d (conj ld ed) := h t ht in
       ex_intro _ d (conj (etrans ld lo2) ed)).
have wD : wf n D.
  apply/List.Forall_forall => r /(List.In_nth _ _ [::]) [t [ht <-]].
  by case: (hD t) => //; rewrite -lD.
exists D; split=> //; apply/matrixP => i j; rewrite !mxE.
have /ltP hi := ltn_ord i; have /ltP hj := ltn_ord j.
have [_ ->] := hD i hi; last by [].
rewrite Round2W3Det.combQ_sum lo2; apply: eq_bigr => k _.
by rewrite !mxE.
Qed.

Theorem over_index n (o o2 : qmat) :
  qshape n n o -> qshape n n o2 -> \det (qmx n n o) != 0 ->
  (forall t, (t < n)%coq_nat -> Round2Lattice.in_spanQ n (List.nth t o [::]) o2) ->
  exists S : list (list Z),
    [/\ shape n n S, qmx n n o = mxQ n n S *m qmx n n o2, \det (qmx n n o2) != 0,
        \det (zmx n n S) <> 0%Z & order_index o2 o = Done (\det (zmx n n S))].
Proof.
move=> [lo wo] [lo2 wo2] d0 h.
have [S [sS eS]] := span_mx lo2 h.
have dd : \det (qmx n n o) = q_of_Z (\det (zmx n n S)) * \det (qmx n n o2).
  by rewrite eS det_mulmx det_mxQ.
have d2 : \det (qmx n n o2) != 0.
  by apply/eqP => e0; move: d0; rewrite dd e0 mulr0 eqxx.
have dS : \det (zmx n n S) <> 0%Z.
  by move=> e0; move: d0; rewrite dd e0 (rmorph0 q_of_Z_rmorphism) mul0r eqxx.
exists S; split=> //.
apply: (@order_index_spec_n n o2 o (zmx n n S)) => //.
- by rewrite /square lo2.
- by rewrite /square lo.
Qed.

(** |det S| Z^n is inside the row lattice of S *)
Lemma adj_span n (S : list (list Z)) : shape n n S -> \det (zmx n n S) <> 0%Z ->
  forall y, length y = n -> In_rowspanZ n (MatZ.vscale (Z.abs (\det (zmx n n S))) y) S.
Proof.
move=> [lS wS] dS y ly.
apply/(rowspan_mx _ wS lS); split; first by rewrite MatZ.vscale_length.
set D := \det (zmx n n S) in dS *.
exists ((Z.sgn D : Z) *: (zrv n y *m \adj (zmx n n S))).
rewrite -scalemxAl -mulmxA mul_adj_mx -/D mul_mx_scalar scalerA.
apply/rowP => j; rewrite !mxE MatZ.nth_vscale.
have -> : Z.abs D = (Z.sgn D * D)%Z by lia.
by [].
Qed.

(** ** a prime divisor of the index: an element of O'' outside O that p carries into O *)
Lemma cauchy_vec n (p : nat) (S : list (list Z)) : prime p -> shape n n S ->
  (Z.of_nat p | \det (zmx n n S))%Z ->
  exists a c : list Z, [/\ length a = n, length c = n,
    ~ (forall k, (Z.of_nat p | List.nth k a 0%Z)%Z) & lincomb n a S = MatZ.vscale (Z.of_nat p) c].
Proof.
move=> pr [lS wS] dv.
have d0 : \det (map_mx (Round2W3Frob.phi p) (zmx n n S)) == 0.
  by rewrite det_map_mx (Round2W3Frob.phi_eq0 pr); apply/(dvdz_Zdivide 0%nat p [::]).
move/det0P: (d0) => [v vn0 ev].
pose a : list Z := [seq Z.of_nat (v 0 i : 'F_p) | i <- enum 'I_n].
have la : length a = n by rewrite -[length a]/(size a) size_map size_enum_ord.
have na (i : 'I_n) : List.nth i a 0%Z = Z.of_nat (v 0 i : 'F_p).
  by rewrite Lnth_nth (nth_map i) ?size_enum_ord // nth_ord_enum.
have phia (i : 'I_n) : (Round2W3Frob.phi p) (List.nth i a 0%Z) = v 0 i.
  rewrite na /= /Round2W3Frob.phi.
  have -> : int_of_Z (Z.of_nat (v 0 i : 'F_p)) = Posz (v 0 i : 'F_p) by lia.
  by rewrite -[(Posz _)%:~R]/(((v 0 i : 'F_p) : nat)%:R : 'F_p) natr_Zp.
have ea : map_mx (Round2W3Frob.phi p) (zrv n a) = v.
  by apply/rowP => i; rewrite !mxE phia.
have dvd j : (j < n)%nat -> (Z.of_nat p | List.nth j (lincomb n a S) 0%Z)%Z.
  move=> hj; have := zrv_lincomb a wS lS => /rowP /(_ (Ordinal hj)); rewrite mxE /= => ->.
  apply/(dvdz_Zdivide 0%nat p [::]); rewrite -(Round2W3Frob.phi_eq0 pr).
  have := congr1 (fun M : 'rV_n => M 0 (Ordinal hj)) ev.
  by rewrite -ea -map_mxM !mxE => ->.
pose c : list Z := [seq Z.div (List.nth j (lincomb n a S) 0%Z) (Z.of_nat p) | j <- iota 0 n].
have lc : length c = n by rewrite -[length c]/(size c) size_map size_iota.
exists a, c; split=> //.
  move=> h; case/negP: vn0; apply/eqP/rowP => i; rewrite mxE -phia.
  by apply/eqP; rewrite (Round2W3Frob.phi_eq0 pr); apply/(dvdz_Zdivide 0%nat p [::]).
apply: (@vec_ext n); rewrite ?lincomb_length ?MatZ.vscale_length // => j /ltP hj.
rewrite MatZ.nth_vscale [List.nth j c _]Lnth_nth (nth_map 0%nat) ?size_iota // nth_iota // add0n.
have pp : (0 < Z.of_nat p)%Z by have := prime_gt0 pr; lia.
by case: (dvd j hj) => e ->; rewrite Z.div_mul; lia.
Qed.

(** ** index 1: the lattice handed to [new_basis] is p Z^n *)
Theorem index1_h deg (p : Z) (o : qmat) (u h : list (list Z)) (nb o' : qmat) :
  (1 <= deg)%coq_nat -> p <> 0%Z -> Round2Det.lower_from deg 0 o -> wf deg u ->
  Hnf.hnf_new (List.app u (p_rows deg p)) = Done h -> length h = deg ->
  new_basis deg p h o = Done nb -> from_basis nb = Done o' -> order_index o' o = Done 1%Z ->
  forall v, In_rowspanZ deg v h -> forall k, (p | List.nth k v 0%Z)%Z.
Proof.
move=> hd p0 LO wu E lh Enb Eo' idx1.
have [lp wp] := Round2Lattice.p_rows_shape deg p.
have wA : wf deg (List.app u (p_rows deg p)) by apply/wf_app.
have [hr [wh _]] := Round2W3Ip.hnf_new_any deg _ h wA hd E.
have sh : shape deg deg h by [].
have [lo [sqo so]] := Round2W3Det.lower_square LO.
have [_ [lnb [wnb enb]]] := Round2Lattice.new_basis_spec deg p h o nb hd Enb.
have snb : qshape deg deg nb by [].
have qnb := Round2W3Det.qmx_new_basis sh lo enb.
have do0 := Round2W3Det.lower_det_neq0 LO.
have [U [V [sU [sV [eo' enb']]]]] := hnf_reduce_equiv deg nb o' hd snb Eo'.
have [l' [p' [l'pos p'pos lo' sqo' do']]] := stored_det hd snb Eo'.
have so' : qshape deg deg o' by split=> //; move: sqo'; rewrite /square lo'.
have do'0 : \det (qmx deg deg o') != 0.
  apply/eqP => d0; move: do'; rewrite d0 mulr0 => /esym/eqP.
  by rewrite q_of_Z_eq0 => /eqP; lia.
have p0' : q_of_Z p != 0 by rewrite q_of_Z_eq0; apply/eqP.
have [C [sC eC]] := Round2W3Step.p_rows_factor deg p u h hd wu E lh.
have eCh : zmx deg deg C *m zmx deg deg h = p%:M.
  by rewrite -(zmx_mmul sC.1 wh lh) eC Round2W3Det.zmx_p_rows.
have qnb' : qmx deg deg nb = mxQ deg deg V *m qmx deg deg o' by rewrite {1}enb' (qmx_qmmul sV.1 so').
have qo : qmx deg deg o = map_mx q_of_Z (zmx deg deg C *m zmx deg deg V) *m qmx deg deg o'.
  rewrite map_mxM -mulmxA -/(mxQ deg deg V) -qnb' qnb -scalemxAr mulmxA /mxQ -map_mxM eCh map_scalar_mx.
  by rewrite mul_scalar_mx scalerA mulVf // scale1r.
have idx := order_index_spec_n lo' lo sqo' sqo do'0 qo.
have dCV : (\det (zmx deg deg C) * \det (zmx deg deg V))%Z = 1%Z.
  by move: idx; rewrite idx1 det_mulmx => -[].
have dC2 : (\det (zmx deg deg C) * \det (zmx deg deg C))%Z = 1%Z.
  by case: (Z.mul_eq_1 _ _ dCV) => ->.
(* h = det C * p * adj C *)
have eh : zmx deg deg h = (\det (zmx deg deg C) * p) *: \adj (zmx deg deg C).
  have := congr1 (fun M => \adj (zmx deg deg C) *m M) eCh.
  rewrite mulmxA mul_adj_mx mul_scalar_mx mul_mx_scalar => e.
  have := congr1 (fun M => \det (zmx deg deg C) *: M) e.
  by rewrite scalerA [(_ * _)%R]dC2 scale1r scalerA.
move=> v /(rowspan_mx _ wh lh) [lv [c ec]] k.
case: (ltnP k deg) => hk; last first.
  by rewrite List.nth_overflow; [exists 0%Z|rewrite lv; exact/leP].
have := congr1 (fun M : 'rV_deg => M 0 (Ordinal hk)) ec; rewrite !mxE /= => ->.
rewrite eh; exists (\sum_j c 0 j * (\det (zmx deg deg C) * (\adj (zmx deg deg C)) j (Ordinal hk))).
have -> (a : Z) : Z.mul a p = a * p by [].
rewrite mulr_suml; apply: eq_bigr => j _; rewrite !mxE.
by rewrite /GRing.mul /=; ring.
Qed.

(** ** the same with the matrix S given by the list of its entries *)
Lemma span_choice n (o o2 : qmat) : length o2 = n ->
  (forall t, (t < n)%coq_nat -> Round2Lattice.in_spanQ n (List.nth t o [::]) o2) ->
  exists S : list (list Z), shape n n S /\
    forall t j, (t < n)%coq_nat -> (j < n)%coq_nat ->
      List.nth j (List.nth t o [::]) Algebraic.q0 = Round2Lattice.combQ (List.nth t S [::]) o2 j.
Proof.
move=> lo2 h.
have [D [lD hD]] := @Round2Lattice.fin_choice (list Z)
    (fun t d => length d = n /\ forall j, (j < n)%coq_nat ->
       List.nth j (List.nth t o [::]) Algebraic.q0 = Round2Lattice.combQ d o2 j) [::] n
    (fun t ht => let: ex_intro d (conj ld ed) := h t ht in
       ex_intro _ d (conj (etrans ld lo2) ed)).
have wD : wf n D.
  apply/List.Forall_forall => r /(List.In_nth _ _ [::]) [t [ht <-]].
  by case: (hD t) => //; rewrite -lD.
by exists D; split=> // t j ht hj; case: (hD t ht) => _; apply.
Qed.

Lemma entries_mx n (o o2 : qmat) (S : list (list Z)) : length o2 = n ->
  (forall t j, (t < n)%coq_nat -> (j < n)%coq_nat ->
     List.nth j (List.nth t o [::]) Algebraic.q0 = Round2Lattice.combQ (List.nth t S [::]) o2 j) ->
  qmx n n o = mxQ n n S *m qmx n n o2.
Proof.
move=> lo2 h; apply/matrixP => i j; rewrite !mxE.
have /ltP hi := ltn_ord i; have /ltP hj := ltn_ord j.
rewrite -[Q2Qc 0]/Algebraic.q0 (h i j hi hj) Round2W3Det.combQ_sum lo2; apply: eq_bigr => k _.
by rewrite !mxE.
Qed.

Theorem over_index_S n (o o2 : qmat) (S : list (list Z)) :
  qshape n n o -> qshape n n o2 -> \det (qmx n n o) != 0 -> shape n n S ->
  (forall t j, (t < n)%coq_nat -> (j < n)%coq_nat ->
     List.nth j (List.nth t o [::]) Algebraic.q0 = Round2Lattice.combQ (List.nth t S [::]) o2 j) ->
  \det (zmx n n S) <> 0%Z /\ order_index o2 o = Done (\det (zmx n n S)).
Proof.
move=> [lo wo] [lo2 wo2] d0 sS h.
have eS := entries_mx lo2 h.
have dd : \det (qmx n n o) = q_of_Z (\det (zmx n n S)) * \det (qmx n n o2).
  by rewrite eS det_mulmx det_mxQ.
have d2 : \det (qmx n n o2) != 0.
  by apply/eqP => e0; move: d0; rewrite dd e0 mulr0 eqxx.
split.
  by move=> e0; move: d0; rewrite dd e0 (rmorph0 q_of_Z_rmorphism) mul0r eqxx.
apply: (@order_index_spec_n n o2 o (zmx n n S)) => //.
- by rewrite /square lo2.
- by rewrite /square lo.
Qed.

(** a lower triangular basis with positive diagonal is non-singular (for users outside the matrix world) *)
Theorem over_index_lower n (o o2 : qmat) (S : list (list Z)) :
  Round2Det.lower_from n 0 o -> length o2 = n -> List.Forall (fun r => length r = n) o2 -> shape n n S ->
  (forall t j, (t < n)%coq_nat -> (j < n)%coq_nat ->
     List.nth j (List.nth t o [::]) Algebraic.q0 = Round2Lattice.combQ (List.nth t S [::]) o2 j) ->
  \det (zmx n n S) <> 0%Z /\ order_index o2 o = Done (\det (zmx n n S)).
Proof.
move=> LO lo2 wo2 sS h.
have [lo [_ so]] := Round2W3Det.lower_square LO.
exact: (over_index_S so (conj lo2 wo2) (Round2W3Det.lower_det_neq0 LO) sS h).
Qed.

(** ** everything about an over-lattice O'' of a stored basis O, free of matrices *)
Theorem over_package n (o o2 : qmat) :
  Round2Det.lower_from n 0 o -> length o2 = n -> List.Forall (fun r => length r = n) o2 ->
  (forall t, (t < n)%coq_nat -> Round2Lattice.in_spanQ n (List.nth t o [::]) o2) ->
  exists (S : list (list Z)) (D : Z),
    [/\ shape n n S,
        forall t j, (t < n)%coq_nat -> (j < n)%coq_nat ->
          List.nth j (List.nth t o [::]) Algebraic.q0 = Round2Lattice.combQ (List.nth t S [::]) o2 j,
        D <> 0%Z /\ order_index o2 o = Done D,
        forall y, length y = n -> In_rowspanZ n (MatZ.vscale (Z.abs D) y) S
      & forall p : Z, Znumtheory.prime p -> (p | D)%Z ->
          exists a c : list Z, [/\ length a = n, length c = n,
            ~ (forall k, (p | List.nth k a 0%Z)%Z) & lincomb n a S = MatZ.vscale p c]].
Proof.
move=> LO lo2 wo2 h.
have [S [sS eS]] := span_choice lo2 h.
have [dS idx] := over_index_lower LO lo2 wo2 sS eS.
exists S, (\det (zmx n n S)); split=> //.
- exact: adj_span.
- move=> p pp dv.
  have pr := FermatBridge.prime_Z_nat pp.
  have ep : Z.of_nat (Z.to_nat p) = p by case: pp; lia.
  by have := @cauchy_vec n (Z.to_nat p) S pr sS; rewrite ep; apply.
Qed.

(** ** index 1 or -1: the two lattices are equal *)
Theorem unit_index_span n (o o2 : qmat) (S : list (list Z)) :
  length o = n -> length o2 = n -> shape n n S ->
  (forall t j, (t < n)%coq_nat -> (j < n)%coq_nat ->
     List.nth j (List.nth t o [::]) Algebraic.q0 = Round2Lattice.combQ (List.nth t S [::]) o2 j) ->
  (\det (zmx n n S) = 1%Z \/ \det (zmx n n S) = (-1)%Z) ->
  forall t, (t < n)%coq_nat -> Round2Lattice.in_spanQ n (List.nth t o2 [::]) o.
Proof.
move=> lo lo2 sS h dS t /ltP ht.
have eS := entries_mx lo2 h.
set D := \det (zmx n n S) in dS.
have D2 : (D * D)%Z = 1%Z by case: dS => ->.
pose B : 'M[Z]_n := D *: \adj (zmx n n S).
have eB : qmx n n o2 = map_mx q_of_Z B *m qmx n n o.
  rewrite eS mulmxA -map_mxM /B -scalemxAl mul_adj_mx -/D -mul_scalar_mx -scalar_mxM.
  have -> : D * D = 1 by exact: D2.
  by rewrite map_scalar_mx (rmorph1 q_of_Z_rmorphism) mul1mx.
pose c : list Z := [seq B (Ordinal ht) i | i <- enum 'I_n].
have lc : length c = n by rewrite -[length c]/(size c) size_map size_enum_ord.
have nc (i : 'I_n) : List.nth i c 0%Z = B (Ordinal ht) i.
  by rewrite Lnth_nth (nth_map i) ?size_enum_ord // nth_ord_enum.
exists c; split; first by rewrite lc lo.
move=> j /ltP hj.
have := congr1 (fun M : 'M_n => M (Ordinal ht) (Ordinal hj)) eB; rewrite !mxE /= => ->.
rewrite Round2W3Det.combQ_sum lo; apply: eq_bigr => k _.
by rewrite nc !mxE.
Qed.

(** ... packaged with [over_package]: if the index of O in an over-lattice is 1 or -1, the over-lattice is O *)
Theorem over_unit_equal n (o o2 : qmat) (i : Z) :
  Round2Det.lower_from n 0 o -> length o2 = n -> List.Forall (fun r => length r = n) o2 ->
  (forall t, (t < n)%coq_nat -> Round2Lattice.in_spanQ n (List.nth t o [::]) o2) ->
  order_index o2 o = Done i -> (i = 1%Z \/ i = (-1)%Z) ->
  forall t, (t < n)%coq_nat -> Round2Lattice.in_spanQ n (List.nth t o2 [::]) o.
Proof.
move=> LO lo2 wo2 h idx hi.
have [S [sS eS]] := span_choice lo2 h.
have [dS idx'] := over_index_lower LO lo2 wo2 sS eS.
have ei : \det (zmx n n S) = i by move: idx'; rewrite idx => -[].
have [lo _] := Round2W3Det.lower_square LO.
by apply: (unit_index_span lo lo2 sS eS); rewrite ei.
Qed.
