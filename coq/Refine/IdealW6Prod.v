(** * IdealW6Prod (C16, sixth wave): the product I * N for N = a (O : I).
      In an order with commutative associative table and unit element e_0, for a lattice N characterised by
        v in N  <->  v I inside a O          ([in_colon], what [Ideal::inv] returns: IdealW6Dual.inv_dual_spec)
      N is an O-module containing a O, I * N lies inside (a) = a O, is an O-module, and
      I * N = (a)  <->  a e_0 is a Z-combination of products y * x, y in I, x in N  (I is invertible).
      Stdlib + lia. *)
From Coq Require Import ZArith List Lia Bool Znumtheory.
From RNT.Model Require Import Base LinAlg MultTable Ideal.
From RNT.Model Require Hnf.
From RNT.Refine Require Import MatZ HnfSpec HnfUnique HnfCanon IdealMul IdealSpec IdealLaws.
From RNT.Refine Require Import IdealW6Dual.
Import ListNotations.
Open Scope Z_scope.

Definition dvd_vec (a : Z) (v : list Z) : Prop := forall j, (a | nth j v 0).

Lemma dvd_vec_vscale a u : dvd_vec a (vscale a u).
Proof. intros j. rewrite nth_vscale. exists (nth j u 0). lia. Qed.

Lemma dvd_vec_scale_r a q v : dvd_vec a v -> dvd_vec a (vscale q v).
Proof. intros H j. rewrite nth_vscale. destruct (H j) as [k ->]. exists (q * k). lia. Qed.

Lemma dvd_vec_quot a v : a <> 0 -> dvd_vec a v -> v = vscale a (map (fun x => x / a) v).
Proof.
  intros Ha H. apply vec_ext with (length v); auto.
  - rewrite vscale_length, map_length. reflexivity.
  - intros i Hi. rewrite nth_vscale. rewrite (nth_map_Z (fun x => x / a)) by (apply Z.div_0_l; auto).
    destruct (H i) as [k ->]. rewrite Z.div_mul by auto. lia.
Qed.

Lemma dvd_vec_cancel a d v : a <> 0 -> dvd_vec (a * d) (vscale a v) -> dvd_vec d v.
Proof.
  intros Ha H j. specialize (H j). rewrite nth_vscale in H. destruct H as [k Hk]. exists k. nia.
Qed.

Lemma nth_lincomb_dvd m a : forall A c, wf m A -> (forall r, In r A -> dvd_vec a r) -> dvd_vec a (lincomb m c A).
Proof.
  induction A as [|r A IH]; intros c WA HA j.
  - rewrite lincomb_nil_r, nth_vzero. apply Z.divide_0_r.
  - destruct c as [|c0 c]; [rewrite lincomb_nil_l, nth_vzero; apply Z.divide_0_r|].
    apply wf_cons in WA. destruct WA as [Hr WA]. rewrite nth_lincomb_cons by auto.
    apply Z.divide_add_r.
    + apply Z.divide_mul_r. apply HA. left; auto.
    + apply IH; auto. intros r' Hr'. apply HA. right; auto.
Qed.

Lemma span_dvd_vec m a A v : wf m A -> (forall r, In r A -> dvd_vec a r) -> In_rowspanZ m v A -> dvd_vec a v.
Proof. intros WA HA [c [_ ->]]. apply nth_lincomb_dvd; auto. Qed.

Lemma scalar_vec_scale n a : scalar_vec n a = vscale a (unit_vec n 0).
Proof.
  unfold scalar_vec, unit_vec, vscale. rewrite map_map. apply map_ext. intros j.
  destruct j as [|j]; cbn [Nat.eqb]; lia.
Qed.

Lemma scalar_vec_length n a : length (scalar_vec n a) = n.
Proof. unfold scalar_vec. rewrite map_length, seq_length. reflexivity. Qed.

Section Colon.
Variable t : table.
Let n := length t.
Hypothesis Ht : tshape t.
Hypothesis Hc : table_comm t = true.
Hypothesis Has : table_assoc t = true.
Hypothesis Hn : (1 <= n)%nat.
Hypothesis Hu : forall y, length y = n -> bil t y (unit_vec n 0) = y.

Variables (HI HN : list (list Z)) (a : Z).
Hypothesis WI : wf n HI.
Hypothesis WN : wf n HN.
Hypothesis Ha : a <> 0.
Hypothesis HNspec : forall v, In_rowspanZ n v HN <-> in_colon t a HI v.

Let L := fun x y => bil_length t x y Ht.

Lemma unit_l y : length y = n -> bil t (unit_vec n 0) y = y.
Proof. intros Hy. rewrite bil_comm; auto. apply unit_vec_length. Qed.

Lemma bil_scalar c : length c = n -> bil t (scalar_vec n a) c = vscale a c.
Proof. intros Hl. rewrite scalar_vec_scale, bil_scale_l by auto. rewrite unit_l; auto. Qed.

(** N is an O-module ... *)
Lemma colon_closed : closed_mult t HN.
Proof.
  intros v c Hv Hl. apply HNspec. apply HNspec in Hv. destruct Hv as [Lv Hv]. split; [apply L|].
  intros w Hw. assert (Lw : length w = n) by (apply (span_length n w HI); auto).
  (* (v c) w = c (v w) *)
  replace (bil t (bil t v c) w) with (bil t c (bil t v w)).
  - specialize (Hv w Hw). fold (dvd_vec a (bil t v w)) in Hv.
    rewrite (dvd_vec_quot a (bil t v w) Ha Hv). rewrite bil_scale_r by auto. apply dvd_vec_vscale.
  - rewrite (bil_comm t v c); auto. symmetry. apply bil_assoc; auto.
Qed.

(** ... containing a O *)
Lemma colon_contains_scalars u : length u = n -> In_rowspanZ n (vscale a u) HN.
Proof.
  intros Lu. apply HNspec. split; [rewrite vscale_length; auto|]. intros w Hw.
  rewrite bil_scale_l by auto. apply dvd_vec_vscale.
Qed.

(** every product of a member of I with a member of N is in a O *)
Lemma prod_dvd y x : In_rowspanZ n y HI -> In_rowspanZ n x HN -> dvd_vec a (bil t y x).
Proof.
  intros Hy Hx. apply HNspec in Hx. destruct Hx as [Lx Hx].
  assert (Ly : length y = n) by (apply (span_length n y HI); auto).
  rewrite bil_comm; auto. intros j. apply Hx; auto.
Qed.

Lemma prod_rows_dvd v : In_rowspanZ n v (prod_rows t HI HN) -> dvd_vec a v.
Proof.
  apply span_dvd_vec; [apply prod_rows_wf; auto|]. intros r Hr.
  apply in_map_iff in Hr. destruct Hr as [[y x] [<- Hyx]]. apply in_prod_iff in Hyx. destruct Hyx as [Hy Hx].
  cbn [fst snd]. apply prod_dvd; apply span_row_in; auto.
Qed.

(** [P] I * N lies inside the principal ideal (a) *)
Theorem product_below v : In_rowspanZ n v (prod_rows t HI HN) ->
  exists c, length c = n /\ v = bil t (scalar_vec n a) c.
Proof.
  intros Hv. pose proof (prod_rows_dvd v Hv) as D.
  assert (Lv : length v = n) by (apply (span_length n v (prod_rows t HI HN)); auto; apply prod_rows_wf; auto).
  exists (map (fun x => x / a) v). split; [rewrite map_length; auto|].
  rewrite bil_scalar by (rewrite map_length; auto). apply dvd_vec_quot; auto.
Qed.

(** I * N is an O-module *)
Lemma product_closed : closed_mult t (prod_rows t HI HN).
Proof.
  apply closed_gen; auto; [apply prod_rows_wf; auto|]. intros r c Hr Hl.
  apply in_map_iff in Hr. destruct Hr as [[y x] [<- Hyx]]. apply in_prod_iff in Hyx. destruct Hyx as [Hy Hx].
  cbn [fst snd]. pose proof WI as WI'. pose proof WN as WN'. unfold wf in WI', WN'. rewrite Forall_forall in WI', WN'.
  rewrite bil_assoc; auto; try (apply WI'; auto); try (apply WN'; auto).
  apply prod_rows_member; auto; [apply span_row_in; auto|].
  apply colon_closed; auto. apply span_row_in; auto.
Qed.

(** [P] I * N = (a)  <->  a e_0 is in I * N *)
Theorem product_principal_iff :
  (forall v, In_rowspanZ n v (prod_rows t HI HN) <-> exists c, length c = n /\ v = bil t (scalar_vec n a) c) <->
  In_rowspanZ n (scalar_vec n a) (prod_rows t HI HN).
Proof.
  split.
  - intros H. apply H. exists (unit_vec n 0). split; [apply unit_vec_length|].
    rewrite Hu; auto. apply scalar_vec_length.
  - intros H v. split; [apply product_below|]. intros [c [Lc ->]]. apply product_closed; auto.
Qed.
End Colon.

(** ** the entry points *)
Section Entry.
Variables (m : mode) (I : ideal) (D : frac_ideal) (a : Z) (N : ideal).
Let t := i_table I.
Let n := length t.
Hypothesis Ht : tshape t.
Hypothesis Hc : table_comm t = true.
Hypothesis Has : table_assoc t = true.
Hypothesis Hn : (1 <= n)%nat.
Hypothesis Hu : forall y, length y = n -> bil t y (unit_vec n 0) = y.
Hypothesis WI : wf n (i_hnf I).
Hypothesis II : is_hnf (i_hnf I) = true.
Hypothesis LI : length (i_hnf I) = n.
Hypothesis ED : get_inv_diff t = Done D.
Hypothesis EN : ideal_inv m I D = Done (a, N).

Lemma entry_facts :
  i_table N = t /\ wf n (i_hnf N) /\ is_hnf (i_hnf N) = true /\ cap_z I = Done a /\ 0 < a /\
  forall v, In_rowspanZ n v (i_hnf N) <-> in_colon t a (i_hnf I) v.
Proof.
  destruct (@IdealW6Dual.inv_dual_spec m I D a N Ht Hc Has Hn WI II LI ED EN) as [A B C [D1 D2] E].
  split; [exact A|]. split; [exact B|]. split; [exact C|]. split; [exact D1|]. split; [exact D2|]. exact E.
Qed.

(** [P] inv_product_below: I * N is inside (a), always *)
Theorem inv_product_below v : In_rowspanZ n v (prod_rows t (i_hnf I) (i_hnf N)) ->
  exists c, length c = n /\ v = bil t (scalar_vec n a) c.
Proof.
  destruct entry_facts as (TN & WN & IN & CZ & Ap & Sp).
  apply (product_below t Ht Hc Hu (i_hnf I) (i_hnf N) a WI); auto. lia.
Qed.

(** [P] inv_spec_iff_invertible: I * N = (a) exactly when a e_0 is a Z-combination of products y * x with y in I and
    x in N = a (O : I), i.e. when I (O : I) = O *)
Theorem inv_spec_iff_invertible :
  (forall v, In_rowspanZ n v (prod_rows t (i_hnf I) (i_hnf N)) <-> exists c, length c = n /\ v = bil t (scalar_vec n a) c) <->
  In_rowspanZ n (scalar_vec n a) (prod_rows t (i_hnf I) (i_hnf N)).
Proof.
  destruct entry_facts as (TN & WN & IN & CZ & Ap & Sp).
  apply (product_principal_iff t Ht Hc Has Hu (i_hnf I) (i_hnf N) a WI WN); auto. lia.
Qed.

(** [P] the flag of [inv_spec_partial] is computed (no panic) and is true exactly in that case *)
Theorem inv_flag_iff :
  (exists b, inv_flag m I (a, N) = Done b) /\
  (inv_flag m I (a, N) = Done true <-> In_rowspanZ n (scalar_vec n a) (prod_rows t (i_hnf I) (i_hnf N))).
Proof.
  destruct entry_facts as (TN & WN & IN & CZ & Ap & Sp).
  unfold inv_flag, frac_numer, frac_denom, ideal_deg, mt_deg. cbn [fst snd]. fold t n.
  destruct (mul_total m I N Ht WI WN Hn TN) as [P EP]. rewrite EP. cbn [bind].
  destruct (mul_spec m I N P Ht WI WN Hn EP) as (TP & IP & WP & SP).
  pose proof (scalar_vec_length n a) as Ls.
  destruct (principal_total m t (scalar_vec n a) Ht Ls Hn) as [Q EQ]. rewrite EQ. cbn [bind].
  destruct (principal_spec m t (scalar_vec n a) Q Ht Ls Hn EQ) as (TQ & IQ & WQ & SQ).
  split; [eexists; reflexivity|].
  rewrite <- (inv_spec_iff_invertible). split.
  - intros E. injection E as E. unfold ideal_eqb in E. apply andb_true_iff in E. destruct E as [E _].
    apply hnf_eqb_eq in E. intros v. split; intros Hv.
    + apply SQ. rewrite <- E. apply SP. exact Hv.
    + apply SP. rewrite E. apply SQ. exact Hv.
  - intros H. f_equal. unfold ideal_eqb. apply andb_true_iff. split.
    + replace (i_hnf P) with (i_hnf Q); [apply hnf_eqb_refl|].
      apply (hnf_unique n); auto. intros v. split; intros Hv.
      * apply SP. apply H. apply SQ. exact Hv.
      * apply SQ. apply H. apply SP. exact Hv.
    + rewrite TP, TQ. apply table_eqb_refl.
Qed.
End Entry.
