(** * OrderCanon: [Order::from_basis] is canonical (C15): bases of the same Z-module give the
    same stored basis; [hnf_reduce] is idempotent on its outputs.  On top of the HNF canonicity
    theorem (C02).  Style: stdlib + lia, in the vocabulary of MatZ.v ([lincomb], [mmul]). *)
From RNT.Model Require Import Base Poly Algebraic LinAlg MultTable Order.
From RNT.Model Require Hnf.
From RNT.Refine Require Import LinAlgList OrderIndex OrderLint MatZ HnfOps HnfMain HnfTotal HnfCanon.
From Coq Require Import Lia List QArith Qcanon.
Import ListNotations.
Open Scope Z_scope.

(** ** integer combinations of rational row vectors *)
Definition qvzero (m : nat) : list Qc := repeat q0 m.
Definition qvadd (v w : list Qc) : list Qc := map2 Qcplus v w.
Definition qvscale (c : Z) (v : list Qc) : list Qc := map (Qcmult (qz c)) v.

Fixpoint qlincomb (m : nat) (c : list Z) (A : qmat) : list Qc :=
  match c, A with
  | c0 :: c', r :: A' => qvadd (qvscale c0 r) (qlincomb m c' A')
  | _, _ => qvzero m
  end.

(** [U * A] for an integer matrix [U] and a rational matrix [A] *)
Definition qmmul (m : nat) (U : mat) (A : qmat) : qmat := map (fun u => qlincomb m u A) U.

Definition qwf (m : nat) (A : qmat) : Prop := Forall (fun r => length r = m) A.
Definition qshape (n m : nat) (A : qmat) : Prop := length A = n /\ qwf m A.

(** scaling a whole matrix to integers *)
Definition toZm (l : Z) (A : qmat) : mat := map (map (scale_to_int l)) A.
Definition toQm (l : Z) (H : mat) : qmat := map (map (fun z => ratio_new z l)) H.

Lemma qlincomb_length m c A : qwf m A -> length (qlincomb m c A) = m.
Proof.
  revert A; induction c as [|c0 c IH]; intros [|r A] H; cbn; try apply repeat_length.
  inversion H; subst. unfold qvadd, qvscale. rewrite map2_length; rewrite map_length; auto.
  rewrite IH; auto.
Qed.

Lemma qmmul_shape n m U A : length U = n -> qwf m A -> qshape n m (qmmul m U A).
Proof.
  intros HU HA. split; [unfold qmmul; now rewrite map_length|].
  unfold qwf, qmmul. apply Forall_forall. intros r Hr. apply in_map_iff in Hr.
  destruct Hr as [u [<- _]]. now apply qlincomb_length.
Qed.

Lemma toZm_shape l n m A : qshape n m A -> shape n m (toZm l A).
Proof.
  intros [HL HW]. split; [unfold toZm; now rewrite map_length|].
  unfold wf, toZm. apply Forall_forall. intros r Hr. apply in_map_iff in Hr.
  destruct Hr as [q [<- Hq]]. rewrite map_length.
  unfold qwf in HW. rewrite Forall_forall in HW. auto.
Qed.

Lemma map2_lint l v w : Forall (lint l) v -> Forall (lint l) w ->
  map (scale_to_int l) (map2 Qcplus v w) = map2 Z.add (map (scale_to_int l) v) (map (scale_to_int l) w)
  /\ Forall (lint l) (map2 Qcplus v w).
Proof.
  intros Hv; revert w; induction Hv as [|x v Hx Hv IH]; intros w Hw; cbn; [split; constructor|].
  destruct Hw as [|y w Hy Hw]; cbn; [split; constructor|].
  destruct (IH w Hw) as [E F]. split; [now rewrite scale_add, E|constructor; auto using lint_add].
Qed.

Lemma qvscale_lint l c v : Forall (lint l) v ->
  map (scale_to_int l) (qvscale c v) = vscale c (map (scale_to_int l) v) /\ Forall (lint l) (qvscale c v).
Proof.
  unfold qvscale, vscale. induction 1 as [|x v Hx Hv [E F]]; cbn [map]; [split; constructor|].
  split; [now rewrite scale_mulz, E|constructor; auto using lint_mulz].
Qed.

Lemma qvzero_lint l m : map (scale_to_int l) (qvzero m) = vzero m /\ Forall (lint l) (qvzero m).
Proof.
  unfold qvzero, vzero. induction m as [|m [E F]]; cbn [repeat map]; [split; constructor|].
  split; [now rewrite scale_0, E|constructor; auto using lint_0].
Qed.

(** scaling commutes with integer combinations *)
Lemma toZ_qlincomb l m c A : all_lint l A ->
  map (scale_to_int l) (qlincomb m c A) = lincomb m c (toZm l A) /\ Forall (lint l) (qlincomb m c A).
Proof.
  intros HA; revert c; induction HA as [|r A Hr HA IH]; intros [|c0 c]; cbn; try apply qvzero_lint.
  destruct (IH c) as [E F]. destruct (qvscale_lint l c0 r Hr) as [E1 F1].
  destruct (map2_lint l _ _ F1 F) as [E2 F2].
  unfold qvadd. split; [|exact F2]. rewrite E2, E1, E. reflexivity.
Qed.

Lemma toZm_qmmul l m U A : all_lint l A -> toZm l (qmmul m U A) = mmul m U (toZm l A).
Proof.
  intros HA. unfold toZm at 1, qmmul, mmul. rewrite map_map. apply map_ext. intros u.
  now apply toZ_qlincomb.
Qed.

Lemma qmmul_lint l m U A : all_lint l A -> all_lint l (qmmul m U A).
Proof.
  intros HA. unfold all_lint, qmmul. apply Forall_forall. intros r Hr. apply in_map_iff in Hr.
  destruct Hr as [u [<- _]]. now apply toZ_qlincomb.
Qed.

(** ** the scaling loops of [hnf_reduce] *)
Lemma mapM_seq {B} (F : nat -> outcome B) (G : nat -> B) n :
  (forall i, (i < n)%nat -> F i = Done (G i)) -> mapM F (seq 0 n) = Done (map G (seq 0 n)).
Proof.
  intros H. assert (K : forall s, (forall i, In i s -> (i < n)%nat) -> mapM F s = Done (map G s)).
  { induction s as [|i s IH]; intros Hs; cbn; [reflexivity|].
    rewrite H by (apply Hs; now left). cbn. rewrite IH by (intros; apply Hs; now right). reflexivity. }
  apply K. intros i Hi. apply in_seq in Hi. lia.
Qed.

Lemma map_nth_seq {A B} (g : A -> B) (l : list A) d :
  map (fun i => g (nth i l d)) (seq 0 (length l)) = map g l.
Proof.
  apply nth_ext with (d := g d) (d' := g d).
  - now rewrite !map_length, seq_length.
  - intros i Hi. rewrite map_length, seq_length in Hi.
    rewrite (nth_indep _ (g d) ((fun i => g (nth i l d)) 0%nat)) by (now rewrite map_length, seq_length).
    rewrite (map_nth (fun i => g (nth i l d)) (seq 0 (length l)) 0%nat i), seq_nth by assumption.
    cbn. symmetry. apply (map_nth g l d i).
Qed.

Lemma int_matrix_closed l n b : qshape n n b -> int_matrix n n l b = Done (toZm l b).
Proof.
  intros [HL HW]. unfold int_matrix.
  rewrite (mapM_seq _ (fun i => map (scale_to_int l) (nth i b []))).
  - f_equal. rewrite <- HL. apply (map_nth_seq (map (scale_to_int l)) b []).
  - intros i Hi.
    assert (Hr : length (nth i b []) = n).
    { unfold qwf in HW. rewrite Forall_forall in HW. apply HW, nth_In. lia. }
    rewrite (mapM_seq _ (fun j => scale_to_int l (nth j (nth i b []) q0))).
    + f_equal. rewrite <- Hr at 1. apply (map_nth_seq (scale_to_int l) (nth i b []) q0).
    + intros j Hj. rewrite (nth_chk_lt b i []) by lia. cbn [bind].
      rewrite (nth_chk_lt _ j q0) by lia. reflexivity.
Qed.

Lemma rat_matrix_closed l n h : shape n n h -> rat_matrix n n l h = Done (toQm l h).
Proof.
  intros [HL HW]. unfold rat_matrix.
  rewrite (mapM_seq _ (fun i => map (fun z => ratio_new z l) (nth i h []))).
  - f_equal. rewrite <- HL. apply (map_nth_seq (map (fun z => ratio_new z l)) h []).
  - intros i Hi.
    assert (Hr : length (nth i h []) = n).
    { unfold wf in HW. rewrite Forall_forall in HW. apply HW, nth_In. lia. }
    rewrite (mapM_seq _ (fun j => ratio_new (nth j (nth i h []) 0) l)).
    + f_equal. rewrite <- Hr at 1. apply (map_nth_seq (fun z => ratio_new z l) (nth i h []) 0).
    + intros j Hj. rewrite (nth_chk_lt h i []) by lia. cbn [bind].
      rewrite (nth_chk_lt _ j 0) by lia. reflexivity.
Qed.

(** [hnf_reduce] on an n x n basis, n >= 1 *)
Lemma hnf_reduce_unfold n b : qshape n n b ->
  hnf_reduce b = (do h <- Hnf.hnf_new (toZm (lcm_den 1 b) b); rat_matrix n n (lcm_den 1 b) h).
Proof.
  intros HS. unfold hnf_reduce. destruct HS as [HL HW]. rewrite HL.
  now rewrite int_matrix_closed by (split; assumption).
Qed.

(** ** canonicity *)

(** integer combinations do not enlarge the set of common multipliers *)
Lemma all_lint_qmmul_iff n U V b1 b2 : b2 = qmmul n U b1 -> b1 = qmmul n V b2 ->
  forall d, all_lint d b1 <-> all_lint d b2.
Proof. intros E2 E1 d. split; intros H; [rewrite E2|rewrite E1]; now apply qmmul_lint. Qed.

(** [P] order_canonical: if each of two n x n rational bases is an integer combination of the other
    (B2 = U B1, B1 = V B2 with integer U, V: they generate the same Z-module), [from_basis] gives the
    same outcome -- in particular equal stored bases *)
Theorem order_canonical n U V b1 b2 : (1 <= n)%nat ->
  qshape n n b1 -> shape n n U -> shape n n V ->
  b2 = qmmul n U b1 -> b1 = qmmul n V b2 -> from_basis b1 = from_basis b2.
Proof.
  intros Hn HS1 [HUn HUw] [HVn HVw] E2 E1.
  assert (HS2 : qshape n n b2) by (rewrite E2; apply qmmul_shape; [assumption|apply HS1]).
  unfold from_basis. rewrite (hnf_reduce_unfold n b1 HS1), (hnf_reduce_unfold n b2 HS2).
  assert (EL : lcm_den 1 b1 = lcm_den 1 b2) by (apply lcm_den_eq; now apply (all_lint_qmmul_iff n U V)).
  rewrite <- EL. set (l := lcm_den 1 b1).
  assert (L1 : all_lint l b1) by apply lcm_den_lint.
  assert (L2 : all_lint l b2) by (unfold l; rewrite EL; apply lcm_den_lint).
  assert (T1 := toZm_shape l n n b1 HS1). assert (T2 := toZm_shape l n n b2 HS2).
  assert (EH : Hnf.hnf_new (toZm l b1) = Hnf.hnf_new (toZm l b2)).
  { apply (hnf_canonical_eq _ _ n n n T1 T2 Hn Hn Hn). intros v. split.
    - apply (rowspan_sub n n V (toZm l b2) (toZm l b1)); try assumption; [apply T2|apply T2|].
      rewrite E1 at 1. now apply toZm_qmmul.
    - apply (rowspan_sub n n U (toZm l b1) (toZm l b2)); try assumption; [apply T1|apply T1|].
      rewrite E2 at 1. now apply toZm_qmmul. }
  now rewrite EH.
Qed.

(** ** idempotence *)
Lemma toQm_toZm l A : l <> 0 -> all_lint l A -> toQm l (toZm l A) = A.
Proof.
  intros Hl HA. unfold toQm, toZm. rewrite map_map.
  rewrite <- (map_id A) at 2. apply map_ext_Forall. eapply Forall_impl; [|exact HA].
  intros r Hr. rewrite map_map. rewrite <- (map_id r) at 2. apply map_ext_Forall.
  eapply Forall_impl; [|exact Hr]. intros x Hx. now apply ratio_scale.
Qed.

Lemma toZm_toQm l h : l <> 0 -> toZm l (toQm l h) = h /\ all_lint l (toQm l h).
Proof.
  intros Hl. unfold toQm, toZm, all_lint. split.
  - rewrite map_map. rewrite <- (map_id h) at 2. apply map_ext. intros r.
    rewrite map_map. rewrite <- (map_id r) at 2. apply map_ext. intros z. now apply scale_ratio.
  - apply Forall_forall. intros r Hr. apply in_map_iff in Hr. destruct Hr as [r' [<- _]].
    apply Forall_forall. intros x Hx. apply in_map_iff in Hx. destruct Hx as [z [<- _]].
    now apply scale_ratio.
Qed.

(** a normal return of [hnf_reduce]: the HNF of the scaled basis has full rank and the stored
    basis is that HNF divided by the lcm *)
Lemma hnf_reduce_inv n b r : (1 <= n)%nat -> qshape n n b -> hnf_reduce b = Done r ->
  let l := lcm_den 1 b in
  exists h, Hnf.hnf_new (toZm l b) = Done h /\ shape n n h /\ r = toQm l h.
Proof.
  intros Hn HS H l. rewrite (hnf_reduce_unfold n b HS) in H. fold l in H.
  bind_inv H as h Eh. exists h. split; [reflexivity|].
  assert (T := toZm_shape l n n b HS).
  destruct (hnf_new_Done _ _ Eh) as (U & k & EU).
  destruct (hnf_with_u_correct _ n n h U k T Hn Hn EU) as (_ & _ & _ & _ & Hcnt).
  destruct (HnfMain.hnf_shape _ n n h U k T Hn Hn EU) as [_ Hw].
  assert (HL : length h = n).
  { pose proof H as H'. unfold rat_matrix in H'. apply mapM_inv in H'. destruct H' as [_ N].
    rewrite seq_length in N. specialize (N (n - 1)%nat O [] ltac:(lia)).
    rewrite seq_nth in N by lia. cbn [plus] in N.
    apply mapM_inv in N. destruct N as [_ N]. rewrite seq_length in N.
    specialize (N O O q0 ltac:(lia)). rewrite seq_nth in N by lia. cbn [plus] in N.
    bind_inv N. apply nth_chk_inv in E. lia. }
  assert (HSh : shape n n h) by (split; assumption).
  split; [exact HSh|]. rewrite (rat_matrix_closed l n h HSh) in H. now injection H.
Qed.

(** the stored basis and the given basis are integer combinations of each other *)
Lemma hnf_reduce_equiv n b r : (1 <= n)%nat -> qshape n n b -> hnf_reduce b = Done r ->
  exists U V, shape n n U /\ shape n n V /\ r = qmmul n U b /\ b = qmmul n V r.
Proof.
  intros Hn HS H.
  apply (hnf_reduce_inv n b r Hn HS) in H. destruct H as (h & Eh & HSh & ->).
  set (l := lcm_den 1 b) in *.
  assert (Hl : l <> 0) by (pose proof (lcm_den_pos b 1); unfold l; lia).
  assert (L1 : all_lint l b) by apply lcm_den_lint.
  assert (T := toZm_shape l n n b HS).
  destruct (hnf_new_Done _ _ Eh) as (U & k & EU).
  destruct (hnf_with_u_correct _ n n h U k T Hn Hn EU) as (_ & HU & (V & HV & HVU & HUV) & Hmul & Hcnt).
  assert (Hk : k = O) by (destruct HSh; lia). subst k. cbn [repeat app] in Hmul.
  destruct (toZm_toQm l h Hl) as [EZ LQ].
  exists U, V. split; [exact HU|]. split; [exact HV|]. split.
  - rewrite <- Hmul, <- (toZm_qmmul l n U b L1). apply toQm_toZm; [assumption|].
    now apply qmmul_lint.
  - rewrite <- (toQm_toZm l b Hl L1) at 1.
    rewrite <- (toQm_toZm l (qmmul n V (toQm l h)) Hl) by (now apply qmmul_lint).
    f_equal. rewrite (toZm_qmmul l n V _ LQ), EZ, <- Hmul.
    rewrite <- (mmul_assoc n n V U (toZm l b)) by (apply HU || apply T).
    rewrite HVU. symmetry. apply mmul_identity_l. exact T.
Qed.

(** [P] [hnf_reduce] is idempotent on its outputs *)
Theorem hnf_reduce_idem n b r : (1 <= n)%nat -> qshape n n b ->
  hnf_reduce b = Done r -> hnf_reduce r = Done r.
Proof.
  intros Hn HS H.
  destruct (hnf_reduce_equiv n b r Hn HS H) as (U & V & HU & HV & E2 & E1).
  pose proof (order_canonical n U V b r Hn HS HU HV E2 E1) as C.
  unfold from_basis in C. now rewrite <- C.
Qed.
