(** C20: the maintained Gram-Schmidt data are the ones the textbook formulas ([Lll.gram_schmidt]) compute.

    If [gs_rel] holds for all rows (kmax = n - 1) and the |b*_i|^2 are not zero, then [gram_schmidt] of the
    current basis is the table of the maintained (b*_i, [mu_i0 .. mu_i,i-1]); hence the boolean
    [is_lll_reduced] is decided by the maintained [mu] and [b].   (stdlib; lia, ring/field on Qc.) *)
From RNT.Model Require Import Base Lll.
From RNT.Refine Require Import LllMat LllGS LllSqrt LllExitStep2 LllExitIndep LllExitLoop.
From Coq Require Import Lia QArith Qcanon.
Open Scope Z_scope.

Local Notation F := arithQ.
Local Notation "x +q y" := (Qcplus x y) (at level 50, left associativity).
Local Notation "x *q y" := (Qcmult x y) (at level 40, left associativity).
Local Notation "x -q y" := (Qcminus x y) (at level 50, left associativity).
Local Notation q0 := (Q2Qc 0).
Local Notation q1 := (Q2Qc 1).

(** ** [qdot], [qaxpy] entry by entry *)
Lemma qdot_qsum : forall (a b : list Qc) m, length a = m -> length b = m ->
  qdot a b = qsum m (fun p => nth p a q0 *q nth p b q0).
Proof.
  induction a as [|x a IH]; intros [|y b] m La Lb; cbn [length] in *; subst m; try discriminate.
  - reflexivity.
  - unfold qdot in *. cbn [combine fold_right fst snd]. rewrite (IH b (length a)) by (try reflexivity; lia).
    rewrite qsum_shift. cbn [nth]. ring.
Qed.

Lemma qaxpy_length c : forall (a b : list Qc) m, length a = m -> length b = m -> length (qaxpy c a b) = m.
Proof.
  intros a b m La Lb. unfold qaxpy. rewrite map_length, combine_length. lia.
Qed.

Lemma qaxpy_nth c : forall (a b : list Qc) p, length a = length b ->
  nth p (qaxpy c a b) q0 = nth p b q0 -q c *q nth p a q0.
Proof.
  induction a as [|x a IH]; intros [|y b] p L; cbn [length] in L; try discriminate.
  - cbn. destruct p; ring.
  - unfold qaxpy in *. cbn [combine map fst snd]. destruct p as [|p]; [reflexivity|].
    cbn [nth]. apply IH. lia.
Qed.

Section Table.
Variable n : nat.
Variable T : nat -> list Qc.      (* the orthogonal vectors *)
Variable bi : list Qc.

Let mu (j : nat) : Qc := Qcdiv (qdot bi (T j)) (qdot (T j) (T j)).

Lemma gs_row_gen : forall len j0 acc,
  length acc = n -> (forall j, (j0 <= j < j0 + len)%nat -> length (T j) = n) ->
  snd (gs_row (map T (seq j0 len)) bi acc) = map mu (seq j0 len) /\
  length (fst (gs_row (map T (seq j0 len)) bi acc)) = n /\
  forall p, nth p (fst (gs_row (map T (seq j0 len)) bi acc)) q0
            = nth p acc q0 -q qsum len (fun d => mu (j0 + d) *q nth p (T (j0 + d)) q0).
Proof.
  induction len as [|len IH]; intros j0 acc La LT.
  - cbn [seq map gs_row fst snd qsum]. split; [reflexivity|]. split; [exact La|]. intros p. ring.
  - cbn [seq map gs_row]. fold (mu j0).
    assert (Lq : length (qaxpy (mu j0) (T j0) acc) = n) by (apply qaxpy_length; [apply LT; lia|exact La]).
    destruct (IH (S j0) (qaxpy (mu j0) (T j0) acc) Lq ltac:(intros; apply LT; lia)) as (E1 & E2 & E3).
    destruct (gs_row (map T (seq (S j0) len)) bi (qaxpy (mu j0) (T j0) acc)) as [r mus].
    cbn [fst snd] in *. split; [rewrite E1; reflexivity|]. split; [exact E2|].
    intros p. rewrite E3. rewrite qaxpy_nth by (rewrite La; apply LT; lia).
    rewrite qsum_shift. replace (j0 + 0)%nat with j0 by lia.
    rewrite (qsum_ext len (fun d => mu (j0 + S d) *q nth p (T (j0 + S d)) q0)
                          (fun d => mu (S j0 + d) *q nth p (T (S j0 + d)) q0)).
    + ring.
    + intros d _. replace (j0 + S d)%nat with (S j0 + d)%nat by lia. reflexivity.
Qed.
End Table.

Section Link.
Variable n : nat.
Variable s : lstate (T:=Qc).
Hypothesis W : wfstate n s.
Hypothesis G : gs_rel n s.
Hypothesis Emax : S (l_kmax s) = n.
Hypothesis NZ : forall i, (i < n)%nat -> Nb s i <> q0.

Let T (i : nat) : list Qc := nth i (l_bstar s) [].
Let Brow (i : nat) : list Qc := nth i (l_basis s) [].

Lemma T_len i : (i < n)%nat -> length (T i) = n.
Proof. intros H. apply (square_row n); [apply W|exact H]. Qed.
Lemma Brow_len i : (i < n)%nat -> length (Brow i) = n.
Proof. intros H. apply (square_row n); [apply W|exact H]. Qed.

(** sum_p (sum_{b<m} a_b b*_b[p]) b*_j[p] = a_j B_j *)
Lemma qsum_orth (a : nat -> Qc) j : (j < n)%nat -> forall m, (m <= n)%nat ->
  qsum n (fun p => qsum m (fun b => a b *q (Sv s b p *q Sv s j p)))
  = if Nat.ltb j m then a j *q Nb s j else q0.
Proof.
  intros Hj. induction m as [|m IH]; intros Hm.
  - cbn [qsum]. rewrite qsum_zero by reflexivity. reflexivity.
  - cbn [qsum]. rewrite qsum_add, IH by lia. rewrite qsum_scale.
    destruct (Nat.eq_dec m j) as [->|Hne].
    + destruct (Nat.ltb_spec j j); [lia|]. destruct (Nat.ltb_spec j (S j)); [|lia].
      rewrite <- (gs3 n s G j) by lia. ring.
    + rewrite (gs2 n s G m j) by lia.
      destruct (Nat.ltb_spec j m); destruct (Nat.ltb_spec j (S m)); try lia; ring.
Qed.

(** <b_i, b*_j> = mu_ij B_j for j < i *)
Lemma dot_b_bstar i j : (j < i)%nat -> (i < n)%nat ->
  qsum n (fun p => Bv s i p *q Sv s j p) = Mu s i j *q Nb s j.
Proof.
  intros Hj Hi.
  rewrite (qsum_ext n _ (fun p => Sv s i p *q Sv s j p +q qsum i (fun b => Mu s i b *q (Sv s b p *q Sv s j p)))).
  - rewrite qsum_add. rewrite (gs2 n s G i j) by lia. rewrite (qsum_orth (Mu s i) j) by lia.
    destruct (Nat.ltb_spec j i); [ring|lia].
  - intros p Hp. rewrite (gs1 n s G i p) by lia.
    rewrite (qsum_ext i (fun b => Mu s i b *q (Sv s b p *q Sv s j p)) (fun b => Sv s j p *q (Mu s i b *q Sv s b p)))
      by (intros; ring).
    rewrite qsum_scale. ring.
Qed.

Lemma gs_row_true i : (i < n)%nat ->
  gs_row (map T (seq 0 i)) (Brow i) (Brow i) = (T i, map (Mu s i) (seq 0 i)).
Proof.
  intros Hi.
  destruct (gs_row_gen n T (Brow i) i 0%nat (Brow i) (Brow_len i Hi) ltac:(intros; apply T_len; lia)) as (E1 & E2 & E3).
  destruct (gs_row (map T (seq 0 i)) (Brow i) (Brow i)) as [r mus]. cbn [fst snd] in *.
  assert (Emu : forall j, (j < i)%nat -> Qcdiv (qdot (Brow i) (T j)) (qdot (T j) (T j)) = Mu s i j).
  { intros j Hj.
    rewrite (qdot_qsum _ _ n (Brow_len i Hi) (T_len j ltac:(lia))).
    rewrite (qdot_qsum _ _ n (T_len j ltac:(lia)) (T_len j ltac:(lia))).
    change (qsum n (fun p => nth p (Brow i) q0 *q nth p (T j) q0)) with (qsum n (fun p => Bv s i p *q Sv s j p)).
    change (qsum n (fun p => nth p (T j) q0 *q nth p (T j) q0)) with (qsum n (fun p => Sv s j p *q Sv s j p)).
    rewrite dot_b_bstar by assumption. rewrite <- (gs3 n s G j) by lia.
    field. apply NZ. lia. }
  f_equal.
  - apply (nth_ext _ _ q0 q0); [rewrite E2; symmetry; apply T_len; exact Hi|].
    intros p _. rewrite E3.
    change (nth p (Brow i) q0) with (Bv s i p). change (nth p (T i) q0) with (Sv s i p).
    rewrite (qsum_ext i _ (fun j => Mu s i j *q Sv s j p)).
    + rewrite (gs1 n s G i p) by lia. ring.
    + intros j Hj. cbn [Nat.add]. rewrite Emu by exact Hj. reflexivity.
  - rewrite E1. apply map_ext_in. intros j Hj. apply in_seq in Hj. apply Emu. lia.
Qed.

Definition gs_table_of : list (list Qc * list Qc) :=
  map (fun i => (T i, map (Mu s i) (seq 0 i))) (seq 0 n).

Lemma gs_from_true : forall len m, (m + len = n)%nat ->
  gs_from (map T (seq 0 m)) (map Brow (seq m len))
  = map (fun i => (T i, map (Mu s i) (seq 0 i))) (seq m len).
Proof.
  induction len as [|len IH]; intros m Hm; [reflexivity|].
  cbn [seq map gs_from]. rewrite gs_row_true by lia. f_equal.
  rewrite <- (IH (S m)) by lia. f_equal.
  rewrite seq_S, map_app. reflexivity.
Qed.

Theorem gram_schmidt_table : gram_schmidt (l_basis s) = gs_table_of.
Proof.
  unfold gram_schmidt, gs_table_of.
  rewrite (list_as_map [] (l_basis s)) at 1. rewrite (proj1 (proj1 W)).
  exact (gs_from_true n 0%nat eq_refl).
Qed.
End Link.

(** ** the boolean test on a table given by functions *)
Lemma lovasz_ok_map (f : nat -> list Qc * list Qc) delta eps : forall len i,
  (forall i', (i <= i')%nat -> (S i' < i + len)%nat ->
     Qc_leb ((delta -q eps -q last (snd (f (S i'))) q0 *q last (snd (f (S i'))) q0) *q qdot (fst (f i')) (fst (f i')))
            (qdot (fst (f (S i'))) (fst (f (S i')))) = true) ->
  lovasz_ok delta eps (map f (seq i len)) = true.
Proof.
  induction len as [|len IH]; intros i H; [reflexivity|].
  destruct len as [|len].
  - cbn [seq map lovasz_ok]. destruct (f i). reflexivity.
  - specialize (IH (S i)). cbn [seq map] in *.
    pose proof (H i (le_n i) ltac:(lia)) as H0.
    destruct (f i) as [bs0 m0]. destruct (f (S i)) as [bs1 mus1] eqn:E1.
    cbn [lovasz_ok]. cbn [fst snd] in H0. rewrite H0. cbn [andb].
    apply IH. intros i' Hi1 Hi2. apply H; lia.
Qed.

Lemma Qc_leb_true a b : Qcle a b -> Qc_leb a b = true.
Proof. intros H. unfold Qc_leb. apply Qle_bool_iff. exact H. Qed.

Lemma Qc_leb_pos_false a : Qclt q0 a -> Qc_leb a q0 = false.
Proof.
  intros H. unfold Qc_leb. destruct (Qle_bool a q0) eqn:E; [|reflexivity].
  apply Qle_bool_iff in E. exfalso. exact (Qclt_not_le _ _ H E).
Qed.

Section Reduced.
Variable n : nat.
Variable s : lstate (T:=Qc).
Hypothesis L : linv n s.
Hypothesis Emax : S (l_kmax s) = n.
Hypothesis PR : prefix_red s n.

Theorem linv_is_lll_reduced : is_lll_reduced (l_basis s) = true.
Proof.
  destruct L as [W G P I].
  assert (NZ : forall i, (i < n)%nat -> Nb s i <> q0) by (intros i Hi; apply qc_pos_nz; apply P; lia).
  unfold is_lll_reduced, is_lll_reduced_eps.
  rewrite (gram_schmidt_table n s W G Emax NZ). unfold gs_table_of.
  assert (Dot : forall i, (i < n)%nat -> qdot (nth i (l_bstar s) []) (nth i (l_bstar s) []) = Nb s i).
  { intros i Hi. rewrite (qdot_qsum _ _ n) by (apply (square_row n); [apply W|exact Hi]).
    symmetry. apply (gs3 n s G). lia. }
  apply andb_true_intro. split; [apply andb_true_intro; split|].
  - unfold nondegenerate. apply forallb_forall. intros x Hx.
    apply in_map_iff in Hx. destruct Hx as (i & <- & Hi). apply in_seq in Hi. cbn [fst].
    rewrite Dot by lia. rewrite Qc_leb_pos_false; [reflexivity|]. apply P. lia.
  - unfold size_ok. apply forallb_forall. intros x Hx.
    apply in_map_iff in Hx. destruct Hx as (i & <- & Hi). apply in_seq in Hi. cbn [snd].
    apply forallb_forall. intros m Hm.
    apply in_map_iff in Hm. destruct Hm as (j & <- & Hj). apply in_seq in Hj.
    apply Qc_leb_true. replace (Qc_half +q q0) with Qc_half by ring.
    apply (proj1 (PR i ltac:(lia))). lia.
  - apply lovasz_ok_map. intros i _ Hi. cbn [fst snd].
    rewrite !Dot by lia.
    rewrite seq_S, map_app. cbn [map Nat.add]. rewrite last_last.
    apply Qc_leb_true.
    pose proof (proj2 (PR (S i) ltac:(lia)) ltac:(lia)) as LV. unfold lov in LV.
    replace (S i - 1)%nat with i in LV by lia.
    replace (Qc_34 -q q0 -q Mu s (S i) i *q Mu s (S i) i) with (Qc_34 -q Mu s (S i) i *q Mu s (S i) i) by ring.
    exact LV.
Qed.
End Reduced.
