(** * C08 (second wave): the square-free decomposition stage [squarefree] multiplies back to
    its input, and does not look at [pusize] when p > deg f (ssreflect).

    The list-level operations are read in [{poly 'F_n}] (n = p as a natural number) through
    [RP l = redp n (PZ l)]. Invariants of the inner loop (t, v, k, result, e):
      - [FProd result * (t * v^(k+1))^e] is associated to the input,
      - [t] divides [t' * v] (t' the derivative) -- this is what makes [t' = 0] when [v] has
        become constant, so that [t(x) = s(x^p) = s(x)^p] by Frobenius. *)
From Coq Require Import ZArith List Lia Znumtheory.
From mathcomp Require Import all_ssreflect ssralg poly polydiv ssrint zmodp.
From RNT.Model Require Import Base Poly PolyModP FactorModP.
From RNT.Refine Require Import PolyModPArith PolyModPDivList FermatZ PolyZmod PolyModPDiv MonicZ PolyModPGcd FpPoly FactorNorm FmpField.
From mathcomp Require Import ssrZ zify ring.
Set Implicit Arguments. Unset Strict Implicit. Unset Printing Implicit Defensive.
Import GRing.Theory.
Local Open Scope ring_scope.

(** The derivative of Model/Poly.v at [opsZ]. *)
Lemma nth_diff_raw (s : list Z) k i : List.nth i (diff_raw opsZ k s) Z0 = (List.nth i s Z0 * (k + Z.of_nat i))%ZZ.
Proof.
  elim: s k i => [|c s IH] k [|i] //=; first by rewrite Z.add_0_r.
  rewrite IH. lia.
Qed.

Lemma PZ_pdiff (a : list Z) : PZ (pdiff opsZ a) = (PZ a)^`().
Proof.
  case: a => [|c a]; first by rewrite /= deriv0.
  rewrite /pdiff PZ_from_raw. apply/polyP => i.
  rewrite coef_deriv !coefPZ nth_diff_raw [List.nth i.+1 _ _]/= -mulr_natr.
  have -> : (i.+1%:R : Z) = Z.of_nat i.+1 by elim: (i.+1) => [|m IH] //; rewrite -addn1 natrD IH; lia.
  lia.
Qed.

Section Prime.
Variable p : Z.
Hypothesis Hp : Znumtheory.prime p.
Let Hp2 := prime_ge_2 _ Hp.
Let Hpp : (0 < p)%ZZ. Proof. lia. Qed.
Let Hp0 : p <> Z0. Proof. lia. Qed.

Definition pnat : nat := Z.to_nat p.
Notation n := pnat.
Lemma n_prime : prime n. Proof. exact: prime_Z_nat. Qed.
Lemma En : Z.of_nat n = p. Proof. rewrite /pnat. lia. Qed.
Let n_gt1 : (1 < n)%nat. Proof. exact: prime_gt1 n_prime. Qed.

Notation RP l := (redp n (PZ l)).

Lemma eqpm_RP a b : eqpm p a b <-> redp n a = redp n b.
Proof. rewrite -En. exact: (eqpm_redp n_prime). Qed.

Lemma RP_nil : RP [::] = 0.
Proof. by rewrite PZ_nil redp0. Qed.

Lemma rnz_RP x : rnz p x -> RP x != 0.
Proof.
  move=> [R N]. apply/eqP => E. apply: N. apply: (reduced_eq0 Hpp R). apply/eqpm_RP. by rewrite E redp0.
Qed.

Lemma reduced_size x : reduced p x -> size (RP x) = length x.
Proof.
  move=> [C R]. case: (x =P [::]) => [->|N]; first by rewrite RP_nil size_poly0.
  rewrite /redp size_map_poly_id0 ?(canonical_size C) //.
  rewrite (canonical_lead C). apply/eqP => /(toF_eq0 n_prime). rewrite En => E.
  have B := last_in_range_aux p _ N R. have L := canonical_last _ C N.
  rewrite Z.mod_small in E; lia.
Qed.

Lemma pdeg_size x : reduced p x -> x <> [::] -> (pdeg x =? 0)%ZZ = (size (RP x) == 1%nat).
Proof.
  move=> R N. rewrite (reduced_size R) /pdeg. case: x N {R} => [|c l] // _.
  apply/idP/idP => [/Z.eqb_eq H|/eqP H]; first by apply/eqP; lia.
  apply/Z.eqb_eq. lia.
Qed.

Lemma unit_eqp1 x : rnz p x -> (pdeg x =? 0)%ZZ = true -> RP x %= 1.
Proof. move=> [R N]. by rewrite (pdeg_size R N) size_poly_eq1. Qed.

Lemma nonunit_size x : rnz p x -> (pdeg x =? 0)%ZZ = false -> (1 < size (RP x))%nat.
Proof.
  move=> [R N] H. have := rnz_RP (conj R N). rewrite -size_poly_gt0.
  move: H. rewrite (pdeg_size R N). case: (size _) => [|[|m]] //.
Qed.

(** ** [poly_gcd] is a greatest common divisor *)

Lemma poly_gcd_rec_bezout fuel : forall a b g,
  reduced p a -> reduced p b -> poly_gcd_rec fuel a b p = Done g ->
  exists u v, eqpm p (PZ g) (PZ a * u + PZ b * v).
Proof.
  elim: fuel => [|f IH] a b g Ra Rb //=.
  case Ed: (poly_divrem a b p) => [[quo rem]| |] //=.
  have [D1 [_ [D3 D4]]] := divrem_good Hp (reduced_good Hpp Ra) (reduced_good Hpp Rb) Ed.
  have Rrem : reduced p rem.
  { case: (b =P [::]) => [Eb|Nb]; first by rewrite (D4 Eb).
    have Dp := poly_divrem_spec Hp Nb (reduced_good Hpp Rb Nb) Ed.
    case: Dp => _ [_ [_ [_ [D2 D5]]]].
    case: (Nat.lt_ge_cases (length a) (length b)) => Hl.
    + by case: (D5 Hl) => _ ->.
    + by case: (D2 (or_introl Hl)) => _. }
  case: rem Ed D1 D3 D4 Rrem => [|r0 rem] Ed D1 D3 D4 Rrem.
  - case=> <-. exists 0, 1. rewrite mulr0 add0r mulr1. exact: eqpm_refl.
  - move=> H. have [u [v Huv]] := IH _ _ _ Rb Rrem H.
    exists v, (u - PZ quo * v).
    apply: eqpm_trans Huv _.
    have -> : PZ a * v + PZ b * (u - PZ quo * v) = PZ b * u + (PZ a - PZ quo * PZ b) * v by ring.
    apply: eqpm_add; first exact: eqpm_refl. apply: eqpm_mulr.
    case: D1 => k ->. exists (- k). ring.
Qed.

Lemma gcd_RP a b g :
  reduced p a -> reduced p b -> poly_gcd a b p = Done g -> RP g %= gcdp (RP a) (RP b).
Proof.
  move=> Ra Rb H. have [Rg [[s Hs] [t Ht]]] := poly_gcd_dvd Hp Ra Rb H.
  have [u [v Huv]] := poly_gcd_rec_bezout Ra Rb H.
  move/eqpm_RP: Hs. move/eqpm_RP: Ht. move/eqpm_RP: Huv. rewrite redpD !redpM => Euv Et Es.
  rewrite /eqp dvdp_gcd. apply/andP; split.
  - apply/andP; split; apply/dvdpP; [exists (redp n s)|exists (redp n t)]; by rewrite mulrC.
  - rewrite Euv. apply: dvdp_add; apply: dvdp_mulr; [exact: dvdp_gcdl|exact: dvdp_gcdr].
Qed.

Lemma quot_RP a g (t : {poly Z}) q r :
  rnz p a -> rnz p g -> eqpm p (PZ a) (PZ g * t) -> poly_divrem a g p = Done (q, r) ->
  rnz p q /\ RP a = RP q * RP g.
Proof.
  move=> Ra Rg Ht Ed. have [Rq E] := quot_rnz Hp Ra Rg Ht Ed. split=> //.
  move/eqpm_RP: E. by rewrite redpM.
Qed.

Lemma differential_RP f d : differential f p = Done d -> RP d = (RP f)^`().
Proof.
  rewrite /differential. case: f => [|c f]; first by case=> <-; rewrite RP_nil deriv0.
  move=> H. have := PZ_poly_mod Hp0 H. move/eqpm_RP => ->. by rewrite PZ_pdiff redp_deriv.
Qed.

(** ** Value of a list of (factor, multiplicity) pairs *)

Fixpoint FProd (l : list (list Z * Z)) : {poly 'F_n} :=
  if l is ge :: l' then RP ge.1 ^+ Z.to_nat ge.2 * FProd l' else 1.

Lemma FProd_cat a b : FProd (a ++ b) = FProd a * FProd b.
Proof. elim: a => [|x a IH] /=; first by rewrite mul1r. by rewrite IH mulrA. Qed.

Lemma FProd_rcons a g e : FProd (a ++ [:: (g, e)]) = FProd a * RP g ^+ Z.to_nat e.
Proof. by rewrite FProd_cat /= mulr1. Qed.

(** ** The loop invariant that does not mention the output *)

Definition sqJ (t v : list Z) : Prop :=
  rnz p t /\ rnz p v /\ (RP t %| (RP t)^`() * RP v).

Lemma sqJ_step t v w aek r1 t' r2 :
  sqJ t v -> poly_gcd t v p = Done w ->
  poly_divrem v w p = Done (aek, r1) -> poly_divrem t w p = Done (t', r2) ->
  sqJ t' w /\ rnz p aek /\ RP t = RP t' * RP w /\ RP v = RP aek * RP w.
Proof.
  move=> [Rt [Rv Hd]] Ew Ea Et.
  have [Rw [[s Hs] [tt Htt]]] := gcd_rnz Hp (proj1 Rt) Rv Ew.
  have [Raek EV] := quot_RP Rv Rw Htt Ea.
  have [Rt' ET] := quot_RP Rt Rw Hs Et.
  have W0 := rnz_RP Rw.
  split; last by [].
  split=> //. split=> //.
  have Cop : coprimep (RP t') (RP aek).
  { have G := gcd_RP (proj1 Rt) (proj1 Rv) Ew. rewrite ET EV in G.
    have G2 := eqp_trans G (gcdp_mul2r (RP t') (RP aek) (RP w)).
    rewrite -{1}[RP w]mul1r eqp_mul2r // in G2.
    by rewrite coprimep_def size_poly_eq1 eqp_sym. }
  move: Hd. rewrite ET EV derivM mulrA dvdp_mul2r // mulrDl.
  rewrite dvdp_addl; last by rewrite -mulrA; exact: dvdp_mulr.
  by rewrite Gauss_dvdpl.
Qed.

Lemma sqJ_start t0 der t v r :
  rnz p t0 -> differential t0 p = Done der -> poly_gcd t0 der p = Done t ->
  poly_divrem t0 t p = Done (v, r) ->
  sqJ t v /\ RP t0 = RP t * RP v /\ (size (RP t) <= size (RP t0))%nat.
Proof.
  move=> R0 Ed Et Ev.
  have Rder := differential_reduced Hp Ed.
  have [Rt [[s Hs] [s' Hs']]] := gcd_rnz_l Hp R0 Rder Et.
  have [Rv E0] := quot_RP R0 Rt Hs Ev.
  have T0 := rnz_RP Rt. have V0 := rnz_RP Rv.
  have E0' : RP t0 = RP t * RP v by rewrite E0 mulrC.
  split; last first.
  { split=> //. apply: dvdp_leq; first exact: rnz_RP. by rewrite E0'; exact: dvdp_mulr. }
  split=> //. split=> //.
  have D : RP t %| (RP t0)^`().
  { rewrite -(differential_RP Ed). move/eqpm_RP: Hs'. rewrite redpM => ->. exact: dvdp_mulr. }
  move: D. rewrite E0' derivM dvdp_addl //. exact: dvdp_mulr.
Qed.

(** When [v] is constant, [t' = 0]. *)
Lemma sqJ_deriv0 t v : sqJ t v -> (pdeg v =? 0)%ZZ = true -> (RP t)^`() = 0.
Proof.
  move=> [Rt [Rv Hd]] Hv. have U := unit_eqp1 Rv Hv.
  have D : RP t %| (RP t)^`().
  { move: Hd. rewrite (eqp_dvdr _ (eqp_mull _ U)) mulr1. by []. }
  apply/eqP/negPn/negP => N.
  have := dvdp_leq N D. have := lt_size_deriv (rnz_RP Rt). by rewrite ltnNge => /negP.
Qed.

(** ** [pth_root_raw] *)

Lemma nth_pth_root_raw t pu : forall cnt i0 i,
  List.nth i (pth_root_raw cnt i0 pu t) Z0 =
  if (i < cnt)%nat then List.nth (Z.to_nat (pu * (i0 + Z.of_nat i))) t Z0 else Z0.
Proof.
  elim=> [|c IH] i0 [|i] //=; first by rewrite Z.add_0_r.
  rewrite IH ltnS. have -> : (i0 + 1 + Z.of_nat i = i0 + Z.pos (Pos.of_succ_nat i))%ZZ by lia. by [].
Qed.

Lemma pth_root_RP t v (c0 : Z) (t1 : list Z) :
  sqJ t v -> (pdeg v =? 0)%ZZ = true -> t = c0 :: t1 ->
  RP t = RP (from_raw opsZ (pth_root_raw (Z.to_nat (pdeg t / p + 1)) Z0 p t)) ^+ n.
Proof.
  move=> J Hv Et. have D := sqJ_deriv0 J Hv. have [[Rt _] _] := J.
  rewrite (frobenius_comp n_prime). apply/polyP => j.
  rewrite (coef_comp_Xn n_prime). case: (boolP (n %| j)%nat) => Dj; last exact: (deriv0_coef n_prime D).
  rewrite PZ_from_raw !redp_coef !coefPZ nth_pth_root_raw.
  have Ej : (Z.to_nat (p * (0 + Z.of_nat (j %/ n))) = j)%nat.
  { have := divnK Dj. have := En. nia. }
  case: ltnP => Hq; first by rewrite Ej.
  rewrite List.nth_overflow; first by [].
  move: Hq. rewrite Et /pdeg -Et. have Lt : (0 < length t)%coq_nat by rewrite Et /=; lia.
  move=> Hq. have := divnK Dj. have := En.
  have Q : (Z.of_nat (length t) - 1 < p * (Z.div (Z.of_nat (length t) - 1) p + 1))%ZZ.
  { have := Z.mod_pos_bound (Z.of_nat (length t) - 1) p Hpp. have := Z.div_mod (Z.of_nat (length t) - 1) p Hp0. lia. }
  have Q0 : (0 <= Z.div (Z.of_nat (length t) - 1) p)%ZZ by apply: Z.div_pos; lia.
  nia.
Qed.

(** ** u64 normalisation of the multiplicities *)

Lemma u64_norm_ok md x y :
  md = Checked \/ (x < two64)%ZZ -> (0 <= x)%ZZ -> u64_norm md x = Done y -> y = x.
Proof.
  rewrite /u64_norm. case: (Z.leb_spec 0 x) => H0 //=; last lia.
  case: (Z.ltb_spec x two64) => H1 /=; first by move=> _ _ [<-].
  case=> [->|] //. lia.
Qed.

(** ** Product invariant *)

Section Inv.
Variable F0 : {poly 'F_n}.
Hypothesis F0nz : F0 != 0.
Variable md : mode.
Hypothesis Hmd : md = Checked \/ (Z.of_nat (size F0) <= two64)%ZZ.

Lemma exp_bound (A B : {poly 'F_n}) e m :
  A * B ^+ e %= F0 -> (m <= (size B).-1)%nat -> (m * e <= (size F0).-1)%nat.
Proof.
  move=> E Hm. have S := eqp_size E.
  have N : A * B ^+ e != 0 by rewrite -(eqp0 _) (eqp_ltrans E) eqp0.
  have NA : A != 0 by apply: contraNneq N => ->; rewrite mul0r.
  have NB : B ^+ e != 0 by apply: contraNneq N => ->; rewrite mulr0.
  have SM := size_mul NA NB. have SE := size_exp B e. rewrite -size_poly_gt0 in NA.
  move: S SM SE NA Hm. move: (size A) (size (B ^+ e)) (size (A * B ^+ e)) (size B) (size F0) => a be abe b f0.
  nia.
Qed.

Lemma mult_bound (A B : {poly 'F_n}) e m x :
  A * B ^+ (Z.to_nat e) %= F0 -> (m <= (size B).-1)%nat -> (0 <= e)%ZZ -> (0 <= x <= Z.of_nat m)%ZZ ->
  md = Checked \/ (e * x < two64)%ZZ.
Proof.
  move=> E Hm He Hx. case: Hmd => [->|Hs]; first by left. right.
  have := exp_bound E Hm. have : (0 < size F0)%nat by rewrite size_poly_gt0. nia.
Qed.

Lemma sqf_inner_prod : forall fuel e t v k result ex,
  sqJ t v -> (1 <= e)%ZZ -> (0 <= k)%ZZ ->
  FProd result * (RP t * RP v ^+ (Z.to_nat k).+1) ^+ Z.to_nat e %= F0 ->
  sqf_inner fuel md p p e t v k result = Done ex ->
  match ex with
  | SqBreak res' => is_true (FProd res' %= F0)
  | SqContinue t0' e' res' => reduced p t0' /\ (1 <= e')%ZZ /\ FProd res' * RP t0' ^+ Z.to_nat e' %= F0
  end.
Proof.
  elim=> [|f IH] e t v k result ex J He Hk Inv //=.
  have [Rt [Rv _]] := J.
  case Ev: (pdeg v =? 0)%ZZ.
  - have Uv := unit_eqp1 Rv Ev.
    have Inv' : FProd result * RP t ^+ Z.to_nat e %= F0.
    { apply: eqp_trans Inv. rewrite eqp_sym. apply: eqp_mull. apply: eqp_exp.
      rewrite -{2}[RP t]mulr1. apply: eqp_mull. rewrite -(expr1n _ (Z.to_nat k).+1). exact: eqp_exp. }
    case Et: (pdeg t =? 0)%ZZ.
    + case=> <-. apply: eqp_trans Inv'. rewrite eqp_sym -{2}[FProd result]mulr1. apply: eqp_mull.
      rewrite -(expr1n _ (Z.to_nat e)). apply: eqp_exp. exact: unit_eqp1.
    + have -> : (p =? 0)%ZZ = false by apply/Z.eqb_neq.
      case: t Rt Et J Inv Inv' => [|c0 t1] Rt Et J Inv Inv'; first by case: Rt.
      have Erp := pth_root_RP J Ev (erefl _).
      have St : (n < size (RP (c0 :: t1)))%nat.
      { apply: (deriv0_size n_prime); first exact: (sqJ_deriv0 J Ev). exact: nonunit_size. }
      case Ee: (u64_norm md _) => [e'| |] //=. case=> <-.
      have Ee' : e' = (e * p)%ZZ.
      { apply: u64_norm_ok Ee; last lia.
        apply: (mult_bound Inv' (m := n)); [lia|lia|]. have := En. lia. }
      split.
      { split; first exact: from_raw_canonical. apply: strip_Forall. apply: (pth_root_raw_range Hp). by case: Rt => [[]]. }
      split; first nia.
      apply: eqp_trans Inv'. rewrite Erp Ee' -exprM.
      have -> : Z.to_nat (e * p) = (n * Z.to_nat e)%nat by rewrite /pnat; lia.
      exact: eqpxx.
  - case Ew: (poly_gcd t v p) => [w| |] //=.
    case Ea: (poly_divrem v w p) => [[aek rem1]| |] //=.
    case Etq: (poly_divrem t w p) => [[t' rem2]| |] //=.
    have [J' [Raek [ET EV]]] := sqJ_step J Ew Ea Etq.
    have K1 : Z.to_nat (k + 1) = (Z.to_nat k).+1 by lia.
    set k1 := (Z.to_nat k).+1 in Inv K1.
    have Split : RP t * RP v ^+ k1 = RP aek ^+ k1 * (RP t' * RP w ^+ k1.+1).
    { rewrite ET EV exprMn exprS. move: (RP aek ^+ k1) (RP w ^+ k1) => x y. ring. }
    case Eae: (pdeg aek =? 0)%ZZ => /=.
    + apply: (IH _ _ _ _ _ _ J') => //; first lia.
      rewrite K1 -/k1. apply: eqp_trans Inv. rewrite eqp_sym. apply: eqp_mull. apply: eqp_exp.
      rewrite Split -{2}[RP t' * _]mul1r. apply: eqp_mulr.
      rewrite -(expr1n _ k1). apply: eqp_exp. exact: unit_eqp1.
    + case Ek: (u64_norm md _) => [ek| |] //=.
      have Sa := nonunit_size Raek Eae.
      have Eek : ek = (e * (k + 1))%ZZ.
      { apply: u64_norm_ok Ek; last lia.
        apply: (mult_bound Inv (m := k1)); [|lia|lia].
        have N : RP t * RP v ^+ k1 != 0.
        { rewrite mulf_neq0 ?expf_neq0 //; exact: rnz_RP. }
        have D : RP aek ^+ k1 %| RP t * RP v ^+ k1 by rewrite Split; exact: dvdp_mulr.
        have L := dvdp_leq N D. have SE := size_exp (RP aek) k1.
        move: L SE Sa. move: (size (RP aek ^+ k1)) (size (RP aek)) (size (RP t * RP v ^+ k1)) => a b c. nia. }
      apply: (IH _ _ _ _ _ _ J') => //; first lia.
      rewrite K1 -/k1 FProd_rcons Eek. move: Inv. rewrite Split.
      have -> : Z.to_nat (e * (k + 1)) = (k1 * Z.to_nat e)%nat by lia.
      by rewrite exprMn -exprM mulrA.
Qed.

Lemma sqf_outer_prod : forall fuel e t0 result out,
  reduced p t0 -> (1 <= e)%ZZ ->
  FProd result * RP t0 ^+ Z.to_nat e %= F0 ->
  sqf_outer fuel md p p e t0 result = Done out -> FProd out %= F0.
Proof.
  elim=> [|f IH] e t0 result out R0 He Inv //.
  case: (t0 =P [::]) => [->|N0]; first by move/sqf_outer_nil.
  rewrite [sqf_outer _ _ _ _ _ _ _]/=.
  case E0: (pdeg t0 =? 0)%ZZ.
  - case=> <-. apply: eqp_trans Inv. rewrite eqp_sym -{2}[FProd result]mulr1. apply: eqp_mull.
    rewrite -(expr1n _ (Z.to_nat e)). apply: eqp_exp. exact: (unit_eqp1 (conj R0 N0)).
  - case Ed: (differential t0 p) => [der| |] //=.
    case Et: (poly_gcd t0 der p) => [t| |] //=.
    case Ev: (poly_divrem t0 t p) => [[v rem]| |] //=.
    have [J [ET _]] := sqJ_start (conj R0 N0) Ed Et Ev.
    match goal with |- context [sqf_inner ?a ?b ?c ?d ?e0 ?f0 ?g ?h ?i] =>
      destruct (sqf_inner a b c d e0 f0 g h i) as [ex| |] eqn:Ei end => //=.
    have Inv0 : FProd result * (RP t * RP v ^+ (Z.to_nat 0).+1) ^+ Z.to_nat e %= F0 by rewrite expr1 -ET.
    have := sqf_inner_prod J He (Z.le_refl 0) Inv0 Ei.
    case: ex {Ei} => [res'|t0' e' res']; first by move=> P; case=> <-.
    move=> [R' [He' P]]. exact: IH.
Qed.

End Inv.

(** [P] the square-free decomposition multiplies back to (an associate of) its input. *)
Theorem squarefree_prod md poly t0 out :
  md = Checked \/ (Z.of_nat (length poly) <= two64)%ZZ ->
  poly_mod poly p = Done t0 -> t0 <> [::] ->
  squarefree md poly p p = Done out -> FProd out %= RP t0.
Proof.
  move=> Hmd Em N0. rewrite /squarefree. case: poly Hmd Em => [|c l] Hmd Em //.
  move: (length (c :: l) + 2)%coq_nat => fuel. rewrite Em /=.
  have R0 := poly_mod_is_reduced Hpp Em.
  have F0nz := rnz_RP (conj R0 N0).
  have Hmd' : md = Checked \/ (Z.of_nat (size (RP t0)) <= two64)%ZZ.
  { case: Hmd => [->|H]; first by left. right.
    rewrite (reduced_size R0).
    have : (length t0 <= length (c :: l))%coq_nat.
    { move: Em. rewrite poly_mod_eq' // => -[<-]. rewrite /from_raw.
      have := strip_length (List.map (fun c0 : Z => Z.modulo c0 p) (c :: l)). by rewrite List.map_length. }
    lia. }
  move=> H. apply: (sqf_outer_prod F0nz Hmd' R0 (Z.le_refl 1) _ H).
  have -> : Z.to_nat 1 = 1%nat by []. rewrite [FProd _]/= mul1r expr1. exact: eqpxx.
Qed.

(** ** [pusize] is not looked at when p > deg f *)

Lemma sqf_inner_nil_pu md pu pu' : forall fuel e k result,
  sqf_inner fuel md p pu e [::] [::] k result = sqf_inner fuel md p pu' e [::] [::] k result.
Proof.
  elim=> [|f IH] e k result //=.
  case: (u64_norm md _) => [ek| |] //=.
Qed.

Lemma sqf_outer_nil_eq md pu f e result :
  sqf_outer (S f) md p pu e [::] result =
  bind (sqf_inner 4 md p pu e [::] [::] Z0 result) (fun ex =>
    match ex with
    | SqBreak result' => Done result'
    | SqContinue t0' e' result' => sqf_outer f md p pu e' t0' result'
    end).
Proof. by []. Qed.

Lemma sqf_inner_pu md pu pu' : forall fuel e t v k result,
  sqJ t v -> (size (RP t) <= n)%nat ->
  sqf_inner fuel md p pu e t v k result = sqf_inner fuel md p pu' e t v k result /\
  (forall t0' e' r', sqf_inner fuel md p pu e t v k result <> Done (SqContinue t0' e' r')).
Proof.
  elim=> [|f IH] e t v k result J St //=.
  have [Rt [Rv _]] := J.
  case Ev: (pdeg v =? 0)%ZZ.
  - case Et: (pdeg t =? 0)%ZZ; first by [].
    exfalso.
    have := deriv0_size n_prime (sqJ_deriv0 J Ev) (nonunit_size Rt Et). by rewrite ltnNge St.
  - case Ew: (poly_gcd t v p) => [w| |] //=.
    case Ea: (poly_divrem v w p) => [[aek rem1]| |] //=.
    case Etq: (poly_divrem t w p) => [[t' rem2]| |] //=.
    have [J' [Raek [ET EV]]] := sqJ_step J Ew Ea Etq.
    have St' : (size (RP t') <= n)%nat.
    { apply: leq_trans St. apply: dvdp_leq; first exact: rnz_RP. rewrite ET. exact: dvdp_mulr. }
    case: (pdeg aek =? 0)%ZZ => /=; first exact: IH.
    case: (u64_norm md _) => [ek| |] //=. exact: IH.
Qed.

Lemma sqf_outer_pu md pu pu' : forall fuel e t0 result,
  reduced p t0 -> (size (RP t0) <= n)%nat ->
  sqf_outer fuel md p pu e t0 result = sqf_outer fuel md p pu' e t0 result.
Proof.
  case=> [|f] e t0 result R0 S0 //.
  case: (t0 =P [::]) => [->|N0].
  - rewrite !sqf_outer_nil_eq (sqf_inner_nil_pu md pu pu').
    case E: (sqf_inner _ md p pu' e [::] [::] Z0 result) => [ex| |] //=.
    by case: (sqf_inner_nil E).
  - rewrite [LHS]/= [RHS]/=.
    case E0: (pdeg t0 =? 0)%ZZ => //.
    case Ed: (differential t0 p) => [der| |] //=.
    case Et: (poly_gcd t0 der p) => [t| |] //=.
    case Ev: (poly_divrem t0 t p) => [[v rem]| |] //=.
    have [J [ET St]] := sqJ_start (conj R0 N0) Ed Et Ev.
    have St' := leq_trans St S0.
    match goal with |- context [sqf_inner ?a ?b ?c pu ?e0 ?f0 ?g ?h ?i] =>
      have [-> _] := @sqf_inner_pu md pu pu' a e0 f0 g h i J St';
      have [_ NC] := @sqf_inner_pu md pu' pu a e0 f0 g h i J St' end.
    match goal with |- context [sqf_inner ?a ?b ?c ?d ?e0 ?f0 ?g ?h ?i] =>
      destruct (sqf_inner a b c d e0 f0 g h i) as [ex| |] eqn:Ei end => //=.
    case: ex Ei NC => [res'|t0' e' res'] // Ei NC. by case: (NC _ _ _ (erefl _)).
Qed.

(** [P] for p > deg f, [squarefree] returns the same outcome for every [pusize]. *)
Theorem squarefree_pu md poly pu pu' :
  (Z.of_nat (length poly) <= p)%ZZ -> squarefree md poly p pu = squarefree md poly p pu'.
Proof.
  move=> Hl. rewrite /squarefree. case: poly Hl => [|c l] Hl //.
  move: (length (c :: l) + 2)%coq_nat => fuel.
  case Em: (poly_mod (c :: l) p) => [t0| |] //=.
  have R0 := poly_mod_is_reduced Hpp Em.
  apply: sqf_outer_pu => //. rewrite (reduced_size R0).
  have : (length t0 <= length (c :: l))%coq_nat.
  { move: Em. rewrite poly_mod_eq' // => -[<-]. rewrite /from_raw.
    have := strip_length (List.map (fun c0 : Z => Z.modulo c0 p) (c :: l)). by rewrite List.map_length. }
  rewrite /pnat. lia.
Qed.

End Prime.
