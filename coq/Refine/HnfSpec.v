(** * HnfSpec: the normal-form predicate of C02 (row style, lower triangular):
      each row's last non-zero entry is a positive pivot, pivot columns strictly increase from
      row to row, every entry below a pivot in its column lies in [0, pivot). *)
From Coq Require Import ZArith List Lia Bool.
From RNT.Refine Require Import MatZ.
Import ListNotations.
Open Scope Z_scope.

(** index of the last non-zero entry of a row *)
Fixpoint last_nz (r : list Z) : option nat :=
  match r with
  | [] => None
  | x :: t =>
    match last_nz t with
    | Some p => Some (S p)
    | None => if x =? 0 then None else Some O
    end
  end.

Fixpoint is_hnf (H : mat) : bool :=
  match H with
  | [] => true
  | r :: H' =>
    match last_nz r with
    | None => false
    | Some p =>
      (0 <? nth p r 0)
      && forallb (fun r' => (0 <=? nth p r' 0) && (nth p r' 0 <? nth p r 0)) H'
      && match H' with
         | [] => true
         | r2 :: _ => match last_nz r2 with Some p2 => (p <? p2)%nat | None => false end
         end
      && is_hnf H'
    end
  end.

Lemma last_nz_Some r p :
  last_nz r = Some p ->
  (p < length r)%nat /\ nth p r 0 <> 0 /\ forall c, (p < c)%nat -> nth c r 0 = 0.
Proof.
  revert p; induction r as [|x t IH]; simpl; intros p H; [discriminate|].
  destruct (last_nz t) as [p'|] eqn:E.
  - inversion H; subst. destruct (IH p' eq_refl) as (H1 & H2 & H3).
    split; [lia|]. split; auto. intros [|c] Hc; [lia|]. apply H3; lia.
  - destruct (Z.eqb_spec x 0); [discriminate|]. inversion H; subst.
    split; [lia|]. split; auto. intros [|c] Hc; [lia|].
    clear -E. revert c; induction t as [|y t IH]; intros c; simpl in *; [destruct c; auto|].
    destruct (last_nz t); [discriminate|]. destruct (Z.eqb_spec y 0); [|discriminate].
    destruct c; auto.
Qed.

Lemma last_nz_None r : last_nz r = None -> forall c, nth c r 0 = 0.
Proof.
  induction r as [|x t IH]; simpl; intros H c; [destruct c; auto|].
  destruct (last_nz t); [discriminate|]. destruct (Z.eqb_spec x 0); [|discriminate].
  destruct c; auto.
Qed.

Lemma last_nz_intro r p :
  nth p r 0 <> 0 -> (forall c, (p < c)%nat -> nth c r 0 = 0) -> last_nz r = Some p.
Proof.
  intros Hp Hz. destruct (last_nz r) as [p'|] eqn:E.
  - destruct (last_nz_Some r p' E) as (_ & H2 & H3).
    destruct (Nat.lt_trichotomy p p') as [Hl|[->|Hl]]; auto.
    + exfalso. apply H2. apply Hz; auto.
    + exfalso. apply Hp. apply H3; auto.
  - exfalso. apply Hp. apply last_nz_None; auto.
Qed.

(** Prop version with a lower bound [lo] on all pivot columns *)
Inductive hnf_rows (m : nat) : nat -> mat -> Prop :=
| hr_nil lo : hnf_rows m lo []
| hr_cons lo p r H :
    (lo <= p < m)%nat -> length r = m -> 0 < nth p r 0 ->
    (forall c, (p < c)%nat -> nth c r 0 = 0) ->
    (forall r', In r' H -> 0 <= nth p r' 0 < nth p r 0) ->
    hnf_rows m (S p) H -> hnf_rows m lo (r :: H).

Lemma hnf_rows_weaken m lo lo' H : hnf_rows m lo H -> (lo' <= lo)%nat -> hnf_rows m lo' H.
Proof.
  intros HH Hl. destruct HH; [constructor|]. apply hr_cons with p; auto. lia.
Qed.

Lemma hnf_rows_wf m lo H : hnf_rows m lo H -> wf m H.
Proof. induction 1; [constructor|]. apply wf_cons; auto. Qed.

Lemma hnf_rows_is_hnf m lo H : hnf_rows m lo H -> is_hnf H = true.
Proof.
  induction 1 as [|lo p r H Hp Hl Hpos Hz Hbelow HH IH]; [reflexivity|].
  simpl. assert (Hnz : nth p r 0 <> 0) by (clear -Hpos; lia). rewrite (last_nz_intro r p Hnz Hz).
  rewrite IH. rewrite andb_true_r.
  apply andb_true_iff. split; [apply andb_true_iff; split|].
  - apply Z.ltb_lt; auto.
  - apply forallb_forall. intros r' Hr'. destruct (Hbelow r' Hr').
    apply andb_true_iff. split; [apply Z.leb_le|apply Z.ltb_lt]; auto.
  - inversion HH as [|lo' p2 r2 H2 Hp2 Hl2 Hpos2 Hz2 Hb2 HH2]; subst; auto.
    assert (Hnz2 : nth p2 r2 0 <> 0) by lia. rewrite (last_nz_intro r2 p2 Hnz2 Hz2). apply Nat.ltb_lt. lia.
Qed.

Lemma is_hnf_hnf_rows m H : wf m H -> is_hnf H = true -> hnf_rows m 0 H.
Proof.
  assert (G : forall H lo, wf m H -> is_hnf H = true ->
             match H with [] => True | r :: _ => match last_nz r with Some p => (lo <= p)%nat | None => False end end ->
             hnf_rows m lo H).
  { induction H0 as [|r H' IH]; intros lo Hw Hh Hlo; [constructor|].
    apply wf_cons in Hw. destruct Hw as [Hr Hw]. simpl in Hh.
    destruct (last_nz r) as [p|] eqn:E; [|discriminate].
    destruct (last_nz_Some r p E) as (Hp & Hnz & Hz).
    apply andb_true_iff in Hh. destruct Hh as [Hh Hh4].
    apply andb_true_iff in Hh. destruct Hh as [Hh Hh3].
    apply andb_true_iff in Hh. destruct Hh as [Hh1 Hh2].
    apply Z.ltb_lt in Hh1. rewrite forallb_forall in Hh2.
    apply hr_cons with p; auto; try lia.
    - intros r' Hr'. specialize (Hh2 r' Hr'). apply andb_true_iff in Hh2.
      destruct Hh2 as [Ha Hb]. apply Z.leb_le in Ha. apply Z.ltb_lt in Hb. lia.
    - apply IH; auto. destruct H' as [|r2 H2]; auto.
      destruct (last_nz r2); [|discriminate]. apply Nat.ltb_lt in Hh3. lia. }
  intros Hw Hh. apply G; auto. destruct H as [|r H']; auto. simpl in Hh.
  destruct (last_nz r); [lia|discriminate].
Qed.

(** changing entries only in columns below [lo] keeps the normal form *)
Lemma hnf_rows_agree m lo H H' :
  hnf_rows m lo H -> length H' = length H -> wf m H' ->
  (forall t c, (lo <= c)%nat -> ent H' t c = ent H t c) -> hnf_rows m lo H'.
Proof.
  intros HH. revert H'. induction HH as [|lo p r H Hp Hl Hpos Hz Hbelow HH IH]; intros H' Hlen Hw Hag.
  - destruct H'; [constructor|discriminate].
  - destruct H' as [|r' H'']; [discriminate|]. simpl in Hlen.
    apply wf_cons in Hw. destruct Hw as [Hr' Hw].
    assert (Hrow : forall c, (lo <= c)%nat -> nth c r' 0 = nth c r 0).
    { intros c Hc. apply (Hag 0%nat c Hc). }
    assert (Htail : forall t c, (lo <= c)%nat -> ent H'' t c = ent H t c).
    { intros t c Hc. apply (Hag (S t) c Hc). }
    apply hr_cons with p; auto.
    + rewrite Hrow; auto; lia.
    + intros c Hc. rewrite Hrow; [auto|lia].
    + intros x Hx. apply In_nth with (d := []) in Hx. destruct Hx as [t [Ht <-]].
      rewrite Hrow by lia.
      change (nth p (nth t H'' []) 0) with (ent H'' t p). rewrite Htail by lia.
      apply Hbelow. unfold row. apply nth_In. lia.
    + apply IH; [lia|auto|]. intros t c Hc. apply Htail. lia.
Qed.
