(** * OrderDet: [index] is the determinant of the change of basis (C15), on top of the C18
    theorem [determinant = \det].  Style: ssreflect/MathComp (matrices over [QcField]). *)
From mathcomp Require Import all_ssreflect ssralg zmodp matrix mxalgebra.
From mathcomp Require Import ssrZ zify.
From Coq Require Import QArith Qcanon.
From RNT.Model Require Import Base Poly Algebraic LinAlg MultTable Order.
From RNT.Refine Require Import QcField LinAlgQc.
From RNT.Refine Require OrderIndex.
Set Implicit Arguments.
Unset Strict Implicit.
Unset Printing Implicit Defensive.
Import GRing.Theory.
Local Close Scope Z_scope.
Local Close Scope Q_scope.
Local Open Scope ring_scope.

(** [P] index_spec: if the rows of B are the integer combinations S of the rows of A
    (B = S A, S an integer matrix) and A is non-singular, [index A B] returns det S *)
Theorem order_index_spec (a b : list (list Qc)) (S : 'M[Z]_(length a)) :
  square a -> square b -> length b = length a ->
  let n := length a in
  \det (qmx n n a) != 0 ->
  qmx n n b = map_mx q_of_Z S *m qmx n n a ->
  order_index a b = Done (\det S).
Proof.
move=> sa sb lb n da0 eb.
have [da ea] := determinant_total sa; have [db eb'] := determinant_total sb.
have hda := determinant_ok ea; have hdb := determinant_ok eb'.
move: hdb => /=; rewrite lb -/n eb det_mulmx det_map_mx -/n -hda => hdb.
have da0' : da <> Q2Qc 0 by move=> e; move: da0; rewrite -/n -hda e eqxx.
apply: (OrderIndex.order_index_intro a b da db (\det S) ea eb' da0').
by rewrite hdb; change (Qcdiv ?x ?y) with (x / y); rewrite mulfK //; apply/eqP.
Qed.
