(** * OrderUnion: [order::union] on n x n bases (C15): commutative; absorbs sub-lattices (so
    idempotent); on top of C02 ([HNF::union] = [HNF::new] of the stacked generators, canonicity).
    Style: stdlib + lia. *)
From RNT.Model Require Import Base Poly Algebraic LinAlg MultTable Order.
From RNT.Model Require Hnf.
From RNT.Refine Require Import LinAlgList OrderIndex OrderLint MatZ HnfOps HnfMain HnfTotal HnfCanon OrderCanon.
From Coq Require Import Lia List QArith Qcanon Permutation.
Import ListNotations.
Open Scope Z_scope.

(** ** the common denominator of two bases *)
Lemma lcm_den2_divide a b d :
  (lcm_den (lcm_den 1 a) b | d) <-> all_lint d a /\ all_lint d b.
Proof.
  rewrite lcm_den_divide, (lcm_den_divide a 1 d), !all_lint_den.
  split; [intros [[_ H1] H2]; auto|intros [H1 H2]; repeat split; auto using Z.divide_1_l].
Qed.

Lemma lcm_den2_pos a b : 0 < lcm_den (lcm_den 1 a) b.
Proof. apply lcm_den_pos, lcm_den_pos. reflexivity. Qed.

Lemma lcm_den2_lint a b : all_lint (lcm_den (lcm_den 1 a) b) a /\ all_lint (lcm_den (lcm_den 1 a) b) b.
Proof. apply lcm_den2_divide, Z.divide_refl. Qed.

Lemma lcm_den2_comm a b : lcm_den (lcm_den 1 a) b = lcm_den (lcm_den 1 b) a.
Proof.
  apply Z.divide_antisym_nonneg.
  - pose proof (lcm_den2_pos a b). lia.
  - pose proof (lcm_den2_pos b a). lia.
  - apply lcm_den2_divide. destruct (lcm_den2_lint b a). auto.
  - apply lcm_den2_divide. destruct (lcm_den2_lint a b). auto.
Qed.

Lemma lcm_den2_absorb a b : all_lint (lcm_den 1 a) b -> lcm_den (lcm_den 1 a) b = lcm_den 1 a.
Proof.
  intros H. apply Z.divide_antisym_nonneg.
  - pose proof (lcm_den2_pos a b). lia.
  - pose proof (lcm_den_pos a 1). lia.
  - apply lcm_den2_divide. split; [apply lcm_den_lint|exact H].
  - apply lcm_den_least. apply lcm_den2_lint.
Qed.

(** ** [union] on two n x n bases, n >= 1 *)
Lemma qshape_row n m b i : qshape n m b -> (i < n)%nat -> length (nth i b []) = m.
Proof.
  intros [HL HW] Hi. unfold qwf in HW. rewrite Forall_forall in HW. apply HW, nth_In. lia.
Qed.

Lemma order_union_unfold n a b : (1 <= n)%nat -> qshape n n a -> qshape n n b ->
  let l := lcm_den (lcm_den 1 a) b in
  order_union a b =
  (do ha <- Hnf.hnf_new (toZm l a); do hb <- Hnf.hnf_new (toZm l b);
   do h <- Hnf.hnf_union ha hb; do h0 <- nth_chk h 0;
   do nw <- rat_matrix (length h0) n l h; hnf_reduce nw).
Proof.
  intros Hn SA SB l. unfold order_union. fold l.
  rewrite (nth_chk_lt a 0 []) by (destruct SA; lia). cbn [bind].
  rewrite (nth_chk_lt b 0 []) by (destruct SB; lia). cbn [bind].
  rewrite (qshape_row n n a 0 SA), (qshape_row n n b 0 SB) by lia.
  rewrite Nat.eqb_refl. cbn [assert_ bind].
  destruct SA as [LA WA]; destruct SB as [LB WB]. rewrite LA, LB.
  rewrite (int_matrix_closed l n a), (int_matrix_closed l n b) by (split; assumption).
  reflexivity.
Qed.

(** [HNF::union] of two computed normal forms does not depend on the order of the arguments *)
Lemma hnf_union_comm A B n m HA HB :
  shape n m A -> shape n m B -> (1 <= n)%nat -> (1 <= m)%nat ->
  Hnf.hnf_new A = Done HA -> Hnf.hnf_new B = Done HB ->
  Hnf.hnf_union HA HB = Hnf.hnf_union HB HA.
Proof.
  intros SA SB Hn Hm EA EB.
  destruct HA as [|a0 HA'] eqn:EHA.
  { destruct HB; reflexivity. }
  destruct HB as [|b0 HB'] eqn:EHB.
  { reflexivity. }
  rewrite <- EHA, <- EHB in *.
  rewrite (union_eq A B n n m HA HB) by (auto; subst; discriminate).
  rewrite (union_eq B A n n m HB HA) by (auto; subst; discriminate).
  assert (SAB : shape (n + n) m (A ++ B)).
  { destruct SA, SB. split; [rewrite app_length; lia|apply wf_app; auto]. }
  apply (hnf_permutation_eq (A ++ B) (B ++ A) (n + n) m SAB); [lia|assumption|].
  apply Permutation_app_comm.
Qed.

(** [P] union is commutative *)
Theorem order_union_comm n a b : (1 <= n)%nat -> qshape n n a -> qshape n n b ->
  order_union a b = order_union b a.
Proof.
  intros Hn SA SB.
  rewrite (order_union_unfold n a b Hn SA SB), (order_union_unfold n b a Hn SB SA). cbn zeta.
  rewrite <- (lcm_den2_comm a b). set (l := lcm_den (lcm_den 1 a) b).
  assert (TA := toZm_shape l n n a SA). assert (TB := toZm_shape l n n b SB).
  destruct (hnf_new_total _ n n TA Hn Hn) as [ha Ea]. destruct (hnf_new_total _ n n TB Hn Hn) as [hb Eb].
  rewrite Ea, Eb. cbn [bind].
  now rewrite (hnf_union_comm _ _ n n ha hb TA TB Hn Hn Ea Eb).
Qed.

(** [P] union absorbs sub-lattices: if B = U A for an integer matrix U (B inside A) and A reduces
    to the stored basis r, then [union A B] returns r *)
Theorem order_union_absorbs n U a b r : (1 <= n)%nat -> qshape n n a -> shape n n U ->
  b = qmmul n U a -> hnf_reduce a = Done r -> order_union a b = Done r.
Proof.
  intros Hn SA [HUn HUw] EB HR.
  assert (SB : qshape n n b) by (rewrite EB; apply qmmul_shape; [assumption|apply SA]).
  rewrite (order_union_unfold n a b Hn SA SB). cbn zeta.
  assert (LB : all_lint (lcm_den 1 a) b) by (rewrite EB; apply qmmul_lint, lcm_den_lint).
  rewrite (lcm_den2_absorb a b LB). set (l := lcm_den 1 a).
  destruct (hnf_reduce_inv n a r Hn SA HR) as (h & Eh & HSh & Er). fold l in Eh, Er.
  rewrite Eh. cbn [bind].
  assert (TA := toZm_shape l n n a SA). assert (TB := toZm_shape l n n b SB).
  destruct (hnf_new_total _ n n TB Hn Hn) as [hb Eb]. rewrite Eb. cbn [bind].
  assert (EU : Hnf.hnf_union h hb = Done h).
  { destruct hb as [|b0 hb'] eqn:EHB; [destruct h; reflexivity|]. rewrite <- EHB in *.
    assert (Nh : h <> []) by (destruct HSh as [HL _]; destruct h; [cbn in HL; lia|discriminate]).
    rewrite (union_eq _ _ n n n h hb TA TB Hn Hn Hn Eh Eb Nh) by (subst; discriminate).
    rewrite (hnf_append_dependent_eq _ _ n n TA Hn Hn); [exact Eh| |apply TB].
    apply Forall_forall. intros v Hv.
    assert (E : toZm l b = mmul n U (toZm l a)) by (rewrite EB; apply toZm_qmmul, lcm_den_lint).
    rewrite E in Hv. unfold mmul in Hv. apply in_map_iff in Hv. destruct Hv as [u [<- Hu]].
    exists u. split; [|reflexivity]. unfold wf in HUw. rewrite Forall_forall in HUw.
    rewrite (HUw u Hu). symmetry. apply TA. }
  rewrite EU. cbn [bind].
  rewrite (nth_chk_lt h 0 []) by (destruct HSh; lia). cbn [bind].
  assert (Hr0 : length (nth 0 h []) = n).
  { destruct HSh as [HL HW]. unfold wf in HW. rewrite Forall_forall in HW. apply HW, nth_In. lia. }
  rewrite Hr0, (rat_matrix_closed l n h HSh). cbn [bind]. rewrite <- Er.
  exact (hnf_reduce_idem n a r Hn SA HR).
Qed.

Lemma qmmul_idmat n a : qshape n n a -> qmmul n (idmat n) a = a.
Proof.
  intros SA. set (l := lcm_den 1 a).
  assert (Hl : l <> 0) by (pose proof (lcm_den_pos a 1); unfold l; lia).
  assert (L : all_lint l a) by apply lcm_den_lint.
  rewrite <- (toQm_toZm l a Hl L) at 2.
  rewrite <- (toQm_toZm l (qmmul n (idmat n) a) Hl) by (now apply qmmul_lint).
  f_equal. rewrite (toZm_qmmul l n _ a L). apply mmul_identity_l. now apply toZm_shape.
Qed.

(** [P] union is idempotent: the union of a lattice with itself is its stored form *)
Theorem order_union_self n a r : (1 <= n)%nat -> qshape n n a ->
  hnf_reduce a = Done r -> order_union a a = Done r.
Proof.
  intros Hn SA HR. apply (order_union_absorbs n (idmat n) a a r Hn SA (idmat_shape n)); [|exact HR].
  symmetry. now apply qmmul_idmat.
Qed.

(** ** [union] returns the smallest lattice containing both arguments *)
From RNT.Refine Require Import HnfSpec HnfUnique HnfDet.

Lemma toQm_shape l n m h : shape n m h -> qshape n m (toQm l h).
Proof.
  intros [HL HW]. split; [unfold toQm; now rewrite map_length|].
  unfold qwf, toQm. apply Forall_forall. intros r Hr. apply in_map_iff in Hr.
  destruct Hr as [q [<- Hq]]. rewrite map_length.
  unfold wf in HW. rewrite Forall_forall in HW. auto.
Qed.

Lemma toZm_app l a b : toZm l (a ++ b) = toZm l a ++ toZm l b.
Proof. unfold toZm. apply map_app. Qed.

(** (C * U) * A = C * (U * A) for integer C, U and rational A, through the integer scaling *)
Lemma qmmul_assoc m C U A : qwf m A -> wf (length A) U ->
  qmmul m C (qmmul m U A) = qmmul m (mmul (length A) C U) A.
Proof.
  intros HA HU. set (l := lcm_den 1 A).
  assert (Hl : l <> 0) by (pose proof (lcm_den_pos A 1); unfold l; lia).
  assert (L : all_lint l A) by apply lcm_den_lint.
  assert (T : shape (length A) m (toZm l A)) by (apply toZm_shape; split; auto).
  rewrite <- (toQm_toZm l (qmmul m C (qmmul m U A)) Hl) by (now apply qmmul_lint, qmmul_lint).
  rewrite <- (toQm_toZm l (qmmul m (mmul (length A) C U) A) Hl) by (now apply qmmul_lint).
  f_equal. rewrite !toZm_qmmul by (auto using qmmul_lint).
  symmetry. apply mmul_assoc; [exact HU|apply T].
Qed.

Lemma hnf_new_out X k n h : shape k n X -> (1 <= k)%nat -> (1 <= n)%nat -> Hnf.hnf_new X = Done h ->
  hnf_rows n 0 h /\ wf n h /\ same_rowspanZ n h X.
Proof.
  intros SX Hk Hn E. destruct (hnf_new_Done _ _ E) as (U & k' & EU).
  destruct (hnf_with_u_correct _ k n h U k' SX Hk Hn EU) as (HR & _).
  destruct (hnf_new_correct _ k n h SX Hk Hn E) as (_ & HW & HS).
  repeat split; auto; apply HS.
Qed.

(** [P] union_spec: the stored result contains both arguments (each is an integer combination of its
    rows) and is contained in their sum (its rows are integer combinations of the stacked rows) *)
Theorem order_union_spec n a b r : (1 <= n)%nat -> qshape n n a -> qshape n n b ->
  order_union a b = Done r ->
  qshape n n r /\
  (exists Ua, shape n n Ua /\ a = qmmul n Ua r) /\
  (exists Ub, shape n n Ub /\ b = qmmul n Ub r) /\
  (exists W, shape n (n + n) W /\ r = qmmul n W (a ++ b)).
Proof.
  intros Hn SA SB H. rewrite (order_union_unfold n a b Hn SA SB) in H. cbn zeta in H.
  set (l := lcm_den (lcm_den 1 a) b) in H.
  assert (Hl : l <> 0) by (pose proof (lcm_den2_pos a b); unfold l; lia).
  destruct (lcm_den2_lint a b) as [LA LB]. fold l in LA, LB.
  assert (TA := toZm_shape l n n a SA). assert (TB := toZm_shape l n n b SB).
  bind_inv H as ha Ea. bind_inv H as hb Eb. bind_inv H as h Eu. bind_inv H as h0 E0. bind_inv H as nw Er.
  destruct (hnf_new_out _ n n ha TA Hn Hn Ea) as (RA & WA & SpA).
  destruct (hnf_new_out _ n n hb TB Hn Hn Eb) as (RB & WB & SpB).
  assert (TAB : shape (n + n) n (toZm l a ++ toZm l b)).
  { destruct TA, TB. split; [rewrite app_length; lia|apply wf_app; auto]. }
  assert (Out : hnf_rows n 0 h /\ wf n h /\ same_rowspanZ n h (toZm l a ++ toZm l b)).
  { destruct ha as [|a0 ha'] eqn:EHA.
    { cbn in Eu. injection Eu as <-. repeat split; auto.
      1,2: apply (same_span_app n [] (toZm l a) hb (toZm l b)); auto; try apply TA; try apply TB; constructor. }
    destruct hb as [|b0 hb'] eqn:EHB.
    { cbn in Eu. injection Eu as <-. repeat split; auto.
      1,2: rewrite <- (app_nil_r (a0 :: ha')) at 1;
           apply (same_span_app n (a0 :: ha') (toZm l a) [] (toZm l b)); auto; try apply TA; try apply TB; constructor. }
    rewrite <- EHA, <- EHB in *.
    rewrite (union_eq _ _ n n n ha hb TA TB Hn Hn Hn Ea Eb) in Eu by (subst; discriminate).
    apply (hnf_new_out _ (n + n) n h TAB); auto; lia. }
  destruct Out as (RH & WH & SpH).
  apply nth_chk_inv in E0. destruct E0 as [L0 E0].
  assert (H0len : length h0 = n).
  { rewrite <- (E0 []). unfold wf in WH. rewrite Forall_forall in WH. apply WH, nth_In. exact L0. }
  rewrite H0len in Er.
  assert (HL : length h = n).
  { destruct (hnf_rows_length n 0 h RH) as [Z|LE]; [lia|].
    pose proof Er as Er'. unfold rat_matrix in Er'. apply mapM_inv in Er'. destruct Er' as [_ N].
    rewrite seq_length in N. specialize (N (n - 1)%nat O [] ltac:(lia)).
    rewrite seq_nth in N by lia. cbn [plus] in N.
    apply mapM_inv in N. destruct N as [_ N]. rewrite seq_length in N.
    specialize (N O O q0 ltac:(lia)). rewrite seq_nth in N by lia. cbn [plus] in N.
    bind_inv N. apply nth_chk_inv in E. lia. }
  assert (HSh : shape n n h) by (split; assumption).
  rewrite (rat_matrix_closed l n h HSh) in Er. injection Er as <-.
  assert (SN : qshape n n (toQm l h)) by (now apply toQm_shape).
  destruct (toZm_toQm l h Hl) as [EZ LQ].
  destruct (hnf_reduce_equiv n _ r Hn SN H) as (U & V & HU & HV & ER & EN).
  assert (SR : qshape n n r) by (rewrite ER; apply qmmul_shape; [apply HU|apply SN]).
  (* an argument whose scaled rows lie in the span of h is an integer combination of the rows of r *)
  assert (Into : forall x, qshape n n x -> all_lint l x ->
            Forall (fun v => In_rowspanZ n v h) (toZm l x) ->
            exists Ux, shape n n Ux /\ x = qmmul n Ux r).
  { intros x SX LX HX. destruct (rows_in_span_mmul n h (toZm l x) WH HX) as (C & HC & EC).
    rewrite HL in HC.
    assert (E1 : x = qmmul n C (toQm l h)).
    { rewrite <- (toQm_toZm l x Hl LX) at 1.
      rewrite <- (toQm_toZm l (qmmul n C (toQm l h)) Hl) by (now apply qmmul_lint).
      f_equal. now rewrite (toZm_qmmul l n C _ LQ), EZ. }
    exists (mmul n C V). split.
    - apply mmul_shape; [|apply HV]. apply (f_equal (@length _)) in EC.
      rewrite mmul_length in EC. rewrite <- EC. apply (toZm_shape l n n x SX).
    - rewrite E1 at 1. rewrite EN at 1.
      replace n with (length r) at 4 by apply SR.
      apply qmmul_assoc; [apply SR|]. destruct SR as [-> _]. apply HV. }
  assert (Sub : forall x, (forall v, In v x -> In v (toZm l a ++ toZm l b)) ->
            Forall (fun v => In_rowspanZ n v h) x).
  { intros x Hx. apply Forall_forall. intros v Hv. apply SpH.
    destruct (In_row _ v (Hx v Hv)) as [t [Ht ->]]. apply row_in_span; [apply TAB|exact Ht]. }
  split; [exact SR|]. split; [|split].
  - apply (Into a SA LA). apply Sub. intros v Hv. apply in_or_app. now left.
  - apply (Into b SB LB). apply Sub. intros v Hv. apply in_or_app. now right.
  - assert (HH : Forall (fun v => In_rowspanZ n v (toZm l a ++ toZm l b)) h).
    { apply Forall_forall. intros v Hv. apply SpH.
      destruct (In_row _ v Hv) as [t [Ht ->]]. now apply row_in_span. }
    destruct (rows_in_span_mmul n _ h (proj2 TAB) HH) as (W0 & HW0 & EW0).
    assert (LAB : all_lint l (a ++ b)) by (apply Forall_app; split; assumption).
    assert (E1 : toQm l h = qmmul n W0 (a ++ b)).
    { rewrite <- (toQm_toZm l (qmmul n W0 (a ++ b)) Hl) by (now apply qmmul_lint).
      f_equal. rewrite (toZm_qmmul l n W0 _ LAB), toZm_app. exact EW0. }
    assert (LenAB : length (a ++ b) = (n + n)%nat).
    { rewrite app_length. destruct SA as [-> _], SB as [-> _]. reflexivity. }
    exists (mmul (n + n) U W0). split.
    + apply mmul_shape; [apply HU|]. destruct TAB as [<- _]. exact HW0.
    + rewrite ER, E1. rewrite <- LenAB. apply qmmul_assoc.
      * apply Forall_app. split; [apply SA|apply SB].
      * rewrite LenAB. destruct TAB as [<- _]. exact HW0.
Qed.
