(** C20: linear independence of the rows of the current basis along a run of [lll] (exact arithmetic),
    and what it gives: the Gram-Schmidt vector of a row reached for the first time is not zero.
    (stdlib; lia, ring on Qc, lra/nra on Q.) *)
From RNT.Model Require Import Base Lll.
From RNT.Refine Require Import LllMat LllGS LllSqrt LllExitStep2.
From Coq Require Import Lia QArith Qcanon Lqa.
Open Scope Z_scope.

Local Notation F := arithQ.
Local Notation "x +q y" := (Qcplus x y) (at level 50, left associativity).
Local Notation "x *q y" := (Qcmult x y) (at level 40, left associativity).
Local Notation "x -q y" := (Qcminus x y) (at level 50, left associativity).
Local Notation q0 := (Q2Qc 0).
Local Notation q1 := (Q2Qc 1).

Ltac to_Q := unfold Qcle, Qclt in *; rewrite ?this_plus, ?this_minus, ?this_mult, ?this_opp, ?this_0 in *.

(** ** order facts *)
Lemma qc_eq_this a b : a = b <-> (this a == this b)%Q.
Proof. split; [intros ->; reflexivity|apply Qc_is_canon]. Qed.

Lemma qc_add_sq_nonneg a x : Qcle q0 a -> Qcle q0 (a +q x *q x).
Proof. intros H. to_Q. nra. Qed.

Lemma qc_add_sq_zero a x : Qcle q0 a -> a +q x *q x = q0 -> a = q0 /\ x = q0.
Proof.
  intros H E. apply qc_eq_this in E. rewrite !qc_eq_this. to_Q. split; nra.
Qed.

Lemma qsum_sq_nonneg f : forall m, Qcle q0 (qsum m (fun p => f p *q f p)).
Proof. induction m as [|m IH]; cbn [qsum]; [apply Qcle_refl|apply qc_add_sq_nonneg; exact IH]. Qed.

Lemma qsum_sq_zero f : forall m, qsum m (fun p => f p *q f p) = q0 -> forall p, (p < m)%nat -> f p = q0.
Proof.
  induction m as [|m IH]; intros E p Hp; [lia|]. cbn [qsum] in E.
  apply qc_add_sq_zero in E; [|apply qsum_sq_nonneg]. destruct E as [E1 E2].
  destruct (Nat.eq_dec p m) as [->|Hne]; [exact E2|apply IH; [exact E1|lia]].
Qed.

Lemma qc_pos_of_nonneg_nz a : Qcle q0 a -> a <> q0 -> Qclt q0 a.
Proof.
  intros H N. destruct (Qcle_lt_or_eq _ _ H) as [L|E]; [exact L|]. exfalso. apply N. symmetry. exact E.
Qed.

Lemma qc_pos_nz a : Qclt q0 a -> a <> q0.
Proof. intros H E. rewrite E in H. exact (Qclt_not_eq _ _ H eq_refl). Qed.

(** ** more sums *)
Lemma qsum_single (g : nat -> Qc) l : forall m, (l < m)%nat ->
  qsum m (fun i => if Nat.eqb i l then g i else q0) = g l.
Proof.
  induction m as [|m IH]; intros H; [lia|]. cbn [qsum].
  destruct (Nat.eq_dec l m) as [->|Hne].
  - rewrite Nat.eqb_refl. rewrite qsum_zero; [ring|].
    intros j Hj. destruct (Nat.eqb_spec j m); [lia|reflexivity].
  - rewrite IH by lia. destruct (Nat.eqb_spec m l); [lia|]. ring.
Qed.

Lemma qsum_sub k f g : qsum k (fun j => f j -q g j) = qsum k f -q qsum k g.
Proof. induction k as [|k IH]; cbn; [ring|]. rewrite IH. ring. Qed.

Lemma qsum_trunc (c f : nat -> Qc) m : forall m', (m <= m')%nat ->
  qsum m' (fun i => (if Nat.ltb i m then c i else q0) *q f i) = qsum m (fun i => c i *q f i).
Proof.
  induction m' as [|m' IH]; intros H.
  - replace m with 0%nat by lia. reflexivity.
  - destruct (Nat.eq_dec m (S m')) as [->|Hne].
    + apply qsum_ext. intros j Hj. destruct (Nat.ltb_spec j (S m')); [reflexivity|lia].
    + cbn [qsum]. rewrite IH by lia. destruct (Nat.ltb_spec m' m); [lia|]. ring.
Qed.

(** exchange of two finite sums *)
Lemma qsum_exch (f : nat -> nat -> Qc) a : forall b,
  qsum a (fun i => qsum b (fun j => f i j)) = qsum b (fun j => qsum a (fun i => f i j)).
Proof.
  induction b as [|b IH]; cbn [qsum].
  - apply qsum_zero. reflexivity.
  - rewrite qsum_add, IH. reflexivity.
Qed.

Section Indep.
Variable n : nat.

(** no non-trivial rational combination of the rows of the current basis vanishes *)
Definition indep (s : lstate (T:=Qc)) : Prop :=
  forall c : nat -> Qc,
    (forall p, (p < n)%nat -> qsum n (fun i => c i *q Bv s i p) = q0) ->
    forall i, (i < n)%nat -> c i = q0.

Lemma indep_ext s s' : (forall i p, Bv s' i p = Bv s i p) -> indep s -> indep s'.
Proof.
  intros E I c H. apply I. intros p Hp. rewrite <- (H p Hp). apply qsum_ext. intros. rewrite E. reflexivity.
Qed.

(** RED keeps independence *)
Lemma red_indep s k l s' : wfstate n s -> (l < k)%nat -> (k < n)%nat ->
  red F n s k l = Done s' -> indep s -> indep s'.
Proof.
  intros W Hl Hk R I.
  destruct (red_entries n s k l s' W Hl Hk R) as (q & _ & _ & _ & _ & _ & EB & _).
  intros c H.
  set (c' := fun i => c i -q (if Nat.eqb i l then Qc_of_Z q *q c k else q0)).
  assert (Z : forall i, (i < n)%nat -> c' i = q0).
  { apply I. intros p Hp. rewrite <- (H p Hp).
    transitivity (qsum n (fun i => c i *q Bv s i p) -q
                  qsum n (fun i => if Nat.eqb i l then Qc_of_Z q *q c k *q Bv s i p else q0)).
    - rewrite <- qsum_sub. apply qsum_ext. intros i Hi. unfold c'. destruct (Nat.eqb i l); ring.
    - rewrite (qsum_single (fun i => Qc_of_Z q *q c k *q Bv s i p)) by lia.
      transitivity (qsum n (fun i => c i *q Bv s i p) -q
                    qsum n (fun i => if Nat.eqb i k then c i *q (Qc_of_Z q *q Bv s l p) else q0)).
      + rewrite (qsum_single (fun i => c i *q (Qc_of_Z q *q Bv s l p))) by lia. ring.
      + rewrite <- qsum_sub. apply qsum_ext. intros i Hi. rewrite EB. destruct (Nat.eqb_spec i k) as [->|]; ring. }
  assert (Ck : c k = q0).
  { pose proof (Z k Hk) as Zk. unfold c' in Zk. destruct (Nat.eqb_spec k l); [lia|]. rewrite <- Zk. ring. }
  intros i Hi. pose proof (Z i Hi) as Zi. unfold c' in Zi. rewrite Ck in Zi.
  rewrite <- Zi. destruct (Nat.eqb i l); ring.
Qed.

(** SWAP keeps independence *)
Lemma sw_lt k a : (k + 1 < n)%nat -> (a < n)%nat -> (sw k a < n)%nat.
Proof. intros Hk Ha. unfold sw. destruct (Nat.eqb a k); [lia|]. destruct (Nat.eqb a (k + 1)); lia. Qed.

Lemma sw_invol k a : sw k (sw k a) = a.
Proof.
  unfold sw. destruct (Nat.eqb_spec a k) as [->|H1].
  - destruct (Nat.eqb_spec (k + 1) k); [lia|]. rewrite Nat.eqb_refl. reflexivity.
  - destruct (Nat.eqb_spec a (k + 1)) as [->|H2].
    + rewrite Nat.eqb_refl. reflexivity.
    + destruct (Nat.eqb_spec a k); [lia|]. destruct (Nat.eqb_spec a (k + 1)); [lia|]. reflexivity.
Qed.

Lemma swap_indep s k s' : wfstate n s -> (k + 1 <= l_kmax s)%nat ->
  swap F n s k = Done s' -> indep s -> indep s'.
Proof.
  intros W Hk R I.
  assert (Hkn : (k + 1 < n)%nat) by (destruct W as (_ & _ & _ & _ & ? & _); lia).
  destruct (swap_entries n s k s' W Hk R) as (_ & _ & _ & EB & _).
  intros c H.
  assert (Z : forall i, (i < n)%nat -> c (sw k i) = q0).
  { apply I. intros p Hp. rewrite <- (H p Hp). symmetry.
    apply (qsum_two k); [lia| |].
    - intros j Hj H1 H2. rewrite EB. unfold sw.
      destruct (Nat.eqb_spec j k); [lia|]. destruct (Nat.eqb_spec j (k + 1)); [lia|]. reflexivity.
    - rewrite !EB. unfold sw. rewrite !Nat.eqb_refl. destruct (Nat.eqb_spec (k + 1) k); [lia|]. ring. }
  intros i Hi. rewrite <- (sw_invol k i). apply Z. apply sw_lt; assumption.
Qed.

(** ** spans *)
Definition in_span (s : lstate (T:=Qc)) (m : nat) (v : nat -> Qc) : Prop :=
  exists c : nat -> Qc, forall p, (p < n)%nat -> v p = qsum m (fun i => c i *q Bv s i p).

Lemma span_mono s m m' v : (m <= m')%nat -> in_span s m v -> in_span s m' v.
Proof.
  intros H [c E]. exists (fun i => if Nat.ltb i m then c i else q0).
  intros p Hp. rewrite (qsum_trunc c (fun i => Bv s i p) m m' H). apply E. exact Hp.
Qed.

Lemma span_row s m i : (i < m)%nat -> in_span s m (Bv s i).
Proof.
  intros H. exists (fun j => if Nat.eqb j i then q1 else q0). intros p Hp.
  rewrite (qsum_ext m _ (fun j => if Nat.eqb j i then Bv s j p else q0))
    by (intros j _; destruct (Nat.eqb j i); ring).
  rewrite (qsum_single (fun j => Bv s j p)) by exact H. reflexivity.
Qed.

Lemma span_sub s m v w : in_span s m v -> in_span s m w -> in_span s m (fun p => v p -q w p).
Proof.
  intros [c E] [d E']. exists (fun i => c i -q d i). intros p Hp.
  rewrite (E p Hp), (E' p Hp), <- qsum_sub. apply qsum_ext. intros. ring.
Qed.

Lemma span_comb s m (a : nat -> Qc) (g : nat -> nat -> Qc) : forall t,
  (forall j, (j < t)%nat -> in_span s m (g j)) ->
  in_span s m (fun p => qsum t (fun j => a j *q g j p)).
Proof.
  induction t as [|t IH]; intros H.
  - exists (fun _ => q0). intros p _. cbn [qsum]. symmetry. apply qsum_zero. intros. ring.
  - destruct (IH (fun j Hj => H j (Nat.lt_lt_succ_r _ _ Hj))) as [c E].
    destruct (H t (Nat.lt_succ_diag_r t)) as [d E'].
    exists (fun i => c i +q a t *q d i). intros p Hp. cbn [qsum].
    rewrite (E p Hp), (E' p Hp), <- qsum_scale, <- qsum_add. apply qsum_ext. intros. ring.
Qed.

(** b*_j is a combination of the rows 0..j *)
Lemma bstar_in_span s : gs_rel n s -> forall j, (j <= l_kmax s)%nat -> in_span s (S j) (Sv s j).
Proof.
  intros G j. induction j as [j IH] using lt_wf_ind. intros Hj.
  assert (E : forall p, Sv s j p = Bv s j p -q qsum j (fun l => Mu s j l *q Sv s l p)).
  { intros p. rewrite (gs1 n s G j p Hj). ring. }
  destruct (span_sub s (S j) (Bv s j) (fun p => qsum j (fun l => Mu s j l *q Sv s l p))) as [c Ec].
  - apply span_row. lia.
  - apply span_comb. intros l Hl. apply (span_mono s (S l)); [lia|]. apply IH; lia.
  - exists c. intros p Hp. rewrite E. apply Ec. exact Hp.
Qed.

(** step 2: the new b*_k is not zero *)
Lemma step2_norm_pos s : wfstate n s -> gs_rel n s -> indep s ->
  (l_k s < n)%nat -> l_k s = S (l_kmax s) ->
  Qclt q0 (Nb (step2 F s) (l_k s)).
Proof.
  intros W G I Hk Ek. set (k := l_k s) in *.
  destruct (step2_entries n s W Hk ltac:(fold k; lia)) as (_ & _ & _ & _ & _ & _ & _ & EN).
  fold k in EN. rewrite EN, Nat.eqb_refl.
  apply qc_pos_of_nonneg_nz; [apply qsum_sq_nonneg|]. intros E.
  pose proof (qsum_sq_zero _ _ E) as Z.
  (* b_k is in the span of the rows below k *)
  destruct (span_comb s k (M2 n s) (fun b p => Sv s b p) k) as [c Ec].
  { intros j Hj. apply (span_mono s (S j)); [lia|]. apply bstar_in_span; [exact G|lia]. }
  set (e := fun i => if Nat.ltb i k then Qcopp (c i) else if Nat.eqb i k then q1 else q0).
  assert (E1 : e k = q0).
  { apply I; [|exact Hk]. intros p Hp. unfold e.
    rewrite (qsum_row k (fun j => Qcopp (c j)) (fun j => Bv s j p) n Hk).
    specialize (Z p Hp). unfold S2 in Z. fold k in Z. specialize (Ec p Hp). cbn beta in Ec.
    rewrite (qsum_ext k (fun j => Qcopp (c j) *q Bv s j p) (fun j => Qcopp q1 *q (c j *q Bv s j p))) by (intros; ring).
    rewrite qsum_scale, <- Ec. rewrite <- Z. ring. }
  unfold e in E1. destruct (Nat.ltb_spec k k); [lia|]. rewrite Nat.eqb_refl in E1.
  apply qc_eq_this in E1. vm_compute in E1. discriminate.
Qed.

End Indep.
