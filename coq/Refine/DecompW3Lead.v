(** * DecompW3Lead (C17, third wave): the diagonal of a square normal form.  The j-th diagonal entry is the
      positive generator of the "leading coefficients at j": { v_j : v in the lattice, v_c = 0 for c > j }
      (generalises IdealCapZ.square_hnf_cap, which is j = 0 read from the other end).  Hence a diagonal
      made of p's and 1's, and the determinant p^m.  Style: stdlib + lia. *)
From Coq Require Import ZArith List Lia Bool Znumtheory.
From RNT.Model Require Import Base MultTable Ideal.
From RNT.Model Require Hnf.
From RNT.Refine Require Import MatZ HnfOps HnfSteps HnfSpec HnfLoop HnfUnique HnfTerm HnfDet IdealMul IdealSpec IdealInv.
Import ListNotations.
Open Scope Z_scope.

Definition lead_at (n : nat) (H : mat) (j : nat) (z : Z) : Prop :=
  exists v, In_rowspanZ n v H /\ nth j v 0 = z /\ forall c, (j < c)%nat -> nth c v 0 = 0.

Theorem square_hnf_lead n (H : mat) j :
  hnf_rows n 0 H -> length H = n -> (j < n)%nat ->
  0 < ent H j j /\ forall z, lead_at n H j z <-> (ent H j j | z).
Proof.
  intros HH HL Hj. pose proof (hnf_rows_wf n 0 H HH) as HW.
  assert (Hsq : forall t, (t < n)%nat -> 0 < ent H t t /\ forall c, (t < c)%nat -> ent H t c = 0).
  { intros t Ht. destruct (square_pivots n 0 H HH ltac:(lia) t ltac:(lia)) as [S1 S2]. simpl in *. auto. }
  destruct (Hsq j Hj) as [Hpos Hzj]. split; auto.
  intros z. split.
  - intros [v [[c [Hc Hv]] [Hvj Hvz]]].
    pose proof (echelon n 0 H HH c Hc) as E.
    destruct (last_nz c) as [t|] eqn:Et.
    + destruct E as (p & Hp & _ & Hent & Hpp & Hzz).
      assert (Ht : (t < n)%nat) by (rewrite <- HL, <- Hc; apply last_nz_lt; auto).
      destruct (Hsq t Ht) as [Hpt Hzt].
      assert (Hpe : last_nz (row H t) = Some t).
      { apply last_nz_intro; [change (ent H t t <> 0); lia|]. intros col Hcol. apply (Hzt col Hcol). }
      rewrite Hpe in Hp. inversion Hp; subst p; clear Hp.
      rewrite <- Hv in Hent, Hzz.
      destruct (last_nz_Some c t Et) as (_ & Hnz & Hafter).
      change (nth t (row H t) 0) with (ent H t t) in Hent.
      destruct (Nat.lt_trichotomy t j) as [Hlt|[Heq|Hgt]].
      * rewrite (Hzz j Hlt) in Hvj. subst z. apply Z.divide_0_r.
      * subst t. rewrite Hvj in Hent. exists (nth j c 0). exact Hent.
      * rewrite (Hvz t Hgt) in Hent. nia.
    + rewrite E in Hv. subst v. rewrite nth_vzero in Hvj. subst z. apply Z.divide_0_r.
  - intros [k ->]. exists (vscale k (row H j)). split; [|split].
    + destruct (row_in_span n H j HW ltac:(lia)) as [c [Hc Hr]].
      exists (vscale k c). split; [rewrite vscale_length; auto|]. rewrite lincomb_scale; auto. rewrite <- Hr. reflexivity.
    + rewrite nth_vscale. reflexivity.
    + intros c Hc. rewrite nth_vscale. change (nth c (row H j) 0) with (ent H j c). rewrite Hzj by auto. lia.
Qed.

(** the entry is p when all leading coefficients are multiples of p and p itself occurs *)
Lemma lead_is_p n H j p :
  hnf_rows n 0 H -> length H = n -> (j < n)%nat -> 0 < p ->
  (forall z, lead_at n H j z -> (p | z)) -> lead_at n H j p -> ent H j j = p.
Proof.
  intros HH HL Hj Hp Hall Hin. destruct (square_hnf_lead n H j HH HL Hj) as [Hpos Hz].
  assert (D1 : (ent H j j | p)) by (apply Hz; auto).
  assert (D2 : (p | ent H j j)).
  { apply Hall. apply Hz. apply Z.divide_refl. }
  apply Z.divide_antisym_nonneg; auto; lia.
Qed.

(** the entry is 1 when p occurs (p prime) and some leading coefficient is prime to p *)
Lemma lead_is_1 n H j p z :
  hnf_rows n 0 H -> length H = n -> (j < n)%nat -> prime p ->
  lead_at n H j p -> lead_at n H j z -> ~ (p | z) -> ent H j j = 1.
Proof.
  intros HH HL Hj Hp Hin Hz Hnz. destruct (square_hnf_lead n H j HH HL Hj) as [Hpos Hzz].
  assert (D1 : (ent H j j | p)) by (apply Hzz; auto).
  assert (D2 : (ent H j j | z)) by (apply Hzz; auto).
  pose proof (prime_ge_2 p Hp) as Hp2.
  destruct (prime_divisors p Hp _ D1) as [E|[E|[E|E]]]; try lia.
  exfalso. apply Hnz. rewrite <- E. exact D2.
Qed.

(** the product of a diagonal of m entries p followed by entries 1 *)
Lemma fold_const (F : nat -> Z) (x : Z) k : forall a acc,
  (forall t, (a <= t < a + k)%nat -> F t = x) ->
  fold_left (fun acc t => acc * F t) (seq a k) acc = acc * x ^ Z.of_nat k.
Proof.
  induction k as [|k IH]; intros a acc HF.
  - simpl. lia.
  - cbn [seq fold_left]. rewrite IH by (intros t Ht; apply HF; lia).
    rewrite (HF a) by lia. rewrite Nat2Z.inj_succ, Z.pow_succ_r by lia. ring.
Qed.

Lemma diag_prod_p1 n (H : mat) p m :
  length H = n -> (m <= n)%nat ->
  (forall j, (j < n)%nat -> ent H j j = if (j <? m)%nat then p else 1) ->
  diag_prod H = p ^ Z.of_nat m.
Proof.
  intros HL Hm HE. unfold diag_prod. rewrite HL.
  replace n with (m + (n - m))%nat at 1 by lia. rewrite seq_app, fold_left_app.
  rewrite (fold_const (fun t => ent H t t) p m 0 1).
  - rewrite (fold_const (fun t => ent H t t) 1 (n - m) (0 + m)).
    + rewrite Z.pow_1_l by lia. lia.
    + intros t Ht. rewrite HE by lia. destruct (Nat.ltb_spec t m); auto; lia.
  - intros t Ht. rewrite HE by lia. destruct (Nat.ltb_spec t m); auto; lia.
Qed.

(** [Ideal::norm] of a square normal form with such a diagonal *)
Lemma norm_p_power n (P : ideal) p m :
  hnf_rows n 0 (i_hnf P) -> length (i_hnf P) = n -> (1 <= n)%nat -> (m <= n)%nat ->
  (forall j, (j < n)%nat -> ent (i_hnf P) j j = if (j <? m)%nat then p else 1) ->
  norm P = Done (p ^ Z.of_nat m).
Proof.
  intros HH HL Hn Hm HE. unfold norm.
  destruct (determinant_spec n (i_hnf P) HH Hn) as [-> _].
  rewrite HL. destruct n as [|n']; [lia|]. cbn [Nat.eqb]. rewrite Nat.eqb_refl.
  f_equal. apply (diag_prod_p1 (S n')); auto.
Qed.
