(** * The Kronecker symbol K(a, b) from the definition (sign, powers of 2, Legendre symbols over the prime
      factorisation of |b|, smallest prime factor first), its laws, and the correctness of the model
      [Elementary.kronecker] (Cohen, Algorithm 1.4.10) on the whole i64 range. stdlib + lia. *)
From Coq Require Import ZArith List Bool Lia Znumtheory.
From RNT.Model Require Import Base Elementary.
From RNT.Refine Require Import KroneckerProofs RecipJacobi.
Import ListNotations.
Open Scope Z_scope.

(** ** Definition *)

(** least divisor >= d of n, by trial *)
Fixpoint least_div (fuel : nat) (d n : Z) : Z :=
  match fuel with
  | O => n
  | S f => if n mod d =? 0 then d else least_div f (d + 1) n
  end.
(** least prime factor of n >= 2 *)
Definition lpf (n : Z) : Z := least_div (Z.to_nat n) 2 n.

(** prime factors of n >= 1 with multiplicity, in increasing order *)
Fixpoint pfactors_f (fuel : nat) (n : Z) : list Z :=
  match fuel with
  | O => []
  | S f => if n <=? 1 then [] else lpf n :: pfactors_f f (n / lpf n)
  end.
Definition pfactors (n : Z) : list Z := pfactors_f (Z.to_nat n) n.

(** (a/n) for n >= 1: product of the local symbols (a/p) ([KroneckerProofs.local_symbol]: Euler's criterion for odd p,
    the (a/2) table for p = 2) over the prime factors of n with multiplicity. *)
Definition Kpos (a n : Z) : Z := fold_right (fun p acc => local_symbol a p * acc) 1 (pfactors n).

(** The Kronecker symbol: (a/0) = [|a| = 1]; (a/b) = (a/sign b) * prod_p (a/p)^(v_p |b|), (a/-1) = sign a. *)
Definition K (a b : Z) : Z :=
  if b =? 0 then (if Z.abs a =? 1 then 1 else 0)
  else (if b <? 0 then kron_at_m1 a else 1) * Kpos a (Z.abs b).

(** ** The factorisation is a factorisation into primes *)

Lemma least_div_spec : forall fuel d n, 2 <= d <= n -> n - d < Z.of_nat fuel ->
  (forall e, 2 <= e < d -> ~ (e | n)) ->
  d <= least_div fuel d n <= n /\ (least_div fuel d n | n) /\ forall e, 2 <= e < least_div fuel d n -> ~ (e | n).
Proof.
  induction fuel as [|f IH]; intros d n Hd Hf Hno; [cbn in Hf; lia|].
  cbn [least_div]. destruct (Z.eqb_spec (n mod d) 0) as [E|N].
  - split; [lia|]. split; [apply Zmod_divide; [lia|exact E]|exact Hno].
  - assert (d <> n) by (intros ->; rewrite Z_mod_same_full in N; lia).
    destruct (IH (d + 1) n) as (B & D & L); [lia|lia| |].
    + intros e He. destruct (Z.eq_dec e d) as [->|Ne]; [|apply Hno; lia].
      intros Hdiv. apply Zdivide_mod in Hdiv. contradiction.
    + split; [lia|]. split; assumption.
Qed.

Lemma lpf_spec : forall n, 2 <= n ->
  prime (lpf n) /\ (lpf n | n) /\ 2 <= lpf n <= n /\ forall e, 2 <= e < lpf n -> ~ (e | n).
Proof.
  intros n Hn. unfold lpf.
  destruct (least_div_spec (Z.to_nat n) 2 n) as (B & D & L); [lia|lia|intros; lia|].
  split; [|split; [exact D|split; [exact B|exact L]]].
  apply prime_alt. split; [lia|]. intros k Hk Hdiv. apply (L k); [lia|].
  eapply Z.divide_trans; [exact Hdiv|exact D].
Qed.

Lemma lpf_quot : forall n, 2 <= n -> n = lpf n * (n / lpf n) /\ 1 <= n / lpf n < n.
Proof.
  intros n Hn. destruct (lpf_spec n Hn) as (_ & D & B & _).
  pose proof (Zdivide_Zdiv_eq (lpf n) n ltac:(lia) D) as E. split; [exact E|]. nia.
Qed.

Lemma pfactors_f_spec : forall fuel n, 1 <= n -> n <= Z.of_nat fuel ->
  Forall prime (pfactors_f fuel n) /\ prodl (pfactors_f fuel n) = n.
Proof.
  induction fuel as [|f IH]; intros n H1 Hf; [lia|]. cbn [pfactors_f].
  destruct (Z.leb_spec n 1); [split; [constructor|cbn; lia]|].
  destruct (lpf_spec n ltac:(lia)) as (P & _). destruct (lpf_quot n ltac:(lia)) as (E & B).
  destruct (IH (n / lpf n)) as (F & Pr); [lia|lia|]. split; [constructor; assumption|].
  cbn [prodl fold_right]. fold (prodl (pfactors_f f (n / lpf n))). rewrite Pr. lia.
Qed.

Lemma pfactors_f_fuel : forall f1 f2 n, n <= Z.of_nat f1 -> n <= Z.of_nat f2 -> pfactors_f f1 n = pfactors_f f2 n.
Proof.
  induction f1 as [|f1 IH]; intros f2 n H1 H2.
  - destruct f2; [reflexivity|]. cbn [pfactors_f]. destruct (Z.leb_spec n 1); [reflexivity|lia].
  - destruct f2; cbn [pfactors_f]; destruct (Z.leb_spec n 1); try reflexivity; try lia.
    destruct (lpf_quot n ltac:(lia)) as (_ & B). f_equal. apply IH; lia.
Qed.

Lemma pfactors_unfold : forall n, 2 <= n -> pfactors n = lpf n :: pfactors (n / lpf n).
Proof.
  intros n Hn. unfold pfactors. destruct (Z.to_nat n) as [|f] eqn:E; [lia|]. cbn [pfactors_f].
  destruct (Z.leb_spec n 1); [lia|]. f_equal. destruct (lpf_quot n Hn) as (_ & B). apply pfactors_f_fuel; lia.
Qed.

Lemma pfactors_small : forall n, n <= 1 -> pfactors n = [].
Proof.
  intros n Hn. unfold pfactors. destruct (Z.to_nat n); [reflexivity|]. cbn [pfactors_f].
  destruct (Z.leb_spec n 1); [reflexivity|lia].
Qed.

Lemma pfactors_spec : forall n, 1 <= n -> Forall prime (pfactors n) /\ prodl (pfactors n) = n.
Proof. intros n Hn. apply pfactors_f_spec; lia. Qed.

(** ** Unfolding K along the factorisation *)

Lemma Kpos_1 : forall a, Kpos a 1 = 1.
Proof. reflexivity. Qed.

Lemma Kpos_unfold : forall a n, 2 <= n -> Kpos a n = local_symbol a (lpf n) * Kpos a (n / lpf n).
Proof. intros a n Hn. unfold Kpos. rewrite (pfactors_unfold n Hn). reflexivity. Qed.

Lemma lpf_even : forall n, 1 <= n -> lpf (2 * n) = 2.
Proof.
  intros n Hn. unfold lpf. destruct (Z.to_nat (2 * n)) eqn:E; [lia|]. cbn [least_div].
  rewrite Z.mul_comm, Z_mod_mult. reflexivity.
Qed.

Lemma Kpos_2 : forall a n, 1 <= n -> Kpos a (2 * n) = kron_at_2 a * Kpos a n.
Proof.
  intros a n Hn. rewrite Kpos_unfold by lia. rewrite lpf_even by exact Hn.
  replace (2 * n / 2) with n by (rewrite Z.mul_comm, Z.div_mul; lia). reflexivity.
Qed.

Lemma Kpos_pow2 : forall a k n, 1 <= n -> Kpos a (2 ^ Z.of_nat k * n) = kron_at_2 a ^ Z.of_nat k * Kpos a n.
Proof.
  induction k as [|k IH]; intros n Hn.
  - cbn [Z.of_nat]. rewrite !Z.pow_0_r, !Z.mul_1_l. reflexivity.
  - rewrite Nat2Z.inj_succ, !Z.pow_succ_r by lia. rewrite <- Z.mul_assoc.
    assert (0 < 2 ^ Z.of_nat k) by (apply Z.pow_pos_nonneg; lia).
    rewrite Kpos_2 by nia. rewrite IH by exact Hn. ring.
Qed.

(** ** For odd n the symbol is the Jacobi symbol of [RecipJacobi] *)

Lemma pfactors_odd : forall n, 1 <= n -> n mod 2 = 1 -> Forall oddprime (pfactors n).
Proof.
  intros n Hn Ho. destruct (pfactors_spec n Hn) as (F & P).
  apply Forall_forall. intros p I. rewrite Forall_forall in F. pose proof (F p I) as Hp.
  split; [exact Hp|]. pose proof (prime_ge_2 p Hp).
  assert (D : (p | n)) by (rewrite <- P; apply prodl_divides; exact I).
  destruct (Z.eq_dec p 2) as [->|]; [|lia]. apply Zdivide_mod in D. lia.
Qed.

Lemma local_fold_jl : forall a ps, Forall oddprime ps ->
  fold_right (fun p acc => local_symbol a p * acc) 1 ps = jl a ps.
Proof.
  induction 1 as [|p ps [Hp P2] _ IH]; [reflexivity|]. cbn [fold_right jl]. fold (jl a ps). rewrite IH.
  unfold local_symbol. destruct (Z.eqb_spec p 2); [lia|reflexivity].
Qed.

Lemma Kpos_jl : forall a n, 1 <= n -> n mod 2 = 1 -> Kpos a n = jl a (pfactors n).
Proof. intros a n Hn Ho. unfold Kpos. apply local_fold_jl. apply pfactors_odd; assumption. Qed.

Section OddLaws.
Variable n : Z.
Hypothesis Hn : 1 <= n.
Hypothesis Ho : n mod 2 = 1.

Let Hps : Forall oddprime (pfactors n) := pfactors_odd n Hn Ho.
Let Hprod : prodl (pfactors n) = n := proj2 (pfactors_spec n Hn).

Lemma J_tri : forall a, tri (Kpos a n).
Proof. intros a. rewrite Kpos_jl by assumption. apply jl_tri. Qed.

Lemma J_mod : forall a, Kpos (a mod n) n = Kpos a n.
Proof. intros a. rewrite !Kpos_jl by assumption. rewrite <- Hprod at 1. apply jl_mod. exact Hps. Qed.

Lemma J_mul : forall a b, Kpos (a * b) n = Kpos a n * Kpos b n.
Proof. intros a b. rewrite !Kpos_jl by assumption. apply jl_mul. exact Hps. Qed.

Lemma J_m1 : Kpos (-1) n = if n mod 4 =? 1 then 1 else -1.
Proof. rewrite Kpos_jl by assumption. rewrite jl_m1 by exact Hps. rewrite Hprod. reflexivity. Qed.

Lemma J_2 : Kpos 2 n = two_tab (n mod 8).
Proof. rewrite Kpos_jl by assumption. rewrite jl_2 by exact Hps. rewrite Hprod. reflexivity. Qed.

Lemma J_0 : Kpos 0 n = if n =? 1 then 1 else 0.
Proof. rewrite Kpos_jl by assumption. rewrite jl_0 by exact Hps. rewrite Hprod. reflexivity. Qed.

End OddLaws.

(** Reciprocity for odd positive m, n (coprime or not). *)
Lemma J_recip : forall m n, 1 <= m -> 1 <= n -> m mod 2 = 1 -> n mod 2 = 1 ->
  Kpos m n = eps n m * Kpos n m.
Proof.
  intros m n Hm Hn Om On. rewrite !Kpos_jl by assumption.
  pose proof (jl_recip (pfactors n) (pfactors m) (pfactors_odd n Hn On) (pfactors_odd m Hm Om)) as R.
  rewrite (proj2 (pfactors_spec n Hn)), (proj2 (pfactors_spec m Hm)) in R. exact R.
Qed.

(** ** Layer F: the algorithm *)

(** *** bit tricks *)

Lemma land7 : forall x, Z.land x 7 = x mod 8.
Proof. intros x. change 7 with (Z.ones 3). rewrite Z.land_ones by lia. reflexivity. Qed.

Lemma land3 : forall x, Z.land x 3 = x mod 4.
Proof. intros x. change 3 with (Z.ones 2). rewrite Z.land_ones by lia. reflexivity. Qed.

Lemma odd_mod2 : forall x, Z.odd x = true -> x mod 2 = 1.
Proof. intros x H. rewrite Zmod_odd, H. reflexivity. Qed.

Lemma mod2_odd : forall x, x mod 2 = 1 -> Z.odd x = true.
Proof. intros x H. rewrite Zmod_odd in H. destruct (Z.odd x); [reflexivity|discriminate]. Qed.

Lemma mod8_mod2 : forall x, (x mod 8) mod 2 = x mod 2.
Proof. intros x. symmetry. apply Zmod_div_mod; [lia|lia|exists 4; lia]. Qed.

Lemma recip_table_two_tab : forall b, b mod 2 = 1 -> recip_table (Z.land b 7) = two_tab (b mod 8).
Proof.
  intros b Hb. rewrite land7. destruct (odd_mod8 b Hb) as [-> |[-> |[-> | ->]]]; reflexivity.
Qed.

Lemma recip_table_kron2 : forall a, recip_table (Z.land a 7) = kron_at_2 a.
Proof.
  intros a. rewrite land7. unfold kron_at_2. pose proof (Z.mod_pos_bound a 8 ltac:(lia)) as B.
  pose proof (mod8_mod2 a) as E. rewrite (Zmod_even a) in E.
  assert (C : a mod 8 = 0 \/ a mod 8 = 1 \/ a mod 8 = 2 \/ a mod 8 = 3 \/ a mod 8 = 4 \/ a mod 8 = 5 \/ a mod 8 = 6 \/ a mod 8 = 7) by lia.
  destruct C as [C|[C|[C|[C|[C|[C|[C|C]]]]]]]; rewrite C in *; cbn in E; destruct (Z.even a); try discriminate; reflexivity.
Qed.

Lemma land_land3 : forall x y, Z.land (Z.land x y) 3 = Z.land (Z.land x 3) (Z.land y 3).
Proof.
  intros x y. apply Z.bits_inj'. intros n _. rewrite !Z.land_spec.
  destruct (Z.testbit x n), (Z.testbit y n), (Z.testbit 3 n); reflexivity.
Qed.

Lemma bit1_eps : forall a1 b, a1 mod 2 = 1 -> b mod 2 = 1 ->
  (if negb (Z.land (Z.land a1 b) 2 =? 0) then -1 else 1) = eps a1 b.
Proof.
  intros a1 b Ha Hb.
  assert (E : Z.land (Z.land a1 b) 2 = Z.land (Z.land (Z.land a1 b) 3) 2) by (rewrite <- (Z.land_assoc (Z.land a1 b) 3 2); reflexivity).
  rewrite E, land_land3, !land3. unfold eps.
  destruct (odd_mod4 a1 Ha) as [-> | ->]; destruct (odd_mod4 b Hb) as [-> | ->]; reflexivity.
Qed.

(** *** powers of a value in {-1,0,1} *)

Lemma tri_pow : forall x k, tri x ->
  x ^ Z.of_nat k = if Z.odd (Z.of_nat k) then x else if Z.of_nat k =? 0 then 1 else x * x.
Proof.
  intros x k Hx. induction k as [|k IH]; [reflexivity|].
  rewrite Nat2Z.inj_succ, Z.pow_succ_r by lia. rewrite IH, Z.odd_succ, <- Z.negb_odd.
  destruct (Z.eqb_spec (Z.succ (Z.of_nat k)) 0); [lia|].
  assert (C : x * x * x = x) by (destruct Hx as [->|[->| ->]]; reflexivity).
  destruct (Z.odd (Z.of_nat k)); cbn [negb]; [reflexivity|]. destruct (Z.eqb_spec (Z.of_nat k) 0); lia.
Qed.

Lemma rem2_odd : forall v, 0 <= v -> (Z.rem v 2 =? 1) = Z.odd v.
Proof. intros v Hv. rewrite Z.rem_mod_nonneg by lia. rewrite Zmod_odd. destruct (Z.odd v); reflexivity. Qed.

(** *** the inner "remove the factors 2" loop, with its value *)

Lemma strip2_val : forall fuel v x, x <> 0 -> Z.abs x < 2 ^ Z.of_nat fuel ->
  exists k x1, strip2 fuel v x = Done (v + Z.of_nat k, x1) /\ x = 2 ^ Z.of_nat k * x1 /\ Z.odd x1 = true.
Proof.
  induction fuel as [|f IH]; intros v x Hx Hb.
  - change (2 ^ Z.of_nat 0) with 1 in Hb. lia.
  - cbn [strip2]. rewrite land_1_even. destruct (Z.even x) eqn:Ev.
    + apply Z.even_spec in Ev. destruct Ev as [h Hh].
      assert (Hq : Z.quot x 2 = h) by (subst x; rewrite Z.mul_comm; apply Z.quot_mul; lia).
      rewrite Hq. rewrite Nat2Z.inj_succ, Z.pow_succ_r in Hb by lia.
      destruct (IH (v + 1) h) as (k & x1 & R & E & O); [lia|lia|].
      exists (S k), x1. split; [rewrite R; do 2 f_equal; lia|]. split; [|exact O].
      rewrite Nat2Z.inj_succ, Z.pow_succ_r by lia. lia.
    + exists O, x. split; [do 2 f_equal; cbn; lia|]. split; [cbn [Z.of_nat]; rewrite Z.pow_0_r; lia|].
      rewrite <- Z.negb_even, Ev. reflexivity.
Qed.

Lemma pow2_pos : forall k, 0 < 2 ^ Z.of_nat k.
Proof. intros k. apply Z.pow_pos_nonneg; lia. Qed.

(** *** reciprocity step with a possibly negative odd top argument *)

Lemma neg_mod4 : forall x, x mod 2 = 1 -> (- x) mod 4 = 4 - x mod 4.
Proof. intros x H. destruct (odd_mod4 x H) as [E|E]; rewrite E; Z.div_mod_to_equations; lia. Qed.

Lemma J_recip_signed : forall a1 b, a1 mod 2 = 1 -> 1 <= b -> b mod 2 = 1 ->
  Kpos a1 b = eps a1 b * Kpos b (Z.abs a1).
Proof.
  intros a1 b Ha Hb Ob.
  assert (a1 <> 0) by (intros ->; cbn in Ha; lia).
  destruct (Z.lt_trichotomy a1 0) as [Neg|[?|Pos]]; [|lia|].
  - rewrite Z.abs_neq by lia.
    assert (Om : (- a1) mod 2 = 1) by (apply odd_mod2; rewrite Z.odd_opp; apply mod2_odd; exact Ha).
    replace a1 with (-1 * - a1) at 1 by lia.
    rewrite (J_mul b Hb Ob), (J_m1 b Hb Ob), (J_recip (- a1) b ltac:(lia) Hb Om Ob).
    unfold eps. rewrite (neg_mod4 a1 Ha).
    destruct (odd_mod4 a1 Ha) as [-> | ->]; destruct (odd_mod4 b Ob) as [-> | ->];
      change (4 - 1) with 3; change (4 - 3) with 1; cbn [Z.eqb Pos.eqb andb]; ring.
  - rewrite Z.abs_eq by lia. rewrite (J_recip a1 b ltac:(lia) Hb Ha Ob). rewrite eps_comm. reflexivity.
Qed.

Lemma J_pow2 : forall b k, 1 <= b -> b mod 2 = 1 -> Kpos (2 ^ Z.of_nat k) b = Kpos 2 b ^ Z.of_nat k.
Proof.
  intros b k Hb Ob. induction k as [|k IH].
  - cbn [Z.of_nat]. rewrite !Z.pow_0_r. rewrite Kpos_jl by assumption. apply jl_1. apply pfactors_odd; assumption.
  - rewrite Nat2Z.inj_succ, !Z.pow_succ_r by lia. rewrite (J_mul b Hb Ob), IH. reflexivity.
Qed.

Lemma i64_norm_id : forall m x, - two63 <= x < two63 -> i64_norm m x = Done x.
Proof.
  intros m x H. unfold i64_norm. destruct (Z.leb_spec (- two63) x); [|lia]. destruct (Z.ltb_spec x two63); [reflexivity|lia].
Qed.

(** *** the main loop: invariant k * (a/b) *)

Lemma kron_loop_correct : forall fuel m a b k r,
  0 < b < two63 -> b mod 2 = 1 -> - two63 <= a < two63 ->
  kron_loop fuel m a b k = Done r -> r = k * Kpos a b.
Proof.
  assert (T63 : two63 = 9223372036854775808) by reflexivity.
  assert (T65 : two63 < 2 ^ Z.of_nat 65) by (vm_compute; reflexivity).
  induction fuel as [|f IH]; intros m a b k r Hb Ob Ha H; cbn [kron_loop] in H; [discriminate|].
  destruct (Z.eqb_spec a 0) as [->|Na].
  - inversion H; subst r. rewrite (J_0 b ltac:(lia) Ob). destruct (b =? 1); lia.
  - destruct (strip2_val 65 0 a Na ltac:(lia)) as (kk & a1 & R & E & O).
    rewrite R in H. cbn [bind] in H. rewrite Z.add_0_l in H.
    pose proof (pow2_pos kk) as P2.
    assert (Na1 : a1 <> 0) by (intros ->; lia).
    assert (Ba1 : Z.abs a1 <= Z.abs a) by (rewrite E, Z.abs_mul, (Z.abs_eq (2 ^ Z.of_nat kk)) by lia; nia).
    pose proof (odd_not_two63 a1 O) as N63.
    rewrite (i64_norm_id m (Z.abs a1)) in H by lia. cbn [bind] in H.
    unfold zrem in H. destruct (Z.eqb_spec (Z.abs a1) 0); [lia|]. cbn [bind] in H.
    assert (Oa1 : a1 mod 2 = 1) by (apply odd_mod2; exact O).
    assert (Oabs : Z.abs a1 mod 2 = 1).
    { apply odd_mod2. destruct (Z.abs_spec a1) as [[_ ->]|[_ ->]]; [exact O|rewrite Z.odd_opp; exact O]. }
    pose proof (Z.rem_bound_pos b (Z.abs a1) ltac:(lia) ltac:(lia)) as Br.
    apply IH in H; [|lia|exact Oabs|lia].
    rewrite (Z.rem_mod_nonneg b (Z.abs a1)) in H by lia.
    rewrite (J_mod (Z.abs a1) ltac:(lia) Oabs) in H.
    rewrite H, E. rewrite (J_mul b ltac:(lia) Ob), (J_pow2 b kk ltac:(lia) Ob).
    rewrite (J_recip_signed a1 b Oa1 ltac:(lia) Ob).
    assert (K2 : (if Z.rem (Z.of_nat kk) 2 =? 1 then k * recip_table (Z.land b 7) else k) = k * Kpos 2 b ^ Z.of_nat kk).
    { rewrite rem2_odd by lia. rewrite (tri_pow _ kk (J_tri b ltac:(lia) Ob 2)).
      rewrite (recip_table_two_tab b Ob), <- (J_2 b ltac:(lia) Ob).
      destruct (Z.odd (Z.of_nat kk)); [reflexivity|].
      destruct (Z.of_nat kk =? 0); [lia|].
      assert (S2 : Kpos 2 b * Kpos 2 b = 1).
      { rewrite (J_2 b ltac:(lia) Ob). unfold two_tab. destruct (_ || _); reflexivity. }
      rewrite S2. lia. }
    rewrite K2.
    pose proof (bit1_eps a1 b Oa1 Ob) as B1.
    destruct (negb (Z.land (Z.land a1 b) 2 =? 0)); rewrite <- B1; ring.
Qed.

(** *** the steps before the loop, and the theorem *)

Lemma even_lor : forall a b, Z.even (Z.lor a b) = Z.even a && Z.even b.
Proof.
  intros a b. rewrite <- !Z.negb_odd, <- !Z.bit0_odd, Z.lor_spec.
  destruct (Z.testbit a 0), (Z.testbit b 0); reflexivity.
Qed.

Lemma kron_at_2_tri : forall a, tri (kron_at_2 a).
Proof. intros a. unfold kron_at_2, tri. destruct (Z.even a); [lia|]. destruct (_ || _); lia. Qed.

Lemma kron_at_2_odd_sq : forall a, Z.even a = false -> kron_at_2 a * kron_at_2 a = 1.
Proof. intros a H. unfold kron_at_2. rewrite H. destruct (_ || _); reflexivity. Qed.

Lemma K_b0 : forall a, K a 0 = if Z.abs a =? 1 then 1 else 0.
Proof. reflexivity. Qed.

Lemma K_both_even : forall a b, Z.even a = true -> Z.even b = true -> b <> 0 -> K a b = 0.
Proof.
  intros a b Ea Eb Nb. unfold K. destruct (Z.eqb_spec b 0); [contradiction|].
  apply Z.even_spec in Eb. destruct Eb as [h Hh].
  assert (E : Z.abs b = 2 * Z.abs h) by (subst b; rewrite Z.abs_mul; reflexivity).
  rewrite E, Kpos_2 by lia. unfold kron_at_2. rewrite Ea. ring.
Qed.

Lemma kronecker_f_correct : forall f2 m a b r, - two63 <= a < two63 -> - two63 <= b < two63 ->
  kronecker_f f2 m a b = Done r -> r = K a b.
Proof.
  assert (T63 : two63 = 9223372036854775808) by reflexivity.
  assert (T65 : two63 < 2 ^ Z.of_nat 65) by (vm_compute; reflexivity).
  intros f2 m a b r Ha Hb H. unfold kronecker_f in H.
  destruct (Z.eqb_spec b 0) as [->|Nb].
  - inversion H; subst r. rewrite K_b0.
    destruct (Z.eqb_spec a 1); destruct (Z.eqb_spec a (-1)); destruct (Z.eqb_spec (Z.abs a) 1); cbn [orb]; try reflexivity; lia.
  - rewrite land_1_even, even_lor in H. destruct (Z.even a && Z.even b) eqn:EE.
    + inversion H; subst r. apply andb_prop in EE. destruct EE. symmetry. apply K_both_even; assumption.
    + destruct (strip2_val 65 0 b Nb ltac:(lia)) as (kk & b1 & R & E & O).
      rewrite R in H. cbn [bind] in H. rewrite Z.add_0_l in H.
      pose proof (pow2_pos kk) as P2.
      assert (Nb1 : b1 <> 0) by (intros ->; lia).
      assert (Bb1 : Z.abs b1 <= Z.abs b) by (rewrite E, Z.abs_mul, (Z.abs_eq (2 ^ Z.of_nat kk)) by lia; nia).
      pose proof (odd_not_two63 b1 O) as N63.
      assert (Oabs : Z.abs b1 mod 2 = 1).
      { apply odd_mod2. destruct (Z.abs_spec b1) as [[_ ->]|[_ ->]]; [exact O|rewrite Z.odd_opp; exact O]. }
      assert (Eabs : Z.abs b = 2 ^ Z.of_nat kk * Z.abs b1) by (rewrite E, Z.abs_mul, (Z.abs_eq (2 ^ Z.of_nat kk)) by lia; reflexivity).
      (* the value of k after step 2 *)
      assert (K2 : (if Z.rem (Z.of_nat kk) 2 =? 1 then recip_table (Z.land a 7) else 1) = kron_at_2 a ^ Z.of_nat kk).
      { rewrite rem2_odd by lia. rewrite (tri_pow _ kk (kron_at_2_tri a)), recip_table_kron2.
        destruct (Z.odd (Z.of_nat kk)) eqn:Ok; [reflexivity|].
        destruct (Z.eqb_spec (Z.of_nat kk) 0) as [|Nk]; [reflexivity|].
        (* kk > 0: b is even, so a is odd *)
        assert (Eb : Z.even b = true).
        { rewrite E. destruct kk as [|kk']; [lia|]. rewrite Nat2Z.inj_succ, Z.pow_succ_r by lia.
          rewrite <- Z.mul_assoc, Z.even_mul. reflexivity. }
        rewrite Eb, andb_true_r in EE. rewrite kron_at_2_odd_sq by exact EE. reflexivity. }
      rewrite K2 in H.
      unfold K. destruct (Z.eqb_spec b 0); [contradiction|].
      rewrite Eabs, Kpos_pow2 by lia.
      destruct (Z.ltb_spec b1 0) as [Neg|Pos].
      * rewrite (i64_norm_id m (- b1)) in H by lia. cbn [bind] in H.
        apply kron_loop_correct in H; [|lia|apply odd_mod2; rewrite Z.odd_opp; exact O|exact Ha].
        assert (Lb : b < 0) by nia. destruct (Z.ltb_spec b 0); [|lia].
        rewrite Z.abs_neq by lia. rewrite H. unfold kron_at_m1. destruct (a <? 0); ring.
      * cbn [bind] in H.
        apply kron_loop_correct in H; [|lia|apply odd_mod2; exact O|exact Ha].
        assert (Lb : 0 < b) by nia. destruct (Z.ltb_spec b 0); [lia|].
        rewrite Z.abs_eq by lia. rewrite H. ring.
Qed.

(** [P] On the whole i64 x i64 range, in both build profiles, the model of [kronecker_symbol_i64] returns the
    Kronecker symbol [K a b]. *)
Theorem kronecker_spec : forall m a b, - two63 <= a < two63 -> - two63 <= b < two63 ->
  kronecker m a b = Done (K a b).
Proof.
  intros m a b Ha Hb. destruct (kronecker_total m a b Ha Hb) as [r Hr]. rewrite Hr. f_equal.
  rewrite kronecker_unfold in Hr. eapply kronecker_f_correct; eassumption.
Qed.

(** ** K is the multiplicative extension of the local symbols: it does not depend on the order in which the prime
       factors are taken out (so the "smallest prime factor first" recursion above is no restriction) *)

Lemma lpf_unique : forall n q, 2 <= n -> 2 <= q -> (q | n) -> (forall e, 2 <= e < q -> ~ (e | n)) -> lpf n = q.
Proof.
  intros n q Hn Hq D L. destruct (lpf_spec n Hn) as (_ & D' & B' & L').
  destruct (Z.lt_trichotomy (lpf n) q) as [Lt|[E|Gt]]; [|exact E|].
  - exfalso. apply (L (lpf n)); [lia|exact D'].
  - exfalso. apply (L' q); [lia|exact D].
Qed.

Lemma Kpos_prime_mul_aux : forall (f : nat) a p n, prime p -> 1 <= n -> n <= Z.of_nat f ->
  Kpos a (p * n) = local_symbol a p * Kpos a n.
Proof.
  induction f as [|f IH]; intros a p n Hp Hn Hf; [lia|].
  pose proof (prime_ge_2 p Hp) as P2.
  assert (HN : 2 <= p * n) by nia.
  destruct (lpf_spec (p * n) HN) as (Q & D & B & L).
  rewrite (Kpos_unfold a (p * n) HN).
  destruct (Z.eq_dec (lpf (p * n)) p) as [E|N].
  - rewrite E. replace (p * n / p) with n by (rewrite Z.mul_comm, Z.div_mul; lia). reflexivity.
  - set (q := lpf (p * n)) in *.
    assert (Dn : (q | n)).
    { destruct (prime_mult q Q p n D) as [Dp|Dn]; [|exact Dn].
      exfalso. apply N. apply prime_div_prime; assumption. }
    assert (Hn2 : 2 <= n) by (apply Z.divide_pos_le in Dn; lia).
    assert (Eq : lpf n = q).
    { apply lpf_unique; [exact Hn2|lia|exact Dn|].
      intros e He De. apply (L e He). apply Z.divide_mul_r. exact De. }
    destruct (lpf_quot n Hn2) as (En & Bn). rewrite Eq in En, Bn.
    assert (Eq2 : p * n / q = p * (n / q)).
    { rewrite En at 1. replace (p * (q * (n / q))) with (p * (n / q) * q) by ring. apply Z.div_mul. lia. }
    rewrite Eq2, (IH a p (n / q) Hp) by lia.
    rewrite (Kpos_unfold a n Hn2), Eq. ring.
Qed.

Lemma Kpos_prime_mul : forall a p n, prime p -> 1 <= n -> Kpos a (p * n) = local_symbol a p * Kpos a n.
Proof. intros a p n Hp Hn. apply (Kpos_prime_mul_aux (Z.to_nat n)); [exact Hp|exact Hn|lia]. Qed.

Lemma prodl_primes_pos : forall ps, Forall prime ps -> 1 <= prodl ps.
Proof.
  induction 1 as [|p ps Hp _ IH]; cbn [prodl fold_right]; [lia|]. fold (prodl ps).
  pose proof (prime_ge_2 p Hp). nia.
Qed.

(** (a / p1 ... pk) = prod (a / pi) for ANY list of primes. *)
Lemma Kpos_factorisation : forall a ps, Forall prime ps ->
  Kpos a (prodl ps) = fold_right (fun p acc => local_symbol a p * acc) 1 ps.
Proof.
  induction 1 as [|p ps Hp Hps IH]; [reflexivity|]. cbn [prodl fold_right]. fold (prodl ps).
  rewrite Kpos_prime_mul by (try exact Hp; apply prodl_primes_pos; exact Hps). rewrite IH. reflexivity.
Qed.

(** The defining equations of the Kronecker symbol. Together with [K_b0] and the existence of a factorisation
    ([factorisation_exists]) they determine K. *)
Theorem K_factorisation : forall a u ps, u = 1 \/ u = -1 -> Forall prime ps ->
  K a (u * prodl ps) = (if u <? 0 then kron_at_m1 a else 1) * fold_right (fun p acc => local_symbol a p * acc) 1 ps.
Proof.
  intros a u ps Hu Hps. pose proof (prodl_primes_pos ps Hps) as P. unfold K.
  destruct (Z.eqb_spec (u * prodl ps) 0); [nia|].
  assert (E : Z.abs (u * prodl ps) = prodl ps) by (destruct Hu as [-> | ->]; lia).
  rewrite E, Kpos_factorisation by exact Hps.
  destruct Hu as [-> | ->].
  - destruct (Z.ltb_spec (1 * prodl ps) 0); [lia|]. reflexivity.
  - destruct (Z.ltb_spec (-1 * prodl ps) 0); [|lia]. reflexivity.
Qed.

Theorem factorisation_exists : forall b, b <> 0 -> exists u ps, (u = 1 \/ u = -1) /\ Forall prime ps /\ b = u * prodl ps.
Proof.
  intros b Hb. destruct (pfactors_spec (Z.abs b) ltac:(lia)) as (F & P).
  exists (Z.sgn b), (pfactors (Z.abs b)). split; [lia|]. split; [exact F|]. rewrite P. lia.
Qed.

Lemma K_tri : forall a b, tri (K a b).
Proof.
  intros a b. unfold K. destruct (b =? 0); [destruct (_ =? 1); unfold tri; lia|].
  apply tri_mul.
  - unfold kron_at_m1. destruct (b <? 0); [destruct (a <? 0)|]; unfold tri; lia.
  - unfold Kpos. induction (pfactors (Z.abs b)) as [|p ps IH]; [unfold tri; cbn; lia|].
    cbn [fold_right]. apply tri_mul; [|exact IH]. unfold local_symbol. destruct (p =? 2); [apply kron_at_2_tri|apply legendre_tri].
Qed.

Lemma done_inj : forall (A : Type) (x y : A), Done x = Done y -> x = y.
Proof. intros A x y H. injection H. auto. Qed.

(** On the box of [kronecker_bounded] the reference symbol [kron_ref] is K. *)
Lemma kron_ref_K : forall a b, -128 <= a <= 128 -> -128 <= b <= 128 -> kron_ref a b = K a b.
Proof.
  intros a b Ha Hb. pose proof (kronecker_bounded Checked a b Ha Hb) as H1.
  assert (T63 : two63 = 9223372036854775808) by reflexivity.
  rewrite kronecker_spec in H1 by lia. inversion H1. reflexivity.
Qed.
