(** * IdealW6NoOver (C16, sixth wave): [P] inv_spec_no_over_order.  In an order with commutative associative table, unit
      element e_0, non-singular trace form, and NO PROPER OVER-ORDER ([no_over_order]: every lattice (1/p) h containing
      O and closed under the product is O), [Ideal::inv] on a full-rank lattice I in normal form returns (a, N) with
      I * N = (a).  The over-order used is the multiplier ring of N, whose basis is what [Ideal::inv] returns on
      J = I * N (IdealW6Over).  Style: ssreflect/MathComp. *)
From Coq Require Import ZArith List.
From mathcomp Require Import all_ssreflect ssralg.
From mathcomp Require Import ssrZ zify.
From RNT.Model Require Import Base LinAlg MultTable Ideal.
From RNT.Model Require Hnf.
From RNT.Refine Require Import MatZ HnfSpec IdealMul IdealSpec IdealLaws IdealInv IdealCapZ MultTableOps AlgNormMx AlgNormFlags DetIdeal.
From RNT.Refine Require Import IdealW6Dual IdealW6Prod IdealW6Colon IdealW6Full IdealW6Nak IdealW6Max IdealW6Total IdealW6Over.
Set Implicit Arguments.
Unset Strict Implicit.
Unset Printing Implicit Defensive.

Lemma cap_z_member I n a : wf n (i_hnf I) -> is_hnf (i_hnf I) = true -> length (i_hnf I) = n -> (1 <= n)%coq_nat ->
  cap_z I = Done a -> In_rowspanZ n (scalar_vec n a) (i_hnf I).
Proof.
move=> WI II LI Hn CZ.
have [a' [Ea' [_ ha']]] := @cap_z_spec I n WI II LI Hn.
move: Ea'; rewrite CZ => -[ea']; rewrite -{a'}ea' in ha'.
case: n Hn ha' {WI LI} => [|d] Hn ha'; first by lia.
by rewrite scalar_vec_cons; have := proj2 (ha' a) (Z.divide_refl a); rewrite /= Nat.sub_0_r.
Qed.

Theorem inv_spec_no_over_order m I D a N :
  let t := i_table I in let n := length t in
  tshape t -> table_comm t = true -> table_assoc t = true -> (1 <= n)%coq_nat ->
  (forall y, length y = n -> bil t y (unit_vec n 0) = y) ->
  no_over_order t ->
  wf n (i_hnf I) -> is_hnf (i_hnf I) = true -> length (i_hnf I) = n ->
  get_inv_diff t = Done D -> ideal_inv m I D = Done (a, N) ->
  [/\ i_table N = t, wf n (i_hnf N), is_hnf (i_hnf N) = true, cap_z I = Done a /\ (0 < a)%Z
    & (forall v, In_rowspanZ n v (prod_rows t (i_hnf I) (i_hnf N)) <->
                 exists c, length c = n /\ v = bil t (scalar_vec n a) c) /\
      inv_flag m I (a, N) = Done true].
Proof.
move=> t n Ht Hc Has Hn Hu Hno WI II LI ED EN.
have [TN WN IN [CZ apos] Sp] := @inv_dual_spec m I D a N Ht Hc Has Hn WI II LI ED EN.
have a0 : a <> 0%Z by lia.
apply: (@inv_spec_maximal_at m I D a N) => //.
have HaI := cap_z_member WI II LI Hn CZ.
have ct : cube n t by apply: tshape_cube.
(* J = I * N *)
have [P EP] := @mul_total m I N Ht WI WN Hn TN.
have [TP [IP [WP SP]]] := @mul_spec m I N P Ht WI WN Hn EP.
have hrP := is_hnf_hnf_rows n (i_hnf P) WP IP.
have one_l y : length y = n -> bil t (unit_vec n 0) y = y by exact: (@unit_l t Ht Hc Hu y).
have aN u : length u = n -> In_rowspanZ n (MatZ.vscale a u) (i_hnf N).
  exact: (@colon_contains_scalars t Ht (i_hnf I) (i_hnf N) a Sp u).
have LP : length (i_hnf P) = n.
  have aa0 : (a * a)%Z <> 0%Z by lia.
  apply: (hnf_full_length hrP aa0) => i hi; apply/SP.
  have := @prod_rows_member t (i_hnf I) (i_hnf N) _ _ Ht WI WN HaI (aN _ (unit_vec_length n i)).
  by rewrite scalar_vec_scale bil_scale_l // bil_scale_r // one_l ?unit_vec_length // vscale_vscale.
(* inv on J *)
case: P TP EP IP WP SP hrP LP => HP tP /= TP; rewrite {tP}TP => EP IP WP SP hrP LP.
have [a2 [N2 EN2]] := @inv_total m (mkIdeal HP t) D Ht Hc Has Hn Hu WP IP LP ED.
have [TN2 WN2 IN2 [CZ2 a2pos] Sp2] := @inv_dual_spec m (mkIdeal HP t) D a2 N2 Ht Hc Has Hn WP IP LP ED EN2.
have a20 : a2 <> 0%Z by lia.
have Ha2P := @cap_z_member (mkIdeal HP t) n a2 WP IP LP Hn CZ2.
have hrN2 := is_hnf_hnf_rows n (i_hnf N2) WN2 IN2.
have LN2 : length (i_hnf N2) = n.
  apply: (hnf_full_length hrN2 a20) => i hi.
  exact: (@colon_contains_scalars t Ht HP (i_hnf N2) a2 Sp2 _ (unit_vec_length n i)).
have [k [Ek k0]] := @a_divides_a2 t Ht Hc Hn (i_hnf I) (i_hnf N) a WI WN Sp HP (i_hnf N2) a2 SP LN2 a20 Ha2P.
exact: (@mult_ring_at_N t Ht Hc Has Hn Hu Hno (i_hnf I) (i_hnf N) a WI WN a0 Sp HaI HP (i_hnf N2) a2 WP SP WN2 LN2 a20 Sp2 Ha2P k Ek k0).
Qed.
