(** * LinAlgTotal: on well-shaped input the elimination routines return normally (no bounds-check
    or division panic), and they keep the shape. Style: stdlib + lia. *)
From RNT.Model Require Import Base Poly LinAlg.
From RNT.Refine Require Import LinAlgList LinAlgStep LinAlgIim LinAlgSupp.
From Coq Require Import Lia List Arith.
Import ListNotations.

Section Field.
Context {T : Type} (F : field_ops T).
Notation R := (fr F).
Notation zero := (r0 (fr F)).

Definition rows_len (m : nat) (a : list (list T)) : Prop := Forall (fun r => length r = m) a.

Lemma rows_len_nth m a r : rows_len m a -> (r < length a)%nat -> length (nth r a []) = m.
Proof. intros H Hr. unfold rows_len in H. rewrite Forall_forall in H. apply H. now apply nth_In. Qed.

Lemma rows_len_upd m a i x : rows_len m a -> length x = m -> rows_len m (upd a i x).
Proof.
  intros H Hx. revert i. induction H as [|y t Hy Ht IH]; intros [|i]; cbn; try constructor; auto.
  apply IH.
Qed.

Lemma rows_len_swap m a i j a' : rows_len m a -> swap_chk a i j = Done a' -> rows_len m a'.
Proof.
  intros H E. unfold swap_chk in E. bind_inv E as x Ex. bind_inv E as y Ey. injection E as <-.
  apply nth_chk_inv in Ex as [Hi Ex]. apply nth_chk_inv in Ey as [Hj Ey].
  apply rows_len_upd; [apply rows_len_upd; auto|].
  - rewrite <- (Ey []). now apply rows_len_nth.
  - rewrite <- (Ex []). now apply rows_len_nth.
Qed.

Lemma rows_len_app m a b : rows_len m a -> rows_len m b -> rows_len m (a ++ b).
Proof. intros. now apply Forall_app. Qed.

Lemma rows_len_firstn m a k : rows_len m a -> rows_len m (firstn k a).
Proof.
  intros H. unfold rows_len in *. rewrite Forall_forall in *. intros x Hx. apply H.
  rewrite <- (firstn_skipn k a). apply in_or_app. now left.
Qed.

Lemma rows_len_skipn m a k : rows_len m a -> rows_len m (skipn k a).
Proof.
  intros H. unfold rows_len in *. rewrite Forall_forall in *. intros x Hx. apply H.
  rewrite <- (firstn_skipn k a). apply in_or_app. now right.
Qed.

Lemma mapM_rows (f : list T -> outcome (list T)) m a :
  (forall r, length r = m -> exists r', f r = Done r' /\ length r' = m) ->
  rows_len m a -> exists a', mapM f a = Done a' /\ rows_len m a' /\ length a' = length a.
Proof.
  intros Hf H. induction H as [|x t Hx Ht IH]; cbn.
  - exists []. repeat split; auto. constructor.
  - destruct (Hf x Hx) as (x' & -> & Lx'). destruct IH as (t' & -> & Ht' & Lt'). cbn.
    exists (x' :: t'). repeat split; cbn; auto. now constructor.
Qed.

Lemma find_in_col_rows c j m rows :
  rows_len m rows -> (c < m)%nat -> exists o, find_in_col F c j rows = Done o.
Proof.
  intros H Hc. apply find_in_col_total. unfold rows_len in H. rewrite Forall_forall in H.
  intros r Hr. rewrite (H r Hr). lia.
Qed.

Lemma zip_range_len lo cnt g (s r t : list T) : zip_range lo cnt g s r = Done t -> length t = length r.
Proof. intros H. now apply zip_range_inv in H as (_ & L & _). Qed.

(** ** determinant *)
Lemma det_loop_total cnt : forall i n a result,
  (cnt + i = n)%nat -> length a = n -> rows_len n a -> exists res, det_loop F cnt i n a result = Done res.
Proof.
  induction cnt as [|c IH]; intros i n a result Hn La Ha; cbn [det_loop]; eauto.
  destruct (find_in_col_rows i i n (skipn i a)) as [o Eo]; [now apply rows_len_skipn|lia|].
  rewrite Eo. cbn [bind]. pose proof (find_in_col_inv F _ _ _ _ Eo) as Ho. destruct o as [idx|]; eauto.
  destruct Ho as (B & _ & NZ & _). rewrite skipn_length in B. rewrite nth_skipn in NZ.
  replace (i + (idx - i))%nat with idx in NZ by lia.
  destruct (swap_chk_total a i idx) as [as_ Eas]; try lia. rewrite Eas. cbn [bind].
  pose proof (rows_len_swap _ _ _ _ _ Ha Eas) as Has.
  pose proof (swap_chk_inv _ _ _ _ Eas) as (_ & _ & Las & Nas).
  rewrite (nth_chk_lt as_ i []) by lia. cbn [bind].
  set (ai := nth i as_ []).
  assert (Lai : length ai = n) by (apply rows_len_nth; auto; lia).
  assert (Pnz : is0 R (nth i ai zero) = false).
  { unfold ai. rewrite Nas, Nat.eqb_refl. exact NZ. }
  destruct (mapM_rows (det_elim_row F i n ai) n (skipn (S i) as_)) as (rest & -> & Hrest & Lrest).
  { intros r Lr. unfold det_elim_row.
    rewrite (nth_chk_lt r i zero), (nth_chk_lt ai i zero) by lia. cbn [bind].
    unfold div_chk. rewrite Pnz. cbn [bind].
    destruct (zip_range_total i (n - i) (fun _ u v => rsub R u (rmul R (fdiv F (nth i r zero) (nth i ai zero)) v)) ai r)
      as [t Et]; try lia.
    exists t. split; auto. apply zip_range_len in Et. lia. }
  { now apply rows_len_skipn. }
  cbn [bind]. rewrite skipn_length in Lrest.
  set (a' := firstn (S i) as_ ++ rest).
  assert (La' : length a' = n) by (unfold a'; rewrite app_length, firstn_length; lia).
  assert (Ha' : rows_len n a') by (apply rows_len_app; auto; now apply rows_len_firstn).
  rewrite (nth_chk_lt a' i []) by lia. cbn [bind].
  rewrite (nth_chk_lt (nth i a' []) i zero) by (rewrite rows_len_nth with (m := n); auto; lia). cbn [bind].
  apply IH; auto. lia.
Qed.

Lemma determinant_total a :
  rows_len (length a) a -> exists d, determinant F a = Done d.
Proof. intros H. unfold determinant. apply det_loop_total; auto. Qed.


(** ** matrix::inv *)
Lemma inv_elim_total i n ai bi :
  length ai = n -> length bi = n -> (i < n)%nat ->
  forall a b j, length a = length b -> rows_len n a -> rows_len n b ->
  exists a' b', inv_elim F i n ai bi j a b = Done (a', b') /\
                rows_len n a' /\ rows_len n b' /\ length a' = length a /\ length b' = length b.
Proof.
  intros Lai Lbi Hi. induction a as [|aj a IH]; intros [|bj b] j L Ha Hb; cbn in L; try lia.
  - exists [], []. cbn. repeat split; auto; constructor.
  - inversion Ha as [|? ? Laj Ha']; subst. inversion Hb as [|? ? Lbj Hb']; subst.
    destruct (IH b (S j) ltac:(lia) Ha' Hb') as (a1 & b1 & E1 & Ha1 & Hb1 & La1 & Lb1).
    cbn [inv_elim]. destruct (Nat.eqb i j).
    + cbn [bind]. rewrite E1. cbn [bind]. exists (aj :: a1), (bj :: b1).
      repeat split; cbn; auto; try constructor; auto.
    + rewrite (nth_chk_lt aj i zero) by lia. cbn [bind].
      destruct (zip_range_total 0 (length ai) (fun _ u v => rsub R u (rmul R (nth i aj zero) v)) ai aj) as [aj1 Ea]; try lia.
      destruct (zip_range_total 0 (length ai) (fun _ u v => rsub R u (rmul R (nth i aj zero) v)) bi bj) as [bj1 Eb]; try lia.
      rewrite Ea. cbn [bind]. rewrite Eb. cbn [bind]. rewrite E1. cbn [bind].
      exists (aj1 :: a1), (bj1 :: b1).
      apply zip_range_len in Ea. apply zip_range_len in Eb.
      repeat split; cbn; auto; try constructor; auto; lia.
Qed.

Lemma inv_loop_total cnt : forall i n a b,
  (cnt + i = n)%nat -> length a = n -> length b = n -> rows_len n a -> rows_len n b ->
  exists res, inv_loop F cnt i n a b = Done res /\
              match res with Ok b' => length b' = n /\ rows_len n b' | Err _ => True end.
Proof.
  induction cnt as [|c IH]; intros i n a b Hn La Lb Ha Hb; cbn [inv_loop].
  { exists (Ok b). auto. }
  destruct (find_in_col_rows i i n (skipn i a)) as [o Eo]; [now apply rows_len_skipn|lia|].
  rewrite Eo. cbn [bind]. pose proof (find_in_col_inv F _ _ _ _ Eo) as Ho. destruct o as [idx|].
  2:{ exists (Err MatrixNotInvertible). auto. }
  destruct Ho as (B & _ & NZ & _). rewrite skipn_length in B. rewrite nth_skipn in NZ.
  replace (i + (idx - i))%nat with idx in NZ by lia.
  destruct (swap_chk_total a i idx) as [as_ Eas]; try lia. rewrite Eas. cbn [bind].
  destruct (swap_chk_total b i idx) as [bs Ebs]; try lia. rewrite Ebs. cbn [bind].
  pose proof (rows_len_swap _ _ _ _ _ Ha Eas) as Has.
  pose proof (rows_len_swap _ _ _ _ _ Hb Ebs) as Hbs.
  pose proof (swap_chk_inv _ _ _ _ Eas) as (_ & _ & Las & Nas).
  pose proof (swap_chk_inv _ _ _ _ Ebs) as (_ & _ & Lbs & _).
  rewrite (nth_chk_lt as_ i []), (nth_chk_lt bs i []) by lia. cbn [bind].
  set (ai := nth i as_ []). set (bi := nth i bs []).
  assert (Lai : length ai = n) by (apply rows_len_nth; auto; lia).
  assert (Lbi : length bi = n) by (apply rows_len_nth; auto; lia).
  rewrite (nth_chk_lt ai i zero) by lia. cbn [bind].
  assert (Pnz : is0 R (nth i ai zero) = false).
  { unfold ai. rewrite Nas, Nat.eqb_refl. exact NZ. }
  unfold inv_chk. rewrite Pnz. cbn [bind].
  destruct (upd_range_total 0 n (fun x => rmul R x (finv F (nth i ai zero))) ai) as [ai' Eai']; try lia.
  destruct (upd_range_total 0 n (fun x => rmul R x (finv F (nth i ai zero))) bi) as [bi' Ebi']; try lia.
  rewrite Eai'. cbn [bind]. rewrite Ebi'. cbn [bind].
  apply zip_range_len in Eai'. apply zip_range_len in Ebi'.
  destruct (inv_elim_total i n ai' bi' ltac:(lia) ltac:(lia) ltac:(lia) (upd as_ i ai') (upd bs i bi') 0%nat)
    as (a' & b' & E' & Ha' & Hb' & La' & Lb').
  { rewrite !upd_length. lia. }
  { apply rows_len_upd; auto; lia. }
  { apply rows_len_upd; auto; lia. }
  rewrite E'. cbn [bind]. rewrite upd_length in La', Lb'.
  apply IH; auto; lia.
Qed.

Lemma identity_rows n : rows_len n (identity F n).
Proof.
  unfold rows_len, identity. rewrite Forall_forall. intros r Hr.
  apply in_map_iff in Hr as (i & <- & _). now rewrite map_length, seq_length.
Qed.

Lemma inv_total_rows a :
  rows_len (length a) a ->
  exists res, inv F a = Done res /\
              match res with Ok b' => length b' = length a /\ rows_len (length a) b' | Err _ => True end.
Proof.
  intros H. unfold inv. apply inv_loop_total; auto.
  - apply identity_length.
  - apply identity_rows.
Qed.

Lemma inv_total a : rows_len (length a) a -> exists res, inv F a = Done res.
Proof. intros H. destruct (inv_total_rows a H) as (res & E & _). eauto. Qed.

(** ** solve_linear_system *)
Lemma solve_elim_total n col row : (col < n)%nat -> (row < n)%nat ->
  forall cnt i a b, (i + cnt <= n)%nat -> length a = n -> rows_len n a -> length b = n ->
  exists a' b', solve_elim F cnt i col row a b = Done (a', b') /\
                length a' = n /\ rows_len n a' /\ length b' = n.
Proof.
  intros Hcol Hrow. induction cnt as [|c IH]; intros i a b Hi La Ha Lb; cbn [solve_elim].
  - exists a, b. auto.
  - destruct (Nat.eqb i col); [apply IH; auto; lia|].
    rewrite (nth_chk_lt a row []) by lia. cbn [bind].
    rewrite (nth_chk_lt (nth row a []) i zero) by (rewrite rows_len_nth with (m := n); auto; lia). cbn [bind].
    set (coef := nth i (nth row a []) zero).
    destruct (mapM_rows (fun r => do x <- nth_chk r col; do y <- nth_chk r i;
                                   Done (upd r i (rsub R y (rmul R coef x)))) n a) as (a1 & -> & Ha1 & La1); auto.
    { intros r Lr. rewrite (nth_chk_lt r col zero), (nth_chk_lt r i zero) by lia. cbn [bind].
      eexists. split; [reflexivity|]. now rewrite upd_length. }
    cbn [bind]. rewrite (nth_chk_lt b col zero), (nth_chk_lt b i zero) by lia. cbn [bind].
    apply IH; auto; try lia. now rewrite upd_length.
Qed.

Lemma solve_loop_total cnt : forall row n a b,
  (cnt + row = n)%nat -> length a = n -> rows_len n a -> length b = n ->
  exists res, solve_loop F cnt row n a b = Done res.
Proof.
  induction cnt as [|c IH]; intros row n a b Hn La Ha Lb; cbn [solve_loop]; eauto.
  rewrite (nth_chk_lt a row []) by lia. cbn [bind].
  assert (Lrow : length (nth row a []) = n) by (apply rows_len_nth; auto; lia).
  destruct (find_in_row_total F (n - row) row (skipn row (nth row a []))) as [o Eo].
  { rewrite skipn_length. lia. }
  rewrite Eo. cbn [bind]. pose proof (find_in_row_inv F _ _ _ _ Eo) as Ho. destruct o as [nxt|]; eauto.
  destruct Ho as (B & _ & NZ & _). rewrite nth_skipn in NZ.
  replace (row + (nxt - row))%nat with nxt in NZ by lia.
  destruct (mapM_rows (fun r => swap_chk r row nxt) n a) as (a1 & Ea1 & Ha1 & La1); auto.
  { intros r Lr. destruct (swap_chk_total r row nxt) as [r' Er']; try lia.
    exists r'. split; auto. apply swap_chk_inv in Er' as (_ & _ & L & _). lia. }
  rewrite Ea1. cbn [bind].
  destruct (swap_chk_total b row nxt) as [b1 Eb1]; try lia. rewrite Eb1. cbn [bind].
  pose proof (swap_chk_inv _ _ _ _ Eb1) as (_ & _ & Lb1 & _).
  rewrite (nth_chk_lt a1 row []) by lia. cbn [bind].
  assert (Lrow1 : length (nth row a1 []) = n) by (apply rows_len_nth; auto; lia).
  rewrite (nth_chk_lt (nth row a1 []) row zero) by lia. cbn [bind].
  assert (Anz : is0 R (nth row (nth row a1 []) zero) = false).
  { destruct (swap_rows_ent F _ _ _ _ Ea1) as [_ N]. specialize (N row row ltac:(lia)). unfold ent in N.
    rewrite N. unfold swp. now rewrite Nat.eqb_refl. }
  set (arc := nth row (nth row a1 []) zero) in *.
  destruct (mapM_rows (fun r => do x <- nth_chk r row; do q <- div_chk F x arc; Done (upd r row q)) n a1)
    as (a2 & -> & Ha2 & La2); auto.
  { intros r Lr. rewrite (nth_chk_lt r row zero) by lia. cbn [bind]. unfold div_chk. rewrite Anz. cbn [bind].
    eexists. split; [reflexivity|]. now rewrite upd_length. }
  cbn [bind]. rewrite (nth_chk_lt b1 row zero) by lia. cbn [bind]. unfold div_chk at 1. rewrite Anz. cbn [bind].
  destruct (solve_elim_total n row row ltac:(lia) ltac:(lia) n 0%nat a2
              (upd b1 row (fdiv F (nth row b1 zero) arc))) as (a' & b' & -> & La' & Ha' & Lb'); auto; try lia.
  { rewrite upd_length. lia. }
  cbn [bind]. apply IH; auto. lia.
Qed.

Lemma solve_total a b :
  rows_len (length a) a -> length b = length a -> exists res, solve_linear_system F a b = Done res.
Proof.
  intros H Lb. unfold solve_linear_system. rewrite Lb, Nat.eqb_refl. cbn.
  apply solve_loop_total; auto.
Qed.

(** ** subspace::iim *)
Lemma iim_row_total j m c row :
  (j < m)%nat -> length c = m -> length row = m -> exists row', iim_row F j m c row = Done row' /\ length row' = m.
Proof.
  intros Hj Lc Lr. unfold iim_row.
  destruct (zip_range_total (S j) (m - S j)
              (fun _ u ck => rsub R u (rmul R ck (nth j row zero))) c row) as [t Et]; try lia.
  exists t. split; auto. apply zip_range_len in Et. lia.
Qed.

Lemma swap_rows_total m i j a :
  rows_len m a -> (i < m)%nat -> (j < m)%nat ->
  exists a', mapM (fun r => swap_chk r i j) a = Done a' /\ rows_len m a' /\ length a' = length a.
Proof.
  intros Ha Hi Hj. apply mapM_rows; auto. intros r Lr.
  destruct (swap_chk_total r i j) as [r' Er']; try lia.
  exists r'. split; auto. apply swap_chk_inv in Er' as (_ & _ & L & _). lia.
Qed.

Lemma iim_elim_total cnt : forall j n m mm bm,
  (cnt + j = n)%nat -> (j <= m)%nat -> length mm = n -> rows_len m mm -> rows_len m bm ->
  exists res, iim_elim F cnt j n m mm bm = Done res /\
    match res with
    | Some (mm', bm') => length mm' = n /\ rows_len m mm' /\ rows_len m bm' /\ length bm' = length bm /\ (n <= m)%nat
    | None => True
    end.
Proof.
  induction cnt as [|c IH]; intros j n m mm bm Hn Hjm Lm Hm Hb; cbn [iim_elim].
  { exists (Some (mm, bm)). repeat split; auto. lia. }
  rewrite (nth_chk_lt mm j []) by lia. cbn [bind].
  assert (Lj : length (nth j mm []) = m) by (apply rows_len_nth; auto; lia).
  destruct (find_in_row_total F (m - j) j (skipn j (nth j mm []))) as [o Eo].
  { rewrite skipn_length. lia. }
  rewrite Eo. cbn [bind]. pose proof (find_in_row_inv F _ _ _ _ Eo) as Ho. destruct o as [i|].
  2:{ exists None. auto. }
  destruct Ho as (B & _ & NZ & _). rewrite nth_skipn in NZ.
  replace (j + (i - j))%nat with i in NZ by lia.
  match goal with |- context [bind (if (j <? i)%nat then ?a else ?b) _] =>
    set (sw := if (j <? i)%nat then a else b) end.
  assert (Sw : exists mm1 bm1,
            sw = Done (mm1, bm1) /\
            length mm1 = n /\ rows_len m mm1 /\ rows_len m bm1 /\ length bm1 = length bm /\
            ent F mm1 j j = ent F mm j i).
  { unfold sw. destruct (Nat.ltb_spec j i).
    - destruct (swap_rows_total m i j mm) as (mm1 & E1 & H1 & L1); auto; try lia.
      destruct (swap_rows_total m i j bm) as (bm1 & E2 & H2 & L2); auto; try lia.
      rewrite E1. cbn [bind]. rewrite E2. cbn [bind]. exists mm1, bm1. repeat split; auto; try lia.
      destruct (swap_rows_ent F _ _ _ _ E1) as [_ N]. rewrite N by lia.
      unfold swp. destruct (Nat.eqb_spec j i); auto. now rewrite Nat.eqb_refl.
    - exists mm, bm. assert (i = j) by lia. subst i. repeat split; auto. }
  destruct Sw as (mm1 & bm1 & -> & L1 & H1 & Hb1 & Lb1 & Ep). cbn [bind].
  rewrite (nth_chk_lt mm1 j []) by lia. cbn [bind].
  assert (Lj1 : length (nth j mm1 []) = m) by (apply rows_len_nth; auto; lia).
  rewrite (nth_chk_lt (nth j mm1 []) j zero) by lia. cbn [bind].
  fold (ent F mm1 j j). rewrite Ep. unfold inv_chk.
  replace (is0 R (ent F mm j i)) with false. cbn [bind].
  destruct (zip_range_total (S j) (m - S j) (fun _ _ v => rmul R (finv F (ent F mm j i)) v)
              (nth j mm1 []) (repeat zero m)) as [cv Ec]; rewrite ?repeat_length; try lia.
  rewrite Ec. cbn [bind]. apply zip_range_len in Ec. rewrite repeat_length in Ec.
  destruct (mapM_rows (iim_row F j m cv) m (skipn (S j) mm1)) as (rest & -> & Hrest & Lrest).
  { intros r Lr. apply iim_row_total; auto; lia. }
  { now apply rows_len_skipn. }
  cbn [bind].
  destruct (mapM_rows (iim_row F j m cv) m bm1) as (bm2 & -> & Hb2 & Lb2); auto.
  { intros r Lr. apply iim_row_total; auto; lia. }
  cbn [bind]. rewrite skipn_length in Lrest.
  destruct (IH (S j) n m (firstn (S j) mm1 ++ rest) bm2) as (res & E & Hres); auto; try lia.
  { rewrite app_length, firstn_length. lia. }
  { apply rows_len_app; auto. now apply rows_len_firstn. }
  exists res. split; auto. destruct res as [[mm' bm']|]; auto.
  destruct Hres as (? & ? & ? & ? & ?). repeat split; auto. lia.
Qed.

Lemma iim_elim_diag cnt : forall j n m mm bm mm' bm',
  iim_elim F cnt j n m mm bm = Done (Some (mm', bm')) -> (cnt + j = n)%nat -> length mm = n ->
  (forall l, (l < j)%nat -> is0 R (ent F mm l l) = false) ->
  forall l, (l < n)%nat -> is0 R (ent F mm' l l) = false.
Proof.
  induction cnt as [|c IH]; intros j n m mm bm mm' bm' H Hn Lm Hd.
  - cbn in H. injection H as <- <-. intros l Hl. apply Hd. lia.
  - destruct (iim_elim_step F _ _ _ _ _ _ _ H Lm ltac:(lia))
      as [[E _]|(i & mm1 & bm1 & Hi & NZ & _ & L1 & _ & H1 & N1 & _)]; [discriminate|].
    apply (IH _ _ _ _ _ _ _ H1); auto; try lia.
    intros l Hl. rewrite N1 by lia.
    destruct (Nat.ltb_spec j l); try lia. cbn [andb].
    destruct (Nat.eq_dec l j) as [->|Hne].
    + replace (swp i j j) with i; auto. unfold swp. destruct (Nat.eqb_spec j i); auto. now rewrite Nat.eqb_refl.
    + replace (swp i j l) with l; [apply Hd; lia|]. unfold swp.
      destruct (Nat.eqb_spec l i), (Nat.eqb_spec l j); auto; lia.
Qed.

Lemma iim_dot_total n m i mm xk : length mm = n -> rows_len m mm -> (i < m)%nat -> length xk = n ->
  forall cnt j tmp, (j + cnt <= n)%nat -> exists t, iim_dot F cnt j i mm xk tmp = Done t.
Proof.
  intros Lm Hm Hi Lx. induction cnt as [|c IH]; intros j tmp Hj; cbn [iim_dot]; eauto.
  rewrite (nth_chk_lt mm j []) by lia. cbn [bind].
  rewrite (nth_chk_lt (nth j mm []) i zero) by (rewrite rows_len_nth with (m := m); auto; lia). cbn [bind].
  rewrite (nth_chk_lt xk j zero) by lia. cbn [bind]. apply IH. lia.
Qed.

Lemma iim_solve_col_total i n m mm : length mm = n -> rows_len m mm -> (i < n)%nat -> (n <= m)%nat ->
  is0 R (ent F mm i i) = false ->
  forall bm x, length x = length bm -> rows_len m bm -> rows_len n x ->
  exists x', iim_solve_col F i n mm bm x = Done x' /\ rows_len n x' /\ length x' = length x.
Proof.
  intros Lm Hm Hi Hnm NZ. induction bm as [|bk bs IH]; intros [|xk xs] L Hb Hx; cbn in L; try lia.
  - exists []. cbn. repeat split; auto.
  - pose proof (Forall_inv Hb) as Lbk. pose proof (Forall_inv_tail Hb) as Hbs.
    pose proof (Forall_inv Hx) as Lxk. pose proof (Forall_inv_tail Hx) as Hxs. cbn beta in Lbk, Lxk.
    cbn [iim_solve_col]. rewrite (nth_chk_lt bk i zero) by lia. cbn [bind].
    destruct (iim_dot_total n m i mm xk Lm Hm ltac:(lia) Lxk
                (n - S i)%nat (S i) (nth i bk zero)) as [t ->]; try lia.
    cbn [bind]. rewrite (nth_chk_lt mm i []) by lia. cbn [bind].
    rewrite (nth_chk_lt (nth i mm []) i zero) by (rewrite rows_len_nth with (m := m); auto; lia).
    cbn [bind]. fold (ent F mm i i). unfold div_chk. rewrite NZ. cbn [bind].
    destruct (IH xs) as (xs' & -> & Hxs' & Lxs'); auto; try lia. cbn [bind].
    eexists. split; [reflexivity|]. split; [constructor; auto; now rewrite upd_length|cbn; lia].
Qed.

Lemma iim_solve_total n m mm bm : length mm = n -> rows_len m mm -> (n <= m)%nat -> rows_len m bm ->
  (forall l, (l < n)%nat -> is0 R (ent F mm l l) = false) ->
  forall cnt x, (cnt <= n)%nat -> length x = length bm -> rows_len n x ->
  exists X, iim_solve F cnt n mm bm x = Done X.
Proof.
  intros Lm Hm Hnm Hb Hd. induction cnt as [|i IH]; intros x Hc Lx Hx; cbn [iim_solve]; eauto.
  destruct (iim_solve_col_total i n m mm Lm Hm ltac:(lia) Hnm (Hd i ltac:(lia)) bm x Lx Hb Hx)
    as (x' & -> & Hx' & Lx'). cbn [bind]. apply IH; auto; lia.
Qed.

Lemma iim_check_col_total k m bm : rows_len m bm -> (k < m)%nat -> exists ok, iim_check_col F k bm = Done ok.
Proof.
  intros Hb Hk. induction Hb as [|b bs Lb Hbs IH]; cbn [iim_check_col]; eauto.
  rewrite (nth_chk_lt b k zero) by lia. cbn [bind]. destruct (is0 R _); eauto.
Qed.

Lemma iim_check_total m bm : rows_len m bm -> forall cnt k, (k + cnt <= m)%nat ->
  exists ok, iim_check F cnt k bm = Done ok.
Proof.
  intros Hb. induction cnt as [|c IH]; intros k Hk; cbn [iim_check]; eauto.
  destruct (iim_check_col_total k m bm Hb ltac:(lia)) as [ok ->]. cbn [bind].
  destruct ok; eauto. apply IH. lia.
Qed.

Lemma repeat_rows n r : rows_len n (repeat (repeat zero n) r).
Proof. unfold rows_len. apply Forall_forall. intros x Hx. apply repeat_spec in Hx. subst. apply repeat_length. Qed.

(** [iim] returns on every pair of rectangular matrices with the same number of columns and at least one row each *)
Lemma iim_total mmat vmat :
  let m := length (nth 0 mmat []) in
  (0 < length mmat)%nat -> (0 < length vmat)%nat -> rows_len m mmat -> rows_len m vmat ->
  exists res, iim F mmat vmat = Done res.
Proof.
  intros m Hn Hr Hm Hv. unfold iim.
  rewrite (nth_chk_lt mmat 0 []) by lia. cbn [bind]. fold m.
  rewrite (nth_chk_lt vmat 0 []) by lia. cbn [bind].
  rewrite (rows_len_nth m vmat 0 Hv Hr), Nat.eqb_refl. cbn [bind assert_].
  destruct (iim_elim_total (length mmat) 0 (length mmat) m mmat vmat) as (res & E & Hres); auto; try lia.
  rewrite E. cbn [bind]. destruct res as [[mm' bm']|]; eauto.
  destruct Hres as (Lm' & Hm' & Hb' & Lb' & Hnm).
  assert (Hd : forall l, (l < length mmat)%nat -> is0 R (ent F mm' l l) = false).
  { apply (iim_elim_diag _ _ _ _ _ _ _ _ E); auto. intros; lia. }
  destruct (iim_solve_total (length mmat) m mm' bm' Lm' Hm' Hnm Hb' Hd (length mmat)
              (repeat (repeat zero (length mmat)) (length vmat))) as [X ->]; auto.
  { rewrite repeat_length. lia. }
  { apply repeat_rows. }
  cbn [bind].
  destruct (iim_check_total m bm' Hb' (m - length mmat) (length mmat)) as [ok ->]; try lia.
  cbn [bind]. destruct ok; eauto.
Qed.

(** ** subspace::supplement_basis *)
Lemma supp_row_total s t n d ms rj :
  (s <= t < n)%nat -> length ms = n -> length rj = n ->
  exists rj', supp_row F s t n d ms rj = Done rj' /\ length rj' = n.
Proof.
  intros Hst Lms Lrj. unfold supp_row.
  destruct (swap_chk_total rj s t) as [rj1 E1]; try lia. rewrite E1. cbn [bind].
  pose proof (swap_chk_inv _ _ _ _ E1) as (_ & _ & L1 & _).
  rewrite (nth_chk_lt rj1 s zero) by lia. cbn [bind].
  match goal with |- context [zip_range 0 n ?g ms rj1] =>
    destruct (zip_range_total 0 n g ms rj1) as [r' Er']; try lia end.
  exists r'. split; auto. apply zip_range_len in Er'. lia.
Qed.

Lemma supp_loop_total cnt : forall s n orig mm bm,
  (cnt + s = length mm)%nat -> rows_len n mm -> length bm = n -> length orig = length mm ->
  exists res, supp_loop F cnt s n orig mm bm = Done res.
Proof.
  induction cnt as [|c IH]; intros s n orig mm bm Hk Hm Lb Lo; cbn [supp_loop]; eauto.
  rewrite (nth_chk_lt mm s []) by lia. cbn [bind].
  assert (Ls : length (nth s mm []) = n) by (apply rows_len_nth; auto; lia).
  destruct (find_in_row_total F (n - s) s (skipn s (nth s mm []))) as [o Eo].
  { rewrite skipn_length. lia. }
  rewrite Eo. cbn [bind]. pose proof (find_in_row_inv F _ _ _ _ Eo) as Ho. destruct o as [t|]; eauto.
  destruct Ho as (B & _ & NZ & _). rewrite nth_skipn in NZ.
  replace (s + (t - s))%nat with t in NZ by lia.
  rewrite (nth_chk_lt (nth s mm []) t zero) by lia. cbn [bind].
  unfold inv_chk. rewrite NZ. cbn [bind].
  rewrite (nth_chk_lt bm s []) by lia. cbn [bind].
  unfold set_chk at 1. replace (t <? length bm)%nat with true by (symmetry; apply Nat.ltb_lt; lia). cbn [bind].
  rewrite (nth_chk_lt orig s []) by lia. cbn [bind].
  unfold set_chk. rewrite upd_length.
  replace (s <? length bm)%nat with true by (symmetry; apply Nat.ltb_lt; lia). cbn [bind].
  destruct (mapM_rows (supp_row F s t n (finv F (nth t (nth s mm []) zero)) (nth s mm [])) n (skipn (S s) mm))
    as (rest & -> & Hrest & Lrest).
  { intros r Lr. apply supp_row_total; auto. lia. }
  { now apply rows_len_skipn. }
  cbn [bind]. rewrite skipn_length in Lrest.
  assert (L' : length (firstn (S s) mm ++ rest) = length mm) by (rewrite app_length, firstn_length; lia).
  apply IH.
  - rewrite L'. lia.
  - apply rows_len_app; auto. now apply rows_len_firstn.
  - now rewrite !upd_length.
  - now rewrite L'.
Qed.

(** [supplement_basis] returns on every rectangular matrix with at least one row *)
Lemma supplement_total mmat :
  (0 < length mmat)%nat -> rows_len (length (nth 0 mmat [])) mmat ->
  exists res, supplement_basis F mmat = Done res.
Proof.
  intros Hk Hm. unfold supplement_basis. rewrite (nth_chk_lt mmat 0 []) by lia. cbn [bind].
  apply supp_loop_total; auto. apply identity_length.
Qed.

End Field.
