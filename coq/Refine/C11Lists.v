(** * C11 at the level of coefficient lists: the statements used by Props/C11.v (ssreflect). *)
From Coq Require Import ZArith List Lia Znumtheory.
From mathcomp Require Import all_ssreflect ssralg poly.
From RNT.Model Require Import Base Poly PolyModP Hensel.
From RNT.Refine Require Import PolyModPArith PolyModPDivList FermatZ PolyZmod PolyModPDiv MonicZ PolyModPGcd HenselProofs.
From mathcomp Require Import ssrZ zify ring.
Set Implicit Arguments. Unset Strict Implicit. Unset Printing Implicit Defensive.
Import GRing.Theory.
Local Open Scope ring_scope.

Lemma PZ_one : PZ [:: 1%ZZ] = 1.
Proof. by rewrite /PZ /= cons_poly_def mul0r add0r. Qed.

(** One Hensel step (Cohen 3.5.5). *)
Theorem hensel_step_spec p q c a b u v a1 b1 qr :
  (1 < p)%ZZ -> (0 < q)%ZZ -> (p | q)%ZZ -> lmonic a ->
  peqmod q c (pmul opsZ a b) ->
  peqmod p (padd opsZ (pmul opsZ a u) (pmul opsZ b v)) [:: 1%ZZ] ->
  hensel_lift p q c a b u v = Done (a1, b1, qr) ->
  qr = Z.mul q p /\
  peqmod qr c (pmul opsZ a1 b1) /\ peqmod q a1 a /\ peqmod q b1 b /\
  lmonic a1 /\ length a1 = length a /\
  canonical a1 /\ in_range qr a1 /\ canonical b1 /\ in_range qr b1.
Proof.
  move=> Hp Hq Hpq Ha Hc Huv H.
  have Hq0 : q <> Z0 by lia. have Hp0 : p <> Z0 by lia. have Hqp0 : Z.mul q p <> Z0 by nia.
  move/(peqmodP _ _ Hq0): Hc; rewrite PZ_pmul => Hc.
  move/(peqmodP _ _ Hp0): Huv; rewrite PZ_padd !PZ_pmul PZ_one => Huv.
  have [E [S1 [S2 [S3 R]]]] := hensel_step Hp Hq Hpq Ha Hc Huv H.
  split=> //. rewrite E. split; first by apply/(peqmodP _ _ Hqp0); rewrite PZ_pmul -E.
  split; first exact/(peqmodP _ _ Hq0). split; first exact/(peqmodP _ _ Hq0).
  by rewrite -E.
Qed.

Theorem hensel_step_total p q c a b u v :
  (1 < p)%ZZ -> (0 < q)%ZZ -> (p | q)%ZZ -> lmonic a ->
  exists a1 b1 qr, hensel_lift p q c a b u v = Done (a1, b1, qr).
Proof. move=> Hp Hq Hpq Ha. exact: hensel_step_total. Qed.

(** The Bezout witness. *)
Theorem coprime_witness_list_spec p a b u v :
  Znumtheory.prime p -> goodlc p a -> goodlc p b ->
  poly_coprime_witness a b p = Done (u, v) ->
  peqmod p (padd opsZ (pmul opsZ a u) (pmul opsZ b v)) [:: 1%ZZ] /\
  canonical u /\ in_range p u /\ canonical v /\ in_range p v.
Proof.
  move=> Hp Ga Gb H. have Hp2 := prime_ge_2 _ Hp. have Hp0 : p <> Z0 by lia.
  have [W R] := coprime_witness_spec Hp Ga Gb H. split=> //.
  apply/(peqmodP _ _ Hp0). by rewrite PZ_padd !PZ_pmul PZ_one.
Qed.

(** The whole lift. *)
Theorem lift_factorization_list_spec p e c factors gs :
  Znumtheory.prime p -> (1 <= e)%ZZ -> ~ (p | List.last c Z0)%ZZ ->
  factors <> [::] -> List.Forall lmonic factors ->
  peqmod p c (pmul opsZ (from_mono opsZ (List.last c Z0)) (lprod factors)) ->
  lift_factorization p e c factors = Done gs ->
  List.Forall2 (fun g f => peqmod p g f /\ lmonic g /\ length g = length f) gs factors /\
  peqmod (Z.pow p e) c (pmul opsZ (from_mono opsZ (List.last c Z0)) (lprod gs)) /\
  (forall inv, Z.modulo (Z.mul (List.last c Z0) inv) (Z.pow p e) = 1%ZZ ->
     peqmod (Z.pow p e) (lprod gs) (poly_mul c inv)) /\
  ((2 <= e)%ZZ -> List.Forall (fun g => canonical g /\ in_range (Z.pow p e) g) gs) /\
  (e = 1%ZZ -> gs = factors).
Proof.
  move=> Hp He Hlc Hne Mf Ec H. have Hp2 := prime_ge_2 _ Hp. have Hp0 : p <> Z0 by lia.
  have Hpe0 : Z.pow p e <> Z0 by apply: Z.pow_nonzero; lia.
  move/(peqmodP _ _ Hp0): Ec; rewrite PZ_pmul PZ_from_mono PZ_lprod => Ec.
  have [F [P [R E1]]] := @lift_factorization_spec p c factors Hp Hlc e gs He Hne Mf Ec H.
  split.
  { elim: F => [|g f l1 l2 [X1 X2] _ IHf]; constructor=> //. split=> //. exact/(peqmodP _ _ Hp0). }
  split; first by apply/(peqmodP _ _ Hpe0); rewrite PZ_pmul PZ_from_mono PZ_lprod.
  split; last by [].
  move=> inv Hinv. apply/(peqmodP _ _ Hpe0). rewrite PZ_lprod PZ_poly_mul.
  case: P => K HK. rewrite /lead in HK.
  have [z Hz] : exists z, Z.mul (List.last c Z0) inv = (1 + Z.pow p e * z)%ZZ.
  { exists (Z.div (Z.mul (List.last c Z0) inv) (Z.pow p e)).
    have := Z.div_mod (Z.mul (List.last c Z0) inv) (Z.pow p e) Hpe0. rewrite Hinv. lia. }
  exists (- (z%:P * PZprod gs) - K * inv%:P).
  have E2 : (List.last c Z0)%:P * inv%:P = 1 + (Z.pow p e)%:P * z%:P :> {poly Z}.
  { rewrite -!polyCM -polyC1 -polyCD. congr (_%:P). exact: Hz. }
  apply/eqP; rewrite -subr_eq0; apply/eqP.
  transitivity (- (PZ c - ((List.last c Z0)%:P * PZprod gs + (Z.pow p e)%:P * K)) * inv%:P
                - PZprod gs * ((List.last c Z0)%:P * inv%:P - (1 + (Z.pow p e)%:P * z%:P))); first by ring.
  rewrite -HK E2. ring.
Qed.

(** Totality of the lift for pairwise coprime factors. *)
From RNT.Refine Require Import HenselTotal.

Definition lcoprime (p : Z) (a b : list Z) : Prop :=
  exists s t, peqmod p (padd opsZ (pmul opsZ a s) (pmul opsZ b t)) [:: 1%ZZ].

Theorem coprime_witness_list_total p a b :
  Znumtheory.prime p -> goodlc p a -> goodlc p b -> canonical a -> canonical b -> a <> [::] \/ b <> [::] ->
  lcoprime p a b -> exists u v, poly_coprime_witness a b p = Done (u, v).
Proof.
  move=> Hp Ga Gb Ca Cb Hn [s [t H]]. have Hp2 := prime_ge_2 _ Hp. have Hp0 : p <> Z0 by lia.
  apply: coprime_witness_total => //. exists (PZ s), (PZ t).
  move/(peqmodP _ _ Hp0): H. by rewrite PZ_padd !PZ_pmul PZ_one.
Qed.

Theorem lift_factorization_list_total p e c factors :
  Znumtheory.prime p -> ~ (p | List.last c Z0)%ZZ ->
  factors <> [::] -> List.Forall lmonic factors ->
  (forall i j : nat, (i < j)%coq_nat -> (j < length factors)%coq_nat ->
     lcoprime p (List.nth i factors [::]) (List.nth j factors [::])) ->
  peqmod p c (pmul opsZ (from_mono opsZ (List.last c Z0)) (lprod factors)) ->
  exists gs, lift_factorization p e c factors = Done gs.
Proof.
  move=> Hp Hlc Hne Mf Hpw Ec. have Hp2 := prime_ge_2 _ Hp. have Hp0 : p <> Z0 by lia.
  move/(peqmodP _ _ Hp0): Ec; rewrite PZ_pmul PZ_from_mono PZ_lprod => Ec.
  apply: (@lift_factorization_total p c factors Hp Hlc _ e Hne Mf Ec).
  move=> i j Hij Hj. have [s [t H]] := Hpw i j Hij Hj. exists (PZ s), (PZ t).
  move/(peqmodP _ _ Hp0): H. by rewrite PZ_padd !PZ_pmul PZ_one.
Qed.
