(** * Monic coefficient lists (ssreflect). *)
From Coq Require Import ZArith List Lia Znumtheory.
From mathcomp Require Import all_ssreflect ssralg poly.
From RNT.Model Require Import Base Poly PolyModP.
From RNT.Refine Require Import PolyModPArith PolyModPDivList PolyZmod.
From mathcomp Require Import ssrZ zify ring.
Set Implicit Arguments. Unset Strict Implicit. Unset Printing Implicit Defensive.
Import GRing.Theory.
Local Open Scope ring_scope.

Definition lmonic (a : list Z) : Prop := List.last a Z0 = 1%ZZ.

Lemma lmonic_nonnil a : lmonic a -> a <> [::].
Proof. by move=> H E; move: H; rewrite /lmonic E. Qed.

Lemma lmonic_nth a : lmonic a -> List.nth (length a - 1) a Z0 = 1%ZZ.
Proof. by rewrite /lmonic last_nth_len. Qed.

Lemma lmonic_canonical a : lmonic a -> canonical a.
Proof. move=> H. apply: canonical_of_last => _. rewrite H. by []. Qed.

Lemma lmonic_size a : lmonic a -> size (PZ a) = length a.
Proof. move=> H. exact: canonical_size (lmonic_canonical H). Qed.

Lemma lmonic_monic a : lmonic a -> PZ a \is monic.
Proof.
  move=> H. apply/monicP. rewrite /lead_coef (lmonic_size H) coefPZ.
  have -> : (length a).-1 = (length a - 1)%coq_nat by lia.
  exact: lmonic_nth.
Qed.

Lemma canonical_lead (r : list Z) : canonical r -> lead_coef (PZ r) = List.last r Z0.
Proof.
  move=> Hc. rewrite /lead_coef (canonical_size Hc) coefPZ last_nth_len.
  congr (List.nth _ _ _). lia.
Qed.

(** A list of the right length whose top coefficient is 1 mod m and whose higher coefficients
    vanish mod m is monic after [poly_mod]. *)
Lemma poly_mod_monic_top (x : list Z) m r n :
  (1 < m)%ZZ -> poly_mod x m = Done r ->
  Z.modulo (List.nth n x Z0) m = 1%ZZ ->
  (forall k, (n < k)%coq_nat -> Z.modulo (List.nth k x Z0) m = Z0) ->
  length r = n.+1 /\ lmonic r.
Proof.
  move=> Hm H H1 H0.
  have Hm0 : m <> Z0 by lia.
  have N := fun i => poly_mod_nth _ _ _ i Hm0 H.
  have Hmp : (0 < m)%ZZ by lia.
  have [Cr _] := @poly_mod_reduced x m r Hmp H.
  have Ln : (n < length r)%coq_nat.
  { case: (Nat.lt_ge_cases n (length r)) => // Hge.
    have := N n. rewrite H1 List.nth_overflow //. }
  have Lr : (length r <= n.+1)%coq_nat.
  { case: (Nat.lt_ge_cases n.+1 (length r)) => // Hlt.
    have Hnil : r <> [::] by move=> E; move: Hlt; rewrite E /=; lia.
    have := canonical_last _ Cr Hnil. rewrite last_nth_len N H0 //. lia. }
  have E : length r = n.+1 by lia.
  split=> //. rewrite /lmonic last_nth_len E /= Nat.sub_0_r N. exact: H1.
Qed.

(** The reduction of a product of monic lists is monic of the expected length. *)
Lemma lmonic_mul_mod a b m r :
  (1 < m)%ZZ -> lmonic a -> lmonic b -> poly_mod (pmul opsZ a b) m = Done r ->
  lmonic r /\ (length r + 1 = length a + length b)%coq_nat.
Proof.
  move=> Hm Ha Hb H.
  have Ma := lmonic_monic Ha. have Mb := lmonic_monic Hb.
  have Mab : PZ a * PZ b \is monic by rewrite monicMl.
  have Sab : size (PZ a * PZ b) = (length a + length b).-1.
  { rewrite size_Mmonic //; first by rewrite (lmonic_size Ha) (lmonic_size Hb).
    by rewrite monic_neq0. }
  have La : (0 < length a)%coq_nat by case: (a) (lmonic_nonnil Ha) => //= *; lia.
  have Lb : (0 < length b)%coq_nat by case: (b) (lmonic_nonnil Hb) => //= *; lia.
  have [L M] : length r = (length a + length b - 2).+1 /\ lmonic r.
  { apply: (poly_mod_monic_top Hm H).
    - rewrite -coefPZ PZ_pmul.
      have -> : (length a + length b - 2)%nat = (size (PZ a * PZ b)).-1 by rewrite Sab; lia.
      have -> : (PZ a * PZ b)`_(size (PZ a * PZ b)).-1 = 1 by move/monicP: Mab.
      rewrite Z.mod_small //; lia.
    - move=> k Hk. rewrite -coefPZ PZ_pmul seq.nth_default; first by rewrite Zmod_0_l.
      rewrite Sab. lia. }
  split=> //. lia.
Qed.

(** If a1 * b1 = pr modulo m with a1 and pr monic and b1 reduced, then b1 is monic and the
    degrees add up. *)
Lemma monic_factor a1 b1 pr m :
  (1 < m)%ZZ -> lmonic a1 -> lmonic pr -> canonical b1 -> in_range m b1 ->
  eqpm m (PZ pr) (PZ a1 * PZ b1) ->
  lmonic b1 /\ (length a1 + length b1 = length pr + 1)%coq_nat.
Proof.
  move=> Hm Ha Hpr Cb Rb E.
  have Hm0 : m <> Z0 by lia.
  have Ma := lmonic_monic Ha. have Mp := lmonic_monic Hpr.
  have CE := eqpm_coef E.
  have Lp : (0 < length pr)%coq_nat by case: (pr) (lmonic_nonnil Hpr) => //= *; lia.
  have La : (0 < length a1)%coq_nat by case: (a1) (lmonic_nonnil Ha) => //= *; lia.
  have one_mod : Z.modulo 1 m = 1%ZZ by rewrite Z.mod_small; lia.
  have Ptop : (PZ pr)`_(length pr - 1) = 1 by rewrite coefPZ; exact: lmonic_nth.
  have Bn0 : b1 <> [::].
  { move=> Eb. have := CE (length pr - 1)%coq_nat. rewrite Ptop Eb /PZ /= mulr0 coef0 one_mod Zmod_0_l. lia. }
  have Bne : PZ b1 != 0.
  { apply/eqP => E0. apply: Bn0. rewrite -(canonical_polyseq Cb) E0. by rewrite polyseq0. }
  have Lb : (0 < length b1)%coq_nat by case: (b1) Bn0 => //= *; lia.
  have Sab : size (PZ a1 * PZ b1) = (length a1 + length b1).-1.
  { by rewrite size_monicM // (lmonic_size Ha) (canonical_size Cb). }
  have LCab : (PZ a1 * PZ b1)`_(length a1 + length b1 - 2) = List.last b1 Z0.
  { rewrite -(canonical_lead Cb) -(lead_coef_monicM _ Ma) /lead_coef Sab. congr (_`__). lia. }
  have Blast := @last_in_range_aux m b1 Bn0 Rb.
  have Bnz := canonical_last _ Cb Bn0.
  have Hlen : (length a1 + length b1 = length pr + 1)%coq_nat.
  { case: (Nat.lt_trichotomy (length a1 + length b1 - 2) (length pr - 1)) => [Hlt|[Heq|Hgt]].
    - exfalso. have := CE (length pr - 1)%coq_nat.
      rewrite Ptop (@seq.nth_default _ _ (PZ a1 * PZ b1)); last by rewrite Sab; lia.
      rewrite one_mod Zmod_0_l. lia.
    - lia.
    - exfalso. have := CE (length a1 + length b1 - 2)%coq_nat.
      rewrite LCab coefPZ List.nth_overflow; last lia.
      rewrite Zmod_0_l Z.mod_small; lia. }
  split=> //.
  have := CE (length pr - 1)%coq_nat.
  have -> : (length pr - 1)%coq_nat = (length a1 + length b1 - 2)%coq_nat by lia.
  rewrite LCab. have -> : (length a1 + length b1 - 2)%coq_nat = (length pr - 1)%coq_nat by lia.
  rewrite Ptop one_mod Z.mod_small; last lia. by move=> E1; rewrite /lmonic -E1.
Qed.
