(** Round 2 step, third wave (C06): for a prime p and an input order with a unit, the lattice I_p of a
    returning call of [one_step] is { x : x^pow = 0 (mod p) } ([pow_mod_p]), it is an ideal of the order, and
    the lattice U_p + p Z^deg handed to [new_basis] is closed under multiplication up to the factor p.
    stdlib + lia; assembles Round2W3Frob (additivity of the power map) and Round2W3Order. *)
From RNT.Model Require Import Base Poly Algebraic LinAlg MultTable Order Round2.
From RNT.Model Require Hnf.
From RNT.Refine Require Import MatZ HnfOps HnfSpec HnfMain HnfKernel HnfTotal HnfUnique.
From RNT.Refine Require Import Round2Basic Round2Index Round2Lattice Round2Det Round2Fuel.
From RNT.Refine Require Import Round2W3Ip Round2W3Up Round2W3Step Round2W3Total Round2W3Ring Round2W3Order.
From RNT.Refine Require MultTableOps AlgNormMx Round2W3Mul Round2W3Table Round2W3Frob PolyZ.
From Coq Require Import Lia Znumtheory.
Open Scope Z_scope.

(** the exponent computed by [while pow < deg { pow *= p }] is a power of p *)
Lemma pow_ge_loop_pow p deg : forall fuel pow r k, 0 <= k -> pow = p ^ k ->
  pow_ge_loop fuel pow deg p = Done r -> exists k', 0 <= k' /\ r = p ^ k'.
Proof.
  induction fuel as [|fu IH]; intros pow r k Hk E H; [discriminate|].
  cbn [pow_ge_loop] in H. destruct (pow <? deg).
  - apply (IH (pow * p) r (Z.succ k)); [lia| |assumption]. rewrite Z.pow_succ_r by assumption. subst pow. ring.
  - injection H as <-. eauto.
Qed.

Lemma pow_ge_is_pow deg p pow : pow_ge deg p = Done pow -> exists k : nat, pow = p ^ Z.of_nat k.
Proof.
  unfold pow_ge. intros H. destruct (pow_ge_loop_pow p deg _ 1 pow 0 ltac:(lia) eq_refl H) as [k [Hk ->]].
  exists (Z.to_nat k). rewrite Z2Nat.id by assumption. reflexivity.
Qed.

(** [has_unit T deg]: some integer vector is a unit for the table product *)
Definition has_unit (T : table) (deg : nat) : Prop :=
  exists one, length one = deg /\ forall x, length x = deg -> tmul T deg one x = x.

(** [C] one_step_order_coords: see Props/C06.v *)
Theorem one_step_order_coords f o p o' hh deg :
  PolyZ.canonZ f = true -> length f = S deg -> (1 <= deg)%nat -> prime p ->
  length o = deg -> Forall (fun r => length r = deg) o ->
  one_step f o p = Done (o', hh) ->
  exists T pow tbl tbl2 i_p u_p h Phi,
    get_mult_table o f = Done T /\
    pow_ge (pdeg f) p = Done pow /\ mult_tables f o deg p (p * p) = Done (tbl, tbl2) /\
    compute_i_p deg p pow tbl = Done i_p /\
    Hnf.for_loop (Hnf.range 0 (length i_p)) (up_step deg p (p * p) tbl2 i_p) i_p = Done u_p /\
    Hnf.hnf_new (u_p ++ p_rows deg p) = Done h /\ wf deg h /\
    shape deg deg Phi /\
    (forall i, (i < deg)%nat -> pow_mod_p (unit_vec deg i) pow tbl p = Done (row Phi i)) /\
    (forall y, length y = deg -> In_rowspanZ deg (vscale p y) h) /\
    (has_unit T deg ->
       pow_linear deg p pow tbl Phi /\
       (forall x, In_rowspanZ deg x i_p <->
                  length x = deg /\ exists r, pow_mod_p x pow tbl p = Done r /\
                                              forall k, (k < deg)%nat -> (p | nth k r 0)) /\
       ideal_of T deg i_p /\
       forall a b, In_rowspanZ deg a h -> In_rowspanZ deg b h -> In_rowspanZ deg (tmul T deg a b) (pI p h)).
Proof.
  intros Cf Lf D1 Pp Lo Wo H.
  assert (P2 : 2 <= p) by (destruct Pp; lia). assert (P0 : p <> 0) by lia.
  destruct (one_step_ring_closed f o p o' hh deg Cf Lf D1 P0 Lo Wo H)
    as [T [pow [tbl [tbl2 [i_p [u_p [h [GT [CT [HC [HA [E2 [S1 [S3 [S4 [S5 [S8 [Wh [PZh RC]]]]]]]]]]]]]]]]]]].
  destruct (mult_tables_exact f o deg p (p * p) tbl tbl2 Lo S3) as [T' [GT' [_ E1]]].
  rewrite GT in GT'. injection GT' as <-.
  destruct (mult_tables_cube _ _ _ _ _ _ _ S3) as [C1 C2].
  destruct (compute_i_p_spec deg p pow tbl i_p D1 S4) as [Phi [SPhi [RPhi [Wi SpI]]]].
  assert (RP : forall i, (i < deg)%nat -> pow_mod_p (unit_vec deg i) pow tbl p = Done (row Phi i)).
  { intros i Hi. destruct (RPhi i Hi) as [r [Er [_ ->]]].
    destruct (pow_mod_p_total deg tbl p (unit_vec deg i) pow C1 P0 (unit_vec_length deg i)) as [r' [Er' Lr']].
    rewrite Er in Er'. injection Er' as <-. rewrite Er. f_equal. symmetry. apply firstn_all2. lia. }
  exists T, pow, tbl, tbl2, i_p, u_p, h, Phi.
  repeat (split; [assumption|]).
  intros [one [Lone Hone]].
  destruct (pow_ge_is_pow _ _ _ S1) as [k Ek].
  destruct (Round2W3Frob.frobenius_pack k D1 Pp CT HC HA Lone Hone) as [FA FI].
  cbv zeta in FA, FI. rewrite <- E1, <- Ek in FA, FI.
  assert (PL : pow_linear deg p pow tbl Phi).
  { intros x Lx. destruct (pow_mod_p_total deg tbl p x pow C1 P0 Lx) as [r [Er Lr]].
    exists r. split; [assumption|]. intros j _. apply (FA x Phi r Lx SPhi); [|assumption].
    intros i Hi. apply RP. assumption. }
  assert (RAD : forall x, In_rowspanZ deg x i_p <->
                  length x = deg /\ exists r, pow_mod_p x pow tbl p = Done r /\
                                              forall k, (k < deg)%nat -> (p | nth k r 0)).
  { intros x. rewrite SpI. split.
    - intros [Lx Dv]. split; [assumption|]. destruct (PL x Lx) as [r [Er Dr]]. exists r. split; [assumption|].
      intros j Hj. replace (nth j r 0) with ((nth j r 0 - nth j (lincomb deg x Phi) 0) + nth j (lincomb deg x Phi) 0) by lia.
      apply Z.divide_add_r; auto.
    - intros [Lx [r [Er Dr]]]. split; [assumption|]. destruct (PL x Lx) as [r' [Er' Dr']].
      rewrite Er in Er'. injection Er' as <-. intros j Hj.
      replace (nth j (lincomb deg x Phi) 0) with (nth j r 0 - (nth j r 0 - nth j (lincomb deg x Phi) 0)) by lia.
      apply Z.divide_sub_r; auto. }
  assert (ID : ideal_of T deg i_p).
  { intros x y Hx Ly. apply RAD in Hx. destruct Hx as [Lx [rx [Erx Drx]]].
    apply RAD. split; [apply Round2W3Mul.tmul_length|].
    destruct (pow_mod_p_total deg tbl p (tmul T deg y x) pow C1 P0 (Round2W3Mul.tmul_length T deg y x)) as [r [Er Lr]].
    exists r. split; [assumption|]. intros j _.
    apply (FI x y rx r Lx Ly Erx); [|assumption].
    intros i. destruct (Nat.lt_ge_cases i deg) as [Hi|Hi]; [apply Drx; assumption|].
    destruct (pow_mod_p_total deg tbl p x pow C1 P0 Lx) as [rx' [Erx' Lrx']].
    rewrite Erx in Erx'. injection Erx' as <-. rewrite nth_overflow by lia. exists 0. reflexivity. }
  split; [assumption|]. split; [assumption|]. split; [assumption|]. apply RC. assumption.
Qed.

From RNT.Refine Require Round2W3Unit.

(** [P] one_step_radical_ideal_closed: the same for an input order that contains 1, without the unit hypothesis *)
Theorem one_step_order_one f o p o' hh deg :
  PolyZ.canonZ f = true -> length f = S deg -> (1 <= deg)%nat -> prime p ->
  length o = deg -> Forall (fun r => length r = deg) o ->
  in_spanQ deg (one_vec deg) o ->
  one_step f o p = Done (o', hh) ->
  exists T pow tbl tbl2 i_p u_p h Phi,
    get_mult_table o f = Done T /\
    pow_ge (pdeg f) p = Done pow /\ mult_tables f o deg p (p * p) = Done (tbl, tbl2) /\
    compute_i_p deg p pow tbl = Done i_p /\
    Hnf.for_loop (Hnf.range 0 (length i_p)) (up_step deg p (p * p) tbl2 i_p) i_p = Done u_p /\
    Hnf.hnf_new (u_p ++ p_rows deg p) = Done h /\ wf deg h /\
    shape deg deg Phi /\
    (forall i, (i < deg)%nat -> pow_mod_p (unit_vec deg i) pow tbl p = Done (row Phi i)) /\
    (forall y, length y = deg -> In_rowspanZ deg (vscale p y) h) /\
    pow_linear deg p pow tbl Phi /\
    (forall x, In_rowspanZ deg x i_p <->
               length x = deg /\ exists r, pow_mod_p x pow tbl p = Done r /\
                                           forall k, (k < deg)%nat -> (p | nth k r 0)) /\
    ideal_of T deg i_p /\
    forall a b, In_rowspanZ deg a h -> In_rowspanZ deg b h -> In_rowspanZ deg (tmul T deg a b) (pI p h).
Proof.
  intros Cf Lf D1 Pp Lo Wo One H.
  destruct (one_step_order_coords f o p o' hh deg Cf Lf D1 Pp Lo Wo H)
    as [T [pow [tbl [tbl2 [i_p [u_p [h [Phi [GT [S1 [S3 [S4 [S5 [S8 [Wh [SPhi [RP [PZh G]]]]]]]]]]]]]]]]]].
  exists T, pow, tbl, tbl2, i_p, u_p, h, Phi.
  repeat (split; [assumption|]). apply G.
  apply (Round2W3Unit.order_has_unit (f := f) (n := deg) (o := o) (T := T)); try assumption.
  destruct deg as [|d]; [lia|reflexivity].
Qed.

(** ** along the run of the driver: every order reachable from the starting order contains 1 *)
Lemma start_one f deg o0 :
  length f = S deg -> (1 <= deg)%nat -> non_monic_initial_order f = Done o0 -> in_spanQ deg (one_vec deg) o0.
Proof.
  intros Lf D1 N0. unfold non_monic_initial_order in N0.
  rewrite (deg_alloc_len f deg Lf) in N0. cbn [bind] in N0.
  destruct (deg =? 0)%nat eqn:E; [apply Nat.eqb_eq in E; lia|].
  apply hnf_reduce_contains with (deg := deg) in N0; [|assumption| |].
  - destruct N0 as [L0 [W0 C0]]. specialize (C0 0%nat D1).
    rewrite nth_indep with (d' := map (fun j => nm_entry f deg 0 j) (seq 0 deg)) in C0
      by (rewrite map_length, seq_length; lia).
    rewrite (map_nth (fun i => map (fun j => nm_entry f deg i j) (seq 0 deg))) in C0.
    rewrite seq_nth in C0 by lia. cbn [Nat.add] in C0. rewrite nm_row0 in C0 by assumption. exact C0.
  - rewrite map_length, seq_length. reflexivity.
  - apply Forall_forall. intros r Hr. apply in_map_iff in Hr. destruct Hr as [i [<- _]].
    rewrite map_length, seq_length. reflexivity.
Qed.

Lemma reachable_one f deg o0 o :
  length f = S deg -> (1 <= deg)%nat -> non_monic_initial_order f = Done o0 -> reachable f o0 o ->
  length o = deg /\ Forall (fun r => length r = deg) o /\ in_spanQ deg (one_vec deg) o.
Proof.
  intros Lf D1 N0 R.
  destruct (non_monic_shape f deg o0 Lf D1 N0) as [L0 W0].
  destruct (reachable_contains f deg o0 o Lf D1 L0 W0 R) as [L [W C]].
  split; [assumption|]. split; [assumption|].
  apply in_spanQ_trans with o0; try assumption. apply (start_one f deg o0); assumption.
Qed.

(** [P] reachable_step_order: for every Round 2 step that the driver can take (on an order reachable from the
    starting order, at a prime p) and that returns *)
Theorem reachable_step_order f o0 o p o' hh deg :
  PolyZ.canonZ f = true -> length f = S deg -> (1 <= deg)%nat -> prime p ->
  non_monic_initial_order f = Done o0 -> reachable f o0 o ->
  one_step f o p = Done (o', hh) ->
  exists T pow tbl tbl2 i_p u_p h Phi,
    get_mult_table o f = Done T /\
    pow_ge (pdeg f) p = Done pow /\ mult_tables f o deg p (p * p) = Done (tbl, tbl2) /\
    compute_i_p deg p pow tbl = Done i_p /\
    Hnf.for_loop (Hnf.range 0 (length i_p)) (up_step deg p (p * p) tbl2 i_p) i_p = Done u_p /\
    Hnf.hnf_new (u_p ++ p_rows deg p) = Done h /\ wf deg h /\
    shape deg deg Phi /\
    (forall i, (i < deg)%nat -> pow_mod_p (unit_vec deg i) pow tbl p = Done (row Phi i)) /\
    (forall y, length y = deg -> In_rowspanZ deg (vscale p y) h) /\
    pow_linear deg p pow tbl Phi /\
    (forall x, In_rowspanZ deg x i_p <->
               length x = deg /\ exists r, pow_mod_p x pow tbl p = Done r /\
                                           forall k, (k < deg)%nat -> (p | nth k r 0)) /\
    ideal_of T deg i_p /\
    forall a b, In_rowspanZ deg a h -> In_rowspanZ deg b h -> In_rowspanZ deg (tmul T deg a b) (pI p h).
Proof.
  intros Cf Lf D1 Pp N0 R H.
  destruct (reachable_one f deg o0 o Lf D1 N0 R) as [L [W One]].
  apply (one_step_order_one f o p o' hh deg); assumption.
Qed.

(** [order_has_unit] for users of [length] / [Forall] *)
Theorem order_has_unit_list f n (o : qmat) T :
  PolyZ.canonZ f = true -> length f = S n -> (1 <= n)%nat -> length o = n -> Forall (fun r => length r = n) o ->
  get_mult_table o f = Done T -> in_spanQ n (one_vec n) o -> has_unit T n.
Proof.
  intros Cf Lf N1 Lo Wo GT One.
  apply (Round2W3Unit.order_has_unit (f := f) (n := n) (o := o) (T := T)); try assumption.
  destruct n as [|d]; [inversion N1|reflexivity].
Qed.
