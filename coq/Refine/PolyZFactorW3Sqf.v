(** * PolyZFactorW3Sqf: C07, the square-free part in characteristic 0 (MathComp, [Pdiv.Idomain]).

    Over an integral domain in which no positive natural number vanishes: if [p = q * g] with [g]
    associated to [gcdp p p^`()], then
    - [q] is separable ([coprimep q q^`()]: square-free over the fraction field)  -- MathComp's
      [make_separable];
    - every divisor of [p] that is coprime to [q] is a constant, i.e. every irreducible factor of [p]
      divides [q] (this is where the characteristic matters);
    Divisibility [%|], [coprimep], [%=] are those of [Pdiv.Idomain]: divisibility up to non-zero
    constants, i.e. over the fraction field. *)
From mathcomp Require Import all_ssreflect ssralg poly polydiv separable.
Set Implicit Arguments.
Unset Strict Implicit.
Unset Printing Implicit Defensive.
Import GRing.Theory.
Import Pdiv.Idomain.
Local Open Scope ring_scope.

Section Char0.
Variable R : idomainType.
Hypothesis natr0 : forall n, (n%:R == 0 :> R) = (n == 0)%N.
Implicit Types p q g u s : {poly R}.

Lemma deriv_neq0 u : (1 < size u)%N -> u^`() != 0.
Proof.
move=> su; apply/eqP => /(congr1 (fun p : {poly R} => p`_(size u).-2)).
rewrite coef_deriv coef0 => /eqP; rewrite -mulr_natr mulf_eq0 natr0 /= orbF.
have -> : (size u).-2.+1 = (size u).-1 by case: (size u) su => [|[|n]].
by rewrite -lead_coefE lead_coef_eq0 -size_poly_eq0; case: (size u) su.
Qed.

Lemma size_gcd_deriv_lt u : (1 < size u)%N -> (size (gcdp u u^`()) < size u)%N.
Proof.
move=> su; have u0 : u != 0 by rewrite -size_poly_eq0; case: (size u) su.
apply: leq_ltn_trans (lt_size_deriv u0).
by apply: dvdp_leq (dvdp_gcdr _ _); exact: deriv_neq0.
Qed.

(** the quotient by the gcd with the derivative is separable *)
Lemma sqfree_part_separable p q g : p != 0 -> p = q * g -> g %= gcdp p p^`() ->
  separable_poly q.
Proof.
move=> p0 e hg.
have g0 : g != 0 by apply: contraNneq p0 => g0; rewrite e g0 mulr0.
have gp : g %| p by rewrite e dvdp_mulIr.
suff eq : q %= p %/ gcdp p p^`() by rewrite (eqp_separable eq); exact: make_separable.
set G := gcdp p p^`() in hg *.
have /eqpP [[c1 c2] /= /andP [c10 c20] ecg] := hg.
have := divpK (dvdp_gcdl p p^`()); rewrite -/G; set c := _ ^+ _ => ek.
have c0 : c != 0 by rewrite expf_neq0 // lead_coef_eq0 gcdp_eq0 (negPf p0).
apply/eqpP; exists (c2 * c, c1); rewrite /= ?mulf_neq0 //.
apply: (mulIf g0); rewrite -!scalerAl -e -scalerA -ek.
by rewrite !scalerAr ecg.
Qed.

(** a separable divisor of [p] coprime to [q] is constant *)
Lemma sep_coprime_const p q g u : p != 0 -> p = q * g -> g %= gcdp p p^`() ->
  coprimep u u^`() -> u %| p -> coprimep u q -> (size u <= 1)%N.
Proof.
move=> p0 e hg sepu up cuq; rewrite leqNgt; apply/negP => su.
have u0 : u != 0 by rewrite -size_poly_eq0; case: (size u) su.
(* the exact power of u in p *)
have [k uk nuk] : exists2 k, u ^+ k %| p & ~~ (u ^+ k.+1 %| p).
  have : ~~ (u ^+ size p %| p).
    rewrite gtNdvdp // polySpred // -(ltn_subRL 1) subn1 size_exp leq_pmull //.
    by rewrite -(subnKC su).
  elim: (size p) => [|m IHm]; first by rewrite expr0 dvd1p.
  by case: (boolP (u ^+ m %| p)) => [um num | /IHm //]; exists m.
case: k uk nuk => [|k] uk nuk; first by rewrite expr1 up in nuk.
have /dvdpP [[c s] /= c0 ec] := uk.
(* u^(k+1) divides g, hence p' *)
have ukg : u ^+ k.+1 %| g.
  by move: uk; rewrite e Gauss_dvdpr //; apply: coprimep_expl.
have ukp' : u ^+ k.+1 %| c *: p^`().
  rewrite dvdpZr //; apply: dvdp_trans ukg _.
  by rewrite (eqp_dvdl _ hg) dvdp_gcdr.
move: ukp'; rewrite -derivZ ec derivM deriv_exp /= dvdp_addr; last exact: dvdp_mull.
rewrite mulrnAr mulrA -mulrnAl [u ^+ k.+1]exprS dvdp_mul2r ?expf_neq0 //.
rewrite -scaler_nat dvdpZr ?natr0 // Gauss_dvdpl // => us.
case/negP: nuk; rewrite -(dvdpZr _ _ c0) ec [u ^+ k.+2]exprS.
by rewrite dvdp_mul2r ?expf_neq0.
Qed.

(** every divisor of [p] coprime to [q] is a non-zero constant *)
Lemma coprime_sqfree_part_const p q g u : p != 0 -> p = q * g -> g %= gcdp p p^`() ->
  u %| p -> coprimep u q -> size u = 1%N.
Proof.
move=> p0 e hg.
elim: {u}(size u).+1 {-2}u (ltnSn (size u)) => // n IH u; rewrite ltnS => sun up cuq.
have u0 : u != 0 by apply: contraNneq p0 => u0; rewrite u0 dvd0p in up.
apply/eqP; rewrite eqn_leq size_poly_gt0 u0 andbT.
rewrite leqNgt; apply/negP => su.
suff : (size u <= 1)%N by rewrite leqNgt su.
apply: (sep_coprime_const p0 e hg) => //.
rewrite /coprimep; apply/eqP/IH.
- exact: leq_trans (size_gcd_deriv_lt su) sun.
- exact: dvdp_trans (dvdp_gcdl _ _) up.
- exact: coprimep_dvdr (dvdp_gcdl _ _) cuq.
Qed.

End Char0.

Theorem squarefree_part_char0 (R : idomainType) :
  (forall n, (n%:R == 0 :> R) = (n == 0)%N) ->
  forall p q g u : {poly R}, p != 0 -> p = q * g -> g %= gcdp p p^`() ->
  separable_poly q /\ (u %| p -> coprimep u q -> size u = 1%N).
Proof.
move=> h p q g u p0 e hg; split; first exact: (sqfree_part_separable p0 e hg).
exact: (coprime_sqfree_part_const h p0 e hg).
Qed.
