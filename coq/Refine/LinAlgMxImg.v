(** * LinAlgMxImg: subspace::image_mod_p against MathComp matrices over 'F_p. Style: ssreflect. *)
From mathcomp Require Import all_ssreflect ssralg ssrint zmodp matrix mxalgebra finfield.
From mathcomp Require Import ssrZ zify.
From RNT.Model Require Import Base Poly LinAlg.
From RNT.Refine Require Import LinAlgList LinAlgImg LinAlgMx.

Set Implicit Arguments.
Unset Strict Implicit.
Unset Printing Implicit Defensive.

Import GRing.Theory.
Local Close Scope Z_scope.
Local Open Scope ring_scope.

Section Fp.
Variable p' : nat.
Hypothesis p_prime : prime p'.
Let p : Z := Z.of_nat p'.

(** reduction of an integer modulo p *)
Definition phi (z : Z) : 'F_p' := (int_of_Z z)%:~R.

Lemma phiD a b : phi (a + b)%Z = phi a + phi b.
Proof. by rewrite /phi -rmorphD; congr (_ %:~R); lia. Qed.
Lemma phiM a b : phi (a * b)%Z = phi a * phi b.
Proof. by rewrite /phi -rmorphM; congr (_ %:~R); lia. Qed.
Lemma phiN a : phi (- a)%Z = - phi a.
Proof. by rewrite /phi -rmorphN; congr (_ %:~R); lia. Qed.
Lemma phi0 : phi 0%Z = 0. Proof. by []. Qed.
Lemma phi1 : phi 1%Z = 1. Proof. by []. Qed.

Lemma phi_nat k : phi (Z.of_nat k) = k%:R.
Proof. by rewrite /phi (_ : int_of_Z (Z.of_nat k) = k%:Z) -?pmulrn //; lia. Qed.

Lemma phi_p : phi p = 0.
Proof. by rewrite /p phi_nat char_Fp_0. Qed.

Lemma phi_rem a : (0 <= a)%Z -> phi (Z.rem a p) = phi a.
Proof.
move=> Ha; have Hp : (0 < p)%Z by rewrite /p; have := prime_gt0 p_prime; lia.
rewrite Z.rem_mod_nonneg // [in RHS](Z.div_mod a p); last by lia.
by rewrite phiD phiM phi_p mul0r add0r.
Qed.

Lemma phi_eq0 a : (0 <= a < p)%Z -> phi a = 0 -> a = 0%Z.
Proof.
move=> Ha; rewrite -(Z2Nat.id a); last by lia.
rewrite phi_nat => /eqP; rewrite -(dvdn_charf (char_Fp p_prime)) => Hd.
have : Z.to_nat a < p' by rewrite /p in Ha; lia.
by move=> Hlt; have := gtnNdvd _ Hlt; case: (Z.to_nat a) Hd => // k ->; move/(_ isT).
Qed.

Lemma rem_range a : (0 <= a)%Z -> (0 <= Z.rem a p < p)%Z.
Proof.
move=> Ha; have Hp : (0 < p)%Z by rewrite /p; have := prime_gt0 p_prime; lia.
by rewrite Z.rem_mod_nonneg //; apply: Z.mod_pos_bound.
Qed.

Lemma fermat_Fp (x : 'F_p') : x != 0 -> x ^+ (p' - 2) = x^-1.
Proof.
move=> nz; apply: (mulIf nz); rewrite mulVf // -exprSr.
have p2 : 2 <= p' := prime_gt1 p_prime.
have -> : (p' - 2).+1 = p'.-1 by lia.
apply: (mulfI nz); rewrite mulr1 -exprS prednK ?prime_gt0 //.
by have := expf_card x; rewrite card_Fp.
Qed.

(** [modpow] / [modinv] *)
Lemma modpow_pos_spec : forall e prod cur r,
  modpow_pos e prod cur p = Done r -> (0 <= prod)%Z -> (0 <= cur)%Z ->
  (0 <= r < p)%Z /\ phi r = phi prod * phi cur ^+ (Pos.to_nat e).
Proof.
elim=> [e IH|e IH|] prod cur r /= H Hp Hc.
- bind_inv H as pr1 E1. bind_inv H as cu1 E2.
  case: (zrem_inv _ _ _ E1) => _ ?; case: (zrem_inv _ _ _ E2) => _ ?; subst pr1 cu1.
  have R1 := rem_range (a := (prod * cur)%Z); have R2 := rem_range (a := (cur * cur)%Z).
  case: (IH _ _ _ H) => [||Hr ->]; try lia.
  split=> //; rewrite !phi_rem; try lia.
  rewrite !phiM -mulrA -expr2 -exprM -exprS; congr (_ * _ ^+ _); lia.
- bind_inv H as cu1 E2; case: (zrem_inv _ _ _ E2) => _ ?; subst cu1.
  have R2 := rem_range (a := (cur * cur)%Z).
  case: (IH _ _ _ H) => [||Hr ->] //; try lia.
  split=> //; rewrite !phi_rem; try lia.
  rewrite !phiM -expr2 -exprM; congr (_ * _ ^+ _); lia.
- bind_inv H as pr1 E1. bind_inv H as cu1 E2. case: H => <-.
  case: (zrem_inv _ _ _ E1) => _ ->.
  split; first by apply: rem_range; lia.
  by rewrite phi_rem ?phiM ?expr1 //; lia.
Qed.

Lemma modinv_spec x iv :
  modinv x p = Done iv -> (0 < x < p)%Z -> (0 <= iv < p)%Z /\ phi iv = (phi x)^-1.
Proof.
move=> H Hx; have p2 : 2 <= p' := prime_gt1 p_prime.
have nz : phi x != 0 by apply/eqP => /phi_eq0; lia.
move: H; rewrite /modinv /modpow.
case E : (p - 2)%Z => [|e|e]; rewrite /p in E Hx *; try lia.
  case=> <-; have E2 : (p' - 2 = 0)%nat by lia.
  split; first by lia.
  by rewrite -(fermat_Fp nz) E2 expr0.
move/modpow_pos_spec => [||Hr ->]; try lia.
split=> //; rewrite phi1 mul1r -(fermat_Fp nz); congr (_ ^+ _); lia.
Qed.

End Fp.

Section RowOp.
Variable K : fieldType.

(** left multiplication by [rowop k0 mu] adds [mu r] times row [k0] to row [r] *)
Definition rowop n (k0 : 'I_n) (mu : 'I_n -> K) : 'M[K]_n :=
  \matrix_(r, l) ((r == l)%:R + mu r * (l == k0)%:R).

Lemma mul_rowop n q (k0 : 'I_n) mu (A : 'M[K]_(n, q)) r c :
  (rowop k0 mu *m A) r c = A r c + mu r * A k0 c.
Proof.
rewrite mxE.
under eq_bigr => l _ do rewrite mxE mulrDl -mulrA.
by rewrite big_split /= -mulr_sumr sum_delta' sum_delta.
Qed.

End RowOp.

Lemma nn_mul a b : (0 <= a)%Z -> (0 <= b)%Z -> (0 <= a * b)%Z.
Proof. by move=> *; apply: Z.mul_nonneg_nonneg. Qed.
Lemma nn_muladd a b c : (0 <= a)%Z -> (0 <= b)%Z -> (0 <= c)%Z -> (0 <= a * b + c)%Z.
Proof. by move=> *; apply: Z.add_nonneg_nonneg => //; apply: Z.mul_nonneg_nonneg. Qed.

Section Img.
Variable p' : nat.
Hypothesis p_prime : prime p'.
Let p : Z := Z.of_nat p'.
Notation phi := (phi p').
Variables (n m : nat) (M : zmat).

Let pD := phiD p_prime.
Let pM := phiM p_prime.
Let pN := phiN p_prime.
Let pP := phi_p p_prime.
Let pR := phi_rem p_prime.

Definition fmx d (a : zmat) : 'M['F_p']_(d, m) := \matrix_(s, q) phi (zent a s q).
Let A := fmx n M.

Definition cval (c : list nat) (i : nat) : nat := List.nth i c 0%nat.

Definition img_inv (k : nat) (mat : zmat) (c : list nat) : Prop :=
  [/\ length c = m /\ length mat = n,
      (forall i, i < m -> cval c i <= k) /\
      (forall i i', i < m -> i' < m -> cval c i = cval c i' -> cval c i != 0%nat -> i = i'),
      (forall s q : nat, k <= s < n -> q < m -> (0 <= zent mat s q < p)%Z) &
      exists L : 'M['F_p']_n,
        [/\ (forall s q : 'I_n, s < q -> L s q = 0) /\ (forall s, L s s = 1),
            forall (s : 'I_n) (i : 'I_m), k <= s ->
              (L *m A) s i = if cval c i != 0%nat then 0 else phi (zent mat s i),
            forall (i : 'I_m) (q : 'I_n), cval c i = q.+1 -> (L *m A) q i != 0,
            forall s : 'I_n, s < k -> (forall i : 'I_m, cval c i != s.+1) -> forall i, (L *m A) s i = 0 &
            forall (i i' : 'I_m) (q q' : 'I_n),
              cval c i = q.+1 -> cval c i' = q'.+1 -> q < q' -> (L *m A) q' i = 0]].

Lemma cval_upd c j x i : j < length c -> cval (upd c j x) i = if i == j then x else cval c i.
Proof.
move=> /ltP Hj; rewrite /cval nth_upd Nat_eqbE Nat_ltbE.
by case: eqP => // _; rewrite (introT ltP Hj).
Qed.

Lemma img_loop_spec cnt : forall k mat c r c' r',
  img_loop cnt k m p mat c r = Done (c', r') -> (cnt + k = n)%nat -> img_inv k mat c ->
  exists mat', img_inv n mat' c'.
Proof.
elim: cnt => [|cnt IH] k mat c r c' r'.
  by move=> [<- _] /= <- Inv; exists mat.
move=> H Hn Inv.
case: (img_loop_step _ _ _ _ _ _ _ _ H) => /ltP Hk.
case: Inv => [[Lc Lm] [Hle Hinj] Hrange [L [[Llow Ldiag] HB HC HD HE]]].
rewrite Lm in Hk.
pose ok := Ordinal Hk.
case=> [[Hz H']|[j [iv [mat' [Hj [Hjc [Hnz [Hc0 [Hzs [Hiv [Lm' [H' Hmat']]]]]]]]]]]].
  (* no pivot in row k *)
  apply: (IH _ _ _ _ _ _ H'); first by lia.
  split=> //.
  - by split=> // i Hi; apply: leq_trans (Hle i Hi) _.
  - by move=> s q Hs Hq; apply: Hrange => //; lia.
  exists L; split=> //.
  - by move=> s i Hs; apply: HB; lia.
  - move=> s; rewrite ltnS leq_eqVlt => /orP [/eqP Hs|Hs] Hnp i; last exact: HD.
    have -> : s = ok by apply: val_inj.
    rewrite HB //=; case: ifP => // /negbFE /eqP Hci.
    have /ltP Hi := ltn_ord i; case: (Hz i Hi) => [->|]; first exact: phi0.
    by rewrite -/(cval c i) Hci.
(* pivot in column j *)
have Hjm : j < m by apply/ltP.
pose oj := Ordinal Hjm.
have Hcj : cval c j = 0%nat by [].
set x := zent mat k j in Hnz Hiv.
have Hx : (0 < x < p)%Z by have := Hrange k j; rewrite leqnn Hk Hjm => /(_ isT isT); lia.
case: (modinv_spec p_prime Hiv Hx) => Hivr Hivp.
pose C := L *m A.
have Ckj : C ok oj = phi x by rewrite /C HB //= Hcj.
have Cnz : C ok oj != 0 by rewrite Ckj; apply/eqP => /(phi_eq0 p_prime); lia.
pose mu (s : 'I_n) : 'F_p' := if k < s then - C s oj / C ok oj else 0.
pose L' := rowop ok mu *m L.
have C'E (s : 'I_n) (i : 'I_m) : (L' *m A) s i = C s i + mu s * C ok i.
  by rewrite /L' -mulmxA mul_rowop.
have Hlen : j < length c by apply/ltP.
have cv' i : cval (upd c j k.+1) i = if i == j then k.+1 else cval c i by rewrite cval_upd.
have Hpos : (0 < p)%Z by lia.
have Rsq (s q : nat) : k < s < n -> q < m -> (0 <= zent mat s q < p)%Z.
  by move=> Hs Hq; apply: Hrange => //; lia.
have Rkq (q : nat) : q < m -> (0 <= zent mat k q < p)%Z.
  by move=> Hq; apply: Hrange => //; rewrite leqnn.
have Rdd : (0 <= p - iv)%Z by lia.
have esj (s : nat) : k < s < n -> (0 <= Z.rem (zent mat s j * (p - iv)) p < p)%Z.
  by move=> Hs; apply: (rem_range p_prime); apply: nn_mul => //; case: (Rsq s j Hs Hjm).
have phie (s : 'I_n) : k < s -> phi (Z.rem (zent mat s j * (p - iv)) p) = mu s.
  move=> Hs; have Hs2 : k < s < n by rewrite Hs ltn_ord.
  rewrite pR; last by apply: nn_mul => //; case: (Rsq s j Hs2 Hjm).
  rewrite pM pD pN pP add0r Hivp -Ckj.
  by rewrite /mu Hs /C (HB s oj) ?(ltnW Hs) //= Hcj /= mulrN mulNr.
apply: (IH _ _ _ _ _ _ H'); first by lia.
split.
- by rewrite upd_length Lm' Lc Lm.
- split=> [i Hi|i i' Hi Hi'].
    by rewrite cv'; case: ifP => // _; apply: leq_trans (Hle i Hi) _.
  rewrite !cv'; case: (i =P j) => [->|/eqP Hij]; case: (i' =P j) => [->|/eqP Hi'j] //.
  + by move=> Hc _; have := Hle i' Hi'; rewrite -Hc ltnn.
  + by move=> Hc _; have := Hle i Hi; rewrite Hc ltnn.
  + exact: Hinj.
- move=> s q Hs Hq; have /ltP Hq' := Hq.
  have Hs' : (k < s)%coq_nat /\ (s < length mat)%coq_nat by rewrite Lm; lia.
  rewrite (Hmat' s q Hs' Hq') Nat_eqbE; case: ifP => _; first by apply: esj; lia.
  have Hs2 : k < s < n by lia.
  apply: (rem_range p_prime); apply: nn_muladd; first by case: (esj s Hs2).
    by case: (Rkq q Hq).
  by case: (Rsq s q Hs2 Hq).
exists L'; split.
- split=> [s q Hsq|s].
    rewrite /L' mul_rowop Llow // /mu; case: ifP => Hks; last by rewrite mul0r addr0.
    by rewrite (Llow ok q) ?mulr0 ?addr0 //=; lia.
  rewrite /L' mul_rowop Ldiag /mu; case: ifP => Hks; last by rewrite mul0r addr0.
  by rewrite (Llow ok s) ?mulr0 ?addr0.
- move=> s i Hs; rewrite C'E cv'.
  have Hs' : (k < s)%coq_nat /\ (s < length mat)%coq_nat by rewrite Lm; have := ltn_ord s; lia.
  have /ltP Hi' := ltn_ord i.
  rewrite /C !HB ?leqnn ?(ltnW Hs) //= (Hmat' s i Hs' Hi') Nat_eqbE.
  have -> : (i == j :> nat) = (i == oj) by [].
  case: (i =P oj) => [->|/eqP Hij] /=.
    have Csj : C s oj = phi (zent mat s j) by rewrite /C HB ?(ltnW Hs) //= Hcj.
    by rewrite Hcj /= -!Ckj -/C /mu Hs -Csj mulfVK // addrN.
  case: ifP => Hci; first by rewrite mulr0 addr0.
  have Hs2 : k < s < n by rewrite Hs ltn_ord.
  rewrite pR ?pD ?pM ?phie //; first exact: addrC.
  apply: nn_muladd; first by case: (esj s Hs2).
    by case: (Rkq i (ltn_ord i)).
  by case: (Rsq s i Hs2 (ltn_ord i)).
- move=> i q; rewrite cv' C'E; case: (i =P j :> nat) => [Hij|_] Hq.
    have -> : q = ok by apply: val_inj; case: Hq.
    have -> : i = oj by apply: val_inj.
    by rewrite /mu ltnn mul0r addr0.
  have Hqk : q < k by have := Hle i (ltn_ord i); rewrite Hq.
  by rewrite /mu ltnNge (ltnW Hqk) /= mul0r addr0; apply: HC.
- move=> s; rewrite ltnS leq_eqVlt => /orP [/eqP Hs|Hs] Hnp i.
    by have := Hnp oj; rewrite cv' /= eqxx Hs eqxx.
  rewrite C'E /mu ltnNge (ltnW Hs) /= mul0r addr0; apply: HD => // i0.
  by have := Hnp i0; rewrite cv'; case: ifP => // /eqP Hi0 _; rewrite Hi0 Hcj.
- move=> i i' q q'; rewrite !cv' C'E.
  case: (i' =P j :> nat) => [Hi'j|_]; case: (i =P j :> nat) => [Hij|_] Hq Hq' Hlt.
  + by move: Hlt; case: Hq Hq' => <- [<-]; rewrite ltnn.
  + have -> : q' = ok by apply: val_inj; case: Hq'.
    by rewrite /mu ltnn mul0r addr0 /C HB ?leqnn //= Hq.
  + have Hq'k : q' < k by have := Hle i' (ltn_ord i'); rewrite Hq'.
    by move: Hlt; case: Hq => <-; lia.
  + have Hq'k : q' < k by have := Hle i' (ltn_ord i'); rewrite Hq'.
    by rewrite /mu ltnNge (ltnW Hq'k) /= mul0r addr0; apply: (HE i i' q q').
Qed.


(** *** the final state gives a basis *)
Lemma List_nth_seq (T : Type) (l : list T) i d : List.nth i l d = seq.nth d l i.
Proof. by elim: l i => [|x l IH] [|i] //=. Qed.

Lemma List_filter_seq (T : Type) (f : T -> bool) (l : list T) : List.filter f l = seq.filter f l.
Proof. by elim: l => //= x l ->. Qed.

Lemma List_map_seq (T U : Type) (f : T -> U) (l : list T) : List.map f l = seq.map f l.
Proof. by elim: l => //= x l ->. Qed.

Lemma uniq_nz (c : list nat) :
  (forall i i', i < size c -> i' < size c -> seq.nth 0%nat c i = seq.nth 0%nat c i' ->
                seq.nth 0%nat c i != 0%nat -> i = i') ->
  uniq [seq x <- c | x != 0%nat].
Proof.
elim: c => //= x c IH H.
have Hc : uniq [seq x <- c | x != 0%nat].
  by apply: IH => i i' Hi Hi' E N; have := H i.+1 i'.+1 Hi Hi' E N; case.
case: ifP => // Hx /=; rewrite Hc andbT mem_filter Hx /=.
apply/negP => /(nthP 0%nat) [i Hi E].
by have := H 0%nat i.+1 isT Hi (esym E) Hx.
Qed.

Theorem img_final (mat : zmat) (c : list nat) (out : zmat) :
  length M = n ->
  img_inv n mat c ->
  out = List.map (fun ci => List.nth (ci - 1) M [::]) (List.filter (fun ci => negb (Nat.eqb ci 0)) c) ->
  let Aout := fmx (length out) out in
  row_free Aout /\ (A :=: Aout)%MS.
Proof.
move=> LM [[Lc Lm] [Hle Hinj] _ [L [[Llow Ldiag] HB HC HD HE]]] Eout.
pose cs := [seq x <- c | x != 0%nat].
have Ecs : List.filter (fun ci => negb (Nat.eqb ci 0)) c = cs.
  by rewrite List_filter_seq; apply: eq_filter => x; rewrite Nat_eqbE.
have sizec : size c = m by [].
have cvalE i : cval c i = seq.nth 0%nat c i by rewrite /cval List_nth_seq.
have Hout : out = [seq List.nth (ci - 1) M [::] | ci <- cs] by rewrite Eout Ecs List_map_seq.
have Lout : length out = size cs by rewrite Hout; exact: size_map.
rewrite Lout => Aout.
pose rs (a : nat) : nat := (seq.nth 0%nat cs a).-1.
have cs_in a : a < size cs -> exists2 i : 'I_m, cval c i = seq.nth 0%nat cs a & cval c i != 0%nat.
  move=> Ha; have := mem_nth 0%nat Ha; rewrite mem_filter => /andP [N /(nthP 0%nat) [i Hi E]].
  by rewrite sizec in Hi; exists (Ordinal Hi); rewrite cvalE /= E.
have in_cs (i : 'I_m) : cval c i != 0%nat -> exists2 a, a < size cs & seq.nth 0%nat cs a = cval c i.
  move=> N; have : cval c i \in cs by rewrite mem_filter N cvalE mem_nth // sizec.
  by move/(nthP 0%nat) => [a Ha E]; exists a.
have Ucs : uniq cs.
  apply: uniq_nz => i i'; rewrite sizec => Hi Hi'; rewrite -!cvalE; exact: Hinj.
have rs_lt a : a < size cs -> rs a < n.
  move=> Ha; case: (cs_in a Ha) => i E N; rewrite /rs -E.
  by have := Hle i (ltn_ord i); case: (cval c i) N.
have AoutE (a : 'I_(size cs)) (i : 'I_m) : Aout a i = A (Ordinal (rs_lt a (ltn_ord a))) i.
  have -> : Aout a i = phi (zent out a i) by rewrite mxE.
  rewrite mxE /zent /=; congr (phi (List.nth _ _ _)).
  by rewrite Hout List_nth_seq (nth_map 0%nat) // /rs subn1.
pose C := L *m A.
(* pivot rows *)
pose isP (s : nat) := [exists i : 'I_m, cval c i == s.+1].
have sub1 : (Aout <= A)%MS.
  apply/row_subP => a; rewrite (_ : row a Aout = row (Ordinal (rs_lt a (ltn_ord a))) A) ?row_sub //.
  by apply/rowP => i; rewrite [LHS]mxE [RHS]mxE AoutE.
have rsE (i : 'I_m) (q : 'I_n) : cval c i = q.+1 ->
    exists2 a : 'I_(size cs), rs a = q & seq.nth 0%nat cs a = q.+1.
  move=> E; have N : cval c i != 0%nat by rewrite E.
  by case: (in_cs i N) => a Ha Ea; exists (Ordinal Ha); rewrite /rs /= Ea E.
have sub2 : (A <= Aout)%MS.
  suff H : forall b (s : 'I_n), s < b -> (row s A <= Aout)%MS.
    by apply/row_subP => s; apply: (H n).
  elim=> [//|b IH] s; rewrite ltnS leq_eqVlt => /orP [/eqP Hs|]; last exact: IH.
  case Ps : (isP s).
    case/existsP: Ps => i /eqP /rsE [a Ea _].
    rewrite (_ : row s A = row a Aout) ?row_sub //; apply/rowP => j0; rewrite [LHS]mxE [RHS]mxE AoutE.
    by congr (A _ _); apply: val_inj; rewrite /= Ea.
  have Cs0 : row s C = 0.
    apply/rowP => i; rewrite [LHS]mxE [RHS]mxE /C (HD s) //.
    by move=> i0; move/existsP: Ps => Ps; apply/negP => E; apply: Ps; exists i0.
  have E : row s A = \sum_(q < n | q != s) (- L s q) *: row q A.
    move: Cs0; rewrite /C row_mul mulmx_sum_row (bigD1 s) //= mxE Ldiag scale1r => /eqP.
    rewrite addr_eq0 => /eqP ->; rewrite -sumrN; apply: eq_bigr => q _.
    by rewrite mxE scaleNr.
  rewrite E; apply: summx_sub => q Hq.
  case: (ltnP q s) => Hqs; first by apply: scalemx_sub; apply: IH; rewrite -Hs.
  rewrite Llow ?oppr0 ?scale0r ?sub0mx // ltn_neqAle Hqs andbT eq_sym.
  by rewrite -val_eqE in Hq.
split; last by apply/eqmxP; rewrite sub2 sub1.
(* independence: the rows of C at the pivot rows are in echelon form *)
pose Sel : 'M['F_p']_(size cs, n) := \matrix_(a, q) (q == rs a :> nat)%:R.
have SelC : row_free (Sel *m C).
  apply: inj_row_free => w Hw.
  pose u := w *m Sel.
  have uC : u *m C = 0 by rewrite /u -mulmxA.
  have uE (q : 'I_n) : u 0 q = \sum_a w 0 a * (q == rs a :> nat)%:R.
    by rewrite mxE; apply: eq_bigr => a _; rewrite mxE.
  have u_np (q : 'I_n) : ~~ isP q -> u 0 q = 0.
    move=> Pq; rewrite uE big1 // => a _; case: eqP => [Eq|_]; last by rewrite mulr0.
    case: (cs_in a (ltn_ord a)) => i Ei Ni; case/negP: Pq; apply/existsP; exists i.
    by rewrite Ei Eq /rs prednK // lt0n -Ei.
  have rs_inj (a b : 'I_(size cs)) : rs a = rs b -> a = b.
    move=> E; apply: val_inj; apply/eqP; rewrite -(nth_uniq 0%nat (ltn_ord a) (ltn_ord b) Ucs); apply/eqP.
    case: (cs_in a (ltn_ord a)) => i Ei Ni; case: (cs_in b (ltn_ord b)) => i' Ei' Ni'.
    have Na : 0 < seq.nth 0%nat cs a by rewrite lt0n -Ei.
    have Nb : 0 < seq.nth 0%nat cs b by rewrite lt0n -Ei'.
    by have := congr1 succn E; rewrite /rs !prednK.
  have u_rs (b0 : 'I_(size cs)) (q : 'I_n) : q = rs b0 :> nat -> u 0 q = w 0 b0.
    move=> Eq; rewrite uE (bigD1 b0) //= Eq eqxx mulr1 big1 ?addr0 // => a Hab.
    case: eqP => [/rs_inj E|_]; last by rewrite mulr0.
    by rewrite E eqxx in Hab.
  have ech : forall b (q : 'I_n), q < b -> u 0 q = 0.
    elim=> [//|b IH] q; rewrite ltnS leq_eqVlt => /orP [/eqP Hq|]; last exact: IH.
    case Pq : (isP q); last by apply: u_np; rewrite Pq.
    case/existsP: Pq => i /eqP Ei.
    have H0 : (u *m C) 0 i = 0 by rewrite uC mxE.
    move: H0; rewrite mxE (bigD1 q) //= big1 ?addr0.
      by move/eqP; rewrite mulf_eq0 (negbTE (HC i q Ei)) orbF => /eqP.
    move=> q' Hq'; case: (ltnP q' q) => Hlt; first by rewrite IH ?mul0r // -Hq.
    case Pq' : (isP q'); last by rewrite u_np ?Pq' ?mul0r.
    case/existsP: Pq' => i' /eqP Ei'.
    rewrite -/C -[C q' i]/((L *m A) q' i) (HE i i' q q') ?mulr0 //.
    by rewrite ltn_neqAle Hlt andbT eq_sym; rewrite -val_eqE in Hq'.
  apply/rowP => b; rewrite [RHS]mxE.
  by rewrite -(u_rs b (Ordinal (rs_lt b (ltn_ord b)))) // (ech n).
have r1 : size cs <= \rank C.
  by move: SelC; rewrite /row_free => /eqP <-; exact: mxrankM_maxr.
have r2 : \rank C <= \rank A by exact: mxrankM_maxr.
have r3 : \rank A <= \rank Aout by exact: mxrankS.
by rewrite /row_free eqn_leq rank_leq_row /= (leq_trans r1 (leq_trans r2 r3)).
Qed.

End Img.

(** ** subspace::image_mod_p: the output is a sub-list of the input rows, independent modulo p, with the
    same span modulo p *)
Theorem image_mod_p_correct (p' : nat) (M out : zmat) :
  prime p' ->
  let n := length M in let m := length (List.nth 0 M [::]) in
  (forall s q : nat, s < n -> q < m -> (0 <= zent M s q < Z.of_nat p')%Z) ->
  image_mod_p M (Z.of_nat p') = Done out ->
  [/\ List.Forall (fun r => List.In r M) out,
      row_free (fmx p' m (length out) out)
    & (fmx p' m n M :=: fmx p' m (length out) out)%MS].
Proof.
move=> Pp n m Hrange; rewrite /image_mod_p => H.
bind_inv H as m0 Em0. bind_inv H as cr Ecr. case: cr Ecr H => c r Ecr H. bind_inv H as u Eu.
case: (nth_chk_inv _ _ _ Em0) => _ /(_ [::]) Em; rewrite -Em -/m -/n in Ecr.
have Inv0 : img_inv p' n m M 0 M (List.repeat 0%nat m).
  split.
  - by rewrite List.repeat_length.
  - have cv0 i : cval (List.repeat 0%nat m) i = 0%nat by rewrite /cval List.nth_repeat.
    by split=> [i _|i i' _ _ _]; rewrite cv0.
  - by move=> s q /andP [_ Hs] Hq; apply: Hrange.
  exists 1%:M; split.
  - by split=> [s q Hsq|s]; rewrite mxE ?eqxx // (_ : (s == q) = false) //; apply/eqP => E; rewrite E ltnn in Hsq.
  - by move=> s i _; rewrite mul1mx mxE /cval List.nth_repeat.
  - by move=> i q; rewrite /cval List.nth_repeat.
  - by [].
  - by move=> i i' q q'; rewrite /cval List.nth_repeat.
case: (img_loop_spec Pp Ecr (addn0 n) Inv0) => mat' Inv.
case: (img_out_inv _ _ _ H) => Eout Hc.
case: (img_final (erefl _) Inv Eout) => Hfree Heq; split=> //.
rewrite Eout; apply/List.Forall_forall => row /List.in_map_iff [ci [<- /List.filter_In [Hci Hnz]]].
apply: List.nth_In; move/List.Forall_forall: Hc => /(_ ci Hci).
by move: Hnz; rewrite Nat_eqbE; case: ci {Hci} => // ci _; lia.
Qed.
