(** * PolyZFactorW3Final: C07, irreducibility of the factors returned by [factorize_full], conditional
    on the precision chosen by the run (MathComp).

    [run_precision_ok md q]: for the values the run computes on the square-free part [q] -- the bound, the
    prime [p] (with its machine-word copy [pu]), the modulus [pe = p^e] -- the prime was not wrapped by
    [as i32] ([p = pu]) and [pe] exceeds twice every coefficient of [lc(v) u] for every factorisation
    [q = u v] in Z[x] ([prec_ok]). The second part is what the Landau-Mignotte bound guarantees for the
    bound used by the code; it is NOT proved here. *)
From Coq Require Import ZArith Lia Znumtheory.
From RNT.Model Require Import Base Poly PolyModP FactorModP Hensel PolyZFactor.
From RNT.Model Require Resultant.
From mathcomp Require Import all_ssreflect ssralg ssrnum poly polydiv.
From mathcomp Require Import ssrZ zify.
From RNT.Refine Require Import PolyRefine PolyDiv PolyZ.
From RNT.Refine Require Import PolyZFactorBasic PolyZFactorMult PolyZFactorMain PolyZFactorTop PolyZFactorPos.
From RNT.Refine Require Import PolyZFactorW3Run PolyZFactorW3Top PolyZFactorW3Irred.
Set Implicit Arguments.
Unset Strict Implicit.
Unset Printing Implicit Defensive.
Import GRing.Theory.
Local Open Scope ring_scope.

Definition run_precision_ok (md : mode) (q : seq Z) : Prop :=
  forall bound p pu pe e,
    coef_bound md q = Done bound -> find_prime (prime_fuel q) q 2 = Done (p, pu) ->
    exp_loop (exp_fuel bound) 1 p bound 0 = Done (pe, e) ->
    p = pu /\ prec_ok pe q.

Lemma get_factors_irreducible_run md (q : seq Z) r fs r' :
  canonZ q -> (1 < size q)%N -> md = Checked \/ (Z.of_nat (length q) <= two64)%Z ->
  run_precision_ok md q ->
  get_factors_of_squarefree md q r = Done (fs, r') ->
  forall f, f \in fs -> irreducible_poly (Poly f).
Proof.
move=> cq sq hmd hok egf.
move: (egf); rewrite /get_factors_of_squarefree.
case eb: coef_bound => [bound|t|] //=.
case efp: find_prime => [[p pu]|t|] //=.
case eel: exp_loop => [[pe e]|t|] //= _.
have [epu hprec] := hok _ _ _ _ _ eb efp eel.
rewrite -epu in efp.
exact: (get_factors_irreducible cq sq hmd eb efp eel hprec egf).
Qed.

(** [C] every returned polynomial is irreducible over Q, conditional on the precision of the run *)
Theorem factorize_full_irreducible md (a : seq Z) r c l cof r' : canonZ a ->
  md = Checked \/ (Z.of_nat (length a) <= two64)%Z ->
  factorize_full md a r = Done (c, l, cof, r') ->
  (forall g q, (Resultant.resultant_gcd (cont_pp a).2 (pdiff opsZ (cont_pp a).2)).2 = Done g ->
               div_exact (cont_pp a).2 g = Some q -> run_precision_ok md q) ->
  forall fe, fe \in l -> irreducible_poly (Poly fe.1).
Proof.
move=> ca hmd ef hok; case: (leqP (size a) 1) => sa.
  by have [-> _] := factorize_full_small ca sa ef.
have [g [q [fs [[_ ppp spp] [eg [pg hg ed e pq]] egf ee]]]] := factorize_full_run ca sa ef.
set pp := (cont_pp a).2 in ppp spp eg hg ed e ee hok.
have [cpp _ _] := ppp; have [cq _ _] := pq.
have [eq hpf] := get_factors_lprod pq egf.
have emap : map fst l = fs.
  have cfs f : f \in fs -> canonZ f by move/hpf => [].
  by have [l' [-> -> _ _ _]] := extract_all_spec cpp cfs ee.
(* sizes *)
have pp0 := prim_pos_neq0 ppp.
have [cg _ _] := pg.
have [q0 spq] := div_exact_size cpp cg pp0 ed.
have sg : (0 < size g)%N by have := prim_pos_neq0 pg; case: (g).
have lpp : length pp = length a.
  have a0 : a != [::] by case: (a) sa.
  have [ec _ _ _ _] := cont_pp_main ca a0 (surjective_pairing (cont_pp a)).
  have c0 : (cont_pp a).1 != 0.
    by apply/eqP => c0; move: ec; rewrite c0 scale0r => /esym/eqP; rewrite canon_Poly_eq0 // (negPf a0).
  by rewrite !Llength_eq -(canon_size_Poly cpp) -(size_scale _ c0) ec canon_size_Poly.
have hmdq : md = Checked \/ (Z.of_nat (length q) <= two64)%Z.
  case: hmd => [->|h]; [by left | right].
  by move: h; rewrite -lpp !Llength_eq spq; move: (size q) (size g) sg => x y; lia.
(* q is not constant: otherwise pp = q g would be a square *)
have sq : (1 < size q)%N.
  rewrite ltnNge; apply/negP => /(prim_pos_const pq) eq1.
  have [sep _] := sqfree_part_sep ppp hg e.
  move: egf; rewrite eq1 /get_factors_of_squarefree /coef_bound /= /u64_norm /=.
  by case: md {hok hmd hmdq ef}.
move=> fe hfe; apply: (get_factors_irreducible_run cq sq hmdq (hok g q eg ed) egf).
by rewrite -emap; apply/mapP; exists fe.
Qed.

(** [C] hence, under the same condition, the full property: [a = c * prod f_i^e_i] with irreducible,
    pairwise distinct, primitive, positive [f_i] and exact multiplicities [e_i >= 1] *)
Theorem factorize_full_complete md (a : seq Z) r c l cof r' : canonZ a ->
  md = Checked \/ (Z.of_nat (length a) <= two64)%Z ->
  factorize_full md a r = Done (c, l, cof, r') ->
  (forall g q, (Resultant.resultant_gcd (cont_pp a).2 (pdiff opsZ (cont_pp a).2)).2 = Done g ->
               div_exact (cont_pp a).2 g = Some q -> run_precision_ok md q) ->
  [/\ cof = [:: 1%Z], Poly a = c *: fprod l
    & forall fe, fe \in l -> irreducible_poly (Poly fe.1)].
Proof.
move=> ca hmd ef hok; have hirr := factorize_full_irreducible ca hmd ef hok.
by have [e1 e2] := factorize_full_irreducible_product ca ef hirr; split.
Qed.

(** ** non-vacuity: the precision hypothesis for the square-free part x + 1 with modulus 8 *)
Lemma prec_ok_x1 : prec_ok 8 [:: 1; 1]%Z.
Proof.
move=> u v euv i.
have P11 : Poly [:: 1; 1]%Z = 'X - (-1)%:P :> {poly Z}.
  by rewrite /= !cons_poly_def mul0r add0r mul1r polyCN opprK.
have s11 : size (Poly [:: 1; 1]%Z : {poly Z}) = 2%N by rewrite P11 size_XsubC.
have l11 : lead_coef (Poly [:: 1; 1]%Z : {poly Z}) = 1 by rewrite P11 lead_coefXsubC.
have n0 : Poly [:: 1; 1]%Z != 0 :> {poly Z} by rewrite -size_poly_eq0 s11.
have u0 : u != 0 by apply: contraNneq n0 => h; rewrite euv h mul0r.
have v0 : v != 0 by apply: contraNneq n0 => h; rewrite euv h mulr0.
have lc : lead_coef u * lead_coef v = 1 by rewrite -lead_coefM -euv l11.
have ssum : (size u + size v = 3)%N.
  by have := size_mul u0 v0; rewrite -euv s11; move: (size u) (size v); lia.
have lcu : (Z.abs (lead_coef u) = 1 /\ Z.abs (lead_coef v) = 1)%Z.
  move: lc; rewrite ZmulE; move: (lead_coef u) (lead_coef v) => x y lc.
  by case: (Z.mul_eq_1 _ _ lc) => hx; rewrite hx in lc *; lia.
have su : (0 < size u)%N by rewrite size_poly_gt0.
have sv : (0 < size v)%N by rewrite size_poly_gt0.
have hcoef : (Z.abs u`_i <= 1)%Z.
  case: (ltnP 1 (size u)) => s1.
  - (* v is a unit constant: u = +-(x + 1) *)
    have /size_poly1P [v1 v10 ev] : size v == 1%N by move: ssum s1; move: (size u) (size v) sv; lia.
    have lv : lead_coef v = v1 by rewrite ev lead_coefC.
    have eu : u = v1 *: ('X - (-1)%:P).
      have vv : v1 * v1 = 1 by move: lcu.2; rewrite lv ZmulE; lia.
      have eX : 'X - (-1)%:P = v1 *: u :> {poly Z} by rewrite -P11 euv ev mulrC mul_polyC.
      by rewrite eX scalerA vv scale1r.
    rewrite eu coefZ coefB coefX coefC ZmulE.
    by move: lcu.2; rewrite lv; case: i => [|[|i]] /=; lia.
  - have /size_poly1P [u1 u10 eu] : size u == 1%N by move: s1 su; move: (size u); lia.
    have lu : lead_coef u = u1 by rewrite eu lead_coefC.
    by rewrite eu coefC; move: lcu.1; rewrite lu; case: i => [|i] /=; lia.
by rewrite Z.abs_mul; move: lcu.2 hcoef; lia.
Qed.

(** the hypothesis of [factorize_full_irreducible] holds for the run on (x+1)^7: the square-free part is
    x + 1, the bound 6, the prime 2 (not wrapped), the modulus 2^3 = 8 *)
Lemma precision_ok_pow7 :
  let a := [:: 1; 7; 21; 35; 35; 21; 7; 1]%Z in
  forall g q, (Resultant.resultant_gcd (cont_pp a).2 (pdiff opsZ (cont_pp a).2)).2 = Done g ->
              div_exact (cont_pp a).2 g = Some q -> run_precision_ok Checked q.
Proof.
move=> a g q.
have -> : (Resultant.resultant_gcd (cont_pp a).2 (pdiff opsZ (cont_pp a).2)).2 = Done [:: 1; 6; 15; 20; 15; 6; 1]%Z.
  by vm_compute.
case=> <-.
have -> : div_exact (cont_pp a).2 [:: 1; 6; 15; 20; 15; 6; 1]%Z = Some [:: 1; 1]%Z by vm_compute.
case=> <- bound p pu pe e.
have -> : coef_bound Checked [:: 1; 1]%Z = Done 6%Z by vm_compute.
case=> <-.
have -> : find_prime (prime_fuel [:: 1; 1]%Z) [:: 1; 1]%Z 2 = Done (2%Z, 2%Z) by vm_compute.
case=> <- <-.
have -> : exp_loop (exp_fuel 6) 1 2 6 0 = Done (8%Z, 3%Z) by vm_compute.
by case=> <- _; split=> //; exact: prec_ok_x1.
Qed.
