(** C20: what a run of [lll] does to the pair (basis, H), for EVERY arithmetic record.

    [lstep n] is one elementary move: RED replaces row k of both matrices by (row k) - q (row l)
    for an integer q and l < k; SWAP exchanges rows k and k+1 of both. [lll_trace]: if the run
    returns, its answer is reached from (input, identity) by finitely many such moves.
    (stdlib + lia; no floats, no rationals.) *)
From RNT.Model Require Import Base Lll.
From Coq Require Import Lia Relations.

Section Trace.
Context {T : Type} (F : arith T).

Definition red_basis (n : nat) (basis : list (list T)) (k l : nat) (q : Z) : list (list T) :=
  set_nth basis k (pre_upd (fun x y => fsub F x (fmul F (fofZ F q) y)) n (nth k basis []) (nth l basis [])).
Definition red_h (n : nat) (h : list (list Z)) (k l : nat) (q : Z) : list (list Z) :=
  set_nth h k (pre_upd (fun x y => x - q * y) n (nth k h []) (nth l h [])).

Inductive lstep (n : nat) : list (list T) * list (list Z) -> list (list T) * list (list Z) -> Prop :=
| st_red : forall basis h k l q,
    (l < k)%nat -> (k < n)%nat ->
    (n <= length (nth k basis []))%nat -> (n <= length (nth l basis []))%nat ->
    lstep n (basis, h) (red_basis n basis k l q, red_h n h k l q)
| st_swap : forall basis h k,
    (k + 1 < n)%nat ->
    lstep n (basis, h) (swap_nth [] basis k (k + 1), swap_nth [] h k (k + 1)).

Definition lsteps (n : nat) := clos_refl_trans _ (lstep n).
Definition st_of (s : lstate (T:=T)) := (l_basis s, l_h s).

Lemma lsteps_refl n x : lsteps n x x.
Proof. apply rt_refl. Qed.
Lemma lsteps_trans n x y z : lsteps n x y -> lsteps n y z -> lsteps n x z.
Proof. apply rt_trans. Qed.
Lemma lsteps_one n x y : lstep n x y -> lsteps n x y.
Proof. apply rt_step. Qed.

(** RED: one move or none; k, kmax untouched. *)
Lemma red_spec n s k l s' :
  red F n s k l = Done s' -> (l < k)%nat -> (k < n)%nat ->
  l_k s' = l_k s /\ l_kmax s' = l_kmax s /\ lsteps n (st_of s) (st_of s').
Proof.
  unfold red. intros H Hl Hk.
  destruct (fleb F (fhalf F) (fabs F (get2 F (l_mu s) k l))).
  2:{ inversion H; subst. repeat split; apply lsteps_refl. }
  destruct (to_int F (get2 F (l_mu s) k l)) as [q| |]; cbn [bind] in H; try discriminate.
  unfold upd_prefix in H.
  destruct (Nat.leb n (length (row (l_basis s) k)) && Nat.leb n (length (row (l_basis s) l)))%bool eqn:E1;
    cbn [bind] in H; try discriminate.
  destruct (Nat.leb n (length (rowZ (l_h s) k)) && Nat.leb n (length (rowZ (l_h s) l)))%bool eqn:E2;
    cbn [bind] in H; try discriminate.
  inversion H; subst; clear H. cbn [l_k l_kmax].
  repeat split.
  apply lsteps_one. unfold st_of; cbn [l_basis l_h].
  apply andb_prop in E1. destruct E1 as [Ea Eb].
  apply Nat.leb_le in Ea. apply Nat.leb_le in Eb.
  exact (st_red n (l_basis s) (l_h s) k l q Hl Hk Ea Eb).
Qed.

(** SWAP: one move. *)
Lemma swap_spec n s k s' :
  swap F n s k = Done s' -> (k + 1 < n)%nat ->
  l_k s' = l_k s /\ l_kmax s' = l_kmax s /\ lsteps n (st_of s) (st_of s').
Proof.
  unfold swap. intros H Hk.
  match type of H with context [upd_prefix ?f ?a ?b ?c] => destruct (upd_prefix f a b c) end;
    cbn [bind] in H; try discriminate.
  match type of H with context [upd_prefix ?f ?a ?b ?c] => destruct (upd_prefix f a b c) end;
    cbn [bind] in H; try discriminate.
  inversion H; subst; clear H. cbn [l_k l_kmax]. repeat split.
  apply lsteps_one. unfold st_of; cbn [l_basis l_h]. apply st_swap; exact Hk.
Qed.

Lemma step2_spec s :
  l_k (step2 F s) = l_k s /\ st_of (step2 F s) = st_of s.
Proof.
  unfold step2. destruct (Nat.ltb (l_kmax s) (l_k s)); [|split; reflexivity].
  match goal with |- context [for_range ?a ?b ?f ?x] => destruct (for_range a b f x) end.
  split; reflexivity.
Qed.

Lemma with_k_st s k : st_of (with_k s k) = st_of s.
Proof. reflexivity. Qed.

Lemma inner_loop_spec n : forall fuel s s',
  inner_loop F fuel n s = Done s' -> (1 <= l_k s < n)%nat ->
  (1 <= l_k s' < n)%nat /\ lsteps n (st_of s) (st_of s').
Proof.
  induction fuel as [|f IH]; intros s s' H Hk; [discriminate|].
  cbn [inner_loop] in H.
  destruct (red F n s (l_k s) (l_k s - 1)) as [s1| |] eqn:R; cbn [bind] in H; try discriminate.
  apply red_spec in R; try lia. destruct R as (K1 & _ & S1).
  destruct (lovasz_fails F s1).
  - destruct (swap F n s1 (l_k s1 - 1)) as [s2| |] eqn:W; cbn [bind] in H; try discriminate.
    apply swap_spec in W; try lia. destruct W as (K2 & _ & S2).
    apply IH in H.
    + destruct H as [Hk' S3]. split; [exact Hk'|].
      eapply lsteps_trans; [exact S1|]. eapply lsteps_trans; [exact S2|].
      rewrite with_k_st in S3. exact S3.
    + cbn [with_k l_k]. lia.
  - inversion H; subst. split; [lia|exact S1].
Qed.

Lemma red_down_spec n : forall cnt s s',
  red_down F n s cnt = Done s' -> (cnt < l_k s)%nat -> (l_k s < n)%nat ->
  l_k s' = l_k s /\ lsteps n (st_of s) (st_of s').
Proof.
  induction cnt as [|c IH]; intros s s' H Hc Hk; cbn [red_down] in H.
  - inversion H; subst. split; [reflexivity|apply lsteps_refl].
  - destruct (red F n s (l_k s) c) as [s1| |] eqn:R; cbn [bind] in H; try discriminate.
    apply red_spec in R; try lia. destruct R as (K1 & _ & S1).
    apply IH in H; try lia. destruct H as [K2 S2].
    split; [lia|]. eapply lsteps_trans; eassumption.
Qed.

Lemma main_loop_spec n : forall fuel s s',
  main_loop F fuel n s = Done s' -> (1 <= l_k s < n)%nat ->
  lsteps n (st_of s) (st_of s').
Proof.
  induction fuel as [|f IH]; intros s s' H Hk; [discriminate|].
  cbn [main_loop] in H.
  destruct (step2_spec s) as [K0 S0].
  destruct (inner_loop F f n (step2 F s)) as [s1| |] eqn:I; cbn [bind] in H; try discriminate.
  apply inner_loop_spec in I; try lia. destruct I as [K1 S1]. rewrite S0 in S1.
  destruct (red_down F n s1 (l_k s1 - 1)) as [s2| |] eqn:D; cbn [bind] in H; try discriminate.
  apply red_down_spec in D; try lia. destruct D as [K2 S2].
  destruct (Nat.leb n (l_k s2 + 1)) eqn:E.
  - inversion H; subst. eapply lsteps_trans; eassumption.
  - apply Nat.leb_gt in E. apply IH in H.
    + rewrite with_k_st in H. eapply lsteps_trans; [exact S1|]. eapply lsteps_trans; eassumption.
    + cbn [with_k l_k]. lia.
Qed.

Theorem lll_trace fuel basis B' H :
  lll F fuel basis = Done (B', H) ->
  (2 <= length basis)%nat /\ rectangular basis = true /\
  lsteps (length basis) (basis, identity (length basis)) (B', H).
Proof.
  unfold lll. intros R.
  destruct (Nat.ltb_spec (length basis) 2) as [|Hn]; [discriminate|].
  destruct (rectangular basis) eqn:Rect; cbn [negb] in R; [|discriminate].
  match type of R with context [main_loop F fuel ?n ?s0] => destruct (main_loop F fuel n s0) as [s| |] eqn:M end;
    cbn [bind] in R; try discriminate.
  inversion R; subst; clear R.
  apply main_loop_spec in M; [|cbn [l_k]; lia].
  repeat split; [exact Hn|exact M].
Qed.

End Trace.
