(** * Rabin-Monier, part 4: transfer to [Z] and to the model's [strong_liar] / [mr_round] (bridge file, MathComp style). *)
From Coq Require Import ZArith List Znumtheory Lia.
From mathcomp Require Import all_ssreflect.
From mathcomp Require Import zify.
From RNT.Model Require Import Base Elementary.
From RNT.Refine Require Import FermatBridge RabinMonierNat.
From RNT.Refine Require MillerRabinProofs LiarBound.
Set Implicit Arguments.
Unset Strict Implicit.
Unset Printing Implicit Defensive.
Local Close Scope Z_scope.

Lemma prime_nat_Z (N : nat) : prime N -> Znumtheory.prime (Z.of_nat N).
Proof.
move=> HN; have N_gt1 := prime_gt1 HN.
apply/prime_alt; split; first lia.
move=> k Hk [q Hq].
have Hd : (Z.to_nat k %| N)%nat by apply/dvdnP; exists (Z.to_nat q); lia.
by move/primeP: HN => [_ /(_ _ Hd)] /orP[] /eqP; lia.
Qed.

Lemma powmod_nat a e N : (0 < N)%nat ->
  (Z.of_nat a ^ Z.of_nat e mod Z.of_nat N)%Z = Z.of_nat (expn a e %% N).
Proof. by move=> HN; rewrite modn_Zmod // expn_pow Nat2Z.inj_pow. Qed.

Lemma of_nat_mul_pow2 D r : (Z.of_nat D * 2 ^ Z.of_nat r)%Z = Z.of_nat (D * expn 2 r)%nat.
Proof. by rewrite Nat2Z.inj_mul expn_pow Nat2Z.inj_pow. Qed.

(** the textbook condition over [Z] is the one over [nat] *)
Lemma strong_liar_nat N D S a : (1 < N)%nat ->
  MillerRabinProofs.strong_liar (Z.of_nat N) (Z.of_nat D) (Z.of_nat S) (Z.of_nat a) <-> nliar N D S a.
Proof.
move=> N_gt1; have N_gt0 : (0 < N)%nat by lia.
rewrite /MillerRabinProofs.strong_liar /nliar; split.
- case=> [E|[j [Hj E]]]; apply/orP; [left|right].
    by move: E; rewrite powmod_nat // => E; apply/eqP; lia.
  apply/hasP; exists (Z.to_nat j); first by rewrite mem_iota; lia.
  move: E; rewrite -{1}(Z2Nat.id j); last lia.
  by rewrite of_nat_mul_pow2 powmod_nat // => E; apply/eqP; lia.
- case/orP=> [/eqP E|/hasP[r Hr /eqP E]]; [left|right].
    by rewrite powmod_nat // E.
  exists (Z.of_nat r); split; first by move: Hr; rewrite mem_iota; lia.
  by rewrite of_nat_mul_pow2 powmod_nat // E; lia.
Qed.

Lemma seq_iota lo k : List.seq lo k = iota lo k.
Proof. by elim: k lo => //= k IH lo; rewrite IH. Qed.

Lemma length_filter_map (f : Z -> bool) (g : nat -> bool) (l : list nat) :
  (forall a, a \in l -> f (Z.of_nat a) = g a) ->
  length (List.filter f (List.map Z.of_nat l)) = count g l.
Proof.
elim: l => //= a l IH H; rewrite H ?mem_head //.
have {}IH : length (List.filter f (List.map Z.of_nat l)) = count g l.
  by apply: IH => b Hb; apply: H; rewrite inE Hb orbT.
by case: (g a) => /=; rewrite IH.
Qed.

Lemma odd_Z_nat n : (0 <= n)%Z -> Z.odd n = true -> odd (Z.to_nat n).
Proof.
move=> Hn /Z.odd_spec [k Hk].
have -> : Z.to_nat n = (Z.to_nat k).*2.+1 by rewrite -mul2n; lia.
by rewrite /= odd_double.
Qed.

Lemma liars_length_nat n d c : (9 < n)%Z -> MillerRabinProofs.mr_decomp n = (d, c) ->
  length (LiarBound.liars n) = count (nliar (Z.to_nat n) (Z.to_nat d) (Z.to_nat c)) (iota 1 (Z.to_nat n).-1).
Proof.
move=> n_gt9 Edc.
have [d_odd [d_gt0 [c_ge0 End]]] := MillerRabinProofs.mr_decomp_spec n d c ltac:(lia) Edc.
pose N := Z.to_nat n; pose D := Z.to_nat d; pose S := Z.to_nat c.
have EN : n = Z.of_nat N by rewrite /N; lia.
have ED : d = Z.of_nat D by rewrite /D; lia.
have ES : c = Z.of_nat S by rewrite /S; lia.
rewrite /LiarBound.liars Edc /LiarBound.zrange seq_iota -/N -/D -/S.
have -> : (N - 1)%coq_nat = N.-1 by lia.
apply: length_filter_map => a; rewrite mem_iota => Ha.
have N_gt1 : (1 < N)%nat by lia.
have n_gt2 : (2 < n)%Z by lia.
have d_ge0 : (0 <= d)%Z by lia.
have SP := MillerRabinProofs.mr_round_spec n d S (Z.of_nat a) n_gt2 d_ge0.
rewrite Z2Nat.id // in SP.
have SN := strong_liar_nat D S a N_gt1; rewrite -EN -ED -ES in SN.
by apply/idP/idP => H; [apply/SN/SP|apply/SP/SN].
Qed.

(** [P] Rabin-Monier for the model: the strong liars of an odd composite n > 9 in [1, n), as listed by
    [LiarBound.liars] (filter of the model's round [mr_round]), number at most (n - 1) / 4. *)
Theorem liars_card n d c : (9 < n)%Z -> Z.odd n = true -> ~ Znumtheory.prime n ->
  MillerRabinProofs.mr_decomp n = (d, c) ->
  (4 * Z.of_nat (length (LiarBound.liars n)) <= n - 1)%Z.
Proof.
move=> n_gt9 n_odd n_npr Edc.
have [d_odd [d_gt0 [c_ge0 End]]] := MillerRabinProofs.mr_decomp_spec n d c ltac:(lia) Edc.
pose N := Z.to_nat n; pose D := Z.to_nat d; pose S := Z.to_nat c.
have EN : n = Z.of_nat N by rewrite /N; lia.
have ED : d = Z.of_nat D by rewrite /D; lia.
have ES : c = Z.of_nat S by rewrite /S; lia.
have N_gt9 : (9 < N)%nat by lia.
have N_odd : odd N by apply: odd_Z_nat => //; lia.
have D_odd : odd D by apply: odd_Z_nat => //; lia.
have N_npr : ~~ prime N by apply/negP=> /prime_nat_Z; rewrite -EN.
have ENDS : N.-1 = (D * expn 2 S)%nat.
  by apply: Nat2Z.inj; rewrite -of_nat_mul_pow2 -ED -ES -End; lia.
have RM := rabin_monier_nat_pred N_gt9 N_odd N_npr D_odd ENDS.
rewrite (liars_length_nat n_gt9 Edc) -/N -/D -/S; lia.
Qed.

(** ** The same with phi(n): the units of Z/n listed over [Z] *)

Definition units (n : Z) : list Z :=
  List.filter (fun a => Z.eqb (Z.gcd a n) 1) (LiarBound.zrange 1 (Z.to_nat n - 1)%coq_nat).

Lemma gcd_Z_nat a N : Z.eqb (Z.gcd (Z.of_nat a) (Z.of_nat N)) 1 = coprime N a.
Proof.
rewrite /coprime Z.gcd_comm; apply/idP/idP => [/Z.eqb_eq H|/eqP H]; [apply/eqP|apply/Z.eqb_eq]; lia.
Qed.

Lemma totient_count N : (1 < N)%nat -> totient N = count (coprime N) (iota 1 N.-1).
Proof.
move=> N_gt1; rewrite totient_count_coprime /index_iota subn0.
have -> : iota 0 N = 0%nat :: iota 1 N.-1 by case: N N_gt1.
rewrite big_cons /coprime gcdn0 (gtn_eqF N_gt1) add0n -sum1_count [RHS]big_mkcond /=.
by apply: eq_bigr => i _; case: (_ == _).
Qed.

Lemma units_length n : (2 < n)%Z -> length (units n) = totient (Z.to_nat n).
Proof.
move=> n_gt2; pose N := Z.to_nat n.
have EN : n = Z.of_nat N by rewrite /N; lia.
rewrite totient_count; last lia.
rewrite /units /LiarBound.zrange seq_iota.
have -> : (Z.to_nat n - 1)%coq_nat = N.-1 by rewrite /N; lia.
by apply: length_filter_map => a _; rewrite {1}EN gcd_Z_nat.
Qed.

(** [P] Rabin-Monier with phi(n): at most a quarter of the units of Z/n are strong liars (odd composite n > 9). *)
Theorem liars_card_phi n d c : (9 < n)%Z -> Z.odd n = true -> ~ Znumtheory.prime n ->
  MillerRabinProofs.mr_decomp n = (d, c) ->
  (4 * Z.of_nat (length (LiarBound.liars n)) <= Z.of_nat (length (units n)))%Z.
Proof.
move=> n_gt9 n_odd n_npr Edc.
have [d_odd [d_gt0 [c_ge0 End]]] := MillerRabinProofs.mr_decomp_spec n d c ltac:(lia) Edc.
pose N := Z.to_nat n; pose D := Z.to_nat d; pose S := Z.to_nat c.
have EN : n = Z.of_nat N by rewrite /N; lia.
have ED : d = Z.of_nat D by rewrite /D; lia.
have ES : c = Z.of_nat S by rewrite /S; lia.
have N_gt9 : (9 < N)%nat by lia.
have N_odd : odd N by apply: odd_Z_nat => //; lia.
have D_odd : odd D by apply: odd_Z_nat => //; lia.
have N_npr : ~~ prime N by apply/negP=> /prime_nat_Z; rewrite -EN.
have ENDS : N.-1 = (D * expn 2 S)%nat.
  by apply: Nat2Z.inj; rewrite -of_nat_mul_pow2 -ED -ES -End; lia.
have RM := rabin_monier_nat N_gt9 N_odd N_npr D_odd ENDS.
rewrite units_length; last lia.
rewrite (liars_length_nat n_gt9 Edc) -/N -/D -/S; lia.
Qed.
