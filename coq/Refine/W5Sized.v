(** * W5Sized: C07, an explicit size condition on the INPUT under which the prime found by the search is not
    wrapped, hence the whole property holds with no run-computed flag.

    For a square-free q of degree n <= 25 with |q_i| <= 2^K:  |lc(q) Res(q, q')| <= 2^(K + 49 (K + 11))
    (Leibniz bound, W5DetBound.v); a divisor q of a has |q_i| <= 2^deg(q) ||a||_1 (Landau-Mignotte); a non-zero
    integer of fewer than 2^30 bits has a non-dividing prime below 2^31 (W5SmallPrime.v); the search stops at
    or before such a prime (W5FindPrime.v). *)
From Coq Require Import ZArith Lia Znumtheory.
From RNT.Model Require Import Base Poly PolyModP FactorModP Hensel PolyZFactor.
From RNT.Model Require Resultant.
From mathcomp Require Import all_ssreflect ssralg ssrnum poly polydiv matrix mxpoly separable.
From mathcomp Require Import ssrZ zify.
From RNT.Refine Require Import PolyRefine PolyDiv PolyZ.
From RNT.Refine Require Import PolyZFactorBasic PolyZFactorMult PolyZFactorMain PolyZFactorTop PolyZFactorPos.
From RNT.Refine Require Import PolyZFactorW3Run PolyZFactorW3Top PolyZFactorW3Irred PolyZFactorW3Final PolyZFactorW3Mignotte PolyZFactorW3Bound.
From RNT.Refine Require Import W5DetBound W5SmallPrime W5FindPrime.
From RNT.Refine Require SubresFlag.
Set Implicit Arguments.
Unset Strict Implicit.
Unset Printing Implicit Defensive.
Import Order.TTheory GRing.Theory Num.Theory.
Local Open Scope ring_scope.

Lemma normZ_abs (x : Z) : `|x| = Z.abs x. Proof. by []. Qed.
Lemma leZ_le (x y : Z) : (x <= y) = (Z.leb x y). Proof. by []. Qed.


(** ** the discriminant-like integer D = lc(Q) Res(Q, Q') of a polynomial of degree <= 25 with |Q_i| <= 2^K *)
Lemma disc_bound (Q : {poly Z}) (K : nat) : (1 < size Q)%N -> (size Q <= 26)%N ->
  (forall i, `|Q`_i| <= 2 ^+ K) ->
  `|lead_coef Q * resultant Q^`() Q| <= 2 ^+ (K + (K + 11) * 49).
Proof.
move=> s1 s2 hQ.
have sQ' := SubresFlag.size_derivZ s1.
set m := ((size Q).-1 + (size Q^`()).-1)%N.
have m49 : (m <= 49)%N by rewrite /m sQ'; lia.
pose M : Z := 2 ^+ (K + 5).
have two1 : 1 <= (2 : Z) by [].
have hQ1 i : `|Q`_i| <= M.
  by apply: le_trans (hQ i) _; rewrite ler_weexpn2l // leq_addr.
have hQ' i : `|Q^`()`_i| <= M.
  rewrite coef_deriv.
  case: (ltnP i.+1 (size Q)) => hi; last by rewrite nth_default // mul0rn normr0 exprn_ge0.
  rewrite -mulr_natr normrM /M exprD; apply: ler_pmul => //.
  rewrite normr_nat; have : (i.+1 <= 32)%N by lia.
  by rewrite -(ler_nat [numDomainType of Z]).
have hres := resultant_norm_le hQ' hQ1; rewrite -/m in hres.
have hfact : (m`!)%:R <= (2 : Z) ^+ (6 * m).
  have : (m`! <= 64 ^ m)%N.
    apply: leq_trans (fact_le_expn m) _.
    by case: (m) m49 => // k hk; rewrite leq_exp2r //; lia.
  by rewrite -(ler_nat [numDomainType of Z]) natrX exprM.
have hR : `|resultant Q^`() Q| <= 2 ^+ ((K + 11) * 49).
  apply: le_trans hres _.
  apply: (@le_trans _ _ (2 ^+ (6 * m) * M ^+ m)); first by rewrite ler_wpmul2r // exprn_ge0 // exprn_ge0.
  rewrite /M -exprM -exprD ler_weexpn2l //.
  by move: (K) (m) m49 => a b; nia.
rewrite normrM exprD; apply: ler_pmul => //.
by rewrite lead_coefE.
Qed.

(** ** a divisor q of a has |q_i| <= 2^deg(q) ||a||_1 (Landau-Mignotte) *)
Lemma factor_coef_bound (a q v : {poly Z}) : a = q * v -> a != 0 -> forall i,
  `|q`_i| <= 2 ^+ (size q).-1 * \sum_(j < size a) Z.abs a`_j.
Proof.
move=> e a0 i.
have v0 : v != 0 by apply: contraNneq a0 => h; rewrite e h mulr0.
have lv : lead_coef v <> 0%Z by apply/eqP; rewrite lead_coef_eq0.
have hm := @mignotte_Z _ _ _ e a0 i.
have hc := bin_le_exp2 (size q).-1 i.
have S0 := @sum_abs_ge0 a.
rewrite Zexp2_nat normZ_abs.
move: hm hc S0; move: (\sum_(j < size a) _) 'C(_, _) (2 ^ _)%N => S C P hm hc S0.
have h1 : (Z.abs q`_i <= Z.abs (Z.mul (lead_coef v) q`_i))%Z by rewrite Z.abs_mul; nia.
have h2 : (Z.of_nat C * S <= Z.of_nat P * S)%Z by apply: Z.mul_le_mono_nonneg_r => //; lia.
rewrite -[GRing.mul _ _]/(Z.mul _ _); lia.
Qed.

(** ** from bit lengths to the bound *)
Lemma abs_lt_pow2_of_log2 (x B : Z) : (0 <= B)%Z -> (Z.log2 (Z.abs x) < B)%Z -> (Z.abs x < 2 ^ B)%Z.
Proof.
move=> B0 h; case: (Z.eq_dec x 0) => [->|x0]; first exact: Z.pow_pos_nonneg.
by apply/Z.log2_lt_pow2 => //; lia.
Qed.

Lemma norm1_bound (a : {poly Z}) (B : nat) : (size a <= 26)%N -> (forall i, `|a`_i| <= 2 ^+ B) ->
  \sum_(j < size a) Z.abs a`_j <= 2 ^+ (B + 5).
Proof.
move=> sa ha.
apply: (@le_trans _ _ (\sum_(j < size a) 2 ^+ B)); first by apply: ler_sum => j _; exact: ha.
rewrite sumr_const card_ord -mulr_natr exprD ler_wpmul2l ?exprn_ge0 //.
have : (size a <= 32)%N by lia.
by rewrite -(ler_nat [numDomainType of Z]).
Qed.

Lemma log2_D_small (a q v : {poly Z}) (B : nat) : a = q * v -> a != 0 -> (1 < size q)%N ->
  (size a <= 26)%N -> (forall i, `|a`_i| <= 2 ^+ B) -> (Z.of_nat B <= 16777216)%Z ->
  (Z.log2 (Z.abs (lead_coef q * resultant q^`() q)) < 1073741824)%Z.
Proof.
move=> e a0 s1 sa ha hB.
have q0 : q != 0 by apply: contraNneq a0 => h; rewrite e h mul0r.
have v0 : v != 0 by apply: contraNneq a0 => h; rewrite e h mulr0.
have sq : (size q <= size a)%N.
  rewrite e size_mul //; move: (size_poly_gt0 v); rewrite v0.
  by move: (size q) (size v) => x y; lia.
pose K := (B + 30)%N.
have two1 : 1 <= (2 : Z) by [].
have hq i : `|q`_i| <= 2 ^+ K.
  apply: le_trans (factor_coef_bound e a0 i) _.
  have -> : K = (25 + (B + 5))%N by rewrite /K; lia.
  rewrite exprD; apply: ler_pmul; rewrite ?exprn_ge0 //; first by apply: sumr_ge0 => j _; lia.
  - by rewrite ler_weexpn2l //; lia.
  - exact: norm1_bound.
have := disc_bound s1 (leq_trans sq sa) hq.
set D := _ * _; rewrite -Zpow_exp normZ_abs => hD.
have h1 : (Z.log2 (Z.abs D) <= Z.of_nat (K + (K + 11) * 49))%Z.
  rewrite -(Z.log2_pow2 (Z.of_nat _)); last exact: Nat2Z.is_nonneg.
  by apply: Z.log2_le_mono; move: hD; rewrite leZ_le => /Z.leb_le.
by move: h1; rewrite /K; move: (Z.log2 _) => t; lia.
Qed.

(** ** the prime found for a square-free divisor q of a is not wrapped when a has degree <= 25 and
    coefficients of at most 2^24 bits *)
Theorem prime_not_wrapped_of_size (a q : seq Z) (v : {poly Z}) : canonZ q -> (1 < size q)%N ->
  separable_poly (Poly q) -> Poly a = Poly q * v -> Poly a != 0 -> (size (Poly a) <= 26)%N ->
  (forall i, (Z.log2 (Z.abs (Poly a)`_i) < 16777216)%Z) ->
  forall p pu, find_prime (prime_fuel q) q 2 = Done (p, pu) ->
  [/\ p = pu, Znumtheory.prime p & (p < 2147483648)%Z].
Proof.
move=> cq sq sep e a0 sa hbits p pu efp.
have [B EB] : exists B : nat, Z.of_nat B = 16777216%Z by exists (Z.to_nat 16777216); lia.
have hB : (Z.of_nat B <= 16777216)%Z by rewrite EB.
have ha i : `|(Poly a)`_i| <= 2 ^+ B.
  rewrite -Zpow_exp EB normZ_abs leZ_le; apply/Z.leb_le/Z.lt_le_incl.
  exact: abs_lt_pow2_of_log2 (hbits i).
have s1 : (1 < size (Poly q))%N by rewrite canon_size_Poly.
have hlog := log2_D_small e a0 s1 sa ha hB.
set D := Z.mul _ _ in hlog.
have D0' : lead_coef (Poly q) * resultant (Poly q)^`() (Poly q) != 0.
  rewrite mulf_neq0 //; first by rewrite lead_coef_eq0 -size_poly_gt0; exact: ltn_trans s1.
  rewrite resultant_eq0 -leqNgt.
  by move: sep; rewrite /separable_poly coprimep_sym /coprimep => /eqP ->.
have D0 : D <> 0%Z by apply/eqP.
have [p0 [hp0 lt0 nd]] := exists_prime_below_2_31 D0 hlog.
have [-> hp le] := find_prime_small cq sq hp0 lt0 nd efp.
by split=> //; lia.
Qed.

(** ** [P] the whole property C07 for every completed run on an input of degree <= 25 whose coefficients have
    at most 2^24 bits: no condition on the run *)
Theorem factorize_full_sized md (a : seq Z) r c l cof r' : canonZ a -> (size a <= 26)%N ->
  (forall x, x \in a -> (Z.log2 (Z.abs x) < 16777216)%Z) ->
  factorize_full md a r = Done (c, l, cof, r') ->
  [/\ cof = [:: 1%Z], Poly a = c *: fprod l
    & forall fe, fe \in l -> irreducible_poly (Poly fe.1)].
Proof.
move=> ca sa hbits ef.
case: (leqP (size a) 1) => sa1.
  have [el ecof] := factorize_full_small ca sa1 ef; split=> //; last by rewrite el.
  by rewrite ecof in ef; have [] := factorize_product ca ef.
have hlen : (Z.of_nat (length a) <= 4294967296)%Z by rewrite Llength_eq; lia.
apply: (factorize_full_irreducible_bound ca hlen ef) => g q eg ed.
have [g' [q' [fs [[ec ppp spp] [eg' [pg hg ed' e' pq]] egf ee]]]] := factorize_full_run ca sa1 ef.
move: eg'; rewrite eg => -[eg']; rewrite -{g'}eg' in pg hg ed' e'.
move: ed'; rewrite ed => -[eq']; rewrite -{q'}eq' in pq egf e'.
have [cq _ _] := pq.
have [sep _] := sqfree_part_sep ppp hg e'.
have sq : (1 < size q)%N.
  rewrite ltnNge; apply/negP => /(prim_pos_const pq) eq1.
  move: egf; rewrite eq1 /get_factors_of_squarefree /coef_bound /= /u64_norm /=.
  by case: (md).
have a0 : a != [::] by case: (a) sa1.
have [eca _ _ _ _] := cont_pp_main ca a0 (surjective_pairing (cont_pp a)).
have e : Poly a = Poly q * ((cont_pp a).1 *: Poly g) by rewrite -eca e' scalerAr.
have Pa0 : Poly a != 0 by rewrite canon_Poly_eq0.
have sPa : (size (Poly a) <= 26)%N by rewrite canon_size_Poly.
have hb i : (Z.log2 (Z.abs (Poly a)`_i) < 16777216)%Z.
  rewrite coef_Poly; case: (ltnP i (size a)) => hi; last by rewrite nth_default.
  by apply: hbits; exact: mem_nth.
by move=> p pu efp; have [] := prime_not_wrapped_of_size cq sq sep e Pa0 sPa hb efp.
Qed.
