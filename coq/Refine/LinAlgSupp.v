(** * LinAlgSupp: one iteration of subspace::supplement_basis, entry by entry. Style: stdlib + lia. *)
From RNT.Model Require Import Base Poly LinAlg.
From RNT.Refine Require Import LinAlgList LinAlgStep.
From Coq Require Import Lia List Arith.
Import ListNotations.

Section Field.
Context {T : Type} (F : field_ops T).
Notation R := (fr F).
Notation zero := (r0 (fr F)).
Notation ent := (ent F).

Lemma supp_row_inv s t n d ms rj rj' :
  supp_row F s t n d ms rj = Done rj' ->
  forall i, (i < n)%nat ->
    nth i rj' zero =
      if Nat.eqb i s || Nat.eqb i t then nth (swp s t i) rj zero
      else rsub R (nth i rj zero) (rmul R (nth i ms zero) (rmul R (nth t rj zero) d)).
Proof.
  unfold supp_row. intros H i Hi. bind_inv H as rj1 E1. bind_inv H as x Ex.
  apply swap_chk_inv in E1 as (_ & _ & _ & N1). apply nth_chk_inv in Ex as [_ Ex].
  apply zip_range_inv in H as (_ & _ & N). rewrite N.
  destruct (Nat.ltb_spec i (0 + n)); try lia. cbn [Nat.leb andb].
  rewrite <- (Ex zero), !N1. fold (swp s t i) (swp s t s).
  replace (swp s t s) with t by (unfold swp; now rewrite Nat.eqb_refl).
  destruct (Nat.eqb_spec i s) as [->|Hs]; cbn [orb]; auto.
  destruct (Nat.eqb_spec i t) as [->|Ht]; cbn [orb]; auto.
  unfold swp. destruct (Nat.eqb_spec i s), (Nat.eqb_spec i t); try lia. auto.
Qed.

Lemma supp_loop_step cnt s n orig mm bm res :
  supp_loop F (S cnt) s n orig mm bm = Done res -> (s < length mm)%nat ->
  (res = Err InsufficientRank /\ forall i, (s <= i < n)%nat -> is0 R (ent mm s i) = true)
  \/ exists t mm' bm',
       (s <= t < n)%nat /\ is0 R (ent mm s t) = false /\
       (forall i, (s <= i < t)%nat -> is0 R (ent mm s i) = true) /\
       length mm' = length mm /\
       supp_loop F cnt (S s) n orig mm' bm' = Done res /\
       (t < length bm)%nat /\ (s < length bm)%nat /\ (s < length orig)%nat /\
       bm' = upd (upd bm t (nth s bm [])) s (nth s orig []) /\
       forall j i, (j < length mm)%nat -> (i < n)%nat ->
         ent mm' j i =
           if (s <? j)%nat then
             if Nat.eqb i s || Nat.eqb i t then ent mm j (swp s t i)
             else rsub R (ent mm j i) (rmul R (ent mm s i) (rmul R (ent mm j t) (finv F (ent mm s t))))
           else ent mm j i.
Proof.
  intros H Hs. cbn [supp_loop] in H.
  bind_inv H as ms Ems. bind_inv H as o Eo.
  apply nth_chk_inv in Ems as [_ Ems].
  apply find_in_row_inv in Eo. destruct o as [t|].
  2:{ injection H as <-. left. split; auto. intros i Hi. destruct Eo as [_ Zs].
      specialize (Zs (i - s)%nat). rewrite nth_skipn in Zs.
      replace (s + (i - s))%nat with i in Zs by lia. unfold LinAlgStep.ent. rewrite (Ems []). apply Zs. lia. }
  destruct Eo as (B & _ & NZ & Zs). rewrite nth_skipn in NZ.
  replace (s + (t - s))%nat with t in NZ by lia.
  right.
  bind_inv H as p Ep. bind_inv H as d Ed. bind_inv H as bs Ebs. bind_inv H as bm1 Ebm1.
  bind_inv H as os Eos. bind_inv H as bm2 Ebm2. bind_inv H as rest Erest.
  apply nth_chk_inv in Ep as [_ Ep]. apply inv_chk_inv in Ed as [_ ->].
  apply nth_chk_inv in Ebs as [Hsb Ebs]. apply set_chk_inv in Ebm1 as [Htb ->].
  apply nth_chk_inv in Eos as [Hso Eos]. apply set_chk_inv in Ebm2 as [_ ->].
  apply ent_mapM in Erest as [Lrest Nrest]. rewrite skipn_length in Lrest, Nrest.
  assert (Pv : p = ent mm s t) by (unfold LinAlgStep.ent; now rewrite (Ems []), (Ep zero)).
  exists t, (firstn (S s) mm ++ rest), (upd (upd bm t bs) s os).
  repeat split; try lia; auto.
  - unfold LinAlgStep.ent. now rewrite (Ems []).
  - intros i Hi. specialize (Zs (i - s)%nat). rewrite nth_skipn in Zs.
    replace (s + (i - s))%nat with i in Zs by lia. unfold LinAlgStep.ent. rewrite (Ems []). apply Zs. lia.
  - rewrite app_length, firstn_length. lia.
  - now rewrite (Ebs []), (Eos []).
  - intros j i Hj Hi. unfold LinAlgStep.ent at 1. rewrite nth_firstn_app by lia.
    destruct (Nat.ltb_spec j (S s)), (Nat.ltb_spec s j); try lia; auto.
    specialize (Nrest (j - S s)%nat ltac:(lia)). rewrite nth_skipn in Nrest.
    replace (S s + (j - S s))%nat with j in Nrest by lia.
    apply supp_row_inv with (i := i) in Nrest; auto. rewrite Nrest, Pv.
    unfold LinAlgStep.ent. now rewrite (Ems []).
Qed.

(** the rows of [bmat] above [s] are never written again *)
Lemma firstn_upd_ge {A} (l : list A) i x k : (k <= i)%nat -> firstn k (upd l i x) = firstn k l.
Proof.
  revert i k; induction l as [|y t IH]; intros [|i] [|k] H; cbn; auto; try lia.
  f_equal. apply IH. lia.
Qed.

Lemma firstn_S_nth {A} (l : list A) k d : (k < length l)%nat -> firstn (S k) l = firstn k l ++ [nth k l d].
Proof.
  revert k; induction l as [|y t IH]; intros [|k] H; cbn in *; auto; try lia.
  f_equal. apply IH. lia.
Qed.

Lemma nth_firstn_lt {A} (l : list A) k i d : (i < k)%nat -> nth i (firstn k l) d = nth i l d.
Proof.
  revert k i; induction l as [|y t IH]; intros [|k] [|i] H; cbn; auto; try lia. apply IH. lia.
Qed.

Lemma supp_bm_firstn (bm orig : list (list T)) s t :
  (s <= t)%nat -> (t < length bm)%nat -> (s < length orig)%nat ->
  firstn s bm = firstn s orig ->
  firstn (S s) (upd (upd bm t (nth s bm [])) s (nth s orig [])) = firstn (S s) orig.
Proof.
  intros Hst Ht Hs H.
  rewrite (firstn_S_nth _ s []) by (rewrite !upd_length; lia).
  rewrite (firstn_S_nth orig s []) by lia.
  rewrite nth_upd_eq by (rewrite upd_length; lia).
  rewrite !firstn_upd_ge by lia. now rewrite H.
Qed.

End Field.
