(** * W8C06Alg (C06, eighth wave): the algebra K[x]/(F) on row vectors, change of generator.

      K a field, F of degree n >= 1.  Elements of K[x]/(F) are row vectors of length n (coordinates in the
      power basis); [mulF u v] is the product.  [Mul u] = matrix of multiplication by u ([AlgNormRes.redmx]),
      [trF u] its trace.  [pform F n] (OrderW3Trace) is the trace form of the power basis.
      - Gram matrix: tr(b_i b_j) = (B P B^T)_ij for every matrix B of rows b_i;
      - change of generator: if G(h) = 0 mod F then x |-> h induces the K-algebra map K[x]/(G) -> K[x]/(F) with
        matrix [Phi] (row i = h^i mod F); it is multiplicative, maps 1 to 1; when [Phi] is invertible the
        regular representations are conjugate, the trace is preserved and
           pform G = Phi * pform F * Phi^T.
      - if moreover F(h') = 0 mod G and h(h') = x then Phi(h) * Phi(h') = 1.
      Style: ssreflect/MathComp, generic field. *)
From mathcomp Require Import all_ssreflect ssralg zmodp poly polydiv matrix mxalgebra mxpoly.
From mathcomp Require Import zify.
From RNT.Refine Require Import AlgQuot AlgNormRes OrderW3Trace.
Set Implicit Arguments.
Unset Strict Implicit.
Unset Printing Implicit Defensive.
Import GRing.Theory.
Local Open Scope ring_scope.

Lemma modp_bigsum (K : fieldType) (I : Type) (r : seq I) (P : pred I) (E : I -> {poly K}) d :
  (\sum_(i <- r | P i) E i) %% d = \sum_(i <- r | P i) (E i %% d).
Proof. by elim/big_rec2: _ => [|i x y _ <-]; rewrite ?mod0p ?modpD. Qed.

Section Alg.
Variable K : fieldType.
Variables (F : {poly K}) (n : nat).
Hypothesis szF : size F = n.+1.
Hypothesis n0 : (0 < n)%N.

Let F0 : F != 0. Proof. by rewrite -size_poly_eq0 szF. Qed.

Lemma size_modF (p : {poly K}) : (size (p %% F)%R <= n)%N.
Proof. by rewrite -ltnS -szF ltn_modp. Qed.

Definition mulF (u v : 'rV[K]_n) : 'rV[K]_n := poly_rV ((rVpoly u * rVpoly v) %% F).
Definition oneF : 'rV[K]_n := poly_rV 1.

Lemma rVpoly_mulF u v : rVpoly (mulF u v) = (rVpoly u * rVpoly v) %% F.
Proof. by rewrite /mulF poly_rV_K // size_modF. Qed.

Lemma rVpoly_oneF : rVpoly oneF = 1.
Proof. by rewrite /oneF poly_rV_K // size_poly1. Qed.

Lemma rVpoly_small (u : 'rV[K]_n) : rVpoly u %% F = rVpoly u.
Proof. by rewrite modp_small // szF ltnS size_poly. Qed.

Lemma rVpoly_inj : injective (@rVpoly K n).
Proof. exact: (can_inj rVpolyK). Qed.

Lemma mulFC u v : mulF u v = mulF v u.
Proof. by rewrite /mulF mulrC. Qed.

Lemma mulFA u v w : mulF u (mulF v w) = mulF (mulF u v) w.
Proof.
apply: rVpoly_inj; rewrite !rVpoly_mulF modp_mul modp_mul2 mulrA.
by [].
Qed.

Lemma mul1F u : mulF oneF u = u.
Proof. by apply: rVpoly_inj; rewrite rVpoly_mulF rVpoly_oneF mul1r rVpoly_small. Qed.

Lemma mulFDl u u' v : mulF (u + u') v = mulF u v + mulF u' v.
Proof. by rewrite /mulF linearD /= mulrDl modpD linearD. Qed.

Lemma mulFZl a u v : mulF (a *: u) v = a *: mulF u v.
Proof. by rewrite /mulF linearZ /= -scalerAl modpZl linearZ. Qed.

Lemma mulFDr u v v' : mulF u (v + v') = mulF u v + mulF u v'.
Proof. by rewrite mulFC mulFDl !(mulFC u). Qed.

Lemma mulFZr a u v : mulF u (a *: v) = a *: mulF u v.
Proof. by rewrite mulFC mulFZl mulFC. Qed.

Lemma mul0F v : mulF 0 v = 0.
Proof. by rewrite /mulF linear0 mul0r mod0p linear0. Qed.

Lemma mulF_suml (I : Type) (r : seq I) (P : pred I) (E : I -> 'rV[K]_n) v :
  mulF (\sum_(i <- r | P i) E i) v = \sum_(i <- r | P i) mulF (E i) v.
Proof. by elim/big_rec2: _ => [|i x y _ <-]; rewrite ?mul0F ?mulFDl. Qed.

Lemma mulF_sumr (I : Type) (r : seq I) (P : pred I) (E : I -> 'rV[K]_n) u :
  mulF u (\sum_(i <- r | P i) E i) = \sum_(i <- r | P i) mulF u (E i).
Proof. by rewrite mulFC mulF_suml; apply: eq_bigr => i _; rewrite mulFC. Qed.

(** the four-term exchange used for products of modules: (a b)(c d) = (a c)(b d) *)
Lemma mulFACA a b c d : mulF (mulF a b) (mulF c d) = mulF (mulF a c) (mulF b d).
Proof. by rewrite -!mulFA; congr (mulF a _); rewrite !mulFA (mulFC b c). Qed.

(** ** the regular representation and the trace *)
Definition Mul (u : 'rV[K]_n) : 'M[K]_n := redmx F (rVpoly u) n.
Definition trF (u : 'rV[K]_n) : K := \tr (Mul u).

Lemma mulmx_Mul u v : v *m Mul u = mulF u v.
Proof. by rewrite /Mul redmx_lin. Qed.

Lemma MulD u v : Mul (u + v) = Mul u + Mul v.
Proof. by apply/row_matrixP => i; rewrite !rowE mulmxDr !mulmx_Mul mulFDl. Qed.

Lemma MulZ a u : Mul (a *: u) = a *: Mul u.
Proof. by apply/row_matrixP => i; rewrite !rowE -scalemxAr !mulmx_Mul mulFZl. Qed.

Lemma trFD u v : trF (u + v) = trF u + trF v.
Proof. by rewrite /trF MulD mxtraceD. Qed.

Lemma trFZ a u : trF (a *: u) = a * trF u.
Proof. by rewrite /trF MulZ mxtraceZ. Qed.

Lemma trF0 : trF 0 = 0.
Proof. by rewrite -[0 : 'rV[K]_n](scale0r 0) trFZ mul0r. Qed.

Lemma trF_sum (I : Type) (r : seq I) (P : pred I) (E : I -> 'rV[K]_n) :
  trF (\sum_(i <- r | P i) E i) = \sum_(i <- r | P i) trF (E i).
Proof. by elim/big_rec2: _ => [|i x y _ <-]; rewrite ?trF0 ?trFD. Qed.

(** the trace form of the power basis is the Gram matrix of the unit vectors *)
Lemma pform_trF (i j : 'I_n) : pform F n i j = trF (mulF (delta_mx 0 i) (delta_mx 0 j)).
Proof.
rewrite mxE /trF /Mul rVpoly_mulF !rVpoly_delta -exprD.
by apply: congr1; apply/matrixP => a b; rewrite !mxE modp_mul2.
Qed.

(** [P] Gram matrix of the rows of B: tr(b_i b_j) = (B P B^T)_ij *)
Theorem gram_pform (B : 'M[K]_n) (i j : 'I_n) :
  trF (mulF (row i B) (row j B)) = (B *m pform F n *m B^T) i j.
Proof.
have L : trF (mulF (row i B) (row j B))
         = \sum_(p < n) \sum_(q < n) B i p * B j q * pform F n p q.
  rewrite {1}[row i B]row_sum_delta mulF_suml trF_sum; apply: eq_bigr => p _.
  rewrite mulFZl trFZ {1}[row j B]row_sum_delta mulF_sumr trF_sum mulr_sumr; apply: eq_bigr => q _.
  by rewrite mulFZr trFZ -pform_trF !mxE mulrA.
rewrite L mxE exchange_big /=; apply: eq_bigr => q _.
rewrite [(B *m _) i q]mxE mulr_suml; apply: eq_bigr => p _.
by rewrite [B^T q j]mxE mulrAC.
Qed.

End Alg.

(** ** change of generator *)
Section Change.
Variable K : fieldType.
Variables (F G : {poly K}) (n : nat).
Hypothesis szF : size F = n.+1.
Hypothesis szG : size G = n.+1.
Hypothesis n0 : (0 < n)%N.
Variable h : {poly K}.
Hypothesis Gh : (G \Po h) %% F = 0.

(** substitution is compatible with the reduction modulo G *)
Lemma comp_mod (a : {poly K}) : ((a %% G) \Po h) %% F = (a \Po h) %% F.
Proof.
rewrite {2}(divp_eq a G) comp_polyD comp_polyM modpD -modp_mul Gh mulr0 mod0p add0r.
by [].
Qed.

Definition Phi : 'M[K]_n := \matrix_(i < n) poly_rV ((('X^i : {poly K}) \Po h) %% F).

Lemma mulmx_Phi (v : 'rV[K]_n) : v *m Phi = poly_rV ((rVpoly v \Po h) %% F).
Proof.
rewrite {1}[v]row_sum_delta mulmx_suml.
have -> : rVpoly v = \sum_(i < n) v 0 i *: 'X^i.
  by rewrite {1}[v]row_sum_delta linear_sum /=; apply: eq_bigr => i _; rewrite linearZ /= rVpoly_delta.
rewrite (raddf_sum (comp_poly_additive h)) modp_bigsum linear_sum /=; apply: eq_bigr => i _.
rewrite -scalemxAl -rowE rowK.
by rewrite comp_polyZ modpZl linearZ.
Qed.

Lemma rVpoly_Phi (v : 'rV[K]_n) : rVpoly (v *m Phi) = (rVpoly v \Po h) %% F.
Proof. by rewrite mulmx_Phi poly_rV_K // (size_modF szF). Qed.

(** [P] x |-> h is multiplicative and unital *)
Theorem Phi_mul (u v : 'rV[K]_n) : mulF G u v *m Phi = mulF F (u *m Phi) (v *m Phi).
Proof.
apply: (@rVpoly_inj K n).
rewrite rVpoly_Phi (rVpoly_mulF szG) comp_mod comp_polyM (rVpoly_mulF szF) !rVpoly_Phi.
by rewrite modp_mul modp_mul2.
Qed.

Theorem Phi_one : oneF K n *m Phi = oneF K n.
Proof.
apply: (@rVpoly_inj K n); rewrite rVpoly_Phi (rVpoly_oneF K n0) comp_polyC modp_small //.
by rewrite szF size_poly1.
Qed.

(** the regular representations are intertwined by Phi *)
Lemma Mul_Phi (u : 'rV[K]_n) : Mul G u *m Phi = Phi *m Mul F (u *m Phi).
Proof.
apply/row_matrixP => i; rewrite !rowE !mulmxA (mulmx_Mul G) Phi_mul.
by rewrite (mulmx_Mul F).
Qed.

Hypothesis uPhi : Phi \in unitmx.

(** [P] the trace is preserved *)
Theorem trF_Phi (u : 'rV[K]_n) : trF F (u *m Phi) = trF G u.
Proof.
rewrite /trF; have -> : Mul G u = Phi *m Mul F (u *m Phi) *m invmx Phi by rewrite -Mul_Phi mulmxK.
by rewrite mxtrace_mulC mulKmx.
Qed.

(** [P] the trace forms of the two power bases *)
Theorem pform_Phi : pform G n = Phi *m pform F n *m Phi^T.
Proof.
apply/matrixP => i j.
by rewrite (pform_trF szG) -trF_Phi Phi_mul -!rowE (gram_pform szF).
Qed.

Theorem det_pform_Phi : \det (pform G n) = \det Phi ^+ 2 * \det (pform F n).
Proof. by rewrite pform_Phi !det_mulmx det_tr expr2 mulrAC. Qed.

(** the inverse is multiplicative too *)
Lemma Phi_inv_mul (u v : 'rV[K]_n) : mulF F u v *m invmx Phi = mulF G (u *m invmx Phi) (v *m invmx Phi).
Proof.
apply: (can_inj (mulmxK uPhi)).
by rewrite mulmxKV // Phi_mul !mulmxKV.
Qed.

Lemma Phi_inv_one : oneF K n *m invmx Phi = oneF K n.
Proof. by apply: (can_inj (mulmxK uPhi)); rewrite mulmxKV // Phi_one. Qed.

End Change.

(** ** a two-sided inverse substitution makes Phi invertible *)
Section Inverse.
Variable K : fieldType.
Variables (F G : {poly K}) (n : nat).
Hypothesis szF : size F = n.+1.
Hypothesis szG : size G = n.+1.
Hypothesis n0 : (0 < n)%N.
Variables h h' : {poly K}.
Hypothesis Gh : (G \Po h) %% F = 0.
Hypothesis Fh' : (F \Po h') %% G = 0.
Hypothesis hh' : h \Po h' = 'X.

Theorem Phi_inverse : Phi F n h *m Phi G n h' = 1%:M.
Proof.
apply/row_matrixP => i; rewrite !rowE mulmxA mulmx1.
apply: (@rVpoly_inj K n).
rewrite (rVpoly_Phi szG) (rVpoly_Phi szF) (comp_mod Fh') -comp_polyA hh' comp_polyXr.
by rewrite modp_small // szG ltnS size_poly.
Qed.

Lemma Phi_unit : Phi F n h \in unitmx.
Proof. by case/mulmx1_unit: Phi_inverse. Qed.

End Inverse.
