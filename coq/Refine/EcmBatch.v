(** * [many_simplify_spec]: Montgomery's batched inversion computes, point by point, what the
    sequential [simplify] computes (coordinates congruent mod n; equal representatives when the
    inputs are non-negative). *)
From Coq Require Import ZArith List Bool Lia Znumtheory Zdiv Setoid Morphisms RelationClasses.
From RNT.Model Require Import Base Elementary Ecm EcmParallel.
From RNT.Refine Require Import EcmInv.
Open Scope Z_scope.

(** Congruence mod n, wrapped in an inductive so that setoid rewriting never unfolds it. *)
Inductive cg (n a b : Z) : Prop := cg_intro (H : a mod n = b mod n).

Global Instance cg_equiv n : Equivalence (cg n).
Proof.
  split.
  - intros a. constructor. reflexivity.
  - intros a b [H]. constructor. congruence.
  - intros a b c [H1] [H2]. constructor. congruence.
Qed.

Global Instance cg_mul n : Proper (cg n ==> cg n ==> cg n) Z.mul.
Proof.
  intros a b [H] c d [H']. constructor.
  rewrite (Zmult_mod a c), (Zmult_mod b d). now rewrite H, H'.
Qed.

Lemma rem_eqm n a : n <> 0 -> cg n (Z.rem a n) a.
Proof.
  intros Hn. constructor. rewrite (Z.quot_rem' a n) at 2.
  rewrite Z.add_comm, Z.mul_comm. now rewrite Z.mod_add.
Qed.

Lemma zrem_eqm a n r : zrem a n = Done r -> cg n r a.
Proof. intros H. apply zrem_done in H as [Hn ->]. now apply rem_eqm. Qed.

(** An inverse mod n forces coprimality. *)
Lemma inverse_gcd z w n : 0 < n -> cg n (z * w) 1 -> Z.gcd z n = 1.
Proof.
  intros Hn [H]. apply Zgcd_1_rel_prime. apply bezout_rel_prime.
  pose proof (Z.div_mod (z * w) n ltac:(lia)) as H1. pose proof (Z.div_mod 1 n ltac:(lia)) as H2.
  apply (Bezout_intro z n 1 w (1 / n - z * w / n)). lia.
Qed.

(** Inverses mod n are unique. *)
Lemma inverse_unique z w w' n : cg n (z * w) 1 -> cg n (z * w') 1 -> cg n w w'.
Proof.
  intros H H'. transitivity (w * (z * w')).
  - rewrite H'. now rewrite Z.mul_1_r.
  - replace (w * (z * w')) with ((z * w) * w') by ring. rewrite H. now rewrite Z.mul_1_l.
Qed.

(** The exact (unreduced) products the three loops work with. *)
Definition nzp (z : Z) : Z := if z =? 0 then 1 else z.
Definition prodnz (zs : list Z) : Z := fold_right (fun z acc => nzp z * acc) 1 zs.

Lemma zprod_from_spec : forall zs acc, zprod_from acc zs = acc * prodnz zs.
Proof.
  induction zs as [|z t IH]; intros acc; cbn [zprod_from prodnz fold_right]; [ring|].
  rewrite IH. fold (prodnz t). unfold nzp. destruct (z =? 0); ring.
Qed.

(** [ls] = zacc_l from position i on, against the exact prefix product L. *)
Fixpoint pre_rel (n L : Z) (ls zs : list Z) : Prop :=
  match zs with
  | [] => exists l, ls = [l] /\ cg n l L
  | z :: t => exists l lt, ls = l :: lt /\ cg n l L /\ pre_rel n (L * nzp z) lt t
  end.

(** [rs] = zacc_r from position i on. *)
Fixpoint suf_rel (n : Z) (rs zs : list Z) : Prop :=
  match zs with
  | [] => exists r, rs = [r] /\ cg n r 1
  | z :: t => exists r rt, rs = r :: rt /\ cg n r (prodnz (z :: t)) /\ suf_rel n rt t
  end.

Lemma acc_l_spec n : forall zs cur L ls, acc_l cur zs n = Done ls -> cg n cur L -> pre_rel n L ls zs.
Proof.
  induction zs as [|z t IH]; intros cur L ls H HL; cbn [acc_l] in H; cbn [pre_rel].
  - inversion H; subst. eauto.
  - apply bind_done in H as (nxt & Hn & H). apply bind_done in H as (rest & Hr & H).
    inversion H; subst. exists cur, rest. split; [reflexivity|]. split; [assumption|].
    apply (IH nxt); [assumption|]. unfold nzp. destruct (z =? 0).
    + inversion Hn; subst. now rewrite Z.mul_1_r.
    + apply zrem_eqm in Hn. rewrite Hn. now rewrite HL.
Qed.

Lemma suf_rel_hd n rs zs : suf_rel n rs zs -> cg n (hd 1 rs) (prodnz zs).
Proof.
  destruct zs as [|z t]; cbn [suf_rel].
  - intros (r & -> & Hr). exact Hr.
  - intros (r & rt & -> & Hr & _). exact Hr.
Qed.

Lemma acc_r_spec n : forall zs rs, acc_r zs n = Done rs -> suf_rel n rs zs.
Proof.
  induction zs as [|z t IH]; intros rs H; cbn [acc_r] in H; cbn [suf_rel].
  - inversion H; subst. exists 1. split; reflexivity.
  - apply bind_done in H as (rest & Hr & H). apply bind_done in H as (v & Hv & H).
    inversion H; subst. apply IH in Hr. exists v, rest. split; [reflexivity|]. split; [|assumption].
    pose proof (suf_rel_hd n rest t Hr) as Hh.
    cbn [prodnz fold_right]. fold (prodnz t). unfold nzp. destruct (z =? 0).
    + inversion Hv; subst. rewrite Hh. now rewrite Z.mul_1_l.
    + apply zrem_eqm in Hv. rewrite Hv. rewrite Hh. now rewrite Z.mul_comm.
Qed.

(** What the batched routine guarantees about one output point [o] for the input point [p]:
    it has the shape of a simplified point, and whenever the sequential [simplify] of the same
    point returns, it returns a point (never a divisor) with congruent coordinates. *)
Definition agrees (n : Z) (p o : Point) : Prop :=
  (pz p = 0 -> o = inf) /\ (pz p <> 0 -> pz o = 1) /\
  forall c r, en c = n -> simplify p c = Done r ->
    exists s, r = ROk s /\ pz s = pz o /\ px o mod n = px s mod n /\ py o mod n = py s mod n.

Lemma agrees_inf n p : pz p = 0 -> agrees n p inf.
Proof.
  intros Hz. split; [reflexivity|]. split; [contradiction|].
  intros c r _ H. unfold simplify in H. rewrite Hz in H. cbn in H. inversion H; subst.
  exists inf. repeat split; reflexivity.
Qed.

Lemma agrees_finite n p invz x y : 0 < n -> pz p <> 0 -> cg n (pz p * invz) 1 ->
  cg n x (px p * invz) -> cg n y (py p * invz) -> agrees n p (mkPoint x y 1).
Proof.
  intros Hn Hz Hinv Hx Hy. split; [contradiction|]. split; [reflexivity|].
  intros c r Hc H. unfold simplify in H. apply Z.eqb_neq in Hz. rewrite Hz in H. rewrite Hc in H. clear Hc.
  apply bind_done in H as ([iv|g] & Hi & H).
  - apply inv_ok in Hi as (_ & _ & Hiv); [|assumption]. apply (cg_intro n) in Hiv.
    apply bind_done in H as (xs & Hxs & H). apply bind_done in H as (ys & Hys & H).
    inversion H; subst. eexists. split; [reflexivity|]. cbn [px py pz]. split; [reflexivity|].
    assert (Hu : cg n invz iv) by (apply (inverse_unique (pz p)); assumption).
    apply zrem_eqm in Hxs, Hys.
    assert (Hxx : cg n x xs) by (rewrite Hx, Hxs; now rewrite Hu).
    assert (Hyy : cg n y ys) by (rewrite Hy, Hys; now rewrite Hu).
    destruct Hxx, Hyy. split; assumption.
  - apply inv_err in Hi as [-> Hg]. exfalso. apply Hg. now apply (inverse_gcd _ invz).
Qed.

Definition suf_tl (n : Z) (rs1 zs : list Z) : Prop :=
  match zs with [] => True | _ :: t => suf_rel n rs1 t end.

Lemma suf_rel_uncons n rs zs : suf_rel n rs zs ->
  exists r rt, rs = r :: rt /\ cg n r (prodnz zs) /\ suf_tl n rt zs.
Proof.
  destruct zs as [|z t]; cbn [suf_rel suf_tl].
  - intros (r & -> & Hr). exists r, []. auto.
  - intros (r & rt & -> & Hr & Ht). exists r, rt. auto.
Qed.

Lemma simp_results_spec n iv : 0 < n -> forall pts ls rs1 out L,
  simp_results pts ls rs1 iv n = Done out ->
  pre_rel n L ls (map pz pts) ->
  suf_tl n rs1 (map pz pts) ->
  cg n (L * prodnz (map pz pts) * iv) 1 ->
  Forall2 (agrees n) pts out.
Proof.
  intros Hn. induction pts as [|p pt IH]; intros ls rs1 out L H Hl Hr Hone; cbn [simp_results] in H.
  - inversion H. constructor.
  - cbn [map pre_rel] in Hl. destruct Hl as (l & lt & -> & Hl & Hlt).
    cbn [map suf_tl] in Hr. apply suf_rel_uncons in Hr as (r & rt & -> & Hr & Hrt).
    apply bind_done in H as (o & Ho & H). apply bind_done in H as (rest & Hrest & H).
    inversion H; subst out; clear H.
    cbn [map prodnz fold_right] in Hone. fold (prodnz (map pz pt)) in Hone.
    constructor.
    + destruct (Z.eqb_spec (pz p) 0) as [Hz|Hz].
      * inversion Ho; subst. now apply agrees_inf.
      * apply bind_done in Ho as (invz & Hinvz & Ho). apply bind_done in Ho as (x & Hx & Ho).
        apply bind_done in Ho as (y & Hy & Ho). inversion Ho; subst o.
        apply zrem_eqm in Hinvz, Hx, Hy.
        apply (agrees_finite n p invz); try assumption.
        rewrite Hinvz, Hl, Hr. unfold nzp in Hone. apply Z.eqb_neq in Hz. rewrite Hz in Hone.
        rewrite <- Hone.
        replace (pz p * (L * prodnz (map pz pt) * iv)) with (L * (pz p * prodnz (map pz pt)) * iv) by ring.
        reflexivity.
    + apply (IH lt rt rest (L * nzp (pz p))); try assumption.
      rewrite <- Hone.
      replace (L * nzp (pz p) * prodnz (map pz pt) * iv) with (L * (nzp (pz p) * prodnz (map pz pt)) * iv) by ring.
      reflexivity.
Qed.

(** [P] The batched inversion agrees with the sequential one, point by point. *)
Theorem many_simplify_spec : forall pts n out, 0 < n ->
  many_simplify pts n = Done (ROk out) -> Forall2 (agrees n) pts out.
Proof.
  intros pts n out Hn H. unfold many_simplify in H.
  apply bind_done in H as (ls & Hls & H). apply bind_done in H as (rs & Hrs & H).
  apply bind_done in H as ([iv|g] & Hi & H); [|discriminate].
  apply bind_done in H as (o & Ho & H). inversion H; subst o; clear H.
  apply inv_ok in Hi as (_ & _ & Hiv); [|assumption].
  rewrite zprod_from_spec in Hiv. apply (cg_intro n) in Hiv.
  apply (simp_results_spec n iv Hn pts ls (tl rs) out 1 Ho).
  - apply (acc_l_spec n _ 1); [assumption|reflexivity].
  - apply acc_r_spec in Hrs. apply suf_rel_uncons in Hrs as (r & rt & -> & _ & Ht). exact Ht.
  - exact Hiv.
Qed.

(** ** Equal representatives when the z-coordinates are non-negative *)
Lemma acc_l_nonneg n : 0 < n -> forall zs cur ls, Forall (fun z => 0 <= z) zs -> 0 <= cur ->
  acc_l cur zs n = Done ls -> Forall (fun z => 0 <= z) ls.
Proof.
  intros Hn. induction zs as [|z t IH]; intros cur ls Hz Hc H; cbn [acc_l] in H.
  - inversion H. constructor; [assumption|constructor].
  - apply Forall_cons_iff in Hz as [Hz Ht].
    apply bind_done in H as (nxt & Hnx & H). apply bind_done in H as (rest & Hr & H).
    inversion H; subst. constructor; [assumption|]. apply (IH nxt); [assumption| |assumption].
    destruct (z =? 0); [inversion Hnx; subst; assumption|].
    apply zrem_done in Hnx as [_ ->]. apply Z.rem_nonneg; nia.
Qed.

Lemma acc_r_nonneg n : 0 < n -> forall zs rs, Forall (fun z => 0 <= z) zs ->
  acc_r zs n = Done rs -> Forall (fun z => 0 <= z) rs.
Proof.
  intros Hn. induction zs as [|z t IH]; intros rs Hz H; cbn [acc_r] in H.
  - inversion H. constructor; [lia|constructor].
  - apply Forall_cons_iff in Hz as [Hz Ht].
    apply bind_done in H as (rest & Hr & H). apply bind_done in H as (v & Hv & H).
    inversion H; subst. specialize (IH rest Ht Hr). constructor; [|assumption].
    assert (Hh : 0 <= hd 1 rest) by (destruct rest; cbn [hd]; [lia|now apply Forall_inv in IH]).
    destruct (z =? 0); [inversion Hv; subst; assumption|].
    apply zrem_done in Hv as [_ ->]. apply Z.rem_nonneg; nia.
Qed.

(** A simplified finite point: both coordinates scaled by a non-negative inverse. *)
Definition scaled (n : Z) (p o : Point) : Prop :=
  exists w, 0 <= w /\ o = mkPoint (Z.rem (px p * w) n) (Z.rem (py p * w) n) 1.

Lemma simp_results_scaled n iv : 0 < n -> 0 <= iv -> forall pts ls rs1 out,
  Forall (fun z => 0 <= z) ls -> Forall (fun z => 0 <= z) rs1 ->
  simp_results pts ls rs1 iv n = Done out ->
  Forall2 (fun p o => pz p <> 0 -> scaled n p o) pts out.
Proof.
  intros Hn Hiv. induction pts as [|p pt IH]; intros ls rs1 out Hl Hr H; cbn [simp_results] in H.
  - inversion H. constructor.
  - destruct ls as [|l lt]; [discriminate|]. destruct rs1 as [|r rt]; [discriminate|].
    apply Forall_cons_iff in Hl as [Hl Hlt]. apply Forall_cons_iff in Hr as [Hr Hrt].
    apply bind_done in H as (o & Ho & H). apply bind_done in H as (rest & Hrest & H).
    inversion H; subst out; clear H. constructor; [|now apply (IH lt rt)].
    intros Hz. apply Z.eqb_neq in Hz. rewrite Hz in Ho.
    apply bind_done in Ho as (invz & Hinvz & Ho). apply bind_done in Ho as (x & Hx & Ho).
    apply bind_done in Ho as (y & Hy & Ho). inversion Ho; subst o.
    apply zrem_done in Hinvz as [_ ->]. apply zrem_done in Hx as [_ ->]. apply zrem_done in Hy as [_ ->].
    eexists. split; [|reflexivity]. apply Z.rem_nonneg; nia.
Qed.

Lemma simplify_scaled n p c s : 0 < n -> en c = n -> pz p <> 0 ->
  simplify p c = Done (ROk s) -> scaled n p s.
Proof.
  intros Hn Hc Hz H. unfold simplify in H. apply Z.eqb_neq in Hz. rewrite Hz, Hc in H.
  apply bind_done in H as ([iv|g] & Hi & H); [|discriminate].
  apply inv_ok in Hi as (_ & Hiv & _); [|assumption].
  apply bind_done in H as (x & Hx & H). apply bind_done in H as (y & Hy & H). inversion H; subst s.
  apply zrem_done in Hx as [_ ->]. apply zrem_done in Hy as [_ ->].
  exists iv. split; [lia|reflexivity].
Qed.

Lemma mod_opp_small n x : 0 < n -> 0 <= x < n -> (- x) mod n = if x =? 0 then 0 else n - x.
Proof.
  intros Hn Hx. destruct (Z.eqb_spec x 0) as [->|Hne].
  - now rewrite Z.mod_0_l by lia.
  - rewrite Z.mod_opp_l_nz by (rewrite ?Z.mod_small; lia). now rewrite Z.mod_small by lia.
Qed.

Lemma rem_same_sign_eq n a w w' : 0 < n -> 0 <= w -> 0 <= w' ->
  Z.rem (a * w) n mod n = Z.rem (a * w') n mod n -> Z.rem (a * w) n = Z.rem (a * w') n.
Proof.
  intros Hn Hw Hw' H.
  destruct (Z.le_gt_cases 0 a) as [Ha|Ha].
  - pose proof (Z.rem_bound_pos (a * w) n ltac:(nia) Hn) as B1.
    pose proof (Z.rem_bound_pos (a * w') n ltac:(nia) Hn) as B2.
    rewrite !Z.mod_small in H by assumption. exact H.
  - pose proof (Z.rem_bound_pos (- (a * w)) n ltac:(nia) Hn) as B1.
    pose proof (Z.rem_bound_pos (- (a * w')) n ltac:(nia) Hn) as B2.
    rewrite Z.rem_opp_l in B1, B2 by lia.
    set (u := Z.rem (a * w) n) in *. set (v := Z.rem (a * w') n) in *.
    replace u with (- (- u)) in H by ring. replace v with (- (- v)) in H by ring.
    rewrite !mod_opp_small in H by assumption.
    destruct (Z.eqb_spec (- u) 0); destruct (Z.eqb_spec (- v) 0); lia.
Qed.

(** [P] With non-negative z-coordinates the batched result is literally the sequential one:
    whenever [simplify p] returns, it returns the very point the batch produced. *)
Theorem many_simplify_exact : forall pts n out c, 0 < n -> en c = n ->
  Forall (fun p => 0 <= pz p) pts ->
  many_simplify pts n = Done (ROk out) ->
  Forall2 (fun p o => forall r, simplify p c = Done r -> r = ROk o) pts out.
Proof.
  intros pts n out c Hn Hc Hz H. subst n. set (n := en c) in *.
  pose proof (many_simplify_spec pts n out Hn H) as Hag.
  unfold many_simplify in H.
  apply bind_done in H as (ls & Hls & H). apply bind_done in H as (rs & Hrs & H).
  apply bind_done in H as ([iv|g] & Hi & H); [|discriminate].
  apply bind_done in H as (o & Ho & H). inversion H; subst o; clear H.
  apply inv_ok in Hi as (_ & Hiv & _); [|assumption].
  assert (Hzs : Forall (fun z => 0 <= z) (map pz pts)) by (apply Forall_map; exact Hz).
  apply (acc_l_nonneg n Hn) in Hls; [|assumption|lia].
  apply (acc_r_nonneg n Hn) in Hrs; [|assumption].
  assert (Htl : Forall (fun z => 0 <= z) (tl rs)) by (destruct rs; cbn [tl]; [constructor|now apply Forall_inv_tail in Hrs]).
  pose proof (simp_results_scaled n iv Hn ltac:(lia) pts ls (tl rs) out Hls Htl Ho) as Hsc.
  clear - Hn Hag Hsc.
  induction Hag as [|p o pt ot (Hinf & Hfin & Hsim) Hrest IH]; [constructor|].
  inversion Hsc as [|? ? ? ? Hsc0 Hscr]; subst. constructor; [|now apply IH].
  intros r Hr. destruct (Hsim c r eq_refl Hr) as (s & -> & Hsz & Hsx & Hsy). f_equal.
  destruct (Z.eq_dec (pz p) 0) as [Hz|Hz].
  - rewrite (Hinf Hz). unfold simplify in Hr. rewrite Hz in Hr. cbn in Hr. now inversion Hr.
  - destruct (Hsc0 Hz) as (w & Hw & ->).
    destruct (simplify_scaled n p c s Hn eq_refl Hz Hr) as (w' & Hw' & ->).
    cbn [px py] in Hsx, Hsy.
    f_equal; symmetry; now apply rem_same_sign_eq.
Qed.
