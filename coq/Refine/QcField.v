(** * QcField: MathComp field structure on [Qc] with exactly the operations of [Poly.opsQc] / [LinAlg.fopsQc].
    Style: ssreflect. *)
From mathcomp Require Import all_ssreflect ssralg.
From mathcomp Require Import ssrZ.
From Coq Require Import QArith Qcanon.
From RNT.Model Require Import Base Poly LinAlg.

Set Implicit Arguments.
Unset Strict Implicit.
Unset Printing Implicit Defensive.

Definition Qc_eqb (x y : Qc) : bool := Qeq_bool x y.

Lemma Qc_eqbP : Equality.axiom Qc_eqb.
Proof.
move=> x y; apply: (iffP idP) => [h|->]; last exact/Qeq_bool_iff/Qeq_refl.
by apply: Qc_is_canon; apply/Qeq_bool_iff.
Qed.

Canonical Qc_eqMixin := EqMixin Qc_eqbP.
Canonical Qc_eqType := Eval hnf in EqType Qc Qc_eqMixin.

(* choice/count structure through (numerator, denominator) *)
Definition Qc_to_pair (x : Qc) : Z * Z := (Qnum (this x), Zpos (Qden (this x))).
Definition Qc_of_pair (p : Z * Z) : Qc := Q2Qc (Qmake p.1 (Z.to_pos p.2)).
Lemma Qc_pairK : cancel Qc_to_pair Qc_of_pair.
Proof.
move=> x; rewrite /Qc_of_pair /Qc_to_pair /=; apply: Qc_is_canon => /=.
by case: x => [[a b] c] /=; apply: Qred_correct.
Qed.
Definition Qc_choiceMixin := CanChoiceMixin Qc_pairK.
Canonical Qc_choiceType := Eval hnf in ChoiceType Qc Qc_choiceMixin.
Definition Qc_countMixin := CanCountMixin Qc_pairK.
Canonical Qc_countType := Eval hnf in CountType Qc Qc_countMixin.

Lemma Qcplus_opp_l (q : Qc) : Qcplus (Qcopp q) q = Q2Qc 0.
Proof. by rewrite Qcplus_comm Qcplus_opp_r. Qed.
Definition Qc_zmodMixin :=
  ZmodMixin Qcplus_assoc Qcplus_comm Qcplus_0_l Qcplus_opp_l.
Canonical Qc_zmodType := Eval hnf in ZmodType Qc Qc_zmodMixin.

Lemma Qc_1_neq_0 : Q2Qc 1 != Q2Qc 0 :> Qc. Proof. by []. Qed.

Definition Qc_ringMixin :=
  @ComRingMixin Qc_zmodType (Q2Qc 1) Qcmult Qcmult_assoc Qcmult_comm Qcmult_1_l
                Qcmult_plus_distr_l Qc_1_neq_0.
Canonical Qc_ringType := Eval hnf in RingType Qc Qc_ringMixin.
Canonical Qc_comRingType := Eval hnf in ComRingType Qc Qcmult_comm.

Lemma Qc_mulVx : forall x : Qc, x != 0%R -> Qcmult (Qcinv x) x = 1%R.
Proof. by move=> x /eqP nz; rewrite Qcmult_comm Qcmult_inv_r. Qed.
Lemma Qc_inv0 : Qcinv 0%R = 0%R. Proof. by apply: Qc_is_canon. Qed.

Definition Qc_unitRingMixin := FieldUnitMixin Qc_mulVx Qc_inv0.
Canonical Qc_unitRingType := Eval hnf in UnitRingType Qc Qc_unitRingMixin.
Canonical Qc_comUnitRingType := Eval hnf in [comUnitRingType of Qc].
Lemma Qc_field_axiom : GRing.Field.mixin_of Qc_unitRingType. Proof. by []. Qed.
Definition Qc_idomainMixin := FieldIdomainMixin Qc_field_axiom.
Canonical Qc_idomainType := Eval hnf in IdomainType Qc Qc_idomainMixin.
Canonical Qc_fieldType := Eval hnf in FieldType Qc Qc_field_axiom.

(** the model's operation records are the MathComp operations, by computation *)
Lemma Qc_add_is (x y : Qc) : Qcplus x y = (x + y)%R. Proof. by []. Qed.
Lemma Qc_mul_is (x y : Qc) : Qcmult x y = (x * y)%R. Proof. by []. Qed.
Lemma Qc_opp_is (x : Qc) : Qcopp x = (- x)%R. Proof. by []. Qed.
Lemma Qc_sub_is (x y : Qc) : Qcminus x y = (x - y)%R. Proof. by []. Qed.
Lemma Qc_inv_is (x : Qc) : Qcinv x = (x^-1)%R. Proof. by []. Qed.
Lemma Qc_div_is (x y : Qc) : Qcdiv x y = (x / y)%R. Proof. by []. Qed.
Lemma Qc_eqb_is (x y : Qc) : Qeq_bool x y = (x == y). Proof. by []. Qed.
