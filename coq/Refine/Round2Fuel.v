(** Fuel of the three loops of round2.rs that have no syntactic bound suffices (stdlib + lia):
    [while pow < deg], the square-and-multiply loop of [pow_mod_p], [while index > 1]. *)
From RNT.Model Require Import Base Poly Algebraic LinAlg MultTable Order Round2.
From RNT.Model Require Hnf.
From Coq Require Import QArith Qcanon Lia.
Open Scope Z_scope.

Lemma lt_pow2_zbits n : n < 2 ^ zbits n.
Proof.
  unfold zbits. destruct (n <=? 0) eqn:E.
  - apply Z.leb_le in E. cbn. lia.
  - apply Z.leb_gt in E. apply Z.log2_spec. assumption.
Qed.

Lemma zbits_nonneg n : 0 <= zbits n.
Proof. unfold zbits. destruct (n <=? 0); [lia|]. pose proof (Z.log2_nonneg n). lia. Qed.

(** ** [while pow < deg { pow *= p }] for p >= 2 *)
Lemma pow_ge_loop_fuel deg p : 2 <= p -> forall fuel pow,
  1 <= pow -> deg < pow * 2 ^ (Z.of_nat fuel - 1) -> (1 <= fuel)%nat ->
  exists r, pow_ge_loop fuel pow deg p = Done r /\ deg <= r.
Proof.
  intros Hp. induction fuel as [|fu IH]; intros pow P1 B F; [lia|].
  cbn [pow_ge_loop]. destruct (pow <? deg) eqn:E.
  - apply Z.ltb_lt in E.
    destruct fu as [|fu'].
    + cbn in B. lia.
    + apply IH; [nia| |lia].
      replace (Z.of_nat (S (S fu')) - 1) with (Z.succ (Z.of_nat (S fu') - 1)) in B by lia.
      rewrite Z.pow_succ_r in B by lia.
      assert (0 < 2 ^ (Z.of_nat (S fu') - 1)) by (apply Z.pow_pos_nonneg; lia). nia.
  - apply Z.ltb_ge in E. exists pow. split; [reflexivity|assumption].
Qed.

(** [P] for every p >= 2 the loop returns a power [>= deg] *)
Theorem pow_ge_total deg p : 2 <= p -> exists r, pow_ge deg p = Done r /\ deg <= r.
Proof.
  intros Hp. unfold pow_ge. apply pow_ge_loop_fuel; [assumption|lia| |lia].
  pose proof (lt_pow2_zbits deg). pose proof (zbits_nonneg deg).
  replace (Z.of_nat (Z.to_nat (zbits deg) + 2) - 1) with (Z.succ (zbits deg)) by lia.
  rewrite Z.pow_succ_r by assumption. lia.
Qed.

(** ** [while index > 1 { assert_eq!(index % p, 0); index /= p; howmany += 1 }] for p >= 2 *)
Lemma howmany_loop_fuel p : 2 <= p -> forall fuel index acc,
  index < 2 ^ (Z.of_nat fuel - 1) -> (1 <= fuel)%nat -> howmany_loop fuel index p acc <> OutOfFuel.
Proof.
  intros Hp. induction fuel as [|fu IH]; intros index acc B F; [lia|].
  cbn [howmany_loop]. destruct (1 <? index) eqn:E; [|discriminate].
  apply Z.ltb_lt in E. unfold zrem. destruct (p =? 0) eqn:P0; [apply Z.eqb_eq in P0; lia|]. cbn [bind].
  destruct (Z.rem index p =? 0) eqn:R; cbn [assert_ bind]; [|discriminate].
  destruct fu as [|fu']; [cbn in B; lia|].
  apply IH; [|lia].
  replace (Z.of_nat (S (S fu')) - 1) with (Z.succ (Z.of_nat (S fu') - 1)) in B by lia.
  rewrite Z.pow_succ_r in B by lia.
  apply Z.eqb_eq in R. pose proof (Z.quot_rem' index p) as Q. rewrite R, Z.add_0_r in Q.
  assert (0 < index ÷ p) by nia. nia.
Qed.

(** [P] *)
Theorem howmany_of_fuel_ok index p : 2 <= p -> howmany_of index p <> OutOfFuel.
Proof.
  intros Hp. unfold howmany_of. apply howmany_loop_fuel; [assumption| |lia].
  pose proof (lt_pow2_zbits index). pose proof (zbits_nonneg index).
  replace (Z.of_nat (Z.to_nat (zbits index) + 1) - 1) with (zbits index) by lia. assumption.
Qed.

(** ** [pow_mod_p]: [mul_mod_p] has no unbounded loop; the exponent is halved at every turn *)
Lemma for_loop_no_fuel {S} (body : nat -> S -> outcome S) :
  (forall j s, body j s <> OutOfFuel) -> forall js s, Hnf.for_loop js body s <> OutOfFuel.
Proof.
  intros B. induction js as [|j js IH]; intros s; cbn [Hnf.for_loop]; [discriminate|].
  specialize (B j s). destruct (body j s); cbn [bind]; [apply IH|discriminate|congruence].
Qed.

Lemma mapM_no_fuel {A B} (f : A -> outcome B) :
  (forall x, f x <> OutOfFuel) -> forall l, mapM f l <> OutOfFuel.
Proof.
  intros F. induction l as [|x l IH]; cbn [mapM]; [discriminate|].
  specialize (F x). destruct (f x); cbn [bind]; [|discriminate|congruence].
  destruct (mapM f l); cbn [bind]; [discriminate|discriminate|congruence].
Qed.

Lemma nth_chk_no_fuel {A} (l : list A) i : nth_chk l i <> OutOfFuel.
Proof. unfold nth_chk. destruct (nth_error l i); discriminate. Qed.

Lemma addmul_prefix_no_fuel : forall n r row c, addmul_prefix n r row c <> OutOfFuel.
Proof.
  induction n as [|n IH]; intros r row c; cbn [addmul_prefix]; [discriminate|].
  destruct r; [discriminate|]. destruct row; [discriminate|].
  specialize (IH r row c). destruct (addmul_prefix n r row c); cbn [bind]; [discriminate|discriminate|congruence].
Qed.

Lemma mul_mod_p_no_fuel a b t p : mul_mod_p a b t p <> OutOfFuel.
Proof.
  unfold mul_mod_p.
  assert (L : forall r0, Hnf.for_loop (Hnf.range 0 (length a)) (fun i result =>
      Hnf.for_loop (Hnf.range 0 (length a)) (fun j result =>
        do ai <- nth_chk a i; do bj <- nth_chk b j;
        let coef := ai * bj in
        do ti <- nth_chk t i; do tij <- nth_chk ti j;
        addmul_prefix (length a) result tij coef) result) r0 <> OutOfFuel).
  { intros r0. apply for_loop_no_fuel. intros i s. apply for_loop_no_fuel. intros j s'.
    pose proof (nth_chk_no_fuel a i). destruct (nth_chk a i); cbn [bind]; [|discriminate|congruence].
    pose proof (nth_chk_no_fuel b j). destruct (nth_chk b j); cbn [bind]; [|discriminate|congruence].
    pose proof (nth_chk_no_fuel t i). destruct (nth_chk t i); cbn [bind]; [|discriminate|congruence].
    pose proof (nth_chk_no_fuel a2 j). destruct (nth_chk a2 j); cbn [bind]; [|discriminate|congruence].
    apply addmul_prefix_no_fuel. }
  specialize (L (repeat 0 (length a))).
  match goal with |- bind ?x _ <> _ => destruct x; cbn [bind]; [|discriminate|congruence] end.
  apply mapM_no_fuel. intros x. unfold zrem. destruct (p =? 0); discriminate.
Qed.

Lemma pow_loop_fuel t p : forall fuel e prod cur,
  e < 2 ^ (Z.of_nat fuel - 1) -> (1 <= fuel)%nat -> pow_loop fuel e prod cur t p <> OutOfFuel.
Proof.
  induction fuel as [|fu IH]; intros e prod cur B F; [lia|].
  cbn [pow_loop]. destruct (0 <? e) eqn:E; [|discriminate].
  apply Z.ltb_lt in E.
  assert (M1 : forall x y, mul_mod_p x y t p <> OutOfFuel) by (intros; apply mul_mod_p_no_fuel).
  assert (P : (if Z.rem e 2 =? 1 then mul_mod_p prod cur t p else Done prod) <> OutOfFuel)
    by (destruct (Z.rem e 2 =? 1); [apply M1|discriminate]).
  destruct (if Z.rem e 2 =? 1 then mul_mod_p prod cur t p else Done prod); cbn [bind]; [|discriminate|congruence].
  specialize (M1 cur cur). destruct (mul_mod_p cur cur t p); cbn [bind]; [|discriminate|congruence].
  destruct fu as [|fu']; [cbn in B; lia|].
  apply IH; [|lia].
  replace (Z.of_nat (S (S fu')) - 1) with (Z.succ (Z.of_nat (S fu') - 1)) in B by lia.
  rewrite Z.pow_succ_r in B by lia.
  pose proof (Z.quot_rem' e 2). pose proof (Z.rem_bound_pos e 2 ltac:(lia) ltac:(lia)). lia.
Qed.

(** [P] *)
Theorem pow_mod_p_fuel_ok a e t p : pow_mod_p a e t p <> OutOfFuel.
Proof.
  unfold pow_mod_p. apply pow_loop_fuel; [|lia].
  pose proof (lt_pow2_zbits (e - 1)). pose proof (zbits_nonneg (e - 1)).
  replace (Z.of_nat (Z.to_nat (zbits (e - 1)) + 1) - 1) with (zbits (e - 1)) by lia. assumption.
Qed.
