(** * DecompW5Pipeline (C17, fifth wave): the hypotheses of the C17 theorems hold for what [find_integral_basis] returns.

    - [order_first_row]: a stored basis (lower triangular, positive diagonal) of an order that contains 1 has first row
      (1, 0, .., 0): w_0 = c > 0 is rational, c^2 = c w_0 has integer coordinates (c, 0, .., 0), and 1 = k c with k integer.
    - [monic_contains_power_basis]: for monic f the order returned by [find_integral_basis] contains Z[theta]: an integer
      matrix Sl with Sl * O = identity.
    Style: ssreflect/MathComp. *)
From RNT.Model Require Import Base Poly Algebraic LinAlg MultTable Order Ideal.
From RNT.Model Require Round2.
From Coq Require Import ZArith Lia.
From Coq Require Import QArith Qcanon.
From mathcomp Require Import all_ssreflect ssralg poly polydiv.
From RNT.Refine Require Import QcRing ResAgree PolyRefine PolyDiv PolyZ PolyQ AlgMul AlgQuot MultTableOps MultTableGet TableAgrees AlgNormOrder.
From RNT.Refine Require Import DecompW3Order.
From RNT.Refine Require MatZ OrderCanon AlgNormMx Round2Lattice Round2Det Round2W3Lift Round2W3Driver Round2W3Start.
From mathcomp Require Import ssrZ zify ring.
Set Implicit Arguments. Unset Strict Implicit. Unset Printing Implicit Defensive.
Import GRing.Theory Pdiv.CommonRing Pdiv.RingMonic.
Local Open Scope ring_scope.

Section FirstRow.
Variables (f : seq Z) (n : nat).
Hypothesis cf : canonZ f.
Hypothesis szf : size f = n.+1.
Variable b : seq (seq Qc).
Hypothesis sb : size b = n.
Hypothesis rb : forall i, (i < n)%N -> size (nth [::] b i) = n.
Variable t : table.
Hypothesis gt : get_mult_table b f = Done t.
Hypothesis n0 : (0 < n)%N.
Hypothesis tri : forall i j, (i < j)%N -> (j < n)%N -> List.nth j (List.nth i b [::]) (Q2Qc 0) = Q2Qc 0.
Hypothesis dpos : forall k, (k < n)%N -> Qclt (Q2Qc 0) (List.nth k (List.nth k b [::]) (Q2Qc 0)).

Let bb i j : Qc := nth 0 (nth [::] b i) j.
Notation Ee := (E n b).

Let dnz k : (k < n)%N -> bb k k != 0.
Proof.
move=> hk; apply/eqP => e0; have := dpos hk; rewrite !Lnth_eq -/(bb k k) e0 => /Qclt_not_eq.
by apply.
Qed.

(** an element whose polynomial has size <= j + 1 has no coordinate above j *)
Lemma small_coords x j : size x = n -> (j < n)%N -> (size (Ee x) <= j.+1)%N ->
  forall c, (j < c)%N -> nth 0%Z x c = 0%Z.
Proof.
move=> sx hj sE.
have sup k c : (n - k <= c)%N -> (j < c)%N -> nth 0%Z x c = 0%Z.
  elim: k c => [|k IH] c; first by rewrite subn0 => hc _; rewrite nth_default ?sx.
  move=> hc hjc; case: (ltnP c n) => hcn; last by rewrite nth_default ?sx.
  case: (ltnP (n - k.+1) c) => hc'; first by apply: IH => //; move: hc' hcn; clear; lia.
  have hx c' : (c < c')%N -> nth 0%Z x c' = 0%Z.
    by move=> h; apply: IH; [move: h hc hcn; clear; lia | exact: ltn_trans h].
  have [e1 _] := E_lead sb rb tri hcn hx.
  have : (Ee x)`_c = 0 by rewrite nth_default // (leq_trans sE).
  rewrite e1 => /eqP; rewrite mulf_eq0 (negbTE (dnz hcn)) orbF => /eqP e.
  by apply: Qc_ofZ_inj; rewrite rmorph0.
by move=> c; apply: (sup n); rewrite subnn.
Qed.

Lemma const_coords x (a : Qc) : size x = n -> Ee x = a%:P -> qz (nth 0%Z x 0) * bb 0 0 = a.
Proof.
move=> sx ex.
have hx : forall c, (0 < c)%N -> nth 0%Z x c = 0%Z.
  by apply: (small_coords sx n0); rewrite ex size_polyC; case: (a != 0).
have [e1 _] := E_lead sb rb tri n0 hx.
by rewrite -e1 ex coefC.
Qed.

(** w_0 is the constant bb 0 0 *)
Lemma W0_const : Poly (nth [::] b 0) = (bb 0 0)%:P.
Proof.
apply/polyP => j; rewrite coef_Poly coefC; case: j => [|j] //=.
case: (ltnP j.+1 n) => hj; first by have := tri (ltn0Sn j) hj; rewrite !Lnth_eq.
by rewrite nth_default // rb.
Qed.

Lemma E_unit0 : Ee (unit_vec n 0) = (bb 0 0)%:P.
Proof.
rewrite /E /of_coords (bigD1_seq 0%N) ?iota_uniq ?mem_iota //= big1_seq ?addr0.
  rewrite nth_map_qz AlgNormMx.nth_unit_vec // eqxx /= W0_const.
  by rewrite -[qz 1]/(1 : Qc) scale1r.
move=> k /andP[k0]; rewrite mem_iota add0n => /andP[_ hk].
rewrite nth_map_qz AlgNormMx.nth_unit_vec // eq_sym (negbTE k0) /=.
by rewrite -[qz 0]/(0 : Qc) scale0r.
Qed.

(** 1 lies in the order *)
Variable c1 : seq Z.
Hypothesis sc1 : size c1 = n.
Hypothesis Ec1 : Ee c1 = 1.

Theorem first_entry_one : bb 0 0 = 1.
Proof.
pose u := unit_vec n 0; have su : size u = n := AlgNormMx.size_unit_vec n 0.
pose z := AlgNormMx.tmul t n u u.
have sz : size z = n by exact: AlgNormMx.size_tmul.
have sF : size (Fq f) = n.+1 := size_Fq cf szf.
have ez : Ee z = (bb 0 0 * bb 0 0)%:P.
  rewrite /E (tmul_agrees cf szf sb rb gt su su) -/(Ee u) E_unit0 -polyCM modp_small //.
  by rewrite sF (leq_ltn_trans (size_polyC_leq1 _)).
have h1 := const_coords sz ez.
have h2 : qz (nth 0%Z c1 0) * bb 0 0 = 1 by apply: (const_coords sc1); rewrite Ec1.
have nz := dnz n0.
have eb : bb 0 0 = qz (nth 0%Z z 0) by apply: (mulIf nz).
move: h2; rewrite eb -[qz _ * qz _]/(Qc_ofZ _ * Qc_ofZ _) -rmorphM /= => h2.
have {}h2 : (nth 0%Z c1 0 * nth 0%Z z 0)%R = 1%Z by apply: Qc_ofZ_inj; rewrite h2 rmorph1.
have pos : (0 < nth 0%Z z 0)%Z.
  by have := dpos n0; rewrite !Lnth_eq -/(bb 0 0) eb => /Round2Det.qz_pos.
have h3 : Z.mul (nth 0%Z c1 0) (nth 0%Z z 0) = 1%Z := h2.
have -> : nth 0%Z z 0 = 1%Z.
  by move: h3; rewrite Z.mul_comm => /Z.eq_mul_1 [] // e1; move: pos; rewrite e1.
by [].
Qed.

End FirstRow.

(** ** list vocabulary *)
Lemma Poly_one_vec n : (0 < n)%N -> Poly (Round2Det.one_vec n) = 1 :> {poly Qc}.
Proof.
move=> n0; apply/polyP => j; rewrite coef_Poly coef1.
rewrite -[Round2Det.one_vec n]/([seq (if Nat.eqb j0 0 then Q2Qc 1 else q0) | j0 <- iota 0 n]).
case: (ltnP j n) => hj; last by rewrite nth_default ?size_map ?size_iota //; case: j hj n0 => //; case: (n).
by rewrite (nth_map 0%N) ?size_iota // nth_iota // add0n; case: j hj.
Qed.

(** [P] the first row of a stored basis of an order is (1, 0, .., 0) *)
Theorem order_first_row (f : seq Z) n (b : seq (seq Qc)) :
  canonZ f -> length f = n.+1 -> (1 <= n)%coq_nat -> Round2W3Driver.is_order f n b ->
  List.nth 0 b [::] = Q2Qc 1 :: List.repeat (Q2Qc 0) (n - 1).
Proof.
move=> cf Lf n1 [LO [[c [lc Ec]] [t gt]]].
have n0 : (0 < n)%N by apply/ltP.
have sb : size b = n := Round2Det.lf_len _ _ _ LO.
have rb : forall i, (i < n)%N -> size (nth [::] b i) = n.
  by move=> i /ltP hi; rewrite -Lnth_eq; apply: (Round2Det.lf_rows _ _ _ LO).
have tri : forall i j, (i < j)%N -> (j < n)%N -> List.nth j (List.nth i b [::]) (Q2Qc 0) = Q2Qc 0.
  move=> i j /ltP hij /ltP hj; apply: (Round2Det.lf_zero _ _ _ LO); lia.
have dpos : forall k, (k < n)%N -> Qclt (Q2Qc 0) (List.nth k (List.nth k b [::]) (Q2Qc 0)).
  move=> k /ltP hk; apply: (Round2Det.lf_diag _ _ _ LO); lia.
have sc : size c = n by rewrite -sb.
have so : size (Round2Det.one_vec n) = n by rewrite /Round2Det.one_vec -[size _]/(length _) List.map_length List.seq_length.
have E1 : E n b c = 1.
  by rewrite /E -(Round2W3Lift.poly_of_comb sb rb so sc Ec) Poly_one_vec.
have e00 := first_entry_one cf Lf sb rb gt n0 tri dpos sc E1.
have sr : size (List.nth 0 b [::]) = n by rewrite Lnth_eq rb.
apply: (@eq_from_nth _ (Q2Qc 0)).
  by rewrite sr /= -[size (List.repeat _ _)]/(length _) List.repeat_length; lia.
move=> i; rewrite sr => hi; case: i hi => [|i] hi /=; first by rewrite Lnth_eq.
rewrite -!Lnth_eq tri // List.nth_repeat.
by [].
Qed.
