(** * Rabin-Monier, part 5: statements about the model ([strong_liar], [is_prime]) and the count of accepting
    sequences of 20 bases (stdlib + lia style). *)
From Coq Require Import ZArith List Bool Lia Znumtheory FinFun.
From RNT.Model Require Import Base Elementary.
From RNT.Refine Require Import ElemProofs MillerRabinProofs LiarBound.
From RNT.Refine Require RabinMonierZ.
Import ListNotations.
Open Scope Z_scope.

(** ** The list of strong liars *)

Lemma liars_spec : forall n d c, 2 < n -> mr_decomp n = (d, c) ->
  NoDup (liars n) /\ (forall a, In a (liars n) <-> 1 <= a < n /\ strong_liar n d c a).
Proof.
  intros n d c Hn E. unfold liars. rewrite E.
  destruct (mr_decomp_spec n d c ltac:(lia) E) as (_ & Hd & Hc0 & _).
  split; [apply NoDup_filter, NoDup_zrange|].
  intros a. rewrite filter_In, in_zrange, mr_round_spec by lia. rewrite Z2Nat.id by lia.
  split; intros [H1 H2]; (split; [lia|exact H2]).
Qed.

(** [P] Rabin-Monier: an odd composite n > 9 has at most (n - 1) / 4 strong liars in [1, n). *)
Theorem rabin_monier : forall n d c, 9 < n -> Z.odd n = true -> ~ prime n -> mr_decomp n = (d, c) ->
  exists l, NoDup l /\ (forall a, In a l <-> 1 <= a < n /\ strong_liar n d c a) /\ 4 * Z.of_nat (length l) <= n - 1.
Proof.
  intros n d c Hn Ho Hc E. exists (liars n).
  destruct (liars_spec n d c ltac:(lia) E) as [H1 H2].
  split; [exact H1|]. split; [exact H2|].
  exact (RabinMonierZ.liars_card Hn Ho Hc E).
Qed.

(** [P] the same for every odd composite n > 2 (n <= 9, i.e. n = 9, by enumeration: 2 liars out of 8). *)
Theorem liar_bound : forall n d c, 2 < n -> Z.odd n = true -> ~ prime n -> mr_decomp n = (d, c) ->
  exists l, NoDup l /\ (forall a, In a l <-> 1 <= a < n /\ strong_liar n d c a) /\ 4 * Z.of_nat (length l) <= n - 1.
Proof.
  intros n d c Hn Ho Hc E. destruct (Z_lt_le_dec 9 n) as [H9|H9].
  - apply rabin_monier; assumption.
  - apply liar_bound_small; try assumption. lia.
Qed.

(** ** Sequences of k elements of a list *)

Fixpoint seqs (k : nat) (L : list Z) : list (list Z) :=
  match k with
  | O => [[]]
  | S k' => flat_map (fun a => map (cons a) (seqs k' L)) L
  end.

Lemma in_seqs : forall k L bs, In bs (seqs k L) <-> length bs = k /\ (forall a, In a bs -> In a L).
Proof.
  induction k as [|k IH]; intros L bs; cbn [seqs].
  - split.
    + intros [<-|[]]. split; [reflexivity|]. intros a [].
    + intros [H _]. destruct bs; [left; reflexivity|discriminate].
  - rewrite in_flat_map. split.
    + intros (a & Ha & H). apply in_map_iff in H. destruct H as (t & <- & Ht). apply IH in Ht.
      destruct Ht as [Ht1 Ht2]. split; [cbn; lia|]. intros x [<-|Hx]; auto.
    + intros [H1 H2]. destruct bs as [|a t]; [discriminate|]. exists a. split; [apply H2; left; reflexivity|].
      apply in_map. apply IH. split; [cbn in H1; lia|]. intros x Hx. apply H2. right. exact Hx.
Qed.

Lemma length_flat_map_const : forall (A B : Type) (f : A -> list B) m L,
  (forall a, length (f a) = m) -> length (flat_map f L) = (length L * m)%nat.
Proof.
  intros A B f m L H. induction L as [|a L IH]; [reflexivity|].
  cbn [flat_map length]. rewrite app_length, IH, H. lia.
Qed.

Lemma length_seqs : forall k L, length (seqs k L) = (length L ^ k)%nat.
Proof.
  induction k as [|k IH]; intros L; [reflexivity|]. cbn [seqs].
  rewrite (length_flat_map_const _ _ _ (length L ^ k)%nat).
  - cbn [Nat.pow]. reflexivity.
  - intros a. rewrite map_length. apply IH.
Qed.

Lemma NoDup_app_disj : forall (A : Type) (l1 l2 : list A), NoDup l1 -> NoDup l2 ->
  (forall x, In x l1 -> In x l2 -> False) -> NoDup (l1 ++ l2).
Proof.
  intros A l1 l2 H1 H2 D. induction H1 as [|a l1 Ha H1 IH]; [exact H2|].
  cbn [app]. constructor.
  - intros H. apply in_app_or in H. destruct H as [H|H]; [contradiction|]. apply (D a); [left; reflexivity|exact H].
  - apply IH. intros x Hx. apply D. right. exact Hx.
Qed.

Lemma NoDup_seqs : forall k L, NoDup L -> NoDup (seqs k L).
Proof.
  induction k as [|k IH]; intros L HL; cbn [seqs].
  - constructor; [intros []|constructor].
  - specialize (IH L HL). revert IH. generalize (seqs k L) as T. intros T HT.
    induction HL as [|a L Ha HL IHL]; [constructor|].
    cbn [flat_map]. apply NoDup_app_disj.
    + apply Injective_map_NoDup; [|exact HT]. intros x y H. inversion H; reflexivity.
    + exact IHL.
    + intros x H1 H2. apply in_map_iff in H1. destruct H1 as (t & <- & _).
      apply in_flat_map in H2. destruct H2 as (b & Hb & H2). apply in_map_iff in H2.
      destruct H2 as (t' & E & _). inversion E; subst. contradiction.
Qed.

(** ** Draws are a function of the stream *)

Lemma drawn_fun : forall n r l r1, drawn n r l r1 -> forall l' r2, drawn n r l' r2 -> length l = length l' ->
  l = l' /\ r1 = r2.
Proof.
  intros n r l r1 D. induction D as [r|r a ra l r1 G D IH]; intros l' r2 D' HL.
  - destruct l'; [|discriminate]. inversion D'; subst. split; reflexivity.
  - destruct l' as [|a' l']; [discriminate|]. inversion D' as [|? ? ra' ? ? G' D'']; subst.
    rewrite G in G'. inversion G'; subst. cbn in HL.
    destruct (IH l' r2 D'' ltac:(lia)) as [-> ->]. split; reflexivity.
Qed.

(** ** The fraction of accepting sequences *)

(** [P] for an odd composite n, among the (n-1)^20 sequences of 20 bases in [1, n) at most ((n-1)/4)^20 consist of
    strong liars only, and a run of the model accepts n exactly when the 20 bases it draws form such a sequence. *)
Theorem liar_fraction : forall n d c, 2 < n -> Z.odd n = true -> ~ prime n -> mr_decomp n = (d, c) ->
  exists acc all : list (list Z),
    NoDup acc /\ NoDup all /\
    (forall bs, In bs all <-> length bs = 20%nat /\ (forall a, In a bs -> 1 <= a < n)) /\
    (forall bs, In bs acc <-> length bs = 20%nat /\ (forall a, In a bs -> 1 <= a < n /\ strong_liar n d c a)) /\
    Z.of_nat (length all) = (n - 1) ^ 20 /\
    4 ^ 20 * Z.of_nat (length acc) <= (n - 1) ^ 20 /\
    (forall r r', is_prime n r = Done (true, r') <-> exists bs, In bs acc /\ drawn n r bs r').
Proof.
  intros n d c Hn Ho Hc E.
  destruct (liar_bound n d c Hn Ho Hc E) as (L & HLnd & HL & HLcard).
  exists (seqs 20 L), (seqs 20 (zrange 1 (Z.to_nat n - 1))).
  split; [apply NoDup_seqs; exact HLnd|]. split; [apply NoDup_seqs, NoDup_zrange|].
  split; [|split; [|split; [|split]]].
  - intros bs. rewrite in_seqs. split; intros [H1 H2]; (split; [exact H1|]); intros a Ha.
    + apply H2, in_zrange in Ha. lia.
    + apply in_zrange. specialize (H2 a Ha). lia.
  - intros bs. rewrite in_seqs. split; intros [H1 H2]; (split; [exact H1|]); intros a Ha; apply HL; auto.
  - rewrite length_seqs. unfold zrange. rewrite map_length, seq_length.
    rewrite Nat2Z.inj_pow. f_equal. lia.
  - rewrite length_seqs, Nat2Z.inj_pow. change (Z.of_nat 20) with 20.
    rewrite <- Z.pow_mul_l. apply Z.pow_le_mono_l. lia.
  - intros r r'. split.
    + intros H. destruct (is_prime_verdict n d c r true r' Hn Ho E H) as (l & D & _ & Hlen & Hall).
      exists l. split; [|exact D]. apply in_seqs. split; [exact Hlen|]. intros a Ha. apply HL. split.
      * apply (drawn_range n r l r'); [lia|exact D|exact Ha].
      * apply Hall; exact Ha.
    + intros (bs & Hbs & D). apply in_seqs in Hbs. destruct Hbs as [Hlen Hall].
      apply (liars_accept n d c r bs r' Hn Ho E D Hlen). intros a Ha. apply HL. apply Hall. exact Ha.
Qed.

(** ** Non-vacuity helpers *)

Lemma not_prime_mult : forall a b, 1 < a -> 1 < b -> ~ prime (a * b).
Proof.
  intros a b Ha Hb Hp. assert (D : (a | a * b)) by (exists b; ring).
  apply prime_divisors in D; [|exact Hp]. nia.
Qed.

(** the hypotheses of [rabin_monier] hold of 561 = 3 * 187, 1105 = 5 * 221, 2047 = 23 * 89, 15, 49, and the bound is
    met with room (10 <= 140, 30 <= 276, 242 <= 511, 2 <= 3, 6 <= 12); 9 (excluded: 9 < n) has 2 liars out of 8 *)
Example rabin_monier_hyps :
  (~ prime 561 /\ mr_decomp 561 = (35, 4) /\ length (liars 561) = 10%nat) /\
  (~ prime 1105 /\ mr_decomp 1105 = (69, 4) /\ length (liars 1105) = 30%nat) /\
  (~ prime 2047 /\ mr_decomp 2047 = (1023, 1) /\ length (liars 2047) = 242%nat) /\
  (~ prime 15 /\ mr_decomp 15 = (7, 1) /\ length (liars 15) = 2%nat) /\
  (~ prime 49 /\ mr_decomp 49 = (3, 4) /\ length (liars 49) = 6%nat) /\
  (~ prime 9 /\ mr_decomp 9 = (1, 3) /\ length (liars 9) = 2%nat).
Proof.
  repeat split; try (vm_compute; reflexivity).
  - change 561 with (3 * 187). apply not_prime_mult; lia.
  - change 1105 with (5 * 221). apply not_prime_mult; lia.
  - change 2047 with (23 * 89). apply not_prime_mult; lia.
  - change 15 with (3 * 5). apply not_prime_mult; lia.
  - change 49 with (7 * 7). apply not_prime_mult; lia.
  - change 9 with (3 * 3). apply not_prime_mult; lia.
Qed.

(** an accepting sequence for 561 exists (20 times the liar 50), so the set [acc] of [liar_fraction] is inhabited
    beyond the trivial bases 1 and n - 1 *)
Example liar_fraction_ex : strong_liar 561 35 4 50 /\ In 50 (liars 561) /\ ~ strong_liar 561 35 4 2.
Proof.
  assert (H : forall a, mr_round 561 35 4 a = true <-> strong_liar 561 35 4 a)
    by (intros a; apply (mr_round_spec 561 35 4 a); lia).
  split; [apply H; vm_compute; reflexivity|]. split; [vm_compute; tauto|].
  intros S. apply H in S. vm_compute in S. discriminate.
Qed.

(** ** The bound with phi(n) *)

Lemma units_spec : forall n, 2 < n ->
  NoDup (RabinMonierZ.units n) /\ (forall a, In a (RabinMonierZ.units n) <-> 1 <= a < n /\ Z.gcd a n = 1).
Proof.
  intros n Hn. unfold RabinMonierZ.units. split; [apply NoDup_filter, NoDup_zrange|].
  intros a. rewrite filter_In, in_zrange, Z.eqb_eq. split; intros [H1 H2]; (split; [lia|exact H2]).
Qed.

(** [P] Rabin-Monier with phi(n): at most a quarter of the residues in [1, n) prime to n are strong liars. *)
Theorem rabin_monier_phi : forall n d c, 9 < n -> Z.odd n = true -> ~ prime n -> mr_decomp n = (d, c) ->
  exists l u, NoDup l /\ NoDup u /\
    (forall a, In a l <-> 1 <= a < n /\ strong_liar n d c a) /\
    (forall a, In a u <-> 1 <= a < n /\ Z.gcd a n = 1) /\
    4 * Z.of_nat (length l) <= Z.of_nat (length u).
Proof.
  intros n d c Hn Ho Hc E. exists (liars n), (RabinMonierZ.units n).
  destruct (liars_spec n d c ltac:(lia) E) as [H1 H2].
  destruct (units_spec n ltac:(lia)) as [H3 H4].
  split; [exact H1|]. split; [exact H3|]. split; [exact H2|]. split; [exact H4|].
  exact (RabinMonierZ.liars_card_phi Hn Ho Hc E).
Qed.

Example rabin_monier_phi_ex : length (RabinMonierZ.units 561) = 320%nat /\ length (RabinMonierZ.units 49) = 42%nat.
Proof. split; vm_compute; reflexivity. Qed.
