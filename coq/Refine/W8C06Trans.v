(** * W8C06Trans (C06, eighth wave): transport of maximal orders along a change of generator; the discriminant is the same.

      F, G of degree n >= 1 over K (fraction field of Z), h, h' with G(h) = 0 mod F, F(h') = 0 mod G, h(h') = x:
      Phi = matrix of the algebra isomorphism K[x]/(G) -> K[x]/(F), x |-> h (W8C06Alg).  Right multiplication by Phi maps
      closed lattices to closed lattices, 1 to 1, maximal ones to maximal ones (the inverse is multiplicative too).  Hence,
      by uniqueness of the maximal order (W8C06Lat.maximal_unique), for maximal B_f (w.r.t. F) and B_g (w.r.t. G):
      L(B_f) = L(B_g Phi), and  det(B_f)^2 det(pform F) = det(B_g)^2 det(pform G)  -- the two discriminants agree.
      Style: ssreflect/MathComp. *)
From Coq Require Import ZArith.
From mathcomp Require Import all_ssreflect ssralg zmodp poly polydiv matrix mxalgebra mxpoly.
From mathcomp Require Import ssrZ zify.
From RNT.Refine Require Import OrderW3Trace W8C06Alg W8C06Lat.
Set Implicit Arguments.
Unset Strict Implicit.
Unset Printing Implicit Defensive.
Import GRing.Theory.
Local Close Scope Z_scope.
Local Open Scope ring_scope.

Section Transport.
Variable K : fieldType.
Variable iota : {rmorphism Z -> K}.
Hypothesis iota_inj : injective iota.
Hypothesis frac : forall x : K, exists2 d : Z, d != 0 & exists z : Z, iota d * x = iota z.
Variables (F G : {poly K}) (n : nat).
Hypothesis szF : size F = n.+1.
Hypothesis szG : size G = n.+1.
Hypothesis n0 : (0 < n)%N.
Variable h : {poly K}.
Hypothesis Gh : (G \Po h) %% F = 0.
Hypothesis uPhi : Phi F n h \in unitmx.

Let P := Phi F n h.

Lemma closedF_Phi (B : 'M[K]_n) : closedF iota G B -> closedF iota F (B *m P).
Proof.
move=> cB i j; rewrite !row_mul -(Phi_mul szF szG Gh).
by apply: inL_mulr; exact: cB.
Qed.

Lemma has_one_Phi (B : 'M[K]_n) : has_one iota B -> has_one iota (B *m P).
Proof. by move=> oB; rewrite /has_one -(Phi_one szF n0 h); exact: inL_mulr. Qed.

Lemma closedF_Phi_inv (B : 'M[K]_n) : closedF iota F B -> closedF iota G (B *m invmx P).
Proof.
move=> cB i j; rewrite !row_mul -(Phi_inv_mul szF szG Gh uPhi).
by apply: inL_mulr; exact: cB.
Qed.

Lemma maximalF_Phi (B : 'M[K]_n) : maximalF iota G B -> maximalF iota F (B *m P).
Proof.
move=> mB B' uB' cB' s.
have s3 : sub_lat iota B (B' *m invmx P).
  by have := sub_lat_mulr (invmx P) s; rewrite mulmxK.
have u3 : B' *m invmx P \in unitmx by rewrite unitmx_mul uB' unitmx_inv.
have := sub_lat_mulr P (mB _ u3 (closedF_Phi_inv cB') s3).
by rewrite mulmxKV.
Qed.

(** [P] the discriminants of the two maximal orders agree *)
Theorem disc_transport (Bf Bg : 'M[K]_n) :
  Bf \in unitmx -> Bg \in unitmx ->
  closedF iota F Bf -> closedF iota G Bg -> has_one iota Bf -> has_one iota Bg ->
  maximalF iota F Bf -> maximalF iota G Bg ->
  [/\ sub_lat iota Bf (Bg *m P), sub_lat iota (Bg *m P) Bf
    & \det Bf ^+ 2 * \det (pform F n) = \det Bg ^+ 2 * \det (pform G n)].
Proof.
move=> uf ug cf cg o_f o_g mf mg.
have ugP : Bg *m P \in unitmx by rewrite unitmx_mul ug.
have [s1 s2] := maximal_unique iota_inj frac szF n0 uf ugP cf (closedF_Phi cg) o_f (has_one_Phi o_g) mf (maximalF_Phi mg).
split=> //.
rewrite (sub_lat_antisym_det iota_inj uf s1 s2) det_mulmx exprMn (det_pform_Phi szF szG Gh uPhi).
by rewrite mulrA.
Qed.

End Transport.
