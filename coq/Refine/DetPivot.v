(** * DetPivot: the pivot columns of a normal form as a function (stdlib + lia): row [t] of a
      normal form has a positive entry in column [p t], zeros to the right of it, and [p] is
      strictly increasing; hence rows above [t] vanish in column [p t] (echelon shape). *)
From Coq Require Import ZArith List Lia.
From RNT.Refine Require Import MatZ HnfSpec.
Import ListNotations.
Open Scope Z_scope.

Lemma hnf_rows_pivots m lo H : hnf_rows m lo H ->
  exists p : nat -> nat,
    (forall t, (t < length H)%nat ->
       (lo <= p t < m)%nat /\ 0 < ent H t (p t) /\ forall c, (p t < c)%nat -> ent H t c = 0) /\
    (forall t t', (t < t')%nat -> (t' < length H)%nat -> (p t < p t')%nat).
Proof.
  induction 1 as [|lo p0 r H Hp Hl Hpos Hz Hbelow HH IH].
  - exists (fun _ => 0%nat). split; intros; simpl in *; lia.
  - destruct IH as [p [P1 P2]].
    exists (fun t => match t with O => p0 | S t' => p t' end). split.
    + intros [|t] Ht; simpl in Ht.
      * split; [lia|]. split; [exact Hpos|exact Hz].
      * destruct (P1 t ltac:(lia)) as (Q1 & Q2 & Q3).
        change (ent (r :: H) (S t)) with (ent H t). split; [lia|]. split; auto.
    + intros [|t] [|t'] Hlt Ht'; simpl in Ht'; try lia.
      * destruct (P1 t' ltac:(lia)) as (Q1 & _). lia.
      * apply P2; lia.
Qed.

(** rows above [t] vanish in the pivot column of row [t] *)
Lemma pivots_above (H : mat) (p : nat -> nat) :
  (forall t, (t < length H)%nat -> forall c, (p t < c)%nat -> ent H t c = 0) ->
  (forall t t', (t < t')%nat -> (t' < length H)%nat -> (p t < p t')%nat) ->
  forall t t', (t' < t)%nat -> (t < length H)%nat -> ent H t' (p t) = 0.
Proof. intros Hz Hm t t' Hlt Ht. apply Hz; [lia|]. apply Hm; auto. Qed.
