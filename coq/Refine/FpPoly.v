(** * Polynomials over Z modulo a prime: roots, divisibility, exact division, gcd (ssreflect). *)
From Coq Require Import ZArith List Lia Znumtheory.
From mathcomp Require Import all_ssreflect ssralg poly.
From RNT.Model Require Import Base Poly PolyModP.
From RNT.Refine Require Import PolyModPArith PolyModPDivList FermatZ PolyZmod PolyModPDiv MonicZ PolyModPGcd.
From mathcomp Require Import ssrZ zify ring.
Set Implicit Arguments. Unset Strict Implicit. Unset Printing Implicit Defensive.
Import GRing.Theory.
Local Open Scope ring_scope.

Definition reduced (p : Z) (x : list Z) : Prop := canonical x /\ in_range p x.

Lemma reduced_nil p : reduced p [::].
Proof. by split; [|constructor]. Qed.

Lemma reduced_good p x : (0 < p)%ZZ -> reduced p x -> goodlc p x.
Proof. move=> Hp [C R]. exact: reduced_goodlc. Qed.

Lemma poly_mod_is_reduced f p r : (0 < p)%ZZ -> poly_mod f p = Done r -> reduced p r.
Proof. move=> Hp H. exact: (@poly_mod_reduced f p r Hp H). Qed.

(** ** Roots *)

Definition rootm (p : Z) (f : {poly Z}) (x : Z) : Prop := Z.modulo f.[x] p = Z0.

Lemma pof_horner (f : list Z) x : pof opsZ f x = (PZ f).[x].
Proof.
  rewrite /pof /Poly.horner /PZ. elim: f => [|c f IH] /=; first by rewrite horner0.
  by rewrite horner_cons -IH.
Qed.

Lemma eqpm_horner p (f g : {poly Z}) x : eqpm p f g -> Z.modulo f.[x] p = Z.modulo g.[x] p.
Proof.
  case=> k ->. rewrite hornerD hornerM hornerC.
  have -> : (g.[x] + p * k.[x])%R = (g.[x] + k.[x] * p)%ZZ by lia.
  case: (Z.eqb_spec p Z0) => [->|Hp]; first by rewrite Z.mul_0_r Z.add_0_r.
  by rewrite Z.mod_add.
Qed.

Lemma rootm_eqpm p f g x : eqpm p f g -> rootm p g x -> rootm p f x.
Proof. by move=> E; rewrite /rootm (eqpm_horner x E). Qed.

Lemma rootm_mull p (g h : {poly Z}) x : p <> Z0 -> rootm p g x -> rootm p (g * h) x.
Proof.
  move=> Hp. rewrite /rootm hornerM => H.
  have -> : (g.[x] * h.[x])%R = (g.[x] * h.[x])%ZZ by [].
  by rewrite Z.mul_mod // H Z.mul_0_l Z.mod_0_l.
Qed.

Lemma rootm_mulr p (g h : {poly Z}) x : p <> Z0 -> rootm p h x -> rootm p (g * h) x.
Proof. move=> Hp H. rewrite mulrC. exact: rootm_mull. Qed.

(** ** The degree argument: a multiple of g that is shorter than g vanishes modulo p *)

Lemma small_multiple_zero p (g : list Z) (h r : {poly Z}) :
  Znumtheory.prime p -> g <> [::] -> canonical g -> ~ (p | List.last g Z0)%ZZ ->
  eqpm p (PZ g * h) r -> (size r < length g)%nat -> eqpm p h 0.
Proof.
  move=> Hp Gn Gc Glc E Hr. have Hp2 := prime_ge_2 _ Hp. have Hp0 : p <> Z0 by lia.
  pose h' : {poly Z} := \poly_(i < size h) (Z.modulo h`_i p).
  have Eh : eqpm p h h'.
  { apply: eqpm_of_coef => i. rewrite coef_poly. case: ltnP => Hi; first by rewrite Z.mod_mod.
    by rewrite (seq.nth_default _ Hi). }
  apply: (eqpm_trans Eh).
  case: (h' =P 0) => [->|/eqP Hn]; first exact: eqpm_refl.
  exfalso.
  have Gne : PZ g != 0.
  { apply/eqP => E0. apply: Gn. by rewrite -(canonical_polyseq Gc) E0 polyseq0. }
  have Sz : size (PZ g * h') = (length g + size h').-1 by rewrite size_mul // (canonical_size Gc).
  have Lc : lead_coef (PZ g * h') = Z.mul (List.last g Z0) (lead_coef h').
  { by rewrite lead_coefM (canonical_lead Gc). }
  have E' : eqpm p (PZ g * h') r.
  { apply: eqpm_trans E. apply: eqpm_mull. exact: (eqpm_sym Eh). }
  have := eqpm_coef E' (size (PZ g * h')).-1.
  rewrite -/(lead_coef (PZ g * h')) Lc.
  have Sh : (0 < size h')%nat by rewrite size_poly_gt0.
  rewrite (@seq.nth_default _ _ r); last by rewrite Sz; lia.
  rewrite Z.mod_0_l // => D0.
  have D : (p | List.last g Z0 * lead_coef h')%ZZ by apply: Zmod_divide.
  case: (prime_mult _ Hp _ _ D) => // D1.
  have Hl : lead_coef h' = Z.modulo h`_(size h').-1 p.
  { rewrite /lead_coef /h' coef_poly. case: ltnP => // Hi.
    exfalso. have : lead_coef h' = 0 by rewrite /lead_coef /h' coef_poly ltnNge Hi.
    move/eqP. by rewrite lead_coef_eq0 (negbTE Hn). }
  have B := Z.mod_pos_bound h`_(size h').-1 p ltac:(lia).
  have Nz : lead_coef h' <> Z0 by move/eqP; rewrite lead_coef_eq0 (negbTE Hn).
  have := Zdivide_le p (lead_coef h') ltac:(lia) ltac:(lia) D1. lia.
Qed.

(** ** Exact division *)

(** If g divides a modulo p, [poly_divrem a g p] has remainder 0. *)
Lemma divrem_exact p a g (t : {poly Z}) q r :
  Znumtheory.prime p -> reduced p g -> g <> [::] ->
  eqpm p (PZ a) (PZ g * t) -> (length g <= length a)%coq_nat \/ a = [::] ->
  poly_divrem a g p = Done (q, r) ->
  r = [::] /\ eqpm p (PZ a) (PZ q * PZ g) /\ reduced p q.
Proof.
  move=> Hp Rg Gn Ea Hl H. have Hp2 := prime_ge_2 _ Hp. have Hpp : (0 < p)%ZZ by lia.
  have Glc := reduced_good Hpp Rg Gn.
  have [D1 [_ [Cq [Rq [D2 _]]]]] := poly_divrem_spec Hp Gn Glc H.
  have [Lr [Cr Rr]] := D2 Hl.
  have Er : eqpm p (PZ g * (t - PZ q)) (PZ r).
  { case: D1 => k1 Hk1. case: Ea => k2 Hk2. exists (k1 - k2).
    have -> : PZ r = PZ a - PZ q * PZ g - p%:P * k1 by rewrite Hk1; ring.
    rewrite Hk2. ring. }
  have Sr : (size (PZ r) < length g)%nat by rewrite (canonical_size Cr); lia.
  have Z0' := small_multiple_zero Hp Gn (proj1 Rg) Glc Er Sr.
  have Er0 : eqpm p (PZ r) 0.
  { apply: eqpm_trans (eqpm_sym Er) _.
    have -> : (0 : {poly Z}) = PZ g * 0 by rewrite mulr0. exact: eqpm_mull. }
  have Rnil : r = [::].
  { case: (r) Cr Rr Er0 => [|r0 r'] // Cr' Rr' E0. exfalso.
    have Hn : (r0 :: r') <> [::] by [].
    have := canonical_last _ Cr' Hn. have B := last_in_range_aux p _ Hn Rr'.
    have := eqpm_coef E0 (length (r0 :: r') - 1)%coq_nat.
    rewrite coefPZ -last_nth_len coef0 Z.mod_0_l; last lia.
    rewrite Z.mod_small //. }
  split=> //. split; last by [].
  apply: eqpm_trans D1 _. rewrite Rnil /PZ /= addr0. exact: eqpm_refl.
Qed.

(** ** gcd: the result divides both arguments *)

Lemma poly_gcd_rec_dvd p fuel : forall a b g,
  Znumtheory.prime p -> reduced p a -> reduced p b ->
  poly_gcd_rec fuel a b p = Done g ->
  reduced p g /\ (exists s, eqpm p (PZ a) (PZ g * s)) /\ (exists t, eqpm p (PZ b) (PZ g * t)).
Proof.
  elim: fuel => [|f IH] a b g Hp Ra Rb //=.
  have Hp2 := prime_ge_2 _ Hp. have Hpp : (0 < p)%ZZ by lia.
  case Ed: (poly_divrem a b p) => [[quo rem]| |] //=.
  have [D1 [_ [D3 D4]]] := divrem_good Hp (reduced_good Hpp Ra) (reduced_good Hpp Rb) Ed.
  have Rrem : reduced p rem.
  { case: (b =P [::]) => [Eb|Nb]; first by rewrite (D4 Eb).
    have Dp := poly_divrem_spec Hp Nb (reduced_good Hpp Rb Nb) Ed.
    case: Dp => _ [_ [_ [_ [D2 D5]]]].
    case: (Nat.lt_ge_cases (length a) (length b)) => Hl.
    + by case: (D5 Hl) => _ ->.
    + by case: (D2 (or_introl Hl)) => _. }
  case: rem Ed D1 D3 D4 Rrem => [|r0 rem] Ed D1 D3 D4 Rrem.
  - case=> <-. split=> //. split.
    + exists (PZ quo). apply: eqpm_trans D1 _. rewrite /PZ /= addr0 mulrC. exact: eqpm_refl.
    + exists 1. rewrite mulr1. exact: eqpm_refl.
  - move=> H. have [Rg [[s Hs] [t Ht]]] := IH _ _ _ Hp Rb Rrem H.
    split=> //. split; last by exists s.
    exists (PZ quo * s + t).
    apply: eqpm_trans D1 _.
    have -> : PZ g * (PZ quo * s + t) = PZ quo * (PZ g * s) + PZ g * t by ring.
    apply: eqpm_add => //. exact: eqpm_mull.
Qed.

Lemma poly_gcd_dvd p a b g :
  Znumtheory.prime p -> reduced p a -> reduced p b -> poly_gcd a b p = Done g ->
  reduced p g /\ (exists s, eqpm p (PZ a) (PZ g * s)) /\ (exists t, eqpm p (PZ b) (PZ g * t)).
Proof. exact: poly_gcd_rec_dvd. Qed.

(** ** [poly_modpow] returns a reduced polynomial *)

Lemma mulmod_reduced p x y g r :
  Znumtheory.prime p -> reduced p g -> mulmod x y g p = Done r -> reduced p r.
Proof.
  move=> Hp Rg. have Hp2 := prime_ge_2 _ Hp. have Hpp : (0 < p)%ZZ by lia.
  rewrite /mulmod. case Exy: (poly_mod _ p) => [xy| |] //=.
  case Ed: (poly_divrem xy g p) => [[q' r']| |] //=. case=> <-.
  have Rxy := poly_mod_is_reduced Hpp Exy.
  case: (g =P [::]) => [Eg|Ng].
  - have [_ [_ [_ D4]]] := divrem_good Hp (reduced_good Hpp Rxy) (reduced_good Hpp Rg) Ed.
    by rewrite (D4 Eg).
  - have Dp := poly_divrem_spec Hp Ng (reduced_good Hpp Rg Ng) Ed.
    case: Dp => _ [_ [_ [_ [D2 D5]]]].
    case: (Nat.lt_ge_cases (length xy) (length g)) => Hl.
    + by case: (D5 Hl) => _ ->.
    + by case: (D2 (or_introl Hl)) => _.
Qed.

Lemma poly_modpow_loop_reduced p g e : forall product current r,
  Znumtheory.prime p -> reduced p g ->
  poly_modpow_loop e product current g p = Done r -> reduced p r.
Proof.
  elim: e => [e IH|e IH|] product current r Hp Rg /=.
  - case E1: (mulmod product current g p) => [pr| |] //=.
    case E2: (mulmod current current g p) => [cu| |] //=. exact: IH.
  - case E2: (mulmod current current g p) => [cu| |] //=. exact: IH.
  - case E1: (mulmod product current g p) => [pr| |] //=.
    case E2: (mulmod current current g p) => [cu| |] //=. case=> <-. exact: mulmod_reduced E1.
Qed.

Lemma poly_modpow_reduced p x e g r :
  Znumtheory.prime p -> reduced p g -> poly_modpow x e g p = Done r -> reduced p r.
Proof.
  move=> Hp Rg. have Hp2 := prime_ge_2 _ Hp.
  rewrite /poly_modpow. case: e => [|e|e].
  - case=> <-. rewrite /from_mono /=. split; first by []. constructor; [lia|constructor].
  - exact: poly_modpow_loop_reduced.
  - case=> <-. rewrite /from_mono /=. split; first by []. constructor; [lia|constructor].
Qed.
