(** Round 2 step, third wave (C06): the stages of [one_step] (all intermediate values of a returning
    call, and conversely how a call returns when every stage does), shape of the two tables, and
    that the first half of the step (power, tables given, I_p, U_p loop) never panics.  stdlib + lia. *)
From RNT.Model Require Import Base Poly Algebraic LinAlg MultTable Order Round2.
From RNT.Model Require Hnf.
From RNT.Refine Require Import MatZ HnfOps HnfSpec HnfMain HnfKernel HnfTotal HnfUnique.
From RNT.Refine Require Import Round2Basic Round2Index Round2Lattice Round2Det Round2Fuel Round2W3Ip Round2W3Up.
From RNT.Refine Require MultTableOps AlgNormMx Round2W3Mul.
From Coq Require Import Lia Znumtheory.
Open Scope Z_scope.

(** ** stages of a returning call *)
Record stages (f : list Z) (o : qmat) (p : Z) (o' : qmat) (hh : Z)
  (pow : Z) (deg : nat) (tbl tbl2 : table) (i_p u_p h : Hnf.mat) (nb : qmat) (index : Z) : Prop := {
  st_pow : pow_ge (pdeg f) p = Done pow;
  st_deg : deg_alloc f = Done deg;
  st_tables : mult_tables f o deg p (p * p) = Done (tbl, tbl2);
  st_ip : compute_i_p deg p pow tbl = Done i_p;
  st_loop : Hnf.for_loop (Hnf.range 0 (length i_p)) (up_step deg p (p * p) tbl2 i_p) i_p = Done u_p;
  st_len : (length u_p <= deg)%nat;
  st_widths : Hnf.check_widths deg u_p = Done tt;
  st_hnf : Hnf.hnf_new (u_p ++ p_rows deg p) = Done h;
  st_dim : length h = deg;
  st_nb : new_basis deg p h o = Done nb;
  st_from : from_basis nb = Done o';
  st_index : order_index o' o = Done index;
  st_howmany : howmany_of index p = Done hh }.

Lemma one_step_stages f o p o' hh :
  one_step f o p = Done (o', hh) ->
  exists pow deg tbl tbl2 i_p u_p h nb index, stages f o p o' hh pow deg tbl tbl2 i_p u_p h nb index.
Proof.
  unfold one_step. intros H.
  bind_inv H. bind_inv H. bind_inv H. destruct a1 as [tbl tbl2].
  bind_inv H. bind_inv H. bind_inv H. bind_inv H. bind_inv H. bind_inv H. bind_inv H. bind_inv H.
  bind_inv H. bind_inv H.
  injection H as <- <-.
  exists a, a0, tbl, tbl2, a1, a2, a5, a7, a9. destruct a4.
  unfold assert_ in E4. destruct (length a2 <=? a0)%nat eqn:L; [|discriminate].
  apply Nat.leb_le in L.
  unfold assert_ in E7. destruct (Hnf.hnf_dim a5 =? a0)%nat eqn:D; [|discriminate].
  apply Nat.eqb_eq in D. unfold Hnf.hnf_dim in D.
  constructor; assumption.
Qed.

Lemma one_step_compose f o p o' hh pow deg tbl tbl2 i_p u_p h nb index :
  stages f o p o' hh pow deg tbl tbl2 i_p u_p h nb index -> one_step f o p = Done (o', hh).
Proof.
  intros [S1 S2 S3 S4 S5 S6 S7 S8 S9 S10 S11 S12 S13]. unfold one_step.
  rewrite S1. cbn [bind]. rewrite S2. cbn [bind]. rewrite S3. cbn [bind]. rewrite S4. cbn [bind].
  rewrite S5. cbn [bind].
  apply Nat.leb_le in S6. rewrite S6. cbn [assert_ bind]. rewrite S7. cbn [bind]. rewrite S8. cbn [bind].
  unfold Hnf.hnf_dim. rewrite S9, Nat.eqb_refl. cbn [assert_ bind].
  rewrite S10. cbn [bind]. rewrite S11. cbn [bind]. rewrite S12. cbn [bind]. rewrite S13. reflexivity.
Qed.

Lemma deg_alloc_len f deg : length f = S deg -> deg_alloc f = Done deg.
Proof.
  intros Lf. unfold deg_alloc. destruct f as [|a f']; [discriminate|]. f_equal.
  unfold pdeg. change (length (a :: f')) with (S (length f')) in *. lia.
Qed.

(** ** shape of the two tables *)
Lemma table_entries_len deg inv p p2 l : table_entries deg inv p p2 = Done l -> length l = deg.
Proof. unfold table_entries. intros H. apply mapM_seq_Done in H. tauto. Qed.

Lemma mult_tables_cube f o deg p p2 tbl tbl2 :
  mult_tables f o deg p p2 = Done (tbl, tbl2) ->
  MultTableOps.cube deg tbl = true /\ MultTableOps.cube deg tbl2 = true.
Proof.
  unfold mult_tables. intros H.
  destruct (mapM _ (seq 0 deg)) as [cells| |] eqn:EC; cbn [bind] in H; try discriminate.
  injection H as <- <-.
  apply mapM_seq_Done in EC. destruct EC as [L N].
  assert (R : forall i, (i < deg)%nat -> length (nth i cells []) = deg /\
            forall j, (j < deg)%nat -> length (nth j (nth i cells []) []) = deg).
  { intros i Hi. specialize (N i [] Hi). cbn [plus] in N.
    destruct (nth_chk o i) as [bi| |]; cbn [bind] in N; try discriminate.
    apply mapM_seq_Done in N. destruct N as [L2 N2]. split; [assumption|].
    intros j Hj. specialize (N2 j [] Hj). cbn [plus] in N2.
    destruct (nth_chk o j) as [bj| |]; cbn [bind] in N2; try discriminate.
    destruct (alg_mul f (from_raw opsQc bi) (from_raw opsQc bj)) as [prod| |]; cbn [bind] in N2; try discriminate.
    destruct (solve_linear_system fopsQc o (coefs_upto deg prod)) as [r| |]; cbn [bind] in N2; try discriminate.
    destruct (unwrap_ok r) as [inv| |]; cbn [bind] in N2; try discriminate.
    apply table_entries_len in N2. assumption. }
  assert (M3 : forall (g : Z * Z -> Z),
            MultTableOps.cube deg (map (map (map g)) cells) = true).
  { intros g. apply Round2W3Mul.cube_intro.
    - rewrite map_length. assumption.
    - intros i Hi. rewrite nth_indep with (d' := map (map g) []) by (rewrite map_length; lia).
      rewrite (map_nth (map (map g))). rewrite map_length. apply R. assumption.
    - intros i j Hi Hj. rewrite nth_indep with (d' := map (map g) []) by (rewrite map_length; lia).
      rewrite (map_nth (map (map g))).
      rewrite nth_indep with (d' := map g []) by (rewrite map_length; destruct (R i Hi) as [-> _]; assumption).
      rewrite (map_nth (map g)). rewrite map_length. apply R; assumption. }
  split; apply M3.
Qed.

(** ** the power loop on a well-shaped table *)
Lemma pow_loop_shape n t p : MultTableOps.cube n t = true -> p <> 0 ->
  forall fuel e prod cur, length prod = n -> length cur = n ->
  (exists r, pow_loop fuel e prod cur t p = Done r /\ length r = n) \/ pow_loop fuel e prod cur t p = OutOfFuel.
Proof.
  intros C P0. induction fuel as [|fu IH]; intros e prod cur Lp Lc; [right; reflexivity|].
  cbn [pow_loop]. destruct (0 <? e); [|left; eauto].
  assert (M : forall a b, length a = n -> length b = n ->
            exists r, mul_mod_p a b t p = Done r /\ length r = n).
  { intros a b La Lb. eexists. split; [apply Round2W3Mul.mul_mod_p_closed; eassumption|].
    rewrite map_length. apply Round2W3Mul.tmul_length. }
  assert (P : exists prod', (if Z.rem e 2 =? 1 then mul_mod_p prod cur t p else Done prod) = Done prod' /\ length prod' = n).
  { destruct (Z.rem e 2 =? 1); [apply M; assumption|eauto]. }
  destruct P as [prod' [-> Lp']]. cbn [bind].
  destruct (M cur cur Lc Lc) as [cur' [-> Lc']]. cbn [bind].
  apply IH; assumption.
Qed.

Lemma pow_mod_p_total n t p a e : MultTableOps.cube n t = true -> p <> 0 -> length a = n ->
  exists r, pow_mod_p a e t p = Done r /\ length r = n.
Proof.
  intros C P0 La. pose proof (pow_mod_p_fuel_ok a e t p) as NF. unfold pow_mod_p in *.
  destruct (pow_loop_shape n t p C P0 (Z.to_nat (zbits (e - 1)) + 1) (e - 1) a a La La) as [H|H]; [assumption|].
  congruence.
Qed.

Lemma unit_vec_length deg i : length (unit_vec deg i) = deg.
Proof. unfold unit_vec. rewrite map_length, seq_length. reflexivity. Qed.

Lemma mapM_seq_total {B} (f : nat -> outcome B) (Q : nat -> B -> Prop) s n :
  (forall i, (i < n)%nat -> exists y, f (s + i)%nat = Done y /\ Q i y) ->
  exists r, mapM f (seq s n) = Done r /\ length r = n /\ forall i d, (i < n)%nat -> Q i (nth i r d).
Proof.
  intros H.
  destruct (mapM_total f (fun x y => Q (x - s)%nat y) (seq s n)) as [r [E [L N]]].
  { intros x Hx. apply in_seq in Hx. destruct (H (x - s)%nat ltac:(lia)) as [y [Fy Qy]].
    exists y. replace (s + (x - s))%nat with x in Fy by lia. auto. }
  exists r. split; [assumption|]. rewrite seq_length in L. split; [assumption|].
  intros i d Hi. specialize (N i O d). rewrite seq_length in N. specialize (N Hi).
  rewrite seq_nth in N by assumption. replace (s + i - s)%nat with i in N by lia. assumption.
Qed.

Theorem compute_i_p_total deg p pow tbl :
  MultTableOps.cube deg tbl = true -> (1 <= deg)%nat -> p <> 0 ->
  exists i_p, compute_i_p deg p pow tbl = Done i_p.
Proof.
  intros C D1 P0. unfold compute_i_p.
  destruct (mapM_seq_total (fun i => pow_mod_p (unit_vec deg i) pow tbl p) (fun _ r => length r = deg) 0 deg)
    as [phiw [-> [Lphi Nphi]]].
  { intros i Hi. apply (pow_mod_p_total deg); try assumption. apply unit_vec_length. }
  cbn [bind]. unfold copy_block.
  destruct (mapM_seq_total (fun i => do r <- nth_chk phiw i; mapM (fun j => nth_chk r j) (seq 0 deg))
              (fun _ r => length r = deg) 0 deg) as [top [-> [Lt Nt]]].
  { intros i Hi. cbn [plus]. rewrite (nth_chk_ok phiw i []) by lia. cbn [bind].
    pose proof (Nphi i [] Hi) as Li. pose proof (mapM_nth_chk_all (nth i phiw [])) as M.
    rewrite Li in M. eauto. }
  cbn [bind].
  destruct (p_rows_shape deg p) as [Lp Wp].
  apply (kernel_hnf_trunc_total _ (deg + deg)%nat deg); [|lia|assumption].
  split; [rewrite app_length; lia|]. apply wf_app. split; [|assumption].
  apply Forall_forall. intros r Hr. destruct (In_nth _ _ [] Hr) as [i [Hi <-]]. apply Nt. lia.
Qed.

(** ** the [howmany] loop on a power of p *)
Lemma howmany_loop_pow p : 2 <= p -> forall fuel k acc, 0 <= k ->
  (exists h, howmany_loop fuel (p ^ k) p acc = Done h) \/ howmany_loop fuel (p ^ k) p acc = OutOfFuel.
Proof.
  intros P2. induction fuel as [|fu IH]; intros k acc Hk; [right; reflexivity|].
  cbn [howmany_loop]. destruct (1 <? p ^ k) eqn:E; [|left; eauto].
  unfold zrem. destruct (p =? 0) eqn:P0; [apply Z.eqb_eq in P0; lia|]. cbn [bind].
  assert (K1 : 1 <= k).
  { destruct (Z.eq_dec k 0) as [->|]; [cbn in E; discriminate|lia]. }
  replace k with (Z.succ (k - 1)) by lia. rewrite Z.pow_succ_r by lia.
  rewrite Z.mul_comm, Z.rem_mul by lia. cbn [Z.eqb assert_ bind].
  rewrite Z.quot_mul by lia. apply IH. lia.
Qed.

Lemma howmany_of_pow p k : 2 <= p -> 0 <= k -> exists h, howmany_of (p ^ k) p = Done h.
Proof.
  intros P2 Hk. pose proof (howmany_of_fuel_ok (p ^ k) p P2) as NF. unfold howmany_of in *.
  destruct (howmany_loop_pow p P2 (Z.to_nat (zbits (p ^ k)) + 1) k 0 Hk) as [H|H]; [assumption|congruence].
Qed.

(** a positive divisor of a power of a prime is a power of that prime *)
Lemma prime_pow_divisor p : prime p -> forall n a, 0 <= n -> 0 < a -> (a | p ^ n) -> exists k, 0 <= k /\ a = p ^ k.
Proof.
  intros Pp. assert (P2 : 2 <= p) by (destruct Pp; lia).
  intros n a Hn. revert a. pattern n. apply natlike_ind; [| |assumption].
  - intros a Ha D. cbn in D. exists 0. split; [lia|]. apply Z.divide_1_r_nonneg in D; lia.
  - clear n Hn. intros n Hn IH a Ha D. rewrite Z.pow_succ_r in D by assumption.
    destruct (Zdivide_dec p a) as [[q Hq]|ND].
    + subst a. assert (Hq : 0 < q) by nia.
      destruct (IH q Hq) as [k [Hk ->]].
      { destruct D as [c Hc]. exists c. nia. }
      exists (Z.succ k). split; [lia|]. rewrite Z.pow_succ_r by assumption. ring.
    + assert (R : rel_prime a p).
      { apply rel_prime_sym. apply prime_rel_prime; assumption. }
      apply (IH a Ha). apply Gauss with p; [exact D|assumption].
Qed.

(** ** pieces of the second half of the step *)
Lemma ent_p_rows deg p i j : (i < deg)%nat -> (j < deg)%nat ->
  nth j (nth i (p_rows deg p) []) 0 = if (j =? i)%nat then p else 0.
Proof.
  intros Hi Hj. rewrite p_rows_nth by assumption. unfold pe.
  rewrite nth_indep with (d' := (fun t => if (t =? i)%nat then p else 0) O) by (rewrite map_length, seq_length; assumption).
  rewrite (map_nth (fun t => if (t =? i)%nat then p else 0)). rewrite seq_nth by assumption. reflexivity.
Qed.

(** p I = C h for an integer matrix C, when h is the normal form of a lattice containing p Z^deg *)
Lemma p_rows_factor deg p u h : (1 <= deg)%nat -> wf deg u ->
  Hnf.hnf_new (u ++ p_rows deg p) = Done h -> length h = deg ->
  exists C, shape deg deg C /\ mmul deg C h = p_rows deg p.
Proof.
  intros D1 Wu E Lh.
  destruct (p_rows_shape deg p) as [Lp Wp].
  assert (WA : wf deg (u ++ p_rows deg p)) by (apply wf_app; split; assumption).
  destruct (hnf_new_any deg _ h WA D1 E) as [_ [Wh Span]].
  destruct (fin_choice (fun k c => length c = deg /\ nth k (p_rows deg p) [] = lincomb deg c h) [] deg) as [C [LC NC]].
  { intros k Hk.
    assert (IS : In_rowspanZ deg (nth k (p_rows deg p) []) h).
    { apply Span. replace (nth k (p_rows deg p) []) with (row (u ++ p_rows deg p) (length u + k)).
      - apply row_in_span; [assumption|]. rewrite app_length, Lp. lia.
      - unfold row. rewrite app_nth2 by lia. f_equal. lia. }
    destruct IS as [c [Lc Ec]]. exists c. split; [lia|assumption]. }
  exists C. split.
  - split; [assumption|]. apply Forall_forall. intros r Hr. destruct (In_nth _ _ [] Hr) as [k [Hk <-]].
    apply NC. lia.
  - apply nth_ext with (d := []) (d' := []); [rewrite mmul_length; lia|].
    intros k Hk. rewrite mmul_length in Hk. change (nth k (mmul deg C h) []) with (row (mmul deg C h) k).
    rewrite row_mmul by assumption. symmetry. apply NC. lia.
Qed.

Lemma addmulq_prefix_total : forall n acc orow r, (n <= length acc)%nat -> (n <= length orow)%nat ->
  exists res, addmulq_prefix n acc orow r = Done res /\ length res = length acc.
Proof.
  induction n as [|n IH]; intros acc orow r La Lo; [exists acc; auto|].
  destruct acc as [|x acc]; [cbn in La; lia|]. destruct orow as [|y orow]; [cbn in Lo; lia|].
  cbn [addmulq_prefix]. destruct (IH acc orow r ltac:(cbn in La; lia) ltac:(cbn in Lo; lia)) as [t [-> Lt]].
  cbn [bind]. eexists. split; [reflexivity|]. cbn. lia.
Qed.

Lemma new_basis_total deg p h (o : qmat) :
  p <> 0 -> shape deg deg h -> length o = deg -> Forall (fun r => length r = deg) o ->
  exists nb, new_basis deg p h o = Done nb.
Proof.
  intros P0 [Lh Wh] Lo Wo. unfold new_basis.
  destruct (mapM_seq_total (fun i => Hnf.for_loop (Hnf.range 0 deg) (nb_body deg p h o i) (repeat q0 deg))
              (fun _ _ => True) 0 deg) as [nb [E _]]; [|exists nb; exact E].
  intros i Hi. cbn [plus]. unfold Hnf.range. rewrite Nat.sub_0_r.
  assert (G : forall n s acc, (s + n <= deg)%nat -> length acc = deg ->
            exists res, Hnf.for_loop (seq s n) (nb_body deg p h o i) acc = Done res /\ length res = deg).
  { induction n as [|n IH]; intros s acc Hs La; [exists acc; auto|].
    cbn [seq Hnf.for_loop]. unfold nb_body at 1. unfold Hnf.get.
    rewrite (nth_chk_ok h i []) by lia. cbn [bind].
    assert (Lr : length (nth i h []) = deg) by (apply (wf_row deg h i Wh); lia).
    rewrite (nth_chk_ok (nth i h []) s 0) by lia. cbn [bind].
    destruct (p =? 0) eqn:E0; [apply Z.eqb_eq in E0; contradiction|]. cbn [bind].
    rewrite (nth_chk_ok o s []) by lia. cbn [bind].
    assert (Los : length (nth s o []) = deg).
    { rewrite Forall_forall in Wo. apply Wo. apply nth_In. lia. }
    destruct (addmulq_prefix_total deg acc (nth s o []) (ratio_new (nth s (nth i h []) 0) p) ltac:(lia) ltac:(lia))
      as [acc' [-> La']]. cbn [bind].
    apply IH; lia. }
  destruct (G deg O (repeat q0 deg) ltac:(lia) (repeat_length _ _)) as [res [E _]].
  exists res. split; [exact E|exact I].
Qed.

(** the identity matrix is a stored basis *)
From Coq Require Import QArith Qcanon.
Lemma identity_entry n t c : (t < n)%nat -> (c < n)%nat ->
  nth c (nth t (identity fopsQc n) []) q0 = if (t =? c)%nat then Qcanon.Q2Qc 1 else q0.
Proof.
  intros Ht Hc. unfold identity.
  set (g := fun i => map (fun j => if (i =? j)%nat then r1 (fr fopsQc) else r0 (fr fopsQc)) (seq 0 n)).
  rewrite nth_indep with (d' := g O) by (rewrite map_length, seq_length; assumption).
  rewrite (map_nth g), seq_nth by assumption. cbn [plus]. unfold g.
  set (g2 := fun j => if (t =? j)%nat then r1 (fr fopsQc) else r0 (fr fopsQc)).
  rewrite nth_indep with (d' := g2 O) by (rewrite map_length, seq_length; assumption).
  rewrite (map_nth g2), seq_nth by assumption. reflexivity.
Qed.

Lemma identity_lower n : lower_from n 0 (identity fopsQc n).
Proof.
  split.
  - unfold identity. rewrite map_length, seq_length. reflexivity.
  - intros t Ht. unfold identity.
    set (g := fun i => map (fun j => if (i =? j)%nat then r1 (fr fopsQc) else r0 (fr fopsQc)) (seq 0 n)).
    rewrite nth_indep with (d' := g O) by (rewrite map_length, seq_length; assumption).
    rewrite (map_nth g). unfold g. rewrite map_length, seq_length. reflexivity.
  - intros t Ht. unfold ent_q. rewrite identity_entry by lia. rewrite Nat.eqb_refl. reflexivity.
  - intros t c Ht Hc. unfold ent_q. rewrite identity_entry by lia.
    destruct (Nat.eqb_spec t c); [lia|reflexivity].
Qed.
