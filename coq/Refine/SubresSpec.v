(** Unconditional specifications of the integer sub-resultant routines: the exactness flag is always
    true (SubresFlag.v), hence the conditional theorems of ResInt.v / ResGcd.v / ResAgree.v hold for
    every canonical input, and the routines never panic. ssreflect/MathComp style. *)
From RNT.Model Require Import Base Poly Resultant.
From Coq Require Import ZArith QArith Qcanon.
From mathcomp Require Import all_ssreflect ssralg poly polydiv matrix mxpoly.
From mathcomp Require Import ssrZ zify.
From RNT.Refine Require Import QcRing PolyRefine PolyZ ResInt ResGcd ResAgree SubresFlag.
From RNT.Refine Require ResProofs ResProofs2 ResProofs3.
Set Implicit Arguments.
Unset Strict Implicit.
Unset Printing Implicit Defensive.
Import GRing.Theory.
Import Pdiv.Idomain.
Local Open Scope ring_scope.

Local Notation dg p := (size p).-1.

(** [P] [resultant] never panics on canonical inputs and all its divisions are exact. *)
Theorem resultant_total m (f g : seq Z) :
  ResProofs.canonb f = true -> ResProofs.canonb g = true ->
  ResProofs.len_ok f = true -> ResProofs.len_ok g = true ->
  exists v, Resultant.resultant m f g = (true, Done v).
Proof.
move=> cf cg lf lg; have := resultant_flag_true m cf cg lf lg.
case R: (Resultant.resultant m f g) => [e o] /= e1; rewrite e1 in R *.
by have [v ->] := ResProofs2.resultant_flag_no_panic m f g _ cf cg lf lg R; exists v.
Qed.

(** [P] [resultant_int_spec]: the value is the determinant of the Sylvester matrix. *)
Theorem resultant_int_spec m (f g : seq Z) :
  ResProofs.canonb f = true -> ResProofs.canonb g = true ->
  ResProofs.len_ok f = true -> ResProofs.len_ok g = true ->
  f <> [::] -> g <> [::] ->
  Resultant.resultant m f g = (true, Done (\det (Sylvester_mx (Poly g) (Poly f)))).
Proof.
move=> cf cg lf lg nf ng; have [v R] := resultant_total m cf cg lf lg.
by rewrite R (resultant_int_partial cf cg lf lg nf ng R).
Qed.

(** [P] the rational routine agrees with the integer routine on integer inputs. *)
Theorem resultant_rational_agrees m (f g : seq Z) :
  ResProofs.canonb f = true -> ResProofs.canonb g = true ->
  ResProofs.len_ok f = true -> ResProofs.len_ok g = true ->
  f <> [::] -> g <> [::] ->
  exists v, Resultant.resultant m f g = (true, Done v) /\
            resultant_rational m (List.map Qc_ofZ f) (List.map Qc_ofZ g) = Done (Qc_ofZ v).
Proof.
move=> cf cg lf lg nf ng; have [v R] := resultant_total m cf cg lf lg.
by exists v; split=> //; apply: resultant_rational_agrees_partial R.
Qed.

(** [P] [discriminant] never panics on canonical non-zero inputs and its divisions are exact. *)
Theorem discriminant_total m (f : seq Z) :
  f <> [::] -> ResProofs.canonb f = true -> ResProofs.len_ok f = true ->
  exists d, discriminant m f = (true, Done d).
Proof.
move=> nf cf lf; have := discriminant_flag_true m cf lf.
case D: (discriminant m f) => [e o] /= e1; rewrite e1 in D *.
by have [v ->] := ResProofs3.discriminant_flag_no_panic m f _ nf cf lf D; exists v.
Qed.

(** [P] [discriminant_spec]: d * lc f = (-1)^(n(n-1)/2) * det Sylvester(f, f'). *)
Theorem discriminant_spec m (f : seq Z) :
  ResProofs.canonb f = true -> ResProofs.len_ok f = true -> (1 < size f)%N ->
  exists d, discriminant m f = (true, Done d) /\
    d * lead_coef (Poly f) =
    (-1) ^+ ((dg f * (dg f).-1) %/ 2) * \det (Sylvester_mx (Poly f)^`() (Poly f)).
Proof.
move=> cf lf sf; have nf : f <> [::] by case: (f) sf.
have [d D] := discriminant_total m nf cf lf.
by exists d; split=> //; apply: discriminant_det_partial D.
Qed.

(** [P] the discriminant vanishes iff f and f' have a common factor of positive degree. *)
Theorem discriminant_eq0 m (f : seq Z) :
  ResProofs.canonb f = true -> ResProofs.len_ok f = true -> (1 < size f)%N ->
  exists d, discriminant m f = (true, Done d) /\
            (d == 0) = (1 < size (gcdp (Poly f)^`() (Poly f)))%N.
Proof.
move=> cf lf sf; have nf : f <> [::] by case: (f) sf.
have [d D] := discriminant_total m nf cf lf.
by exists d; split=> //; apply: discriminant_eq0_partial D.
Qed.

(** [P] [resultant_gcd] never panics on canonical inputs and all its divisions are exact. *)
Theorem gcd_total (f g : seq Z) :
  ResProofs.canonb f = true -> ResProofs.canonb g = true ->
  exists d, resultant_gcd f g = (true, Done d).
Proof.
move=> cf cg; have := gcd_flag_true cf cg.
case G: (resultant_gcd f g) => [e o] /= e1; rewrite e1 in G *.
by have [v ->] := ResProofs2.resultant_gcd_flag_no_panic f g _ cf cg G; exists v.
Qed.

(** [P] [gcd_spec]: the result is associated over Q to gcd(f, g), canonical, with positive
    leading coefficient. *)
Theorem gcd_spec (f g : seq Z) :
  ResProofs.canonb f = true -> ResProofs.canonb g = true -> f <> [::] ->
  exists d, resultant_gcd f g = (true, Done d) /\
    [/\ Poly d %= gcdp (Poly f) (Poly g), (0 < lead_coef (Poly d))%Z & ResProofs.canonb d = true].
Proof.
move=> cf cg nf; have [d G] := gcd_total cf cg.
by exists d; split=> //; apply: gcd_partial G.
Qed.

(** [P] scaling law on the outputs of the integer routine:
    Res(s f, t g) = s^deg g t^deg f Res(f, g) for s, t <> 0. *)
From RNT.Refine Require Import ResEuclid.

Lemma Poly_map_mull (l : seq Z) (s : Z) : Poly (List.map (Z.mul s) l) = s *: Poly l.
Proof.
rewrite Lmap_eq; apply/polyP=> i; rewrite coefZ !coef_Poly.
case: (ltnP i (size l)) => hi; first by rewrite (nth_map 0).
by rewrite !nth_default ?size_map // mulr0.
Qed.

Lemma canonb_map_mull (l : seq Z) (s : Z) : s != 0 ->
  ResProofs.canonb l = true -> ResProofs.canonb (List.map (Z.mul s) l) = true.
Proof.
move=> nzs; rewrite !canonb_canonZ /canonZ Lmap_eq.
case: l => [|x l] //; rewrite !canon_last //= (last_map (Z.mul s)) => h.
by rewrite -[Z.mul _ _]/(s * _) mulf_neq0.
Qed.

Theorem resultant_scale_model m (f g : seq Z) (s t : Z) :
  ResProofs.canonb f = true -> ResProofs.canonb g = true ->
  ResProofs.len_ok f = true -> ResProofs.len_ok g = true ->
  f <> [::] -> g <> [::] -> s != 0 -> t != 0 ->
  exists v, Resultant.resultant m f g = (true, Done v) /\
    Resultant.resultant m (List.map (Z.mul s) f) (List.map (Z.mul t) g) =
      (true, Done (s ^+ (size g).-1 * t ^+ (size f).-1 * v)).
Proof.
move=> cf cg lf lg nf ng nzs nzt.
exists (\det (Sylvester_mx (Poly g) (Poly f))); split; first exact: resultant_int_spec.
have lf' : ResProofs.len_ok (List.map (Z.mul s) f) = true by move: lf; rewrite /ResProofs.len_ok List.map_length.
have lg' : ResProofs.len_ok (List.map (Z.mul t) g) = true by move: lg; rewrite /ResProofs.len_ok List.map_length.
have nf' : List.map (Z.mul s) f <> [::] by case: (f) nf.
have ng' : List.map (Z.mul t) g <> [::] by case: (g) ng.
rewrite (resultant_int_spec m (canonb_map_mull nzs cf) (canonb_map_mull nzt cg) lf' lg' nf' ng').
rewrite !Poly_map_mull -!/(mxpoly.resultant _ _) resultant_scale //.
have cf' : canonZ f by rewrite -canonb_canonZ.
have cg' : canonZ g by rewrite -canonb_canonZ.
by rewrite !canon_size_Poly // [t ^+ _ * _]mulrC.
Qed.
