(** C20: the Gram-Schmidt bookkeeping of [lll] in exact arithmetic.

    [gs_rel s]: the maintained [bstar], [mu], [b] are Gram-Schmidt data of the rows 0..kmax of the
    current basis, in the characterising form
      (G1) b_i = b*_i + sum_{j<i} mu_ij b*_j        (coordinate by coordinate)
      (G2) <b*_i, b*_j> = 0 for i <> j
      (G3) B_i = <b*_i, b*_i>
    (for non-zero b*_j these relations determine b*, mu, B uniquely: it is the Gram-Schmidt
    orthogonalisation). [red_preserves_gs]: RED keeps the relation.
    (stdlib; lia, ring on Qc.) *)
From RNT.Model Require Import Base Lll.
From RNT.Refine Require Import LllMat.
From Coq Require Import Lia QArith Qcanon.
Open Scope Z_scope.

Local Notation F := arithQ.
Local Notation "x +q y" := (Qcplus x y) (at level 50, left associativity).
Local Notation "x *q y" := (Qcmult x y) (at level 40, left associativity).
Local Notation "x -q y" := (Qcminus x y) (at level 50, left associativity).
Local Notation q0 := (Q2Qc 0).
Local Notation q1 := (Q2Qc 1).

(** ** finite sums *)
Fixpoint qsum (k : nat) (f : nat -> Qc) : Qc :=
  match k with O => q0 | S k' => qsum k' f +q f k' end.

Lemma qsum_ext k f g : (forall j, (j < k)%nat -> f j = g j) -> qsum k f = qsum k g.
Proof. induction k as [|k IH]; intros H; cbn; [reflexivity|]. rewrite IH, H by (intros; try apply H; lia). reflexivity. Qed.

Lemma qsum_add k f g : qsum k (fun j => f j +q g j) = qsum k f +q qsum k g.
Proof. induction k as [|k IH]; cbn; [ring|]. rewrite IH. ring. Qed.

Lemma qsum_scale k c f : qsum k (fun j => c *q f j) = c *q qsum k f.
Proof. induction k as [|k IH]; cbn; [ring|]. rewrite IH. ring. Qed.

Lemma qsum_zero k f : (forall j, (j < k)%nat -> f j = q0) -> qsum k f = q0.
Proof. induction k as [|k IH]; intros H; cbn; [reflexivity|]. rewrite IH, H by (intros; try apply H; lia). ring. Qed.

(** sum_{j<k} [j<l ? a_j : j=l ? 1 : 0] s_j = sum_{j<l} a_j s_j + s_l   for l < k *)
Lemma qsum_row l a s : forall k, (l < k)%nat ->
  qsum k (fun j => (if Nat.ltb j l then a j else if Nat.eqb j l then q1 else q0) *q s j)
  = qsum l (fun j => a j *q s j) +q s l.
Proof.
  induction k as [|k IH]; intros H; [lia|]. cbn [qsum].
  destruct (Nat.eq_dec l k) as [->|Hne].
  - rewrite (qsum_ext k _ (fun j => a j *q s j)).
    + destruct (Nat.ltb_spec k k); [lia|]. rewrite Nat.eqb_refl. ring.
    + intros j Hj. destruct (Nat.ltb_spec j k); [reflexivity|lia].
  - rewrite IH by lia. destruct (Nat.ltb_spec k l); [lia|]. destruct (Nat.eqb_spec k l); [lia|]. ring.
Qed.

(** ** prefix updates, entry by entry *)
Lemma nth_pre_upd_in {A} (f : A -> A -> A) d : forall n (a b : list A) j,
  (j < n)%nat -> (j < length a)%nat -> (j < length b)%nat ->
  nth j (pre_upd f n a b) d = f (nth j a d) (nth j b d).
Proof.
  induction n as [|n IH]; intros [|x a] [|y b] j Hn Ha Hb; cbn in *; try lia.
  destruct j as [|j]; [reflexivity|]. apply IH; lia.
Qed.

Lemma nth_pre_upd_out {A} (f : A -> A -> A) d : forall n (a b : list A) j,
  (n <= j)%nat -> nth j (pre_upd f n a b) d = nth j a d.
Proof.
  induction n as [|n IH]; intros [|x a] [|y b] j Hn; cbn; try reflexivity.
  destruct j as [|j]; [lia|]. apply IH. lia.
Qed.

(** ** the relation *)
Section GS.
Variable n : nat.   (* the basis is n x n *)

Definition Bv (s : lstate (T:=Qc)) (i p : nat) : Qc := nth p (nth i (l_basis s) []) q0.
Definition Sv (s : lstate (T:=Qc)) (i p : nat) : Qc := nth p (nth i (l_bstar s) []) q0.
Definition Mu (s : lstate (T:=Qc)) (i j : nat) : Qc := get2 F (l_mu s) i j.
Definition Nb (s : lstate (T:=Qc)) (i : nat) : Qc := get1 F (l_b s) i.

Definition square (m : list (list Qc)) : Prop := length m = n /\ Forall (fun r => length r = n) m.
Definition squareZ (m : list (list Z)) : Prop := length m = n /\ Forall (fun r => length r = n) m.
Definition wfstate (s : lstate (T:=Qc)) : Prop :=
  square (l_basis s) /\ square (l_bstar s) /\ square (l_mu s) /\ length (l_b s) = n /\ (l_kmax s < n)%nat /\
  squareZ (l_h s).

Record gs_rel (s : lstate (T:=Qc)) : Prop := mkGS {
  gs1 : forall i p, (i <= l_kmax s)%nat -> Bv s i p = Sv s i p +q qsum i (fun j => Mu s i j *q Sv s j p);
  gs2 : forall i j, (i <= l_kmax s)%nat -> (j <= l_kmax s)%nat -> i <> j -> qsum n (fun p => Sv s i p *q Sv s j p) = q0;
  gs3 : forall i, (i <= l_kmax s)%nat -> Nb s i = qsum n (fun p => Sv s i p *q Sv s i p)
}.

Lemma square_row m i : square m -> (i < n)%nat -> length (nth i m []) = n.
Proof. intros [L R] Hi. rewrite <- L in Hi. exact (Forall_nth_in _ m i [] R Hi). Qed.

Lemma square_set m i r : square m -> length r = n -> square (set_nth m i r).
Proof. intros [L R] Hr. split; [rewrite length_set_nth; exact L|apply Forall_set_nth; assumption]. Qed.

Lemma squareZ_row m i : squareZ m -> (i < n)%nat -> length (nth i m []) = n.
Proof. intros [L R] Hi. rewrite <- L in Hi. exact (Forall_nth_in _ m i [] R Hi). Qed.

Lemma upd_prefix_ok {A} (f : A -> A -> A) k a b : (k <= length a)%nat -> (k <= length b)%nat ->
  upd_prefix f k a b = Done (pre_upd f k a b).
Proof.
  intros Ha Hb. unfold upd_prefix. rewrite (proj2 (Nat.leb_le _ _) Ha), (proj2 (Nat.leb_le _ _) Hb). reflexivity.
Qed.

Lemma get2_set_nth m i r a j : (i < length m)%nat ->
  get2 F (set_nth m i r) a j = if Nat.eqb a i then nth j r q0 else get2 F m a j.
Proof.
  intros Hi. unfold get2. cbn [f0 F arithQ]. rewrite nth_set_nth.
  destruct (Nat.eqb_spec i a) as [->|Hne].
  - rewrite Nat.eqb_refl. destruct (Nat.ltb_spec a (length m)); [reflexivity|lia].
  - destruct (Nat.eqb_spec a i); [congruence|reflexivity].
Qed.

(** RED in exact arithmetic, entry by entry *)
Lemma red_entries s k l s' : wfstate s -> (l < k)%nat -> (k < n)%nat ->
  red F n s k l = Done s' ->
  exists q : Z,
    l_kmax s' = l_kmax s /\ l_k s' = l_k s /\ l_bstar s' = l_bstar s /\ l_b s' = l_b s /\ wfstate s' /\
    (forall i p, Bv s' i p = if Nat.eqb i k then Bv s k p -q Qc_of_Z q *q Bv s l p else Bv s i p) /\
    (forall i j, Mu s' i j =
       if Nat.eqb i k then
         Mu s k j -q Qc_of_Z q *q (if Nat.ltb j l then Mu s l j else if Nat.eqb j l then q1 else q0)
       else Mu s i j).
Proof.
  intros (WB & WS & WM & Wb & Wk & WH) Hl Hk R. unfold red in R.
  destruct (fleb F (fhalf F) (fabs F (get2 F (l_mu s) k l))).
  2:{ inversion R; subst s'. exists 0.
      refine (conj eq_refl (conj eq_refl (conj eq_refl (conj eq_refl (conj _ (conj _ _)))))).
      - unfold wfstate. tauto.
      - intros i p. destruct (Nat.eqb_spec i k) as [->|]; [|reflexivity]. change (Qc_of_Z 0) with q0. ring.
      - intros i j. destruct (Nat.eqb_spec i k) as [->|]; [|reflexivity]. change (Qc_of_Z 0) with q0. ring. }
  cbn [to_int ffloor fadd fhalf F arithQ bind] in R.
  set (q := Qc_floor (get2 arithQ (l_mu s) k l +q Qc_half)) in *.
  assert (Hl' : (l < n)%nat) by lia.
  pose proof (square_row _ k WB Hk) as Bk. pose proof (square_row _ l WB Hl') as Bl.
  pose proof (squareZ_row _ k WH Hk) as Hk'. pose proof (squareZ_row _ l WH Hl') as Hl''.
  pose proof (square_row _ k WM Hk) as Mk. pose proof (square_row _ l WM Hl') as Ml.
  unfold row, rowZ in R.
  rewrite upd_prefix_ok in R by lia. cbn [bind] in R.
  rewrite upd_prefix_ok in R by lia. cbn [bind] in R.
  inversion R; subst s'; clear R. exists q. cbn [l_kmax l_k l_bstar l_b].
  split; [reflexivity|]. split; [reflexivity|]. split; [reflexivity|]. split; [reflexivity|].
  pose proof (proj1 WB) as LB. pose proof (proj1 WM) as LM. pose proof (proj1 WH) as LH.
  split; [|split].
  - unfold wfstate; cbn [l_basis l_bstar l_mu l_b l_kmax l_h].
    split; [|split; [exact WS|split; [|split; [exact Wb|split; [exact Wk|]]]]].
    + apply square_set; [exact WB|]. rewrite length_pre_upd. exact Bk.
    + apply square_set.
      * unfold set2. apply square_set; [exact WM|]. rewrite length_set_nth. exact Mk.
      * rewrite length_pre_upd. unfold set2, row. rewrite nth_set_nth_eq by lia. rewrite length_set_nth. exact Mk.
    + split; [rewrite length_set_nth; exact LH|]. apply Forall_set_nth; [apply WH|]. rewrite length_pre_upd. exact Hk'.
  - intros i p. unfold Bv; cbn [l_basis]. rewrite nth_set_nth.
    destruct (Nat.eqb_spec k i) as [<-|Hne].
    + rewrite Nat.eqb_refl. destruct (Nat.ltb_spec k (length (l_basis s))); [|lia].
      destruct (Nat.lt_ge_cases p n) as [Hp|Hp].
      * rewrite nth_pre_upd_in by lia. cbn [fsub fmul fofZ to_real F arithQ]. reflexivity.
      * rewrite nth_pre_upd_out by lia. rewrite !nth_overflow by lia. ring.
    + destruct (Nat.eqb_spec i k); [congruence|reflexivity].
  - intros i j. unfold Mu; cbn [l_mu].
    rewrite get2_set_nth by (unfold set2; rewrite length_set_nth; lia).
    destruct (Nat.eqb_spec i k) as [->|Hne].
    + unfold set2, row. rewrite !nth_set_nth_eq by lia. rewrite (nth_set_nth_neq _ k l) by lia.
      destruct (Nat.ltb_spec j l) as [Hj|Hj].
      * rewrite nth_pre_upd_in by (rewrite ?length_set_nth; lia).
        rewrite nth_set_nth_neq by lia. cbn [fsub fmul fofZ to_real F arithQ]. unfold get2. reflexivity.
      * rewrite nth_pre_upd_out by lia. rewrite nth_set_nth.
        destruct (Nat.eqb_spec l j) as [<-|Hne].
        -- destruct (Nat.ltb_spec l (length (nth k (l_mu s) []))); [|lia]. rewrite Nat.eqb_refl.
           cbn [fsub to_real fofZ F arithQ]. unfold get2. cbn [f0 F arithQ]. ring.
        -- destruct (Nat.eqb_spec j l); [congruence|]. unfold get2. cbn [f0 F arithQ]. ring.
    + unfold set2. rewrite get2_set_nth by lia. destruct (Nat.eqb_spec i k); [congruence|reflexivity].
Qed.

(** [P] RED keeps the Gram-Schmidt relation (exact arithmetic), for rows k <= kmax. *)
Theorem red_preserves_gs s k l s' :
  wfstate s -> gs_rel s -> (l < k)%nat -> (k <= l_kmax s)%nat ->
  red F n s k l = Done s' -> wfstate s' /\ gs_rel s'.
Proof.
  intros W G Hl Hk R. assert (Hkn : (k < n)%nat) by (destruct W as (_ & _ & _ & _ & ? & _); lia).
  destruct (red_entries s k l s' W Hl Hkn R) as (q & Ek & _ & ES & Eb & W' & EB & EM).
  split; [exact W'|].
  assert (SvE : forall i p, Sv s' i p = Sv s i p) by (intros; unfold Sv; rewrite ES; reflexivity).
  assert (NbE : forall i, Nb s' i = Nb s i) by (intros; unfold Nb; rewrite Eb; reflexivity).
  constructor; rewrite Ek.
  - intros i p Hi. rewrite EB. rewrite SvE.
    rewrite (qsum_ext i _ (fun j => Mu s' i j *q Sv s j p)) by (intros; rewrite SvE; reflexivity).
    destruct (Nat.eqb_spec i k) as [->|Hne].
    + rewrite (qsum_ext k _ (fun j => Mu s k j *q Sv s j p +q
                 (Qcopp (Qc_of_Z q)) *q ((if Nat.ltb j l then Mu s l j else if Nat.eqb j l then q1 else q0) *q Sv s j p))).
      2:{ intros j Hj. rewrite EM, Nat.eqb_refl. ring. }
      rewrite qsum_add, qsum_scale. rewrite (qsum_row l (Mu s l) (fun j => Sv s j p) k Hl).
      rewrite (gs1 s G k p Hk), (gs1 s G l p ltac:(lia)). ring.
    + rewrite (qsum_ext i _ (fun j => Mu s i j *q Sv s j p)).
      2:{ intros j Hj. rewrite EM. destruct (Nat.eqb_spec i k); [congruence|reflexivity]. }
      apply (gs1 s G); exact Hi.
  - intros i j Hi Hj Hne. rewrite (qsum_ext n _ (fun p => Sv s i p *q Sv s j p)) by (intros; rewrite !SvE; reflexivity).
    apply (gs2 s G); assumption.
  - intros i Hi. rewrite NbE. rewrite (qsum_ext n _ (fun p => Sv s i p *q Sv s i p)) by (intros; rewrite !SvE; reflexivity).
    apply (gs3 s G); assumption.
Qed.

(** ** SWAP *)
Lemma get2_set2 m i j x a b : square m -> (i < n)%nat -> (j < n)%nat ->
  get2 F (set2 m i j x) a b = if (Nat.eqb a i && Nat.eqb b j)%bool then x else get2 F m a b.
Proof.
  intros W Hi Hj. unfold set2. rewrite get2_set_nth by (rewrite (proj1 W); exact Hi).
  destruct (Nat.eqb_spec a i) as [->|Hne]; cbn [andb]; [|reflexivity].
  rewrite nth_set_nth. rewrite (square_row m i W Hi).
  destruct (Nat.eqb_spec j b) as [<-|Hne].
  - rewrite Nat.eqb_refl. destruct (Nat.ltb_spec j n); [reflexivity|lia].
  - destruct (Nat.eqb_spec b j); [congruence|]. reflexivity.
Qed.

Lemma square_set2 m i j x : square m -> (i < n)%nat -> square (set2 m i j x).
Proof.
  intros W Hi. unfold set2. apply square_set; [exact W|]. rewrite length_set_nth. apply square_row; assumption.
Qed.

Lemma square_swap m i j : square m -> (i < n)%nat -> (j < n)%nat -> square (swap_nth [] m i j).
Proof.
  intros [L R] Hi Hj. split; [rewrite length_swap_nth; exact L|]. apply Forall_swap_nth; [exact R|lia|lia].
Qed.

Definition sw (k a : nat) : nat := if Nat.eqb a k then (k + 1)%nat else if Nat.eqb a (k + 1) then k else a.

Lemma nth_swap_rows {A} (m : list (list A)) k a : length m = n -> (k + 1 < n)%nat ->
  nth a (swap_nth [] m k (k + 1)) [] = nth (sw k a) m [].
Proof.
  intros L Hk. rewrite nth_swap_nth by lia. unfold sw.
  destruct (Nat.eqb_spec (k + 1) a) as [<-|H1].
  - destruct (Nat.eqb_spec (k + 1) k); [lia|]. rewrite Nat.eqb_refl. reflexivity.
  - destruct (Nat.eqb_spec k a) as [<-|H2].
    + rewrite Nat.eqb_refl. reflexivity.
    + destruct (Nat.eqb_spec a k); [congruence|]. destruct (Nat.eqb_spec a (k + 1)); [congruence|]. reflexivity.
Qed.

(** a loop whose i-th step rewrites row i from row i only *)
Lemma for_range_rowwise (step : nat -> list (list Qc) -> list (list Qc)) :
  (forall i m, square m -> (i < n)%nat -> square (step i m)) ->
  (forall i m a b, square m -> (i < n)%nat -> a <> i -> get2 F (step i m) a b = get2 F m a b) ->
  (forall i m m' b, square m -> square m' -> (i < n)%nat -> (forall b', get2 F m i b' = get2 F m' i b') ->
                    get2 F (step i m) i b = get2 F (step i m') i b) ->
  forall d lo m, (lo + d <= n)%nat -> square m ->
    square (for_range lo (lo + d) step m) /\
    forall a b, get2 F (for_range lo (lo + d) step m) a b =
                if (Nat.leb lo a && Nat.ltb a (lo + d))%bool then get2 F (step a m) a b else get2 F m a b.
Proof.
  intros Hsq Hoth Hrow. induction d as [|d IH]; intros lo m Hle W.
  - unfold for_range. replace (lo + 0 - lo)%nat with 0%nat by lia. cbn [seq fold_left]. split; [exact W|].
    intros a b. destruct (Nat.leb_spec lo a); destruct (Nat.ltb_spec a (lo + 0)); cbn [andb]; try reflexivity; lia.
  - assert (E : for_range lo (lo + S d) step m = for_range (S lo) (S lo + d) step (step lo m)).
    { unfold for_range. replace (lo + S d - lo)%nat with (S d) by lia. replace (S lo + d - S lo)%nat with d by lia. reflexivity. }
    rewrite E. assert (Hlo : (lo < n)%nat) by lia.
    destruct (IH (S lo) (step lo m) ltac:(lia) (Hsq lo m W Hlo)) as [W' G]. split; [exact W'|].
    intros a b. rewrite G.
    destruct (Nat.leb_spec (S lo) a); destruct (Nat.ltb_spec a (S lo + d)); cbn [andb].
    + destruct (Nat.leb_spec lo a); [|lia]. destruct (Nat.ltb_spec a (lo + S d)); [|lia]. cbn [andb].
      apply Hrow; try assumption; [apply Hsq; assumption|lia|]. intros b'. apply Hoth; try assumption; lia.
    + destruct (Nat.ltb_spec a (lo + S d)); [lia|]. rewrite Bool.andb_false_r. apply Hoth; try assumption; lia.
    + destruct (Nat.eq_dec a lo) as [->|Hne].
      * destruct (Nat.leb_spec lo lo); [|lia]. destruct (Nat.ltb_spec lo (lo + S d)); [|lia]. reflexivity.
      * destruct (Nat.leb_spec lo a); [lia|]. cbn [andb]. apply Hoth; try assumption; lia.
    + destruct (Nat.leb_spec lo a); destruct (Nat.ltb_spec a (lo + S d)); cbn [andb]; try lia; apply Hoth; try assumption; lia.
Qed.


Section SwapStep.
Variables (k : nat) (mu mu' : Qc).
Hypothesis Hk : (k + 1 < n)%nat.

Definition swap_step (i : nat) (m : list (list Qc)) : list (list Qc) :=
  let t := get2 F m i (k + 1) in
  let m' := set2 m i (k + 1) (fsub F (get2 F m i k) (fmul F mu t)) in
  set2 m' i k (fadd F t (fmul F mu' (get2 F m' i (k + 1)))).

Lemma swap_step_square i m : square m -> (i < n)%nat -> square (swap_step i m).
Proof. intros W Hi. unfold swap_step. apply square_set2; [apply square_set2; assumption|exact Hi]. Qed.

Lemma swap_step_other i m a b : square m -> (i < n)%nat -> a <> i -> get2 F (swap_step i m) a b = get2 F m a b.
Proof.
  intros W Hi Hne. unfold swap_step.
  rewrite get2_set2 by (try apply square_set2; try assumption; lia).
  destruct (Nat.eqb_spec a i); [congruence|]. cbn [andb].
  rewrite get2_set2 by (try assumption; lia).
  destruct (Nat.eqb_spec a i); [congruence|]. reflexivity.
Qed.

Lemma swap_step_row i m b : square m -> (i < n)%nat ->
  get2 F (swap_step i m) i b =
  if Nat.eqb b k then get2 F m i (k + 1) +q mu' *q (get2 F m i k -q mu *q get2 F m i (k + 1))
  else if Nat.eqb b (k + 1) then get2 F m i k -q mu *q get2 F m i (k + 1)
  else get2 F m i b.
Proof.
  intros W Hi. unfold swap_step.
  rewrite get2_set2 by (try apply square_set2; try assumption; lia). rewrite Nat.eqb_refl. cbn [andb].
  rewrite !get2_set2 by (try assumption; lia). rewrite !Nat.eqb_refl. cbn [andb fadd fsub fmul F arithQ].
  destruct (Nat.eqb_spec b k) as [->|Hb]; [reflexivity|].
  destruct (Nat.eqb_spec b (k + 1)); reflexivity.
Qed.

Lemma swap_step_dep i m m2 b : square m -> square m2 -> (i < n)%nat ->
  (forall b', get2 F m i b' = get2 F m2 i b') ->
  get2 F (swap_step i m) i b = get2 F (swap_step i m2) i b.
Proof. intros W W2 Hi E. rewrite !swap_step_row by assumption. rewrite !E. reflexivity. Qed.
End SwapStep.

Lemma nth_set_nth_b (v : list Qc) i x a : (i < length v)%nat ->
  nth a (set_nth v i x) q0 = if Nat.eqb a i then x else nth a v q0.
Proof.
  intros Hi. rewrite nth_set_nth. destruct (Nat.eqb_spec i a) as [->|Hne].
  - rewrite Nat.eqb_refl. destruct (Nat.ltb_spec a (length v)); [reflexivity|lia].
  - destruct (Nat.eqb_spec a i); [congruence|reflexivity].
Qed.

(** SWAP in exact arithmetic, entry by entry *)
Lemma swap_entries s k s' : wfstate s -> (k + 1 <= l_kmax s)%nat -> swap F n s k = Done s' ->
  let mu := Mu s (k + 1) k in
  let B := Nb s (k + 1) +q mu *q mu *q Nb s k in
  let mu' := Qcdiv (mu *q Nb s k) B in
  l_kmax s' = l_kmax s /\ l_k s' = l_k s /\ wfstate s' /\
  (forall a p, Bv s' a p = Bv s (sw k a) p) /\
  (forall a p, Sv s' a p =
     if Nat.eqb a k then Sv s (k + 1) p +q mu *q Sv s k p
     else if Nat.eqb a (k + 1) then Qcopp mu' *q Sv s (k + 1) p +q Qcdiv (Nb s (k + 1)) B *q Sv s k p
     else Sv s a p) /\
  (forall a, Nb s' a = if Nat.eqb a k then B else if Nat.eqb a (k + 1) then Qcdiv (Nb s (k + 1) *q Nb s k) B else Nb s a) /\
  (forall a b, Mu s' a b =
     if (Nat.leb (k + 2) a && Nat.leb a (l_kmax s))%bool then
       (if Nat.eqb b k then Mu s a (k + 1) +q mu' *q (Mu s a k -q mu *q Mu s a (k + 1))
        else if Nat.eqb b (k + 1) then Mu s a k -q mu *q Mu s a (k + 1)
        else Mu s a b)
     else if (Nat.eqb a (k + 1) && Nat.eqb b k)%bool then mu'
     else if (Nat.eqb a k && Nat.eqb b k)%bool then q0
     else Mu s (sw k a) b).
Proof.
  intros (WB & WS & WM & Wb & Wk & WH) Hk R mu B mu'.
  assert (Hk1 : (k + 1 < n)%nat) by lia. assert (Hk0 : (k < n)%nat) by lia.
  unfold swap in R.
  pose proof (square_row _ k WS Hk0) as Sk. pose proof (square_row _ (k + 1)%nat WS Hk1) as Sk1.
  unfold row in R.
  rewrite upd_prefix_ok in R by (rewrite ?nth_set_nth_eq by (rewrite (proj1 WS); lia); lia). cbn [bind] in R.
  rewrite upd_prefix_ok in R.
  2:{ rewrite nth_set_nth_neq by lia. rewrite nth_set_nth_neq by lia. lia. }
  2:{ lia. }
  cbn [bind] in R. inversion R; subst s'; clear R. cbn [l_kmax l_k].
  split; [reflexivity|]. split; [reflexivity|].
  (* the mu matrix before the loop *)
  set (mu0 := swap_nth [] (l_mu s) k (k + 1)).
  assert (W0 : square mu0) by (apply square_swap; assumption).
  assert (G0 : forall a b, get2 F mu0 a b = Mu s (sw k a) b).
  { intros a b. unfold get2, mu0, Mu, get2. rewrite (nth_swap_rows (l_mu s) k a (proj1 WM) Hk1). reflexivity. }
  assert (Emu : get2 F mu0 k k = mu).
  { rewrite G0. unfold sw. rewrite Nat.eqb_refl. reflexivity. }
  rewrite Emu.
  fold (Nb s k) (Nb s (k + 1)). fold B. fold mu'.
  set (mu1 := set2 mu0 k k (f0 F)).
  assert (W1 : square mu1) by (apply square_set2; assumption).
  set (mu2 := set2 mu1 (k + 1) k mu').
  assert (W2 : square mu2) by (apply square_set2; assumption).
  assert (G2 : forall a b, get2 F mu2 a b =
     if (Nat.eqb a (k + 1) && Nat.eqb b k)%bool then mu'
     else if (Nat.eqb a k && Nat.eqb b k)%bool then q0 else Mu s (sw k a) b).
  { intros a b. unfold mu2, mu1. rewrite !get2_set2 by (try assumption; lia).
    destruct (Nat.eqb a (k + 1) && Nat.eqb b k)%bool; [reflexivity|].
    destruct (Nat.eqb a k && Nat.eqb b k)%bool; [reflexivity|]. apply G0. }
  replace (l_kmax s + 1)%nat with (k + 2 + (l_kmax s - k - 1))%nat by lia.
  destruct (for_range_rowwise (swap_step k mu mu')
              (swap_step_square k mu mu') (swap_step_other k mu mu' Hk1)
              (swap_step_dep k mu mu' Hk1)
              (l_kmax s - k - 1)%nat (k + 2)%nat mu2 ltac:(lia) W2) as [W3 G3].
  change (fun (i : nat) (mu3 : list (list Qc)) =>
            let t := get2 F mu3 i (k + 1) in
            let mu'0 := set2 mu3 i (k + 1) (fsub F (get2 F mu3 i k) (fmul F mu t)) in
            set2 mu'0 i k (fadd F t (fmul F mu' (get2 F mu'0 i (k + 1))))) with (swap_step k mu mu').
  set (mu3 := for_range (k + 2) (k + 2 + (l_kmax s - k - 1)) (swap_step k mu mu') mu2) in *.
  split; [|split; [|split; [|split]]].
  - unfold wfstate; cbn [l_basis l_bstar l_mu l_b l_kmax l_h].
    split; [apply square_swap; assumption|].
    split; [|split; [exact W3|split; [rewrite !length_set_nth; exact Wb|split; [exact Wk|]]]].
    + apply square_set; [apply square_set; [apply square_set; [exact WS|exact Sk1]|]|]; rewrite length_pre_upd.
      * rewrite nth_set_nth_eq by (rewrite (proj1 WS); lia). exact Sk1.
      * rewrite nth_set_nth_neq by lia. rewrite nth_set_nth_neq by lia. exact Sk1.
    + destruct WH as [LH RH]. split; [rewrite length_swap_nth; exact LH|apply Forall_swap_nth; [exact RH|lia|lia]].
  - intros a p. unfold Bv; cbn [l_basis]. rewrite (nth_swap_rows (l_basis s) k a (proj1 WB) Hk1). reflexivity.
  - intros a p. unfold Sv; cbn [l_bstar].
    pose proof (proj1 WS) as LS.
    rewrite (nth_set_nth _ (k + 1)%nat a). rewrite !length_set_nth, LS.
    destruct (Nat.eqb_spec (k + 1) a) as [<-|Hne1].
    + destruct (Nat.ltb_spec (k + 1) n); [|lia].
      destruct (Nat.eqb_spec (k + 1) k); [lia|]. rewrite Nat.eqb_refl.
      rewrite nth_set_nth_neq by lia. rewrite nth_set_nth_neq by lia.
      destruct (Nat.lt_ge_cases p n) as [Hp|Hp].
      * rewrite nth_pre_upd_in by lia. cbn [fadd fmul fopp fdiv F arithQ]. reflexivity.
      * rewrite nth_pre_upd_out by lia. rewrite !nth_overflow by lia. ring.
    + rewrite (nth_set_nth _ k a). rewrite !length_set_nth, LS.
      destruct (Nat.eqb_spec k a) as [<-|Hne2].
      * rewrite Nat.eqb_refl. destruct (Nat.ltb_spec k n); [|lia].
        rewrite nth_set_nth_eq by lia.
        destruct (Nat.lt_ge_cases p n) as [Hp|Hp].
        -- rewrite nth_pre_upd_in by lia. cbn [fadd fmul F arithQ]. reflexivity.
        -- rewrite nth_pre_upd_out by lia. rewrite !nth_overflow by lia. ring.
      * destruct (Nat.eqb_spec a k); [congruence|]. destruct (Nat.eqb_spec a (k + 1)); [congruence|].
        rewrite nth_set_nth_neq by lia. reflexivity.
  - intros a. unfold Nb, get1; cbn [l_b f0 F arithQ].
    rewrite nth_set_nth_b by (rewrite length_set_nth; lia).
    destruct (Nat.eqb_spec a k); [reflexivity|].
    rewrite nth_set_nth_b by lia. cbn [fdiv fmul F arithQ].
    destruct (Nat.eqb_spec a (k + 1)); reflexivity.
  - intros a b. unfold Mu at 1; cbn [l_mu]. rewrite G3.
    replace (k + 2 + (l_kmax s - k - 1))%nat with (S (l_kmax s)) by lia.
    change (Nat.ltb a (S (l_kmax s))) with (Nat.leb a (l_kmax s)).
    destruct (Nat.leb_spec (k + 2) a) as [Ha|Ha]; cbn [andb]; [|apply G2].
    destruct (Nat.leb_spec a (l_kmax s)) as [Ha'|Ha']; [|apply G2].
    rewrite (swap_step_row k mu mu' Hk1 a mu2 b W2 ltac:(lia)).
    assert (E : forall b', get2 F mu2 a b' = Mu s a b').
    { intros b'. rewrite G2. destruct (Nat.eqb_spec a (k + 1)); [lia|]. destruct (Nat.eqb_spec a k); [lia|]. cbn [andb].
      unfold sw. destruct (Nat.eqb_spec a k); [lia|]. destruct (Nat.eqb_spec a (k + 1)); [lia|]. reflexivity. }
    rewrite !E. reflexivity.
Qed.


Lemma qsum_succ k f : qsum (k + 1) f = qsum k f +q f k.
Proof. replace (k + 1)%nat with (S k) by lia. reflexivity. Qed.

Lemma qsum_two k f g : forall i, (k + 1 < i)%nat ->
  (forall j, (j < i)%nat -> j <> k -> j <> (k + 1)%nat -> f j = g j) ->
  f k +q f (k + 1)%nat = g k +q g (k + 1)%nat -> qsum i f = qsum i g.
Proof.
  induction i as [|i IH]; intros Hi E E2; [lia|]. cbn [qsum].
  destruct (Nat.eq_dec i (k + 1)) as [->|Hne].
  - replace (k + 1)%nat with (S k) by lia. cbn [qsum]. replace (S k) with (k + 1)%nat by lia.
    rewrite (qsum_ext k f g) by (intros j Hj; apply E; lia).
    transitivity (qsum k g +q (f k +q f (k + 1)%nat)); [ring|]. rewrite E2. ring.
  - rewrite IH by (try lia; try assumption; intros; apply E; lia). rewrite (E i) by lia. reflexivity.
Qed.

Lemma dot_comb1 (x y z : nat -> Qc) a1 a2 : forall m,
  qsum m (fun p => (a1 *q x p +q a2 *q y p) *q z p) = a1 *q qsum m (fun p => x p *q z p) +q a2 *q qsum m (fun p => y p *q z p).
Proof. induction m as [|m IH]; cbn [qsum]; [ring|]. rewrite IH. ring. Qed.

Lemma dot_comb (x y : nat -> Qc) a1 a2 b1 b2 : forall m,
  qsum m (fun p => (a1 *q x p +q a2 *q y p) *q (b1 *q x p +q b2 *q y p))
  = a1 *q b1 *q qsum m (fun p => x p *q x p) +q (a1 *q b2 +q a2 *q b1) *q qsum m (fun p => x p *q y p)
    +q a2 *q b2 *q qsum m (fun p => y p *q y p).
Proof. induction m as [|m IH]; cbn [qsum]; [ring|]. rewrite IH. ring. Qed.

Lemma qsum_comm (x y : nat -> Qc) m : qsum m (fun p => x p *q y p) = qsum m (fun p => y p *q x p).
Proof. apply qsum_ext. intros. ring. Qed.

(** [P] SWAP keeps the Gram-Schmidt relation (exact arithmetic), for k + 1 <= kmax, provided the new
    |b*_k|^2 = B_{k+1} + mu^2 B_k is not zero (true for a non-singular basis). *)
Theorem swap_preserves_gs s k s' :
  wfstate s -> gs_rel s -> (k + 1 <= l_kmax s)%nat ->
  Nb s (k + 1) +q Mu s (k + 1) k *q Mu s (k + 1) k *q Nb s k <> q0 ->
  swap F n s k = Done s' -> wfstate s' /\ gs_rel s'.
Proof.
  intros W G Hk HB R.
  destruct (swap_entries s k s' W Hk R) as (Ek & _ & W' & EB & ES & EN & EM).
  set (mu := Mu s (k + 1) k) in *. set (N1 := Nb s (k + 1)) in *. set (N0 := Nb s k) in *.
  set (B := N1 +q mu *q mu *q N0) in *. set (mu' := Qcdiv (mu *q N0) B) in *. set (cc := Qcdiv N1 B) in *.
  split; [exact W'|].
  assert (Hkn : (k + 1 < n)%nat) by (destruct W as (_ & _ & _ & _ & ? & _); lia).
  set (x := fun p => Sv s (k + 1) p). set (y := fun p => Sv s k p).
  assert (Dxx : qsum n (fun p => x p *q x p) = N1) by (symmetry; apply (gs3 s G); lia).
  assert (Dyy : qsum n (fun p => y p *q y p) = N0) by (symmetry; apply (gs3 s G); lia).
  assert (Dxy : qsum n (fun p => x p *q y p) = q0) by (apply (gs2 s G); lia).
  assert (F1 : cc +q mu' *q mu = q1) by (unfold cc, mu', B in *; field; exact HB).
  assert (F2 : Qcopp mu' *q N1 +q mu *q cc *q N0 = q0) by (unfold cc, mu', B in *; field; exact HB).
  assert (F3 : mu' *q mu' *q N1 +q cc *q cc *q N0 = Qcdiv (N1 *q N0) B) by (unfold cc, mu', B in *; field; exact HB).
  assert (SK : forall p, Sv s' k p = q1 *q x p +q mu *q y p).
  { intros p. rewrite ES, Nat.eqb_refl. unfold x, y. ring. }
  assert (SK1 : forall p, Sv s' (k + 1) p = Qcopp mu' *q x p +q cc *q y p).
  { intros p. rewrite ES. destruct (Nat.eqb_spec (k + 1) k); [lia|]. rewrite Nat.eqb_refl. reflexivity. }
  assert (SO : forall a p, a <> k -> a <> (k + 1)%nat -> Sv s' a p = Sv s a p).
  { intros a p H1 H2. rewrite ES. destruct (Nat.eqb_spec a k); [congruence|]. destruct (Nat.eqb_spec a (k + 1)); [congruence|]. reflexivity. }
  assert (swO : forall a, a <> k -> a <> (k + 1)%nat -> sw k a = a).
  { intros a H1 H2. unfold sw. destruct (Nat.eqb_spec a k); [congruence|]. destruct (Nat.eqb_spec a (k + 1)); [congruence|]. reflexivity. }
  assert (MO : forall a b, (a < k + 2)%nat -> b <> k -> Mu s' a b = Mu s (sw k a) b).
  { intros a b Ha Hb. rewrite EM. destruct (Nat.leb_spec (k + 2) a); [lia|]. cbn [andb].
    destruct (Nat.eqb_spec b k); [congruence|]. rewrite !Bool.andb_false_r. reflexivity. }
  (* dot products of an old b*_j, j outside {k, k+1}, with x and y *)
  assert (Dxz : forall j, (j <= l_kmax s)%nat -> j <> (k + 1)%nat -> qsum n (fun p => x p *q Sv s j p) = q0)
    by (intros; apply (gs2 s G); lia).
  assert (Dyz : forall j, (j <= l_kmax s)%nat -> j <> k -> qsum n (fun p => y p *q Sv s j p) = q0)
    by (intros; apply (gs2 s G); lia).
  constructor; rewrite Ek.
  - (* G1 *)
    intros a p Ha. rewrite EB.
    destruct (Nat.lt_ge_cases a k) as [Hak|Hak].
    + rewrite swO by lia. rewrite SO by lia.
      rewrite (qsum_ext a _ (fun j => Mu s a j *q Sv s j p)).
      2:{ intros j Hj. rewrite MO by lia. rewrite swO by lia. rewrite SO by lia. reflexivity. }
      apply (gs1 s G). exact Ha.
    + destruct (Nat.eq_dec a k) as [->|Hne].
      * replace (sw k k) with (k + 1)%nat by (unfold sw; rewrite Nat.eqb_refl; reflexivity).
        rewrite (gs1 s G (k + 1)%nat p Hk). rewrite qsum_succ.
        rewrite SK.
        rewrite (qsum_ext k (fun j => Mu s' k j *q Sv s' j p) (fun j => Mu s (k + 1) j *q Sv s j p)).
        2:{ intros j Hj. rewrite MO by lia. rewrite SO by lia.
            replace (sw k k) with (k + 1)%nat by (unfold sw; rewrite Nat.eqb_refl; reflexivity). reflexivity. }
        unfold x, y, mu. ring.
      * destruct (Nat.eq_dec a (k + 1)) as [->|Hne1].
        -- assert (Esw : sw k (k + 1) = k).
           { unfold sw. destruct (Nat.eqb_spec (k + 1) k); [lia|]. rewrite Nat.eqb_refl. reflexivity. }
           rewrite Esw. rewrite (gs1 s G k p ltac:(lia)).
           rewrite qsum_succ.
           rewrite (qsum_ext k (fun j => Mu s' (k + 1) j *q Sv s' j p) (fun j => Mu s k j *q Sv s j p)).
           2:{ intros j Hj. rewrite MO by lia. rewrite Esw. rewrite SO by lia. reflexivity. }
           assert (EMk : Mu s' (k + 1) k = mu').
           { rewrite EM. destruct (Nat.leb_spec (k + 2) (k + 1)); [lia|]. cbn [andb]. rewrite !Nat.eqb_refl. reflexivity. }
           rewrite EMk, SK1, SK.
           transitivity (y p *q (cc +q mu' *q mu) +q qsum k (fun j => Mu s k j *q Sv s j p)); [rewrite F1; unfold y; ring|ring].
        -- (* rows above k+1 *)
           assert (Ha2 : (k + 2 <= a)%nat) by lia.
           rewrite swO by lia. rewrite SO by lia. rewrite (gs1 s G a p Ha). f_equal.
           apply (qsum_two k); [lia| |].
           ++ intros j Hj H1 H2. rewrite SO by lia. rewrite EM.
              destruct (Nat.leb_spec (k + 2) a); [|lia]. destruct (Nat.leb_spec a (l_kmax s)); [|lia]. cbn [andb].
              destruct (Nat.eqb_spec j k); [congruence|]. destruct (Nat.eqb_spec j (k + 1)); [congruence|]. reflexivity.
           ++ rewrite !EM.
              destruct (Nat.leb_spec (k + 2) a); [|lia]. destruct (Nat.leb_spec a (l_kmax s)); [|lia]. cbn [andb].
              rewrite Nat.eqb_refl. destruct (Nat.eqb_spec (k + 1) k); [lia|]. rewrite Nat.eqb_refl.
              rewrite SK, SK1. fold (x p) (y p).
              set (t := Mu s a (k + 1)). set (m := Mu s a k).
              transitivity (m *q y p *q (cc +q mu' *q mu) +q t *q x p +q mu *q t *q y p *q (q1 -q (cc +q mu' *q mu)));
                [rewrite F1; ring|ring].
  - (* G2 *)
    intros i j Hi Hj Hne.
    destruct (Nat.eq_dec i k) as [->|Hik]; [|destruct (Nat.eq_dec i (k + 1)) as [->|Hik1]].
    + destruct (Nat.eq_dec j (k + 1)) as [->|Hj1].
      * rewrite (qsum_ext n _ (fun p => (q1 *q x p +q mu *q y p) *q (Qcopp mu' *q x p +q cc *q y p)))
          by (intros; rewrite SK, SK1; reflexivity).
        rewrite dot_comb, Dxx, Dyy, Dxy. transitivity (Qcopp mu' *q N1 +q mu *q cc *q N0); [ring|exact F2].
      * rewrite (qsum_ext n _ (fun p => (q1 *q x p +q mu *q y p) *q Sv s j p))
          by (intros; rewrite SK, SO by lia; reflexivity).
        rewrite dot_comb1, Dxz, Dyz by (try assumption; lia). ring.
    + destruct (Nat.eq_dec j k) as [->|Hjk].
      * rewrite (qsum_ext n _ (fun p => (Qcopp mu' *q x p +q cc *q y p) *q (q1 *q x p +q mu *q y p)))
          by (intros; rewrite SK, SK1; reflexivity).
        rewrite dot_comb, Dxx, Dyy, Dxy. transitivity (Qcopp mu' *q N1 +q mu *q cc *q N0); [ring|exact F2].
      * rewrite (qsum_ext n _ (fun p => (Qcopp mu' *q x p +q cc *q y p) *q Sv s j p))
          by (intros; rewrite SK1, SO by lia; reflexivity).
        rewrite dot_comb1, Dxz, Dyz by (try assumption; lia). ring.
    + destruct (Nat.eq_dec j k) as [->|Hjk]; [|destruct (Nat.eq_dec j (k + 1)) as [->|Hjk1]].
      * rewrite qsum_comm. rewrite (qsum_ext n _ (fun p => (q1 *q x p +q mu *q y p) *q Sv s i p))
          by (intros; rewrite SK, SO by lia; reflexivity).
        rewrite dot_comb1, Dxz, Dyz by (try assumption; lia). ring.
      * rewrite qsum_comm. rewrite (qsum_ext n _ (fun p => (Qcopp mu' *q x p +q cc *q y p) *q Sv s i p))
          by (intros; rewrite SK1, SO by lia; reflexivity).
        rewrite dot_comb1, Dxz, Dyz by (try assumption; lia). ring.
      * rewrite (qsum_ext n _ (fun p => Sv s i p *q Sv s j p)) by (intros; rewrite !SO by lia; reflexivity).
        apply (gs2 s G); assumption.
  - (* G3 *)
    intros i Hi. rewrite EN.
    destruct (Nat.eqb_spec i k) as [->|Hik]; [|destruct (Nat.eqb_spec i (k + 1)) as [->|Hik1]].
    + rewrite (qsum_ext n _ (fun p => (q1 *q x p +q mu *q y p) *q (q1 *q x p +q mu *q y p))) by (intros; rewrite SK; reflexivity).
      rewrite dot_comb, Dxx, Dyy, Dxy. unfold B. ring.
    + rewrite (qsum_ext n _ (fun p => (Qcopp mu' *q x p +q cc *q y p) *q (Qcopp mu' *q x p +q cc *q y p))) by (intros; rewrite SK1; reflexivity).
      rewrite dot_comb, Dxx, Dyy, Dxy. rewrite <- F3. ring.
    + rewrite (qsum_ext n _ (fun p => Sv s i p *q Sv s i p)) by (intros; rewrite !SO by lia; reflexivity).
      apply (gs3 s G); assumption.
Qed.

End GS.
