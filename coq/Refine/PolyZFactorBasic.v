(** * PolyZFactorBasic: C07, the zero polynomial and the constants (stdlib + lia). *)
From RNT.Model Require Import Base Poly PolyZFactor.
From Coq Require Import Lia.
Open Scope Z_scope.

Lemma factorize_full_zero md r : factorize_full md [] r = Done (0, [], [1], r).
Proof. reflexivity. Qed.

Lemma factorize_zero md r : factorize md [] r = Done (0, [], r).
Proof. reflexivity. Qed.

Lemma cont_pp_const c : c <> 0 -> cont_pp [c] = (c, [1]).
Proof.
  intros Hc. unfold cont_pp. cbn [fold_left last].
  rewrite Z.gcd_0_l.
  assert (Hg : (if c <? 0 then - Z.abs c else Z.abs c) = c).
  { destruct (Z.ltb_spec c 0); lia. }
  rewrite Hg. cbn [map]. rewrite Z.div_same by exact Hc. reflexivity.
Qed.

Lemma factorize_full_const md c r : c <> 0 -> factorize_full md [c] r = Done (c, [], [1], r).
Proof.
  intros Hc. unfold factorize_full. rewrite (cont_pp_const c Hc). reflexivity.
Qed.

Lemma factorize_const md c r : c <> 0 -> factorize md [c] r = Done (c, [], r).
Proof.
  intros Hc. unfold factorize. rewrite (factorize_full_const md c r Hc). reflexivity.
Qed.

(** ** the exponent loop terminates on the supplied fuel and returns the least power above the bound *)
Lemma exp_loop_inv p bound : 2 <= p -> forall fuel pe e,
  0 <= e -> pe = p ^ e -> Z.log2 bound + 2 - e <= Z.of_nat fuel ->
  (e = 0 \/ p ^ (e - 1) <= bound) ->
  exists e', exp_loop fuel pe p bound e = Done (p ^ e', e')
             /\ e <= e' /\ bound < p ^ e' /\ (e' = 0 \/ p ^ (e' - 1) <= bound).
Proof.
  intros Hp. induction fuel as [|fuel IH]; intros pe e He Hpe Hfuel Hmin.
  - exfalso. cbn in Hfuel.
    pose proof (Z.log2_nonneg bound) as Hl.
    destruct Hmin as [->|Hmin]; [lia|].
    assert (Hb : 0 < bound).
    { assert (0 < p ^ (e - 1)) by (apply Z.pow_pos_nonneg; lia). lia. }
    pose proof (Z.log2_spec bound Hb) as [_ Hu].
    assert (H2 : 2 ^ (Z.log2 bound + 1) <= p ^ (e - 1)).
    { apply Z.le_trans with (2 ^ (e - 1)).
      - apply Z.pow_le_mono_r; lia.
      - apply Z.pow_le_mono_l; lia. }
    replace (Z.succ (Z.log2 bound)) with (Z.log2 bound + 1) in Hu by lia. lia.
  - cbn [exp_loop]. destruct (Z.leb_spec pe bound) as [Hle|Hgt].
    + destruct (IH (pe * p) (e + 1)) as [e' [H1 [H2 [H3 H4]]]].
      * lia.
      * rewrite Z.pow_add_r by lia. rewrite Z.pow_1_r. now rewrite Hpe.
      * lia.
      * right. replace (e + 1 - 1) with e by lia. now rewrite <- Hpe.
      * exists e'. repeat split; try assumption. lia.
    + exists e. subst pe. repeat split; try assumption; lia.
Qed.

Lemma exp_loop_spec p bound : 2 <= p ->
  exists e, exp_loop (exp_fuel bound) 1 p bound 0 = Done (p ^ e, e)
            /\ 0 <= e /\ bound < p ^ e /\ (e = 0 \/ p ^ (e - 1) <= bound).
Proof.
  intros Hp. apply (exp_loop_inv p bound Hp); try lia; try reflexivity.
  unfold exp_fuel. pose proof (Z.log2_nonneg bound). lia.
Qed.

(** ** the coefficient bound: no overflow for a non-constant polynomial (of fewer than 2^32 coefficients) *)
Lemma u64_norm_small md x : 0 <= x < two64 -> u64_norm md x = Done x.
Proof.
  intros H. unfold u64_norm.
  destruct (Z.leb_spec 0 x); destruct (Z.ltb_spec x two64); cbn; try reflexivity; lia.
Qed.

Lemma coef_bound_done md a : (2 <= length a)%nat -> Z.of_nat (length a) <= 4294967296 ->
  coef_bound md a =
  Done (abs_sum a (Z.abs (lead opsZ a)) * 2 ^ (Z.of_nat (length a) - 2) * 2 * Z.abs (lead opsZ a)).
Proof.
  intros H2 Hs. unfold coef_bound.
  assert (Hd : pdeg a = Z.of_nat (length a) - 1).
  { unfold pdeg. destruct a; [cbn in H2; lia | reflexivity]. }
  rewrite Hd.
  rewrite u64_norm_small by (unfold two64; lia). cbn [bind].
  rewrite u64_norm_small by (unfold two64; lia). cbn [bind].
  destruct (Z.leb_spec 4294967296 (Z.of_nat (length a) - 1 - 1)); [lia|].
  replace (Z.of_nat (length a) - 1 - 1) with (Z.of_nat (length a) - 2) by lia. reflexivity.
Qed.
