(** * W5DetBound: the Leibniz bound |det A| <= n! M^n for a matrix with entries bounded by M, over any
    numeric domain, and its consequence for resultants (Sylvester determinants). MathComp. *)
From mathcomp Require Import all_ssreflect all_fingroup ssralg ssrnum poly matrix mxpoly.
Set Implicit Arguments.
Unset Strict Implicit.
Unset Printing Implicit Defensive.
Import Order.TTheory GRing.Theory Num.Theory.
Local Open Scope ring_scope.

Lemma fact_le_expn n : (n`! <= n ^ n)%N.
Proof.
elim: n => // n IH; rewrite factS expnS leq_mul2l /=.
by apply: leq_trans IH _; case: n => // n; rewrite leq_exp2r.
Qed.

Section DetBound.
Variable R : numDomainType.

Lemma det_norm_le n (A : 'M[R]_n) (M : R) : (forall i j, `|A i j| <= M) ->
  `|\det A| <= (n`!)%:R * M ^+ n.
Proof.
move=> hA; rewrite /determinant.
apply: le_trans (ler_norm_sum _ _ _) _.
have -> : (n`!)%:R * M ^+ n = \sum_(s : 'S_n) M ^+ n.
  by rewrite sumr_const card_Sn mulr_natl.
apply: ler_sum => s _.
rewrite normrM normrX normrN1 expr1n mul1r normr_prod.
have -> : M ^+ n = \prod_(i < n) M by rewrite prodr_const card_ord.
by apply: ler_prod => i _; rewrite normr_ge0 hA.
Qed.

Lemma resultant_norm_le (p q : {poly R}) (M : R) :
  (forall i, `|p`_i| <= M) -> (forall i, `|q`_i| <= M) ->
  `|resultant p q| <= (((size q).-1 + (size p).-1)`!)%:R * M ^+ ((size q).-1 + (size p).-1).
Proof.
move=> hp hq; have M0 : 0 <= M := le_trans (normr_ge0 _) (hp 0%N).
apply: det_norm_le => i j; rewrite Sylvester_mxE.
by case: split => k /=; case: (k <= j)%N; rewrite ?mulr1n ?mulr0n ?normr0.
Qed.

End DetBound.
