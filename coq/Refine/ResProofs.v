(** Proofs about the model of src/resultant.rs / src/discriminant.rs (stdlib + lia style):
    special cases, fuel sufficiency, "exactness flag true => no panic". *)
From RNT.Model Require Import Base Poly Resultant.
From RNT.Refine Require Import ResLists.
From Coq Require Import Lia QArith Qcanon.
Open Scope Z_scope.

(** Canonical coefficient lists (what [Polynomial::from_raw] produces). *)
Definition canonb (p : list Z) : bool :=
  match p with [] => true | _ => negb (last p 0 =? 0) end.
Definition qcanonb (p : list Qc) : bool :=
  match p with [] => true | _ => negb (qc_is0 (last p (Q2Qc 0))) end.
(** [Vec] lengths fit a [usize]. *)
Definition len_ok {A} (p : list A) : bool := Z.of_nat (length p) <=? two64.

Lemma canonb_spec p : canonb p = true <-> (p = [] \/ last p 0 <> 0).
Proof.
  destruct p as [|x t]; [cbn; intuition|].
  unfold canonb. rewrite Bool.negb_true_iff, Z.eqb_neq. intuition congruence.
Qed.

Lemma from_raw_canon l : canonb (from_raw opsZ l) = true.
Proof.
  apply canonb_spec. unfold from_raw.
  destruct (strip opsZ l) eqn:E; [left; reflexivity|right].
  rewrite <- E. pose proof (strip_last_nz opsZ l 0) as H. rewrite E in H.
  specialize (H ltac:(congruence)). rewrite <- E in H.
  unfold is0 in H. cbn [reqb opsZ r0] in H. apply Z.eqb_neq. exact H.
Qed.

(** ** Zero arguments *)
Lemma resultant_zero_l m g : resultant m [] g = (true, Done 0).
Proof. reflexivity. Qed.

Lemma resultant_zero_r m f : resultant m f [] = (true, Done 0).
Proof. destruct f; reflexivity. Qed.

Lemma resultant_gcd_zero_l g : resultant_gcd [] g = (true, Done g).
Proof. reflexivity. Qed.

Lemma discriminant_zero m : discriminant m [] = (true, Panic PAssert).
Proof. reflexivity. Qed.

Lemma loop_fuel_S {A} (g : list A) : loop_fuel g = S (2 * length g + 2).
Proof. unfold loop_fuel. lia. Qed.

Lemma resultant_rational_zero_l m g : resultant_rational m [] g = Done (Q2Qc 0).
Proof. unfold resultant_rational. rewrite loop_fuel_S. reflexivity. Qed.

Lemma resultant_rational_zero_r m f : resultant_rational m f [] = Done (Q2Qc 0).
Proof. destruct f; reflexivity. Qed.

(** ** Unfolding equations *)
Definition sflip (f g : list Z) (s : Z) : Z := if zodd (pdeg f) && zodd (pdeg g) then - s else s.

Lemma smart_loop_S m k f g a b s ex :
  smart_loop m (S k) f g a b s ex =
  match g with
  | [] => (ex, Done 0)
  | _ => if pdeg g =? 0 then smart_finish m f g b (sflip f g s) ex
         else if pdeg f <? pdeg g then smart_loop m k g f a b (sflip f g s) ex
         else fbind (sub_step f g a b ex)
                    (fun ex1 '(f1, g1, a1, b1) => smart_loop m k f1 g1 a1 b1 (sflip f g s) ex1)
  end.
Proof. destruct g; reflexivity. Qed.

Lemma smart_loop_S' m k f g a b s ex : g <> [] ->
  smart_loop m (S k) f g a b s ex =
  if pdeg g =? 0 then smart_finish m f g b (sflip f g s) ex
  else if pdeg f <? pdeg g then smart_loop m k g f a b (sflip f g s) ex
  else fbind (sub_step f g a b ex)
             (fun ex1 '(f1, g1, a1, b1) => smart_loop m k f1 g1 a1 b1 (sflip f g s) ex1).
Proof. destruct g; [congruence|reflexivity]. Qed.

Lemma gcd_loop_S' k f g a b ex : g <> [] ->
  gcd_loop (S k) f g a b ex =
  if pdeg g =? 0 then (ex, Done (from_mono opsZ 1))
  else if pdeg f <? pdeg g then gcd_loop k g f a b ex
  else fbind (sub_step f g a b ex)
             (fun ex1 '(f1, g1, a1, b1) => gcd_loop k f1 g1 a1 b1 ex1).
Proof. destruct g; [congruence|reflexivity]. Qed.

Lemma gcd_loop_S k f g a b ex :
  gcd_loop (S k) f g a b ex =
  match g with
  | [] => (ex, Done f)
  | _ => if pdeg g =? 0 then (ex, Done (from_mono opsZ 1))
         else if pdeg f <? pdeg g then gcd_loop k g f a b ex
         else fbind (sub_step f g a b ex)
                    (fun ex1 '(f1, g1, a1, b1) => gcd_loop k f1 g1 a1 b1 ex1)
  end.
Proof. destruct g; reflexivity. Qed.

Lemma pdeg_cons {A} (x : A) t : pdeg (x :: t) = Z.of_nat (length t).
Proof. unfold pdeg. cbn [length]. lia. Qed.

Lemma pdeg_nonneg {A} (p : list A) : 0 <= pdeg p.
Proof. destruct p; [unfold pdeg, usize_max; lia|rewrite pdeg_cons; lia]. Qed.

(** ** Constants *)

(** [P] two constants (non-zero or not, as stored) give 1 without panic in either mode. *)
Lemma resultant_consts m c d : resultant m [c] [d] = (true, Done 1).
Proof. destruct m; reflexivity. Qed.

Lemma u64_norm_ok m x : 0 <= x < two64 -> u64_norm m x = Done x.
Proof.
  intros H. unfold u64_norm.
  destruct (0 <=? x) eqn:E1; [|apply Z.leb_gt in E1; lia].
  destruct (x <? two64) eqn:E2; [reflexivity|apply Z.ltb_ge in E2; lia].
Qed.

Lemma smart_finish_const m f c s :
  (2 <= length f)%nat -> len_ok f = true -> s = 1 \/ s = -1 ->
  smart_finish m f [c] 1 s true = (true, Done (s * c ^ pdeg f)).
Proof.
  intros H2 Hl Hs. unfold len_ok in Hl. apply Z.leb_le in Hl.
  destruct f as [|f0 f']; [cbn in H2; lia|].
  unfold smart_finish. rewrite !pdeg_cons. cbn [length] in *.
  assert (E0 : debug_assert m (Z.of_nat 0 =? 0) = Done tt) by (destruct m; reflexivity).
  rewrite E0. cbn [flift].
  destruct (Z.of_nat (length f') =? 0) eqn:E1; [apply Z.eqb_eq in E1; lia|].
  assert (E2 : debug_assert m (1 <=? Z.of_nat (length f')) = Done tt).
  { destruct m; cbn [debug_assert assert_]; [|reflexivity].
    destruct (1 <=? Z.of_nat (length f')) eqn:E; [reflexivity|apply Z.leb_gt in E; lia]. }
  rewrite E2. cbn [flift].
  rewrite u64_norm_ok by lia. cbn [flift].
  rewrite Z.pow_1_l by lia. cbn [Z.eqb]. rewrite Z.quot_1_r, Z.rem_1_r. cbn [Z.eqb andb].
  destruct Hs as [-> | ->]; cbn [Z.eqb]; f_equal; f_equal; lia.
Qed.

(** [P] polynomial of degree n >= 1 against the stored constant c: c^n. *)
Lemma resultant_const_r m f c :
  (2 <= length f)%nat -> len_ok f = true -> resultant m f [c] = (true, Done (c ^ pdeg f)).
Proof.
  intros H2 Hl. unfold resultant, resultant_smart.
  destruct f as [|f0 f'] eqn:Ef; [cbn in H2; lia|]. rewrite <- Ef in *.
  change (loop_fuel [c]) with 5%nat. rewrite smart_loop_S.
  change (pdeg [c] =? 0) with true. cbv iota.
  assert (Es : sflip f [c] 1 = 1).
  { unfold sflip. change (zodd (pdeg [c])) with false. rewrite Bool.andb_false_r. reflexivity. }
  rewrite Es, smart_finish_const by (auto; lia). f_equal. f_equal. lia.
Qed.

(** [P] the stored constant c against a polynomial of degree n >= 1: c^n (one swap). *)
Lemma resultant_const_l m c g :
  (2 <= length g)%nat -> len_ok g = true -> resultant m [c] g = (true, Done (c ^ pdeg g)).
Proof.
  intros H2 Hl. unfold resultant, resultant_smart.
  destruct g as [|g0 g'] eqn:Eg; [cbn in H2; lia|]. rewrite <- Eg in *.
  assert (Hd : 1 <= pdeg g) by (subst g; rewrite pdeg_cons; cbn [length] in H2; lia).
  unfold loop_fuel. replace (2 * length g + 3)%nat with (S (S (2 * length g + 1))) by lia.
  rewrite smart_loop_S' by (subst g; congruence).
  destruct (pdeg g =? 0) eqn:E0; [apply Z.eqb_eq in E0; lia|].
  change (pdeg [c]) with 0.
  destruct (0 <? pdeg g) eqn:E1; [|apply Z.ltb_ge in E1; lia].
  assert (Es : sflip [c] g 1 = 1) by reflexivity. rewrite Es.
  rewrite smart_loop_S. change (pdeg [c] =? 0) with true. cbv iota.
  assert (Es2 : sflip g [c] 1 = 1).
  { unfold sflip. change (zodd (pdeg [c])) with false. rewrite Bool.andb_false_r. reflexivity. }
  rewrite Es2, smart_finish_const by (auto; lia). f_equal. f_equal. lia.
Qed.

Lemma resultant_rational_consts m c d : resultant_rational m [c] [d] = Done (Q2Qc 1).
Proof. reflexivity. Qed.

Lemma resultant_rational_const_r m f c :
  f <> [] -> resultant_rational m f [c] = Done (qcpow c (pdeg f)).
Proof. intros H. destruct f; [congruence|reflexivity]. Qed.

(** ** Fuel sufficiency *)

Definition mu {A B} (f : list A) (g : list B) : nat :=
  (2 * length g + (if (length f <? length g)%nat then 1 else 0))%nat.

Lemma flift_not_oof {A B} e (x : outcome A) (k : A -> flagged B) :
  x <> OutOfFuel -> (forall a, snd (k a) <> OutOfFuel) -> snd (flift e x k) <> OutOfFuel.
Proof. intros Hx Hk. destruct x; cbn [flift snd]; [apply Hk|congruence|congruence]. Qed.

Lemma debug_assert_not_oof m c : debug_assert m c <> OutOfFuel.
Proof. destruct m, c; cbn; congruence. Qed.

Lemma u64_norm_not_oof m x : u64_norm m x <> OutOfFuel.
Proof. unfold u64_norm. destruct ((0 <=? x) && (x <? two64))%bool; [congruence|destruct m; congruence]. Qed.

Lemma smart_finish_not_oof m f g b s ex : snd (smart_finish m f g b s ex) <> OutOfFuel.
Proof.
  unfold smart_finish. apply flift_not_oof; [apply debug_assert_not_oof|]. intros _.
  destruct (pdeg f =? 0); [cbn; congruence|].
  apply flift_not_oof; [apply debug_assert_not_oof|]. intros _.
  destruct g; [cbn; congruence|].
  apply flift_not_oof; [apply u64_norm_not_oof|]. intros e.
  destruct (b ^ e =? 0); cbn; congruence.
Qed.

(** A sub-resultant step either panics or returns the old [g] and a strictly shorter remainder. *)
Lemma sub_step_spec f g a b ex :
  g <> [] ->
  (exists e t, sub_step f g a b ex = (e, Panic t)) \/
  (exists e g1 a1 b1, sub_step f g a b ex = (e, Done (g, g1, a1, b1)) /\ (length g1 < length g)%nat).
Proof.
  intros Hg. unfold sub_step, pseudo_rem_chk.
  destruct (zlast g =? 0) eqn:El; [left; cbn; eauto|]. apply Z.eqb_neq in El.
  cbn [flift].
  pose proof (pseudo_rem_length f g Hg El) as Hlen.
  set (h := snd (pseudo_div_rem f g)) in *.
  unfold div_coeffs.
  destruct h as [|h0 h'] eqn:Eh.
  - cbn [fbind]. destruct (b ^ (pdeg f - pdeg g) =? 0); [left; eauto|right].
    do 4 eexists. split; [reflexivity|]. cbn [length]. destruct g; [congruence|cbn [length]; lia].
  - destruct (a * b ^ (pdeg f - pdeg g) =? 0); [left; cbn; eauto|]. cbn [fbind].
    destruct (b ^ (pdeg f - pdeg g) =? 0); [left; eauto|right].
    do 4 eexists. split; [reflexivity|]. rewrite map_length. exact Hlen.
Qed.

Lemma mu_swap {A} (f g : list A) : g <> [] -> pdeg f < pdeg g -> (mu g f < mu f g)%nat.
Proof.
  intros Hg Hd. unfold mu.
  destruct g as [|g0 g']; [congruence|]. rewrite pdeg_cons in Hd.
  destruct f as [|f0 f'].
  - cbn [length]. destruct (S (length g') <? 0)%nat eqn:E; [apply Nat.ltb_lt in E; lia|]. lia.
  - rewrite pdeg_cons in Hd. cbn [length].
    destruct (S (length g') <? S (length f'))%nat eqn:E1; [apply Nat.ltb_lt in E1; lia|].
    destruct (S (length f') <? S (length g'))%nat eqn:E2; [lia|apply Nat.ltb_ge in E2; lia].
Qed.

Lemma mu_step {A} (f g g1 : list A) : (length g1 < length g)%nat -> (S (mu g g1) < mu f g)%nat.
Proof.
  intros H. unfold mu.
  destruct (length g <? length g1)%nat eqn:E; [apply Nat.ltb_lt in E; lia|].
  destruct (length f <? length g)%nat; lia.
Qed.

Lemma smart_loop_fuel m fuel : forall f g a b s ex,
  (mu f g < fuel)%nat -> snd (smart_loop m fuel f g a b s ex) <> OutOfFuel.
Proof.
  induction fuel as [|k IH]; intros f g a b s ex Hmu; [lia|].
  destruct g as [|g0 g'] eqn:Eg; [cbn; congruence|]. rewrite <- Eg in *.
  assert (Hg : g <> []) by (subst g; congruence).
  rewrite smart_loop_S' by exact Hg.
  destruct (pdeg g =? 0); [apply smart_finish_not_oof|].
  destruct (pdeg f <? pdeg g) eqn:Elt.
  - apply IH. apply Z.ltb_lt in Elt. pose proof (mu_swap f g Hg Elt). lia.
  - destruct (sub_step_spec f g a b ex Hg) as [(e & t & ->)|(e & g1 & a1 & b1 & -> & Hl)].
    + cbn; congruence.
    + cbn [fbind]. apply IH. pose proof (mu_step f g g1 Hl). lia.
Qed.

Lemma mu_loop_fuel {A} (f g : list A) : (mu f g < loop_fuel g)%nat.
Proof. unfold mu, loop_fuel. destruct (length f <? length g)%nat; lia. Qed.

(** [P] the fuel supplied by [resultant] suffices, for all coefficient lists. *)
Lemma resultant_no_outoffuel m f g : snd (resultant m f g) <> OutOfFuel.
Proof.
  unfold resultant, resultant_smart. destruct f as [|f0 f'] eqn:Ef; [cbn; congruence|]. rewrite <- Ef.
  apply smart_loop_fuel, mu_loop_fuel.
Qed.

Lemma gcd_loop_fuel fuel : forall f g a b ex,
  (mu f g < fuel)%nat -> snd (gcd_loop fuel f g a b ex) <> OutOfFuel.
Proof.
  induction fuel as [|k IH]; intros f g a b ex Hmu; [lia|].
  destruct g as [|g0 g'] eqn:Eg; [cbn; congruence|]. rewrite <- Eg in *.
  assert (Hg : g <> []) by (subst g; congruence).
  rewrite gcd_loop_S' by exact Hg.
  destruct (pdeg g =? 0); [cbn; congruence|].
  destruct (pdeg f <? pdeg g) eqn:Elt.
  - apply IH. apply Z.ltb_lt in Elt. pose proof (mu_swap f g Hg Elt). lia.
  - destruct (sub_step_spec f g a b ex Hg) as [(e & t & ->)|(e & g1 & a1 & b1 & -> & Hl)].
    + cbn; congruence.
    + cbn [fbind]. apply IH. pose proof (mu_step f g g1 Hl). lia.
Qed.

Lemma content_chk_not_oof p : content_chk p <> OutOfFuel.
Proof. unfold content_chk. destruct p; [congruence|]. destruct (content _ =? 0); congruence. Qed.

Lemma poly_div_not_oof p d : poly_div p d <> OutOfFuel.
Proof. unfold poly_div. destruct p; [congruence|]. destruct (d =? 0); congruence. Qed.

Lemma fbind_not_oof {A B} (x : flagged A) (k : bool -> A -> flagged B) :
  snd x <> OutOfFuel -> (forall e a, snd (k e a) <> OutOfFuel) -> snd (fbind x k) <> OutOfFuel.
Proof. destruct x as [e [a|t|]]; cbn [fbind snd]; intros Hx Hk; [apply Hk|congruence|congruence]. Qed.

(** [P] the fuel supplied by [resultant_gcd] suffices, for all coefficient lists. *)
Lemma resultant_gcd_no_outoffuel f g : snd (resultant_gcd f g) <> OutOfFuel.
Proof.
  unfold resultant_gcd, resultant_smart_gcd. destruct f as [|f0 f'] eqn:Ef; [cbn; congruence|]. rewrite <- Ef.
  apply flift_not_oof; [apply content_chk_not_oof|]. intros contf.
  apply flift_not_oof; [apply content_chk_not_oof|]. intros contg.
  apply flift_not_oof; [apply poly_div_not_oof|]. intros f1.
  apply flift_not_oof; [apply poly_div_not_oof|]. intros g1.
  apply fbind_not_oof; [apply gcd_loop_fuel, mu_loop_fuel|]. intros ex ff.
  apply flift_not_oof; [apply content_chk_not_oof|]. intros c'.
  apply flift_not_oof; [apply poly_div_not_oof|]. intros pf. cbn; congruence.
Qed.

(** [P] the fuel supplied by [discriminant] (through [resultant]) suffices. *)
Lemma discriminant_no_outoffuel m f : snd (discriminant m f) <> OutOfFuel.
Proof.
  unfold discriminant. destruct f as [|f0 f'] eqn:Ef; [cbn; congruence|]. rewrite <- Ef.
  apply fbind_not_oof; [apply resultant_no_outoffuel|]. intros ex res.
  destruct (zlast f =? 0); cbn; congruence.
Qed.

(** *** The rational routine *)

Lemma rr_S m k a b :
  resultant_rational_fuel m (S k) a b =
  match a, b with
  | [], _ => Done qc0
  | _, [] => Done qc0
  | _, b0 :: _ =>
    if pdeg b =? 0 then Done (qcpow b0 (pdeg a))
    else
      do r <- qrem_chk a b;
      match r with
      | [] => Done qc0
      | _ =>
        do sub <- resultant_rational_fuel m k b r;
        do e <- u64_norm m (pdeg a - pdeg r);
        let sub := Qcmult sub (qcpow (qlast b) e) in
        Done (if zodd (pdeg a) && zodd (pdeg b) then Qcopp sub else sub)
      end
  end.
Proof. reflexivity. Qed.

Lemma qrem_chk_spec a b :
  b <> [] ->
  qrem_chk a b = Panic PAssert \/
  (exists r, qrem_chk a b = Done r /\ (S (mu b r) < mu a b \/ (r = a /\ length a < length b))%nat).
Proof.
  intros Hb. unfold qrem_chk.
  destruct (length a <? length b)%nat eqn:E.
  - right. exists a. split; [reflexivity|]. right. apply Nat.ltb_lt in E. auto.
  - destruct (qc_is0 (qlast b)) eqn:E0; [left; reflexivity|right].
    eexists. split; [reflexivity|]. left. apply mu_step. apply Nat.ltb_ge in E.
    apply q_rem_length; auto.
    intros H. unfold qlast, qc0 in E0. rewrite H in E0. discriminate.
Qed.

Lemma bind_not_oof {A B} (x : outcome A) (k : A -> outcome B) :
  x <> OutOfFuel -> (forall a, k a <> OutOfFuel) -> bind x k <> OutOfFuel.
Proof. destruct x; cbn [bind]; intros Hx Hk; [apply Hk|congruence|congruence]. Qed.

Lemma rr_fuel m fuel : forall a b, (mu a b < fuel)%nat -> resultant_rational_fuel m fuel a b <> OutOfFuel.
Proof.
  induction fuel as [|k IH]; intros a b Hmu; [lia|].
  rewrite rr_S. destruct a as [|a0 a'] eqn:Ea; [congruence|]. rewrite <- Ea in *.
  destruct b as [|b0 b'] eqn:Eb; [congruence|]. rewrite <- Eb in *.
  assert (Hb : b <> []) by (subst b; congruence).
  destruct (pdeg b =? 0); [congruence|].
  destruct (qrem_chk_spec a b Hb) as [-> | (r & -> & Hr)]; [cbn; congruence|].
  cbn [bind]. destruct r as [|r0 r'] eqn:Er; [congruence|]. rewrite <- Er in *.
  apply bind_not_oof.
  - apply IH. destruct Hr as [Hr | [-> Hr]]; [lia|].
    unfold mu in *. destruct (length b <? length a)%nat eqn:E1; [apply Nat.ltb_lt in E1; lia|].
    destruct (length a <? length b)%nat eqn:E2; [lia|apply Nat.ltb_ge in E2; lia].
  - intros sub. apply bind_not_oof; [apply u64_norm_not_oof|]. intros e.
    destruct (zodd (pdeg a) && zodd (pdeg b))%bool; congruence.
Qed.

(** [P] the fuel supplied by [resultant_rational] suffices, for all coefficient lists. *)
Lemma resultant_rational_no_outoffuel m a b : resultant_rational m a b <> OutOfFuel.
Proof. apply rr_fuel, mu_loop_fuel. Qed.
