(** * Fuel sufficiency of the model of num's [extended_gcd] (stdlib + lia/nia). *)
From Coq Require Import ZArith List Lia.
From RNT.Model Require Import Base PolyModP.
Open Scope Z_scope.

(** For 0 < b <= a: 2 * (a mod b) < a. *)
Lemma mod_lt_half a b : 0 < b -> b <= a -> 2 * (a mod b) < a.
Proof.
  intros Hb Hab. pose proof (Z.div_mod a b ltac:(lia)) as E.
  pose proof (Z.mod_pos_bound a b Hb) as B.
  assert (1 <= a / b) by (apply Z.div_le_lower_bound; lia). nia.
Qed.

Lemma rem_abs_lt_half r1 r0 : r0 <> 0 -> Z.abs r0 <= Z.abs r1 -> 2 * Z.abs (Z.rem r1 r0) < Z.abs r1.
Proof.
  intros H0 Hle. rewrite <- Z.rem_abs by exact H0.
  rewrite Z.rem_mod_nonneg by lia. apply mod_lt_half; lia.
Qed.

Lemma rem_abs_lt r1 r0 : r0 <> 0 -> Z.abs (Z.rem r1 r0) < Z.abs r0.
Proof. intros H0. pose proof (Z.rem_bound_abs r1 r0 H0). lia. Qed.

(** Potential argument: |r0| * |r1| halves at every step once |r0| <= |r1|. *)
Lemma num_egcd_loop_total n : forall fuel r0 r1 s0 s1 t0 t1,
  Z.abs r0 <= Z.abs r1 -> Z.abs r0 * Z.abs r1 < 2 ^ Z.of_nat n -> (n + 2 <= fuel)%nat ->
  exists res, num_egcd_loop fuel r0 r1 s0 s1 t0 t1 = Done res.
Proof.
  induction n as [|n IH]; intros fuel r0 r1 s0 s1 t0 t1 Hle Hphi Hf.
  - destruct fuel as [|f]; [lia|]. cbn [num_egcd_loop].
    assert (r0 = 0) by (cbn in Hphi; nia). subst r0. cbn.
    destruct (0 <=? r1); eexists; reflexivity.
  - destruct fuel as [|f]; [lia|]. cbn [num_egcd_loop].
    destruct (Z.eqb_spec r0 0) as [E|E].
    + destruct (0 <=? r1); eexists; reflexivity.
    + replace (r1 - Z.quot r1 r0 * r0) with (Z.rem r1 r0)
        by (pose proof (Z.quot_rem' r1 r0); lia).
      apply IH.
      * pose proof (rem_abs_lt r1 r0 E). lia.
      * pose proof (rem_abs_lt_half r1 r0 E Hle) as H2.
        rewrite Nat2Z.inj_succ, Z.pow_succ_r in Hphi by lia. nia.
      * lia.
Qed.

Lemma abs_lt_pow_log2 b : Z.abs b < 2 ^ (Z.log2 (Z.abs b) + 1).
Proof.
  destruct (Z.eq_dec b 0) as [->|Hb]; [cbn; lia|].
  pose proof (Z.log2_spec (Z.abs b) ltac:(lia)) as [_ H].
  rewrite <- Z.add_1_r in H. exact H.
Qed.

(** [P] [num_extended_gcd] always returns. *)
Lemma num_extended_gcd_total a b : exists res, num_extended_gcd a b = Done res.
Proof.
  unfold num_extended_gcd, num_egcd_fuel.
  set (k := Z.to_nat (Z.log2 (Z.abs b) + 1)).
  replace (2 * k + 5)%nat with (S (2 * k + 4)) by lia. cbn [num_egcd_loop].
  destruct (Z.eqb_spec b 0) as [E|E].
  - destruct (0 <=? a); eexists; reflexivity.
  - replace (a - Z.quot a b * b) with (Z.rem a b) by (pose proof (Z.quot_rem' a b); lia).
    apply (num_egcd_loop_total (2 * k)).
    + pose proof (rem_abs_lt a b E). lia.
    + pose proof (rem_abs_lt a b E) as H1. pose proof (abs_lt_pow_log2 b) as H2.
      pose proof (Z.log2_nonneg (Z.abs b)) as L.
      assert (P : 2 ^ Z.of_nat (2 * k) = 2 ^ (Z.log2 (Z.abs b) + 1) * 2 ^ (Z.log2 (Z.abs b) + 1)).
      { rewrite <- Z.pow_add_r by lia. f_equal. unfold k. lia. }
      rewrite P. assert (0 <= Z.abs (Z.rem a b)) by lia. nia.
    + lia.
Qed.
