(** C20: the short-vector enumeration in exact arithmetic -- completeness and uniqueness up to sign.

    For a decomposition q with positive diagonal, [dfs] walks the integer vectors in lexicographic
    order (last coordinate most significant), prunes exactly the subtrees in which the partial value
    already exceeds c, and stops at the zero vector: it returns exactly the x with value <= c whose
    highest non-zero coordinate is negative, each once.  (stdlib; lia, ring on Qc, lra/nra on Q.) *)
From RNT.Model Require Import Base Lll.
From RNT.Refine Require Import LllMat LllHB LllShort LllSqrt.
From Coq Require Import Lia QArith Qcanon Lqa.
Open Scope Z_scope.

Local Notation F := arithQ.
Local Notation "x +q y" := (Qcplus x y) (at level 50, left associativity).
Local Notation "x *q y" := (Qcmult x y) (at level 40, left associativity).
Local Notation "x -q y" := (Qcminus x y) (at level 50, left associativity).
Local Notation q0 := (Q2Qc 0).

(** ** order facts on Qc, through Q *)
Ltac to_Q := unfold Qcle, Qclt in *; rewrite ?this_plus, ?this_minus, ?this_mult, ?this_opp, ?this_0 in *.

Lemma qc_sq_nonneg a y : Qclt q0 a -> Qcle q0 (a *q y *q y).
Proof. intros H. to_Q. nra. Qed.

Lemma qc_le_add_nonneg a b : Qcle q0 b -> Qcle a (a +q b).
Proof. intros H. to_Q. lra. Qed.

Lemma qc_sub_le c r v : r = c -q v -> (Qcle q0 r <-> Qcle v c).
Proof. intros ->. to_Q. split; intros; lra. Qed.

Lemma qc_le_trans_sub c p v : Qcle p v -> Qcle v c -> Qcle q0 (c -q p).
Proof. intros. to_Q. lra. Qed.

Lemma this_div a b : ~ (this b == 0)%Q -> (this (Qcdiv a b) == this a / this b)%Q.
Proof.
  intros Hb. unfold Qcdiv. rewrite this_mult. unfold Qcinv, Q2Qc; cbn [this]. rewrite Qred_correct. reflexivity.
Qed.

Lemma qc_div_nonneg r d : Qclt q0 d -> Qcle q0 r -> Qcle q0 (Qcdiv r d).
Proof.
  intros Hd Hr. unfold Qcle, Qclt in *. rewrite this_0 in *. rewrite this_div by lra.
  apply Qle_shift_div_l; lra.
Qed.

Lemma qc_div_range r d y : Qclt q0 d ->
  (Qcle (y *q y) (Qcdiv r d) <-> Qcle q0 (r -q d *q y *q y)).
Proof.
  intros Hd. unfold Qcle, Qclt in *. rewrite this_0 in *. rewrite this_div by lra.
  rewrite this_minus, !this_mult.
  assert (E : (this d * (this r / this d) == this r)%Q) by (apply Qmult_div_r; lra).
  set (e := (this r / this d)%Q) in *. split; intros H; nra.
Qed.

(** ** vectors *)
Definition zero_from (x : list Z) (k : nat) : Prop := forall j, (k <= j)%nat -> nth j x 0 = 0.
Definition agree_from (x y : list Z) (k : nat) : Prop := forall j, (k <= j)%nat -> nth j y 0 = nth j x 0.
(** among the coordinates below k, the highest non-zero one is negative *)
Definition lexneg_below (y : list Z) (k : nat) : Prop :=
  exists j, (j < k)%nat /\ nth j y 0 < 0 /\ forall j', (j < j' < k)%nat -> nth j' y 0 = 0.

Lemma zero_from_set x i xi : (i < length x)%nat ->
  (zero_from (set_nth x i xi) i <-> xi = 0 /\ zero_from x (S i)).
Proof.
  intros Hi. unfold zero_from. split.
  - intros H. split.
    + specialize (H i (le_n i)). rewrite nth_set_nth_eq in H by exact Hi. exact H.
    + intros j Hj. specialize (H j ltac:(lia)). rewrite nth_set_nth_neq in H by lia. exact H.
  - intros [-> H] j Hj. destruct (Nat.eq_dec i j) as [<-|Hne].
    + apply nth_set_nth_eq. exact Hi.
    + rewrite nth_set_nth_neq by exact Hne. apply H. lia.
Qed.

Lemma agree_from_set x y i xi : (i < length x)%nat ->
  (agree_from (set_nth x i xi) y i <-> nth i y 0 = xi /\ agree_from x y (S i)).
Proof.
  intros Hi. unfold agree_from. split.
  - intros H. split.
    + specialize (H i (le_n i)). rewrite nth_set_nth_eq in H by exact Hi. exact H.
    + intros j Hj. specialize (H j ltac:(lia)). rewrite nth_set_nth_neq in H by lia. exact H.
  - intros [E H] j Hj. destruct (Nat.eq_dec i j) as [<-|Hne].
    + rewrite nth_set_nth_eq by exact Hi. exact E.
    + rewrite nth_set_nth_neq by exact Hne. apply H. lia.
Qed.

Lemma lexneg_below_S y i :
  lexneg_below y (S i) <-> (nth i y 0 < 0 \/ (nth i y 0 = 0 /\ lexneg_below y i)).
Proof.
  unfold lexneg_below. split.
  - intros (j & Hj & Hn & Hz). destruct (Nat.eq_dec j i) as [->|Hne]; [left; exact Hn|].
    right. split; [apply Hz; lia|]. exists j. split; [lia|]. split; [exact Hn|]. intros j' Hj'. apply Hz. lia.
  - intros [H|[H0 (j & Hj & Hn & Hz)]].
    + exists i. split; [lia|]. split; [exact H|]. intros j' Hj'. lia.
    + exists j. split; [lia|]. split; [exact Hn|]. intros j' Hj'.
      destruct (Nat.eq_dec j' i) as [->|Hne]; [exact H0|apply Hz; lia].
Qed.

Lemma lexneg_below_0 y : ~ lexneg_below y 0.
Proof. intros (j & Hj & _). lia. Qed.

Lemma forallb_zero_iff x : forallb (Z.eqb 0) x = true <-> zero_from x 0.
Proof.
  unfold zero_from. split.
  - intros H j _. rewrite forallb_forall in H.
    destruct (Nat.lt_ge_cases j (length x)) as [L|G].
    + specialize (H _ (nth_In x 0 L)). apply Z.eqb_eq in H. lia.
    + apply nth_overflow. exact G.
  - intros H. apply forallb_forall. intros z Hz. apply (In_nth _ _ 0) in Hz.
    destruct Hz as (j & Hj & <-). apply Z.eqb_eq. symmetry. apply H. lia.
Qed.

(** ** values *)
Section Values.
Variable q : list (list Qc).
Let n := length q.
Definition posdiag : Prop := forall i, (i < length q)%nat -> Qclt q0 (gq q i i).
Hypothesis Hpos : posdiag.

Lemma uval_agree x y k : agree_from x y (S k) -> uval q y k = uval q x k.
Proof.
  intros H. unfold uval. apply for_range_ext. intros j t Hj. rewrite (H j) by lia. reflexivity.
Qed.

Lemma term_agree x y k : agree_from x y k -> term q y k = term q x k.
Proof.
  intros H. unfold term. rewrite (uval_agree x y k) by (intros j Hj; apply H; lia).
  rewrite (H k) by lia. reflexivity.
Qed.

Lemma pv_agree x y k : agree_from x y k -> pv q y k = pv q x k.
Proof.
  intros H. apply pv_ext. intros j Hj. apply term_agree. intros j' Hj'. apply H. lia.
Qed.

Lemma term_nonneg y k : (k < length q)%nat -> Qcle q0 (term q y k).
Proof. intros Hk. unfold term. apply qc_sq_nonneg. apply Hpos. exact Hk. Qed.

Lemma pv_le_qvalue y : forall k, (k <= length q)%nat -> Qcle (pv q y k) (qvalue q y).
Proof.
  induction k as [|k IH]; intros Hk; [apply Qcle_refl|].
  eapply Qcle_trans; [|apply IH; lia].
  rewrite (pv_S q y k) by lia. apply qc_le_add_nonneg. apply term_nonneg. lia.
Qed.

Lemma for_range_id {S} lo hi (s : S) : for_range lo hi (fun _ t => t) s = s.
Proof. unfold for_range. generalize (seq lo (hi - lo)). induction l as [|a l IH]; cbn; auto. Qed.

Lemma uval_zero x i : zero_from x (S i) -> uval q x i = q0.
Proof.
  intros H. unfold uval. rewrite (for_range_ext _ _ _ (fun _ t => t)); [apply for_range_id|].
  intros j t Hj. rewrite (H j) by lia. unfold qz. change (Qc_of_Z 0) with q0. ring.
Qed.
End Values.

Lemma NoDup_app_intro {A} (l1 l2 : list A) :
  NoDup l1 -> NoDup l2 -> (forall a, In a l1 -> ~ In a l2) -> NoDup (l1 ++ l2).
Proof.
  intros H1 H2 D. induction H1 as [|a l1 Ha H1 IH]; cbn; [exact H2|].
  constructor.
  - intros I. apply in_app_or in I. destruct I as [I|I]; [exact (Ha I)|]. exact (D a (or_introl eq_refl) I).
  - apply IH. intros b Hb. apply D. right. exact Hb.
Qed.

(** ** the enumeration *)
Section Complete.
Variables (q : list (list Qc)) (c : Qc).
Hypothesis Hpos : posdiag q.
Let n := length q.

(** what a call [dfs q c rem idx x res = (stop, res ++ new)] with [rem = c - pv q x idx] produces *)
Definition dspec (idx : nat) (rem : Qc) (x : list Z) (stop : bool) (new : list (Qc * list Z)) : Prop :=
  (stop = true <-> (zero_from x idx /\ Qcle q0 rem)) /\
  (forall y, In y (map snd new) -> length y = n /\ agree_from x y idx) /\
  (forall y, length y = n -> agree_from x y idx ->
     (In y (map snd new) <-> (Qcle (qvalue q y) c /\ (zero_from x idx -> lexneg_below y idx)))) /\
  NoDup (map snd new).

(** a vector agreeing with x from idx on, in a subtree that is pruned, has value > c *)
Lemma pruned x y idx rem : (idx <= n)%nat -> rem = c -q pv q x idx -> agree_from x y idx ->
  Qcle (qvalue q y) c -> Qcle q0 rem.
Proof.
  intros Hk Hr Ha Hv. subst rem. rewrite <- (pv_agree q x y idx Ha).
  eapply qc_le_trans_sub; [apply (pv_le_qvalue q Hpos y idx Hk)|exact Hv].
Qed.

Section Level.
Variables (i : nat) (x : list Z) (rem : Qc).
Hypothesis Hi : (i < n)%nat.
Hypothesis Lx : length x = n.
Hypothesis Hrem : rem = c -q pv q x (S i).
Hypothesis IH : forall rem' x' res st res',
  dfs F q c rem' i x' res = (st, res') -> length x' = n -> rem' = c -q pv q x' i ->
  exists new, res' = res ++ new /\ dspec i rem' x' st new.

Let qii := gq q i i.
Let u := uval q x i.
Definition nr (xi : Z) : Qc := rem -q qii *q (qz xi +q u) *q (qz xi +q u).

Lemma nr_pv xi : nr xi = c -q pv q (set_nth x i xi) i.
Proof.
  unfold nr, qii, u. rewrite (pv_S q _ i) by (fold n; lia). rewrite pv_set. rewrite term_set_at by lia.
  rewrite Hrem. ring.
Qed.

Definition lspec (cnt : nat) (a : Z) (stop : bool) (new : list (Qc * list Z)) : Prop :=
  (stop = true <-> (zero_from x (S i) /\ a <= 0 < a + Z.of_nat cnt /\ Qcle q0 (nr 0))) /\
  (forall y, In y (map snd new) -> length y = n /\ agree_from x y (S i) /\ a <= nth i y 0 < a + Z.of_nat cnt) /\
  (forall y, length y = n -> agree_from x y (S i) ->
     (In y (map snd new) <->
      (a <= nth i y 0 < a + Z.of_nat cnt /\ Qcle (qvalue q y) c /\
       (zero_from x (S i) -> nth i y 0 = 0 -> lexneg_below y i) /\
       ~ (zero_from x (S i) /\ Qcle q0 (nr 0) /\ a <= 0 /\ 0 < nth i y 0)))) /\
  NoDup (map snd new).

Lemma loop_complete : forall cnt a res stop res',
  dfs_loop (fun r x' rs => dfs F q c r i x' rs) rem qii u x i cnt a res = (stop, res') ->
  exists new, res' = res ++ new /\ lspec cnt a stop new.
Proof.
  induction cnt as [|cnt IHc]; intros a res stop res' D; cbn [dfs_loop] in D.
  - inversion D; subst. exists []. split; [symmetry; apply app_nil_r|].
    unfold lspec. cbn [map]. split; [|split; [|split]].
    + split; [discriminate|intros (_ & R & _); lia].
    + intros y [].
    + intros y _ _. split; [intros []|intros (R & _); lia].
    + constructor.
  - change (fsub F rem (fmul F (fmul F qii (fadd F (fofZ F a) u)) (fadd F (fofZ F a) u))) with (nr a) in D.
    destruct (dfs F q c (nr a) i (set_nth x i a) res) as [st1 res1] eqn:D1.
    destruct (IH _ _ _ _ _ D1 ltac:(rewrite length_set_nth; exact Lx) (nr_pv a)) as (new1 & E1 & S1a & S1b & S1c & S1d).
    assert (Hix : (i < length x)%nat) by lia.
    rewrite (zero_from_set x i a Hix) in S1a.
    assert (B1 : forall y, In y (map snd new1) -> length y = n /\ nth i y 0 = a /\ agree_from x y (S i)).
    { intros y Hy. destruct (S1b y Hy) as [L A]. apply (agree_from_set x y i a Hix) in A. tauto. }
    destruct st1.
    + inversion D; subst res' stop. exists new1. split; [exact E1|].
      destruct (proj1 S1a eq_refl) as [[Ea Z0] N0]. subst a.
      unfold lspec. split; [|split; [|split]].
      * split; [intros _; repeat split; try assumption; lia|reflexivity].
      * intros y Hy. destruct (B1 y Hy) as (L & E & A). repeat split; try assumption; lia.
      * intros y Ly Ay. split.
        -- intros Hy. destruct (B1 y Hy) as (_ & E & _).
           assert (A' : agree_from (set_nth x i 0) y i) by (apply (agree_from_set x y i 0 Hix); tauto).
           destruct (proj1 (S1c y Ly A') Hy) as [V Lz].
           split; [lia|]. split; [exact V|]. split.
           ++ intros _ _. apply Lz. apply (zero_from_set x i 0 Hix). tauto.
           ++ intros (_ & _ & _ & P). lia.
        -- intros (R & V & Lz & NP).
           assert (E : nth i y 0 = 0).
           { destruct (Z_lt_le_dec 0 (nth i y 0)) as [P|P]; [exfalso; apply NP; repeat split; try assumption; lia|lia]. }
           assert (A' : agree_from (set_nth x i 0) y i) by (apply (agree_from_set x y i 0 Hix); tauto).
           apply (S1c y Ly A'). split; [exact V|]. intros _. apply Lz; assumption.
      * exact S1d.
    + destruct (IHc _ _ _ _ D) as (new2 & E2 & S2a & S2b & S2c & S2d).
      exists (new1 ++ new2). split; [rewrite E2, E1; symmetry; apply app_assoc|].
      assert (NS : ~ (a = 0 /\ zero_from x (S i) /\ Qcle q0 (nr a))).
      { intros (Ea & Z0 & N0). assert (false = true) by (apply S1a; tauto). discriminate. }
      unfold lspec. rewrite map_app. split; [|split; [|split]].
      * rewrite S2a. split.
        -- intros (Z0 & R & N0). repeat split; try assumption; lia.
        -- intros (Z0 & R & N0). destruct (Z.eq_dec a 0) as [Ea|Ea].
           ++ exfalso. apply NS. subst a. tauto.
           ++ repeat split; try assumption; lia.
      * intros y Hy. apply in_app_or in Hy. destruct Hy as [Hy|Hy].
        -- destruct (B1 y Hy) as (L & E & A). repeat split; try assumption; lia.
        -- destruct (S2b y Hy) as (L & A & R). repeat split; try assumption; lia.
      * intros y Ly Ay. rewrite in_app_iff. split.
        -- intros [Hy|Hy].
           ++ destruct (B1 y Hy) as (_ & E & _).
              assert (A' : agree_from (set_nth x i a) y i) by (apply (agree_from_set x y i a Hix); tauto).
              destruct (proj1 (S1c y Ly A') Hy) as [V Lz].
              split; [lia|]. split; [exact V|]. split.
              ** intros Z0 E0. apply Lz. apply (zero_from_set x i a Hix). split; [lia|exact Z0].
              ** intros (_ & _ & ? & ?). lia.
           ++ destruct (proj1 (S2c y Ly Ay) Hy) as (R & V & Lz & NP).
              split; [lia|]. split; [exact V|]. split; [exact Lz|].
              intros (Z0 & N0 & A0 & P). destruct (Z.eq_dec a 0) as [Ea|Ea].
              ** apply NS. subst a. tauto.
              ** apply NP. repeat split; try assumption; lia.
        -- intros (R & V & Lz & NP). destruct (Z.eq_dec (nth i y 0) a) as [E|E].
           ++ left. assert (A' : agree_from (set_nth x i a) y i) by (apply (agree_from_set x y i a Hix); tauto).
              apply (S1c y Ly A'). split; [exact V|]. intros Zs. apply (zero_from_set x i a Hix) in Zs.
              destruct Zs as [Ea Z0]. apply Lz; [exact Z0|lia].
           ++ right. apply (S2c y Ly Ay). split; [lia|]. split; [exact V|]. split; [exact Lz|].
              intros (Z0 & N0 & A0 & P). apply NP. repeat split; try assumption; lia.
      * apply NoDup_app_intro; [exact S1d|exact S2d|].
        intros y H1 H2. destruct (B1 y H1) as (_ & E & _). destruct (S2b y H2) as (_ & _ & R). lia.
Qed.
End Level.
End Complete.

Section Complete2.
Variables (q : list (list Qc)) (c : Qc).
Hypothesis Hpos : posdiag q.
Let n := length q.

Lemma nth_ext0 (x y : list Z) : length x = length y -> (forall j, nth j y 0 = nth j x 0) -> y = x.
Proof. intros L H. apply (nth_ext _ _ 0 0); [symmetry; exact L|]. intros j _. apply H. Qed.

Lemma dfs_complete : forall idx rem x res stop res',
  dfs F q c rem idx x res = (stop, res') ->
  length x = n -> (idx <= n)%nat -> rem = c -q pv q x idx ->
  exists new, res' = res ++ new /\ dspec q c idx rem x stop new.
Proof.
  induction idx as [|i IH]; intros rem x res stop res' D Lx Hidx Hrem.
  - rewrite dfs_0 in D. cbn [fltb f0 F arithQ] in D.
    destruct (Qc_ltb rem q0) eqn:Eneg.
    + inversion D; subst. exists []. split; [symmetry; apply app_nil_r|].
      apply Qc_ltb_true in Eneg.
      unfold dspec. cbn [map]. split; [|split; [|split]].
      * split; [discriminate|]. intros [_ H]. exfalso. exact (Qclt_not_le _ _ Eneg H).
      * intros y [].
      * intros y Ly Ay. split; [intros []|]. intros [V _]. exfalso.
        apply (Qclt_not_le _ _ Eneg). exact (pruned q c Hpos x y 0%nat _ Hidx eq_refl Ay V).
      * constructor.
    + apply Qc_ltb_false in Eneg.
      destruct (forallb (Z.eqb 0) x) eqn:Ez; inversion D; subst stop res'.
      * exists []. split; [symmetry; apply app_nil_r|]. apply forallb_zero_iff in Ez.
        unfold dspec. cbn [map]. split; [|split; [|split]].
        -- split; [intros _; split; assumption|reflexivity].
        -- intros y [].
        -- intros y Ly Ay. split; [intros []|]. intros [_ L]. exact (lexneg_below_0 y (L Ez)).
        -- constructor.
      * exists [(fsub F c rem, x)]. split; [reflexivity|].
        assert (NZ : ~ zero_from x 0).
        { intros Zr. apply forallb_zero_iff in Zr. rewrite Zr in Ez. discriminate. }
        unfold dspec. cbn [map snd]. split; [|split; [|split]].
        -- split; [discriminate|]. intros [Zr _]. contradiction.
        -- intros y [<-|[]]. split; [exact Lx|]. intros j _. reflexivity.
        -- intros y Ly Ay. assert (E : y = x) by (apply nth_ext0; [rewrite Lx, Ly; reflexivity|intros j; apply Ay; lia]).
           subst y. split.
           ++ intros _. split; [|intros Zr; contradiction].
              apply (qc_sub_le c rem (qvalue q x)); [exact Hrem|exact Eneg].
           ++ intros _. left. reflexivity.
        -- constructor; [intros []|constructor].
  - rewrite dfs_S in D. cbn [fltb f0 F arithQ] in D.
    destruct (Qc_ltb rem q0) eqn:Eneg.
    + inversion D; subst. exists []. split; [symmetry; apply app_nil_r|].
      apply Qc_ltb_true in Eneg.
      unfold dspec. cbn [map]. split; [|split; [|split]].
      * split; [discriminate|]. intros [_ H]. exfalso. exact (Qclt_not_le _ _ Eneg H).
      * intros y [].
      * intros y Ly Ay. split; [intros []|]. intros [V _]. exfalso.
        apply (Qclt_not_le _ _ Eneg). exact (pruned q c Hpos x y (S i) _ Hidx eq_refl Ay V).
      * constructor.
    + apply Qc_ltb_false in Eneg.
      assert (Hi : (i < n)%nat) by lia.
      assert (IH' : forall rem' x' res st res',
        dfs F q c rem' i x' res = (st, res') -> length x' = n -> rem' = c -q pv q x' i ->
        exists new, res' = res ++ new /\ dspec q c i rem' x' st new).
      { intros. eapply IH; try eassumption. lia. }
      destruct (loop_complete q c i x rem Hi Lx Hrem IH' _ _ _ _ _ D) as (new & E & La & Lb & Lc & Ld).
      exists new. split; [exact E|].
      set (qii := gq q i i) in *. set (u := uval q x i) in *.
      set (t := fdiv F rem qii) in *.
      assert (Hq : Qclt q0 qii) by (apply Hpos; exact Hi).
      assert (Ht : Qcle q0 t) by (apply qc_div_nonneg; assumption).
      (* the range of the loop *)
      assert (Rg : forall z, (fdown F t u <= z < fdown F t u + Z.of_nat (Z.to_nat (fup F t u - fdown F t u + 1)))
                             <-> Qcle q0 (nr q i x rem z)).
      { intros z. cbn [fup fdown F arithQ].
        transitivity (Qc_down t u <= z <= Qc_up t u); [lia|].
        rewrite (Qc_range_spec t u z Ht). unfold t. cbn [fdiv F arithQ].
        rewrite (qc_div_range rem qii _ Hq). unfold nr. fold qii u. unfold qz.
        reflexivity. }
      assert (Key : forall y, length y = n -> agree_from x y (S i) -> Qcle (qvalue q y) c ->
                      Qcle q0 (nr q i x rem (nth i y 0))).
      { intros y Ly Ay V. rewrite (nr_pv q c i x rem Hi Lx Hrem).
        assert (A' : agree_from (set_nth x i (nth i y 0)) y i) by (apply agree_from_set; [lia|tauto]).
        exact (pruned q c Hpos _ y i _ ltac:(lia) eq_refl A' V). }
      assert (N0 : zero_from x (S i) -> nr q i x rem 0 = rem).
      { intros Z0. unfold nr. rewrite (uval_zero q x i Z0). unfold qz. change (Qc_of_Z 0) with q0. ring. }
      unfold dspec. split; [|split; [|split]].
      * rewrite La. split.
        -- intros (Z0 & _ & _). split; assumption.
        -- intros (Z0 & _). split; [exact Z0|]. rewrite Rg. rewrite (N0 Z0). split; [exact Eneg|exact Eneg].
      * intros y Hy. destruct (Lb y Hy) as (L & A & _). split; assumption.
      * intros y Ly Ay. rewrite (Lc y Ly Ay). rewrite Rg. split.
        -- intros (R & V & Lz & NP). split; [exact V|]. intros Z0.
           apply lexneg_below_S.
           destruct (Z_lt_le_dec (nth i y 0) 0) as [Neg|NN]; [left; exact Neg|right].
           assert (E0 : nth i y 0 = 0).
           { destruct (Z_lt_le_dec 0 (nth i y 0)) as [P|P]; [|lia]. exfalso. apply NP.
             split; [exact Z0|]. rewrite (N0 Z0). split; [exact Eneg|]. split; [|exact P].
             assert (R0 : Qcle q0 (nr q i x rem 0)) by (rewrite (N0 Z0); exact Eneg).
             apply Rg in R0. lia. }
           split; [exact E0|]. apply Lz; assumption.
        -- intros [V Lz]. split; [apply Key; assumption|]. split; [exact V|]. split.
           ++ intros Z0 E0. specialize (Lz Z0). apply lexneg_below_S in Lz. destruct Lz as [Neg|[_ L]]; [lia|exact L].
           ++ intros (Z0 & _ & _ & P). specialize (Lz Z0). apply lexneg_below_S in Lz. destruct Lz as [Neg|[E0 _]]; lia.
      * exact Ld.
Qed.

Definition zeros (k : nat) : list Z := repeat 0 k.

Lemma zero_from_zeros k j : zero_from (zeros k) j.
Proof.
  intros j' _. unfold zeros. destruct (Nat.lt_ge_cases j' k) as [L|G].
  - apply nth_repeat.
  - apply nth_overflow. rewrite repeat_length. exact G.
Qed.

(** [P] the enumeration returns (c >= 0) exactly the vectors of value <= c whose highest non-zero
    coordinate is negative, each once; for c < 0 the code panics ([unwrap_err] on [Ok]). *)
Theorem short_vectors_complete :
  (Qcle q0 c ->
   exists l, find_short_vectors F q c = Done l /\ NoDup (map snd l) /\
     forall y, length y = n -> (In y (map snd l) <-> (Qcle (qvalue q y) c /\ lexneg_below y n))) /\
  (Qclt c q0 -> find_short_vectors F q c = Panic POther).
Proof.
  unfold find_short_vectors. fold n.
  destruct (dfs F q c c n (repeat 0 n) []) as [stop res] eqn:D.
  destruct (dfs_complete n c (repeat 0 n) [] stop res D (repeat_length _ _) (le_n _)) as (new & E & Sa & Sb & Sc & Sd).
  { unfold n. rewrite pv_top. ring. }
  cbn [app] in E. subst res. split.
  - intros Hc. assert (stop = true) by (apply Sa; split; [apply (zero_from_zeros n n)|exact Hc]). subst stop.
    exists new. split; [reflexivity|]. split; [exact Sd|].
    intros y Ly. rewrite (Sc y Ly).
    + split; intros [V L]; (split; [exact V|]); [apply L; apply (zero_from_zeros n n)|intros _; exact L].
    + intros j Hj. rewrite (nth_overflow y) by lia. symmetry. apply (zero_from_zeros n n j Hj).
  - intros Hc. destruct stop; [|reflexivity].
    destruct (proj1 Sa eq_refl) as [_ H]. exfalso. exact (Qclt_not_le _ _ Hc H).
Qed.
End Complete2.

(** ** exactly one of x, -x *)
Definition vneg (y : list Z) : list Z := map Z.opp y.

Lemma nth_vneg y : forall j, nth j (vneg y) 0 = - nth j y 0.
Proof. induction y as [|a y IH]; intros [|j]; cbn; try reflexivity. apply IH. Qed.

Lemma lexneg_pm y : forall k,
  (forall j, (j < k)%nat -> nth j y 0 = 0) \/
  (lexneg_below y k /\ ~ lexneg_below (vneg y) k) \/
  (~ lexneg_below y k /\ lexneg_below (vneg y) k).
Proof.
  induction k as [|k IH]; [left; intros j Hj; lia|].
  rewrite !lexneg_below_S, !nth_vneg.
  destruct (Z.lt_trichotomy (nth k y 0) 0) as [N|[E|P]].
  - right. left. split; [left; exact N|]. intros [H|[H _]]; lia.
  - destruct IH as [Zr|[[A B]|[A B]]].
    + left. intros j Hj. destruct (Nat.eq_dec j k) as [->|Hne]; [exact E|apply Zr; lia].
    + right. left. split; [right; tauto|]. intros [H|[_ H]]; [lia|contradiction].
    + right. right. split; [intros [H|[_ H]]; [lia|contradiction]|right; split; [lia|exact B]].
  - right. right. split; [intros [H|[H _]]; lia|left; lia].
Qed.

Lemma nonzero_not_all_zero y : forallb (Z.eqb 0) y = false -> ~ (forall j, (j < length y)%nat -> nth j y 0 = 0).
Proof.
  intros H A. assert (T : forallb (Z.eqb 0) y = true); [|congruence].
  apply forallb_zero_iff. intros j _. destruct (Nat.lt_ge_cases j (length y)) as [L|G]; [apply A; exact L|apply nth_overflow; exact G].
Qed.

Lemma uval_vneg q y k : uval q (vneg y) k = Qcopp (uval q y k).
Proof.
  unfold uval, for_range. replace q0 with (Qcopp q0) at 1 by ring.
  generalize (seq (k + 1) (length q - (k + 1))) q0. induction l as [|a l IH]; intros s; cbn [fold_left]; [reflexivity|].
  rewrite <- IH. f_equal. rewrite nth_vneg. unfold qz. rewrite Qc_of_Z_opp. ring.
Qed.

Lemma qvalue_vneg q y : qvalue q (vneg y) = qvalue q y.
Proof.
  unfold qvalue. apply pv_ext. intros k _. unfold term. rewrite uval_vneg, nth_vneg. unfold qz. rewrite Qc_of_Z_opp. ring.
Qed.

(** [P] ([short_vectors_spec] of DESIGN.md) for a decomposition with positive diagonal and c >= 0 the
    call returns a list without repetition such that, for every non-zero integer vector y of the right
    length with value <= c, exactly one of y, -y is in it -- and nothing else is (every member has
    value <= c; [short_vectors_sound] gives the reported value). *)
Theorem short_vectors_spec (q : list (list Qc)) (c : Qc) (l : list (Qc * list Z)) :
  posdiag q -> find_short_vectors F q c = Done l ->
  NoDup (map snd l) /\
  (forall y, In y (map snd l) -> length y = length q /\ forallb (Z.eqb 0) y = false /\ Qcle (qvalue q y) c) /\
  (forall y, length y = length q -> forallb (Z.eqb 0) y = false -> Qcle (qvalue q y) c ->
     (In y (map snd l) /\ ~ In (vneg y) (map snd l)) \/ (~ In y (map snd l) /\ In (vneg y) (map snd l))).
Proof.
  intros Hpos Hl.
  destruct (short_vectors_complete q c Hpos) as [Hge Hlt].
  assert (Hc : Qcle q0 c).
  { destruct (Qclt_le_dec c q0) as [L|G]; [|exact G]. rewrite (Hlt L) in Hl. discriminate. }
  destruct (Hge Hc) as (l' & El & ND & M). rewrite El in Hl. inversion Hl; subst l'. clear Hl Hge Hlt.
  split; [exact ND|]. split.
  - intros y Hy. pose proof (short_vectors_sound q c l El) as S. rewrite Forall_forall in S.
    apply in_map_iff in Hy. destruct Hy as ([v y'] & E & Hin). cbn [snd] in E. subst y'.
    destruct (S _ Hin) as (L & NZ & _ & _). cbn [snd] in L, NZ.
    split; [exact L|]. split; [exact NZ|]. apply (M y L). apply in_map_iff. exists (v, y). split; [reflexivity|exact Hin].
  - intros y Ly NZ V.
    assert (Ly' : length (vneg y) = length q) by (unfold vneg; rewrite map_length; exact Ly).
    rewrite (M y Ly), (M (vneg y) Ly'), qvalue_vneg.
    destruct (lexneg_pm y (length q)) as [Zr|[[A B]|[A B]]].
    + exfalso. apply (nonzero_not_all_zero y NZ). rewrite Ly. exact Zr.
    + left. tauto.
    + right. tauto.
Qed.
