(** Round 2 step, fourth wave (C06): the Pohst-Zassenhaus core for the table of an order and the model's own
    description of the p-radical ([pow_mod_p] with the table reduced as [one_step] does, pow = p^k >= deg),
    for users of [length], [Z] primes and [Z.pow].  Style: ssreflect/MathComp. *)
From Coq Require Import ZArith List Znumtheory.
From mathcomp Require Import all_ssreflect ssralg ssrint intdiv zmodp matrix mxalgebra finfield.
From mathcomp Require Import ssrZ zify.
From RNT.Model Require Import Base Poly Algebraic LinAlg MultTable Order Round2.
From RNT.Model Require Hnf.
From RNT.Refine Require Import MatZ HnfOps HnfKernel MultTableOps MultTableNorm AlgNormMx DetBridge FermatBridge Round2W3Mul Round2W3Frob.
From RNT.Refine Require Round2W3Step Round2W4Ring.
Set Implicit Arguments.
Unset Strict Implicit.
Unset Printing Implicit Defensive.
Import GRing.Theory.
Local Close Scope Z_scope.
Local Open Scope ring_scope.

Lemma cube_red n (T : table) (g : Z -> Z) : cube n T -> cube n (List.map (List.map (List.map g)) T).
Proof.
move=> ct; have [lt [r1 r2]] := cube_elim ct.
apply: cube_intro; first by rewrite List.map_length.
- move=> i hi.
  rewrite (List.nth_indep _ [::] (List.map (List.map g) [::])).
    by rewrite List.map_nth List.map_length r1.
  by rewrite List.map_length lt.
- move=> i j hi hj.
  rewrite (List.nth_indep _ [::] (List.map (List.map g) [::])).
    rewrite List.map_nth (List.nth_indep _ [::] (List.map g [::])).
      by rewrite List.map_nth List.map_length r2.
    by rewrite List.map_length r1.
  by rewrite List.map_length lt.
Qed.

Theorem pz_table (deg : nat) (p : Z) (T : table) (k : nat) (i_p : list (list Z)) (N : Z)
    (Ll : list Z -> Prop) (w0 : list Z) :
  (1 <= deg)%coq_nat -> Znumtheory.prime p ->
  cube deg T -> tcomm T deg -> tassoc T deg ->
  (exists one, length one = deg /\ forall x, length x = deg -> tmul T deg one x = x) ->
  let tbl := List.map (List.map (List.map (fun x => Z.rem (Z.rem x (p * p)) p))) T in
  let pow := Z.pow p (Z.of_nat k) in
  (Z.of_nat deg <= pow)%Z ->
  wf deg i_p ->
  (forall x, In_rowspanZ deg x i_p <->
     length x = deg /\ exists r, pow_mod_p x pow tbl p = Done r /\
                                 forall j, (j < deg)%coq_nat -> (p | List.nth j r 0%Z)%Z) ->
  (0 < N)%Z ->
  (forall y, length y = deg -> Ll (MatZ.vscale N y)) ->
  (forall a b, length a = deg -> length b = deg -> Ll a -> Ll b ->
     exists c, [/\ length c = deg, Ll c & tmul T deg a b = MatZ.vscale N c]) ->
  length w0 = deg -> Ll w0 ->
  (forall j, (N | p * List.nth j w0 0%Z)%Z) ->
  ~ (forall j, (N | List.nth j w0 0%Z)%Z) ->
  exists u, [/\ length u = deg, ~ (forall j, (p | List.nth j u 0%Z)%Z) &
    forall y, In_rowspanZ deg y i_p ->
      exists z, In_rowspanZ deg z i_p /\ tmul T deg u y = MatZ.vscale p z].
Proof.
case: deg => [|d] hd pp ct hc ha [one [sone hone]] tbl pow hpow wip hrad Npos LN Lmul sw0 Lw0 Pw0 nw0; first by lia.
have pr := prime_Z_nat pp.
have p1 : (1 < p)%Z by case: pp.
have ep : Z.of_nat (Z.to_nat p) = p by lia.
have eN : Z.of_nat (Z.to_nat N) = N by lia.
pose q := expn (Z.to_nat p) k.
have eq : pow = Z.of_nat q by rewrite /pow /q expn_pow Nat2Z.inj_pow ep.
have nq : (d.+1 <= q)%nat by apply/leP; lia.
have ctb : cube d.+1 tbl by exact: cube_red.
have htb : forall i j k0, (i < d.+1)%nat -> (j < d.+1)%nat -> (k0 < d.+1)%nat ->
    (Z.of_nat (Z.to_nat p) | T3 T i j k0 - T3 tbl i j k0)%Z.
  by move=> i j k0 hi hj hk; rewrite ep; apply: (red_table_congr _ ct).
have p0 : p <> 0%Z by lia.
have q1 : (1 <= Z.of_nat q)%Z by lia.
have Hrad x : size x = d.+1 -> (In_rowspanZ d.+1 x i_p <-> M d (Z.to_nat p) T x ^+ q = 0).
  move=> sx; split.
    move=> /hrad [_ [r [er dr]]].
    have er' : pow_mod_p x (Z.of_nat q) tbl (Z.of_nat (Z.to_nat p)) = Done r by rewrite ep -eq.
    have [sr] := M_pow_mod_p pr ha hc ctb htb sx q1 er'; rewrite Nat2Z.id.
    move=> <-; rewrite -(M_vzero d (Z.to_nat p) T); apply: (M_congr d T pr) => j.
    rewrite nth_vzero Z.sub_0_r ep.
    case: (ltnP j d.+1) => /ltP hj; first exact: dr.
    by rewrite List.nth_overflow; [exists 0%Z|rewrite Llength_eq' sr; lia].
  move=> e0; apply/hrad; split=> //.
  have [r [er lr]] := Round2W3Step.pow_mod_p_total d.+1 tbl p x pow ctb p0 sx.
  exists r; split=> // j hj.
  have er' : pow_mod_p x (Z.of_nat q) tbl (Z.of_nat (Z.to_nat p)) = Done r by rewrite ep -eq.
  have [sr Mr] := M_pow_mod_p pr ha hc ctb htb sx q1 er'.
  have := @M_inj d (Z.to_nat p) T pr hc one sone hone r (vzero d.+1) sr (vzero_length d.+1).
  rewrite Mr Nat2Z.id e0 M_vzero => /(_ (erefl _) j).
  by rewrite nth_vzero Z.sub_0_r ep.
have Npos' : (0 < Z.to_nat N)%nat by apply/ltP; lia.
have LN' : forall y, size y = d.+1 -> Ll (MatZ.vscale (Z.of_nat (Z.to_nat N)) y) by rewrite eN.
have Lmul' : forall a b, size a = d.+1 -> size b = d.+1 -> Ll a -> Ll b ->
    exists c, [/\ size c = d.+1, Ll c & tmul T d.+1 a b = MatZ.vscale (Z.of_nat (Z.to_nat N)) c] by rewrite eN.
have Pw0' : forall j, Z.divide (Z.of_nat (Z.to_nat N)) (Z.mul (Z.of_nat (Z.to_nat p)) (List.nth j w0 0%Z)) by rewrite eN ep.
have nw0' : ~ forall j, Z.divide (Z.of_nat (Z.to_nat N)) (List.nth j w0 0%Z) by rewrite eN.
have := @Round2W4Ring.pz_ring d T ha hc one sone hone (Z.to_nat p) pr q nq (Z.to_nat N) Npos' Ll LN' Lmul'
  i_p wip Hrad w0 sw0 Lw0 Pw0' nw0'.
by rewrite ep.
Qed.
