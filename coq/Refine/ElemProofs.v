(** * Proofs about the elementary helpers of [Model/Elementary.v] (stdlib + lia/nia). *)
From Coq Require Import ZArith List Bool Lia Znumtheory Sorted Arith PeanoNat.
From RNT.Model Require Import Base Elementary.
Open Scope Z_scope.

(** ** C19: modular inverse *)

Lemma extgcd_division_sound : forall fuel a b g x y,
  extgcd_division fuel a b = Done (g, x, y) ->
  a * x + b * y = g /\ Z.abs g = Z.gcd a b.
Proof.
  induction fuel as [|f IH]; intros a b g x y H; cbn [extgcd_division] in H; [discriminate|].
  destruct (Z.eqb_spec b 0) as [->|Hb].
  - inversion H; subst. split; [ring|]. rewrite Z.gcd_0_r. reflexivity.
  - destruct (extgcd_division f b (Z.rem a b)) as [[[g' x'] y']| |] eqn:E; cbn [bind] in H; try discriminate.
    inversion H; subst. apply IH in E. destruct E as [E1 E2].
    pose proof (Z.quot_rem' a b) as Hqr.
    split.
    + rewrite <- E1. rewrite Hqr at 1. ring.
    + rewrite E2. rewrite (Z.gcd_comm a b).
      replace (Z.rem a b) with (a + (- Z.quot a b) * b) by (rewrite Hqr at 1; ring).
      apply Z.gcd_add_mult_diag_r.
Qed.

(** Two calls at least halve the absolute value of the second argument. *)
Lemma extgcd_division_fuel : forall k fuel a b,
  (2 * k + 1 <= fuel)%nat -> Z.abs b < 2 ^ Z.of_nat k ->
  exists r, extgcd_division fuel a b = Done r.
Proof.
  induction k as [|k IH]; intros fuel a b Hf Hb.
  - destruct fuel as [|f]; [lia|]. cbn [extgcd_division].
    change (2 ^ Z.of_nat 0) with 1 in Hb.
    destruct (Z.eqb_spec b 0); [eauto | lia].
  - destruct fuel as [|[|f]]; try lia.
    cbn [extgcd_division].
    destruct (Z.eqb_spec b 0) as [->|Hb0]; [eauto|].
    destruct (Z.eqb_spec (Z.rem a b) 0) as [Hr|Hr0]; [cbn [bind]; eauto|].
    set (r1 := Z.rem a b) in *. set (r2 := Z.rem b r1).
    destruct (IH f r1 r2) as [[[g x] y] E]; [lia| |rewrite E; cbn [bind]; eauto].
    rewrite Nat2Z.inj_succ, Z.pow_succ_r in Hb by lia.
    pose proof (Z.rem_bound_abs a b Hb0) as B1. fold r1 in B1.
    pose proof (Z.rem_bound_abs b r1 Hr0) as B2. fold r2 in B2.
    pose proof (Z.quot_rem' b r1) as Q. fold r2 in Q.
    pose proof (Z.rem_sign_nz b r1) as S. fold r2 in S.
    destruct (Z.eq_dec r2 0) as [->|Hr2]; [lia|]. specialize (S Hr0 Hr2).
    assert (Z.quot b r1 <> 0) by (intro Hq; apply Z.quot_small_iff in Hq; lia).
    nia.
Qed.

Lemma extgcd_fuel_suffices : forall a b, exists r, extgcd a b = Done r.
Proof.
  intros a b. unfold extgcd, extgcd_fuel.
  apply (extgcd_division_fuel (Z.to_nat (Z.log2 (Z.abs b) + 1))); [lia|].
  rewrite Z2Nat.id by (pose proof (Z.log2_nonneg (Z.abs b)); lia).
  destruct (Z.eq_dec b 0) as [->|Hb]; [reflexivity|].
  apply Z.log2_spec. lia.
Qed.

Lemma extgcd_never_out_of_fuel : forall a b, extgcd a b <> OutOfFuel.
Proof. intros a b. destruct (extgcd_fuel_suffices a b) as [r ->]. discriminate. Qed.

Lemma zmod_spec : forall x mo, 0 < mo -> zmod x mo = Done (x mod mo).
Proof.
  intros x mo Hmo. unfold zmod, zrem.
  destruct (Z.eqb_spec mo 0); [lia|]. cbn [bind]. f_equal.
  pose proof (Z.quot_rem' x mo) as Q.
  pose proof (Z.rem_bound_abs x mo ltac:(lia)) as B.
  destruct (Z.ltb_spec (Z.rem x mo) 0).
  - apply (Z.mod_unique_pos _ _ (Z.quot x mo - 1)); lia.
  - apply (Z.mod_unique_pos _ _ (Z.quot x mo)); lia.
Qed.

Lemma inv_spec : forall a m, 1 <= m ->
  (Z.gcd a m = 1 -> exists x, inv a m = Done (InvOk x) /\ 0 <= x < m /\ (a * x) mod m = 1 mod m) /\
  (Z.gcd a m <> 1 -> inv a m = Done (InvErr (Z.gcd a m))).
Proof.
  intros a m Hm. unfold inv.
  destruct (extgcd_fuel_suffices a m) as [[[g x] y] E]. rewrite E. cbn [bind].
  apply extgcd_division_sound in E. destruct E as [E1 E2]. rewrite E2.
  split; intros Hg.
  - rewrite Hg. cbn [Z.eqb negb]. rewrite zmod_spec by lia. cbn [bind].
    exists ((x * g) mod m). split; [reflexivity|]. split; [apply Z.mod_pos_bound; lia|].
    rewrite Z.mul_mod_idemp_r by lia.
    assert (Hgg : g * g = 1) by (rewrite Hg in E2; lia).
    replace (a * (x * g)) with (1 + (- y * g) * m) by (rewrite <- Hgg at 1; rewrite <- E1; ring).
    apply Z.mod_add. lia.
  - destruct (Z.eqb_spec (Z.gcd a m) 1); [contradiction|]. reflexivity.
Qed.

(** ** C19: floor roots and perfect powers *)

Lemma iroot_loop_spec : forall i k n r,
  1 <= k -> 0 <= r -> r ^ k <= n < (r + 2 ^ Z.of_nat i) ^ k ->
  let s := iroot_loop i k n r in 0 <= s /\ s ^ k <= n < (s + 1) ^ k.
Proof.
  induction i as [|i IH]; intros k n r Hk Hr H; cbn [iroot_loop].
  - change (2 ^ Z.of_nat 0) with 1 in H. lia.
  - rewrite Nat2Z.inj_succ, Z.pow_succ_r in H by lia.
    assert (0 < 2 ^ Z.of_nat i) by (apply Z.pow_pos_nonneg; lia).
    destruct (Z.leb_spec ((r + 2 ^ Z.of_nat i) ^ k) n).
    + apply IH; [lia|lia|]. split; [lia|].
      replace (r + 2 ^ Z.of_nat i + 2 ^ Z.of_nat i) with (r + 2 * 2 ^ Z.of_nat i) by ring. lia.
    + apply IH; lia.
Qed.

Lemma zbits_spec : forall n, 0 <= n -> 0 <= zbits n /\ n < 2 ^ zbits n.
Proof.
  intros n Hn. unfold zbits. destruct (Z.leb_spec n 0).
  - assert (n = 0) by lia. subst. cbn. lia.
  - pose proof (Z.log2_nonneg n). split; [lia|]. apply Z.log2_spec. lia.
Qed.

(** [P] the model of [nth_root] is the floor root. *)
Lemma iroot_spec : forall k n, 1 <= k -> 0 <= n ->
  0 <= iroot k n /\ iroot k n ^ k <= n < (iroot k n + 1) ^ k.
Proof.
  intros k n Hk Hn. unfold iroot.
  destruct (zbits_spec n Hn) as [Hb0 Hb].
  apply iroot_loop_spec; [lia|lia|].
  rewrite Z.pow_0_l by lia. split; [lia|]. rewrite Z.add_0_l.
  assert (0 <= zbits n / k) by (apply Z.div_pos; lia).
  rewrite Z2Nat.id by lia. rewrite <- Z.pow_mul_r by lia.
  eapply Z.lt_le_trans; [exact Hb|]. apply Z.pow_le_mono_r; [lia|].
  pose proof (Z.mul_succ_div_gt (zbits n) k ltac:(lia)). lia.
Qed.

Lemma pow_root_unique : forall k x y, 1 <= k -> 0 <= x -> 0 <= y -> x ^ k <= y ^ k < (x + 1) ^ k -> x = y.
Proof.
  intros k x y Hk Hx Hy [H1 H2].
  destruct (Z.lt_trichotomy x y) as [L|[E|G]]; [|exact E|].
  - assert ((x + 1) ^ k <= y ^ k) by (apply Z.pow_le_mono_l; lia). lia.
  - assert (y ^ k < x ^ k) by (apply Z.pow_lt_mono_l; lia). lia.
Qed.

Lemma is_perfect_power_some : forall n k b, 1 <= k -> 0 <= n ->
  is_perfect_power n k = Some b -> 0 <= b /\ b ^ k = n.
Proof.
  intros n k b Hk Hn. unfold is_perfect_power.
  destruct (iroot_spec k n Hk Hn) as [H0 _].
  destruct (Z.eqb_spec (iroot k n ^ k) n); [|discriminate].
  intros [= <-]. auto.
Qed.

Lemma is_perfect_power_none : forall n k x, 1 <= k -> 0 <= n ->
  is_perfect_power n k = None -> x ^ k <> n.
Proof.
  intros n k x Hk Hn. unfold is_perfect_power.
  destruct (iroot_spec k n Hk Hn) as [H0 H1].
  destruct (Z.eqb_spec (iroot k n ^ k) n) as [|Hne]; [discriminate|]. intros _ Hx.
  apply Hne.
  assert (Hax : Z.abs x ^ k = n) by (rewrite <- Z.abs_pow, Hx; lia).
  rewrite (pow_root_unique k (iroot k n) (Z.abs x)); [exact Hax | lia | lia | lia | lia].
Qed.

(** The downward search returns the largest exponent in [2, i+1] with an exact root, else (n, 1). *)
Lemma pp_search_spec : forall i n b k, 0 <= n -> pp_search i n = (b, k) ->
  b ^ k = n /\ 1 <= k <= Z.of_nat i + 1 /\ (forall k' x, k < k' <= Z.of_nat i + 1 -> x ^ k' <> n).
Proof.
  induction i as [|i IH]; intros n b k Hn H; cbn [pp_search] in H.
  - inversion H; subst. split; [apply Z.pow_1_r|]. split; [lia|]. intros; lia.
  - destruct (is_perfect_power n (Z.of_nat i + 2)) as [b'|] eqn:E.
    + inversion H; subst. apply is_perfect_power_some in E; [|lia|lia].
      split; [apply E|]. split; [lia|]. intros; lia.
    + destruct (IH n b k Hn H) as (H1 & H2 & H3). split; [exact H1|]. split; [lia|].
      intros k' x Hk'. destruct (Z.eq_dec k' (Z.of_nat i + 2)) as [->|Hne].
      * eapply is_perfect_power_none; eauto; lia.
      * apply H3. lia.
Qed.

(** [P] perfect_power: n >= 0 gives (b, k) with b^k = n, k >= 1; for n >= 2 no larger exponent has an
    exact integer root (for n = 0, 1 every exponent has one and the code returns k = 1). *)
Lemma perfect_power_spec : forall n, 0 <= n ->
  exists b k, perfect_power n = Done (b, k) /\ b ^ k = n /\ 1 <= k /\ (2 <= n -> forall k' x, k < k' -> x ^ k' <> n).
Proof.
  intros n Hn. unfold perfect_power.
  destruct (Z.ltb_spec n 0); [lia|].
  destruct (Z.leb_spec n 1).
  - exists n, 1. split; [reflexivity|]. split; [apply Z.pow_1_r|]. split; [lia|]. intros; lia.
  - destruct (pp_search (Z.to_nat (zbits n - 1)) n) as [b k] eqn:E.
    exists b, k. split; [reflexivity|].
    apply pp_search_spec in E; [|lia]. destruct E as (E1 & E2 & E3).
    split; [exact E1|]. split; [lia|]. intros _ k' x Hk' Hx.
    assert (Hz : zbits n = Z.log2 n + 1) by (unfold zbits; destruct (Z.leb_spec n 0); lia).
    pose proof (Z.log2_nonneg n).
    rewrite Z2Nat.id in E3 by lia.
    destruct (Z.le_gt_cases k' (zbits n)) as [Hle|Hgt]; [apply (E3 k' x); lia|].
    (* k' > bit length: |x| >= 2 would give |x|^k' >= 2^k' > n *)
    assert (Hax : Z.abs x ^ k' = n) by (rewrite <- Z.abs_pow, Hx; lia).
    assert (2 <= Z.abs x).
    { destruct (Z.eq_dec (Z.abs x) 0) as [e|]; [rewrite e, Z.pow_0_l in Hax; lia|].
      destruct (Z.eq_dec (Z.abs x) 1) as [e|]; [rewrite e, Z.pow_1_l in Hax; lia|]. lia. }
    assert (2 ^ k' <= Z.abs x ^ k') by (apply Z.pow_le_mono_l; lia).
    assert (2 ^ zbits n <= 2 ^ k') by (apply Z.pow_le_mono_r; lia).
    pose proof (proj2 (zbits_spec n Hn)). lia.
Qed.

Lemma perfect_power_negative : forall n, n < 0 -> perfect_power n = Panic POther.
Proof. intros n H. unfold perfect_power. destruct (Z.ltb_spec n 0); [reflexivity|lia]. Qed.

(** ** C13: the early returns of [is_prime] *)

(** [P] false for n <= 1, true for 2, false for even n > 2, whatever the draw stream (which is left untouched). *)
Lemma is_prime_small : forall n r,
  (n <= 1 -> is_prime n r = Done (false, r)) /\
  (n = 2 -> is_prime n r = Done (true, r)) /\
  (2 < n -> Z.even n = true -> is_prime n r = Done (false, r)).
Proof.
  intros n r. unfold is_prime. repeat split.
  - intros H. destruct (Z.leb_spec n 1); [reflexivity | lia].
  - intros ->. reflexivity.
  - intros H He. destruct (Z.leb_spec n 1); [lia|].
    destruct (Z.eqb_spec n 2); [lia|]. rewrite He. reflexivity.
Qed.

(** ** Primality through divisors *)

Lemma prime_iff_no_divisor : forall p, prime p <-> 1 < p /\ forall d, 1 < d < p -> ~ (d | p).
Proof.
  intros p. split.
  - intros Hp. split; [destruct Hp; assumption|]. intros d Hd D.
    apply prime_divisors in D; [|exact Hp]. lia.
  - intros [H1 H2]. apply prime_intro; [exact H1|]. intros n Hn.
    apply Zgcd_1_rel_prime.
    pose proof (Z.gcd_nonneg n p) as G0.
    pose proof (Z.gcd_divide_l n p) as Gl. pose proof (Z.gcd_divide_r n p) as Gr.
    assert (Z.gcd n p <> 0) by (intro E; apply Z.gcd_eq_0_l in E; lia).
    assert (Z.gcd n p <= n) by (apply Z.divide_pos_le; [lia|exact Gl]).
    destruct (Z.eq_dec (Z.gcd n p) 1) as [|NE]; [assumption|].
    exfalso. apply (H2 (Z.gcd n p)); [lia|exact Gr].
Qed.

Lemma nat_divide_Z : forall d m : nat, Nat.divide d m <-> (Z.of_nat d | Z.of_nat m).
Proof.
  intros d m. split.
  - intros [q ->]. exists (Z.of_nat q). lia.
  - intros [q Hq]. destruct (Nat.eq_dec d 0) as [->|Hd].
    + exists 0%nat. lia.
    + exists (Z.to_nat q). assert (0 <= q) by nia. nia.
Qed.

Lemma prime_nat_iff : forall p : nat,
  prime (Z.of_nat p) <-> (2 <= p)%nat /\ forall d, (2 <= d < p)%nat -> ~ Nat.divide d p.
Proof.
  intros p. rewrite prime_iff_no_divisor. split.
  - intros [H1 H2]. split; [lia|]. intros d Hd D. apply nat_divide_Z in D. apply (H2 (Z.of_nat d)); [lia|exact D].
  - intros [H1 H2]. split; [lia|]. intros d Hd D. apply (H2 (Z.to_nat d)); [lia|].
    apply nat_divide_Z. rewrite Z2Nat.id by lia. exact D.
Qed.

(** ** C19: sieve of Eratosthenes *)

Lemma nth_clear_at : forall l idx m,
  nth m (clear_at l idx) false = if Nat.eqb m idx then false else nth m l false.
Proof.
  induction l as [|h t IH]; intros idx m.
  - cbn [clear_at]. destruct (Nat.eqb m idx); destruct m; reflexivity.
  - destruct idx as [|i]; destruct m as [|m]; cbn [clear_at nth Nat.eqb]; try reflexivity. apply IH.
Qed.

Lemma nth_mark_multiples : forall cnt i j arr m,
  nth m (mark_multiples cnt i j arr) false = true <->
  nth m arr false = true /\ forall j', (j <= j' < j + cnt)%nat -> m <> (i * j')%nat.
Proof.
  induction cnt as [|c IH]; intros i j arr m; cbn [mark_multiples].
  - split; [intros H; split; [exact H|intros; lia]|intros [H _]; exact H].
  - rewrite IH, nth_clear_at. destruct (Nat.eqb_spec m (i * j)) as [E|NE].
    + split; [intros [H _]; discriminate|]. intros [_ H]. exfalso. apply (H j); [lia|exact E].
    + split.
      * intros [H1 H2]. split; [exact H1|]. intros j' Hj'.
        destruct (Nat.eq_dec j' j) as [->|]; [exact NE|apply H2; lia].
      * intros [H1 H2]. split; [exact H1|]. intros j' Hj'. apply H2. lia.
Qed.

Lemma nth_repeat_true : forall n m, nth m (repeat true n) false = true <-> (m < n)%nat.
Proof.
  induction n as [|n IH]; intros m; cbn [repeat].
  - destruct m; cbn; split; [discriminate|lia|discriminate|lia].
  - destruct m as [|m]; cbn [nth]; [split; [lia|reflexivity]|]. rewrite IH. lia.
Qed.

(** Invariant: below [i0] every proper multiple has been struck. *)
Definition sieved (bound i0 : nat) (arr : list bool) : Prop :=
  forall m, (m <= bound)%nat ->
    (nth m arr false = true <-> (2 <= m)%nat /\ forall d, (2 <= d < i0)%nat -> (d < m)%nat -> ~ Nat.divide d m).

Lemma sieve_loop_inv : forall cnt bound i arr,
  (2 <= i)%nat -> (i + cnt = bound + 1)%nat -> sieved bound i arr ->
  sieved bound (bound + 1) (sieve_loop cnt bound i arr).
Proof.
  induction cnt as [|c IH]; intros bound i arr Hi Hc P; cbn [sieve_loop].
  - replace (bound + 1)%nat with i by lia. exact P.
  - apply IH; [lia|lia|]. intros m Hm.
    destruct (nth i arr false) eqn:Ei.
    + rewrite nth_mark_multiples. rewrite (P m Hm). split.
      * intros [[H2 H3] H4]. split; [exact H2|]. intros d Hd Hdm D.
        destruct (Nat.eq_dec d i) as [->|Hne]; [|apply (H3 d); [lia|exact Hdm|exact D]].
        destruct D as [q Hq].
        assert (2 <= q)%nat by nia.
        assert (q <= bound / i)%nat by (apply Nat.div_le_lower_bound; nia).
        apply (H4 q); [lia|lia].
      * intros [H2 H3]. split; [split; [exact H2|]|].
        -- intros d Hd Hdm. apply H3; [lia|exact Hdm].
        -- intros j' Hj' E. apply (H3 i); [lia|nia|]. exists j'. lia.
    + rewrite (P m Hm). split.
      * intros [H2 H3]. split; [exact H2|]. intros d Hd Hdm D.
        destruct (Nat.eq_dec d i) as [->|Hne]; [|apply (H3 d); [lia|exact Hdm|exact D]].
        assert (Hi' : nth i arr false = true).
        { apply (P i); [lia|]. split; [exact Hi|]. intros d' Hd' Hd'i D'.
          apply (H3 d'); [lia|lia|]. eapply Nat.divide_trans; eauto. }
        congruence.
      * intros [H2 H3]. split; [exact H2|]. intros d Hd Hdm. apply H3; [lia|exact Hdm].
Qed.

Lemma sieve_correct : forall bound m, (m <= bound)%nat ->
  (nth m (sieve bound) false = true <-> prime (Z.of_nat m)).
Proof.
  intros bound m Hm. rewrite prime_nat_iff. unfold sieve.
  set (arr0 := if (1 <=? bound)%nat then clear_at (clear_at (repeat true (S bound)) 0) 1
               else clear_at (repeat true (S bound)) 0).
  assert (P0 : sieved bound 2 arr0).
  { intros k Hk. unfold arr0. destruct (Nat.leb_spec 1 bound).
    - rewrite !nth_clear_at. destruct k as [|[|k]]; cbn [Nat.eqb].
      + split; [discriminate|lia].
      + split; [discriminate|lia].
      + rewrite nth_repeat_true. split; [intros _; split; [lia|intros; lia]|intros _; lia].
    - assert (k = 0)%nat by lia. subst k. rewrite nth_clear_at. cbn [Nat.eqb]. split; [discriminate|lia]. }
  destruct (Nat.eq_dec bound 0) as [->|Hb].
  - assert (m = 0)%nat by lia. subst m. cbn. split; [discriminate|lia].
  - pose proof (sieve_loop_inv (bound - 1) bound 2 arr0 ltac:(lia) ltac:(lia) P0 m Hm) as S.
    rewrite S. split.
    + intros [H2 H3]. split; [exact H2|]. intros d Hd. apply H3; lia.
    + intros [H2 H3]. split; [exact H2|]. intros d Hd Hdm. apply H3; lia.
Qed.

Lemma StronglySorted_seq : forall n a, StronglySorted lt (seq a n).
Proof.
  induction n as [|n IH]; intros a; cbn [seq]; constructor; [apply IH|].
  apply Forall_forall. intros x Hx. apply in_seq in Hx. lia.
Qed.

Lemma StronglySorted_filter : forall (f : nat -> bool) l, StronglySorted lt l -> StronglySorted lt (filter f l).
Proof.
  intros f l H. induction H as [|a l H IH F]; cbn [filter]; [constructor|].
  destruct (f a); [|exact IH]. constructor; [exact IH|].
  apply Forall_forall. intros x Hx. apply filter_In in Hx. destruct Hx as [Hx _].
  rewrite Forall_forall in F. auto.
Qed.

(** [P] the sieve returns exactly the primes <= bound, in increasing order
    (primality = [Znumtheory.prime] of the index). *)
Lemma primes_spec : forall bound,
  StronglySorted lt (primes bound) /\
  forall p, In p (primes bound) <-> (p <= bound)%nat /\ prime (Z.of_nat p).
Proof.
  intros bound. unfold primes. split.
  - apply StronglySorted_filter, StronglySorted_seq.
  - intros p. rewrite filter_In, in_seq. split.
    + intros [Hr Hn]. assert (p <= bound)%nat by lia. split; [assumption|]. apply (sieve_correct bound p); assumption.
    + intros [Hb Hp]. pose proof (proj1 (prime_nat_iff p) Hp) as [H2 _].
      split; [lia|]. apply (sieve_correct bound p); assumption.
Qed.

(** ** C19: trial-division primality and the prime iterator *)

Lemma no_small_divisor_prime : forall a, 1 < a ->
  (forall d, 1 < d -> d * d <= a -> ~ (d | a)) -> prime a.
Proof.
  intros a Ha H. apply prime_iff_no_divisor. split; [exact Ha|].
  intros d Hd [q Hq].
  assert (1 < q) by nia.
  destruct (Z.le_gt_cases (d * d) a) as [L|G].
  - apply (H d); [lia|exact L|exists q; exact Hq].
  - apply (H q); [lia|nia|exists d; lia].
Qed.

Lemma rem_zero_divide : forall a d, 0 <= a -> 0 < d -> (Z.rem a d = 0 <-> (d | a)).
Proof.
  intros a d Ha Hd. rewrite Z.rem_mod_nonneg by lia. split.
  - intros H. apply Z.mod_divide; [lia|exact H].
  - intros H. apply Z.mod_divide in H; [exact H|lia].
Qed.

Lemma td_loop_spec : forall fuel a d, 1 < a -> 2 <= d ->
  (forall e, 1 < e < d -> ~ (e | a)) ->
  (Z.sqrt a + 2 <= Z.of_nat fuel + d) -> (1 <= fuel)%nat ->
  exists b, td_loop fuel a d = Done b /\ (b = true <-> prime a).
Proof.
  induction fuel as [|f IH]; intros a d Ha Hd Hno Hf Hf1; [lia|]. cbn [td_loop].
  destruct (Z.leb_spec (d * d) a) as [L|G].
  - destruct (Z.eqb_spec (Z.rem a d) 0) as [E|NE].
    + exists false. split; [reflexivity|]. split; [discriminate|]. intros Hp. exfalso.
      apply rem_zero_divide in E; [|lia|lia]. apply prime_divisors in E; [|exact Hp]. nia.
    + assert (d <= Z.sqrt a) by (apply Z.sqrt_le_square; lia).
      apply IH; [lia|lia| |lia|lia].
      intros e He D. destruct (Z.eq_dec e d) as [->|]; [|apply (Hno e); [lia|exact D]].
      apply NE. apply rem_zero_divide; [lia|lia|exact D].
  - exists true. split; [reflexivity|]. split; [|reflexivity]. intros _.
    apply no_small_divisor_prime; [exact Ha|]. intros e He1 He2 D.
    apply (Hno e); [nia|exact D].
Qed.

Lemma td_is_prime_spec : forall a, exists b, td_is_prime a = Done b /\ (b = true <-> prime a).
Proof.
  intros a. unfold td_is_prime. destruct (Z.leb_spec a 1) as [L|G].
  - exists false. split; [reflexivity|]. split; [discriminate|]. intros [H _]. lia.
  - pose proof (Z.sqrt_nonneg a). apply td_loop_spec; [lia|lia|intros; lia|lia|lia].
Qed.

Lemma primes_next_spec : forall fuel now p now',
  primes_next fuel now = Done (p, now') ->
  now' = p + 1 /\ now <= p /\ prime p /\ forall q, now <= q < p -> ~ prime q.
Proof.
  induction fuel as [|f IH]; intros now p now' H; cbn [primes_next] in H; [discriminate|].
  destruct (td_is_prime_spec now) as (b & E & Hb). rewrite E in H. cbn [bind] in H.
  destruct b.
  - inversion H; subst. split; [reflexivity|]. split; [lia|]. split; [apply Hb; reflexivity|]. intros; lia.
  - apply IH in H. destruct H as (H1 & H2 & H3 & H4). split; [exact H1|]. split; [lia|]. split; [exact H3|].
    intros q Hq. destruct (Z.eq_dec q now) as [->|]; [|apply H4; lia].
    intros Hp. apply Hb in Hp. discriminate.
Qed.

(** [P] (partial correctness) if the iterator model returns [l] for [take k] started at [now], then [l] has length k,
    is strictly increasing, and consists exactly of the primes between [now] and its last element: for now = 2,
    the first k primes. That the fuel given to one [next] (now + 2 candidates) suffices is Bertrand's postulate, which
    is not available; the statement therefore excludes OutOfFuel by hypothesis. *)
Lemma primes_take_spec : forall k now l, primes_take k now = Done l ->
  length l = k /\ StronglySorted Z.lt l /\
  (forall p, In p l -> now <= p /\ prime p) /\
  (forall q p, prime q -> now <= q -> In p l -> q <= p -> In q l).
Proof.
  induction k as [|k IH]; intros now l H; cbn [primes_take] in H.
  - inversion H; subst. split; [reflexivity|]. split; [constructor|]. split; intros; contradiction.
  - destruct (primes_next (Z.to_nat now + 2) now) as [[p now']| |] eqn:E; cbn [bind] in H; try discriminate.
    destruct (primes_take k now') as [rest| |] eqn:R; cbn [bind] in H; try discriminate.
    inversion H; subst. apply primes_next_spec in E. destruct E as (-> & E2 & E3 & E4).
    apply IH in R. destruct R as (R1 & R2 & R3 & R4).
    split; [cbn; lia|]. split; [|split].
    + constructor; [exact R2|]. apply Forall_forall. intros x Hx. apply R3 in Hx. lia.
    + intros x [<-|Hx]; [auto|]. apply R3 in Hx. split; [lia|apply Hx].
    + intros q x Hq Hnq [<-|Hx] Hqx.
      * destruct (Z.eq_dec q p) as [->|]; [left; reflexivity|]. exfalso. apply (E4 q); [lia|exact Hq].
      * destruct (Z.eq_dec q p) as [->|]; [left; reflexivity|]. right.
        apply (R4 q x); auto. destruct (Z.le_gt_cases (p + 1) q); [assumption|].
        exfalso. apply (E4 q); [lia|exact Hq].
Qed.
