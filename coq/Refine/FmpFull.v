(** * C08 (second wave): irreducibility and distinctness of the factors returned by
    [factorize_mod_p] (ssreflect).

    - [squarefree]: the product of the returned parts (multiplicities dropped) is square-free
      (invariants: [Rad result * v] is square-free, [Rad result] is coprime to [t]; the first [v]
      of every outer round, t0 / gcd(t0, t0'), is square-free);
    - the same "radical" is carried unchanged (up to units) through [degree], [final_split] and the
      normalisation, so the returned monic factors are pairwise coprime, hence distinct;
    - [degree] on a square-free part separates the degrees ([FmpDegree]) and [final_split] then
      returns irreducible pieces ([FmpSplit]). *)
From Coq Require Import ZArith List Lia Znumtheory.
From mathcomp Require Import all_ssreflect ssralg poly polydiv ssrint zmodp.
From RNT.Model Require Import Base Poly PolyModP FactorModP.
From RNT.Refine Require Import PolyModPArith PolyModPDivList FermatZ PolyZmod PolyModPDiv MonicZ PolyModPGcd FpPoly HenselProofs FactorNorm FactorProd FpTotal FmpField FmpSqf FmpProduct FmpIrred FmpDegree FmpSplit.
From mathcomp Require Import ssrZ zify ring.
Set Implicit Arguments. Unset Strict Implicit. Unset Printing Implicit Defensive.
Import GRing.Theory.
Local Open Scope ring_scope.

Section Prime.
Variable p : Z.
Hypothesis Hp : Znumtheory.prime p.
Let Hp2 := prime_ge_2 _ Hp.
Let Hpp : (0 < p)%ZZ. Proof. lia. Qed.
Let Hp0 : p <> Z0. Proof. lia. Qed.

Notation n := (pnat p).
Notation RP l := (redp n (PZ l)).
Let n_prime := n_prime Hp.

(** The product of the first components. *)
Fixpoint Rad (l : list (list Z * Z)) : {poly 'F_n} :=
  if l is ge :: l' then RP ge.1 * Rad l' else 1.

Lemma Rad_cat a b : Rad (a ++ b) = Rad a * Rad b.
Proof. elim: a => [|x a IH] /=; first by rewrite mul1r. by rewrite IH mulrA. Qed.

Lemma Rad_rcons a g e : Rad (a ++ [:: (g, e)]) = Rad a * RP g.
Proof. by rewrite Rad_cat /= mulr1. Qed.

Lemma sqfreep1 : sqfreep (1 : {poly 'F_n}).
Proof. rewrite -polyC1. apply: sqfreep_const. exact: oner_neq0. Qed.

(** ** squarefree *)

Lemma sqJ_step_coprime t v w aek r1 t' r2 :
  sqJ p t v -> poly_gcd t v p = Done w ->
  poly_divrem v w p = Done (aek, r1) -> poly_divrem t w p = Done (t', r2) ->
  coprimep (RP t') (RP aek).
Proof.
  move=> [Rt [Rv Hd]] Ew Ea Et.
  have [Rw [[s Hs] [tt Htt]]] := gcd_rnz Hp (proj1 Rt) Rv Ew.
  have [Raek EV] := quot_RP Hp Rv Rw Htt Ea.
  have [Rt' ET] := quot_RP Hp Rt Rw Hs Et.
  have W0 := rnz_RP Hp Rw.
  have G := gcd_RP Hp (proj1 Rt) (proj1 Rv) Ew. rewrite ET EV in G.
  have G2 := eqp_trans G (gcdp_mul2r (RP t') (RP aek) (RP w)).
  rewrite -{1}[RP w]mul1r eqp_mul2r // in G2.
  by rewrite coprimep_def size_poly_eq1 eqp_sym.
Qed.

Lemma sqJ_start_sqfree t0 der t v r :
  rnz p t0 -> differential t0 p = Done der -> poly_gcd t0 der p = Done t ->
  poly_divrem t0 t p = Done (v, r) -> sqfreep (RP v).
Proof.
  move=> R0 Ed Et Ev.
  have Rder := differential_reduced Hp Ed.
  have [J [E0 _]] := sqJ_start Hp R0 Ed Et Ev.
  have G := gcd_RP Hp (proj1 R0) Rder Et. rewrite (differential_RP Hp Ed) in G.
  exact: (sqfreep_radical n_prime (rnz_RP Hp R0) G E0).
Qed.

Section Sqf.
Variable md : mode.

Lemma sqf_inner_rad : forall fuel e t v k result ex,
  sqJ p t v -> sqfreep (Rad result * RP v) -> coprimep (Rad result) (RP t) ->
  sqf_inner fuel md p p e t v k result = Done ex ->
  match ex with
  | SqBreak res' => sqfreep (Rad res')
  | SqContinue t0' e' res' => reduced p t0' /\ sqfreep (Rad res') /\ coprimep (Rad res') (RP t0')
  end.
Proof.
  elim=> [|f IH] e t v k result ex J S C //=.
  have [Rt [Rv _]] := J.
  have Sres : sqfreep (Rad result) by apply: sqfreep_dvd S _; exact: dvdp_mulr.
  case Ev: (pdeg v =? 0)%ZZ.
  - case Et: (pdeg t =? 0)%ZZ; first by case=> <-.
    have -> : (p =? 0)%ZZ = false by apply/Z.eqb_neq.
    case: t Rt Et J C => [|c0 t1] Rt Et J C; first by case: Rt.
    have Erp := pth_root_RP Hp J Ev (erefl _).
    case Ee: (u64_norm md _) => [e'| |] //=. case=> <-.
    split.
    { split; first exact: from_raw_canonical. apply: strip_Forall. apply: (pth_root_raw_range Hp). by case: Rt => [[]]. }
    split=> //. apply: coprimep_dvdl C. rewrite Erp.
    have -> : n = (n.-1).+1 by have := prime_gt0 n_prime; lia.
    rewrite exprS. exact: dvdp_mulr.
  - case Ew: (poly_gcd t v p) => [w| |] //=.
    case Ea: (poly_divrem v w p) => [[aek rem1]| |] //=.
    case Etq: (poly_divrem t w p) => [[t' rem2]| |] //=.
    have [J' [Raek [ET EV]]] := sqJ_step Hp J Ew Ea Etq.
    have Cop := sqJ_step_coprime J Ew Ea Etq.
    have C' : coprimep (Rad result) (RP t') by apply: coprimep_dvdl C; rewrite ET; exact: dvdp_mulr.
    case Eae: (pdeg aek =? 0)%ZZ => /=.
    + apply: (IH _ _ _ _ _ _ J') => //.
      apply: sqfreep_dvd S _. rewrite EV. apply: dvdp_mul => //. exact: dvdp_mull.
    + case Ek: (u64_norm md _) => [ek| |] //=.
      apply: (IH _ _ _ _ _ _ J').
      * by rewrite Rad_rcons -mulrA -EV.
      * rewrite Rad_rcons coprimepMl C' /=. by rewrite coprimep_sym.
Qed.

Lemma sqf_outer_rad : forall fuel e t0 result out,
  reduced p t0 -> sqfreep (Rad result) -> coprimep (Rad result) (RP t0) ->
  sqf_outer fuel md p p e t0 result = Done out -> sqfreep (Rad out).
Proof.
  elim=> [|f IH] e t0 result out R0 S C //.
  case: (t0 =P [::]) => [->|N0]; first by move/sqf_outer_nil.
  rewrite [sqf_outer _ _ _ _ _ _ _]/=.
  case E0: (pdeg t0 =? 0)%ZZ; first by case=> <-.
  case Ed: (differential t0 p) => [der| |] //=.
  case Et: (poly_gcd t0 der p) => [t| |] //=.
  case Ev: (poly_divrem t0 t p) => [[v rem]| |] //=.
  have [J [ET _]] := sqJ_start Hp (conj R0 N0) Ed Et Ev.
  have Sv := sqJ_start_sqfree (conj R0 N0) Ed Et Ev.
  have Cv : coprimep (Rad result) (RP v) by apply: coprimep_dvdl C; rewrite ET; exact: dvdp_mull.
  have Ct : coprimep (Rad result) (RP t) by apply: coprimep_dvdl C; rewrite ET; exact: dvdp_mulr.
  match goal with |- context [sqf_inner ?a ?b ?c ?d ?e0 ?f0 ?g ?h ?i] =>
    destruct (sqf_inner a b c d e0 f0 g h i) as [ex| |] eqn:Ei end => //=.
  have := sqf_inner_rad J (sqfreep_mul S Sv Cv) Ct Ei.
  case: ex {Ei} => [res'|t0' e' res']; first by move=> P; case=> <-.
  move=> [R' [S' C']]. exact: IH.
Qed.

Lemma squarefree_rad poly out : squarefree md poly p p = Done out -> sqfreep (Rad out).
Proof.
  rewrite /squarefree. case: poly => [|c l] //.
  move: (length (c :: l) + 2)%coq_nat => fuel.
  case Em: (poly_mod _ p) => [t0| |] //=.
  move=> H. apply: (sqf_outer_rad (poly_mod_is_reduced Hpp Em) _ _ H); [exact: sqfreep1|exact: coprime1p].
Qed.

End Sqf.

(** ** The radical through the later stages *)

Lemma normalise_rad : forall spl d e result out,
  List.Forall (rnz p) spl ->
  normalise_factors spl p d e result = Done out ->
  Rad out %= Rad result * redp n (PZprod spl).
Proof.
  elim=> [|factor rest IH] d e result out Fs /=.
  - case=> <-. by rewrite redp1 mulr1 eqpxx.
  - have [[Rf Nf] Frest] : rnz p factor /\ List.Forall (rnz p) rest by move: Fs => /List.Forall_cons_iff.
    case: (Z.eqb_spec (pdeg factor) d) => Hdeg //=.
    case Ei: (modinv _ p) => [inv| |] //=.
    case Em: (poly_mod _ p) => [factor'| |] //= H.
    apply: eqp_trans (IH _ _ _ _ Frest H) _.
    rewrite Rad_rcons redpM mulrA. apply: eqp_mulr. apply: eqp_mull.
    have Ld : Z.to_nat d = (length factor - 1)%coq_nat.
    { move: Hdeg. rewrite /pdeg. case: (factor) Nf => [|c l] // _. lia. }
    have Elast : coef_at opsZ factor (Z.to_nat d) = List.last factor Z0 by rewrite /coef_at Ld -last_nth_len.
    have Glc : ~ (p | List.last factor Z0)%ZZ := reduced_good Hpp Rf Nf.
    rewrite Elast in Ei. have Hinv := modinv_spec Hp Glc Ei.
    have := PZ_poly_mod Hp0 Em. move/(eqpm_RP Hp) => ->.
    rewrite PZ_pmul PZ_from_mono redpM redpC mulrC mul_polyC. apply: eqp_scale.
    apply/eqP => E0.
    have : toF n (Z.mul inv (List.last factor Z0)) = 0.
    { have -> : Z.mul inv (List.last factor Z0) = (inv * List.last factor Z0)%R by [].
      by rewrite rmorphM E0 mul0r. }
    move/(toF_eq0 n_prime). rewrite (En Hp) Hinv. by [].
Qed.

(** the new entries of [normalise_factors] are associates of the pieces *)
Lemma normalise_irred : forall spl d e result out,
  List.Forall (rnz p) spl -> List.Forall (lirred p) spl ->
  List.Forall (fun ge => lirred p ge.1) result ->
  normalise_factors spl p d e result = Done out ->
  List.Forall (fun ge => lirred p ge.1) out.
Proof.
  elim=> [|factor rest IH] d e result out Fs Is Ir /=; first by case=> <-.
  have [[Rf Nf] Frest] : rnz p factor /\ List.Forall (rnz p) rest by move: Fs => /List.Forall_cons_iff.
  have [If Irest] : lirred p factor /\ List.Forall (lirred p) rest by move: Is => /List.Forall_cons_iff.
  case: (Z.eqb_spec (pdeg factor) d) => Hdeg //=.
  case Ei: (modinv _ p) => [inv| |] //=.
  case Em: (poly_mod _ p) => [factor'| |] //=.
  apply: IH => //. apply/List.Forall_app; split=> //. constructor; last by constructor.
  rewrite /lirred /=.
  have Ld : Z.to_nat d = (length factor - 1)%coq_nat.
  { move: Hdeg. rewrite /pdeg. case: (factor) Nf => [|c l] // _. lia. }
  have Elast : coef_at opsZ factor (Z.to_nat d) = List.last factor Z0 by rewrite /coef_at Ld -last_nth_len.
  have Glc : ~ (p | List.last factor Z0)%ZZ := reduced_good Hpp Rf Nf.
  rewrite Elast in Ei. have Hinv := modinv_spec Hp Glc Ei.
  have := PZ_poly_mod Hp0 Em. move/(eqpm_RP Hp) => ->.
  rewrite PZ_pmul PZ_from_mono redpM redpC mulrC mul_polyC.
  apply: irred_eqp If. rewrite eqp_sym. apply: eqp_scale.
  apply/eqP => E0.
  have : toF n (Z.mul inv (List.last factor Z0)) = 0.
  { have -> : Z.mul inv (List.last factor Z0) = (inv * List.last factor Z0)%R by [].
    by rewrite rmorphM E0 mul0r. }
  move/(toF_eq0 n_prime). rewrite (En Hp) Hinv. by [].
Qed.

Lemma split_degrees_rad : forall degrees e result r out r',
  List.Forall (dgood p) degrees ->
  split_degrees degrees p e result r = Done (out, r') ->
  Rad out %= Rad result * redp n (PZprod (List.map fst degrees)).
Proof.
  elim=> [|[prod d] rest IH] e result r out r' Fd /=.
  - case=> <- _. by rewrite redp1 mulr1 eqpxx.
  - have [[Rp /= Hd] Frest] : dgood p (prod, d) /\ List.Forall (dgood p) rest by move: Fd => /List.Forall_cons_iff.
    rewrite redpM mulrA.
    case E0: (pdeg prod =? 0)%ZZ.
    + move=> H. apply: eqp_trans (IH _ _ _ _ _ Frest H) _. apply: eqp_mulr.
      rewrite -{1}[Rad result]mulr1. apply: eqp_mull. rewrite eqp_sym. exact: (unit_eqp1 Hp).
    + case Ef: (final_split prod p d r) => [[spl r1]| |] //=.
      have [Ps Fs] := final_split_product Hp Rp Ef.
      case En: (normalise_factors spl p d e result) => [result'| |] //= H.
      apply: eqp_trans (IH _ _ _ _ _ Frest H) _. apply: eqp_mulr.
      apply: eqp_trans (normalise_rad Fs En) _.
      move/(eqpm_RP Hp): Ps => ->. exact: eqpxx.
Qed.

Lemma split_degrees_irred : forall degrees e result r out r',
  List.Forall (dpair_ok p) degrees ->
  List.Forall (fun ge => lirred p ge.1) result ->
  split_degrees degrees p e result r = Done (out, r') ->
  List.Forall (fun ge => lirred p ge.1) out.
Proof.
  elim=> [|[prod d] rest IH] e result r out r' Fd Ir /=; first by case=> <- _.
  have [[Rp /= [Hd A]] Frest] : dpair_ok p (prod, d) /\ List.Forall (dpair_ok p) rest by move: Fd => /List.Forall_cons_iff.
  case E0: (pdeg prod =? 0)%ZZ; first exact: IH.
  case Ef: (final_split prod p d r) => [[spl r1]| |] //=.
  have [_ Fs] := final_split_product Hp Rp Ef.
  have Is := final_split_irred Hp Rp Hd A Ef.
  case En: (normalise_factors spl p d e result) => [result'| |] //=.
  apply: IH => //. exact: (normalise_irred Fs Is Ir En).
Qed.

Lemma split_sqfree_rad md : forall sq result r out r',
  List.Forall (sqgood p md) sq ->
  split_sqfree sq p result r = Done (out, r') ->
  Rad out %= Rad result * Rad sq.
Proof.
  elim=> [|[s e] rest IH] result r out r' Fs /=.
  - case=> <- _. by rewrite mulr1 eqpxx.
  - have [[Rs [_ /= He]] Frest] : sqgood p md (s, e) /\ List.Forall (sqgood p md) rest by move: Fs => /List.Forall_cons_iff.
    case Ed: (degree s p) => [degrees| |] //=.
    have Fd := degree_good Hp Rs Ed.
    have [c [Rc [Pc Lc]]] := degree_product Hp Rs Ed.
    case Es: (split_degrees degrees p e result r) => [[result' r1]| |] //= H.
    apply: eqp_trans (IH _ _ _ _ Frest H) _. rewrite mulrA. apply: eqp_mulr.
    apply: eqp_trans (split_degrees_rad Fd Es) _. apply: eqp_mull.
    move/(eqpm_RP Hp): Pc => ->. rewrite redpM -{1}[redp n (PZprod _)]mul1r. apply: eqp_mulr.
    rewrite eqp_sym. apply: (unit_eqp1 Hp Rc).
    case: Lc => [L|->] //. case: (c) L (proj2 Rc) => [|c0 [|c1 l]] //=.
Qed.

Lemma split_sqfree_irred md : forall sq result r out r',
  List.Forall (sqgood p md) sq -> sqfreep (Rad sq) ->
  List.Forall (fun ge => lirred p ge.1) result ->
  split_sqfree sq p result r = Done (out, r') ->
  List.Forall (fun ge => lirred p ge.1) out.
Proof.
  elim=> [|[s e] rest IH] result r out r' Fs S Ir /=; first by case=> <- _.
  have [[Rs [_ /= He]] Frest] : sqgood p md (s, e) /\ List.Forall (sqgood p md) rest by move: Fs => /List.Forall_cons_iff.
  rewrite /= in S.
  have Ss : sqfreep (RP s) by apply: sqfreep_dvd S _; exact: dvdp_mulr.
  have Srest : sqfreep (Rad rest) by apply: sqfreep_dvd S _; exact: dvdp_mull.
  case Ed: (degree s p) => [degrees| |] //=.
  have Fd := degree_ok Hp Rs Ss Ed.
  case Es: (split_degrees degrees p e result r) => [[result' r1]| |] //=.
  apply: IH => //. exact: (split_degrees_irred Fd Ir Es).
Qed.

(** ** Pairwise coprime non-constant polynomials are distinct *)

Lemma Rad_NoDup (l : list (list Z * Z)) :
  sqfreep (Rad l) -> List.Forall (fun ge => (1 < size (RP ge.1))%nat) l -> List.NoDup (List.map fst l).
Proof.
  elim: l => [|[g e] l IH] /= S F; first by constructor.
  have [/= Sg Fl] : (1 < size (RP g))%nat /\ List.Forall (fun ge => (1 < size (RP ge.1))%nat) l by move: F => /List.Forall_cons_iff.
  constructor; last by apply: IH => //; apply: sqfreep_dvd S _; exact: dvdp_mull.
  move=> /List.in_map_iff [[g' e'] [/= Eg I]]. subst g'.
  have D : RP g %| Rad l.
  { elim: (l) I => [|x l' IHl] //= [->|I] /=; first exact: dvdp_mulr. apply: dvdp_mull. exact: IHl. }
  have := S (RP g). rewrite expr2 => /(_ (dvdp_mul (dvdpp _) D)) E1. by rewrite E1 in Sg.
Qed.

(** ** factorize_mod_p *)

Theorem factorize_irred md poly poly1 r out r' :
  poly_mod poly p = Done poly1 -> poly1 <> [::] ->
  factorize_mod_p md poly p p r = Done (out, r') ->
  List.Forall (fun ge => lirred p ge.1) out /\ List.NoDup (List.map fst out).
Proof.
  move=> Em N1. rewrite /factorize_mod_p Em /=.
  case Es: (squarefree md poly1 p p) => [sq| |] //= H.
  have Fs := squarefree_good Hp (Z.lt_le_incl _ _ Hpp) Es.
  have Ss := squarefree_rad Es.
  have I := split_sqfree_irred Fs Ss (List.Forall_nil _) H.
  split=> //.
  have Er := split_sqfree_rad Fs H. rewrite /= mul1r in Er.
  apply: Rad_NoDup; first by apply: sqfreep_eqp Ss; rewrite eqp_sym.
  move: I. apply: List.Forall_impl => ge [S1 _]. exact: S1.
Qed.

End Prime.
