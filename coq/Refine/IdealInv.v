(** * IdealInv: [Ideal::inv] under the model-evaluated flag [I * N == (d)], and
      [decompose]: every returned ideal contains [p e_0] (stdlib + lia). *)
From Coq Require Import ZArith List Lia Bool.
From RNT.Model Require Import Base Poly Algebraic LinAlg MultTable Order FactorModP Ideal PrimeDecomp.
From RNT.Model Require Hnf.
From RNT.Refine Require Import MatZ HnfOps HnfSteps HnfSpec HnfLoop HnfMain HnfUnique HnfCanon HnfTerm HnfTotal
     IdealMul IdealSpec.
Import ListNotations.
Open Scope Z_scope.

Lemma mapM_length {X Y} (f : X -> outcome Y) l l' : mapM f l = Done l' -> length l' = length l.
Proof.
  revert l'; induction l as [|x l IH]; intros l' E; cbn [mapM] in E.
  - inversion E; auto.
  - ibind E as y Ey. ibind E as t Et. inversion E; subst. simpl. f_equal. auto.
Qed.

Lemma mapM_Forall2 {X Y} (f : X -> outcome Y) l l' :
  mapM f l = Done l' -> Forall2 (fun x y => f x = Done y) l l'.
Proof.
  revert l'; induction l as [|x l IH]; intros l' E; cbn [mapM] in E.
  - inversion E; constructor.
  - ibind E as y Ey. ibind E as t Et. inversion E; subst. constructor; auto.
Qed.

Lemma mapM_wf {X} (f : X -> outcome (list Z)) l l' n :
  (forall x y, In x l -> f x = Done y -> length y = n) -> mapM f l = Done l' -> wf n l'.
Proof.
  intros H E. apply mapM_Forall2 in E. unfold wf. induction E as [|x y l l' Exy E IH]; constructor.
  - apply (H x y); auto. left; auto.
  - apply IH. intros x' y' Hx'. apply H. right; auto.
Qed.

(** ** shape of the result of [mul_inv_from_right_exact] *)
Lemma mul_inv_shape a b r :
  mul_inv_from_right_exact a b = Done (Ok r) -> wf (length a) r.
Proof.
  unfold mul_inv_from_right_exact. intros E. ibind E as brat Eb. ibind E as ri Er.
  destruct ri as [invb|e]; [|inversion E].
  ibind E as ans Ea. inversion E; subst r; clear E.
  eapply mapM_wf; [|exact Ea]. intros ai y _ Ey. apply mapM_length in Ey. rewrite Ey. apply seq_length.
Qed.

Lemma scaled_identity_length n x : length (scaled_identity n x) = n.
Proof. unfold scaled_identity. rewrite map_length, seq_length. reflexivity. Qed.

(** ** inv, conditional on the flag *)
Theorem inv_spec_partial m I D d N :
  let t := i_table I in let n := length t in
  tshape t -> wf n (i_hnf I) -> (1 <= n)%nat ->
  ideal_inv m I D = Done (d, N) -> inv_flag m I (d, N) = Done true ->
  i_table N = t /\ wf n (i_hnf N) /\ is_hnf (i_hnf N) = true /\
  Hnf.get (i_hnf I) 0 0 = Done d /\
  forall v, In_rowspanZ n v (prod_rows t (i_hnf I) (i_hnf N)) <->
            exists c, length c = n /\ v = bil t (scalar_vec n d) c.
Proof.
  intros t n H WI Hn E F.
  unfold ideal_inv in E. fold t in E. unfold ideal_deg, mt_deg in E. fold t in E. fold n in E.
  ibind E as az Eaz. ibind E as c0 Ec0. ibind E as tr Etr. ibind E as tnt Etnt.
  ibind E as r Er. ibind E as trd Etrd. ibind E as h Eh.
  unfold frac_new, ideal_new in E. inversion E; subst az N; clear E.
  cbn [i_table i_hnf].
  destruct r as [r|e]; [|discriminate]. cbn [unwrap_ok] in Etrd. inversion Etrd; subst r; clear Etrd.
  apply mul_inv_shape in Er. rewrite scaled_identity_length in Er.
  destruct (hnf_new_correct0 _ _ _ Er Hn Eh) as (I1 & W1 & S1).
  split; auto. split; auto. split; auto. split; [exact Eaz|].
  (* the flag *)
  unfold inv_flag, frac_numer, frac_denom in F. cbn [fst snd] in F.
  ibind F as prod Ep. ibind F as pd Epd. inversion F as [F']; clear F.
  unfold ideal_eqb in F'. apply andb_true_iff in F'. destruct F' as [F1 _]. apply hnf_eqb_eq in F1.
  cbn [i_table] in Epd. fold t in Epd. unfold ideal_deg, mt_deg in Epd. cbn [i_table] in Epd. fold t n in Epd.
  assert (Hsv : length (scalar_vec n d) = n).
  { unfold scalar_vec. rewrite map_length, seq_length. reflexivity. }
  destruct (principal_spec m t (scalar_vec n d) pd H Hsv Hn Epd) as (_ & _ & _ & Sp).
  assert (WN : wf n (i_hnf (mkIdeal h t))) by exact W1.
  destruct (mul_spec m I (mkIdeal h t) prod H WI WN Hn Ep) as (_ & _ & _ & Sm).
  cbn [i_hnf] in Sm. fold t n in Sm. fold n in Sp.
  intros v. rewrite <- (Sm v), F1. apply Sp.
Qed.

(** ** decompose: every returned ideal lies above p *)
Lemma nth_unit_from s n k i : (i < n)%nat ->
  nth i (unit_from s n k) 0 = if (k =? s + i)%nat then 1 else 0.
Proof.
  revert s i. induction n as [|n IH]; intros s i Hi; [lia|].
  rewrite unit_from_S. destruct i as [|i]; cbn [nth].
  - rewrite Nat.add_0_r. reflexivity.
  - rewrite IH by lia. replace (S s + i)%nat with (s + S i)%nat by lia. reflexivity.
Qed.

Lemma p_e0 p d : p :: repeat 0 d = vscale p (unit_vec (S d) 0).
Proof.
  apply vec_ext with (S d).
  - simpl. rewrite repeat_length. reflexivity.
  - rewrite vscale_length. apply unit_vec_length.
  - intros i Hi. rewrite nth_vscale. change (unit_vec (S d) 0) with (unit_from 0 (S d) 0).
    rewrite nth_unit_from by auto. destruct i as [|i]; simpl; [lia|].
    rewrite (nth_repeat 0 d i). lia.
Qed.

Lemma to_int_vec_length deg v r : to_int_vec deg v = Done r -> length r = deg.
Proof. unfold to_int_vec. intros E. apply mapM_length in E. rewrite E. apply seq_length. Qed.

Lemma to_z_basis_int_length b a r : to_z_basis_int b a = Done r -> length r = length b.
Proof. unfold to_z_basis_int. intros E. ibind E as inv Ei. apply to_int_vec_length in E. auto. Qed.

Lemma deg_alloc_Done f deg : deg_alloc f = Done deg -> deg = Z.to_nat (pdeg f).
Proof. unfold deg_alloc. destruct f; intros E; inversion E; auto. Qed.

Theorem factor_above_p md f b t p pm P e :
  tshape t -> (1 <= length t)%nat -> length b = length t -> Z.to_nat (pdeg f) = length t ->
  table_entry t 0 0 = unit_vec (length t) 0 ->
  decompose_factor md f b t p pm = Done (P, e) ->
  i_table P = t /\ is_hnf (i_hnf P) = true /\ wf (length t) (i_hnf P) /\
  In_rowspanZ (length t) (p :: repeat 0 (length t - 1)) (i_hnf P) /\ e = snd pm.
Proof.
  intros H Hn Hb Hf H00 E. set (n := length t) in *.
  unfold decompose_factor in E. destruct pm as [poly mul].
  ibind E as deg Edeg. apply deg_alloc_Done in Edeg. rewrite Hf in Edeg. subst deg.
  ibind E as elem Eelem. ibind E as anc Eanc. ibind E as pelem Epelem. ibind E as pz Epz. ibind E as s Es.
  inversion E; subst s e; clear E. cbn [snd].
  assert (Hel : length elem = n).
  { destruct (pdeg f <=? pdeg (from_raw opsQc (map qz poly))).
    - inversion Eelem; subst. apply repeat_length.
    - ibind Eelem as u Eu. apply to_z_basis_int_length in Eelem. lia. }
  destruct (principal_spec md t elem anc H Hel Hn Eanc) as (Ta & Ia & Wa & Sa).
  destruct n as [|d] eqn:En; [lia|]. inversion Epelem; subst pelem; clear Epelem.
  assert (Hpl : length (p :: repeat 0 d) = length t).
  { simpl. rewrite repeat_length. fold n. lia. }
  fold n in Wa, Sa, Hpl. rewrite <- En in *.
  assert (Hn' : (1 <= length t)%nat) by (fold n; lia).
  destruct (principal_spec md t (p :: repeat 0 d) pz H Hpl Hn' Epz) as (Tz & Iz & Wz & Sz).
  fold n in Wz, Sz.
  assert (Hn'' : (1 <= n)%nat) by lia.
  destruct (add_spec md anc pz P n Wa Wz Hn'' Es) as (Tp & Ip & Wp & Sp).
  split; [congruence|]. split; auto. split; auto. split; auto.
  apply Sp. apply (rows_subset_span n (i_hnf anc ++ i_hnf pz) (i_hnf pz)).
  { apply wf_app; auto. } { intros; apply in_or_app; auto. }
  apply Sz. exists (unit_vec n 0). split; [apply unit_vec_length|].
  replace (n - 1)%nat with d by lia.
  rewrite p_e0. rewrite <- En. rewrite bil_scale_l; auto. unfold n. rewrite bil_units; auto; try lia.
  rewrite H00. reflexivity.
Qed.

Theorem decompose_above_p md f b t p r res r' :
  tshape t -> (1 <= length t)%nat -> length b = length t -> Z.to_nat (pdeg f) = length t ->
  table_entry t 0 0 = unit_vec (length t) 0 ->
  decompose md f b t p r = Done (res, r') ->
  Forall (fun Pe => i_table (fst Pe) = t /\ is_hnf (i_hnf (fst Pe)) = true /\ wf (length t) (i_hnf (fst Pe)) /\
                    In_rowspanZ (length t) (p :: repeat 0 (length t - 1)) (i_hnf (fst Pe))) res.
Proof.
  intros H Hn Hb Hf H00 E. unfold decompose in E.
  ibind E as zt Ezt. ibind E as index Ei. ibind E as rm Erm.
  destruct (rm =? 0); [discriminate|].
  ibind E as fr Efr. destruct fr as [result r1]. ibind E as res0 Eres. inversion E; subst res0 r1; clear E.
  apply mapM_Forall2 in Eres. clear Efr. induction Eres as [|pm Pe l l' Ex _ IH]; constructor.
  - destruct Pe as [P e]. cbn [fst].
    destruct (factor_above_p md f b t p pm P e H Hn Hb Hf H00 Ex) as (A & B & C & D & _). auto.
  - exact IH.
Qed.
