(** * PolyZFactorW3Run: C07, the square-free part computed by [poly_z::factorize] and the
    decomposition of a completed run of [factorize_full] (MathComp).

    For a primitive polynomial [pp] with positive leading coefficient, [resultant_gcd pp pp'] returns
    (C10, unconditional) a polynomial [g] with [lc g > 0] dividing [pp] in Z[x]; hence
    [div_exact pp g] succeeds -- the [expect("This division cannot fail")] of mod.rs:24 cannot fire --
    and the quotient is the square-free part of [pp]. *)
From RNT.Model Require Import Base Poly PolyModP FactorModP Hensel PolyZFactor.
From RNT.Model Require Resultant.
From mathcomp Require Import all_ssreflect ssralg ssrnum poly polydiv separable.
From mathcomp Require Import ssrZ zify.
From RNT.Refine Require Import PolyRefine PolyDiv PolyZ ResInt SubresGaussZ SubresGauss SubresGcdDiv SubresSpec.
From RNT.Refine Require Import PolyZFactorMult PolyZFactorMain PolyZFactorTop PolyZFactorPos PolyZFactorW3Sqf.
Set Implicit Arguments.
Unset Strict Implicit.
Unset Printing Implicit Defensive.
Import GRing.Theory.
Import Pdiv.Idomain.
Local Open Scope ring_scope.

Lemma natrZ0 n : (n%:R == 0 :> Z) = (n == 0)%N.
Proof. exact: (Num.Theory.pnatr_eq0 [numDomainType of Z]). Qed.

Lemma pdeg_eq0 (s : seq Z) : (pdeg s =? 0)%Z = (size s == 1)%N.
Proof.
case: s => [|x [|y s]] //; rewrite /pdeg.
have -> : length [:: x, y & s] = (length s).+2 by [].
by apply/Z.eqb_neq; lia.
Qed.

(** ** divisibility over Q and in Z[x] *)

Lemma prim_pos_zprim (f : seq Z) : prim_pos f -> zprim (Poly f).
Proof. by case=> _ _ /prim_list_poly. Qed.

Lemma prim_pos_neq0 (f : seq Z) : prim_pos f -> f != [::].
Proof. by case=> _ + _; case: f. Qed.

Lemma prim_pos_Poly_neq0 (f : seq Z) : prim_pos f -> Poly f != 0.
Proof. by move=> pf; have [cf _ _] := pf; rewrite canon_Poly_eq0 // prim_pos_neq0. Qed.

(** Gauss: a primitive polynomial dividing [F] over Q divides it in Z[x] *)
Lemma dvdZ_of_dvdp (F : {poly Z}) (f : seq Z) : prim_pos f -> Poly f %| F ->
  exists Q : {poly Z}, F = Q * Poly f.
Proof.
by move=> /prim_pos_zprim pf /dvdpP [[c q] /= c0 e]; apply: gauss_dvd e.
Qed.

Lemma dvdp_of_dvdZ (F Q P : {poly Z}) : F = Q * P -> P %| F.
Proof. by move=> ->; exact: dvdp_mulIr. Qed.

(** a primitive constant with positive leading coefficient is 1 *)
Lemma prim_pos_const (f : seq Z) : prim_pos f -> (size f <= 1)%N -> f = [:: 1%Z].
Proof.
case=> cf lf pf; case: f cf lf pf => [|c0 [|? ?]] //= _ c0pos pf _.
have /Z.divide_1_r hk : (c0 | 1)%Z by apply: pf => x [<-|[]]; exact: Z.divide_refl.
by congr [:: _]; move: hk c0pos; clear; lia.
Qed.

(** ** the square-free part of a primitive polynomial *)

(** [g] is the gcd of [pp] and its derivative (primitive, positive), [q] the exact quotient *)
Definition sqfree_data (pp g q : seq Z) : Prop :=
  [/\ prim_pos g, Poly g %= gcdp (Poly pp) (Poly pp)^`(),
      div_exact pp g = Some q, Poly pp = Poly q * Poly g & prim_pos q].

Theorem sqfree_part (pp : seq Z) : prim_pos pp ->
  exists g q : seq Z,
    (Resultant.resultant_gcd pp (pdiff opsZ pp)).2 = Done g /\ sqfree_data pp g q.
Proof.
move=> ppp; have [cpp lpp prim] := ppp.
have pp0 := prim_pos_neq0 ppp.
have cb1 : ResProofs.canonb pp = true by rewrite canonb_canonZ.
have cb2 : ResProofs.canonb (pdiff opsZ pp) = true.
  by rewrite canonb_canonZ /canonZ opsZ_eq; exact: canon_pdiff.
have nn : pp <> [::] by apply/eqP.
have [g [eg [hg lg cg]]] := gcd_spec cb1 cb2 nn.
have [g' [qf [qg [eg' ef _ _ _]]]] := gcd_divides cb1 cb2 nn.
move: eg'; rewrite eg => -[eg']; rewrite -{g'}eg' in ef.
rewrite canonb_canonZ in cg.
have hd : Poly (pdiff opsZ pp) = (Poly pp)^`().
  by rewrite opsZ_eq Poly_pdiff //; exact: ofZ_natZ.
rewrite hd in hg.
have g0 : g != [::].
  by rewrite -(canon_Poly_eq0 cg) -lead_coef_eq0; apply/eqP; move: lg; clear; lia.
have lg' : (0 < last 0 g)%Z by rewrite -(lead_coef_canon cg).
have pg : prim_pos g.
  split=> //; apply: (@primitive_factor pp g qf) => //.
  by rewrite ef mulrC.
have ed : div_exact pp g = Some (polyseq qf).
  by apply/(div_exact_iff _ cpp cg); split=> //; rewrite ?polyseqK //; exact: canon_poly.
exists g, (polyseq qf); split; first by rewrite ?eg.
split=> //; rewrite ?polyseqK //.
split; first exact: canon_poly.
- move: lpp; rewrite -(lead_coef_canon cpp) ef lead_coefM (lead_coef_canon cg).
  have -> : last 0 (polyseq qf) = lead_coef qf by rewrite lead_coefE nth_last.
  rewrite /GRing.mul /GRing.zero /=.
  by move: lg'; move: (last _ g) (lead_coef qf) => u v; nia.
- by apply: (@primitive_factor pp (polyseq qf) (Poly g)); rewrite ?polyseqK.
Qed.

(** the quotient is square-free over Q and contains every irreducible factor of [pp] *)
Theorem sqfree_part_sep (pp g q : seq Z) : prim_pos pp ->
  Poly g %= gcdp (Poly pp) (Poly pp)^`() -> Poly pp = Poly q * Poly g ->
  separable_poly (Poly q) /\
  forall u : {poly Z}, u %| Poly pp -> coprimep u (Poly q) -> size u = 1%N.
Proof.
move=> ppp hg e; have p0 := prim_pos_Poly_neq0 ppp; split.
  exact: (sqfree_part_separable p0 e hg).
by move=> u; exact: (coprime_sqfree_part_const natrZ0 p0 e hg).
Qed.

(** the branch [if gcd.deg() != 0 { div_exact(..).expect(..) } else { a }] of the model always
    returns the quotient by the gcd *)
Lemma sqfree_branch (pp g q : seq Z) : prim_pos pp -> prim_pos g ->
  div_exact pp g = Some q -> Poly pp = Poly q * Poly g -> canonZ q ->
  (if negb (pdeg g =? 0)%Z
   then match div_exact pp g with Some q => Done q | None => Panic PUnwrap end
   else Done pp) = Done q.
Proof.
move=> ppp pg ed e cq; rewrite ed pdeg_eq0; case: ifP => // /negbFE /eqP dg0.
have sg : (size g <= 1)%N by rewrite dg0.
have eg := prim_pos_const pg sg.
move: e; rewrite eg Poly1 mulr1 => e.
by have [cpp _ _] := ppp; rewrite (Poly_inj_canon cpp cq e).
Qed.

(** ** the decomposition of a completed run on a non-constant input *)
Theorem factorize_full_run md (a : seq Z) r c l cof r' : canonZ a -> (1 < size a)%N ->
  factorize_full md a r = Done (c, l, cof, r') ->
  let pp := (cont_pp a).2 in
  exists g q fs : _,
    [/\ [/\ c = (cont_pp a).1, prim_pos pp & (1 < size pp)%N],
        (Resultant.resultant_gcd pp (pdiff opsZ pp)).2 = Done g /\ sqfree_data pp g q,
        get_factors_of_squarefree md q r = Done (fs, r')
      & extract_all fs pp [::] = Done (cof, l)].
Proof.
move=> ca sa; rewrite /factorize_full.
case: a ca sa => [|x0 a'] // ca sa.
set a := x0 :: a' in ca sa *.
have [ec cpp lpp prim _] := cont_pp_main ca (isT : a != [::]) (surjective_pairing (cont_pp a)).
have ppp : prim_pos (cont_pp a).2 by split.
have spp : (1 < size (cont_pp a).2)%N.
  have c0 : (cont_pp a).1 != 0.
    by apply/eqP => c0; move: ec; rewrite c0 scale0r => /esym/eqP; rewrite canon_Poly_eq0.
  by rewrite -(canon_size_Poly cpp) -(size_scale _ c0) ec canon_size_Poly.
case ecp: (cont_pp a) ppp spp => [conta ppa] /= ppp spp.
have -> : (pdeg a =? 0)%Z = false by rewrite pdeg_eq0; case: (size a) sa => [|[|n]].
have [g [q [eg [pg hg ed e pq]]]] := sqfree_part ppp.
have [cq _ _] := pq.
rewrite eg /= (sqfree_branch ppp pg ed e cq) /=.
case egf: get_factors_of_squarefree => [[factors r1]|t|] //=.
case ee: extract_all => [[cof' result]|t|] //= [<- <- <- <-].
by exists g, q, factors; split.
Qed.

(** the [expect("This division cannot fail")] of [factorize] (mod.rs:24) never fires: on every
    non-constant canonical input the run reaches [get_factors_of_squarefree] with the square-free part *)
Theorem factorize_full_reaches_sqfree md (a : seq Z) r : canonZ a -> (1 < size a)%N ->
  let pp := (cont_pp a).2 in
  exists g q : seq Z,
    [/\ (Resultant.resultant_gcd pp (pdiff opsZ pp)).2 = Done g, div_exact pp g = Some q,
        Poly pp = Poly q * Poly g
      & factorize_full md a r =
        (do '(factors, r1) <- get_factors_of_squarefree md q r;
         do '(cof, result) <- extract_all factors pp [::];
         Done ((cont_pp a).1, result, cof, r1))].
Proof.
move=> ca sa; rewrite /factorize_full.
case: a ca sa => [|x0 a'] // ca sa.
set a := x0 :: a' in ca sa *.
have [ec cpp lpp prim _] := cont_pp_main ca (isT : a != [::]) (surjective_pairing (cont_pp a)).
have ppp : prim_pos (cont_pp a).2 by split.
case ecp: (cont_pp a) ppp => [conta ppa] /= ppp.
have -> : (pdeg a =? 0)%Z = false by rewrite pdeg_eq0; case: (size a) sa => [|[|n]].
have [g [q [eg [pg hg ed e pq]]]] := sqfree_part ppp.
have [cq _ _] := pq.
exists g, q; split=> //.
by rewrite eg /= (sqfree_branch ppp pg ed e cq).
Qed.
