(** Round 2 step, third wave (C06): from coordinates to the stored basis.  If the lattice L of coordinate
    vectors (w.r.t. an order O with exact table T) satisfies L * L in p L, and the rows of [nb] are the elements
    (1/p) h_t O, then every lattice [o'] with the same Z-span as [nb] is closed under multiplication:
    [Order::get_mult_table] returns on it.  Style: ssreflect, polynomials over [QcRing] (as TableAgrees). *)
From RNT.Model Require Import Base Poly Algebraic LinAlg MultTable Order.
From Coq Require Import QArith Qcanon.
From mathcomp Require Import all_ssreflect ssralg poly polydiv.
From mathcomp Require Import ssrZ zify ring.
From RNT.Refine Require Import QcRing PolyRefine PolyDiv PolyZ PolyQ AlgMul AlgQuot MultTableOps MultTableGet TableAgrees.
From RNT.Refine Require OrderSolve OrderIndex LinAlgQc AlgNormMx AlgNormOrder MatZ Round2Lattice Round2W3Up Round2W3Step Round2W3Solve Round2W3Unit.
Set Implicit Arguments.
Unset Strict Implicit.
Unset Printing Implicit Defensive.
Import GRing.Theory.
Local Open Scope ring_scope.

Section Coords.
Variables (n : nat) (b : seq (seq Qc)).
Hypothesis sb : size b = n.
Hypothesis rb : forall i, (i < n)%N -> size (nth [::] b i) = n.

Notation oc := (of_coords n b).

Lemma nth_map_qz (v : seq Z) k : nth 0 (map qz v) k = qz (nth 0%Z v k).
Proof.
case: (ltnP k (size v)) => hk; first by rewrite (nth_map 0%Z).
by rewrite !nth_default ?size_map.
Qed.

Lemma oc_vadd (x y : seq Z) : size x = n -> size y = n ->
  oc (map qz (MatZ.vadd x y)) = oc (map qz x) + oc (map qz y).
Proof.
move=> sx sy; rewrite /of_coords -big_split /=; apply: eq_bigr => k _.
rewrite !nth_map_qz -scalerDl -qzD; congr (qz _ *: _).
rewrite -!Lnth_eq MatZ.nth_vadd //; exact: (etrans sx (esym sy)).
Qed.

Lemma oc_vscale (c : Z) (x : seq Z) : oc (map qz (MatZ.vscale c x)) = qz c *: oc (map qz x).
Proof.
rewrite /of_coords scaler_sumr; apply: eq_bigr => k _.
by rewrite !nth_map_qz scalerA -qzM -!Lnth_eq MatZ.nth_vscale.
Qed.

Lemma oc_vzero : oc (map qz (MatZ.vzero n)) = 0.
Proof.
rewrite /of_coords big1 // => k _.
by rewrite nth_map_qz -Lnth_eq MatZ.nth_vzero scale0r.
Qed.

(** the element with integer coordinates [lincomb c H] *)
Lemma oc_lincomb : forall (c : seq Z) (H : seq (seq Z)) (P : nat -> {poly Qc}),
  MatZ.wf n H -> size c = size H ->
  (forall t, (t < size H)%N -> oc (map qz (nth [::] H t)) = P t) ->
  oc (map qz (MatZ.lincomb n c H)) = \sum_(t < size H) qz (nth 0%Z c t) *: P t.
Proof.
elim=> [|c0 c IH] [|h H] // P wH sc hP.
  by rewrite MatZ.lincomb_nil_l oc_vzero big_ord0.
case: sc => sc.
have [sh wH'] := proj1 (MatZ.wf_cons _ _ _) wH.
have -> : MatZ.lincomb n (c0 :: c) (h :: H) = MatZ.vadd (MatZ.vscale c0 h) (MatZ.lincomb n c H) by [].
rewrite oc_vadd ?oc_vscale; first last.
- by rewrite -Llength_eq MatZ.lincomb_length.
- by rewrite -Llength_eq MatZ.vscale_length.
rewrite big_ord_recl /= (hP 0%N) // (IH H (fun t => P t.+1) wH' sc) // => t ht.
exact: (hP t.+1).
Qed.

(** a row given entrywise as an integer combination of the rows of [b] *)
Lemma poly_of_comb (v : seq Qc) (c : seq Z) : size v = n -> size c = n ->
  (forall j, (j < n)%coq_nat -> List.nth j v Algebraic.q0 = Round2Lattice.combQ c b j) ->
  Poly v = oc (map qz c).
Proof.
move=> sv sc hv; apply/polyP => j; rewrite coef_Poly -qdot_coef -(Round2W3Unit.combQ_qdot j sc sb).
case: (ltnP j n) => hj; first by rewrite -(hv j (ltP hj)) Lnth_eq.
rewrite nth_default ?sv //.
have -> : Round2Lattice.combQ c b j = OrderSolve.qdot n (map qz c) b j by exact: Round2W3Unit.combQ_qdot.
by rewrite qdot_coef nth_default //; exact: leq_trans (size_of_coords rb _) hj.
Qed.

(** rational coordinates are determined by the element when some linear system over [b] has a solution *)
Lemma oc_inj_Q (v0 inv0 : seq Qc) (x y : seq Qc) :
  solve_linear_system fopsQc b v0 = Done (Ok inv0) ->
  oc x = oc y -> forall k, (k < n)%N -> nth 0 x k = nth 0 y k.
Proof.
move=> hs e k hk.
pose z : seq Qc := mkseq (fun k => nth 0 x k - nth 0 y k) n.
have ez : oc z = 0.
  rewrite -(subrr (oc y)) -{1}e /of_coords -sumrB.
  apply: eq_big_seq => i; rewrite mem_iota add0n => /andP[_ hi].
  by rewrite nth_mkseq // scalerBl.
have := @AlgNormMx.qdot_inj b v0 inv0 z hs.
rewrite !Llength_eq sb => hz.
have : nth 0 z k = 0.
  rewrite -Lnth_eq; apply: hz => // j hj.
  by rewrite qdot_coef -/(of_coords n b z) ez coef0.
by rewrite nth_mkseq // => /eqP; rewrite subr_eq0 => /eqP.
Qed.
End Coords.

Lemma qz_eq0 (z : Z) : z <> 0%Z -> qz z != 0.
Proof. by move=> hz; apply/eqP => /(@qz_inj z 0%Z). Qed.

(** ** [get_mult_table] returns on a solvable basis whose pairwise products have integer coordinates *)
Section Returns.
Variables (f : seq Z) (n : nat).
Hypothesis cf : canonZ f.
Hypothesis szf : size f = n.+1.
Let F := Fq f.
Variable b : seq (seq Qc).
Hypothesis sb : size b = n.
Hypothesis rb : forall i, (i < n)%N -> size (nth [::] b i) = n.
Hypothesis solv : forall v : seq Qc, size v = n -> exists x, solve_linear_system fopsQc b v = Done (Ok x).
Hypothesis prodc : forall i j, (i < n)%N -> (j < n)%N ->
  exists c : seq Z, size c = n /\
    (Poly (nth [::] b i) * Poly (nth [::] b j)) %% F = of_coords n b (map qz c).

Theorem table_returns : exists T', get_mult_table b f = Done T'.
Proof.
rewrite /get_mult_table Llength_eq sb.
have Wsize i : (i < n)%N -> (size (Poly (nth [::] b i)) <= n)%N.
  by move=> hi; rewrite (leq_trans (size_Poly _)) // rb.
have cell i j : (i < n)%coq_nat -> (j < n)%coq_nat ->
    exists r, (do bj <- nth_chk b j;
               do prod <- alg_mul f (from_raw opsQc (nth [::] b i)) (from_raw opsQc bj);
               do r <- solve_linear_system fopsQc b (coefs_upto n prod);
               do inv <- unwrap_ok r; to_int_vec n inv) = Done r /\ True.
  move=> /ltP hi /ltP hj.
  rewrite (nth_chk_ok [::]) ?sb // /bind.
  have ei : elem n (from_raw opsQc (nth [::] b i)).
    by rewrite opsQc_eq /from_raw (@strip_Poly _ Qc_ofZ); apply: elem_polyseq; apply: Wsize.
  have ej : elem n (from_raw opsQc (nth [::] b j)).
    by rewrite opsQc_eq /from_raw (@strip_Poly _ Qc_ofZ); apply: elem_polyseq; apply: Wsize.
  have [prod -> [er pr]] := alg_mul_ok cf szf ei ej.
  move: pr; rewrite opsQc_eq /from_raw !(@Poly_strip _ Qc_ofZ) -/F => pr.
  case/andP: er => cpr spr.
  have sco : size (coefs_upto n prod) = n.
    by rewrite /coefs_upto -Llength_eq List.map_length List.seq_length.
  have [inv hs] := solv sco; rewrite hs /=.
  have sinv : size inv = n.
    by rewrite -Llength_eq (Round2W3Solve.solve_length fopsQc _ _ _ hs) Llength_eq.
  have [c [sc ec]] := prodc hi hj.
  have einv : of_coords n b inv = of_coords n b (map qz c).
    rewrite -ec -pr; apply: (solve_coords sb rb); first by rewrite (leq_trans (size_Poly _)).
    by rewrite canon_PolyK.
  have int k : (k < n)%N -> nth 0 inv k = qz (nth 0%Z c k).
    by move=> hk; rewrite (oc_inj_Q sb hs einv hk) nth_map_qz.
  pose g k := (do x <- nth_chk inv k; do _ <- assert_ (q_is_integer x); Done (q_to_integer x)).
  have hg k : (k < n)%coq_nat -> exists y, g (0 + k)%coq_nat = Done y /\ True.
    move=> /ltP hk; rewrite /g -[(0 + k)%coq_nat]/k (nth_chk_ok 0) ?sinv // /bind int //.
    by rewrite OrderIndex.q_is_integer_qz /=; eexists.
  have [r [er _]] := @Round2W3Step.mapM_seq_total Z g (fun _ _ => True) 0 n hg.
  by exists r; split=> //; rewrite /to_int_vec -/g er.
have row i : (i < n)%coq_nat ->
    exists r, (do bi <- nth_chk b i;
               mapM (fun j => do bj <- nth_chk b j;
                 do prod <- alg_mul f (from_raw opsQc bi) (from_raw opsQc bj);
                 do r <- solve_linear_system fopsQc b (coefs_upto n prod);
                 do inv <- unwrap_ok r; to_int_vec n inv) (List.seq 0 n)) = Done r /\ True.
  move=> hi; have /ltP hi' := hi.
  rewrite (nth_chk_ok [::]) ?sb // /bind.
  pose g2 j := (do bj <- nth_chk b j;
                 do prod <- alg_mul f (from_raw opsQc (nth [::] b i)) (from_raw opsQc bj);
                 do r <- solve_linear_system fopsQc b (coefs_upto n prod);
                 do inv <- unwrap_ok r; to_int_vec n inv).
  have hg2 j : (j < n)%coq_nat -> exists y, g2 (0 + j)%coq_nat = Done y /\ True.
    by move=> hj; exact: (cell i j hi hj).
  have [r [er _]] := @Round2W3Step.mapM_seq_total _ g2 (fun _ _ => True) 0 n hg2.
  by exists r; split=> //; rewrite -/g2 er.
pose g3 i := (do bi <- nth_chk b i;
               mapM (fun j => do bj <- nth_chk b j;
                 do prod <- alg_mul f (from_raw opsQc bi) (from_raw opsQc bj);
                 do r <- solve_linear_system fopsQc b (coefs_upto n prod);
                 do inv <- unwrap_ok r; to_int_vec n inv) (List.seq 0 n)).
have hg3 i : (i < n)%coq_nat -> exists y, g3 (0 + i)%coq_nat = Done y /\ True.
  by move=> hi; exact: (row i hi).
have [T' [eT _]] := @Round2W3Step.mapM_seq_total _ g3 (fun _ _ => True) 0 n hg3.
by exists T'; rewrite -/g3 eT.
Qed.
End Returns.


Section Lift.
Variables (f : seq Z) (n : nat).
Hypothesis cf : canonZ f.
Hypothesis szf : size f = n.+1.
Let F := Fq f.
Variables (o : seq (seq Qc)) (T : table).
Hypothesis so : size o = n.
Hypothesis ro : forall i, (i < n)%N -> size (nth [::] o i) = n.
Hypothesis gt : get_mult_table o f = Done T.
Variables (p : Z) (h : seq (seq Z)).
Hypothesis p0 : p <> 0%Z.
Hypothesis sh : MatZ.shape n n h.
Hypothesis closed : forall a b, MatZ.In_rowspanZ n a h -> MatZ.In_rowspanZ n b h ->
  MatZ.In_rowspanZ n (AlgNormMx.tmul T n a b) (Round2W3Up.pI p h).
Variables (nb o' : seq (seq Qc)).
Hypothesis snb : size nb = n.
Hypothesis rnb : forall i, (i < n)%N -> size (nth [::] nb i) = n.
Hypothesis enb : forall t j, (t < n)%coq_nat -> (j < n)%coq_nat ->
  List.nth j (List.nth t nb [::]) Algebraic.q0
  = Qcdiv (Round2Lattice.combQ (List.nth t h [::]) o j) (qz p).
Hypothesis so' : size o' = n.
Hypothesis ro' : forall i, (i < n)%N -> size (nth [::] o' i) = n.
Hypothesis sub1 : forall i, (i < n)%coq_nat -> Round2Lattice.in_spanQ n (List.nth i o' [::]) nb.
Hypothesis sub2 : forall t, (t < n)%coq_nat -> Round2Lattice.in_spanQ n (List.nth t nb [::]) o'.
Hypothesis solv : forall v : seq Qc, size v = n -> exists x, solve_linear_system fopsQc o' v = Done (Ok x).

Let lh : size h = n := sh.1.
Let wh : MatZ.wf n h := sh.2.

Lemma size_hrow t : (t < n)%N -> size (nth [::] h t) = n.
Proof.
move=> ht; have := MatZ.wf_row n h t wh; rewrite /MatZ.row Lnth_eq; apply.
by rewrite [length h]lh; apply/ltP.
Qed.

(** the rows of [nb] as elements: (1/p) sum_k h_tk w_k *)
Lemma N_eq t : (t < n)%N ->
  Poly (nth [::] nb t) = (qz p)^-1 *: of_coords n o (map qz (nth [::] h t)).
Proof.
move=> ht; apply/polyP => j; rewrite coef_Poly coefZ -qdot_coef.
rewrite -(Round2W3Unit.combQ_qdot j (size_hrow ht) so).
case: (ltnP j n) => hj.
  by rewrite -!Lnth_eq (enb (ltP ht) (ltP hj)) -QcdivE mulrC.
rewrite nth_default ?rnb //.
rewrite (Round2W3Unit.combQ_qdot j (size_hrow ht) so) qdot_coef nth_default ?mulr0 //.
exact: leq_trans (size_of_coords ro _) hj.
Qed.

(** a combination of rows of [nb] *)
Lemma comb_nb (v : seq Qc) (u : seq Z) : size v = n -> size u = n ->
  (forall j, (j < n)%coq_nat -> List.nth j v Algebraic.q0 = Round2Lattice.combQ u nb j) ->
  Poly v = (qz p)^-1 *: of_coords n o (map qz (MatZ.lincomb n u h)).
Proof.
move=> sv su hv; rewrite (poly_of_comb snb rnb sv su hv).
rewrite (@oc_lincomb n o u h (fun t => of_coords n o (map qz (nth [::] h t))) wh) ?su ?lh //.
rewrite -(big_mkord xpredT (fun t => qz (nth 0%Z u t) *: of_coords n o (map qz (nth [::] h t)))).
rewrite /index_iota subn0 scaler_sumr {1}/of_coords.
apply: eq_big_seq => t; rewrite mem_iota add0n => /andP[_ ht].
by rewrite nth_map_qz N_eq // !scalerA mulrC.
Qed.

(** the product of two rows of [o'] has integer coordinates with respect to [o'] *)
Lemma prod_coords i j : (i < n)%N -> (j < n)%N ->
  exists c : seq Z, size c = n /\
    (Poly (nth [::] o' i) * Poly (nth [::] o' j)) %% F = of_coords n o' (map qz c).
Proof.
move=> hi hj.
have [ui [lui eui]] := sub1 (ltP hi); have [uj [luj euj]] := sub1 (ltP hj).
have sui : size ui = n by rewrite -snb.
have suj : size uj = n by rewrite -snb.
have Wi := @comb_nb (nth [::] o' i) ui (ro' hi) sui.
have Wj := @comb_nb (nth [::] o' j) uj (ro' hj) suj.
rewrite Wi; last by move=> k hk; rewrite -Lnth_eq; apply: eui.
rewrite Wj; last by move=> k hk; rewrite -Lnth_eq; apply: euj.
set ai := MatZ.lincomb n ui h; set aj := MatZ.lincomb n uj h.
have Iai : MatZ.In_rowspanZ n ai h by exists ui; split=> //; rewrite [length ui]sui [length h]lh.
have Iaj : MatZ.In_rowspanZ n aj h by exists uj; split=> //; rewrite [length uj]suj [length h]lh.
have sai : size ai = n by rewrite -Llength_eq MatZ.lincomb_length.
have saj : size aj = n by rewrite -Llength_eq MatZ.lincomb_length.
have [w [[e [le ew]] etm]] := proj1 (Round2W3Up.pI_iff n p h _ wh) (closed Iai Iaj).
have se : size e = n by rewrite -lh.
(* coordinates of the rows of nb in o' *)
have [D [lD hD]] := @Round2Lattice.fin_choice (seq Z)
    (fun t d => length d = n /\ forall k, (k < n)%coq_nat ->
       List.nth k (List.nth t nb [::]) Algebraic.q0 = Round2Lattice.combQ d o' k) [::] n
    (fun t ht => let: ex_intro d (conj ld ed) := sub2 ht in
       ex_intro _ d (conj (etrans ld so') ed)).
have wD : MatZ.wf n D.
  apply/List.Forall_forall => r /(List.In_nth _ _ [::]) [t [ht <-]].
  by case: (hD t) => //; rewrite -lD.
exists (MatZ.lincomb n e D); split; first by rewrite -Llength_eq MatZ.lincomb_length.
rewrite -scalerAl -scalerAr scalerA modpZl -(AlgNormOrder.tmul_agrees cf szf so ro gt sai saj).
rewrite etm oc_vscale scalerA ew.
rewrite (@oc_lincomb n o e h (fun t => of_coords n o (map qz (nth [::] h t))) wh) ?se ?lh //.
rewrite (@oc_lincomb n o' e D (fun t => Poly (nth [::] nb t)) wD) ?se ?lD //; last first.
  move=> t; rewrite [size D]lD => ht; have [ld ed] := hD t (ltP ht).
  have sd : size (nth [::] D t) = n by rewrite -Lnth_eq; exact: ld.
  symmetry; apply: (poly_of_comb so' ro' (rnb ht) sd) => k hk.
  by rewrite -!Lnth_eq; apply: ed.
have pn0 := qz_eq0 p0.
rewrite [size D]lD divfK // scaler_sumr; apply: eq_bigr => t _.
by rewrite N_eq // !scalerA mulrC.
Qed.

(** [P] [Order::get_mult_table] returns on [o']: the lattice is closed under multiplication *)
Theorem lift_table : exists T', get_mult_table o' f = Done T'.
Proof. exact: (table_returns cf szf so' ro' solv prod_coords). Qed.
End Lift.

(** the same with hypotheses on [length] / [Forall] *)
Lemma rows_size n (b : seq (seq Qc)) : size b = n -> List.Forall (fun r => size r = n) b ->
  forall i, (i < n)%N -> size (nth [::] b i) = n.
Proof.
move=> sb wb i hi; move/List.Forall_forall: (wb); apply.
have -> : nth [::] b i = List.nth i b [::] by elim: (b) i {hi} => [|x o' IH] [|i] //=.
by apply: List.nth_In; rewrite -[length b]/(size b) sb; apply/ltP.
Qed.

Theorem lift_table_list (f : seq Z) (n : nat) (o : seq (seq Qc)) (T : table) (p : Z) (h : seq (seq Z))
    (nb o' : seq (seq Qc)) :
  canonZ f -> size f = n.+1 ->
  size o = n -> List.Forall (fun r => size r = n) o -> get_mult_table o f = Done T ->
  p <> 0%Z -> MatZ.shape n n h ->
  (forall a b, MatZ.In_rowspanZ n a h -> MatZ.In_rowspanZ n b h ->
     MatZ.In_rowspanZ n (AlgNormMx.tmul T n a b) (Round2W3Up.pI p h)) ->
  size nb = n -> List.Forall (fun r => size r = n) nb ->
  (forall t j, (t < n)%coq_nat -> (j < n)%coq_nat ->
     List.nth j (List.nth t nb [::]) Algebraic.q0
     = Qcdiv (Round2Lattice.combQ (List.nth t h [::]) o j) (qz p)) ->
  size o' = n -> List.Forall (fun r => size r = n) o' ->
  (forall i, (i < n)%coq_nat -> Round2Lattice.in_spanQ n (List.nth i o' [::]) nb) ->
  (forall t, (t < n)%coq_nat -> Round2Lattice.in_spanQ n (List.nth t nb [::]) o') ->
  (forall v : seq Qc, size v = n -> exists x, solve_linear_system fopsQc o' v = Done (Ok x)) ->
  exists T', get_mult_table o' f = Done T'.
Proof.
move=> cf szf so wo gt p0 sh cl snb wnb enb so' wo' s1 s2 sv.
exact: (lift_table cf szf so (rows_size so wo) gt p0 sh cl snb (rows_size snb wnb) enb so'
          (rows_size so' wo') s1 s2 sv).
Qed.
