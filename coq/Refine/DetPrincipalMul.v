(** * DetPrincipalMul (C16): the product of two principal ideals is the principal ideal of the
      product, (a)(b) = (ab), in an order with a commutative, associative table and a unit element;
      and the generators of (ab) are the matrix product of those of (b) and (a).  Stdlib + lia. *)
From Coq Require Import ZArith List Lia Bool.
From RNT.Model Require Import Base LinAlg MultTable Ideal.
From RNT.Model Require Hnf.
From RNT.Refine Require Import MatZ HnfSpec HnfUnique IdealMul IdealSpec IdealLaws.
Import ListNotations.
Open Scope Z_scope.

Section PrincipalMul.
Variables (m : mode) (t : table) (a b u : list Z).
Hypothesis Ht : tshape t.
Hypothesis Hassoc : table_assoc t = true.
Hypothesis Hcomm : table_comm t = true.
Hypothesis Ha : length a = length t.
Hypothesis Hb : length b = length t.
Hypothesis Hn : (1 <= length t)%nat.
Hypothesis Hu : length u = length t.
Hypothesis Hunit : forall y, length y = length t -> bil t y u = y.

Let n := length t.

(** (a c)(b d) = (a b)(c d) *)
Lemma bil_interchange c d : length c = n -> length d = n ->
  bil t (bil t a c) (bil t b d) = bil t (bil t a b) (bil t c d).
Proof.
  intros Hc Hd. unfold n in *.
  assert (L := fun x y => bil_length t x y Ht).
  rewrite (bil_assoc t a c (bil t b d)); auto.
  rewrite <- (bil_assoc t c b d); auto.
  rewrite (bil_comm t c b); auto.
  rewrite (bil_assoc t b c d); auto.
  rewrite <- (bil_assoc t a b (bil t c d)); auto.
Qed.

Theorem principal_mul Ia Ib P :
  principal m t a = Done Ia -> principal m t b = Done Ib -> ideal_mul m Ia Ib = Done P ->
  principal m t (bil t a b) = Done P.
Proof.
  intros Ea Eb Ep.
  assert (L := fun x y => bil_length t x y Ht).
  destruct (principal_spec m t a Ia Ht Ha Hn Ea) as (Ta & Ia1 & Wa & Sa).
  destruct (principal_spec m t b Ib Ht Hb Hn Eb) as (Tb & Ib1 & Wb & Sb).
  assert (Hab : length (bil t a b) = length t) by auto.
  destruct (principal_total m t (bil t a b) Ht Hab Hn) as [Q Eq].
  destruct (principal_spec m t (bil t a b) Q Ht Hab Hn Eq) as (Tq & Iq1 & Wq & Sq).
  pose proof (mul_spec m Ia Ib P) as MS. cbv zeta in MS. rewrite Ta in MS.
  destruct (MS Ht Wa Wb Hn Ep) as (Tp & Ip1 & Wp & Sp).
  assert (EH : i_hnf P = i_hnf Q).
  { apply (hnf_unique (length t)); auto. intros v. split.
    - pose proof (mul_least m Ia Ib P (i_hnf Q)) as ML. cbv zeta in ML. rewrite Ta in ML.
      apply ML; auto. intros x y Hx Hy.
      apply Sa in Hx. destruct Hx as [c [Hc ->]]. apply Sb in Hy. destruct Hy as [d [Hd ->]].
      apply Sq. exists (bil t c d). split; auto. apply bil_interchange; auto.
    - intros Hv. apply Sq in Hv. destruct Hv as [e [He ->]].
      pose proof (mul_products m Ia Ib P (bil t a u) (bil t b e)) as MP. cbv zeta in MP. rewrite Ta in MP.
      replace (bil t (bil t a b) e) with (bil t (bil t a u) (bil t b e)).
      + apply MP; auto.
        * apply Sa. exists u. split; auto.
        * apply Sb. exists e. split; auto.
      + rewrite (Hunit a Ha). symmetry. apply bil_assoc; auto. }
  rewrite Eq. f_equal. destruct P as [hp tp], Q as [hq tq]. cbn in *. congruence.
Qed.

(** generators: M_{ab} = M_b M_a *)
Lemma prin_rows_mul : prin_rows t (bil t a b) = mmul (length t) (prin_rows t b) (prin_rows t a).
Proof.
  unfold prin_rows at 1 2, mmul. rewrite map_map. apply map_ext. intros j.
  assert (L := fun x y => bil_length t x y Ht).
  rewrite prin_rows_lincomb; auto.
  apply bil_assoc; auto. apply unit_vec_length.
Qed.

End PrincipalMul.
