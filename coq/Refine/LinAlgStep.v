(** * LinAlgStep: one iteration of each elimination loop of Model/LinAlg.v, described entry by entry
    (still no algebra: the ring operations are the abstract ones of the record). Style: stdlib + lia. *)
From RNT.Model Require Import Base Poly LinAlg.
From RNT.Refine Require Import LinAlgList.
From Coq Require Import Lia List Arith.
Import ListNotations.

Section Field.
Context {T : Type} (F : field_ops T).
Notation R := (fr F).
Notation zero := (r0 (fr F)).

(** entry [a[r][k]], with default zero outside the stored shape *)
Definition ent (a : list (list T)) (r k : nat) : T := nth k (nth r a []) zero.

Lemma inv_chk_inv x y : inv_chk F x = Done y -> is0 R x = false /\ y = finv F x.
Proof. unfold inv_chk. destruct (is0 R x); [discriminate|]. now intros [= <-]. Qed.

Lemma div_chk_inv x y z : div_chk F x y = Done z -> is0 R y = false /\ z = fdiv F x y.
Proof. unfold div_chk. destruct (is0 R y); [discriminate|]. now intros [= <-]. Qed.

Definition swp (i idx r : nat) : nat := if Nat.eqb r i then idx else if Nat.eqb r idx then i else r.

Lemma ent_swap a i idx a' r k :
  swap_chk a i idx = Done a' -> ent a' r k = ent a (swp i idx r) k.
Proof. intros H. apply swap_chk_inv in H as (_ & _ & _ & N). unfold ent, swp. now rewrite N. Qed.

Lemma ent_mapM (f : list T -> outcome (list T)) a a' :
  mapM f a = Done a' -> length a' = length a /\
  forall r, (r < length a)%nat -> f (nth r a []) = Done (nth r a' []).
Proof. intros H. apply mapM_inv in H as [L N]. split; auto. Qed.

(** *** determinant *)
Lemma det_elim_row_inv i n ai aj aj' :
  det_elim_row F i n ai aj = Done aj' ->
  forall k, nth k aj' zero =
    if ((i <=? k) && (k <? n))%nat
    then rsub R (nth k aj zero) (rmul R (fdiv F (nth i aj zero) (nth i ai zero)) (nth k ai zero))
    else nth k aj zero.
Proof.
  unfold det_elim_row. intros H. bind_inv H as x Ex. bind_inv H as p Ep. bind_inv H as f Ef.
  apply nth_chk_inv in Ex as [_ Ex]. apply nth_chk_inv in Ep as [_ Ep]. apply div_chk_inv in Ef as [_ ->].
  apply zip_range_inv in H as (_ & _ & N). intros k. rewrite N, (Ex zero), (Ep zero).
  destruct (Nat.leb_spec i k); cbn [andb]; auto.
  destruct (Nat.ltb_spec k (i + (n - i))), (Nat.ltb_spec k n); auto; lia.
Qed.

Lemma det_loop_step cnt i n a result res :
  det_loop F (S cnt) i n a result = Done res -> length a = n -> (i < n)%nat ->
  (res = zero /\ forall r, (i <= r < n)%nat -> is0 R (ent a r i) = true)
  \/ exists idx a',
      (i <= idx < n)%nat /\ is0 R (ent a idx i) = false /\ length a' = n /\
      det_loop F cnt (S i) n a' (rmul R (if Nat.eqb i idx then result else ropp R result) (ent a idx i)) = Done res /\
      forall r k, (r < n)%nat ->
        ent a' r k =
          if ((i <? r) && (i <=? k) && (k <? n))%nat
          then rsub R (ent a (swp i idx r) k)
                      (rmul R (fdiv F (ent a (swp i idx r) i) (ent a idx i)) (ent a idx k))
          else ent a (swp i idx r) k.
Proof.
  intros H La Hi. cbn [det_loop] in H. bind_inv H as o E.
  apply find_in_col_inv in E. destruct o as [idx|].
  2:{ injection H as <-. left. split; auto. intros r Hr.
      specialize (E (r - i)%nat). rewrite skipn_length, nth_skipn in E.
      replace (i + (r - i))%nat with r in E by lia. apply E. lia. }
  destruct E as (B & _ & NZ & _). rewrite skipn_length in B.
  rewrite nth_skipn in NZ. replace (i + (idx - i))%nat with idx in NZ by lia.
  right.
  bind_inv H as as_ Eas. bind_inv H as ai Eai. bind_inv H as rest Erest.
  bind_inv H as ai' Eai'. bind_inv H as p Ep.
  pose proof (swap_chk_inv _ _ _ _ Eas) as (_ & _ & Las & _).
  pose proof (fun r k => ent_swap _ _ _ _ r k Eas) as Sa.
  apply nth_chk_inv in Eai as [_ Eai].
  apply ent_mapM in Erest as [Lrest Nrest]. rewrite skipn_length in Lrest, Nrest.
  assert (A' : forall r k, (r < n)%nat ->
     ent (firstn (S i) as_ ++ rest) r k =
       if ((i <? r) && (i <=? k) && (k <? n))%nat
       then rsub R (ent as_ r k) (rmul R (fdiv F (ent as_ r i) (ent as_ i i)) (ent as_ i k))
       else ent as_ r k).
  { intros r k Hr. unfold ent at 1. rewrite nth_firstn_app by lia.
    destruct (Nat.ltb_spec r (S i)), (Nat.ltb_spec i r); try lia; cbn [andb]; auto.
    specialize (Nrest (r - S i)%nat ltac:(lia)). rewrite nth_skipn in Nrest.
    replace (S i + (r - S i))%nat with r in Nrest by lia.
    apply det_elim_row_inv with (k := k) in Nrest. rewrite Nrest.
    unfold ent. now rewrite (Eai []). }
  apply nth_chk_inv in Eai' as [_ Eai']. apply nth_chk_inv in Ep as [_ Ep].
  assert (Pv : p = ent a idx i).
  { rewrite <- (Ep zero), <- (Eai' []). fold (ent (firstn (S i) as_ ++ rest) i i).
    rewrite A' by lia. rewrite Nat.ltb_irrefl. cbn [andb]. rewrite Sa. unfold swp. now rewrite Nat.eqb_refl. }
  exists idx, (firstn (S i) as_ ++ rest). rewrite <- Pv. repeat split; try lia; auto.
  - now rewrite Pv.
  - rewrite app_length, firstn_length. lia.
  - intros r k Hr. rewrite A' by auto. rewrite !Sa.
    replace (swp i idx i) with idx by (unfold swp; now rewrite Nat.eqb_refl). now rewrite Pv.
Qed.

(** *** matrix::inv *)
Lemma inv_elim_inv i n ai bi : forall a b j a' b',
  inv_elim F i n ai bi j a b = Done (a', b') ->
  length b = length a /\ length a' = length a /\ length b' = length a /\
  forall q, (q < length a)%nat ->
    if Nat.eqb i (j + q) then nth q a' [] = nth q a [] /\ nth q b' [] = nth q b []
    else
      forall k, (k < n)%nat ->
        ent a' q k = rsub R (ent a q k) (rmul R (ent a q i) (nth k ai zero)) /\
        ent b' q k = rsub R (ent b q k) (rmul R (ent a q i) (nth k bi zero)).
Proof.
  induction a as [|aj a IH]; intros b j a' b' H; destruct b as [|bj b]; cbn [inv_elim] in H; try discriminate.
  - injection H as <- <-. repeat split; auto. cbn. intros; lia.
  - bind_inv H as x1 E1. destruct x1 as [aj1 bj1]. bind_inv H as x2 E2. destruct x2 as [a1 b1]. injection H as <- <-.
    apply IH in E2 as (L1 & L2 & L3 & N). cbn [length]. repeat split; try lia.
    intros [|q] Hq.
    + rewrite Nat.add_0_r. cbn [nth]. destruct (Nat.eqb i j).
      * now injection E1 as <- <-.
      * bind_inv E1 as f Ef. bind_inv E1 as aj2 Ea. bind_inv E1 as bj2 Eb. injection E1 as <- <-.
        apply nth_chk_inv in Ef as [_ Ef].
        apply zip_range_inv in Ea as (_ & _ & Na). apply zip_range_inv in Eb as (_ & _ & Nb).
        intros k Hk. unfold ent. cbn [nth]. rewrite Na, Nb, Ef.
        destruct (Nat.ltb_spec k (0 + n)); try lia. cbn. auto.
    + replace (j + S q)%nat with (S j + q)%nat by lia. apply N. cbn in Hq. lia.
Qed.

Lemma inv_loop_step cnt i n a b res :
  inv_loop F (S cnt) i n a b = Done res -> length a = n -> length b = n -> (i < n)%nat ->
  (res = Err MatrixNotInvertible /\ forall r, (i <= r < n)%nat -> is0 R (ent a r i) = true)
  \/ exists idx a' b',
      (i <= idx < n)%nat /\ is0 R (ent a idx i) = false /\
      (forall r, (i <= r < idx)%nat -> is0 R (ent a r i) = true) /\
      length a' = n /\ length b' = n /\ inv_loop F cnt (S i) n a' b' = Done res /\
      let f := finv F (ent a idx i) in
      forall r k, (r < n)%nat -> (k < n)%nat ->
        ent a' r k = (if Nat.eqb r i then rmul R (ent a idx k) f
                      else rsub R (ent a (swp i idx r) k)
                                  (rmul R (ent a (swp i idx r) i) (rmul R (ent a idx k) f))) /\
        ent b' r k = (if Nat.eqb r i then rmul R (ent b idx k) f
                      else rsub R (ent b (swp i idx r) k)
                                  (rmul R (ent a (swp i idx r) i) (rmul R (ent b idx k) f))).
Proof.
  intros H La Lb Hi. cbn [inv_loop] in H. bind_inv H as o E.
  apply find_in_col_inv in E. destruct o as [idx|].
  2:{ injection H as <-. left. split; auto. intros r Hr.
      specialize (E (r - i)%nat). rewrite skipn_length, nth_skipn in E.
      replace (i + (r - i))%nat with r in E by lia. apply E. lia. }
  destruct E as (B & _ & NZ & Zs). rewrite skipn_length in B.
  rewrite nth_skipn in NZ. replace (i + (idx - i))%nat with idx in NZ by lia.
  right.
  bind_inv H as as_ Eas. bind_inv H as bs Ebs.
  bind_inv H as ai Eai. bind_inv H as bi Ebi.
  bind_inv H as p Ep. bind_inv H as f Ef.
  bind_inv H as ai' Eai'. bind_inv H as bi' Ebi'.
  bind_inv H as ab' Eel. destruct ab' as [a' b'].
  pose proof (swap_chk_inv _ _ _ _ Eas) as (_ & _ & Las & _).
  pose proof (swap_chk_inv _ _ _ _ Ebs) as (_ & _ & Lbs & _).
  pose proof (fun r k => ent_swap _ _ _ _ r k Eas) as Sa.
  pose proof (fun r k => ent_swap _ _ _ _ r k Ebs) as Sb.
  apply nth_chk_inv in Eai as [_ Eai]. apply nth_chk_inv in Ebi as [_ Ebi].
  apply nth_chk_inv in Ep as [_ Ep]. apply inv_chk_inv in Ef as [_ ->].
  apply upd_range_inv in Eai' as (_ & _ & Nai). apply upd_range_inv in Ebi' as (_ & _ & Nbi).
  apply inv_elim_inv in Eel as (_ & La' & Lb' & N).
  rewrite !upd_length in *.
  assert (Pv : p = ent a idx i).
  { rewrite <- (Ep zero), <- (Eai []). fold (ent as_ i i). rewrite Sa. unfold swp. now rewrite Nat.eqb_refl. }
  exists idx, a', b'. repeat split; try lia; auto.
  { intros r Hr. specialize (Zs (r - i)%nat). rewrite nth_skipn in Zs.
    replace (i + (r - i))%nat with r in Zs by lia. apply Zs. lia. }
  { specialize (N r). rewrite Las, La in N. specialize (N H0). cbn [plus] in N.
    rewrite (Nat.eqb_sym r i). destruct (Nat.eqb_spec i r) as [Heq|Hne]; [subst r|].
    - destruct N as [N _]. unfold ent at 1. rewrite N, (nth_upd_eq _ _ _ _) by lia.
      rewrite Nai. destruct (Nat.ltb_spec k (0 + n)); try lia. cbn [Nat.leb andb].
      rewrite <- (Eai []). fold (ent as_ i k). rewrite Sa. unfold swp. rewrite Nat.eqb_refl. now rewrite Pv.
    - destruct (N k H1) as [N1 _]. rewrite N1. unfold ent at 1 2.
      rewrite !(nth_upd_neq _ _ _ _ _ (not_eq_sym Hne)). fold (ent as_ r k) (ent as_ r i).
      rewrite Nai. destruct (Nat.ltb_spec k (0 + n)); try lia. cbn [Nat.leb andb].
      rewrite <- (Eai []). fold (ent as_ i k). rewrite !Sa. unfold swp at 3. rewrite Nat.eqb_refl. now rewrite Pv. }
  { specialize (N r). rewrite Las, La in N. specialize (N H0). cbn [plus] in N.
    rewrite (Nat.eqb_sym r i). destruct (Nat.eqb_spec i r) as [Heq|Hne]; [subst r|].
    - destruct N as [_ N]. unfold ent at 1. rewrite N, (nth_upd_eq _ _ _ _) by lia.
      rewrite Nbi. destruct (Nat.ltb_spec k (0 + n)); try lia. cbn [Nat.leb andb].
      rewrite <- (Ebi []). fold (ent bs i k). rewrite Sb. unfold swp. rewrite Nat.eqb_refl. now rewrite Pv.
    - destruct (N k H1) as [_ N1]. rewrite N1. unfold ent at 1 2.
      rewrite !(nth_upd_neq _ _ _ _ _ (not_eq_sym Hne)). fold (ent bs r k) (ent as_ r i).
      rewrite Nbi. destruct (Nat.ltb_spec k (0 + n)); try lia. cbn [Nat.leb andb].
      rewrite <- (Ebi []). fold (ent bs i k). rewrite Sa, !Sb. unfold swp at 3. rewrite Nat.eqb_refl. now rewrite Pv. }
Qed.


Lemma inv_loop_length cnt : forall i n a b b',
  inv_loop F cnt i n a b = Done (Ok b') -> (cnt + i = n)%nat -> length a = n -> length b = n ->
  length b' = n.
Proof.
  induction cnt as [|c IH]; intros i n a b b' H Hn La Lb.
  - cbn in H. now injection H as <-.
  - destruct (inv_loop_step _ _ _ _ _ _ H La Lb ltac:(lia)) as [[E _]|(idx & a1 & b1 & _ & _ & _ & La1 & Lb1 & H1 & _)].
    + discriminate.
    + apply (IH _ _ _ _ _ H1); auto. lia.
Qed.

Lemma identity_length n : length (identity F n) = n.
Proof. unfold identity. now rewrite map_length, seq_length. Qed.

Lemma inv_length a b : inv F a = Done (Ok b) -> length b = length a.
Proof.
  unfold inv. intros H. apply (inv_loop_length _ _ _ _ _ _ H); auto. apply identity_length.
Qed.

(** *** solve_linear_system *)
Definition vent (b : list T) (k : nat) : T := nth k b zero.

Lemma vent_upd b i x k :
  vent (upd b i x) k = if Nat.eqb k i && (i <? length b)%nat then x else vent b k.
Proof. unfold vent. apply nth_upd. Qed.

Lemma solve_elim_inv col row : forall cnt i a b a' b',
  solve_elim F cnt i col row a b = Done (a', b') ->
  length a' = length a /\ length b' = length b /\
  (forall r k, (r < length a)%nat ->
     ent a' r k = if ((i <=? k) && (k <? i + cnt))%nat && negb (Nat.eqb k col)
                  then rsub R (ent a r k) (rmul R (ent a row k) (ent a r col)) else ent a r k) /\
  (forall k, vent b' k = if ((i <=? k) && (k <? i + cnt))%nat && negb (Nat.eqb k col)
                         then rsub R (vent b k) (rmul R (ent a row k) (vent b col)) else vent b k).
Proof.
  induction cnt as [|c IH]; intros i a b a' b' H; cbn [solve_elim] in H.
  - injection H as <- <-. repeat split; auto; intros.
    + destruct (Nat.leb_spec i k), (Nat.ltb_spec k (i + 0)); cbn; auto; lia.
    + destruct (Nat.leb_spec i k), (Nat.ltb_spec k (i + 0)); cbn; auto; lia.
  - destruct (Nat.eqb_spec i col) as [Heq|Hne].
    + apply IH in H as (L1 & L2 & Na & Nb). repeat split; auto.
      * intros r k Hr. rewrite Na by auto.
        destruct (Nat.eqb_spec k col) as [->|]; cbn [negb]; rewrite ?Bool.andb_false_r; auto.
        destruct (Nat.leb_spec (S i) k), (Nat.leb_spec i k), (Nat.ltb_spec k (S i + c)), (Nat.ltb_spec k (i + S c));
          cbn; auto; lia.
      * intros k. rewrite Nb.
        destruct (Nat.eqb_spec k col) as [->|]; cbn [negb]; rewrite ?Bool.andb_false_r; auto.
        destruct (Nat.leb_spec (S i) k), (Nat.leb_spec i k), (Nat.ltb_spec k (S i + c)), (Nat.ltb_spec k (i + S c));
          cbn; auto; lia.
    + bind_inv H as arow Er. bind_inv H as coef Ec. bind_inv H as a1 Ea. bind_inv H as bc Ebc. bind_inv H as bi Ebi.
      apply IH in H as (L1 & L2 & Na & Nb).
      apply nth_chk_inv in Er as [Hrow Er]. apply nth_chk_inv in Ec as [_ Ec].
      apply nth_chk_inv in Ebc as [_ Ebc]. apply nth_chk_inv in Ebi as [Hbi Ebi].
      apply ent_mapM in Ea as [La1 Ea].
      assert (Coef : coef = ent a row i) by (unfold ent; now rewrite (Er [])).
      assert (A1 : forall r k, (r < length a)%nat ->
                 ent a1 r k = if Nat.eqb k i then rsub R (ent a r i) (rmul R (ent a row i) (ent a r col)) else ent a r k).
      { intros r k Hr. specialize (Ea r Hr). bind_inv Ea as x Ex. bind_inv Ea as y Ey. injection Ea as Ea.
        apply nth_chk_inv in Ex as [_ Ex]. apply nth_chk_inv in Ey as [Hy Ey].
        unfold ent at 1. rewrite <- Ea, nth_upd. destruct (Nat.eqb_spec k i) as [->|]; cbn [andb]; auto.
        replace (i <? length (nth r a []))%nat with true by (symmetry; apply Nat.ltb_lt; lia).
        unfold ent. now rewrite (Ex zero), (Ey zero), Coef. }
      rewrite upd_length in L2. rewrite La1 in *. repeat split; auto.
      * intros r k Hr. rewrite Na by auto. rewrite !A1 by auto.
        assert (Hci : Nat.eqb col i = false) by (apply Nat.eqb_neq; lia). rewrite Hci.
        destruct (Nat.eqb_spec k col) as [->|Hkc]; cbn [negb]; rewrite ?Bool.andb_false_r.
        { now rewrite Hci. }
        rewrite !Bool.andb_true_r.
        destruct (Nat.eqb_spec k i) as [->|Hki].
        { destruct (Nat.leb_spec (S i) i), (Nat.leb_spec i i), (Nat.ltb_spec i (i + S c)); cbn; auto; lia. }
        destruct (Nat.leb_spec (S i) k), (Nat.leb_spec i k), (Nat.ltb_spec k (S i + c)), (Nat.ltb_spec k (i + S c));
          cbn; auto; lia.
      * intros k. rewrite Nb, !vent_upd, (A1 row k Hrow).
        assert (Hci : Nat.eqb col i = false) by (apply Nat.eqb_neq; lia). rewrite Hci.
        replace (i <? length b)%nat with true by (symmetry; apply Nat.ltb_lt; lia).
        rewrite !Bool.andb_true_r. cbn [andb].
        destruct (Nat.eqb_spec k col) as [->|Hkc]; cbn [negb]; rewrite ?Bool.andb_false_r, ?Bool.andb_true_r.
        { now rewrite Hci. }
        destruct (Nat.eqb_spec k i) as [->|Hki].
        { destruct (Nat.leb_spec (S i) i), (Nat.leb_spec i i), (Nat.ltb_spec i (i + S c)); cbn; try lia.
          unfold vent. now rewrite (Ebc zero), (Ebi zero), Coef. }
        destruct (Nat.leb_spec (S i) k), (Nat.leb_spec i k), (Nat.ltb_spec k (S i + c)), (Nat.ltb_spec k (i + S c));
          cbn; auto; lia.
Qed.


Lemma swap_rows_ent a i j a' :
  mapM (fun r => swap_chk r i j) a = Done a' ->
  length a' = length a /\ forall r k, (r < length a)%nat -> ent a' r k = ent a r (swp i j k).
Proof.
  intros H. apply ent_mapM in H as [L N]. split; auto. intros r k Hr.
  specialize (N r Hr). apply swap_chk_inv in N as (_ & _ & _ & N). unfold ent. now rewrite N.
Qed.

Lemma solve_loop_step cnt row n a b res :
  solve_loop F (S cnt) row n a b = Done res -> length a = n -> length b = n -> (row < n)%nat ->
  (res = Err MatrixNotInvertible /\ forall q, (row <= q < n)%nat -> is0 R (ent a row q) = true)
  \/ exists nxt a' b',
      (row <= nxt < n)%nat /\ is0 R (ent a row nxt) = false /\
      (forall q, (row <= q < nxt)%nat -> is0 R (ent a row q) = true) /\
      length a' = n /\ length b' = n /\ solve_loop F cnt (S row) n a' b' = Done res /\
      let arc := ent a row nxt in
      (forall r k, (r < n)%nat -> (k < n)%nat ->
        ent a' r k = if Nat.eqb k row then fdiv F (ent a r nxt) arc
                     else rsub R (ent a r (swp row nxt k))
                                 (rmul R (ent a row (swp row nxt k)) (fdiv F (ent a r nxt) arc))) /\
      (forall k, (k < n)%nat ->
        vent b' k = if Nat.eqb k row then fdiv F (vent b nxt) arc
                    else rsub R (vent b (swp row nxt k))
                                (rmul R (ent a row (swp row nxt k)) (fdiv F (vent b nxt) arc))).
Proof.
  intros H La Lb Hrow. cbn [solve_loop] in H.
  bind_inv H as arow Er. bind_inv H as o Ef.
  apply nth_chk_inv in Er as [_ Er].
  apply find_in_row_inv in Ef. destruct o as [nxt|].
  2:{ injection H as <-. left. split; auto. intros q Hq. destruct Ef as [_ Zs].
      specialize (Zs (q - row)%nat). rewrite nth_skipn in Zs.
      replace (row + (q - row))%nat with q in Zs by lia. unfold ent. rewrite (Er []). apply Zs. lia. }
  destruct Ef as (B & _ & NZ & Zs). rewrite nth_skipn in NZ.
  replace (row + (nxt - row))%nat with nxt in NZ by lia.
  right.
  bind_inv H as a1 Ea1. bind_inv H as b1 Eb1. bind_inv H as arow1 Er1. bind_inv H as arc Earc.
  bind_inv H as a2 Ea2. bind_inv H as bc Ebc. bind_inv H as q Eq. bind_inv H as ab Eel. destruct ab as [a' b'].
  apply swap_rows_ent in Ea1 as [La1 Na1].
  apply swap_chk_inv in Eb1 as (_ & _ & Lb1 & Nb1).
  apply nth_chk_inv in Er1 as [_ Er1]. apply nth_chk_inv in Earc as [_ Earc].
  apply ent_mapM in Ea2 as [La2 Na2].
  apply nth_chk_inv in Ebc as [Hbc Ebc]. apply div_chk_inv in Eq as [_ ->].
  apply solve_elim_inv in Eel as (La' & Lb' & Na' & Nb').
  rewrite upd_length in Lb'.
  assert (Arc : arc = ent a row nxt).
  { rewrite <- (Earc zero), <- (Er1 []). fold (ent a1 row row). rewrite Na1 by lia.
    unfold swp. now rewrite Nat.eqb_refl. }
  assert (A2 : forall r k, (r < n)%nat ->
             ent a2 r k = if Nat.eqb k row then fdiv F (ent a r nxt) arc else ent a r (swp row nxt k)).
  { intros r k Hr. assert (Hr1 : (r < length a1)%nat) by lia. specialize (Na2 r Hr1).
    bind_inv Na2 as x Ex. bind_inv Na2 as y Ey. injection Na2 as Na2.
    apply nth_chk_inv in Ex as [Hx Ex]. apply div_chk_inv in Ey as [_ ->].
    unfold ent at 1. rewrite <- Na2, nth_upd.
    replace (row <? length (nth r a1 []))%nat with true by (symmetry; apply Nat.ltb_lt; lia).
    rewrite Bool.andb_true_r. destruct (Nat.eqb_spec k row) as [->|].
    - rewrite <- (Ex zero). fold (ent a1 r row). rewrite Na1 by lia. unfold swp. now rewrite Nat.eqb_refl.
    - fold (ent a1 r k). apply Na1. lia. }
  assert (B1 : forall k, vent b1 k = vent b (swp row nxt k)).
  { intros k. unfold vent. now rewrite Nb1. }
  exists nxt, a', b'. rewrite <- Arc. repeat split; try lia; auto.
  - rewrite Arc. unfold ent. now rewrite (Er []).
  - intros q Hq. specialize (Zs (q - row)%nat). rewrite nth_skipn in Zs.
    replace (row + (q - row))%nat with q in Zs by lia. unfold ent. rewrite (Er []). apply Zs. lia.
  - intros r k Hr Hk. rewrite Na' by lia. rewrite !A2 by lia. rewrite Nat.eqb_refl.
    destruct (Nat.leb_spec 0 k), (Nat.ltb_spec k (0 + n)); try lia. cbn [andb].
    destruct (Nat.eqb_spec k row); cbn [negb]; auto.
  - intros k Hk. rewrite Nb'. rewrite !vent_upd, !A2 by lia. rewrite Nat.eqb_refl.
    replace (row <? length b1)%nat with true by (symmetry; apply Nat.ltb_lt; lia).
    destruct (Nat.leb_spec 0 k), (Nat.ltb_spec k (0 + n)); try lia. cbn [andb].
    rewrite <- (Ebc zero). fold (vent b1 row). rewrite !B1.
    assert (Sw : swp row nxt row = nxt) by (unfold swp; now rewrite Nat.eqb_refl). rewrite !Sw.
    destruct (Nat.eqb_spec k row); cbn [negb andb]; auto.
Qed.

End Field.
