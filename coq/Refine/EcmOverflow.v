(** * [no_overflow_panic]: in the dev profile (mode [Checked]) no arithmetic-overflow panic can come
    from the stage-2 start values or from [cur_e] when b1 <= 2^64 - 2 and b2 <= 2^64 - 7. *)
From Coq Require Import ZArith List Bool Lia.
From RNT.Model Require Import Base Elementary Ecm EcmParallel.
From RNT.Refine Require Import EcmInv.
Open Scope Z_scope.

(** "does not panic with an overflow" *)
Definition nov {A} (x : outcome A) : Prop := x <> Panic POverflow.

Lemma nov_done {A} (a : A) : nov (Done a). Proof. discriminate. Qed.
Lemma nov_fuel {A} : nov (@OutOfFuel A). Proof. discriminate. Qed.
Lemma nov_panic {A} t : t <> POverflow -> nov (@Panic A t). Proof. intros H E; inversion E; auto. Qed.

Lemma nov_bind {A B} (x : outcome A) (f : A -> outcome B) :
  nov x -> (forall a, x = Done a -> nov (f a)) -> nov (bind x f).
Proof.
  intros Hx Hf H. apply bind_panic in H as [H|(a & Ha & H)]; [now apply Hx|now apply (Hf a Ha)].
Qed.

Lemma nov_rbind {A B} (e : outcome (res A)) (f : A -> outcome (res B)) :
  nov e -> (forall a, e = Done (ROk a) -> nov (f a)) -> nov (rbind e f).
Proof.
  intros He Hf. unfold rbind. apply nov_bind; [assumption|].
  intros [a|g] Ha; [now apply Hf|apply nov_done].
Qed.

Lemma nov_if {A} (b : bool) (x y : outcome A) : nov x -> nov y -> nov (if b then x else y).
Proof. now destruct b. Qed.

Lemma nov_zrem a b : nov (zrem a b).
Proof. apply zrem_not_overflow. Qed.
Lemma nov_zmod a b : nov (zmod a b).
Proof. apply zmod_not_overflow. Qed.
Lemma nov_inv a b : nov (inv a b).
Proof. apply inv_not_overflow. Qed.
Lemma nov_zquot a b : nov (zquot a b).
Proof. unfold zquot. destruct (b =? 0); [now apply nov_panic|apply nov_done]. Qed.

(** ** Point arithmetic *)
Lemma nov_simplify p c : nov (simplify p c).
Proof.
  unfold simplify. apply nov_if; [apply nov_done|].
  apply nov_bind; [apply nov_inv|]. intros [x|g] _; [|apply nov_done].
  apply nov_bind; [apply nov_zrem|intros ? _]. apply nov_bind; [apply nov_zrem|intros ? _]. apply nov_done.
Qed.

Lemma nov_add_raw p q c : nov (add_raw p q c).
Proof.
  unfold add_raw. apply nov_if.
  - apply nov_bind; [apply nov_zrem|intros ? _]. apply nov_if; [apply nov_done|].
    repeat (apply nov_bind; [first [apply nov_zrem|apply nov_zmod]|intros ? _]). apply nov_done.
  - repeat (apply nov_bind; [first [apply nov_zrem|apply nov_zmod]|intros ? _]). apply nov_done.
Qed.

Lemma nov_add p q c : nov (add p q c).
Proof.
  unfold add. apply nov_if; [apply nov_done|]. apply nov_if; [apply nov_done|].
  apply nov_bind; [apply nov_add_raw|]. intros [s|] _; [apply nov_simplify|apply nov_done].
Qed.

Lemma nov_mul_loop : forall fuel sum cur e c, nov (mul_loop fuel sum cur e c).
Proof.
  induction fuel as [|f IH]; intros sum cur e c; cbn [mul_loop]; [apply nov_fuel|].
  apply nov_if; [|apply nov_done].
  apply nov_rbind; [apply nov_if; [apply nov_add|apply nov_done]|intros sum1 _].
  apply nov_if; [apply nov_done|].
  apply nov_rbind; [apply nov_add|intros cur1 _; apply IH].
Qed.

Lemma nov_mul p e c : nov (mul p e c).
Proof. apply nov_mul_loop. Qed.

Lemma nov_stage1 : forall cnt k pt c, nov (stage1 cnt k pt c).
Proof.
  induction cnt as [|cnt IH]; intros k pt c; cbn [stage1]; [apply nov_done|].
  apply nov_rbind; [apply nov_mul|intros pt1 _]. apply nov_if; [apply nov_done|apply IH].
Qed.

(** ** The u64 computations *)
Lemma u64_norm_in m x : 0 <= x < two64 -> u64_norm m x = Done x.
Proof.
  intros [H0 H1]. unfold u64_norm.
  apply Z.leb_le in H0. apply Z.ltb_lt in H1. now rewrite H0, H1.
Qed.

Lemma quot6_bounds s : 0 <= s -> 0 <= Z.quot s 6 * 6 <= s.
Proof.
  intros Hs. pose proof (Z.quot_pos s 6 Hs ltac:(lia)). pose proof (Z.mul_quot_le s 6 Hs ltac:(lia)). lia.
Qed.

(** The start values exist for every b1 <= 2^64 - 2, in both modes (b1 = 0 included). *)
Lemma stage2_inits_ok m b1 : 0 <= b1 <= two64 - 2 ->
  exists i1 i2, stage2_inits m b1 = Done (i1, i2) /\ 0 <= i1 /\ 0 <= i2.
Proof.
  intros Hb. unfold stage2_inits.
  set (s := if b1 - 1 <? 0 then 0 else b1 - 1).
  assert (Hs : 0 <= s <= b1) by (subst s; destruct (Z.ltb_spec (b1 - 1) 0); lia).
  pose proof (quot6_bounds s ltac:(lia)) as Hq1.
  unfold two64 in *.
  rewrite (u64_norm_in m (Z.quot s 6 * 6)) by (unfold two64; lia). cbn [bind].
  rewrite (u64_norm_in m (Z.quot s 6 * 6 + 1)) by (unfold two64; lia). cbn [bind].
  rewrite (u64_norm_in m (b1 + 1)) by (unfold two64; lia). cbn [bind].
  pose proof (quot6_bounds (b1 + 1) ltac:(lia)) as Hq2.
  rewrite (u64_norm_in m (Z.quot (b1 + 1) 6 * 6)) by (unfold two64; lia). cbn [bind].
  rewrite (u64_norm_in m (Z.max (Z.quot (b1 + 1) 6 * 6) 6 - 1)) by (unfold two64; lia). cbn [bind].
  eexists _, _. split; [reflexivity|]. lia.
Qed.

Lemma nov_stage2_loop : forall fuel cur_e b2 pt p6 c, 0 <= cur_e -> b2 <= two64 - 7 ->
  nov (stage2_loop fuel Checked cur_e b2 pt p6 c).
Proof.
  induction fuel as [|f IH]; intros cur_e b2 pt p6 c H0 Hb; cbn [stage2_loop]; [apply nov_fuel|].
  destruct (Z.leb_spec cur_e b2) as [Hle|_]; [|apply nov_done].
  rewrite u64_norm_in by lia. cbn [bind].
  apply nov_rbind; [apply nov_add|intros pt1 _]. apply nov_if; [apply nov_done|].
  apply IH; lia.
Qed.

Lemma nov_stage2_one init b2 pt c : 0 <= init -> b2 <= two64 - 7 -> nov (stage2_one Checked init b2 pt c).
Proof.
  intros H0 Hb. unfold stage2_one.
  do 3 (apply nov_rbind; [apply nov_add|intros ? _]).
  apply nov_rbind; [apply nov_mul|intros pt1 _]. apply nov_if; [apply nov_done|].
  now apply nov_stage2_loop.
Qed.

(** [P] Sequential one-shot. *)
Theorem oneshot_no_overflow : forall pt c b1 b2, 0 <= b1 <= two64 - 2 -> b2 <= two64 - 7 ->
  ecm_oneshot Checked pt c b1 b2 <> Panic POverflow.
Proof.
  intros pt c b1 b2 Hb1 Hb2. change (nov (ecm_oneshot Checked pt c b1 b2)). unfold ecm_oneshot.
  rewrite u64_norm_in by lia. cbn [bind].
  apply nov_rbind; [apply nov_stage1|]. intros [pt1|] _; [|apply nov_done].
  destruct (stage2_inits_ok Checked b1 Hb1) as (i1 & i2 & -> & Hi1 & Hi2). cbn [bind].
  apply nov_rbind; [now apply nov_stage2_one|]. intros [pt2|] _; [|apply nov_done].
  apply nov_rbind; [now apply nov_stage2_one|]. intros ? _. apply nov_done.
Qed.

(** The condition on b1 is sharp: b1 = 2^64 - 1 overflows in [1..b1 + 1]. *)
Lemma oneshot_overflow_b1_max pt c b2 : ecm_oneshot Checked pt c (two64 - 1) b2 = Panic POverflow.
Proof. reflexivity. Qed.

(** ** Batched *)
Lemma nov_acc_l : forall zs cur n, nov (acc_l cur zs n).
Proof.
  induction zs as [|z t IH]; intros cur n; cbn [acc_l]; [apply nov_done|].
  apply nov_bind; [apply nov_if; [apply nov_done|apply nov_zrem]|intros ? _].
  apply nov_bind; [apply IH|intros ? _; apply nov_done].
Qed.

Lemma nov_acc_r : forall zs n, nov (acc_r zs n).
Proof.
  induction zs as [|z t IH]; intros n; cbn [acc_r]; [apply nov_done|].
  apply nov_bind; [apply IH|intros ? _].
  apply nov_bind; [apply nov_if; [apply nov_done|apply nov_zrem]|intros ? _; apply nov_done].
Qed.

Lemma nov_simp_results : forall pts ls rs iv n, nov (simp_results pts ls rs iv n).
Proof.
  induction pts as [|p pt IH]; intros ls rs iv n; cbn [simp_results]; [apply nov_done|].
  destruct ls as [|l lt]; [now apply nov_panic|]. destruct rs as [|r rt]; [now apply nov_panic|].
  apply nov_bind.
  - apply nov_if; [apply nov_done|]. do 3 (apply nov_bind; [apply nov_zrem|intros ? _]). apply nov_done.
  - intros ? _. apply nov_bind; [apply IH|intros ? _; apply nov_done].
Qed.

Lemma nov_many_simplify pts n : nov (many_simplify pts n).
Proof.
  unfold many_simplify. apply nov_bind; [apply nov_acc_l|intros ls _].
  apply nov_bind; [apply nov_acc_r|intros rs _]. apply nov_bind; [apply nov_inv|].
  intros [x|g] _; [|apply nov_done]. apply nov_bind; [apply nov_simp_results|intros ? _; apply nov_done].
Qed.

Lemma nov_many_adds_raw : forall pts, nov (many_adds_raw pts).
Proof.
  induction pts as [|[[p q] c] t IH]; cbn [many_adds_raw]; [apply nov_done|].
  apply nov_bind.
  - apply nov_if; [apply nov_done|]. apply nov_if; [apply nov_done|].
    apply nov_bind; [apply nov_add_raw|intros ? _; apply nov_done].
  - intros ? _. apply nov_bind; [apply IH|intros ? _; apply nov_done].
Qed.

Lemma nov_many_adds pts : nov (many_adds pts).
Proof.
  unfold many_adds. apply nov_bind; [apply nov_many_adds_raw|intros points _].
  destruct pts as [|[[p q] c] t]; [now apply nov_panic|apply nov_many_simplify].
Qed.

Lemma nov_zip_sum : forall cur sum, nov (zip_sum sum cur).
Proof.
  induction cur as [|[p c] ct IH]; intros sum; cbn [zip_sum]; [apply nov_done|].
  destruct sum; [now apply nov_panic|]. apply nov_bind; [apply IH|intros ? _; apply nov_done].
Qed.

Lemma nov_set_fst : forall cur tmp, nov (set_fst cur tmp).
Proof.
  induction cur as [|[p c] ct IH]; intros tmp; cbn [set_fst]; [apply nov_done|].
  destruct tmp; [now apply nov_panic|]. apply nov_bind; [apply IH|intros ? _; apply nov_done].
Qed.

Lemma nov_set_fst3 : forall cur tmp, nov (set_fst3 cur tmp).
Proof.
  induction cur as [|[[p q] c] ct IH]; intros tmp; cbn [set_fst3]; [apply nov_done|].
  destruct tmp; [now apply nov_panic|]. apply nov_bind; [apply IH|intros ? _; apply nov_done].
Qed.

Lemma nov_zip_pq : forall joint ps qs, nov (zip_pq ps qs joint).
Proof.
  induction joint as [|[p c] jt IH]; intros ps qs; cbn [zip_pq]; [apply nov_done|].
  destruct ps; [now apply nov_panic|]. destruct qs; [now apply nov_panic|].
  apply nov_bind; [apply IH|intros ? _; apply nov_done].
Qed.

Lemma nov_many_muls_loop : forall fuel sum cur e, nov (many_muls_loop fuel sum cur e).
Proof.
  induction fuel as [|f IH]; intros sum cur e; cbn [many_muls_loop]; [apply nov_fuel|].
  apply nov_if; [|apply nov_done].
  apply nov_rbind.
  - apply nov_if; [|apply nov_done]. apply nov_bind; [apply nov_zip_sum|intros ? _; apply nov_many_adds].
  - intros sum1 _. apply nov_if; [apply nov_done|].
    apply nov_rbind; [apply nov_many_adds|intros tmp _].
    apply nov_bind; [apply nov_set_fst|intros ? _; apply IH].
Qed.

Lemma nov_many_muls pts e : nov (many_muls pts e).
Proof. apply nov_many_muls_loop. Qed.

Lemma nov_pstage1 : forall cnt k joint, nov (pstage1 cnt k joint).
Proof.
  induction cnt as [|cnt IH]; intros k joint; cbn [pstage1]; [apply nov_done|].
  apply nov_rbind; [apply nov_many_muls|intros tmp _].
  apply nov_bind; [apply nov_set_fst|intros ? _; apply IH].
Qed.

Lemma nov_pstage2_loop : forall fuel cur_e b2 tmp, 0 <= cur_e -> b2 <= two64 - 7 ->
  nov (pstage2_loop fuel Checked cur_e b2 tmp).
Proof.
  induction fuel as [|f IH]; intros cur_e b2 tmp H0 Hb; cbn [pstage2_loop]; [apply nov_fuel|].
  destruct (Z.leb_spec cur_e b2) as [Hle|_]; [|apply nov_done].
  rewrite u64_norm_in by lia. cbn [bind].
  apply nov_rbind; [apply nov_many_adds|intros result _].
  apply nov_bind; [apply nov_set_fst3|intros ? _]. apply IH; lia.
Qed.

Lemma nov_pstage2_one init b2 joint : 0 <= init -> b2 <= two64 - 7 -> nov (pstage2_one Checked init b2 joint).
Proof.
  intros H0 Hb. unfold pstage2_one.
  apply nov_rbind; [apply nov_many_adds|intros p2 _]. apply nov_bind; [apply nov_zip_pq|intros t2 _].
  apply nov_rbind; [apply nov_many_adds|intros p4 _]. apply nov_bind; [apply nov_zip_pq|intros t4 _].
  apply nov_rbind; [apply nov_many_adds|intros p6 _].
  apply nov_rbind; [apply nov_many_muls|intros tmp _]. apply nov_bind; [apply nov_set_fst|intros joint1 _].
  apply nov_bind; [apply nov_zip_pq|intros t _].
  apply nov_rbind; [now apply nov_pstage2_loop|intros ? _; apply nov_done].
Qed.

(** [P] Batched one-shot. *)
Theorem oneshot_parallel_no_overflow : forall joint b1 b2, 0 <= b1 <= two64 - 2 -> b2 <= two64 - 7 ->
  ecm_oneshot_parallel Checked joint b1 b2 <> Panic POverflow.
Proof.
  intros joint b1 b2 Hb1 Hb2. change (nov (ecm_oneshot_parallel Checked joint b1 b2)). unfold ecm_oneshot_parallel.
  rewrite u64_norm_in by lia. cbn [bind].
  apply nov_rbind; [apply nov_pstage1|]. intros j1 _.
  destruct (stage2_inits_ok Checked b1 Hb1) as (i1 & i2 & -> & Hi1 & Hi2). cbn [bind].
  apply nov_rbind; [now apply nov_pstage2_one|]. intros j2 _.
  apply nov_rbind; [now apply nov_pstage2_one|]. intros ? _. apply nov_done.
Qed.

(** ** Up to the drivers *)
Lemma nov_gen_below : forall fuel bound r, nov (gen_below fuel bound r).
Proof.
  induction fuel as [|f IH]; intros bound r; cbn [gen_below]; [apply nov_fuel|].
  destruct (gen_biguint (zbits bound) r) as [v r1]. apply nov_if; [apply nov_done|apply IH].
Qed.

Lemma nov_gen_range fuel lo hi r : nov (gen_range fuel lo hi r).
Proof.
  unfold gen_range. apply nov_if; [|now apply nov_panic].
  apply nov_bind; [apply nov_gen_below|intros [v r1] _; apply nov_done].
Qed.

Lemma nov_mr_rounds : forall k n d c r, nov (mr_rounds k n d c r).
Proof.
  induction k as [|k IH]; intros n d c r; cbn [mr_rounds]; [apply nov_done|].
  apply nov_bind; [apply nov_gen_range|intros [a r1] _].
  apply nov_if; [apply IH|].
  destruct (mr_inner c (modpow a d n) n) as [[|]|t]; [apply IH|apply nov_done|].
  apply nov_if; [apply nov_done|apply IH].
Qed.

Lemma nov_is_prime n r : nov (is_prime n r).
Proof.
  unfold is_prime. apply nov_if; [apply nov_done|]. apply nov_if; [apply nov_done|].
  apply nov_if; [apply nov_done|].
  destruct (split_pow2 _ _ _) as [d c]. apply nov_mr_rounds.
Qed.

Lemma nov_perfect_power n : nov (perfect_power n).
Proof.
  unfold perfect_power. apply nov_if; [now apply nov_panic|]. apply nov_if; apply nov_done.
Qed.

Lemma nov_precheck m n r : nov (ecm_precheck m n r).
Proof.
  destruct m; cbn [ecm_precheck]; [|apply nov_done].
  apply nov_bind; [apply nov_is_prime|intros [b r1] _].
  apply nov_bind; [|intros ? _; apply nov_done].
  unfold assert_. destruct (negb b); [apply nov_done|now apply nov_panic].
Qed.

Lemma nov_found (m : mode) (n fac count : Z) (r3 : rng) :
  nov (do rm <- match m with Checked => zrem n fac | Wrapping => Done 0 end;
       do _ <- debug_assert m (rm =? 0); Done (fac, count, r3)).
Proof.
  apply nov_bind; [destruct m; [apply nov_zrem|apply nov_done]|intros rm _].
  apply nov_bind; [|intros ? _; apply nov_done].
  destruct m; cbn [debug_assert]; [|apply nov_done].
  unfold assert_. destruct (rm =? 0); [apply nov_done|now apply nov_panic].
Qed.

Lemma nov_ecm_loop : forall fuel n b1 b2 count r, 0 <= b1 <= two64 - 2 -> b2 <= two64 - 7 ->
  nov (ecm_loop fuel Checked n b1 b2 count r).
Proof.
  induction fuel as [|f IH]; intros n b1 b2 count r Hb1 Hb2; cbn [ecm_loop]; [apply nov_fuel|].
  apply nov_bind; [apply nov_gen_range|intros [a r1] _].
  apply nov_bind; [apply nov_gen_range|intros [x r2] _].
  apply nov_bind; [apply nov_gen_range|intros [y r3] _].
  apply nov_bind; [now apply oneshot_no_overflow|intros [u|fac] _]; [now apply IH|].
  apply nov_if; [now apply IH|]. apply (nov_found Checked).
Qed.

(** [P] Sequential [ecm], dev profile. *)
Theorem ecm_no_overflow : forall fuel n b1 b2 r, 0 <= b1 <= two64 - 2 -> b2 <= two64 - 7 ->
  Ecm.ecm fuel Checked n b1 b2 r <> Panic POverflow.
Proof.
  intros fuel n b1 b2 r Hb1 Hb2. change (nov (Ecm.ecm fuel Checked n b1 b2 r)). unfold Ecm.ecm.
  apply nov_bind; [apply nov_precheck|intros r0 _]. now apply nov_ecm_loop.
Qed.

Lemma nov_draw_curves : forall k n r, nov (draw_curves k n r).
Proof.
  induction k as [|k IH]; intros n r; cbn [draw_curves]; [apply nov_done|].
  apply nov_bind; [apply nov_gen_range|intros [a r1] _].
  apply nov_bind; [apply IH|intros [rest r2] _; apply nov_done].
Qed.

Lemma nov_draw_points : forall k n r, nov (draw_points k n r).
Proof.
  induction k as [|k IH]; intros n r; cbn [draw_points]; [apply nov_done|].
  apply nov_bind; [apply nov_gen_range|intros [x r1] _].
  apply nov_bind; [apply nov_gen_range|intros [y r2] _].
  apply nov_bind; [apply IH|intros [rest r3] _; apply nov_done].
Qed.

Lemma nov_pecm_loop : forall fuel n b1 b2 pc count r, 0 <= b1 <= two64 - 2 -> b2 <= two64 - 7 ->
  nov (pecm_loop fuel Checked n b1 b2 pc count r).
Proof.
  induction fuel as [|f IH]; intros n b1 b2 pc count r Hb1 Hb2; cbn [pecm_loop]; [apply nov_fuel|].
  apply nov_bind; [apply nov_draw_curves|intros [curves r1] _].
  apply nov_bind; [apply nov_draw_points|intros [points r2] _].
  apply nov_bind; [now apply oneshot_parallel_no_overflow|intros [u|fac] _]; [now apply IH|].
  apply nov_if; [now apply IH|]. apply (nov_found Checked).
Qed.

Theorem ecm_parallel_no_overflow : forall fuel n b1 b2 r, 0 <= b1 <= two64 - 2 -> b2 <= two64 - 7 ->
  EcmParallel.ecm fuel Checked n b1 b2 r <> Panic POverflow.
Proof.
  intros fuel n b1 b2 r Hb1 Hb2. change (nov (EcmParallel.ecm fuel Checked n b1 b2 r)). unfold EcmParallel.ecm.
  apply nov_bind; [apply nov_precheck|intros r0 _]. now apply nov_pecm_loop.
Qed.

Lemma sat_mul100_small b1 : 0 <= b1 -> b1 * 100 <= two64 - 7 -> sat_mul100 b1 = b1 * 100.
Proof.
  intros H0 H. unfold sat_mul100. destruct (Z.ltb_spec (b1 * 100) two64); [reflexivity|lia].
Qed.

Section Driver.
  Variable ecm_fn : Z -> Z -> Z -> rng -> outcome (Z * Z * rng).
  Variable b1 : Z.
  Hypothesis ecm_nov : forall n r, nov (ecm_fn n b1 (sat_mul100 b1) r).

  Lemma nov_driver_loop : forall fuel stack map count r, nov (driver_loop ecm_fn fuel b1 stack map count r).
  Proof.
    induction fuel as [|f IH]; intros stack map count r; cbn [driver_loop]; [apply nov_fuel|].
    destruct stack as [|[now mult] rest]; [apply nov_done|].
    apply nov_if; [apply IH|].
    apply nov_bind; [apply nov_is_prime|intros [isp r1] _].
    apply nov_if; [apply IH|].
    apply nov_bind; [apply nov_perfect_power|intros [b k] _].
    apply nov_if; [apply IH|].
    apply nov_bind; [apply ecm_nov|intros [[fac nowcount] r2] _].
    apply nov_if; [apply IH|].
    apply nov_bind; [apply nov_zquot|intros other _; apply IH].
  Qed.

  Lemma nov_factorize_gen x r : nov (factorize_gen ecm_fn x b1 r).
  Proof.
    unfold factorize_gen. apply nov_if; [now apply nov_panic|apply nov_driver_loop].
  Qed.
End Driver.

(** [P] The drivers in the dev profile never panic with an arithmetic overflow when
    100 * B1 <= 2^64 - 7 (B1 = select_b(x) satisfies this for every x below ~2^1450). *)
Theorem no_overflow_panic : forall cfuel x b1 r, 0 <= b1 -> b1 * 100 <= two64 - 7 ->
  Ecm.factorize_verbose cfuel Checked x b1 r <> Panic POverflow.
Proof.
  intros cfuel x b1 r H0 H. unfold Ecm.factorize_verbose. apply nov_factorize_gen.
  intros n r0. rewrite sat_mul100_small by assumption. apply ecm_no_overflow; unfold two64 in *; lia.
Qed.

Theorem no_overflow_panic_parallel : forall cfuel x b1 r, 0 <= b1 -> b1 * 100 <= two64 - 7 ->
  EcmParallel.factorize_verbose cfuel Checked x b1 r <> Panic POverflow.
Proof.
  intros cfuel x b1 r H0 H. unfold EcmParallel.factorize_verbose. apply nov_factorize_gen.
  intros n r0. rewrite sat_mul100_small by assumption. apply ecm_parallel_no_overflow; unfold two64 in *; lia.
Qed.
