(** * PolyDiv: the schoolbook division loop shared by pseudo-division, monic division,
    exact division (over Z) and rational division, generic in the coefficient ring (C09).

    [gdiv_loop] is the loop of [Poly.zdiv_loop] with the ring operations abstracted;
    [zdiv_loop = gdiv_loop opsZ] by conversion, [qdiv_loop] is the instance with a total
    quotient function. *)
From RNT.Model Require Import Base Poly.
From mathcomp Require Import all_ssreflect ssralg poly.
From mathcomp Require Import zify.
From RNT.Refine Require Import PolyRefine.
Set Implicit Arguments.
Unset Strict Implicit.
Unset Printing Implicit Defensive.
Import GRing.Theory.
Local Open Scope ring_scope.

Fixpoint gdiv_loop (T : Type) (O : ring_ops T) (quot : T -> option T) (i bdeg : nat)
    (b tmp quo : list T) : option (list T * list T) :=
  match quot (List.nth (i + bdeg) tmp (r0 O)) with
  | None => None
  | Some c =>
    let tmp' := sub_scaled_at O tmp i c b in
    match i with
    | 0%N => Some (c :: quo, tmp')
    | S i' => gdiv_loop O quot i' bdeg b tmp' (c :: quo)
    end
  end.

Lemma gdiv_loop_total T (O : ring_ops T) quot i bdeg b tmp quo :
  (forall t, quot t <> None) -> gdiv_loop O quot i bdeg b tmp quo <> None.
Proof.
move=> h; elim: i tmp quo => [|i IH] tmp quo /=; case e: (quot _) => [c|] //;
  by case: (h _ e).
Qed.

Section Generic.
Variable R : ringType.
Variable ofZ : Z -> R.
Let O := ops_of ofZ.
Implicit Types (s a b tmp quo qs : seq R) (x y c : R).

Lemma Poly_rcons s c : Poly (rcons s c) = Poly s + c *: 'X^(size s).
Proof.
elim: s => [|x s IH] /=.
  by rewrite cons_poly_def mul0r !add0r expr0 alg_polyC.
rewrite !cons_poly_def IH mulrDl addrAC; congr (_ + _ + _).
by rewrite -scalerAl exprSr.
Qed.

Lemma Poly_eq0_all s : (Poly s == 0) = all (fun x => x == 0) s.
Proof.
apply/eqP/allP => [e x /(nthP 0) [j _ <-]|h].
  by rewrite -coef_Poly e coef0.
apply/polyP => j; rewrite coef_Poly coef0.
case: (ltnP j (size s)) => hj; last by rewrite nth_default.
by apply/eqP/h/mem_nth.
Qed.

(** top coefficient of a product *)
Lemma coef_mul_top (p q : {poly R}) m n :
  (size p <= m.+1)%N -> (size q <= n.+1)%N -> (p * q)`_(m + n) = p`_m * q`_n.
Proof.
move=> sp sq; rewrite coefM.
have hm : (m < (m + n).+1)%N by lia.
rewrite (bigD1 (Ordinal hm)) //= addKn big1 ?addr0 // => j jm.
have {}jm : (j : nat) != m by apply: contraNneq jm => e; apply/eqP/val_inj.
case: (ltnP j m) => hj.
  by rewrite [q`__]nth_default ?mulr0 //; move: (size q) (nat_of_ord j) sq hj {jm} => sa k; lia.
by rewrite [p`__]nth_default ?mul0r //; move/eqP: jm; move: (size p) (nat_of_ord j) sp hj => sa k; lia.
Qed.

(** ** [tmp[i + j] -= c * b[j]] *)
Lemma size_sub_scaled tmp c b : size (sub_scaled O tmp c b) = size tmp.
Proof. by elim: tmp b => [|t tmp IH] [|y b] //=; rewrite IH. Qed.

Lemma nth_sub_scaled tmp c b j : (size b <= size tmp)%N ->
  (sub_scaled O tmp c b)`_j = tmp`_j - c * b`_j.
Proof.
elim: tmp b j => [|t tmp IH] [|y b] [|j] //=; rewrite ?nth_nil ?mulr0 ?subr0 //.
by rewrite ltnS => /IH.
Qed.

Lemma size_sub_scaled_at tmp i c b : size (sub_scaled_at O tmp i c b) = size tmp.
Proof.
elim: i tmp => [|i IH] tmp; first by case: tmp => [|t tmp] //; rewrite -(size_sub_scaled (t :: tmp) c b).
by case: tmp => [|t tmp] //=; rewrite IH.
Qed.

Lemma nth_sub_scaled_at tmp i c b j : (i + size b <= size tmp)%N ->
  (sub_scaled_at O tmp i c b)`_j = tmp`_j - (if (i <= j)%N then c * b`_(j - i) else 0).
Proof.
elim: i tmp j => [|i IH] tmp j.
  rewrite add0n subn0 => /nth_sub_scaled <-.
  by case: tmp.
case: tmp => [|t tmp] //=; rewrite addSn ltnS => h.
case: j => [|j] /=; first by rewrite subr0.
by rewrite IH // ltnS subSS.
Qed.

Lemma Poly_sub_scaled_at tmp i c b : (i + size b <= size tmp)%N ->
  Poly (sub_scaled_at O tmp i c b) = Poly tmp - (c *: 'X^i) * Poly b.
Proof.
move=> h; apply/polyP => j.
rewrite coefB -scalerAl coefZ coefXnM !coef_Poly nth_sub_scaled_at //.
by rewrite ltnNge; case: (i <= j)%N => //=; rewrite mulr0.
Qed.

(** ** the loop *)
Section Loop.
Variable b : seq R.
Hypothesis b_canon : canon b.
Hypothesis b_neq0 : b != [::].
Let B := Poly b.
Let bdeg := (size b).-1.
Let lcb := last 0 b.

Lemma size_b : size b = bdeg.+1.
Proof. by rewrite /bdeg; case: (b) b_neq0. Qed.

Lemma size_B : size B = bdeg.+1.
Proof. by rewrite /B canon_size_Poly ?size_b. Qed.

Lemma coef_B_top : B`_bdeg = lcb.
Proof. by rewrite /B coef_Poly /lcb /bdeg (last_nth 0); case: (b) b_neq0. Qed.

(** one exact step lowers the degree bound *)
Lemma step_size tmp i c : (i + size b <= size tmp)%N -> (size (Poly tmp) <= i + size b)%N ->
  c * lcb = tmp`_(i + bdeg) ->
  (size (Poly (sub_scaled_at O tmp i c b)) <= i + bdeg)%N.
Proof.
move=> h1 h2 ex; apply/leq_sizeP => j hj.
rewrite coef_Poly nth_sub_scaled_at //; have -> : (i <= j)%N by lia.
move: hj; rewrite leq_eqVlt => /orP[/eqP <-|hj].
  by rewrite addKn -ex -coef_B_top /B coef_Poly subrr.
have -> : tmp`_j = 0.
  by rewrite -coef_Poly; move/leq_sizeP: h2; apply; rewrite size_b; lia.
by rewrite sub0r [b`__]nth_default ?mulr0 ?oppr0 // size_b; lia.
Qed.

(** Soundness: whenever the quotient function answers, and its answers are exact under
    an invariant [I] of the run, the loop computes a quotient and a remainder. *)
Lemma gdiv_loop_sound (quot : R -> option R) (I : nat -> seq R -> Prop) :
  (forall i tmp c, I i.+1 tmp -> quot tmp`_(i.+1 + bdeg) = Some c ->
      I i (sub_scaled_at O tmp i.+1 c b)) ->
  (forall i tmp c, I i tmp -> quot tmp`_(i + bdeg) = Some c -> c * lcb = tmp`_(i + bdeg)) ->
  forall i tmp quo q r,
    I i tmp -> (i + size b <= size tmp)%N -> (size (Poly tmp) <= i + size b)%N ->
    gdiv_loop O quot i bdeg b tmp quo = Some (q, r) ->
    exists2 qs, q = qs ++ quo &
      [/\ size qs = i.+1, Poly tmp = Poly qs * B + Poly r,
          (size (Poly r) < size b)%N & size r = size tmp].
Proof.
move=> Ipres Iex; elim=> [|i IH] tmp quo q r Ii h1 h2 /=; rewrite Lnth_eq.
  case eq: (quot _) => [c|] // [<- <-]; exists [:: c] => //.
  have ex := Iex _ _ _ Ii eq.
  have := step_size h1 h2 ex; rewrite add0n -/bdeg => hs.
  split=> //; last by rewrite size_sub_scaled_at.
    rewrite Poly_sub_scaled_at // expr0 /= cons_poly_def mul0r add0r alg_polyC.
    by rewrite addrC subrK.
  by rewrite size_b ltnS.
case eq: (quot _) => [c|] // run.
have ex := Iex _ _ _ Ii eq.
have hs := step_size h1 h2 ex.
have [|| qs' eq_q [sz eqP szr szt]] := IH _ _ _ _ (Ipres _ _ _ Ii eq) _ _ run.
- by rewrite size_sub_scaled_at; lia.
- by move: hs; rewrite size_b; lia.
exists (rcons qs' c); first by rewrite cat_rcons.
split; rewrite ?size_rcons ?sz //; last by rewrite szt size_sub_scaled_at.
rewrite Poly_rcons sz mulrDl addrAC -eqP Poly_sub_scaled_at //.
by rewrite subrK.
Qed.

(** Completeness: if [tmp] is a multiple [qs * B] and the quotient function inverts
    multiplication by the leading coefficient, the loop finds [qs] and remainder 0. *)
Lemma gdiv_loop_complete (quot : R -> option R) :
  (forall x, quot (x * lcb) = Some x) ->
  forall i tmp quo qs,
    size qs = i.+1 -> (i + size b <= size tmp)%N -> Poly tmp = Poly qs * B ->
    exists r, [/\ gdiv_loop O quot i bdeg b tmp quo = Some (qs ++ quo, r),
                  Poly r = 0 & size r = size tmp].
Proof.
move=> quotK; elim=> [|i IH] tmp quo qs sz h1 eqP /=; rewrite Lnth_eq.
  case: qs sz eqP => [|c [|? ?]] //= _; rewrite cons_poly_def mul0r add0r => eqP.
  have -> : tmp`_(0 + bdeg) = c * lcb.
    by rewrite -coef_Poly eqP mul_polyC coefZ coef_B_top.
  rewrite quotK; eexists; split; first by [].
    by rewrite Poly_sub_scaled_at // expr0 alg_polyC eqP subrr.
  by rewrite size_sub_scaled_at.
case/lastP: qs sz eqP => [|qs c] //; rewrite size_rcons => -[sz] eqP.
have -> : tmp`_(i.+1 + bdeg) = c * lcb.
  rewrite -coef_Poly eqP coef_mul_top ?size_B //; last first.
    by rewrite (leq_trans (size_Poly _)) // size_rcons sz.
  by rewrite coef_Poly nth_rcons sz ltnn eqxx coef_B_top.
rewrite quotK.
have [||r [run r0 szr]] := IH (sub_scaled_at O tmp i.+1 c b) (c :: quo) qs sz.
- by rewrite size_sub_scaled_at; lia.
- by rewrite Poly_sub_scaled_at // eqP Poly_rcons sz mulrDl addrK.
exists r; split=> //; first by rewrite cat_rcons.
by rewrite szr size_sub_scaled_at.
Qed.

End Loop.
End Generic.
