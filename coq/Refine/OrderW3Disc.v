(** * OrderW3Disc (C15): [Order::discriminant] with the polynomial discriminant wired in.

      [Round2.order_disc m b f] is [Order::discriminant_with_min_poly]: it evaluates
      [determinant(&self.basis)], then [discriminant(min_poly)] with the model of
      src/discriminant.rs ([Resultant.discriminant], C05), then the rest of the routine
      ([Order.order_discriminant] with that value).  This is the function the C15 correspondence
      check runs.  Here: it is [order_discriminant] at the value [discriminant] returns (both
      directions), the index formula for it, and the power-basis order of a monic f has
      discriminant exactly the value of [discriminant f] (which C05 proves to be
      (-1)^(n(n-1)/2) Res(f, f') / lc f).  Style: ssreflect/MathComp. *)
From Coq Require Import ZArith List.
From mathcomp Require Import all_ssreflect ssralg zmodp poly matrix mxalgebra mxpoly.
From mathcomp Require Import ssrZ zify.
From Coq Require Import QArith Qcanon.
From RNT.Model Require Import Base Poly Algebraic LinAlg MultTable Order.
From RNT.Model Require Resultant Round2.
From RNT.Refine Require Import QcField LinAlgQc.
From RNT.Refine Require OrderIndex DetSinglyGen ResProofs SubresSpec.
Set Implicit Arguments.
Unset Strict Implicit.
Unset Printing Implicit Defensive.
Import GRing.Theory.
Local Close Scope Z_scope.
Local Close Scope Q_scope.
Local Close Scope Qc_scope.
Local Open Scope ring_scope.

Import Round2.

(** ** [order_disc] is [order_discriminant] at the value returned by [discriminant] *)
Lemma order_disc_spec m (b : qmat) (f : list Z) d :
  order_disc m b f = Done d ->
  exists discf, snd (Resultant.discriminant m f) = Done discf /\
                order_discriminant m discf b f = Done d.
Proof.
rewrite /order_disc.
case: (LinAlg.determinant fopsQc b) => [dt| |] //=.
by case: (snd (Resultant.discriminant m f)) => [discf| |] //= E; exists discf.
Qed.

Lemma order_disc_intro m (b : qmat) (f : list Z) discf d :
  snd (Resultant.discriminant m f) = Done discf ->
  order_discriminant m discf b f = Done d -> order_disc m b f = Done d.
Proof.
move=> D E; rewrite /order_disc.
have [dt [e [-> _]]] := OrderIndex.order_discriminant_inv _ _ _ _ _ E.
by rewrite /= D.
Qed.

Lemma order_disc_iff m (b : qmat) (f : list Z) d :
  order_disc m b f = Done d <->
  exists discf, snd (Resultant.discriminant m f) = Done discf /\
                order_discriminant m discf b f = Done d.
Proof.
split; first exact: order_disc_spec.
by case=> discf [D E]; apply: order_disc_intro D E.
Qed.

(** ** disc(B) = (A:B)^2 disc(A) for the wired discriminant *)
Theorem disc_index_wired m (a b : qmat) (f : list Z) i dA :
  order_index a b = Done i -> order_disc m a f = Done dA ->
  order_disc m b f = Done (i * i * dA)%Z.
Proof.
move=> I /order_disc_spec [discf [D E]].
exact: (order_disc_intro D (OrderIndex.disc_index _ _ _ _ _ _ _ I E)).
Qed.

(** ** the power-basis order of a monic f of degree >= 2 *)
Lemma monic_canonb (f : list Z) n : length f = n.+1 -> List.nth n f 0%Z = 1%Z ->
  ResProofs.canonb f = true.
Proof.
move=> lf monic; apply/ResProofs.canonb_spec; right.
have -> : List.last f 0%Z = List.nth n f 0%Z.
  have -> : n = (length f - 1)%coq_nat by rewrite lf; lia.
  elim: (f) => [|x [|y s] IH] //.
  have -> : List.last (x :: y :: s) 0%Z = List.last (y :: s) 0%Z by [].
  have -> : (length (x :: y :: s) - 1)%coq_nat = (length (y :: s) - 1)%coq_nat.+1 by rewrite /=; lia.
  by rewrite IH.
by rewrite monic.
Qed.

(** whenever [discriminant_with_min_poly] returns d on Z[theta], [discriminant(f)] returned d *)
Theorem singly_gen_disc_wired m (f : list Z) n (o : qmat) d :
  length f = n.+1 -> (2 <= n)%coq_nat -> List.nth n f 0%Z = 1%Z ->
  singly_gen f (alg_new f) = Done o -> order_disc m o f = Done d ->
  snd (Resultant.discriminant m f) = Done d.
Proof.
move=> lf n2 monic Eo /order_disc_spec [discf [D E]].
by rewrite D (DetSinglyGen.singly_gen_disc lf n2 monic Eo E).
Qed.

(** ... and it does return: the value is the one [discriminant] returns, which satisfies the
    Sylvester-determinant specification of C05 (lc f = 1: d = (-1)^(n(n-1)/2) Res(f, f')) *)
Theorem singly_gen_disc_wired_returns m (f : list Z) n (o : qmat) :
  length f = n.+1 -> (2 <= n)%coq_nat -> List.nth n f 0%Z = 1%Z -> (2 * Z.of_nat n < two64)%Z ->
  singly_gen f (alg_new f) = Done o ->
  exists d, [/\ Resultant.discriminant m f = (true, Done d), order_disc m o f = Done d
              & d * lead_coef (Poly f) =
                (-1) ^+ (((size f).-1 * (size f).-1.-1) %/ 2) * \det (Sylvester_mx (Poly f)^`() (Poly f))].
Proof.
move=> lf n2 monic small Eo.
have cf := monic_canonb lf monic.
have lenf : ResProofs.len_ok f = true.
  by rewrite /ResProofs.len_ok lf; apply/Z.leb_le; move: small; rewrite /two64; lia.
have sf : (1 < size f)%nat by rewrite -[size f]/(length f) lf; lia.
have [d [D S]] := SubresSpec.discriminant_spec m cf lenf sf.
exists d; split=> //.
apply: (@order_disc_intro m o f d d); first by rewrite D.
exact: (DetSinglyGen.singly_gen_disc_returns m d lf n2 monic small Eo).
Qed.
