(** C20: first facts about the generic model (stdlib + lia). *)
From RNT.Model Require Import Base Lll.
From Coq Require Import Lia.

Lemma lll_small_panics : forall T (F : arith T) fuel (basis : list (list T)),
  (length basis < 2)%nat -> lll F fuel basis = Panic PIndex.
Proof.
  intros T F fuel basis Hn. unfold lll.
  destruct (Nat.ltb_spec (length basis) 2) as [_|H]; [reflexivity|lia].
Qed.
