(** * AlgNormRes: [norm (g(theta)) = Res(f, g) / lc(f)^(deg g)] (C14).

    (1) Over any field: for [F] of degree n, the determinant of the matrix [redmx] of
        multiplication by [G] on K[x]/(F) in the power basis (row j = coefficients of
        [(G * X^j) %% F]) times [lc(F)^(deg G)] is MathComp's [resultant G F] -- the classical
        Sylvester determinant Res(F, G) (see ResSylvester.v for the orientation).  Proof: in the
        Sylvester matrix subtract from the row of [G * X^j] the combination [(G * X^j) %/ F] of the
        rows of [F]; what remains is block lower triangular, the second diagonal block being
        triangular with [lc(F)] on the diagonal.
    (2) If [get_mult_table b f] returned [t], the integer matrix [M_a] of [norm_det] satisfies
        [M_a *m B = B *m redmx] for the (invertible) basis matrix [B] ([table_mul_agrees]), so it
        has the same determinant.  For the power basis of a monic [f] the statement is also given
        over Z.
    Style: ssreflect/MathComp, polynomials and matrices over [QcRing]. *)
From RNT.Model Require Import Base Poly Algebraic LinAlg MultTable Order.
From Coq Require Import QArith Qcanon.
From mathcomp Require Import all_ssreflect ssralg zmodp poly polydiv matrix mxalgebra mxpoly.
From mathcomp Require Import ssrZ zify.
From RNT.Refine Require Import QcRing PolyRefine PolyDiv PolyZ PolyQ AlgMul AlgQuot MultTableOps MultTableGet
     TableAgrees ResSylvester ResPRS ResAgree AlgNormOrder.
From RNT.Refine Require AlgNormMx.
Set Implicit Arguments.
Unset Strict Implicit.
Unset Printing Implicit Defensive.
Import GRing.Theory.
Local Open Scope ring_scope.

Section ResDet.
Variable K : fieldType.
Variables (F G : {poly K}) (n : nat).
Hypothesis szF : size F = n.+1.
Let dG := (size G).-1.

Definition redmx : 'M[K]_n := \matrix_(j < n, k < n) ((G * 'X^j) %% F)`_k.

Let F0 : F != 0. Proof. by rewrite -size_poly_eq0 szF. Qed.

Lemma size_quo j : (j < n)%N -> (size ((G * 'X^j) %/ F)%R <= dG)%N.
Proof.
move=> hj; have [->|G0] := eqVneq G 0; first by rewrite mul0r div0p size_poly0.
rewrite size_divp // szF /= size_Mmonic ?monicXn // size_polyXn /dG.
by move: (size G) => s; lia.
Qed.

Lemma size_rem j : (size ((G * 'X^j) %% F)%R <= n)%N.
Proof. by rewrite -ltnS -szF ltn_modp. Qed.

Theorem resultant_redmx : resultant G F = \det redmx * lead_coef F ^+ dG.
Proof.
rewrite /resultant Sylvester_Syl szF /= -/dG /Syl.
pose Qm : 'M[K]_(n, dG) := \matrix_(j, k) ((G * 'X^j) %/ F)`_k.
set Fb := band dG (n + dG) F.
have e1 : band n (n + dG) G = Qm *m Fb + row_mx redmx 0.
  apply/row_matrixP => j; rewrite !rowE mulmxDr mulmxA !mul_rV_band rVpoly_delta.
  have -> : delta_mx 0 j *m Qm = poly_rV ((G * 'X^j) %/ F).
    by rewrite -rowE; apply/rowP => k; rewrite !mxE.
  rewrite poly_rV_K ?size_quo //.
  have -> : delta_mx 0 j *m row_mx redmx (0 : 'M_(n, dG)) = poly_rV ((G * 'X^j) %% F).
    rewrite -rowE; apply/rowP => k; rewrite !mxE; case: splitP => k' ek; rewrite !mxE ek //.
    by rewrite nth_default // (leq_trans (size_rem j)) // leq_addr.
  by rewrite -linearD /= -divp_eq mulrC.
rewrite e1.
have -> : col_mx (Qm *m Fb + row_mx redmx 0) Fb
        = block_mx 1%:M Qm 0 1%:M *m col_mx (row_mx redmx 0) Fb.
  by rewrite mul_block_col !mul1mx mul0mx add0r addrC.
rewrite det_mulmx det_ublock !det1 !mul1r -[Fb]hsubmxK.
rewrite -[col_mx _ _]/(block_mx redmx 0 (lsubmx Fb) (rsubmx Fb)) det_lblock.
congr (_ * _).
have U (j k : 'I_dG) : rsubmx Fb j k = (F * 'X^j)`_(n + k) by rewrite mxE bandE.
have tr : is_trig_mx (rsubmx Fb).
  apply/is_trig_mxP => j k hjk; rewrite U coefMXn.
  case: ltnP => // _; rewrite nth_default // szF.
  by move: hjk; rewrite /= => hjk; lia.
rewrite (det_trig tr) (eq_bigr (fun=> lead_coef F)) ?prodr_const ?card_ord // => j _.
rewrite U coefMXn ifN; last by rewrite -leqNgt leq_addl.
by rewrite addnK -[n]/(n.+1.-1) -szF -lead_coefE.
Qed.

(** [redmx] is the matrix of [v |-> (G * v) %% F] *)
Lemma redmx_lin (v : 'rV[K]_n) : v *m redmx = poly_rV ((G * rVpoly v) %% F).
Proof.
have rowj (j : 'I_n) : delta_mx 0 j *m redmx = poly_rV ((G * 'X^j) %% F).
  by rewrite -rowE; apply/rowP => k; rewrite !mxE.
rewrite {1 2}[v]row_sum_delta mulmx_suml linear_sum mulr_sumr modp_sum linear_sum /=.
apply: eq_bigr => j _.
by rewrite -scalemxAl rowj linearZ /= rVpoly_delta -scalerAr modpZl linearZ.
Qed.

End ResDet.

Lemma big_iota_ord (R : Type) (idx : R) (op : Monoid.law idx) n (E : nat -> R) :
  \big[op/idx]_(j <- iota 0 n) E j = \big[op/idx]_(j < n) E j.
Proof. by rewrite -(big_mkord xpredT E) /index_iota subn0. Qed.

Section EquationOrder.
Variables (f : seq Z) (n : nat).
Hypothesis cf : canonZ f.
Hypothesis szf : size f = n.+1.
Hypothesis monf : nth 0%Z f n = 1%Z.
Variable b : seq (seq Qc).
Hypothesis sb : size b = n.
Hypothesis rb : forall i, (i < n)%N -> size (nth [::] b i) = n.
Hypothesis pb : forall i, (i < n)%N -> Poly (nth [::] b i) = 'X^i :> {poly Qc}.
Variable t : table.
Hypothesis gt : get_mult_table b f = Done t.
Let F := Fq f.

Lemma coef_of_coords (x : seq Qc) c : (c < n)%N -> (of_coords n b x)`_c = nth 0 x c.
Proof.
move=> hc; rewrite /of_coords coef_sum.
rewrite (eq_big_seq (fun k => nth 0 x k * (c == k)%:R)); last first.
  by move=> k; rewrite mem_iota add0n => /andP[_ hk]; rewrite coefZ pb // coefXn.
rewrite big_iota_ord (bigD1 (Ordinal hc)) //= eqxx mulr1.
rewrite big1 ?addr0 // => k; rewrite -val_eqE /= eq_sym => /negbTE ->.
by rewrite mulr0.
Qed.

Lemma of_coords_Poly (x : seq Qc) : size x = n -> of_coords n b x = Poly x.
Proof.
move=> sx; apply/polyP => c; case: (ltnP c n) => hc.
  by rewrite coef_of_coords // coef_Poly.
rewrite !nth_default //; first by rewrite (leq_trans (size_Poly _)) // sx.
exact: leq_trans (size_of_coords rb x) hc.
Qed.

Lemma of_coords_unit j : (j < n)%N -> of_coords n b (map qz (Ideal.unit_vec n j)) = 'X^j.
Proof.
move=> hj; rewrite /of_coords.
rewrite (eq_big_seq (fun k => if k == j then 'X^j else 0)); last first.
  move=> k; rewrite mem_iota add0n => /andP[_ hk].
  rewrite nth_map_qz AlgNormMx.nth_unit_vec // eq_sym pb //.
  by case: eqP => [->|_]; rewrite ?scale1r ?scale0r.
rewrite big_iota_ord (bigD1 (Ordinal hj)) //= eqxx.
by rewrite big1 ?addr0 // => k; rewrite -val_eqE /= => /negbTE ->.
Qed.

Lemma monic_F : F \is monic.
Proof.
apply/monicP; rewrite lead_coefE (size_Fq cf szf) /= /F /Fq coef_Poly.
by rewrite (nth_map 0%Z) ?szf // monf.
Qed.

Lemma Mrep_redmx (a : seq Z) : size a = n ->
  map_mx Qc_ofZ (AlgNormMx.Mrep t n a) = redmx F (Poly (map qz a)) n.
Proof.
move=> sa; apply/matrixP => j k; rewrite [LHS]mxE [RHS]mxE.
have -> : AlgNormMx.Mrep t n a j k = nth 0%Z (AlgNormMx.tmul t n a (Ideal.unit_vec n j)) k.
  by move/rowP/(_ k): (AlgNormMx.row_Mrep t a j); rewrite !mxE.
rewrite -qzE -nth_map_qz -(coef_of_coords _ (ltn_ord k)).
rewrite (tmul_agrees cf szf sb rb gt) ?AlgNormMx.size_unit_vec //.
by rewrite of_coords_unit // of_coords_Poly // size_map.
Qed.

(** [P] norm of [g(theta)] in the equation order of a monic [f]: the resultant, over Qc ... *)
Theorem norm_resultant_Qc (a : seq Z) : size a = n ->
  exists2 nm, mt_norm t a = Done nm & qz nm = resultant (Poly (map qz a)) (Fq f).
Proof.
move=> sa; exists (\det (AlgNormMx.Mrep t n a)).
  exact: (AlgNormMx.mt_norm_Mrep (ct cf szf sb rb gt) sa).
rewrite (resultant_redmx (Poly (map qz a)) (size_Fq cf szf)) (monicP monic_F) expr1n mulr1.
by rewrite -Mrep_redmx // det_map_mx.
Qed.

(** ... and over Z (for [a <> 0]; [resultant] is MathComp's Sylvester determinant over the ring Z) *)
Theorem norm_resultant_Z (a : seq Z) : size a = n -> Poly a != 0 ->
  mt_norm t a = Done (resultant (Poly a) (Poly f)).
Proof.
move=> sa a0; have [nm -> e] := norm_resultant_Qc sa; congr Done; apply: Qc_ofZ_inj.
rewrite -qzE e /Fq -!Lmap_eq !(Poly_map_ofZ) (@map_resultant_gen _ _ Qc_ofZ_rmorphism) //.
  by rewrite -(rmorph0 Qc_ofZ_rmorphism) (inj_eq Qc_ofZ_inj) lead_coef_eq0.
rewrite -(rmorph0 Qc_ofZ_rmorphism) (inj_eq Qc_ofZ_inj) lead_coef_eq0.
by rewrite canon_Poly_eq0 //; apply/eqP => f0; move: szf; rewrite f0.
Qed.

End EquationOrder.

(** ** any basis, any leading coefficient *)
Section AnyBasis.
Variables (f : seq Z) (n : nat).
Hypothesis cf : canonZ f.
Hypothesis szf : size f = n.+1.
Hypothesis n0 : (0 < n)%N.
Variable b : seq (seq Qc).
Hypothesis sb : size b = n.
Hypothesis rb : forall i, (i < n)%N -> size (nth [::] b i) = n.
Variable t : table.
Hypothesis gt : get_mult_table b f = Done t.
Let F := Fq f.

Definition bmx : 'M[Qc]_n := \matrix_(i < n, j < n) nth 0 (nth [::] b i) j.
Definition qrow (x : seq Qc) : 'rV[Qc]_n := \row_k nth 0 x k.

Lemma of_coords_bmx (x : seq Qc) : of_coords n b x = rVpoly (qrow x *m bmx).
Proof.
apply/polyP => c; case: (ltnP c n) => hc; last first.
  rewrite !nth_default //; first exact: leq_trans (size_rVpoly _) hc.
  exact: leq_trans (size_of_coords rb x) hc.
rewrite (coef_rVpoly_ord _ (Ordinal hc)) mxE /of_coords coef_sum big_iota_ord.
by apply: eq_bigr => k _; rewrite coefZ coef_Poly !mxE.
Qed.

Lemma bmx_unit : bmx \in unitmx.
Proof.
rewrite -row_free_unit -kermx_eq0; apply/eqP/row_matrixP => i; rewrite row0.
set r := row i (kermx bmx).
have e0 : of_coords n b (rVpoly r) = 0.
  rewrite of_coords_bmx.
  have -> : qrow (rVpoly r) = r by apply/rowP => k; rewrite mxE coef_rVpoly_ord.
  by rewrite /r -row_mul mulmx_ker row0 linear0.
apply/rowP => k; rewrite [RHS]mxE -(coef_rVpoly_ord r k).
exact: (of_coords_eq0 sb gt n0 e0 (ltn_ord k)).
Qed.

Lemma Mrep_conj (a : seq Z) : size a = n ->
  map_mx Qc_ofZ (AlgNormMx.Mrep t n a) *m bmx = bmx *m redmx F (of_coords n b (map qz a)) n.
Proof.
move=> sa; set G := of_coords n b (map qz a).
apply/row_matrixP => j; rewrite !row_mul; apply: (can_inj (@rVpolyK _ n)).
have -> : row j (map_mx Qc_ofZ (AlgNormMx.Mrep t n a))
        = qrow (map qz (AlgNormMx.tmul t n a (Ideal.unit_vec n j))).
  apply/rowP => k; rewrite !mxE nth_map_qz qzE; congr Qc_ofZ.
  by move/rowP/(_ k): (AlgNormMx.row_Mrep t a j); rewrite !mxE.
rewrite -of_coords_bmx (tmul_agrees cf szf sb rb gt) ?AlgNormMx.size_unit_vec // -/G -/F.
rewrite redmx_lin poly_rV_K; last by rewrite -ltnS -(size_Fq cf szf) ltn_modp -size_poly_eq0 (size_Fq cf szf).
congr ((G * _) %% F); rewrite of_coords_bmx [row j bmx]rowE; congr (rVpoly (_ *m bmx)).
apply/rowP => k; rewrite !mxE nth_map_qz AlgNormMx.nth_unit_vec // qzE.
by rewrite eqxx /= -val_eqE /= eq_sym; case: eqP.
Qed.

(** [P] [norm a = Res(f, g) / lc(f)^(deg g)] where [g = of_coords a] is the polynomial with
    [a = g(theta)]; [resultant g f] is the Sylvester determinant Res(f, g) of the property text *)
Theorem norm_resultant_gen (a : seq Z) : size a = n ->
  let g := of_coords n b (map qz a) in
  exists2 nm, mt_norm t a = Done nm
            & qz nm = resultant g (Fq f) / lead_coef (Fq f) ^+ (size g).-1.
Proof.
move=> sa g; exists (\det (AlgNormMx.Mrep t n a)).
  exact: (AlgNormMx.mt_norm_Mrep (ct cf szf sb rb gt) sa).
have lc0 : lead_coef (Fq f) != 0 by rewrite lead_coef_eq0 -size_poly_eq0 (size_Fq cf szf).
rewrite (resultant_redmx g (size_Fq cf szf)) mulfK ?expf_neq0 //.
have := congr1 (fun A => \det A) (Mrep_conj sa); rewrite !det_mulmx det_map_mx -/g -/F.
rewrite [X in _ = X]mulrC; apply: mulIf.
by move: bmx_unit; rewrite unitmxE unitfE.
Qed.

End AnyBasis.

(** the basis [trivial_order_monic] starts from is the power basis *)
Lemma identity_power_basis n :
  [/\ size (identity fopsQc n) = n,
      forall i, (i < n)%N -> size (nth [::] (identity fopsQc n) i) = n
    & forall i, (i < n)%N -> Poly (nth [::] (identity fopsQc n) i) = 'X^i :> {poly Qc}].
Proof.
rewrite /identity !Lmap_eq Lseq_eq; split; first by rewrite size_map size_iota.
  by move=> i hi; rewrite (nth_map 0%N) ?size_iota // Lmap_eq size_map size_iota.
move=> i hi; rewrite (nth_map 0%N) ?size_iota // Lmap_eq nth_iota // add0n.
apply/polyP => c; rewrite coef_Poly coefXn.
case: (ltnP c n) => hc; last first.
  by rewrite nth_default ?size_map ?size_iota //; case: eqP hc => // ->; rewrite leqNgt hi.
rewrite (nth_map 0%N) ?size_iota // nth_iota // add0n eq_sym.
by case: (Nat.eqb_spec i c) => [->|/eqP/negbTE ->]; rewrite ?eqxx.
Qed.

Theorem norm_resultant_identity (f : seq Z) (n : nat) : canonZ f -> size f = n.+1 -> nth 0%Z f n = 1%Z ->
  forall t, get_mult_table (identity fopsQc n) f = Done t ->
  forall a : seq Z, size a = n -> Poly a != 0 -> mt_norm t a = Done (resultant (Poly a) (Poly f)).
Proof.
move=> cf szf monf t gt a sa a0; have [sb rb pb] := identity_power_basis n.
exact: (norm_resultant_Z cf szf monf sb rb pb gt sa a0).
Qed.
