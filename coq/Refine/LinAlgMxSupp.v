(** * LinAlgMxSupp: subspace::supplement_basis against MathComp matrices (generic fieldType). Style: ssreflect. *)
From mathcomp Require Import all_ssreflect ssralg zmodp matrix perm fingroup mxalgebra.
From mathcomp Require Import zify.
From RNT.Model Require Import Base Poly LinAlg.
From RNT.Refine Require Import LinAlgList LinAlgStep LinAlgSupp LinAlgMx LinAlgMxIim.

Set Implicit Arguments.
Unset Strict Implicit.
Unset Printing Implicit Defensive.

Import GRing.Theory.
Local Close Scope Z_scope.
Local Open Scope ring_scope.

Section RowRepl.
Variable K : fieldType.

(** the identity with row [q] replaced by [w] *)
Definition rowrepl n (q : 'I_n) (w : 'rV[K]_n) : 'M[K]_n :=
  \matrix_(r, c) (if r == q then w 0 c else (r == c)%:R).

Lemma mul_rowrepl n p (q : 'I_n) (w : 'rV[K]_n) (A : 'M[K]_(n, p)) r c :
  (rowrepl q w *m A) r c = if r == q then (w *m A) 0 c else A r c.
Proof.
rewrite !mxE; case: ifP => Hr.
  by apply: eq_bigr => i _; rewrite mxE Hr.
under eq_bigr => i _ do rewrite mxE Hr.
exact: sum_delta'.
Qed.

Lemma rowrepl_det n (q : 'I_n) (w : 'rV[K]_n) : w 0 q != 0 -> \det (rowrepl q w) != 0.
Proof.
move=> Hw.
pose v : 'rV[K]_n := \row_c (if c == q then (w 0 q)^-1 else - w 0 c / w 0 q).
suff H : rowrepl q w *m rowrepl q v = 1%:M.
  have := congr1 (@matrix.determinant _ n) H; rewrite det_mulmx det1 => /eqP.
  by apply: contraTneq => ->; rewrite mul0r eq_sym oner_eq0.
apply/matrixP => r c; rewrite mul_rowrepl [RHS]mxE.
case: (r =P q) => [->|/eqP Hr]; last by rewrite mxE (negbTE Hr).
rewrite mxE (bigD1 q) //= !mxE eqxx.
under eq_bigr => i Hi do rewrite mxE (negbTE Hi).
rewrite (eq_sym q c); case: (c =P q) => [->|/eqP Hc].
  by rewrite mulfV // big1 ?addr0 // => i Hi; rewrite (negbTE Hi) mulr0.
rewrite (bigD1 c) //= eqxx mulr1 big1 ?addr0; last first.
  by move=> i /andP [_ Hi]; rewrite (negbTE Hi) mulr0.
by rewrite mulrC mulfVK // addNr.
Qed.

Lemma mulr_rowrepl n (q : 'I_n) (w u : 'rV[K]_n) c :
  (u *m rowrepl q w) 0 c = u 0 q * w 0 c + (if c == q then 0 else u 0 c).
Proof.
rewrite mxE (bigD1 q) //= mxE eqxx; congr (_ + _).
under eq_bigr => r Hr do rewrite mxE (negbTE Hr).
case: (c =P q) => [->|/eqP Hc].
  by apply: big1 => r Hr; rewrite (negbTE Hr) mulr0.
rewrite (bigD1 c) //= eqxx mulr1 big1 ?addr0 // => r /andP [_ Hr].
by rewrite (negbTE Hr) mulr0.
Qed.

End RowRepl.

Section Supp.
Variables (K : fieldType) (ofz : Z -> K).
Notation F := (fops_of ofz).
Variables (k n : nat) (orig : list (list K)).
Let Mo : 'M[K]_(k, n) := mx_of ofz k n orig.

Definition supp_inv (s : nat) (mm bm : list (list K)) : Prop :=
  [/\ length mm = k /\ length bm = n, s <= n,
      \det (mx_of ofz n n bm) != 0,
      List.firstn s bm = List.firstn s orig &
      forall j : 'I_k, s <= j ->
        exists w : 'rV[K]_n, (forall i : 'I_n, s <= i -> w 0 i = ent F mm j i)
                             /\ row j Mo = w *m mx_of ofz n n bm].

Lemma supp_loop_spec cnt : forall s mm bm res,
  supp_loop F cnt s n orig mm bm = Done res -> (cnt + s = k)%nat -> length orig = k ->
  supp_inv s mm bm ->
  match res with
  | Ok B => [/\ length B = n, List.firstn k B = orig, \det (mx_of ofz n n B) != 0 & k <= n]
  | Err _ => ~~ row_free Mo
  end.
Proof.
elim: cnt => [|cnt IH] s mm bm res.
  move=> [<-] /= Hs Lo [[Lm Lb] Hsn Hdet Hfirst _]; split=> //; last by rewrite -Hs.
  by move: Hs; rewrite add0n => Hs; rewrite -Hs Hfirst Hs -Lo List.firstn_all.
move=> H Hs Lo [[Lm Lb] Hsn Hdet Hfirst Hw].
have Hsk : s < k by lia.
have Hs' : (s < length mm)%coq_nat by rewrite Lm; apply/ltP.
case: (supp_loop_step F cnt s n orig mm bm res H Hs')
  => [[-> Hz]|[t [mm' [bm' [Ht [Hnz [Hzs [Lm' [H' [Htb [Hsb [Hso [Ebm' Hmm']]]]]]]]]]]]].
  (* no pivot in row s: the row is a combination of the rows above it *)
  pose osk := Ordinal Hsk.
  case: (Hw osk (leqnn s)) => w [Hws Hrow].
  have w0 (i : 'I_n) : s <= i -> w 0 i = 0.
    by move=> Hi; rewrite Hws //; apply/eqP; rewrite -(is0E ofz) Hz //; have := ltn_ord i; lia.
  have Eent (i c : nat) : i < s -> ent F bm i c = ent F orig i c.
    by move=> /ltP Hi; rewrite /ent -(nth_firstn_lt bm s i [::] Hi) Hfirst nth_firstn_lt.
  pose u : 'rV[K]_k := w *m (pid_mx s : 'M_(n, k)) - delta_mx 0 osk.
  have uM : u *m Mo = 0.
    rewrite mulmxBl -rowE Hrow -mulmxA.
    have -> : (pid_mx s : 'M_(n, k)) *m Mo = (pid_mx s : 'M_n) *m mx_of ofz n n bm.
      apply/matrixP => i c; rewrite !mxE.
      case: (ltnP i s) => Hi; last first.
        by rewrite !big1 // => a _; rewrite mxE ltnNge Hi andbF mul0r.
      have Hik : i < k by lia.
      rewrite (bigD1 (Ordinal Hik)) //= [in RHS](bigD1 i) //= !mxE /= !eqxx Hi /= !mul1r.
      rewrite !big1 ?addr0; first by rewrite Eent.
      - by move=> a Ha; rewrite mxE (_ : (i == a :> nat) = false) ?mul0r // eq_sym; apply: negbTE.
      - by move=> q Hq; rewrite mxE (_ : (i == q :> nat) = false) ?mul0r // eq_sym; apply: negbTE.
    rewrite mulmxA (_ : w *m pid_mx s = w) ?subrr //.
    apply/rowP => c; rewrite mxE (bigD1 c) //= mxE eqxx /= big1 ?addr0; last first.
      by move=> a /negbTE Ha; rewrite mxE -val_eqE /= in Ha *; rewrite Ha mulr0.
    by case: (ltnP c s) => Hc; rewrite ?mulr1 // w0 // mul0r.
  have un0 : u != 0.
    apply/eqP => /rowP /(_ osk); rewrite !mxE !eqxx /= big1; last first.
      move=> a _; rewrite mxE /=; case: eqP => [->|_]; by rewrite ?ltnn ?mulr0.
    by move/eqP; rewrite sub0r oppr_eq0 oner_eq0.
  apply/negP => Hfree; move/eqP: un0; apply.
  by apply: (row_free_inj Hfree); rewrite uM mul0mx.
(* pivot t: B' = xrow s t (rowrepl t ws * B) *)
have Htn : t < n by lia.
have Hsn' : s < n by lia.
pose os := Ordinal Hsn'. pose ot := Ordinal Htn. pose osk := Ordinal Hsk.
case: (Hw osk (leqnn s)) => ws [Hws Hrow].
move: Hnz; rewrite is0E => /negbT Hp.
have pE : ws 0 ot = ent F mm s t by rewrite Hws //=; lia.
have ws_s : s < t -> ws 0 os = 0.
  by move=> Hst; rewrite Hws //=; apply/eqP; rewrite -(is0E ofz) Hzs //; lia.
pose B := mx_of ofz n n bm.
pose R := rowrepl ot ws.
have Lb' : length bm' = n by rewrite Ebm' !upd_length.
have entB' (r c : nat) : ent F bm' r c =
    if r == s then ent F orig s c else if r == t then ent F bm s c else ent F bm r c.
  rewrite /ent Ebm' !nth_upd !upd_length !Nat_eqbE !Nat_ltbE Lb Hsn' Htn !andbT.
  by case: ifP => // _; case: ifP.
have HB' : mx_of ofz n n bm' = xrow os ot (R *m B).
  apply/matrixP => r c; rewrite mxE entB' [RHS]mxE mul_rowrepl.
  have -> : (ws *m B) 0 c = ent F orig s c by rewrite -Hrow !mxE.
  case: tpermP => [->|->|/eqP H1 /eqP H2].
  - by rewrite eqxx /= eqxx.
  - rewrite /= eqxx -val_eqE /=; case: (t =P s) => [Hts|/eqP Hts]; first by rewrite Hts eqxx.
    by rewrite eq_sym (negbTE Hts) mxE.
  - by move: H1 H2; rewrite -!val_eqE /= => /negbTE -> /negbTE ->; rewrite mxE.
have Hdet' : \det (mx_of ofz n n bm') != 0.
  rewrite HB' det_xrow det_mulmx !mulf_neq0 //; first by case: ifP; rewrite ?oner_eq0 ?oppr_eq0 ?oner_eq0.
  by apply: rowrepl_det; rewrite pE.
apply: (IH _ mm' bm' res H') => //; first lia.
split=> //.
- by rewrite Lm'.
- by rewrite Ebm'; apply: supp_bm_firstn => //; lia.
move=> j Hj; case: (Hw j (ltnW Hj)) => wj [Hwj Hrowj].
pose coef := wj 0 ot / ws 0 ot.
pose w'' : 'rV[K]_n := \row_c (if c == ot then coef else wj 0 c - coef * ws 0 c).
exists (xcol os ot w''); split; last first.
  rewrite HB' xrowE xcolE -mulmxA (mulmxA (tperm_mx os ot)) tperm_mxK mul1mx mulmxA.
  rewrite Hrowj; congr (_ *m _); apply/rowP => c.
  rewrite mulr_rowrepl mxE eqxx mxE /coef; case: (c =P ot) => [->|_].
    by rewrite addr0 divfK // pE.
  by rewrite addrC subrK.
move=> i Hi; rewrite mxE mxE.
have /ltP Hj' : j < length mm by rewrite Lm.
have /ltP Hi' := ltn_ord i.
rewrite (Hmm' j i Hj' Hi') /= Nat_ltbE Hj !Nat_eqbE.
have -> : (i == s :> nat) = false by apply/eqP; lia.
case: tpermP => [Ei|Ei|/eqP H1 /eqP H2] /=.
- by move: Hi; rewrite Ei /= ltnn.
- have Hst : s < t by move: Hi; rewrite Ei.
  rewrite Ei /= eqxx -val_eqE /= (_ : (s == t) = false); last by apply/eqP; lia.
  rewrite ws_s // mulr0 subr0 Hwj //= /swp !Nat_eqbE (_ : (t == s) = false) ?eqxx //.
  by apply/eqP; lia.
- move: H2; rewrite -val_eqE /= => /negbTE ->.
  rewrite Hwj ?(ltnW Hi) // Hws ?(ltnW Hi) // /coef pE (Hwj ot) /=; last by lia.
  by rewrite mulrC.
Qed.

End Supp.

Section SuppTop.
Variables (K : fieldType) (ofz : Z -> K).
Notation F := (fops_of ofz).

Theorem supplement_spec_gen (mmat : list (list K)) res :
  supplement_basis F mmat = Done res ->
  let k := length mmat in let n := length (List.nth 0 mmat [::]) in
  match res with
  | Ok B => [/\ length B = n, List.firstn k B = mmat, \det (mx_of ofz n n B) != 0
               & row_free (mx_of ofz k n mmat)]
  | Err _ => ~~ row_free (mx_of ofz k n mmat)
  end.
Proof.
rewrite /supplement_basis => H; bind_inv H as m0 Em0.
case: (nth_chk_inv _ _ _ Em0) => _ /(_ [::]) ->.
set k := length mmat; set n := length m0 => /=.
have Inv0 : supp_inv ofz k n mmat 0 mmat (identity F n).
  split=> //; first by rewrite length_identity.
  - rewrite (_ : mx_of ofz n n (identity F n) = 1%:M) ?det1 ?oner_eq0 //.
    by apply/matrixP => r c; rewrite !mxE ent_identity.
  - move=> j _; exists (row j (mx_of ofz k n mmat)); split; first by move=> i _; rewrite !mxE.
    rewrite (_ : mx_of ofz n n (identity F n) = 1%:M) ?mulmx1 //.
    by apply/matrixP => r c; rewrite !mxE ent_identity.
have := supp_loop_spec H (addn0 k) (erefl _) Inv0.
case: res H => [B|e] H //= [LB HB Hdet Hkn]; split=> //.
pose Bm := mx_of ofz n n B.
have -> : mx_of ofz k n mmat = (pid_mx k : 'M_(k, n)) *m Bm.
  apply/matrixP => q c; rewrite !mxE.
  have Hqn : q < n by apply: leq_trans Hkn.
  rewrite (bigD1 (Ordinal Hqn)) //= big1 ?addr0; last first.
    by move=> a Ha; rewrite mxE (_ : (q == a :> nat) = false) ?mul0r // eq_sym; apply: negbTE.
  rewrite !mxE /= eqxx ltn_ord /= mul1r /ent -[in LHS]HB nth_firstn_lt //.
  exact/ltP.
rewrite /row_free mxrankMfree ?rank_pid_mx //.
by rewrite row_free_unit unitmxE unitfE.
Qed.

End SuppTop.
