(** * W8C16Order (C16, eighth wave): [P] norm multiplicativity in the maximal order of C06.
      For the order O returned by the round-2 driver (a [maximal_order], IdealW6Bridge) with table T = get_mult_table O:
      the flags of T hold ([order_table_flags]), T has no proper over-order ([maximal_no_over_order]), hence
      norm(I * J) = norm(I) * norm(J) for ALL ideals I, J over T (W8C16Main.norm_multiplicative_no_over_order).
      Style: ssreflect/MathComp. *)
From Coq Require Import ZArith List.
From mathcomp Require Import all_ssreflect ssralg.
From mathcomp Require Import ssrZ zify.
From RNT.Model Require Import Base Poly Algebraic LinAlg MultTable Order Ideal.
From RNT.Refine Require Import MatZ HnfSpec IdealMul IdealSpec IdealLaws.
From RNT.Refine Require Import IdealW6Over IdealW6Bridge W8C16Main.
From RNT.Refine Require PolyZ Round2W3Driver.
Set Implicit Arguments.
Unset Strict Implicit.
Unset Printing Implicit Defensive.

Theorem norm_multiplicative_maximal_order m (f : list Z) (n : nat) (O : qmat) (T : table) (I J : Ideal.ideal)
    (D : frac_ideal) :
  PolyZ.canonZ f = true -> length f = n.+1 -> (1 <= n)%coq_nat ->
  Round2W3Driver.is_order f n O -> get_mult_table O f = Done T -> maximal_order f n O ->
  get_inv_diff T = Done D ->
  i_table I = T -> wf n (i_hnf I) -> is_hnf (i_hnf I) = true -> length (i_hnf I) = n -> closed_mult T (i_hnf I) ->
  i_table J = T -> wf n (i_hnf J) -> is_hnf (i_hnf J) = true -> length (i_hnf J) = n -> closed_mult T (i_hnf J) ->
  exists P nI nJ,
    [/\ ideal_mul m I J = Done P, i_table P = T /\ length (i_hnf P) = n,
        norm I = Done nI /\ (0 < nI)%Z, norm J = Done nJ /\ (0 < nJ)%Z & norm P = Done (nI * nJ)%Z].
Proof.
move=> cf Lf n1 IO GT Hmax ED.
have [ct lT hts [fc fa] hu] := order_table_flags cf Lf n1 IO GT.
have Hno := maximal_no_over_order cf Lf n1 IO GT Hmax.
case: I => HI tI /= -> WI II LI CI TJ WJ IJ LJ CJ.
have hn : (1 <= length T)%coq_nat by rewrite lT.
have hu' : forall y, length y = length T -> bil T y (unit_vec (length T) 0) = y by rewrite lT.
have := @norm_multiplicative_no_over_order m (mkIdeal HI T) J D hts fc fa hn hu' Hno ED.
by rewrite /= lT; apply.
Qed.
