(** * W7C07Sized: C07, a divisor q (in Z[x]) of a polynomial a of degree <= 25 with coefficients of at most 2^24 bits
    has [prime_fuel q <= 2^30] (Landau-Mignotte: |q_i| <= 2^deg(q) ||a||_1). *)
From Coq Require Import ZArith Lia Znumtheory.
From RNT.Model Require Import Base Poly PolyModP FactorModP Hensel PolyZFactor.
From mathcomp Require Import all_ssreflect ssralg ssrnum poly polydiv.
From mathcomp Require Import ssrZ zify.
From RNT.Refine Require Import PolyRefine PolyDiv PolyZ.
From RNT.Refine Require Import PolyZFactorW3Mignotte PolyZFactorW3Bound W5Sized.
Set Implicit Arguments.
Unset Strict Implicit.
Unset Printing Implicit Defensive.
Import Order.TTheory GRing.Theory Num.Theory.
Local Open Scope ring_scope.

Lemma prime_fuel_of_divisor (a q : seq Z) (v : {poly Z}) : canonZ a -> canonZ q -> a != [::] ->
  Poly a = Poly q * v -> (size a <= 26)%N ->
  (forall x, x \in a -> (Z.log2 (Z.abs x) < 16777216)%Z) ->
  (Z.of_nat (prime_fuel q) <= 1073741824)%Z.
Proof.
move=> ca cq a0 e sa hbits.
have [B EB] : exists B : nat, Z.of_nat B = 16777216%Z by exists (Z.to_nat 16777216); lia.
have Pa0 : Poly a != 0 by rewrite canon_Poly_eq0.
have v0 : v != 0 by apply: contraNneq Pa0 => h; rewrite e h mulr0.
have Pq0 : Poly q != 0 by apply: contraNneq Pa0 => h; rewrite e h mul0r.
have sPa : (size (Poly a) <= 26)%N by rewrite canon_size_Poly.
have sq : (size q <= size a)%N.
  rewrite -(canon_size_Poly cq) -(canon_size_Poly ca) e size_mul //.
  by move: (size_poly_gt0 v); rewrite v0; move: (size (Poly q)) (size v) => x y; lia.
have ha i : `|(Poly a)`_i| <= 2 ^+ B.
  rewrite -Zpow_exp EB normZ_abs leZ_le; apply/Z.leb_le/Z.lt_le_incl.
  apply: abs_lt_pow2_of_log2 => //.
  rewrite coef_Poly; case: (ltnP i (size a)) => hi; last by rewrite nth_default.
  by apply: hbits; exact: mem_nth.
have hN := norm1_bound sPa ha.
have two1 : 1 <= (2 : Z) by [].
have two0 : 0 <= (2 : Z) by [].
have hq i : `|(Poly q)`_i| <= 2 ^+ (B + 30).
  apply: le_trans (factor_coef_bound e Pa0 i) _.
  have -> : (B + 30 = 25 + (B + 5))%N by lia.
  rewrite exprD; apply: ler_pmul; rewrite ?exprn_ge0 //; first by apply: sumr_ge0 => j _; lia.
  by rewrite ler_weexpn2l // canon_size_Poly //; move: sq sa; move: (size q) (size a) => x y; lia.
have hS : abs_sum q 0 <= 2 ^+ (B + 35).
  rewrite abs_sum_spec Z.add_0_l.
  apply: (@le_trans _ _ (\sum_(j < size q) 2 ^+ (B + 30))).
    by apply: ler_sum => j _; have := hq j; rewrite coef_Poly normZ_abs.
  rewrite sumr_const card_ord -mulr_natr.
  have -> : (B + 35 = (B + 30) + 5)%N by lia.
  rewrite [X in _ <= X]exprD ler_wpmul2l ?exprn_ge0 //.
  have : (size q <= 32)%N by move: sq sa; move: (size q) (size a) => x y; lia.
  by rewrite -(ler_nat [numDomainType of Z]).
have hlS : (Z.log2 (abs_sum q 0) <= Z.of_nat (B + 35))%Z.
  rewrite -(Z.log2_pow2 (Z.of_nat _)); last exact: Nat2Z.is_nonneg.
  by apply: Z.log2_le_mono; move: hS; rewrite -Zpow_exp leZ_le => /Z.leb_le.
have hll : (Z.log2 (Z.of_nat (length q)) <= 4)%Z.
  have -> : 4%Z = Z.log2 31 by [].
  by apply: Z.log2_le_mono; rewrite Llength_eq; move: sq sa; move: (size q) (size a) => x y; lia.
have l26 : (Z.of_nat (length q) <= 26)%Z.
  by rewrite Llength_eq; move: sq sa; move: (size q) (size a) => x y; lia.
rewrite /prime_fuel Nat2Z.inj_add !Nat2Z.inj_mul !Nat2Z.inj_add !Z2Nat.id; try exact: Z.log2_nonneg.
have A0 := Z.log2_nonneg (abs_sum q 0); have C0 := Z.log2_nonneg (Z.of_nat (length q)).
move: hlS hll l26 A0 C0; rewrite Nat2Z.inj_add EB.
set A := Z.log2 (abs_sum q 0); set C := Z.log2 (Z.of_nat (length q)); set L := Z.of_nat (length q).
move=> hA hC hL A0 C0.
have L0 : (0 <= L)%Z by rewrite /L; lia.
have : (L * (A + C + 2) <= 26 * (16777216 + 35 + 4 + 2))%Z by apply: Z.mul_le_mono_nonneg; lia.
rewrite -[Z.of_nat 2]/2%Z -[Z.of_nat 8]/8%Z; lia.
Qed.

