(** C20: [lll_reduced_exact] -- in exact arithmetic, for every square basis with linearly independent rows
    and every fuel, a returned basis is LLL-reduced with parameter 3/4 (the flag of
    [lll_reduced_partial] is always [true]).   (stdlib; lia, ring on Qc.) *)
From RNT.Model Require Import Base Lll.
From RNT.Refine Require Import LllMat LllGS LllSqrt LllH LllHB LllReduced LllExitStep2 LllExitIndep LllExitLoop LllExitGS LllExitTotal.
From Coq Require Import Lia QArith Qcanon.
Open Scope Z_scope.

Local Notation F := arithQ.
Local Notation "x +q y" := (Qcplus x y) (at level 50, left associativity).
Local Notation "x *q y" := (Qcmult x y) (at level 40, left associativity).
Local Notation "x -q y" := (Qcminus x y) (at level 50, left associativity).
Local Notation q0 := (Q2Qc 0).
Local Notation q1 := (Q2Qc 1).

(** B_ip *)
Definition mget (B : list (list Qc)) (i p : nat) : Qc := nth p (nth i B []) q0.

(** non-singular, as "the rows are linearly independent": no non-trivial rational combination of the rows
    vanishes *)
Definition rows_independent (B : list (list Qc)) : Prop :=
  forall c : nat -> Qc,
    (forall p, (p < length B)%nat -> qsum (length B) (fun i => c i *q mget B i p) = q0) ->
    forall i, (i < length B)%nat -> c i = q0.

(** ... which holds as soon as B has a right inverse C (B C = 1), a criterion that can be evaluated *)
Definition right_inverse (B C : list (list Qc)) : Prop :=
  forall i j, (i < length B)%nat -> (j < length B)%nat ->
    qsum (length B) (fun p => mget B i p *q mget C p j) = if Nat.eqb i j then q1 else q0.

Lemma right_inverse_independent B C : right_inverse B C -> rows_independent B.
Proof.
  intros RI c H j Hj. unfold right_inverse in RI. set (n := length B) in *.
  assert (E : qsum n (fun p => qsum n (fun i => c i *q mget B i p) *q mget C p j) = q0).
  { apply qsum_zero. intros p Hp. rewrite (H p Hp). ring. }
  rewrite (qsum_ext n _ (fun p => qsum n (fun i => c i *q mget B i p *q mget C p j))) in E.
  2:{ intros p Hp. rewrite Qcmult_comm, <- qsum_scale. apply qsum_ext. intros. ring. }
  rewrite qsum_exch in E.
  rewrite (qsum_ext n _ (fun i => if Nat.eqb i j then c i else q0)) in E.
  - rewrite (qsum_single c j n Hj) in E. exact E.
  - intros i Hi.
    rewrite (qsum_ext n _ (fun p => c i *q (mget B i p *q mget C p j))) by (intros; ring).
    rewrite qsum_scale, (RI i j Hi Hj). destruct (Nat.eqb i j); ring.
Qed.

(** the initial state of the main loop *)
Lemma Forall_repeat {A} (P : A -> Prop) x m : P x -> Forall P (repeat x m).
Proof. intros H. induction m; cbn; constructor; assumption. Qed.

Lemma init_linv (B : list (list Qc)) :
  let n := length B in
  (2 <= n)%nat -> Forall (fun r => length r = n) B -> rows_independent B ->
  let zero_row := repeat (f0 F) n in
  let s0 := mkL 1 0 B B (set_nth zero_row 0 (norm_sqr F (row B 0))) (repeat zero_row n) (identity n) in
  linv n s0 /\ prefix_red s0 1.
Proof.
  intros n Hn Sq Ind zero_row s0.
  assert (WB : square n B) by (split; [reflexivity|exact Sq]).
  assert (W : wfstate n s0).
  { unfold wfstate, s0; cbn [l_basis l_bstar l_mu l_b l_kmax l_h].
    split; [exact WB|]. split; [exact WB|].
    split; [split; [apply repeat_length|apply Forall_repeat; apply repeat_length]|].
    split; [rewrite length_set_nth; apply repeat_length|]. split; [lia|].
    exact (wf_identR Z 0 1 n). }
  assert (N0 : Nb s0 0 = qsum n (fun p => Bv s0 0 p *q Bv s0 0 p)).
  { unfold Nb, get1, s0; cbn [l_b f0 F arithQ]. rewrite nth_set_nth_eq by (unfold zero_row; rewrite repeat_length; lia).
    unfold norm_sqr. apply inner_qsum; apply (square_row n); try assumption; lia. }
  split; [constructor|].
  - exact W.
  - constructor; cbn [l_kmax s0].
    + intros i p Hi. replace i with 0%nat by lia. unfold Bv, Sv, s0; cbn [l_basis l_bstar qsum]. ring.
    + intros i j Hi Hj Hne. lia.
    + intros i Hi. replace i with 0%nat by lia. exact N0.
  - cbn [l_kmax s0]. intros i Hi. replace i with 0%nat by lia. rewrite N0.
    apply qc_pos_of_nonneg_nz; [apply qsum_sq_nonneg|]. intros E.
    pose proof (qsum_sq_zero _ _ E) as Z.
    assert (C : (fun i : nat => if Nat.eqb i 0 then q1 else q0) 0%nat = q0).
    { apply (Ind (fun i : nat => if Nat.eqb i 0 then q1 else q0)); [|fold n; lia]. fold n. intros p Hp.
      rewrite (qsum_ext n _ (fun i => if Nat.eqb i 0 then mget B i p else q0))
        by (intros j _; destruct (Nat.eqb j 0); ring).
      rewrite (qsum_single (fun i => mget B i p) 0 n) by lia. exact (Z p Hp). }
    cbn beta in C. cbn [Nat.eqb] in C. apply qc_eq_this in C. vm_compute in C. discriminate.
  - exact Ind.
  - intros i Hi. replace i with 0%nat by lia. split; [intros j Hj; lia|intros; lia].
Qed.

(** [P] (exact arithmetic) *)
Theorem lll_reduced_exact : forall (fuel : nat) (B B' : list (list Qc)) (H : list (list Z)),
  Forall (fun r => length r = length B) B -> rows_independent B ->
  lll arithQ fuel B = Done (B', H) ->
  is_lll_reduced B' = true.
Proof.
  intros fuel B B' H Sq Ind R. unfold lll in R.
  destruct (Nat.ltb_spec (length B) 2) as [|Hn]; [discriminate|].
  destruct (rectangular B); cbn [negb] in R; [|discriminate].
  destruct (init_linv B Hn Sq Ind) as [L0 PR0].
  match type of R with context [main_loop F fuel ?n ?s0] =>
    destruct (main_loop F fuel n s0) as [s| |] eqn:M end; cbn [bind] in R; try discriminate.
  inversion R; subst; clear R.
  apply main_loop_inv in M; [|exact L0|cbn [l_k]; lia|cbn [l_k l_kmax]; lia|exact PR0].
  destruct M as (L & Emax & PR).
  exact (linv_is_lll_reduced (length B) s L Emax PR).
Qed.

Corollary lll_reduced_exact_prop : forall (fuel : nat) (B B' : list (list Qc)) (H : list (list Z)),
  Forall (fun r => length r = length B) B -> rows_independent B ->
  lll arithQ fuel B = Done (B', H) ->
  lll_reduced_prop Qc_34 B'.
Proof. intros. apply is_lll_reduced_spec. eapply lll_reduced_exact; eassumption. Qed.

(** the flag of [lll_exact_checked] is always [true] on such inputs *)
Corollary lll_exact_checked_flag : forall (B B' : list (list Qc)) (H : list (list Z)) (b : bool),
  Forall (fun r => length r = length B) B -> rows_independent B ->
  lll_exact_checked B = Done (B', H, b) -> b = true.
Proof.
  intros B B' H b Sq Ind R. unfold lll_exact_checked, lll_exact in R.
  destruct (lll arithQ (lll_fuel (length B) (mat_bits B)) B) as [[b' h]| |] eqn:E; cbn [bind fst snd] in R; try discriminate.
  inversion R; subst. eapply lll_reduced_exact; eassumption.
Qed.

(** [P] the LLL clause of the property in exact arithmetic, in one statement (partial correctness):
    on a non-singular square basis with at least two rows the run never panics, and if it returns (B', H)
    then H is unimodular, B' = H B and B' is LLL-reduced with parameter 3/4. *)
Theorem lll_exact_correct : forall (fuel : nat) (B : list (list Qc)),
  (2 <= length B)%nat -> Forall (fun r => length r = length B) B -> rows_independent B ->
  (forall c, lll arithQ fuel B <> Panic c) /\
  forall B' H, lll arithQ fuel B = Done (B', H) ->
    (elem_reachable (length B) H /\
     exists H', zwf (length B) H /\ zwf (length B) H' /\
                zmmul (length B) H' H = identity (length B) /\ zmmul (length B) H H' = identity (length B)) /\
    B' = qmmul (length B) (injM H) B /\
    lll_reduced_prop Qc_34 B'.
Proof.
  intros fuel B Hn Sq Ind. split.
  - intros c. apply lll_exact_no_panic; assumption.
  - intros B' H R. split; [exact (lll_H_unimodular Qc arithQ fuel B B' H R)|].
    split; [exact (lll_HB fuel B B' H R Sq)|exact (lll_reduced_exact_prop fuel B B' H Sq Ind R)].
Qed.
