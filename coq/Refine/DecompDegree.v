(** * DecompDegree: the degree-sum clause of C17 under a model-evaluated product flag
      (ssreflect/MathComp; Z is an integral domain, so sizes of products add). *)
From Coq Require Import ZArith.
From RNT.Model Require Import Base Poly LinAlg FactorModP Ideal PrimeDecomp.
From mathcomp Require Import all_ssreflect ssralg poly.
From mathcomp Require Import ssrZ zify.
From RNT.Refine Require Import PolyRefine PolyZ.
Set Implicit Arguments.
Unset Strict Implicit.
Unset Printing Implicit Defensive.
Import GRing.Theory.
Local Open Scope ring_scope.

(** [g^e] and [prod g_i^e_i] with the model's polynomial product over Z *)
Fixpoint ppow (g : list Z) (e : nat) : list Z :=
  if e is e'.+1 then pmul opsZ g (ppow g e') else [:: 1%Z].

Definition fs_product (fs : list (list Z * Z)) : list Z :=
  foldr (fun ge acc => pmul opsZ (ppow ge.1 (Z.to_nat ge.2)) acc) [:: 1%Z] fs.

Definition good_factor (ge : list Z * Z) : bool :=
  (ge.1 != [::]) && (last 1%Z ge.1 != 0%Z) && (0 <=? ge.2)%Z.

(** the flag: every factor is a non-zero canonical polynomial with a non-negative multiplicity, and
    [prod g_i^e_i] agrees with [f] coefficient by coefficient modulo [p] *)
Definition factor_flag (f : list Z) (p : Z) (fs : list (list Z * Z)) : bool :=
  all good_factor fs &&
  (map (fun c => c mod p)%Z (fs_product fs) == map (fun c => c mod p)%Z f).

Definition degree_sum (fs : list (list Z * Z)) : Z :=
  foldr (fun ge acc => (ge.2 * pdeg ge.1 + acc)%Z) 0%Z fs.

Lemma canonZ1 : canon [:: 1%Z]. Proof. by []. Qed.

Lemma sz_pmul (a b : seq Z) : canon a -> canon b -> a != [::] -> b != [::] ->
  size (pmul opsZ a b) = (size a + size b).-1.
Proof.
move=> ca cb a0 b0; rewrite opsZ_eq pmul_polyseq size_mul ?canon_Poly_eq0 //.
by rewrite !canon_size_Poly.
Qed.

Lemma nz_size (a : seq Z) : a != [::] -> (0 < size a)%N.
Proof. by case: a. Qed.

Lemma pmul_ok (a b : seq Z) : canon a -> canon b -> a != [::] -> b != [::] ->
  [/\ canon (pmul opsZ a b), pmul opsZ a b != [::] & size (pmul opsZ a b) = (size a + size b).-1].
Proof.
move=> ca cb a0 b0; have sz := sz_pmul ca cb a0 b0; split=> //.
- by rewrite opsZ_eq; exact: canon_pmul.
- apply/eqP => E; move: sz; rewrite E /=.
  have := nz_size a0; have := nz_size b0; lia.
Qed.

Lemma ppow_ok (g : seq Z) e : canon g -> g != [::] ->
  [/\ canon (ppow g e), ppow g e != [::] & (size (ppow g e)).-1 = (e * (size g).-1)%N].
Proof.
move=> cg g0; elim: e => [|e [c1 n1 s1]] /=; first by split.
have [c2 n2 s2] := pmul_ok cg c1 g0 n1; split=> //.
have := nz_size g0; have := nz_size n1; rewrite s2 mulSn -s1.
by case: (size g) => // sg; case: (size (ppow g e)) => // sp _ _; rewrite addSn addnS.
Qed.

Lemma pdeg_size (g : seq Z) : g != [::] -> pdeg g = Z.of_nat (size g).-1.
Proof.
case: g => // x g _; rewrite /pdeg Llength_eq.
have -> : size (x :: g) = (size g).+1 by [].
by rewrite -pred_Sn; lia.
Qed.

Lemma prod_ok fs : all good_factor fs ->
  [/\ canon (fs_product fs), fs_product fs != [::] & Z.of_nat (size (fs_product fs)).-1 = degree_sum fs].
Proof.
elim: fs => [|[g e] fs IH] /=; first by split.
rewrite /good_factor /=.
case/andP=> /andP [/andP [g0 cg] /Z.leb_le e0] /IH [c1 n1 s1].
have ek : e = Z.of_nat (Z.to_nat e) by lia.
move: (Z.to_nat e) ek => k ek.
have [c2 n2 s2] := ppow_ok k cg g0.
have [c3 n3 s3] := pmul_ok c2 c1 n2 n1; split=> //.
rewrite s3 -s1 (pdeg_size g0) ek.
have hg := nz_size g0; have hf := nz_size n1; have hp := nz_size n2.
move: hg hf hp s2.
case: (size g) => // sg _; case: (size (fs_product fs)) => // sf _; case: (size (ppow g k)) => // sp _ /= ->.
rewrite -[(_ + _)%Nrec]/(_ + _)%N addnS /= Nat2Z.inj_add Nat2Z.inj_mul; lia.
Qed.

(** [C] degree_sum_partial *)
Theorem degree_sum_flag f p fs : factor_flag f p fs -> degree_sum fs = pdeg f.
Proof.
case/andP=> /prod_ok [c1 n1 s1] /eqP /(congr1 size); rewrite !size_map => sz.
have f0 : f != [::] by move: (nz_size n1); rewrite sz; case: f {sz}.
by rewrite -s1 sz (pdeg_size f0).
Qed.

(** the multiplicities returned by [decompose] are those of [factorize_mod_p] on the same draws *)
Lemma mapM_snd (X Y : Type) (F : X * Z -> outcome (Y * Z)) l l' :
  (forall x y, F x = Done y -> y.2 = x.2) -> mapM F l = Done l' -> map snd l' = map snd l.
Proof.
move=> HF; elim: l l' => [|x l IH] l' /=; first by case=> <-.
case E: (F x) => [y| |] //=; case E2: (mapM F l) => [t| |] //= [<-] /=.
by rewrite (HF _ _ E) (IH _ E2).
Qed.

Lemma decompose_factor_snd md f b t p pm r : decompose_factor md f b t p pm = Done r -> r.2 = pm.2.
Proof.
rewrite /decompose_factor; case: pm => poly mul.
case: (Order.deg_alloc f) => //= deg.
case: (if _ then _ else _) => //= elem.
case: (principal md t elem) => //= anc.
case: (match deg with O => _ | _ => _ end) => //= pelem.
case: (principal md t pelem) => //= pz.
by case: (ideal_add md anc pz) => //= s [<-].
Qed.

Theorem decompose_factors md f b t p r res r' :
  decompose md f b t p r = Done (res, r') ->
  exists fs, factorize_mod_p md f p (usize_or_0 p) r = Done (fs, r') /\ map snd res = map snd fs.
Proof.
rewrite /decompose.
case: (Order.trivial_order_monic f) => //= zt.
case: (Order.order_index b zt) => //= idx.
case: (zrem idx p) => //= rm; case: (rm =? 0)%Z => //.
case E: (factorize_mod_p md f p (usize_or_0 p) r) => [[fs r1]| |] //=.
case E2: (mapM _ fs) => [res0| |] //= [<- <-].
exists fs; split=> //.
exact: (mapM_snd (@decompose_factor_snd md f b t p) E2).
Qed.

(** [C] degree_sum_partial for [decompose] *)
Theorem degree_sum_partial md f b t p r res r' :
  decompose md f b t p r = Done (res, r') ->
  exists fs, [/\ factorize_mod_p md f p (usize_or_0 p) r = Done (fs, r'),
                 map snd res = map snd fs &
                 factor_flag f p fs -> degree_sum fs = pdeg f].
Proof.
move=> /decompose_factors [fs [E1 E2]]; exists fs; split=> //.
exact: degree_sum_flag.
Qed.

(** the same in stdlib vocabulary (for Props/C17.v) *)
Theorem degree_sum_partial_std md f b t p r res r' :
  decompose md f b t p r = Done (res, r') ->
  exists fs, factorize_mod_p md f p (usize_or_0 p) r = Done (fs, r') /\
             (List.map snd res = List.map snd fs) /\
             (factor_flag f p fs = true -> degree_sum fs = pdeg f).
Proof. by move=> /degree_sum_partial [fs [E1 E2 E3]]; exists fs. Qed.
