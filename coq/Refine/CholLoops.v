(** C20: [Cholesky::find] (cholesky.rs:7-32) in exact arithmetic, entry by entry.

    The three loop nests of [cholesky_find arithQ] on an n x n input Q:
    copy of the upper triangle, the symmetric elimination, zeroing of the strict lower triangle.
    Result: q_ii = A^(i)_ii, q_ij = A^(i)_ij / A^(i)_ii (i < j), q_ij = 0 (j < i), with A^(i) = [schur Q i].
    No hypothesis on the pivots here (x/0 = 0 on both sides).  (stdlib; lia, ring on Qc.) *)
From RNT.Model Require Import Base Lll.
From RNT.Refine Require Import LllMat LllGS LllShort CholAlg.
From Coq Require Import Lia QArith Qcanon.
Open Scope Z_scope.

Local Notation F := arithQ.
Local Notation "x +q y" := (Qcplus x y) (at level 50, left associativity).
Local Notation "x *q y" := (Qcmult x y) (at level 40, left associativity).
Local Notation "x -q y" := (Qcminus x y) (at level 50, left associativity).
Local Notation q0 := (Q2Qc 0).

(** a [for] loop with an invariant indexed by the loop variable *)
Lemma for_range_inv {St : Type} (P : nat -> St -> Prop) lo hi (f : nat -> St -> St) s :
  (lo <= hi)%nat -> P lo s ->
  (forall i t, (lo <= i < hi)%nat -> P i t -> P (S i) (f i t)) ->
  P hi (for_range lo hi f s).
Proof.
  intros Hle H0 Hs. unfold for_range.
  assert (G : forall d, (lo + d <= hi)%nat -> P (lo + d)%nat (fold_left (fun s i => f i s) (seq lo d) s)).
  { induction d as [|d IH]; intros Hd.
    - rewrite Nat.add_0_r. exact H0.
    - rewrite seq_S, fold_left_app. cbn [fold_left]. rewrite Nat.add_succ_r. apply Hs; [lia|]. apply IH. lia. }
  specialize (G (hi - lo)%nat ltac:(lia)). replace (lo + (hi - lo))%nat with hi in G by lia. exact G.
Qed.

Section Loops.
Variable n : nat.
Variable Q : list (list Qc).
Local Notation g := (get2 F).
Local Notation A := (schur Q).

(** ** first nest: copy of the upper triangle *)
Definition inv1 (i : nat) (q : list (list Qc)) : Prop :=
  square n q /\ forall a b, (a < i)%nat -> (a <= b < n)%nat -> g q a b = g Q a b.
Definition inv1r (i j : nat) (q : list (list Qc)) : Prop :=
  square n q /\ (forall a b, (a < i)%nat -> (a <= b < n)%nat -> g q a b = g Q a b) /\
  (forall b, (i <= b < j)%nat -> g q i b = g Q i b).

Lemma q1_row i q : (i < n)%nat -> inv1 i q ->
  inv1 (S i) (for_range i n (fun j q => set2 q i j (g Q i j)) q).
Proof.
  intros Hi [W H].
  assert (X : inv1r i n (for_range i n (fun j q => set2 q i j (g Q i j)) q)).
  { apply (for_range_inv (inv1r i)); [lia| |].
    - split; [exact W|]. split; [exact H|]. intros b Hb; lia.
    - intros j t Hj (W' & H1 & H2). split; [apply square_set2; [exact W'|lia]|]. split.
      + intros a b Ha Hb. rewrite (get2_set2 n) by (try assumption; lia).
        destruct (Nat.eqb_spec a i); [lia|]. cbn [andb]. apply H1; lia.
      + intros b Hb. rewrite (get2_set2 n) by (try assumption; lia). rewrite Nat.eqb_refl. cbn [andb].
        destruct (Nat.eqb_spec b j) as [->|Hne]; [reflexivity|]. apply H2; lia. }
  destruct X as (W' & H1 & H2). split; [exact W'|]. intros a b Ha Hb.
  destruct (Nat.eq_dec a i) as [->|Hne]; [apply H2; lia|apply H1; lia].
Qed.

Lemma q1_spec q : square n q ->
  inv1 n (for_range 0 n (fun i q => for_range i n (fun j q => set2 q i j (g Q i j)) q) q).
Proof.
  intros W. apply (for_range_inv inv1); [lia| |].
  - split; [exact W|]. intros a b Ha; lia.
  - intros i t Hi Ht. apply q1_row; [lia|exact Ht].
Qed.

(** ** second nest: the elimination *)

(** the final content of row a, on and above the diagonal *)
Definition Rw (a b : nat) : Qc := if Nat.eqb a b then A a a a else Qcdiv (A a a b) (A a a a).

(** before round i *)
Definition inv2 (i : nat) (q : list (list Qc)) : Prop :=
  square n q /\
  (forall a b, (a < i)%nat -> (a <= b < n)%nat -> g q a b = Rw a b) /\
  (forall k l, (i <= k)%nat -> (k <= l < n)%nat -> g q k l = A i k l).

(** in round i, before step j of the first inner loop *)
Definition inv2a (i j : nat) (q : list (list Qc)) : Prop :=
  square n q /\
  (forall a b, (a < i)%nat -> (a <= b < n)%nat -> g q a b = Rw a b) /\
  g q i i = A i i i /\
  (forall b, (i < b < j)%nat -> g q i b = Qcdiv (A i i b) (A i i i)) /\
  (forall b, (j <= b < n)%nat -> g q i b = A i i b) /\
  (forall b, (i < b < j)%nat -> g q b i = A i i b) /\
  (forall k l, (i < k)%nat -> (k <= l < n)%nat -> g q k l = A i k l).

Definition stepa (i j : nat) (q : list (list Qc)) : list (list Qc) :=
  let q' := set2 q j i (g q i j) in
  set2 q' i j (fdiv F (g q' i j) (g q' i i)).

Lemma stepa_get i j q a b : square n q -> (i < j < n)%nat ->
  g (stepa i j q) a b =
  if (Nat.eqb a i && Nat.eqb b j)%bool then Qcdiv (g q i j) (g q i i)
  else if (Nat.eqb a j && Nat.eqb b i)%bool then g q i j else g q a b.
Proof.
  intros W H. unfold stepa. cbv zeta. cbn [fdiv F arithQ].
  rewrite !(get2_set2 n) by (repeat apply square_set2; try assumption; lia).
  destruct (Nat.eqb_spec i j); [lia|]. cbn [andb]. reflexivity.
Qed.

Lemma stepa_square i j q : square n q -> (i < j < n)%nat -> square n (stepa i j q).
Proof. intros W H. unfold stepa. cbv zeta. repeat apply square_set2; try assumption; lia. Qed.

Lemma inv2a_step i j q : (i < j < n)%nat -> inv2a i j q -> inv2a i (S j) (stepa i j q).
Proof.
  intros H (W & H1 & H2 & H3 & H4 & H5 & H6).
  split; [apply stepa_square; assumption|].
  split; [|split; [|split; [|split; [|split]]]].
  - intros a b Ha Hb. rewrite stepa_get by assumption.
    destruct (Nat.eqb_spec a i); [lia|]. destruct (Nat.eqb_spec a j); [lia|]. cbn [andb]. apply H1; lia.
  - rewrite stepa_get by assumption. rewrite Nat.eqb_refl.
    destruct (Nat.eqb_spec i j); [lia|]. cbn [andb]. exact H2.
  - intros b Hb. rewrite stepa_get by assumption. rewrite Nat.eqb_refl. cbn [andb].
    destruct (Nat.eqb_spec b j) as [->|Hne].
    + rewrite H2, (H4 j) by lia. reflexivity.
    + destruct (Nat.eqb_spec i j); [lia|]. cbn [andb]. apply H3; lia.
  - intros b Hb. rewrite stepa_get by assumption. rewrite Nat.eqb_refl. cbn [andb].
    destruct (Nat.eqb_spec b j); [lia|]. destruct (Nat.eqb_spec i j); [lia|]. cbn [andb]. apply H4; lia.
  - intros b Hb. rewrite stepa_get by assumption. rewrite Nat.eqb_refl.
    destruct (Nat.eqb_spec b i); [lia|]. cbn [andb]. rewrite Bool.andb_true_r.
    destruct (Nat.eqb_spec b j) as [->|Hne]; [apply H4; lia|apply H5; lia].
  - intros k l Hk Hl. rewrite stepa_get by assumption.
    destruct (Nat.eqb_spec k i); [lia|]. cbn [andb].
    destruct (Nat.eqb_spec l i); [lia|]. rewrite Bool.andb_false_r. apply H6; lia.
Qed.

(** in round i, before row k of the second inner nest *)
Definition inv2b (i k : nat) (q : list (list Qc)) : Prop :=
  square n q /\
  (forall a b, (a <= i)%nat -> (a <= b < n)%nat -> g q a b = Rw a b) /\
  (forall b, (i < b < n)%nat -> g q b i = A i i b) /\
  (forall a l, (i < a < k)%nat -> (a <= l < n)%nat -> g q a l = A (S i) a l) /\
  (forall a l, (k <= a)%nat -> (a <= l < n)%nat -> g q a l = A i a l).

(** ... and before entry l of row k *)
Definition inv2c (i k l : nat) (q : list (list Qc)) : Prop :=
  square n q /\
  (forall a b, (a <= i)%nat -> (a <= b < n)%nat -> g q a b = Rw a b) /\
  (forall b, (i < b < n)%nat -> g q b i = A i i b) /\
  (forall a l', (i < a < k)%nat -> (a <= l' < n)%nat -> g q a l' = A (S i) a l') /\
  (forall b, (k <= b < l)%nat -> g q k b = A (S i) k b) /\
  (forall b, (l <= b < n)%nat -> g q k b = A i k b) /\
  (forall a l', (k < a)%nat -> (a <= l' < n)%nat -> g q a l' = A i a l').

Definition stepc (i k l : nat) (q : list (list Qc)) : list (list Qc) :=
  set2 q k l (fsub F (g q k l) (fmul F (g q k i) (g q i l))).

Lemma inv2c_step i k l q : (i < k)%nat -> (k <= l < n)%nat -> inv2c i k l q -> inv2c i k (S l) (stepc i k l q).
Proof.
  intros Hk Hl (W & H1 & H2 & H3 & H4 & H5 & H6). unfold stepc. cbn [fsub fmul F arithQ].
  split; [apply square_set2; [exact W|lia]|].
  split; [|split; [|split; [|split; [|split]]]].
  - intros a b Ha Hb. rewrite (get2_set2 n) by (try assumption; lia).
    destruct (Nat.eqb_spec a k); [lia|]. cbn [andb]. apply H1; lia.
  - intros b Hb. rewrite (get2_set2 n) by (try assumption; lia).
    destruct (Nat.eqb_spec i l); [lia|]. rewrite Bool.andb_false_r. apply H2; lia.
  - intros a l' Ha Hl'. rewrite (get2_set2 n) by (try assumption; lia).
    destruct (Nat.eqb_spec a k); [lia|]. cbn [andb]. apply H3; lia.
  - intros b Hb. rewrite (get2_set2 n) by (try assumption; lia). rewrite Nat.eqb_refl. cbn [andb].
    destruct (Nat.eqb_spec b l) as [->|Hne]; [|apply H4; lia].
    rewrite (H5 l) by lia. rewrite (H2 k) by lia. rewrite (H1 i l) by lia. unfold Rw.
    destruct (Nat.eqb_spec i l); [lia|]. cbn [schur]. unfold Qcdiv. ring.
  - intros b Hb. rewrite (get2_set2 n) by (try assumption; lia). rewrite Nat.eqb_refl. cbn [andb].
    destruct (Nat.eqb_spec b l); [lia|]. apply H5; lia.
  - intros a l' Ha Hl'. rewrite (get2_set2 n) by (try assumption; lia).
    destruct (Nat.eqb_spec a k); [lia|]. cbn [andb]. apply H6; lia.
Qed.

Lemma inv2b_step i k q : (i < k < n)%nat -> inv2b i k q ->
  inv2b i (S k) (for_range k n (stepc i k) q).
Proof.
  intros Hk (W & H1 & H2 & H3 & H4).
  assert (X : inv2c i k n (for_range k n (stepc i k) q)).
  { apply (for_range_inv (inv2c i k)); [lia| |].
    - split; [exact W|]. split; [exact H1|]. split; [exact H2|]. split; [exact H3|].
      split; [intros b Hb; lia|]. split; [intros b Hb; apply H4; lia|]. intros a l' Ha Hl'. apply H4; lia.
    - intros l t Hl Ht. apply inv2c_step; [lia|lia|exact Ht]. }
  destruct X as (W' & G1 & G2 & G3 & G4 & G5 & G6).
  split; [exact W'|]. split; [exact G1|]. split; [exact G2|]. split.
  - intros a l Ha Hl. destruct (Nat.eq_dec a k) as [->|Hne]; [apply G4; lia|apply G3; lia].
  - intros a l Ha Hl. apply G6; lia.
Qed.

Lemma inv2_step i q : (i < n)%nat -> inv2 i q ->
  inv2 (S i)
    (for_range (i + 1) n (fun k q => for_range k n (fun l q =>
        set2 q k l (fsub F (g q k l) (fmul F (g q k i) (g q i l)))) q)
      (for_range (i + 1) n (fun j q =>
         let q' := set2 q j i (g q i j) in set2 q' i j (fdiv F (g q' i j) (g q' i i))) q)).
Proof.
  intros Hi (W & H1 & H2). rewrite Nat.add_1_r.
  change (inv2 (S i) (for_range (S i) n (fun k q => for_range k n (stepc i k) q) (for_range (S i) n (stepa i) q))).
  assert (XA : inv2a i n (for_range (S i) n (stepa i) q)).
  { apply (for_range_inv (inv2a i)); [lia| |].
    - split; [exact W|]. split; [exact H1|]. split; [apply H2; lia|]. split; [intros b Hb; lia|].
      split; [intros b Hb; apply H2; lia|]. split; [intros b Hb; lia|]. intros k l Hk Hl. apply H2; lia.
    - intros j t Hj Ht. apply inv2a_step; [lia|exact Ht]. }
  destruct XA as (WA & A1 & A2 & A3 & A4 & A5 & A6).
  set (qa := for_range (S i) n (stepa i) q) in *.
  assert (XB : inv2b i n (for_range (S i) n (fun k q => for_range k n (stepc i k) q) qa)).
  { apply (for_range_inv (inv2b i)); [lia| |].
    - split; [exact WA|]. split.
      + intros a b Ha Hb. destruct (Nat.eq_dec a i) as [->|Hne]; [|apply A1; lia]. unfold Rw.
        destruct (Nat.eqb_spec i b) as [<-|Hne]; [exact A2|apply A3; lia].
      + split; [intros b Hb; apply A5; lia|]. split; [intros a l Ha; lia|]. intros a l Ha Hl. apply A6; lia.
    - intros k t Hk Ht. apply inv2b_step; [lia|exact Ht]. }
  destruct XB as (WB & B1 & B2 & B3 & B4).
  split; [exact WB|]. split.
  - intros a b Ha Hb. apply B1; lia.
  - intros k l Hk Hl. apply B3; lia.
Qed.

Lemma q2_spec q : inv2 0 q ->
  inv2 n (for_range 0 n (fun i q =>
            let qa := for_range (i + 1) n (fun j q =>
                        let q' := set2 q j i (g q i j) in
                        set2 q' i j (fdiv F (g q' i j) (g q' i i))) q in
            for_range (i + 1) n (fun k q =>
              for_range k n (fun l q =>
                set2 q k l (fsub F (g q k l) (fmul F (g q k i) (g q i l)))) q) qa) q).
Proof.
  intros H. apply (for_range_inv inv2); [lia|exact H|].
  intros i t Hi Ht. cbv zeta. apply inv2_step; [lia|exact Ht].
Qed.

(** ** third nest: zeroing the strict lower triangle *)
Definition inv3 (p : list (list Qc)) (i : nat) (q : list (list Qc)) : Prop :=
  square n q /\
  (forall a b, (a <= b < n)%nat -> g q a b = g p a b) /\
  (forall a b, (a < i)%nat -> (b < a)%nat -> g q a b = q0).
Definition inv3r (p : list (list Qc)) (i j : nat) (q : list (list Qc)) : Prop :=
  square n q /\
  (forall a b, (a <= b < n)%nat -> g q a b = g p a b) /\
  (forall a b, (a < i)%nat -> (b < a)%nat -> g q a b = q0) /\
  (forall b, (b < j)%nat -> g q i b = q0).

Lemma q3_row p i q : (i < n)%nat -> inv3 p i q ->
  inv3 p (S i) (for_range 0 i (fun j q => set2 q i j q0) q).
Proof.
  intros Hi (W & H1 & H2).
  assert (X : inv3r p i i (for_range 0 i (fun j q => set2 q i j q0) q)).
  { apply (for_range_inv (inv3r p i)); [lia| |].
    - split; [exact W|]. split; [exact H1|]. split; [exact H2|]. intros b Hb; lia.
    - intros j t Hj (W' & G1 & G2 & G3). split; [apply square_set2; [exact W'|lia]|]. split; [|split].
      + intros a b Hb. rewrite (get2_set2 n) by (try assumption; lia).
        destruct (Nat.eqb_spec a i) as [->|]; cbn [andb]; [|apply G1; lia].
        destruct (Nat.eqb_spec b j); [lia|]. apply G1; lia.
      + intros a b Ha Hb. rewrite (get2_set2 n) by (try assumption; lia).
        destruct (Nat.eqb_spec a i); [lia|]. cbn [andb]. apply G2; lia.
      + intros b Hb. rewrite (get2_set2 n) by (try assumption; lia). rewrite Nat.eqb_refl. cbn [andb].
        destruct (Nat.eqb_spec b j); [reflexivity|]. apply G3; lia. }
  destruct X as (W' & G1 & G2 & G3). split; [exact W'|]. split; [exact G1|].
  intros a b Ha Hb. destruct (Nat.eq_dec a i) as [->|Hne]; [apply G3; lia|apply G2; lia].
Qed.

Lemma q3_spec p : square n p ->
  inv3 p n (for_range 0 n (fun i q => for_range 0 i (fun j q => set2 q i j q0) q) p).
Proof.
  intros W. apply (for_range_inv (inv3 p)); [lia| |].
  - split; [exact W|]. split; [reflexivity|]. intros a b Ha; lia.
  - intros i t Hi Ht. apply q3_row; [lia|exact Ht].
Qed.

End Loops.

Lemma square_zero n : square n (repeat (repeat q0 n) n).
Proof.
  split; [apply repeat_length|]. apply Forall_forall. intros r Hr. apply repeat_spec in Hr. subst r. apply repeat_length.
Qed.

(** [P] the result of [cholesky_find], entry by entry: pivots on the diagonal, the normalised rows of the
    Schur complements above it, zero below it *)
Theorem cholesky_find_entries (Q : list (list Qc)) : square (length Q) Q ->
  exists q, cholesky_find F Q = Done q /\ square (length Q) q /\
    (forall a, (a < length Q)%nat -> get2 F q a a = schur Q a a a) /\
    (forall a b, (a < b < length Q)%nat -> get2 F q a b = Qcdiv (schur Q a a b) (schur Q a a a)) /\
    (forall a b, (b < a < length Q)%nat -> get2 F q a b = q0).
Proof.
  intros HQ. unfold cholesky_find. cbv zeta.
  assert (C : forallb (fun r => Nat.leb (length Q) (length r)) Q = true).
  { apply forallb_forall. intros r Hr. destruct HQ as [_ HR]. rewrite Forall_forall in HR.
    rewrite (HR r Hr). apply Nat.leb_refl. }
  rewrite C. cbn [negb f0 F arithQ]. eexists. split; [reflexivity|].
  set (n := length Q) in *.
  pose proof (q1_spec n Q _ (square_zero n)) as (W1 & E1).
  match type of W1 with square n ?t => set (m1 := t) in * end.
  assert (I0 : inv2 n Q 0 m1).
  { split; [exact W1|]. split; [intros a b Ha; lia|]. intros k l Hk Hl. cbn [schur]. apply E1; lia. }
  pose proof (q2_spec n Q m1 I0) as (W2 & E2 & _).
  match type of W2 with square n ?t => set (m2 := t) in * end.
  pose proof (q3_spec n m2 W2) as (W3 & E3 & Z3).
  split; [exact W3|]. split; [|split].
  - intros a Ha. rewrite E3 by lia. rewrite E2 by lia. unfold Rw. rewrite Nat.eqb_refl. reflexivity.
  - intros a b Hab. rewrite E3 by lia. rewrite E2 by lia. unfold Rw.
    destruct (Nat.eqb_spec a b); [lia|reflexivity].
  - intros a b Hab. apply Z3; lia.
Qed.
