(** * W7C07Fuel: C07, the prime search of [get_factors_of_squarefree] returns on the supplied fuel.

    [find_prime_counting]: if a good prime [p0 < 2^31] lies at or above the start of the search and every
      prime before it that is not good divides a non-zero integer [N] with [|N| < 2^fuel], the loop returns
      (every rejected prime removes a factor >= 2 from [N]; the primes tried are real primes below 2^31, on
      which the iterator [Primes::next] returns (C19, Bertrand) and the modular routines are total);
    [disc_l1_bound]: [|lc(Q) Res(Q', Q)| <= n^n S^(2n)] with [n = deg Q], [S = ||Q||_1] (row-sum bound of the
      Sylvester determinant, W7C07Det.v);
    [disc_lt_pow2_fuel]: this is below [2^(prime_fuel q - 8)];
    [find_prime_terminates]: the summary. *)
From Coq Require Import ZArith List Lia Znumtheory.
From RNT.Model Require Import Base Poly PolyModP FactorModP Hensel PolyZFactor.
From RNT.Model Require Elementary.
From mathcomp Require Import all_ssreflect ssralg ssrnum poly polydiv ssrint zmodp matrix mxpoly separable.
From RNT.Refine Require Import PolyRefine PolyDiv PolyZ PolyModPArith PolyZmod MonicZ FermatZ PolyModPGcd FpPoly FpTotal FmpField FmpSqf.
From RNT.Refine Require Import ElemProofs PolyZFactorPos PolyZFactorW3Hensel PolyZFactorW3Zass PolyZFactorW3Irred PolyZFactorW3Bound.
From RNT.Refine Require Import W5SmallPrime W5FindPrime W7C07Det.
From RNT.Refine Require SubresFlag BertrandIter.
From mathcomp Require Import ssrZ zify ring.
Set Implicit Arguments.
Unset Strict Implicit.
Unset Printing Implicit Defensive.
Import Order.TTheory GRing.Theory Num.Theory.
Local Open Scope ring_scope.

(** ** the loop body at a real prime below 2^31: the modular routines return *)
Lemma body_total (a : seq Z) (p : Z) : Znumtheory.prime p ->
  exists am amp g, [/\ poly_mod a p = Done am, differential am p = Done amp & poly_gcd am amp p = Done g].
Proof.
move=> hp; have p2 := prime_ge_2 _ hp.
have p0 : p <> Z0 by lia.
have pp : (0 < p)%ZZ by lia.
have [am e1] := poly_mod_total a p p0.
have [amp e2] : exists d, differential am p = Done d.
  by rewrite /differential; case: (am) => [|c f]; [eexists | exact: (poly_mod_total _ p p0)].
have Ram := poly_mod_is_reduced pp e1.
have Ramp : reduced p amp.
  move: e2; rewrite /differential; case: (am) => [|c f]; first by case=> <-; exact: reduced_nil.
  exact: poly_mod_is_reduced.
have [g e3] := poly_gcd_total hp Ram Ramp.
by exists am, amp, g.
Qed.

Lemma prime_dvd_cancel (p now N' : Z) : Znumtheory.prime p -> Znumtheory.prime now -> p <> now ->
  (p | now * N')%ZZ -> (p | N')%ZZ.
Proof.
move=> hp hn ne d; case: (prime_mult _ hp _ _ d) => // d'.
by case: ne; exact: prime_div_prime.
Qed.

Lemma find_prime_counting (a : seq Z) (p0 : Z) :
  Znumtheory.prime p0 -> (p0 < 2147483648)%ZZ -> good_at a p0 ->
  forall fuel st N, (1 <= st <= p0)%ZZ -> N <> Z0 -> (Z.abs N < 2 ^ Z.of_nat fuel)%ZZ ->
  (forall p, Znumtheory.prime p -> (st <= p < p0)%ZZ -> ~ good_at a p -> (p | N)%ZZ) ->
  exists p, find_prime fuel a st = Done (p, p).
Proof.
move=> hp0 lt0 gd; have p02 := prime_ge_2 _ hp0; have [g1 g2] := gd.
elim=> [|fuel IH] st N hst N0 hN hdiv; first by move: hN; rewrite /=; lia.
have [now [en [le1 [_ [hnow hmin]]]]] := BertrandIter.primes_next_total st (proj1 hst).
have now2 := prime_ge_2 _ hnow.
have lenow : (now <= p0)%ZZ.
  by case: (Z.le_gt_cases now p0) => // gt; case: (hmin p0) => //; lia.
rewrite /= en /= as_i32_small; last by lia.
have [am [amp [g [e1 e2 e3]]]] := body_total a hnow.
case: (Z.eq_dec now p0) => [e0|ne].
- rewrite e0 in e1 e2 e3 *; rewrite g1 e1 /= e2 /= e3 /= (g2 _ _ _ e1 e2 e3).
  by exists p0.
- have lt : (now < p0)%ZZ by lia.
  have rej : ~ good_at a now -> exists p, find_prime fuel a (now + 1)%ZZ = Done (p, p).
    move=> ngd; have [N' eN] := hdiv now hnow (conj le1 lt) ngd.
    have N'0 : N' <> Z0 by move=> h; apply: N0; rewrite eN h.
    apply: (IH _ N') => //; first by lia.
    + move: hN; rewrite eN Z.abs_mul Nat2Z.inj_succ Z.pow_succ_r; last exact: Nat2Z.is_nonneg.
      by move: (2 ^ _)%ZZ => t; nia.
    + move=> p hp hr ngp; apply: (@prime_dvd_cancel p now N' hp hnow); first by lia.
      by rewrite Z.mul_comm -eN; apply: hdiv => //; lia.
  case em: is_multiple_of; first by apply: rej => -[]; rewrite em.
  rewrite e1 /= e2 /= e3 /=; case eg: (pdeg g =? 0)%ZZ; first by exists now.
  apply: rej => -[_ h]; by rewrite (h _ _ _ e1 e2 e3) in eg.
Qed.

(** ** the size of D = lc(Q) Res(Q', Q) *)
Lemma normZ_abs (x : Z) : `|x| = Z.abs x. Proof. by []. Qed.
Lemma leZ_le (x y : Z) : (x <= y) = (Z.leb x y). Proof. by []. Qed.

Lemma norm1_deriv_le (Q : {poly Z}) : (1 < size Q)%N ->
  norm1 Q^`() <= ((size Q).-1)%:R * norm1 Q.
Proof.
move=> sQ; rewrite /norm1 (SubresFlag.size_derivZ sQ).
set n := (size Q).-1; have esz : size Q = n.+1 by rewrite /n; lia.
apply: (@le_trans _ _ (\sum_(i < n) n%:R * `|Q`_i.+1|)).
  apply: ler_sum => i _; rewrite coef_deriv -mulr_natl normrM normr_nat.
  by apply: ler_wpmul2r; rewrite ?normr_ge0 // ler_nat.
rewrite -mulr_sumr; apply: ler_wpmul2l; first exact: ler0n.
rewrite esz big_ord_recl /= ler_addr; exact: normr_ge0.
Qed.

Lemma disc_l1_bound (Q : {poly Z}) : (1 < size Q)%N ->
  `|lead_coef Q * resultant Q^`() Q| <= ((size Q).-1)%:R ^+ (size Q).-1 * norm1 Q ^+ ((size Q).-1).*2.
Proof.
move=> sQ; set n := (size Q).-1; set S := norm1 Q.
have S0 : 0 <= S := norm1_ge0 Q.
have n1 : (0 < n)%N by rewrite /n; lia.
have hlc : `|lead_coef Q| <= S.
  rewrite lead_coefE /S /norm1 -/n.
  have hn : (n < size Q)%N by rewrite /n; lia.
  rewrite (bigD1 (Ordinal hn)) //= ler_addl; apply: sumr_ge0 => i _; exact: normr_ge0.
have hres := resultant_row_sum_le Q^`() Q.
rewrite (SubresFlag.size_derivZ sQ) -/n -/S in hres.
have hd := norm1_deriv_le sQ; rewrite -/n -/S in hd.
have hd0 := norm1_ge0 Q^`().
rewrite normrM.
have -> : n%:R ^+ n * S ^+ n.*2 = S * ((n%:R * S) ^+ n * S ^+ n.-1).
  rewrite exprMn -addnn exprD; have -> : S ^+ n = S * S ^+ n.-1 by rewrite -exprS prednK.
  by move: (n%:R ^+ n) (S ^+ n.-1) => A T; ring.
apply: ler_pmul => //.
apply: le_trans hres _; apply: ler_wpmul2r; first exact: exprn_ge0.
by apply: ler_expn2r => //; rewrite nnegrE // mulr_ge0 // ler0n.
Qed.

(** x < 2^(log2 x + 1) for every x >= 0 *)
Lemma lt_pow2_log2 (x : Z) : (0 <= x)%ZZ -> (x < 2 ^ (Z.log2 x + 1))%ZZ.
Proof.
move=> x0; case: (Z.eq_dec x 0) => [->|xn] //.
by have [_ h] := Z.log2_spec x ltac:(lia); rewrite -Z.add_1_r in h.
Qed.

(** n^n * S^(2n) < 2^(n (log2 n + 1) + 2 n (log2 S + 1)) *)
Lemma pow_bits_bound (n S : Z) : (1 <= n)%ZZ -> (0 <= S)%ZZ ->
  (n ^ n * S ^ (2 * n) < 2 ^ (n * (Z.log2 n + 1) + 2 * n * (Z.log2 S + 1)))%ZZ.
Proof.
move=> n1 S0.
have ln0 := Z.log2_nonneg n; have ls0 := Z.log2_nonneg S.
have h1 : (n ^ n < 2 ^ (n * (Z.log2 n + 1)))%ZZ.
  rewrite Z.mul_comm Z.pow_mul_r; [|lia|lia].
  by apply Z.pow_lt_mono_l; [lia | split; [lia | apply: lt_pow2_log2; lia]].
have h2 : (S ^ (2 * n) < 2 ^ (2 * n * (Z.log2 S + 1)))%ZZ.
  rewrite [(2 * n * _)%ZZ]Z.mul_comm (Z.pow_mul_r 2); [|lia|lia].
  by apply Z.pow_lt_mono_l; [lia | split; [lia | exact: lt_pow2_log2]].
rewrite Z.pow_add_r; [|nia|nia].
have a0 : (0 <= n ^ n)%ZZ by apply: Z.pow_nonneg; lia.
have b0 : (0 <= S ^ (2 * n))%ZZ by apply: Z.pow_nonneg; lia.
by move: h1 h2 a0 b0; move: (_ ^ _)%ZZ (_ ^ _)%ZZ (_ ^ _)%ZZ (_ ^ _)%ZZ => A B C D; nia.
Qed.

Lemma norm1_abs_sum (q : seq Z) : canonZ q -> norm1 (Poly q) = abs_sum q 0.
Proof.
move=> cq; rewrite abs_sum_spec /norm1 canon_size_Poly // Z.add_0_l.
by apply: eq_bigr => i _; rewrite coef_Poly.
Qed.

(** the fuel formula dominates the bit bound *)
Lemma fuel_dominates (q : seq Z) : (1 < size q)%N ->
  let n := Z.of_nat (size q).-1 in
  (n * (Z.log2 n + 1) + 2 * n * (Z.log2 (abs_sum q 0) + 1) + 8 <= Z.of_nat (prime_fuel q))%ZZ.
Proof.
move=> sq n; rewrite /prime_fuel Llength_eq.
have en : Z.of_nat (size q) = (n + 1)%ZZ by rewrite /n; lia.
have ls0 := Z.log2_nonneg (abs_sum q 0).
have ln0 := Z.log2_nonneg n.
have lmono : (Z.log2 n <= Z.log2 (Z.of_nat (size q)))%ZZ by apply: Z.log2_le_mono; lia.
have n1 : (1 <= n)%ZZ by rewrite /n; lia.
rewrite Nat2Z.inj_add !Nat2Z.inj_mul !Nat2Z.inj_add !Z2Nat.id //; last exact: Z.log2_nonneg.
move: ls0 ln0 lmono.
set A := Z.log2 n; set B := Z.log2 (abs_sum q 0); set C := Z.log2 (Z.of_nat (size q)).
move=> ls0 ln0 lmono; rewrite en.
have h : (n * A <= n * C)%ZZ by apply: Z.mul_le_mono_nonneg_l; lia.
by nia.
Qed.

Lemma disc_lt_pow2_fuel (q : seq Z) : canonZ q -> (1 < size q)%N ->
  (Z.abs (lead_coef (Poly q) * resultant (Poly q)^`() (Poly q)) < 2 ^ (Z.of_nat (prime_fuel q) - 8))%ZZ.
Proof.
move=> cq sq; set Q := Poly q.
have sQ : (1 < size Q)%N by rewrite /Q canon_size_Poly.
have := disc_l1_bound sQ; rewrite normZ_abs /Q canon_size_Poly // norm1_abs_sum // -/Q.
set n := (size q).-1; set D := _ * resultant _ _; set S := abs_sum q 0.
rewrite leZ_le => /Z.leb_le hD.
have S0 : (0 <= S)%ZZ by rewrite /S abs_sum_spec Z.add_0_l; exact: sum_abs_ge0_gen.
have n1 : (1 <= Z.of_nat n)%ZZ by rewrite /n; lia.
have hb := pow_bits_bound n1 S0.
have hf := fuel_dominates sq; rewrite -/n -/S in hf.
apply: Z.le_lt_trans hD _.
have -> : (n%:R ^+ n * S ^+ n.*2 : Z) = (Z.of_nat n ^ Z.of_nat n * S ^ (2 * Z.of_nat n))%ZZ.
  have -> : (2 * Z.of_nat n)%ZZ = Z.of_nat n.*2 by lia.
  by rewrite !Zpow_exp ofZ_natZ.
apply: Z.lt_le_trans hb _; apply: Z.pow_le_mono_r; lia.
Qed.

(** ** [P] find_prime_terminates_of_small_prime: no size condition, a hypothesis on D = lc(q) Res(q', q):
    some prime below 2^31 does not divide it *)
Theorem find_prime_terminates_of_small_prime (q : seq Z) (p0 : Z) : canonZ q -> (1 < size q)%N ->
  Znumtheory.prime p0 -> (p0 < 2147483648)%ZZ ->
  ~ (p0 | lead_coef (Poly q) * resultant (Poly q)^`() (Poly q))%ZZ ->
  exists p, [/\ find_prime (prime_fuel q) q 2 = Done (p, p), Znumtheory.prime p & (p <= p0)%ZZ].
Proof.
move=> cq sq hp0 lt0 nd.
pose D : Z := lead_coef (Poly q) * resultant (Poly q)^`() (Poly q).
have nd' : ~ (p0 | D)%ZZ := nd.
have D0 : D <> Z0 by move=> h; apply: nd'; rewrite h; exact: Z.divide_0_r.
have hD := disc_lt_pow2_fuel cq sq; rewrite -/D in hD.
have gd := good_of_ndvd cq sq hp0 nd.
have p02 := prime_ge_2 _ hp0.
have f8 : (8 <= Z.of_nat (prime_fuel q))%ZZ by rewrite /prime_fuel; lia.
have hN : (Z.abs D < 2 ^ Z.of_nat (prime_fuel q))%ZZ.
  by apply: Z.lt_le_trans hD _; apply: Z.pow_le_mono_r; lia.
have [p efp] : exists p, find_prime (prime_fuel q) q 2 = Done (p, p).
  apply: (find_prime_counting hp0 lt0 gd _ D0 hN); first by lia.
  move=> p hp _ ngd; case: (Znumtheory.Zdivide_dec p D) => // ndp.
  by case: ngd; exact: good_of_ndvd.
have [_ hp le] := find_prime_small cq sq hp0 lt0 nd efp.
by exists p.
Qed.

(** ** [P] find_prime_terminates: a condition on the size of the input only *)
Theorem find_prime_terminates (q : seq Z) : canonZ q -> (1 < size q)%N ->
  separable_poly (Poly q) -> (Z.of_nat (prime_fuel q) <= 1073741824)%ZZ ->
  exists p, [/\ find_prime (prime_fuel q) q 2 = Done (p, p), Znumtheory.prime p & (p < 2147483648)%ZZ].
Proof.
move=> cq sq sep hsmall.
have s1 : (1 < size (Poly q))%N by rewrite canon_size_Poly.
set D := (lead_coef (Poly q) * resultant (Poly q)^`() (Poly q)).
have D0' : D != 0.
  rewrite mulf_neq0 //; first by rewrite lead_coef_eq0 -size_poly_gt0; exact: ltn_trans s1.
  rewrite resultant_eq0 -leqNgt.
  by move: sep; rewrite /separable_poly coprimep_sym /coprimep => /eqP ->.
have D0 : D <> Z0 by apply/eqP.
have hD := disc_lt_pow2_fuel cq sq; rewrite -/D in hD.
have hlog' : (Z.log2 (Z.abs D) < Z.of_nat (prime_fuel q) - 8)%ZZ.
  by apply/Z.log2_lt_pow2 => //; lia.
have hlog : (Z.log2 (Z.abs D) < 1073741824)%ZZ by lia.
have [p0 [hp0 lt0 nd]] := exists_prime_below_2_31 D0 hlog.
have [p [efp hp le]] := find_prime_terminates_of_small_prime cq sq hp0 lt0 nd.
by exists p; split=> //; lia.
Qed.
