(** * DetBridge: the list matrices of the HNF development (MatZ.v: [lincomb], [mmul], [idmat],
      [In_rowspanZ]; HnfOps.v: [unimodular]) seen as MathComp matrices over [Z], so that [\det],
      [\rank], [*m] become available for the HNF theorems.  The view is C18's [zmx n m a]
      (entries outside the stored shape read as 0).  Style: ssreflect/MathComp. *)
From Coq Require Import ZArith List.
From mathcomp Require Import all_ssreflect ssralg zmodp matrix mxalgebra.
From mathcomp Require Import ssrZ zify.
From Coq Require Import QArith Qcanon.
From RNT.Model Require Import Base Poly LinAlg.
From RNT.Refine Require Import QcField LinAlgQc MatZ HnfOps HnfKernel.
Set Implicit Arguments.
Unset Strict Implicit.
Unset Printing Implicit Defensive.
Import GRing.Theory.
Local Close Scope Z_scope.
Local Close Scope Q_scope.
Local Close Scope Qc_scope.
Local Open Scope ring_scope.

(** the view of an integer list matrix, and of a list as a row vector *)
Notation mxZ := zmx.
Definition zrv (m : nat) (v : list Z) : 'rV[Z]_m := \row_j List.nth j v 0%Z.

(** ** entries of an integer combination of rows *)
Lemma Lnth_nth A (d : A) l i : List.nth i l d = seq.nth d l i.
Proof. by elim: l i => [|x l IH] [|i] //=. Qed.

Lemma nth_nil_Z j : List.nth j [::] 0%Z = 0%Z.
Proof. by case: j. Qed.

Lemma nth_lincomb_sum m c (A : list (list Z)) j : wf m A ->
  List.nth j (lincomb m c A) 0%Z
  = \sum_(i < length A) List.nth i c 0%Z * List.nth j (List.nth i A [::]) 0%Z.
Proof.
elim: A c => [|r A IH] c wA.
  by rewrite lincomb_nil_r nth_vzero big_ord0.
case: c => [|c0 c].
  rewrite lincomb_nil_l nth_vzero big1 // => i _.
  by rewrite nth_nil_Z mul0r.
case/wf_cons: wA => hr wA.
rewrite nth_lincomb_cons // big_ord_recl /= (IH c wA).
by [].
Qed.

(** ** product, identity, stacking, zero rows *)
Lemma zmx_mmul n p m U A : length U = n -> wf m A -> length A = p ->
  zmx n m (mmul m U A) = zmx n p U *m zmx p m A.
Proof.
move=> lU wA lA; apply/matrixP => i j; rewrite !mxE.
have hi : (i < length U)%coq_nat by apply/ltP; rewrite lU.
rewrite -/(MatZ.row _ _) row_mmul // (nth_lincomb_sum _ _ wA) lA.
by apply: eq_bigr => k _; rewrite !mxE.
Qed.

Lemma zrv_lincomb n m c A : wf m A -> length A = n ->
  zrv m (lincomb m c A) = zrv n c *m zmx n m A.
Proof.
move=> wA lA; apply/matrixP => i j; rewrite !mxE (nth_lincomb_sum _ _ wA) lA.
by apply: eq_bigr => k _; rewrite !mxE.
Qed.

Lemma zmx_idmat n : zmx n n (idmat n) = 1%:M.
Proof.
apply/matrixP => i j; rewrite !mxE.
have hi : (i < n)%coq_nat by apply/ltP.
have hj : (j < n)%coq_nat by apply/ltP.
rewrite -/(MatZ.row _ _) row_idmat // nth_unit_from //=.
case: Nat.eqb_spec => [e|ne]; case: eqP => [e'|ne']; rewrite ?mulr1n ?mulr0n //.
- by case: ne'; apply: val_inj.
- by case: ne; rewrite e'.
Qed.

Lemma zmx_cat n1 n2 m (A B : list (list Z)) : length A = n1 ->
  zmx (n1 + n2) m (List.app A B) = col_mx (zmx n1 m A) (zmx n2 m B).
Proof.
move=> lA; apply/matrixP => i j; rewrite !mxE.
case: splitP => k ek; rewrite mxE ek.
- by rewrite List.app_nth1 //; apply/ltP; rewrite lA.
- rewrite List.app_nth2 lA; last by apply/leP; rewrite leq_addr.
  by have -> : (n1 + k - n1)%coq_nat = k by lia.
Qed.

Lemma ent_zero_rows m k i j : List.nth j (List.nth i (List.repeat (vzero m) k) [::]) 0%Z = 0%Z.
Proof.
elim: k i => [|k IH] [|i] //=; try exact: nth_nil_Z.
exact: nth_vzero.
Qed.

Lemma zmx_zero_rows n m k : zmx n m (List.repeat (vzero m) k) = 0.
Proof. by apply/matrixP => i j; rewrite !mxE ent_zero_rows. Qed.

(** ** membership in the row lattice = integer row vector times the matrix *)
Lemma rowspan_mx n m v A : wf m A -> length A = n ->
  In_rowspanZ m v A <-> (length v = m /\ exists c : 'rV[Z]_n, zrv m v = c *m zmx n m A).
Proof.
move=> wA lA; split.
  case=> c [lc ->]; split; first exact: lincomb_length.
  by exists (zrv n c); apply: zrv_lincomb.
case=> lv [c ec].
pose cl : list Z := [seq c 0 i | i <- enum 'I_n].
have scl : length cl = n by rewrite -[length cl]/(size cl) size_map size_enum_ord.
have ncl (i : 'I_n) : List.nth i cl 0%Z = c 0 i.
  by rewrite Lnth_nth (nth_map i) ?size_enum_ord // nth_ord_enum.
exists cl; split; first by rewrite scl.
apply: (@vec_ext m) => //; first exact: lincomb_length.
move=> j /ltP hj; move/matrixP: ec => /(_ 0 (Ordinal hj)).
rewrite !mxE /= (nth_lincomb_sum _ _ wA) lA => ->.
by apply: eq_bigr => k _; rewrite !mxE ncl.
Qed.

(** ** unimodular list matrices have determinant 1 or -1 *)
Lemma unimodular_unit n U : shape n n U -> unimodular n U ->
  exists V : 'M[Z]_n, V *m zmx n n U = 1%:M /\ zmx n n U *m V = 1%:M.
Proof.
move=> [lU wU] [V [[lV wV] [VU UV]]]; exists (zmx n n V); split.
- by rewrite -(zmx_mmul lV wU lU) VU zmx_idmat.
- by rewrite -(zmx_mmul lU wV lV) UV zmx_idmat.
Qed.

Lemma unimodular_det n U : shape n n U -> unimodular n U ->
  \det (zmx n n U) = 1%Z \/ \det (zmx n n U) = (-1)%Z.
Proof.
move=> sU uU; have [V [VU _]] := unimodular_unit sU uU.
have := congr1 (@matrix.determinant _ n) VU; rewrite det_mulmx det1 => e.
move: (\det (zmx n n U)) (\det V) e => d d' e.
by case: (Z.mul_eq_1 _ _ e) => h; [left | right]; move: e; rewrite h; lia.
Qed.

(** ** the same matrix over the rationals *)
Definition mxQ (n m : nat) (A : list (list Z)) : 'M[Qc_fieldType]_(n, m) := map_mx q_of_Z (zmx n m A).

Lemma q_of_Z_eq0 (z : Z) : (q_of_Z z == 0 :> Qc) = (z == 0).
Proof. by rewrite -(rmorph0 q_of_Z_rmorphism) (eqtype.inj_eq q_of_Z_inj). Qed.

Lemma det_mxQ n A : \det (mxQ n n A) = q_of_Z (\det (zmx n n A)).
Proof. by rewrite /mxQ det_map_mx. Qed.

Lemma mxQ_unit n A : (mxQ n n A \in unitmx) = (\det (zmx n n A) != 0).
Proof. by rewrite unitmxE unitfE det_mxQ q_of_Z_eq0. Qed.

Lemma mxQ_mmul n p m U A : length U = n -> wf m A -> length A = p ->
  mxQ n m (mmul m U A) = mxQ n p U *m mxQ p m A.
Proof. by move=> lU wA lA; rewrite /mxQ (zmx_mmul lU wA lA) map_mxM. Qed.
