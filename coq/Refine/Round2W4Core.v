(** Round 2 step, fourth wave (C06): the algebraic core of the Pohst-Zassenhaus theorem, in an abstract commutative
    ring R (the order O).  An over-ring O'' of O inside O (x) Q with N O'' in O is represented by the set
    L = N O'' of elements of R: N R is inside L and a * b is in N L for a, b in L.  If some element of O'' outside
    O is carried into O by P (the prime), then there is u in R, not in P R, with u * y in P * rad for every y in
    rad = { y : y^q in P R }: the element u / P of O (x) Q lies in the multiplier ring of the radical and not in O.
    (Cohen, A Course in Computational Algebraic Number Theory, Thm 6.1.3; Pohst-Zassenhaus Lemma 5.53 -- here
    element by element, without products of ideals.)  Style: ssreflect/MathComp. *)
From mathcomp Require Import all_ssreflect ssralg.
Set Implicit Arguments.
Unset Strict Implicit.
Unset Printing Implicit Defensive.
Import GRing.Theory.
Local Open Scope ring_scope.

Section Core.
Variable R : comRingType.
Variables (P N : R).
Hypothesis Preg : GRing.lreg P.
Hypothesis Nreg : GRing.lreg N.
Variables (q s : nat).
Hypothesis s_gt0 : (0 < s)%N.
Hypothesis q_gt0 : (0 < q)%N.

Definition inI (a x : R) : Prop := exists w, x = a * w.

Lemma inI_add a x y : inI a x -> inI a y -> inI a (x + y).
Proof. by move=> [u ->] [v ->]; exists (u + v); rewrite mulrDr. Qed.

Lemma inI_mull a c x : inI a x -> inI a (c * x).
Proof. by move=> [u ->]; exists (c * u); rewrite mulrCA. Qed.

Lemma inI_mulr a c x : inI a x -> inI a (x * c).
Proof. by rewrite mulrC; exact: inI_mull. Qed.

Lemma inI_0 a : inI a 0.
Proof. by exists 0; rewrite mulr0. Qed.

(** the radical of P R, with the fixed exponent q *)
Definition rad (y : R) : Prop := inI P (y ^+ q).

(** a nilpotent element modulo P has q-th power 0 modulo P (q is at least the rank of R) *)
Hypothesis nil : forall z t, inI P (z ^+ t) -> inI P (z ^+ q).
(** P^s does not divide N *)
Hypothesis div_cancel : forall z w, N * z = P ^+ s * w -> inI P z.
Hypothesis decN : forall x, inI N x \/ ~ inI N x.

(** the over-ring, scaled by N *)
Variable L : R -> Prop.
Hypothesis L_N : forall y, L (N * y).
Hypothesis L_mul : forall a b, L a -> L b -> exists c, L c /\ a * b = N * c.

(** generators of the radical *)
Variable gs : seq R.
Inductive span : R -> Prop :=
| span0 : span 0
| spanD c g x : g \in gs -> span x -> span (c * g + x).
Hypothesis gs_rad : forall g, g \in gs -> rad g.
Hypothesis gs_gen : forall y, rad y -> span y.

Lemma L_mulr w g : L w -> L (w * g).
Proof.
move=> Lw; have [c [Lc e]] := L_mul Lw (L_N g).
by have -> : w * g = c by apply: Nreg; rewrite -e mulrCA.
Qed.

(** elements of O'' that P carries into O *)
Definition M (w : R) : Prop := L w /\ inI N (P * w).

Lemma M_mulr w g : M w -> M (w * g).
Proof. by move=> [Lw Pw]; split; [exact: L_mulr|rewrite mulrA; exact: inI_mulr]. Qed.

Lemma search_pow g k : forall w, M w -> ~ inI N w -> inI N (w * g ^+ k) ->
  exists w', [/\ M w', ~ inI N w', inI N (w' * g) & forall g', inI N (w * g') -> inI N (w' * g')].
Proof.
elim: k => [|k IH] w Mw nw; first by rewrite expr0 mulr1.
rewrite exprS mulrA => h.
case: (decN (w * g)) => hg; first by exists w.
have [w' [Mw' nw' hw' pres]] := IH (w * g) (M_mulr g Mw) hg h.
exists w'; split=> // g' hg'; apply: pres.
by rewrite mulrAC; exact: inI_mulr.
Qed.

Lemma search g w : rad g -> M w -> ~ inI N w ->
  exists w', [/\ M w', ~ inI N w', inI N (w' * g) & forall g', inI N (w * g') -> inI N (w' * g')].
Proof.
move=> [c ec] Mw nw; apply: (@search_pow g q) => //.
by rewrite ec mulrA [w * P]mulrC; apply: inI_mulr; case: Mw.
Qed.

Lemma search_all (l : seq R) : (forall g, g \in l -> rad g) -> forall w, M w -> ~ inI N w ->
  exists w', [/\ M w', ~ inI N w' & forall g, g \in l -> inI N (w' * g)].
Proof.
elim: l => [|g l IH] hl w Mw nw; first by exists w.
have [w1 [Mw1 nw1 h1]] := IH (fun g' hg' => hl g' (@mem_behead _ (g :: l) g' hg')) w Mw nw.
have [w2 [Mw2 nw2 h2 pres]] := search (hl g (mem_head g l)) Mw1 nw1.
exists w2; split=> // g'; rewrite inE => /orP[/eqP->//|hg'].
exact/pres/h1.
Qed.

Lemma L_pow w t : L w -> exists c, L c /\ w ^+ t.+1 = N ^+ t * c.
Proof.
move=> Lw; elim: t => [|t [c [Lc e]]]; first by exists w; rewrite expr1 expr0 mul1r.
have [c' [Lc' e']] := L_mul Lc Lw.
by exists c'; split=> //; rewrite exprSr e -mulrA e' mulrA -exprSr.
Qed.

Variable w0 : R.
Hypothesis Lw0 : L w0.
Hypothesis Pw0 : inI N (P * w0).
Hypothesis nw0 : ~ inI N w0.

Theorem core : exists u, ~ inI P u /\ forall y, rad y -> exists z, rad z /\ u * y = P * z.
Proof.
have [w [[Lw [u eu]] nw hw]] := search_all gs_rad (conj Lw0 Pw0) nw0.
have wy y : rad y -> inI N (w * y).
  move=> /gs_gen; elim=> [|c g x hg _ IH]; first by rewrite mulr0; exact: inI_0.
  by rewrite mulrDr mulrCA; apply: inI_add => //; apply/inI_mull/hw.
exists u; split.
  case=> u' eu'; apply: nw; exists u'; apply: Preg.
  by rewrite eu eu' mulrCA.
move=> y ry; have [z ez] := wy y ry.
have euy : u * y = P * z.
  by apply: Nreg; rewrite mulrA -eu -mulrA ez mulrCA.
exists z; split=> //.
(* z is nilpotent modulo P *)
apply: (@nil z (q * s)).
have [t et] : exists t, (q * s)%N = t.+1.
  by exists (q * s).-1; rewrite prednK // muln_gt0 q_gt0 s_gt0.
have [c [Lc ec]] := L_pow t Lw.
case: ry => c' ec'.
apply: (@div_cancel _ (c * c' ^+ s)).
apply: (@lregX _ N t Nreg).
rewrite mulrA -exprSr -et -exprMn -ez exprMn et ec -et exprM ec' exprMn.
by rewrite -!mulrA; congr (_ * _); rewrite mulrCA.
Qed.
End Core.
