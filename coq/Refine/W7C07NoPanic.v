(** * W7C07NoPanic: C07, [get_factors_of_squarefree] and [factorize] do not panic.

    [get_factors_core]: for a canonical q of degree 1..25 on which the prime search returned an unwrapped prime p:
      the coefficient bound, the exponent loop, the modular factorisation (C08: value or OutOfFuel of the retry
      loops), the check that all modular multiplicities are 1 (q mod p is square-free: the prime passed the gcd test),
      the Hensel lifting (C11: total for pairwise coprime monic factors), and the recombination (W7C07Recombine.v,
      at most 25 lifted factors since deg q <= 25) all return: the outcome is a value, or OutOfFuel exactly when the
      modular factorisation ran out of its retry fuel;
    [get_factors_no_panic_sized]: the same with the prime search discharged by [find_prime_terminates];
    [factorize_no_panic_sized]: the entry point. *)
From Coq Require Import ZArith List Lia Znumtheory.
From RNT.Model Require Import Base Poly PolyModP FactorModP Hensel PolyZFactor.
From RNT.Model Require Resultant.
From mathcomp Require Import all_ssreflect ssralg poly polydiv ssrint zmodp separable.
From RNT.Refine Require Import PolyRefine PolyDiv PolyZ PolyModPArith PolyZmod MonicZ FermatZ PolyModPGcd FpPoly FactorNorm.
From RNT.Refine Require Import FmpField FmpSqf FmpIrred FmpSplit FmpFull FmpProduct FmpLists FmpSafe HenselProofs C08Lists C11Lists HenselTotal ElemProofs.
From RNT.Refine Require Import PolyZFactorBasic PolyZFactorMult PolyZFactorMain PolyZFactorTop PolyZFactorPos PolyZFactorEnum.
From RNT.Refine Require Import PolyZFactorW3Run PolyZFactorW3Hensel PolyZFactorW3Subset PolyZFactorW3Zass PolyZFactorW3Irred PolyZFactorW3Bound.
From RNT.Refine Require Import PolyZFactorW3Top W7C07Fuel W7C07Stages W7C07Recombine W7C07Sized.
From mathcomp Require Import ssrZ zify ring.
Set Implicit Arguments.
Unset Strict Implicit.
Unset Printing Implicit Defensive.
Import GRing.Theory.
Local Open Scope ring_scope.

Lemma Forall2_in_l (A B : Type) (R : A -> B -> Prop) l1 l2 x :
  List.Forall2 R l1 l2 -> List.In x l1 -> exists y, List.In y l2 /\ R x y.
Proof.
elim=> [|a b s1 s2 hab _ IH] //= [<-|/IH [y [hy hR]]]; first by exists b; split=> //; left.
by exists y; split=> //; right.
Qed.

(** a product of k monic polynomials of degree >= 1 has degree >= k *)
Lemma size_lsprod_gt (ls : seq {poly Z}) :
  all (fun l : {poly Z} => l \is monic) ls -> (forall l, l \in ls -> (1 < size l)%N) ->
  (size ls < size (lsprod ls))%N.
Proof.
elim: ls => [|l ls IH] /=; first by rewrite lsprod_nil size_poly1.
move=> /andP [ml mls] hs; rewrite lsprod_cons.
have hl : (1 < size l)%N by apply: hs; rewrite inE eqxx.
have IH' := IH mls (fun l' h' => hs l' (predU1r _ _ h')).
rewrite size_mul ?monic_neq0 //; last exact: lsprod_monic.
by move: hl IH'; move: (size l) (size (lsprod ls)) (size ls) => x y z; lia.
Qed.

Theorem get_factors_core md (q : seq Z) r p : canonZ q -> (1 < size q)%N -> (size q <= 26)%N ->
  find_prime (prime_fuel q) q 2 = Done (p, p) ->
  (exists fs r', get_factors_of_squarefree md q r = Done (fs, r')) \/
  (get_factors_of_squarefree md q r = OutOfFuel /\ factorize_mod_p md q p p r = OutOfFuel).
Proof.
move=> cq sq sq26 efp; have q0 : q != [::] by case: (q) sq.
have hlen : (Z.of_nat (length q) <= 4294967296)%ZZ by rewrite Llength_eq; lia.
have hl64 : (Z.of_nat (length q) <= two64)%ZZ by rewrite /two64; lia.
have hmd : md = Checked \/ (Z.of_nat (length q) <= two64)%ZZ by right.
have l2 : (2 <= length q)%coq_nat by rewrite Llength_eq; apply/leP.
rewrite /get_factors_of_squarefree (coef_bound_done md q l2 hlen) /= efp /=.
set bound := (abs_sum _ _ * _ * _ * _)%ZZ.
have [Hp _ nmul] := find_prime_spec efp.
have Hp2 := prime_ge_2 _ Hp; have Hp0 : p <> Z0 by lia.
have Hpp : (0 < p)%ZZ by lia.
have lq0 : lead_coef (Poly q) != 0 by rewrite lead_coef_eq0 canon_Poly_eq0.
have ndlc : ~ (p | lead_coef (Poly q))%ZZ.
  by rewrite -(lead_opsZ cq); exact: not_multiple.
(* the exponent loop *)
have bound1 : (1 <= bound)%ZZ.
  rewrite /bound abs_sum_spec lead_opsZ //.
  have S0 : (0 <= \sum_(j < size q) Z.abs q`_j)%ZZ by exact: sum_abs_ge0_gen.
  have l1 : (1 <= Z.abs (lead_coef (Poly q)))%ZZ by move/eqP: lq0; lia.
  have t1 : (1 <= 2 ^ (Z.of_nat (length q) - 2))%ZZ.
    by have := Z.pow_pos_nonneg 2 (Z.of_nat (length q) - 2) ltac:(lia) ltac:(lia); lia.
  by move: S0 l1 t1; move: (\sum_(j < size q) _) (Z.abs _) (2 ^ _)%ZZ => S A T; nia.
have [e [eel [he [hbe _]]]] := PolyZFactorBasic.exp_loop_spec p bound Hp2.
rewrite eel /=.
have e1 : (1 <= e)%ZZ.
  case: (Z.leb_spec 1 e) => // lt; have e0 : e = Z0 by lia.
  by move: hbe; rewrite e0 Z.pow_0_r; lia.
pose n := pnat p; have n_prime := n_prime Hp; have En := En Hp.
have ndlc' : ~ (Z.of_nat n | lead_coef (Poly q))%ZZ by rewrite En.
pose en := Z.to_nat e.
have en0 : (0 < en)%N by rewrite /en; lia.
have epe' : (p ^ e)%ZZ = (Z.of_nat n) ^+ en by rewrite En -Zpow_exp /en Z2Nat.id.
(* C08 *)
have [f1 ef1] : exists f1, poly_mod q p = Done f1 by exact: poly_mod_total.
have f1n : f1 <> [::].
  move=> f10; have := PZ_poly_mod Hp0 ef1; rewrite f10 PZ_nil => /eqpm_sym /(eqpm_RP Hp).
  rewrite redp0 => /eqP; rewrite -size_poly_eq0 -/n size_red // => /eqP s0.
  by move: lq0; rewrite lead_coef_eq0 -size_poly_eq0 -PZE s0.
have hpu : p = p \/ (Z.of_nat (length q) <= p)%ZZ by left.
case: (factorize_safe Hp md r hl64 hpu ef1 f1n) => [[[out r1] efm]|efm]; last first.
  by right; rewrite efm.
left; rewrite efm /=.
have hnorm := factorize_normalised_list Hp (Z.lt_le_incl _ _ Hpp) efm.
have hprod := factorize_product_all Hp hmd hpu ef1 f1n efm.
have hprodF := factorize_prod Hp hmd ef1 f1n efm.
have [hirr hnd] := factorize_irreducible_all Hp hpu ef1 f1n efm.
have hpos := multiplicities_pos_all Hp hl64 hpu ef1 f1n efm.
have gout : List.Forall (fun ge => mgood p ge.1) out.
  apply/List.Forall_forall => ge hin.
  move/List.Forall_forall: hnorm => /(_ _ hin) [mf [cf [rf _]]].
  move/List.Forall_forall: hirr => /(_ _ hin) irf.
  by split.
(* all multiplicities are 1 *)
have [am [amp [g [e1' e2' e3' eg]]]] := find_prime_accept efp.
have sqf := accepted_sqfree Hp e1' e2' e3' eg.
have ones : forallb (fun fe => (snd fe =? 1)%ZZ) out = true.
  apply: (ones_of_sqfree Hp sqf hprodF) => //.
  by move: gout; apply: List.Forall_impl => ge; exact: mgood_irred.
rewrite ones /=.
set factors := List.map fst out in hnd *.
have gfs : List.Forall (mgood p) factors by rewrite /factors List.Forall_map.
(* the product modulo p, with the true leading coefficient *)
have eprod : eqpm p (PZ q) ((lead_coef (Poly q))%:P * PZprod factors).
  move/(peqmodP _ _ Hp0): hprod; rewrite PZ_pmul PZ_single (lfprod_ones ones) -/factors => e0.
  apply/(eqpm_RP Hp); move/(eqpm_RP Hp): e0; rewrite !redpM !redpC -/n => e0.
  have mon : redp n (PZprod factors) \is monic.
    rewrite PZprod_lsprod red_lsprod // big_map big_seq; apply: monic_prod => f hf.
    apply: (mgood_monic Hp); move/List.Forall_forall: gfs; apply.
    by elim: (factors) hf => [|x s IH] //; rewrite inE => /orP [/eqP ->|/IH]; [left | right].
  have := congr1 lead_coef e0; rewrite !mul_polyC !lead_coefZ (monicP mon) !mulr1 PZE lead_coef_red // => elc.
  by rewrite -PZE e0 elc mul_polyC.
have fne : factors <> [::].
  move=> f0; move: eprod; rewrite f0 /= mulr1 => /(eqpm_RP Hp); rewrite redpC -/n => e0.
  have : (size (redp n (PZ q)) <= 1)%N by rewrite e0 size_polyC; case: (_ != 0).
  by rewrite size_red // PZE canon_size_Poly // leqNgt sq.
have mfs : List.Forall lmonic factors.
  by apply/List.Forall_forall => f hf; move/List.Forall_forall: gfs => /(_ _ hf) [].
have elast : List.last q Z0 = lead_coef (Poly q) by rewrite (lead_coef_canon cq) Llast_eq.
have hc : peqmod p q (pmul opsZ (from_mono opsZ (List.last q Z0)) (HenselProofs.lprod factors)).
  by apply/(peqmodP _ _ Hp0); rewrite PZ_pmul PZ_from_mono PZ_lprod elast.
have ndl : ~ (p | List.last q Z0)%ZZ by rewrite elast.
(* C11: the lift returns *)
have hlc : ~ (p | lead opsZ q)%ZZ by rewrite lead_opsZ.
have hpw := pairwise_cop_of Hp hnd gfs.
have eprod' : eqpm p (PZ q) ((lead opsZ q)%:P * PZprod factors) by rewrite lead_opsZ.
have [lifted elf] := lift_factorization_total Hp hlc hpw e fne mfs eprod'.
rewrite elf /=.
have [hF2 [hpe _]] := lift_factorization_list_spec Hp e1 ndl fne mfs hc elf.
have ok := lifted_ok_of Hp hnd gfs hF2.
have inv : rinv n en q lifted.
  split=> //.
  move/(peqmodP _ _ _): hpe; rewrite PZ_pmul PZ_from_mono PZ_lprod elast PZprod_lsprod mul_polyC.
  by rewrite -epe'; apply; apply: Z.pow_nonzero; lia.
(* sizes: every lifted factor is canonical of length >= 2 and at most the length of q *)
have rq : redp n (PZ q) = (toF n (lead_coef (Poly q)))%:P * redp n (PZprod factors).
  by move/(eqpm_RP Hp): eprod; rewrite redpM redpC.
have rq0 : redp n (PZ q) != 0 by rewrite -size_poly_gt0 size_red // PZE canon_size_Poly //; exact: ltnW.
have hsize : forall gl, gl \in lifted -> [/\ size (PZ gl) = size gl, (1 < size gl)%N & (size gl <= size q)%N].
  move=> gl hgl.
  have hin : List.In gl lifted by elim: (lifted) hgl => [|x s IH] //; rewrite inE => /orP [/eqP ->|/IH]; [left | right].
  have [f [hf [_ [mg lg]]]] := Forall2_in_l hF2 hin.
  have [ge [ege hge]] : exists ge, ge.1 = f /\ List.In ge out by move/List.in_map_iff: hf.
  move/List.Forall_forall: hnorm => /(_ _ hge); rewrite ege => -[_ [cf [_ [l2f _]]]].
  move/List.Forall_forall: gfs => /(_ _ hf) [_ rf _].
  have dv : redp n (PZ f) %| redp n (PZ q) by rewrite rq; apply: dvdp_mull; exact: PZprod_dvd.
  have := dvdp_leq rq0 dv; rewrite (reduced_size Hp rf) size_red // PZE canon_size_Poly // => lef.
  split.
  - by rewrite (canonical_size (lmonic_canonical mg)).
  - by rewrite -Llength_eq lg; apply/leP.
  - by rewrite -Llength_eq lg.
have s25 : (size lifted <= 25)%N.
  have [hm _ _] := ok.
  have := @size_lsprod_gt (map PZ lifted) hm.
  rewrite size_map -(size_of_subprod n_prime en0 hm ndlc') ?canon_size_Poly //; last by case: inv.
  have h1 : forall l, l \in map PZ lifted -> (1 < size l)%N.
    by move=> l /mapP [gl hgl ->]; have [-> h _] := hsize _ hgl.
  by move/(_ h1); move: sq26; move: (size lifted) (size q) => x y; lia.
have hK : forall l, l \in lifted -> (size l <= size q)%N by move=> l /hsize [].
have hsz : (Z.of_nat (1 + 25 * size q) < two64)%ZZ by rewrite /two64; lia.
have ca0 : canonZ q /\ q != [::] by [].
case erc: recombine => [res|t|] /=.
- by eexists; eexists.
- by move: erc; rewrite epe' => erc; case: (@recombine_no_panic n n_prime en en0 (recombine_fuel lifted) md 1 q lifted [::] (size q) t inv s25 hK hsz).
- by case: (@recombine_fuel_suffices md (p ^ e)%ZZ (Z.quot (p ^ e) 2) q lifted).
Qed.

(** ** [P] the same with the prime search discharged by [find_prime_terminates] *)
Theorem get_factors_no_panic_sized md (q : seq Z) r : canonZ q -> (1 < size q)%N -> (size q <= 26)%N ->
  separable_poly (Poly q) -> (Z.of_nat (prime_fuel q) <= 1073741824)%ZZ ->
  (exists fs r', get_factors_of_squarefree md q r = Done (fs, r')) \/
  (get_factors_of_squarefree md q r = OutOfFuel /\
   exists p, [/\ find_prime (prime_fuel q) q 2 = Done (p, p), Znumtheory.prime p & factorize_mod_p md q p p r = OutOfFuel]).
Proof.
move=> cq sq sq26 sep hf.
have [p [efp hp _]] := find_prime_terminates cq sq sep hf.
case: (get_factors_core md r cq sq sq26 efp) => [h|[h1 h2]]; [by left | right].
by split=> //; exists p.
Qed.

(** ** [P] the entry point: no panic on inputs of degree <= 25 with coefficients of at most 2^24 bits *)
Theorem factorize_full_no_panic_sized md (a : seq Z) r : canonZ a -> (size a <= 26)%N ->
  (forall x, x \in a -> (Z.log2 (Z.abs x) < 16777216)%ZZ) ->
  (exists c l cof r', factorize_full md a r = Done (c, l, cof, r')) \/
  (factorize_full md a r = OutOfFuel /\
   exists g q p, [/\ (Resultant.resultant_gcd (cont_pp a).2 (pdiff opsZ (cont_pp a).2)).2 = Done g, div_exact (cont_pp a).2 g = Some q,
                      find_prime (prime_fuel q) q 2 = Done (p, p) & factorize_mod_p md q p p r = OutOfFuel]).
Proof.
move=> ca sa hbits.
case: (leqP (size a) 1) => sa1.
  left; case: (a) ca sa1 => [|x [|y s]] // ca _; first by rewrite factorize_full_zero; do 4!eexists.
  have x0 : x <> 0%ZZ by apply/eqP; move: ca; rewrite /canonZ /canon /=.
  by rewrite (@factorize_full_const md x r x0); do 4!eexists.
have a0 : a != [::] by case: (a) sa1.
have [eca cpp lpp prim _] := cont_pp_main ca a0 (surjective_pairing (cont_pp a)).
have ppp : prim_pos (cont_pp a).2 by split.
have [g [q [eg [pg hg ed e pq]]]] := sqfree_part ppp.
have [cq _ _] := pq.
have [g' [q' [eg' ed' _ ->]]] := factorize_full_reaches_sqfree md r ca sa1.
move: eg'; rewrite eg => -[eg']; rewrite -{g'}eg' in ed'.
move: ed'; rewrite ed => -[eq']; rewrite -{q'}eq'.
have [sep hconst] := sqfree_part_sep ppp hg e.
have spp : (1 < size (cont_pp a).2)%N.
  have c0 : (cont_pp a).1 != 0.
    by apply/eqP => c0; move: eca; rewrite c0 scale0r => /esym/eqP; rewrite canon_Poly_eq0 // (negPf a0).
  by rewrite -(canon_size_Poly cpp) -(size_scale _ c0) eca canon_size_Poly.
have sq : (1 < size q)%N.
  rewrite ltnNge; apply/negP => /(prim_pos_const pq) eq1.
  have := hconst (Poly (cont_pp a).2) (dvdpp _); rewrite eq1 Poly1 coprimep1 => /(_ isT).
  by rewrite canon_size_Poly // => h; rewrite h in spp.
have ea : Poly a = Poly q * ((cont_pp a).1 *: Poly g) by rewrite -eca e scalerAr.
have sqa : (size q <= size a)%N.
  have Pa0 : Poly a != 0 by rewrite canon_Poly_eq0.
  have v0 : (cont_pp a).1 *: Poly g != 0 by apply: contraNneq Pa0 => h; rewrite ea h mulr0.
  have Pq0 : Poly q != 0 by apply: contraNneq Pa0 => h; rewrite ea h mul0r.
  rewrite -(canon_size_Poly cq) -(canon_size_Poly ca) ea size_mul //.
  by move: (size_poly_gt0 ((cont_pp a).1 *: Poly g)); rewrite v0; move: (size (Poly q)) (size _) => x y; lia.
have sq26 : (size q <= 26)%N by exact: leq_trans sqa sa.
have hf := prime_fuel_of_divisor ca cq a0 ea sa hbits.
case: (get_factors_no_panic_sized md r cq sq sq26 sep hf) => [[fs [r1 egf]]|[egf [p [efp hp eo]]]]; last first.
  by right; rewrite egf /=; split=> //; exists g, q, p.
left; rewrite egf /=.
have [p [efp _ _]] := find_prime_terminates cq sq sep hf.
have hlen : (Z.of_nat (length q) <= 4294967296)%ZZ by rewrite Llength_eq; lia.
have hirr := get_factors_irreducible_bound cq sq hlen efp egf.
have [_ hpf] := get_factors_lprod pq egf.
have hfs : forall f, f \in fs -> canonZ f /\ (1 < size f)%N.
  move=> f hf'; have [cf _ _] := hpf f hf'; split=> //.
  by have [s1 _] := hirr f hf'; rewrite -(canon_size_Poly cf).
have [cof [l ee]] := extract_all_done [::] cpp (prim_pos_neq0 ppp) hfs.
by rewrite ee /=; do 4!eexists.
Qed.

Theorem factorize_no_panic_sized md (a : seq Z) r : canonZ a -> (size a <= 26)%N ->
  (forall x, x \in a -> (Z.log2 (Z.abs x) < 16777216)%ZZ) ->
  (exists c l r', factorize md a r = Done (c, l, r')) \/
  (factorize md a r = OutOfFuel /\
   exists g q p, [/\ (Resultant.resultant_gcd (cont_pp a).2 (pdiff opsZ (cont_pp a).2)).2 = Done g, div_exact (cont_pp a).2 g = Some q,
                      find_prime (prime_fuel q) q 2 = Done (p, p) & factorize_mod_p md q p p r = OutOfFuel]).
Proof.
move=> ca sa hbits; rewrite /factorize.
case: (factorize_full_no_panic_sized md r ca sa hbits) => [[c [l [cof [r' ->]]]]|[-> h]]; [left | by right].
by exists c, l, r'.
Qed.
