(** * LinAlgMxIim: subspace::iim against MathComp matrices (generic fieldType). Style: ssreflect. *)
From mathcomp Require Import all_ssreflect ssralg zmodp matrix perm fingroup mxalgebra.
From mathcomp Require Import zify.
From RNT.Model Require Import Base Poly LinAlg.
From RNT.Refine Require Import LinAlgList LinAlgStep LinAlgIim LinAlgMx.

Set Implicit Arguments.
Unset Strict Implicit.
Unset Printing Implicit Defensive.

Import GRing.Theory.
Local Close Scope Z_scope.
Local Open Scope ring_scope.

Section ColOps.
Variable K : fieldType.

(** right multiplication by [colop j c] subtracts [c k] times column [j] from column [k] *)
Definition colop m (j : 'I_m) (c : 'I_m -> K) : 'M[K]_m :=
  \matrix_(a, b) ((a == b)%:R - (a == j)%:R * c b).

Lemma mul_colop p m (A : 'M[K]_(p, m)) (j : 'I_m) c l k :
  (A *m colop j c) l k = A l k - c k * A l j.
Proof.
rewrite mxE.
under eq_bigr => a _ do rewrite mxE mulrBr.
rewrite sumrB; congr (_ - _).
  under eq_bigr => a _ do rewrite mulrC.
  exact: sum_delta.
under eq_bigr => a _ do rewrite mulrA (mulrC (A l a)).
by rewrite -mulr_suml sum_delta mulrC.
Qed.

Lemma colopK m (j : 'I_m) c : c j = 0 -> colop j c *m colop j (fun k => - c k) = 1%:M.
Proof.
move=> cj; apply/matrixP => a b; rewrite mul_colop !mxE cj mulr0 subr0 mulNr opprK.
by rewrite mulrC addrNK.
Qed.

Lemma tperm_mxK m (i j : 'I_m) : tperm_mx i j *m tperm_mx i j = 1%:M :> 'M[K]_m.
Proof. by rewrite -perm_mxM tperm2 perm_mx1. Qed.

Lemma tperm_swp m (i j k : 'I_m) : (tperm j i k : nat) = swp i j k.
Proof.
rewrite /swp !Nat_eqbE; case: tpermP => [E|E|/eqP H1 /eqP H2].
- by rewrite E eqxx; case: ifP => // /eqP ->.
- by rewrite E eqxx.
- by move: H1 H2; rewrite -!val_eqE /= => /negbTE -> /negbTE ->.
Qed.

(** a block of zeros in rows [<= j], columns [>= j] leaves rank at most [n - 1] *)
Lemma rank_zero_corner n m (j : nat) (A : 'M[K]_(n, m)) :
  j < n -> (forall (l : 'I_n) (k : 'I_m), l <= j -> j <= k -> A l k = 0) -> \rank A < n.
Proof.
move=> Hj HA.
have PA (l : 'I_n) (k : 'I_m) : ((pid_mx j.+1 : 'M_n) *m A) l k = (l <= j)%:R * A l k.
  rewrite mxE (bigD1 l) //= big1 ?addr0 => [|a /negbTE na]; first by rewrite mxE eqxx /= ltnS.
  by rewrite mxE eq_sym -val_eqE /= in na *; rewrite na mul0r.
have XQ (X : 'M[K]_(n, m)) (l : 'I_n) (k : 'I_m) : (X *m (pid_mx j : 'M_m)) l k = X l k * (k < j)%:R.
  rewrite mxE (bigD1 k) //= big1 ?addr0 => [|b /negbTE nb]; first by rewrite mxE eqxx.
  by rewrite mxE -val_eqE /= in nb *; rewrite nb mulr0.
have PAQ : (pid_mx j.+1 : 'M_n) *m A *m (pid_mx j : 'M_m) = (pid_mx j.+1 : 'M_n) *m A.
  apply/matrixP => l k; rewrite XQ PA.
  case: (leqP l j) => Hl; last by rewrite !mul0r.
  by case: (ltnP k j) => Hk; rewrite ?mulr1 // mulr0 HA // mulr0.
have -> : A = (pid_mx j.+1 : 'M_n) *m A *m (pid_mx j : 'M_m) + copid_mx j.+1 *m A.
  by rewrite PAQ /copid_mx mulmxBl mul1mx addrC subrK.
apply: leq_ltn_trans (mxrank_add _ _) _.
have H1 : \rank ((pid_mx j.+1 : 'M_n) *m A *m (pid_mx j : 'M_m)) <= j.
  apply: leq_trans (mxrankM_maxr _ _) _.
  by rewrite -pid_mx_minv rank_pid_mx ?geq_minl ?geq_minr.
have H2 : \rank (copid_mx j.+1 *m A) <= n - j.+1.
  by apply: leq_trans (mxrankM_maxl _ _) _; rewrite rank_copid_mx.
by have := leq_add H1 H2; lia.
Qed.

End ColOps.

Section Iim.
Variables (K : fieldType) (ofz : Z -> K).
Notation F := (fops_of ofz).
Variables (n m r : nat) (M0 : 'M[K]_(n, m)) (V0 : 'M[K]_(r, m)).

(** state before step [j]: [G] is the product of the column operations done so far, [M0 *m G] the
    fully updated matrix, of which the code keeps the part it will still read *)
Definition iim_inv (j : nat) (mm bm : list (list K)) : Prop :=
  exists G G' : 'M[K]_m,
    [/\ G *m G' = 1%:M, mx_of ofz r m bm = V0 *m G, j <= m &
     [/\ forall (l : 'I_n) (k : 'I_m), (j <= l) || (k <= l) -> ent F mm l k = (M0 *m G) l k,
         forall (l : 'I_n) (k : 'I_m), l < j -> l < k -> (M0 *m G) l k = 0 &
         forall (l : 'I_n) (k : 'I_m), l < j -> k = l :> nat -> (M0 *m G) l k != 0]].

Lemma iim_elim_spec cnt : forall j mm bm res,
  iim_elim F cnt j n m mm bm = Done res -> (cnt + j = n)%nat -> length mm = n -> length bm = r ->
  iim_inv j mm bm ->
  match res with
  | None => ~~ row_free M0
  | Some (mm', bm') => [/\ iim_inv n mm' bm', length mm' = n & length bm' = r]
  end.
Proof.
elim: cnt => [|cnt IH] j mm bm res.
  by move=> [<-] /= Hn Lm Lb Inv; split=> //; rewrite -Hn.
move=> H Hn Lm Lb [G [G' [GG' HB Hjm [Hval Hzero Hdiag]]]].
have Hj : (j < n)%coq_nat by lia.
have Hjn : j < n by lia.
pose lj := Ordinal Hjn.
case: (iim_elim_step F cnt j n m mm bm res H Lm Hj)
  => [[-> Hz]|[i [mm' [bm' [Hi [Hnz [Hzs [Lm' [Lb' [H' [Hmm' Hbm']]]]]]]]]]].
  (* no pivot: the rows are dependent *)
  have Hr : \rank (M0 *m G) < n.
    apply: (@rank_zero_corner _ _ _ j) => // l k Hl Hk.
    move: Hl; rewrite leq_eqVlt => /orP [/eqP Hl|Hl]; last by apply: Hzero => //; lia.
    rewrite -Hval ?Hl ?leqnn //; apply/eqP; rewrite -(is0E ofz) Hz //.
    by have := ltn_ord k; lia.
  have E0 : M0 = M0 *m G *m G' by rewrite -mulmxA GG' mulmx1.
  rewrite /row_free; apply/negP => /eqP E.
  by have := mxrankM_maxl (M0 *m G) G'; rewrite -E0 E; lia.
have Him : i < m by lia.
have Hjm' : j < m by lia.
pose oi : 'I_m := Ordinal Him.
pose oj : 'I_m := Ordinal Hjm'.
move: Hnz; rewrite is0E => /negbT Hp.
pose c (k : 'I_m) : K := iim_c F j m i mm k.
have cE (k : 'I_m) : c k = if j < k then (ent F mm j i)^-1 * ent F mm j (swp i j k) else 0.
  by rewrite /c /iim_c /= !Nat_ltbE ltn_ord andbT.
have cj : c oj = 0 by rewrite cE /= ltnn.
pose T : 'M[K]_m := tperm_mx oj oi.
pose U := colop oj c.
pose U' := colop oj (fun k => - c k).
have ATU q (A : 'M[K]_(q, m)) l k : (A *m T *m U) l k = A l (tperm oj oi k) - c k * A l oi.
  by rewrite mul_colop -!xcolE !mxE tpermL.
have swE (k : 'I_m) : (tperm oj oi k : nat) = swp i j k by rewrite tperm_swp.
have {Hmm'} Hmm' : forall (l : 'I_n) (k : 'I_m),
    ent F mm' l k = if (j < l) && (j < k) then ent F mm l (swp i j k) - c k * ent F mm l i
                    else ent F mm l (swp i j k).
  move=> l k; have /ltP Hl := ltn_ord l.
  by rewrite (Hmm' l k Hl) /= !Nat_ltbE ltn_ord andbT.
have {Hbm'} Hbm' : forall (l : 'I_r) (k : 'I_m),
    ent F bm' l k = if j < k then ent F bm l (swp i j k) - c k * ent F bm l i
                    else ent F bm l (swp i j k).
  move=> l k; have Hl : (l < length bm)%coq_nat by rewrite Lb; apply/ltP.
  by rewrite (Hbm' l k Hl) /= !Nat_ltbE ltn_ord andbT.
(* stored entries of row l in terms of the updated matrix *)
have Hold (l : 'I_n) (k : 'I_m) : (j <= l) || (k <= l) -> ent F mm l k = (M0 *m G) l k := Hval l k.
have Holdj (k : 'I_m) : ent F mm j k = (M0 *m G) lj k by apply: (Hold lj k); rewrite /= leqnn.
have pE : ent F mm j i = (M0 *m G) lj oi by rewrite -(Holdj oi).
apply: (IH _ mm' bm' res H') => //; first lia.
  by rewrite Lb'.
exists (G *m T *m U), (U' *m T *m G'); split.
- rewrite !mulmxA -(mulmxA (G *m T) U U') colopK // mulmx1.
  by rewrite -(mulmxA G T T) tperm_mxK mulmx1.
- apply/matrixP => l k; rewrite !mulmxA ATU -HB !mxE Hbm' swE.
  by case: ifP => // Hk; rewrite cE Hk mul0r subr0.
- lia.
split.
- move=> l k Hlk; rewrite !mulmxA ATU Hmm' -!swE.
  case: (ltnP j l) => Hjl /=.
    rewrite (Hold l (tperm oj oi k)) ?(ltnW Hjl) // (Hold l oi) ?(ltnW Hjl) //.
    by case: ifP => // Hk; rewrite cE Hk mul0r subr0.
  have Hkl : k <= l by move: Hlk; rewrite ltnNge Hjl.
  rewrite cE ltnNge (leq_trans Hkl Hjl) /= mul0r subr0.
  apply: Hold; rewrite swE /swp !Nat_eqbE.
  move: Hjl; rewrite leq_eqVlt => /orP [/eqP ->|Hlj]; first by rewrite leqnn.
  apply/orP; right.
  by case: ifP => [/eqP E|_]; [lia|case: ifP => [/eqP E|_] //; lia].
- move=> l k; rewrite ltnS leq_eqVlt => /orP [/eqP Hl|Hl] Hlk; rewrite !mulmxA ATU.
    have -> : l = lj by apply: val_inj.
    rewrite cE -[X in X < k]Hl Hlk -pE -swE Holdj.
    by rewrite mulrC mulrA divff ?mul1r ?subrr.
  rewrite (Hzero l oi) //=; last by lia.
  rewrite mulr0 subr0; apply: Hzero => //.
  rewrite swE /swp !Nat_eqbE.
  by case: ifP => [/eqP E|_]; [lia|case: ifP => [/eqP E|_] //; lia].
- move=> l k; rewrite ltnS leq_eqVlt => /orP [/eqP Hl|Hl] Hkl; rewrite !mulmxA ATU cE Hkl.
    rewrite Hl ltnn mul0r subr0.
    have -> : k = oj by apply: val_inj; rewrite /= Hkl.
    have -> : l = lj by apply: val_inj.
    by rewrite tpermL -pE.
  rewrite ltnNge (ltnW Hl) /= mul0r subr0 tpermD; first exact: Hdiag.
    by rewrite -val_eqE /= Hkl; apply/eqP; lia.
  by rewrite -val_eqE /= Hkl; apply/eqP; lia.
Qed.

End Iim.

Section IimTop.
Variables (K : fieldType) (ofz : Z -> K).
Notation F := (fops_of ofz).

Lemma iim_dot_spec n i mm xk : forall cnt j tmp t,
  iim_dot F cnt j i mm xk tmp = Done t -> (j + cnt = n)%nat ->
  t = tmp - \sum_(a < n | j <= a) ent F mm a i * vent F xk a.
Proof.
elim=> [|cnt IH] j tmp t /=.
  move=> [<-] Hn; rewrite big_pred0 ?subr0 // => a; apply/negbTE; rewrite -ltnNge.
  by have := ltn_ord a; lia.
move=> H Hn; bind_inv H as mj Emj. bind_inv H as mji Emji. bind_inv H as x Ex.
have Hjn : j < n by lia.
rewrite (IH _ _ _ H) ?addSn -?addnS // [in RHS](bigD1 (Ordinal Hjn)) /= ?leqnn // opprD addrA; congr (_ - _ - _).
  case: (nth_chk_inv _ _ _ Emj) => _ /(_ [::]) E1; case: (nth_chk_inv _ _ _ Emji) => _ /(_ 0) E2.
  by case: (nth_chk_inv _ _ _ Ex) => _ /(_ 0) E3; rewrite /ent /vent E1 E2 E3.
apply: eq_bigl => a; rewrite -val_eqE /=.
by apply/idP/idP; lia.
Qed.

(** an [n x m] matrix that is lower triangular with a non-zero diagonal has independent rows *)
Lemma lower_tri_inj n m (A : 'M[K]_(n, m)) :
  n <= m ->
  (forall (l : 'I_n) (k : 'I_m), l < k -> A l k = 0) ->
  (forall (l : 'I_n) (k : 'I_m), k = l :> nat -> A l k != 0) ->
  forall u : 'rV[K]_n, u *m A = 0 -> u = 0.
Proof.
move=> Hnm Hz Hd u Hu.
suff H : forall d (l : 'I_n), n - d <= l -> u 0 l = 0.
  by apply/rowP => l; rewrite mxE (H n) // subnn.
elim=> [|d IH] l Hl; first by have := ltn_ord l; lia.
case: (leqP (n - d) l) => [/IH //|Hl2].
have Hlm : l < m by have := ltn_ord l; lia.
pose k := Ordinal Hlm.
move/matrixP: Hu => /(_ 0 k); rewrite !mxE (bigD1 l) //= big1 ?addr0.
  by move/eqP; rewrite mulf_eq0 (negbTE (Hd l k _)) // orbF => /eqP.
move=> a Hal; case: (ltnP a l) => Ha; first by rewrite Hz ?mulr0.
by rewrite IH ?mul0r //; move: Hal; rewrite -val_eqE /= => /eqP; lia.
Qed.


Lemma length_repeat_rows (r n : nat) k :
  (k < r)%coq_nat -> length (List.nth k (List.repeat (List.repeat (0 : K) n) r) [::]) = n.
Proof.
move=> Hk; rewrite (List.nth_indep _ _ (List.repeat 0 n)) ?List.repeat_length //.
by rewrite List.nth_repeat List.repeat_length.
Qed.

Theorem iim_spec_gen (mmat vmat : list (list K)) res :
  iim F mmat vmat = Done res ->
  let n := length mmat in let m := length (List.nth 0 mmat [::]) in let r := length vmat in
  let M := mx_of ofz n m mmat in let V := mx_of ofz r m vmat in
  match res with
  | Ok x => row_free M /\ mx_of ofz r n x *m M = V
  | Err LinearlyDependent => ~~ row_free M
  | Err NotInImage => row_free M /\ forall X : 'M[K]_(r, n), X *m M <> V
  end.
Proof.
rewrite /iim => H.
bind_inv H as m0 Em0. bind_inv H as v0 Ev0. bind_inv H as u Eu. bind_inv H as e Ee.
case: (nth_chk_inv _ _ _ Em0) => _ /(_ [::]) ->.
set n := length mmat; set m := length m0; set r := length vmat => /=.
set M := mx_of ofz n m mmat; set V := mx_of ofz r m vmat.
have Inv0 : iim_inv ofz M V 0 mmat vmat.
  exists 1%:M, 1%:M; split; first exact: mulmx1.
  - by rewrite mulmx1.
  - by [].
  by split=> // l k _; rewrite mulmx1 mxE.
have := iim_elim_spec Ee (addn0 n) (erefl _) (erefl _) Inv0.
case: e Ee H => [[mm' bm']|] Ee H; last by case: H => <-.
move=> [[G [G' [GG' HB Hnm [Hval Hzero Hdiag]]]] Lm' Lb'].
bind_inv H as xmat Ex. bind_inv H as ok Eok.
have Hfree : row_free M.
  apply: inj_row_free => w Hw.
  apply: (@lower_tri_inj n m (M *m G)) => //.
  - by move=> l k; apply: Hzero.
  - by move=> l k; apply: Hdiag.
  - by rewrite mulmxA Hw mul0mx.
have ME : M = M *m G *m G' by rewrite -mulmxA GG' mulmx1.
have VE : V = mx_of ofz r m bm' *m G' by rewrite HB -mulmxA GG' mulmx1.
have Hcheck := iim_check_inv _ _ _ _ _ Eok.
case: ok Eok H Hcheck => Eok [<-] Hcheck; split=> //.
- (* Ok: X * M = V *)
  rewrite ME VE mulmxA; congr (_ *m G'); apply/matrixP => l k; rewrite !mxE.
  have Hl : (l < length bm')%coq_nat by rewrite Lb'; apply/ltP.
  case: (ltnP k n) => Hk; last first.
    have /eqP -> : ent F bm' l k == 0.
      by rewrite -(is0E ofz) Hcheck //; have := ltn_ord k; move: Hk; rewrite /n /m; lia.
    by apply: big1 => a _; rewrite (Hzero a k) ?mulr0 //; exact: leq_trans (ltn_ord a) Hk.
  have [] := iim_solve_inv _ _ _ _ _ _ _ Ex (le_n n).
  - by move=> q Hq; apply: length_repeat_rows; rewrite -Lb'.
  - by rewrite List.repeat_length Lb'.
  move=> _ [_ [_ /(_ l k Hl) Hsol]].
  have /ltP Hk' := Hk; case: (Hsol Hk') => t [Et [Hnz Hx]].
  have Ht := iim_dot_spec Et (subnKC Hk).
  pose ok' := Ordinal Hk.
  rewrite (bigID (fun a : 'I_n => a < k)) /= big1 ?add0r; last first.
    by move=> a Ha; rewrite (Hzero a k) ?mulr0.
  rewrite (bigD1 ok') /= -?leqNgt //.
  under eq_bigr => a _ do rewrite mxE.
  rewrite mxE Hx /= -(Hval ok' k) ?leqnn ?orbT //= Ht.
  have Hp : ent F mm' k k != 0 by rewrite -(is0E ofz) Hnz.
  rewrite mulfVK //.
  have -> : \sum_(a < n | ~~ (a < k) && (a != ok')) ent F xmat l a * (M *m G) a k
            = \sum_(a < n | k < a) ent F mm' a k * vent F (List.nth l xmat [::]) a; last by rewrite subrK.
  apply: eq_big => a; first by rewrite -leqNgt -val_eqE /= ltn_neqAle eq_sym andbC.
  by rewrite -leqNgt => /andP [Ha _]; rewrite mulrC Hval // Ha orbT.
- (* NotInImage *)
  case: Hcheck => c [l [Hc [Hl Hnz]]] X HX.
  have Hcm : c < m by rewrite /m; lia.
  have Hlr : l < r by rewrite /r -Lb'; apply/ltP.
  have : (X *m (M *m G)) (Ordinal Hlr) (Ordinal Hcm) = 0.
    by rewrite mxE; apply: big1 => a _; rewrite (Hzero a (Ordinal Hcm)) ?mulr0 //=; have := ltn_ord a; rewrite /n; lia.
  rewrite mulmxA HX -HB mxE /= => /eqP.
  by rewrite -(is0E ofz) Hnz.
Qed.

End IimTop.
