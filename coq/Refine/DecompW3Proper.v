(** * DecompW3Proper (C17, third wave): the ideals returned by [decompose] are proper, meet Z in pZ,
      and are pairwise distinct.

    Setting (DecompW3Order): f monic of degree n, the order with stored basis b (w_0 = 1) and table
    t = get_mult_table b f, an integer d prime to p with d * b integral (d = +- the index).
    For a returned P = (g(theta)) + (p): every v in P satisfies
        d * v = Ez * C + p * C' - Q * f   in Z[x]      ([member_eq])
    with Ez = g (or 0 when deg g = n), so modulo p the factor g divides d * v ([member_dvd]).
    Hence 1 is not in P (g does not divide the unit d), the top-left entry of the normal form is p, and
    P_i = P_j forces g_i | g_j modulo p, i.e. g_i = g_j.
    Style: ssreflect/MathComp; F_p[x] as in the C08 development; no structure on Qc is used here. *)
From Coq Require Import ZArith List Lia Znumtheory.
From Coq Require Import QArith Qcanon.
From mathcomp Require Import all_ssreflect ssralg poly polydiv ssrint zmodp.
From RNT.Model Require Import Base Poly PolyModP LinAlg MultTable Order FactorModP Ideal PrimeDecomp.
From RNT.Model Require Hnf.
From RNT.Refine Require Import PolyModPArith PolyModPDivList FermatZ PolyZmod PolyModPDiv MonicZ PolyModPGcd FpPoly
  HenselProofs FactorNorm FactorProd FpTotal FmpField FmpSqf FmpProduct FmpIrred FmpDegree FmpSplit FmpFull FmpTotal FmpSafe FmpLists
  DecompDegree DecompW3Factors.
From RNT.Refine Require Import MatZ HnfSpec HnfKernel IdealBasic IdealMul IdealSpec IdealLaws IdealCapZ IdealInv.
From RNT.Refine Require Import PolyRefine PolyZ DecompW3Order DecompW3Lead.
From RNT.Refine Require DecompW3Index AlgNormMx AlgNormOrder DetIdeal OrderCanon.
From RNT.Refine Require Import FmpIrred.
From mathcomp Require Import ssrZ zify ring.
Set Implicit Arguments. Unset Strict Implicit. Unset Printing Implicit Defensive.
Import GRing.Theory Pdiv.CommonRing Pdiv.RingMonic.
Local Open Scope ring_scope.

(** ** lattices: a member of a sum is a sum of members *)
Lemma span_app_split m (A B : list (list Z)) v : wf m A -> wf m B -> In_rowspanZ m v (A ++ B) ->
  exists a b', [/\ In_rowspanZ m a A, In_rowspanZ m b' B & v = vadd a b'].
Proof.
move=> wA wB [c [lc ->]].
exists (lincomb m (firstn (length A) c) A), (lincomb m (skipn (length A) c) B); split.
- exact: span_lincomb.
- exact: span_lincomb.
- rewrite -{1}(firstn_skipn (length A) c); apply: lincomb_app => //.
  by rewrite firstn_length; move: lc; rewrite app_length; lia.
Qed.

Lemma vscale_map q v : vscale q v = [seq Z.mul q x | x <- v].
Proof. by []. Qed.

Lemma unit_vec0 m : unit_vec m.+1 0 = 1%Z :: List.repeat 0%Z m.
Proof.
rewrite (p_e0 1 m) vscale_map.
by elim: (unit_vec m.+1 0) => [|x l IH] //; rewrite seq.map_cons -IH Z.mul_1_l.
Qed.

Lemma pe0_scale (p : Z) n : (0 < n)%nat ->
  p :: List.repeat 0%Z (n - 1) = [seq Z.mul p x | x <- unit_vec n 0].
Proof. by case: n => // m _; rewrite subn1 /= (p_e0 p m). Qed.

Lemma e0_list n : (0 < n)%nat -> unit_vec n 0 = 1%Z :: List.repeat 0%Z (n - 1).
Proof. by case: n => // m _; rewrite subn1 /= unit_vec0. Qed.

Lemma span_vadd m u v (A : list (list Z)) : wf m A ->
  In_rowspanZ m u A -> In_rowspanZ m v A -> In_rowspanZ m (vadd u v) A.
Proof.
move=> wA [c [lc ->]] [c' [lc' ->]]; exists (vadd c c'); split.
  by rewrite vadd_length ?lc ?lc'.
by rewrite lincomb_add // lc lc'.
Qed.

Lemma span_vscale m q u (A : list (list Z)) : wf m A ->
  In_rowspanZ m u A -> In_rowspanZ m (vscale q u) A.
Proof.
move=> wA [c [lc ->]]; exists (vscale q c); split; first by rewrite vscale_length.
by rewrite lincomb_scale.
Qed.

Section Core.
Variable p : Z.
Hypothesis Hp : Znumtheory.prime p.
Let Hp2 := prime_ge_2 _ Hp.
Let Hpp : (0 < p)%ZZ. Proof. lia. Qed.
Let Hp0 : p <> Z0. Proof. lia. Qed.

Notation pn := (pnat p).
Notation RP l := (redp pn (PZ l)).

Variables (f : list Z) (n : nat).
Hypothesis cf : canonZ f.
Hypothesis szf : size f = n.+1.
Hypothesis monf : seq.nth 0%Z f n = 1%Z.
Variable b : list (list Qc).
Hypothesis sb : size b = n.
Hypothesis rb : forall i, (i < n)%nat -> size (seq.nth [::] b i) = n.
Hypothesis w0 : first_is_one b.
Variable t : table.
Hypothesis gt : get_mult_table b f = Done t.
Variables (d : Z) (A : nat -> nat -> Z).
Hypothesis Hscale : forall i j, (i < n)%nat -> (j < n)%nat ->
  Qcmult (Algebraic.qz d) (List.nth j (List.nth i b [::]) (Q2Qc 0)) = Algebraic.qz (A i j).
Hypothesis n0 : (0 < n)%nat.
Hypothesis Hd : ~ (p | d)%ZZ.

Notation Fz := (PZ f).
Notation tm := (AlgNormMx.tmul t n).
Notation pe0 := (p :: List.repeat 0%Z (n - 1)).
Notation ze := (zelem n b).
Notation rp := (repr n b d).

Let Fmon : Fz \is monic := Fz_monic cf szf monf.

Lemma tsh : tshape t /\ length t = n.
Proof.
have [ts _ _] := AlgNormOrder.order_table_flags cf szf sb rb gt.
split; first exact: table_shape_tshape.
by have /andP[/eqP] := AlgNormOrder.ct cf szf sb rb gt.
Qed.

Lemma bil_tm x y : length x = n -> length y = n -> bil t x y = tm x y.
Proof. by move=> lx ly; have [ts lt] := tsh; exact: (DetIdeal.bil_closed ts lt lx ly). Qed.

Lemma redp_p : redp pn p%:P = 0.
Proof.
rewrite redpC; have -> : toF pn p = 0; last by rewrite polyC0.
by apply/(toF_eq0 (n_prime Hp)); rewrite (En Hp) Z_mod_same_full.
Qed.

Lemma toF_d : toF pn d != 0.
Proof.
apply/eqP => /(toF_eq0 (n_prime Hp)); rewrite (En Hp) => /Zmod_divide.
by move=> h; apply: Hd; apply: h.
Qed.

(** the identity in Z[x] behind a member of (elem) + (p) *)
Lemma member_eq elem Ez c c' v V :
  ze elem Ez -> size c = n -> size c' = n -> v = vadd (bil t elem c) (bil t pe0 c') -> rp v V ->
  exists Q C C', V = Ez * C + p%:P * C' - Q * Fz.
Proof.
move=> ze1 sc sc' ev rv.
have se := zelem_size ze1.
have [C rC _] := repr_exists rb Hscale sc.
have [C' rC' _] := repr_exists rb Hscale sc'.
have zp := zelem_p0 w0 n0 p; have sp := zelem_size zp.
have r1 := repr_tmul cf szf monf sb rb gt ze1 rC.
have r2 := repr_tmul cf szf monf sb rb gt zp rC'.
have s1 : size (tm elem c) = n by exact: AlgNormMx.size_tmul.
have s2 : size (tm pe0 c') = n by exact: AlgNormMx.size_tmul.
have ev' : v = vadd (tm elem c) (tm pe0 c') by rewrite ev !bil_tm.
have sv : size v = n by rewrite ev' -[size _]/(length _) vadd_length -?[length _]/(size _) ?s1 ?s2.
have hv k : seq.nth 0%Z v k = (seq.nth 0%Z (tm elem c) k + seq.nth 0%Z (tm pe0 c') k)%ZZ.
  by rewrite ev' -!Lnth_eq nth_vadd // -![length _]/(size _) s1 s2.
have r3 := repr_add sv hv r1 r2.
have -> := repr_fun rv r3.
set X := Ez * C; set Y := p%:P * C'.
exists (rdivp X (Poly f) + rdivp Y (Poly f)), C, C'; rewrite -/X -/Y.
have eX : X = rdivp X (Poly f) * Poly f + rmodp X (Poly f) := rdivp_eq Fmon X.
have eY : Y = rdivp Y (Poly f) * Poly f + rmodp Y (Poly f) := rdivp_eq Fmon Y.
rewrite -[PZ f]/(Poly f).
move: (rdivp X (Poly f)) (rmodp X (Poly f)) (rdivp Y (Poly f)) (rmodp Y (Poly f)) eX eY => q1 m1 q2 m2 -> ->.
ring.
Qed.

(** modulo p: a common divisor of f and of the generator divides d * v *)
Lemma member_dvd (D : {poly 'F_pn}) elem Ez c c' v V :
  D %| RP f -> D %| redp pn Ez ->
  ze elem Ez -> size c = n -> size c' = n -> v = vadd (bil t elem c) (bil t pe0 c') -> rp v V ->
  D %| redp pn V.
Proof.
move=> D1 D2 ze1 sc sc' ev rv.
have [Q [C [C' ->]]] := member_eq ze1 sc sc' ev rv.
rewrite redpB redpD !redpM redp_p mul0r addr0.
by apply: dvdp_sub; [exact: dvdp_mulr | exact: dvdp_mull].
Qed.

(** ** one returned factor *)
Record factor_spec (g : list Z) (P : ideal) (elem : list Z) (Ez : {poly Z}) : Prop := FactorSpec {
  fs_elem : ze elem Ez;
  fs_dvd : RP g %| redp pn Ez;
  fs_back : forall D : {poly 'F_pn}, D %| RP f -> D %| redp pn Ez -> D %| RP g;
  fs_table : i_table P = t;
  fs_hnf : is_hnf (i_hnf P) = true;
  fs_wf : wf n (i_hnf P);
  fs_split : forall v, In_rowspanZ n v (i_hnf P) ->
             exists c c', [/\ size c = n, size c' = n & v = vadd (bil t elem c) (bil t pe0 c')];
  fs_gen : In_rowspanZ n elem (i_hnf P);
  fs_p : forall y, size y = n -> In_rowspanZ n [seq Z.mul p x | x <- y] (i_hnf P);
  fs_closed : closed_mult t (i_hnf P);
  fs_member : forall c c', size c = n -> size c' = n ->
              In_rowspanZ n (vadd (bil t elem c) (bil t pe0 c')) (i_hnf P);
  fs_lift : forall V : {poly Z}, RP g %| redp pn V -> exists K W Q, V = Ez * K + p%:P * W + Q * Fz
}.

Lemma factor_spec_intro md (g : list Z) e P e' :
  lmonic g -> reduced p g -> (2 <= length g)%coq_nat -> RP g %| RP f ->
  decompose_factor md f b t p (g, e) = Done (P, e') ->
  exists elem Ez, factor_spec g P elem Ez.
Proof.
move=> Mg Rg Lg Dg Ed.
have cg : canonZ g.
  rewrite /canonZ /canon; move: Mg; rewrite /lmonic Llast_eq.
  by case: (g) Lg => [|c g'] //= _ ->.
have g0 : g != [::] by case: (g) Lg => //=; lia.
have [elem [Hel [anc [pz [E1 E2 E3]]]]] := factor_elem szf sb rb Hscale n0 cg g0 Ed.
have [ts lt] := tsh.
have lift0 (G V : {poly Z}) : redp pn G %| redp pn V -> exists K W, V = G * K + p%:P * W.
  move=> /dvdpP [K' eK].
  have /(eqpm_RP Hp) [W ->] : redp pn V = redp pn (G * liftp K').
    by rewrite redpM (liftpK (n_prime Hp)) mulrC.
  by exists (liftp K'), W.
have [Ez [ze1 dv bk lf]] : exists Ez, [/\ ze elem Ez, RP g %| redp pn Ez,
    forall D : {poly 'F_pn}, D %| RP f -> D %| redp pn Ez -> D %| RP g
    & forall V : {poly Z}, RP g %| redp pn V -> exists K W Q, V = Ez * K + p%:P * W + Q * Fz].
  case: Hel => [[ze1 sg]|[-> sg]].
    exists (PZ g); split=> //.
    by move=> V /lift0 [K [W ->]]; exists K, W, 0; rewrite mul0r addr0.
  have Sg : size (RP g) = size g by rewrite (reduced_size Hp Rg).
  have Sf : size (RP f) = n.+1.
    by rewrite /redp size_map_poly_id0 ?(size_Fz cf szf) // (monicP Fmon) rmorph1 oner_eq0.
  have Mf : RP f \is monic by apply: monic_map.
  have Mg' : RP g \is monic := RP_monic p Mg.
  have le1 : (size (RP g) <= size (RP f))%nat by apply: dvdp_leq => //; apply: monic_neq0.
  have eqs : size (RP g) = size (RP f) by move: le1; rewrite Sg Sf; move: sg; clear; lia.
  have egf : RP g = RP f.
    have : RP g %= RP f by rewrite -dvdp_size_eqp // eqs.
    by move/eqp_eq; rewrite (monicP Mf) (monicP Mg') !scale1r.
  exists 0; split; first exact: zelem_zero.
  - by rewrite redp0 dvdp0.
  - by move=> D DF _; rewrite egf.
  - rewrite egf => V /lift0 [K [W ->]]; exists 0, W, K.
    by rewrite mulr0 add0r addrC [K * _]mulrC.
have se := zelem_size ze1.
have lel : length elem = length t by rewrite lt.
have lpe : length pe0 = length t by rewrite lt /= repeat_length; move: n0; clear; lia.
have ht : (1 <= length t)%coq_nat by rewrite lt; apply/leP.
have [Ta [Ia [Wa Sa]]] := principal_spec md t elem anc ts lel ht E1.
have [Tz [Iz [Wz Sz]]] := principal_spec md t pe0 pz ts lpe ht E2.
have [_ _ tas] := AlgNormOrder.order_table_flags cf szf sb rb gt.
have Ca := principal_closed md t elem anc ts tas lel ht E1.
have Cz := principal_closed md t pe0 pz ts tas lpe ht E2.
have Cp : closed_mult t (i_hnf P).
  have := add_closed md anc pz P; rewrite Ta /=; apply=> //.
rewrite lt in Wa Sa Wz Sz.
have hn : (1 <= n)%coq_nat by apply/leP.
have [Tp [Ip [Wp Sp]]] := add_spec md anc pz P n Wa Wz hn E3.
have [U1 U2] := add_upper md anc pz P n Wa Wz hn E3.
exists elem, Ez; split=> //.
- by rewrite Tp.
- move=> v /Sp /(span_app_split Wa Wz) [a [b' [/Sa [c [lc ea]] /Sz [c' [lc' eb]] ev]]].
  by exists c, c'; split=> //; rewrite ev ea eb.
- apply: U1; apply/Sa; exists (unit_vec n 0); split; first by rewrite unit_vec_length.
  by rewrite bil_tm ?unit_vec_length // (tmul_unit cf szf sb rb w0 gt n0 se).
- move=> y sy; apply: U2; apply/Sz; exists y; split=> //.
  have lp0 : length pe0 = n by rewrite lpe lt.
  by rewrite bil_tm // (tmul_p0 cf szf sb rb w0 gt n0 p sy).
- move=> c c' sc sc'; apply: span_vadd => //.
  + by apply: U1; apply/Sa; exists c.
  + by apply: U2; apply/Sz; exists c'.
Qed.

(** G2: 1 is not in P *)
Lemma factor_proper g P elem Ez : (2 <= length g)%coq_nat -> reduced p g -> RP g %| RP f ->
  factor_spec g P elem Ez -> ~ In_rowspanZ n (unit_vec n 0) (i_hnf P).
Proof.
move=> Lg Rg Dg S /(fs_split S) [c [c' [sc sc' ev]]].
have r0 := zelem_repr d (zelem_unit0 w0 n0).
have := member_dvd Dg (fs_dvd S) (fs_elem S) sc sc' ev r0.
rewrite mulr1 redpC => /dvdp_leq; rewrite polyC_eq0 toF_d size_polyC toF_d => /(_ isT).
by rewrite (reduced_size Hp Rg); move: Lg; clear; lia.
Qed.

(** [Ideal::contains] on the coordinate vector of 1 answers false *)
Lemma factor_contains md g P elem Ez : (2 <= length g)%coq_nat -> reduced p g -> RP g %| RP f ->
  factor_spec g P elem Ez -> contains md P (unit_vec n 0) = Done false.
Proof.
move=> Lg Rg Dg S; have [ts lt] := tsh.
have hn : (1 <= length (i_table P))%coq_nat by rewrite (fs_table S) lt; apply/leP.
have lu : length (unit_vec n 0) = length (i_table P) by rewrite (fs_table S) lt unit_vec_length.
have ts' : tshape (i_table P) by rewrite (fs_table S).
have wP : wf (length (i_table P)) (i_hnf P) by rewrite (fs_table S) lt; exact: (fs_wf S).
have [_ [[] E]] := contains_spec_gen md P (unit_vec n 0) ts' lu hn wP (fs_hnf S) => //.
exfalso; apply: (factor_proper Lg Rg Dg S).
have cP : closed_mult (i_table P) (i_hnf P) by rewrite (fs_table S); exact: (fs_closed S).
have ul : forall y, length y = length (i_table P) -> bil (i_table P) y (unit_vec n 0) = y.
  move=> y; rewrite (fs_table S) lt => ly.
  by rewrite bil_tm ?unit_vec_length // (tmul_unit cf szf sb rb w0 gt n0 ly).
have := (contains_spec md P (unit_vec n 0) (unit_vec n 0) ts' lu hn wP (fs_hnf S) cP lu ul).1 E.
by rewrite (fs_table S) lt.
Qed.

(** G2: P has full rank and its top-left entry is p *)
Lemma factor_full_rank g P elem Ez : factor_spec g P elem Ez -> length (i_hnf P) = n.
Proof.
move=> S; have hn : (1 <= n)%coq_nat by apply/leP.
apply: (@DecompW3Index.full_rank_scalar n (i_hnf P) p hn) => //.
  exact: (is_hnf_hnf_rows n _ (fs_wf S) (fs_hnf S)).
move=> j hj; exists [seq Z.mul p x | x <- unit_vec n j]; split.
  by apply: (fs_p S); rewrite AlgNormMx.size_unit_vec.
move=> k hk; rewrite Lnth_eq (nth_map 0%Z) ?AlgNormMx.size_unit_vec // AlgNormMx.nth_unit_vec //.
by rewrite eq_sym; case: (k == j); rewrite /= ?Z.mul_1_r ?Z.mul_0_r.
Qed.

Lemma factor_cap_z g P elem Ez : (2 <= length g)%coq_nat -> reduced p g -> RP g %| RP f ->
  factor_spec g P elem Ez -> cap_z P = Done p.
Proof.
move=> Lg Rg Dg S; have hn : (1 <= n)%coq_nat by apply/leP.
have [z [-> [zpos hz]]] := cap_z_spec P n (fs_wf S) (fs_hnf S) (factor_full_rank S) hn.
congr Done.
have pin : In_rowspanZ n pe0 (i_hnf P).
  by rewrite (pe0_scale p n0); apply: (fs_p S); rewrite AlgNormMx.size_unit_vec.
have /(hz p) dv := pin.
case: (prime_divisors p Hp z dv) => [|[|[|]]] e; try lia.
exfalso; apply: (factor_proper Lg Rg Dg S).
have /(hz 1%Z) : (z | 1)%ZZ by rewrite e; exists 1%Z.
by rewrite (e0_list n0).
Qed.

(** G3: equal ideals come from equal factors *)
Lemma factor_same g1 P1 el1 Ez1 g2 P2 el2 Ez2 :
  RP g1 %| RP f -> factor_spec g1 P1 el1 Ez1 -> factor_spec g2 P2 el2 Ez2 ->
  i_hnf P1 = i_hnf P2 -> RP g1 %| RP g2.
Proof.
move=> D1 S1 S2 eP.
have := fs_gen S2; rewrite -eP => /(fs_split S1) [c [c' [sc sc' ev]]].
have r2 := zelem_repr d (fs_elem S2).
have := member_dvd D1 (fs_dvd S1) (fs_elem S1) sc sc' ev r2.
rewrite redpM redpC mul_polyC dvdpZr ?toF_d // => D2.
exact: (fs_back S2).
Qed.


(** ** the converse: membership in P is divisibility by g modulo p *)
Variable Sl : list (list Z).
Hypothesis sS : forall k, (k < n)%nat -> size (seq.nth [::] Sl k) = n.
Hypothesis HS : forall k, (k < n)%nat ->
  OrderCanon.qlincomb n (seq.nth [::] Sl k) b = seq.nth [::] (identity fopsQc n) k.

Let sFz : size Fz = n.+1 := size_Fz cf szf.
Let Fz0 : Fz != 0 := monic_neq0 Fmon.

Lemma zex (X : {poly Z}) : exists x, ze x (rmodp X Fz).
Proof.
apply: (zelem_exists sb rb sS HS).
by rewrite -ltnS -sFz ltn_rmodpN0.
Qed.

Lemma repr_small v V : rp v V -> (size V <= n)%nat.
Proof.
move=> rv; have [V' rv' eV'] := repr_exists rb Hscale (repr_size rv).
by rewrite (repr_fun rv rv') eV'; apply: size_poly.
Qed.

Lemma vadd_nth (u v : list Z) k : size u = size v ->
  seq.nth 0%Z (vadd u v) k = (seq.nth 0%Z u k + seq.nth 0%Z v k)%ZZ.
Proof. by move=> e; rewrite -!Lnth_eq nth_vadd. Qed.

Lemma member_conv g P elem Ez v V :
  factor_spec g P elem Ez -> rp v V -> RP g %| redp pn V -> In_rowspanZ n v (i_hnf P).
Proof.
move=> S rv dv.
have [K [W [Q eV]]] := fs_lift S dv.
have [k zk] := zex K; have [w zw] := zex W.
have z1 := zelem_tmul cf szf monf sb rb gt (fs_elem S) zk.
have z2 := zelem_tmul cf szf monf sb rb gt (zelem_p0 w0 n0 p) zw.
have s1 : size (tm elem k) = n by exact: AlgNormMx.size_tmul.
have s2 : size (tm pe0 w) = n by exact: AlgNormMx.size_tmul.
pose y := vadd (tm elem k) (tm pe0 w).
have sy : size y = n by rewrite /y -[size _]/(length _) vadd_length -?[length _]/(size _) ?s1 ?s2.
have hy j : seq.nth 0%Z y j = (seq.nth 0%Z (tm elem k) j + seq.nth 0%Z (tm pe0 w) j)%ZZ.
  by rewrite vadd_nth // s1 s2.
have zy := zelem_add sy hy z1 z2.
have eY : rmodp (Ez * rmodp K (Poly f)) (Poly f) + rmodp (p%:P * rmodp W (Poly f)) (Poly f) = V.
  rewrite -(rmodpD Fmon).
  have eK : K = rdivp K (Poly f) * Poly f + rmodp K (Poly f) := rdivp_eq Fmon K.
  have eW : W = rdivp W (Poly f) * Poly f + rmodp W (Poly f) := rdivp_eq Fmon W.
  have -> : Ez * rmodp K (Poly f) + p%:P * rmodp W (Poly f)
            = (- (Q + Ez * rdivp K (Poly f) + p%:P * rdivp W (Poly f))) * Poly f + V.
    rewrite [in RHS]eV -[PZ f]/(Poly f).
    move: (rdivp K (Poly f)) (rmodp K (Poly f)) (rdivp W (Poly f)) (rmodp W (Poly f)) eK eW => q1 m1 q2 m2 -> ->.
    ring.
  by apply: (rmodp_addl_mul_small Fmon); rewrite sFz ltnS (repr_small rv).
rewrite eY in zy.
have edv : y = [seq Z.mul d x | x <- v] := zelem_inj sb gt zy (repr_zelem rv).
have sv := repr_size rv.
have dvP : In_rowspanZ n (vscale d v) (i_hnf P).
  rewrite vscale_map -edv /y.
  have -> : tm elem k = bil t elem k.
    by rewrite bil_tm //; [exact: (zelem_size (fs_elem S)) | exact: (zelem_size zk)].
  have -> : tm pe0 w = bil t pe0 w.
    by rewrite bil_tm //; [exact: (zelem_size (zelem_p0 w0 n0 p)) | exact: (zelem_size zw)].
  by apply: (fs_member S); [exact: (zelem_size zk) | exact: (zelem_size zw)].
have pvP : In_rowspanZ n (vscale p v) (i_hnf P) by rewrite vscale_map; apply: (fs_p S).
have [u1 u2 eb] : Bezout p d 1 by apply: rel_prime_bezout; apply: prime_rel_prime.
have -> : v = vadd (vscale u2 (vscale d v)) (vscale u1 (vscale p v)).
  apply: (@vec_ext n) => //.
    by rewrite vadd_length !vscale_length.
  move=> i hi; rewrite nth_vadd ?vscale_length // !nth_vscale.
  move: (List.nth i v 0%Z) => vi.
  have -> : (u2 * (d * vi) + u1 * (p * vi))%ZZ = ((u1 * p + u2 * d) * vi)%ZZ by lia.
  by rewrite eb Z.mul_1_l.
by apply: span_vadd; [exact: (fs_wf S) | exact: span_vscale (fs_wf S) dvP | exact: span_vscale (fs_wf S) pvP].
Qed.

(** ** P is a prime ideal: a product lies in P only if a factor does *)
Lemma factor_prime g P elem Ez x y :
  lirred p g -> RP g %| RP f -> factor_spec g P elem Ez -> size x = n -> size y = n ->
  In_rowspanZ n (bil t x y) (i_hnf P) -> In_rowspanZ n x (i_hnf P) \/ In_rowspanZ n y (i_hnf P).
Proof.
move=> Ig Dg S sx sy; rewrite bil_tm // => inP.
have [X rX _] := repr_exists rb Hscale sx.
have [Y rY _] := repr_exists rb Hscale sy.
have sxy : size (tm x y) = n by exact: AlgNormMx.size_tmul.
have [Zp rZ _] := repr_exists rb Hscale sxy.
have [c [c' [sc sc' ev]]] := fs_split S inP.
have dZ := member_dvd Dg (fs_dvd S) (fs_elem S) sc sc' ev rZ.
have eM := repr_mul cf szf monf sb rb gt rX rY rZ.
have eXY : X * Y = rdivp (X * Y) (Poly f) * Poly f + rmodp (X * Y) (Poly f) := rdivp_eq Fmon (X * Y).
have dXY : RP g %| redp pn X * redp pn Y.
  rewrite -redpM eXY -eM redpD !redpM.
  by apply: dvdp_add; [exact: dvdp_mull | exact: dvdp_mull].
case/orP: (irred_dvd_mul Ig dXY) => h; [left | right].
- exact: (member_conv S rX h).
- exact: (member_conv S rY h).
Qed.


(** ** two different factors give comaximal ideals: 1 = a + b with a in P1, b in P2 *)
Lemma dvd_rmodp (D : {poly 'F_pn}) (X : {poly Z}) :
  D %| RP f -> D %| redp pn X -> D %| redp pn (rmodp X Fz).
Proof.
move=> DF DX.
have -> : rmodp X Fz = X - rdivp X Fz * Fz by rewrite {2}(rdivp_eq Fmon X); ring.
by rewrite redpB redpM; apply: dvdp_sub => //; apply: dvdp_mull.
Qed.

Lemma rmodp_scale_mod (W : {poly Z}) : rmodp (p%:P * rmodp W Fz) Fz = rmodp (p%:P * W) Fz.
Proof.
by rewrite {2}(rdivp_eq Fmon W) mulrDr mulrA (rmodpD Fmon) (rmodp_mull Fmon) add0r.
Qed.

Lemma factor_comax g1 P1 el1 Ez1 g2 P2 el2 Ez2 :
  lirred p g1 -> RP g1 %| RP f -> RP g2 %| RP f -> ~~ (RP g1 %| RP g2) ->
  factor_spec g1 P1 el1 Ez1 -> factor_spec g2 P2 el2 Ez2 ->
  exists a b', [/\ In_rowspanZ n a (i_hnf P1), In_rowspanZ n b' (i_hnf P2) & unit_vec n 0 = vadd a b'].
Proof.
move=> I1 D1 D2 N12 S1 S2.
have /Bezout_eq1_coprimepP [[u1 u2] /= eu] := irred_coprime I1 N12.
pose X1 := liftp u1 * PZ g1; pose X2 := liftp u2 * PZ g2.
have [W eW] : eqpm p (X1 + X2) 1.
  by apply/(eqpm_RP Hp); rewrite redpD !redpM !(liftpK (n_prime Hp)) eu redp1.
have [a za] := zex X1; have [b1 zb] := zex X2; have [w zw] := zex W.
have sa := zelem_size za; have sb1 := zelem_size zb; have sw := zelem_size zw.
have aP : In_rowspanZ n a (i_hnf P1).
  apply: (member_conv S1 (zelem_repr d za)); rewrite redpM; apply: dvdp_mull.
  by apply: dvd_rmodp => //; rewrite redpM; apply: dvdp_mull.
have bP : In_rowspanZ n b1 (i_hnf P2).
  apply: (member_conv S2 (zelem_repr d zb)); rewrite redpM; apply: dvdp_mull.
  by apply: dvd_rmodp => //; rewrite redpM; apply: dvdp_mull.
have zp := zelem_tmul cf szf monf sb rb gt (zelem_p0 w0 n0 p) zw.
rewrite rmodp_scale_mod in zp.
have epw : tm pe0 w = [seq Z.mul p x | x <- w] := tmul_p0 cf szf sb rb w0 gt n0 p sw.
have pwP : In_rowspanZ n (tm pe0 w) (i_hnf P2) by rewrite epw; apply: (fs_p S2).
have spw : size (tm pe0 w) = n by exact: AlgNormMx.size_tmul.
have su : size (unit_vec n 0) = n by exact: AlgNormMx.size_unit_vec.
pose l := vadd a b1; pose r := vadd (unit_vec n 0) (tm pe0 w).
have sl : size l = n by rewrite /l -[size _]/(length _) vadd_length -?[length _]/(size _) ?sa ?sb1.
have sr : size r = n by rewrite /r -[size _]/(length _) vadd_length -?[length _]/(size _) ?su ?spw.
have zl : ze l (rmodp X1 Fz + rmodp X2 Fz).
  by apply: (zelem_add sl _ za zb) => k; rewrite vadd_nth // sa sb1.
have zr : ze r (1 + rmodp (p%:P * W) Fz).
  by apply: (zelem_add sr _ (zelem_unit0 w0 n0) zp) => k; rewrite vadd_nth // su spw.
have eP : rmodp X1 Fz + rmodp X2 Fz = 1 + rmodp (p%:P * W) Fz.
  rewrite -(rmodpD Fmon) eW (rmodpD Fmon) rmodp_small //.
  by rewrite size_poly1 sFz.
rewrite eP in zl.
have elr : l = r := zelem_inj sb gt zl zr.
exists a, (vadd b1 (vscale (-1) (tm pe0 w))); split=> //.
  by apply: span_vadd; [exact: (fs_wf S2) | | exact: span_vscale (fs_wf S2) pwP].
apply: (@vec_ext n) => //.
  by rewrite !vadd_length ?vscale_length // -![length _]/(size _) ?sa ?sb1 ?spw.
move=> i hi.
have la : length a = n := sa. have lb1 : length b1 = n := sb1.
have lu : length (unit_vec n 0) = n := su. have lpw : length (tm pe0 w) = n := spw.
have lw' : length (vscale (-1) (tm pe0 w)) = n by rewrite vscale_length.
have lb' : length (vadd b1 (vscale (-1) (tm pe0 w))) = n by rewrite vadd_length ?lw'.
have h1 : List.nth i l 0%Z = (List.nth i a 0 + List.nth i b1 0)%ZZ by rewrite /l nth_vadd ?la ?lb1.
have h2 : List.nth i r 0%Z = (List.nth i (unit_vec n 0) 0 + List.nth i (tm pe0 w) 0)%ZZ.
  by rewrite /r nth_vadd ?lu ?lpw.
rewrite nth_vadd ?la ?lb' // nth_vadd ?lb1 ?lw' // nth_vscale.
by move: h1 h2; rewrite elr => ->; lia.
Qed.


(** ** the norm: for a lower triangular stored basis the normal form of P has diagonal (p, .., p, 1, .., 1)
    with deg g entries p *)
Hypothesis tri : forall i j, (i < j)%nat -> (j < n)%nat -> List.nth j (List.nth i b [::]) (Q2Qc 0) = Q2Qc 0.
Hypothesis dnz : forall k, (k < n)%nat -> List.nth k (List.nth k b [::]) (Q2Qc 0) <> Q2Qc 0.

Lemma A_unit j : (j < n)%nat -> ~ (p | A j j)%ZZ.
Proof.
move=> hj dv.
have sX : size ('X^j : {poly Z}) = j.+1 by rewrite size_polyXn.
have [x zx] : exists x, ze x 'X^j by apply: (zelem_exists sb rb sS HS); rewrite sX.
have [_ e] := monic_coords sb rb Hscale tri dnz hj zx (monicXn _ j) sX.
by apply: Hd; rewrite -e; apply: Z.divide_mul_r.
Qed.

Lemma pej_lead P g elem Ez j : factor_spec g P elem Ez -> (j < n)%nat -> lead_at n (i_hnf P) j p.
Proof.
move=> S hj; exists [seq Z.mul p x | x <- unit_vec n j]; split; [|split].
- by apply: (fs_p S); rewrite AlgNormMx.size_unit_vec.
- by rewrite Lnth_eq (nth_map 0%Z) ?AlgNormMx.size_unit_vec // AlgNormMx.nth_unit_vec // eqxx /= Z.mul_1_r.
- move=> c /ltP hc; rewrite Lnth_eq; case: (ltnP c n) => hcn; last first.
    by rewrite seq.nth_default // size_map AlgNormMx.size_unit_vec.
  rewrite (nth_map 0%Z) ?AlgNormMx.size_unit_vec // AlgNormMx.nth_unit_vec //.
  by rewrite (ltn_eqF hc) /= Z.mul_0_r.
Qed.

Lemma lead_small g P elem Ez j z : reduced p g -> RP g %| RP f -> factor_spec g P elem Ez ->
  (j.+1 < length g)%nat -> lead_at n (i_hnf P) j z -> (p | z)%ZZ.
Proof.
move=> Rg Dg S hj [v [vP [<- hv]]].
have sv : size v = n := span_length n v _ (fs_wf S) vP.
have hj' : (j < n)%nat.
  have Sf : size (RP f) = n.+1.
    by rewrite /redp size_map_poly_id0 ?(size_Fz cf szf) // (monicP Fmon) rmorph1 oner_eq0.
  have : (size (RP g) <= size (RP f))%nat.
    by apply: dvdp_leq => //; rewrite -size_poly_gt0 Sf.
  by rewrite (reduced_size Hp Rg) Sf; move: hj; clear; lia.
have [V rV _] := repr_exists rb Hscale sv.
have [c [c' [sc sc' ev]]] := fs_split S vP.
have dV := member_dvd Dg (fs_dvd S) (fs_elem S) sc sc' ev rV.
have hv' : forall c0, (j < c0)%nat -> seq.nth 0%Z v c0 = 0%Z.
  by move=> c0 /ltP h; rewrite -Lnth_eq hv.
have [eVj sV] := repr_lead sb rb Hscale tri hj' rV hv'.
have V0 : redp pn V = 0.
  apply/eqP/negPn/negP => N0; have := dvdp_leq N0 dV.
  rewrite (reduced_size Hp Rg) => le1.
  have := leq_trans (size_poly _ _) sV : (size (redp pn V) <= j.+1)%nat.
  by move: (size (redp pn V)) le1 hj => sz; clear; lia.
have : toF pn (V`_j) = 0 by rewrite -redp_coef V0 coef0.
move/(toF_eq0 (n_prime Hp)); rewrite (En Hp) eVj => /(Zmod_divide _ _ Hp0) dv.
case: (prime_mult p Hp _ _ dv) => //; first by rewrite Lnth_eq.
by move/(A_unit hj').
Qed.

Lemma lead_big g P elem Ez j : lmonic g -> factor_spec g P elem Ez ->
  (length g <= j.+1)%nat -> (j < n)%nat -> exists2 z, lead_at n (i_hnf P) j z & ~ (p | z)%ZZ.
Proof.
move=> Mg S hj hjn.
pose X : {poly Z} := 'X^(j.+1 - length g) * PZ g.
have mX : X \is monic by rewrite /X monicMl ?monicXn // lmonic_monic.
have sX : size X = j.+1.
  rewrite /X size_monicM ?monicXn ?monic_neq0 ?lmonic_monic // size_polyXn (lmonic_size Mg).
  by move: hj; clear; lia.
have [x zx] : exists x, ze x X by apply: (zelem_exists sb rb sS HS); rewrite sX.
have [hx e] := monic_coords sb rb Hscale tri dnz hjn zx mX sX.
exists (seq.nth 0%Z x j); last first.
  by move=> dv; apply: Hd; rewrite -e; apply: Z.divide_mul_l.
exists x; split; [|split].
- apply: (member_conv S (zelem_repr d zx)).
  by rewrite redpM /X redpM; apply: dvdp_mull; apply: dvdp_mull.
- by rewrite Lnth_eq.
- by move=> c /ltP hc; rewrite Lnth_eq hx.
Qed.

Lemma factor_norm g P elem Ez : lmonic g -> reduced p g -> (2 <= length g)%coq_nat -> RP g %| RP f ->
  factor_spec g P elem Ez -> norm P = Done (p ^ pdeg g)%ZZ.
Proof.
move=> Mg Rg Lg Dg S.
have hn : (1 <= n)%coq_nat by apply/leP.
have HH := is_hnf_hnf_rows n _ (fs_wf S) (fs_hnf S).
have HL := factor_full_rank S.
have Sf : size (RP f) = n.+1.
  by rewrite /redp size_map_poly_id0 ?(size_Fz cf szf) // (monicP Fmon) rmorph1 oner_eq0.
have lg : (length g <= n.+1)%nat.
  have : (size (RP g) <= size (RP f))%nat by apply: dvdp_leq => //; rewrite -size_poly_gt0 Sf.
  by rewrite (reduced_size Hp Rg) Sf.
have -> : pdeg g = Z.of_nat (length g - 1)%coq_nat.
  rewrite pdeg_size; last by case: (g) Lg => //=; lia.
  by congr Z.of_nat; rewrite -[size g]/(length g); lia.
apply: (norm_p_power n P p (length g - 1)%coq_nat HH HL hn); first by move: lg; clear; lia.
move=> j /ltP hj.
case: Nat.ltb_spec => hm.
- apply: (lead_is_p n (i_hnf P) j p HH HL) => //; first exact/ltP.
  + move=> z; apply: (lead_small Rg Dg S); move: hm; clear; lia.
  + exact: (pej_lead S hj).
- have hm' : (length g <= j.+1)%nat by move: hm Lg; clear; lia.
  have [z lz nz] := lead_big Mg S hm' hj.
  apply: (lead_is_1 n (i_hnf P) j p z HH HL _ Hp (pej_lead S hj) lz nz); exact/ltP.
Qed.

End Core.
