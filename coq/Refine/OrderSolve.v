(** * OrderSolve: what [Order] uses of the C18 theorems, restated without matrices:
    the solution of [solve_linear_system] as explicit dot products (neutral statement:
    stdlib lists, [Qcplus]/[Qcmult] only), so that files working with polynomials over
    [QcRing] can use it without importing the matrix development.  Style: ssreflect. *)
From mathcomp Require Import all_ssreflect ssralg zmodp matrix mxalgebra.
From mathcomp Require Import zify.
From Coq Require Import QArith Qcanon.
From RNT.Model Require Import Base Poly LinAlg.
From RNT.Refine Require Import QcField LinAlgQc.
Set Implicit Arguments.
Unset Strict Implicit.
Unset Printing Implicit Defensive.
Import GRing.Theory.
Local Close Scope Z_scope.
Local Close Scope Q_scope.
Local Open Scope ring_scope.

(** [sum_{i < n} x[i] * a[i][j]] *)
Definition qdot (n : nat) (x : list Qc) (a : list (list Qc)) (j : nat) : Qc :=
  List.fold_right (fun i acc => Qcplus (Qcmult (List.nth i x (Q2Qc 0)) (List.nth j (List.nth i a [::]) (Q2Qc 0))) acc)
                  (Q2Qc 0) (List.seq 0 n).

Lemma Lseq_iota a n : List.seq a n = iota a n.
Proof. by elim: n a => //= n IH a; rewrite IH. Qed.

Lemma qdot_sum n x a j :
  qdot n x a j = \sum_(i < n) (List.nth i x (Q2Qc 0) : Qc_fieldType) * List.nth j (List.nth i a [::]) (Q2Qc 0).
Proof.
rewrite /qdot Lseq_iota -(big_mkord xpredT (fun i => (List.nth i x (Q2Qc 0) : Qc_fieldType) * List.nth j (List.nth i a [::]) (Q2Qc 0))).
by rewrite unlock /reducebig /index_iota subn0; elim: (iota 0 n) => //= i s ->.
Qed.

Theorem solve_dot (a : list (list Qc)) (b x : list Qc) :
  solve_linear_system fopsQc a b = Done (Ok x) ->
  forall j : nat, (j < length a)%nat -> qdot (length a) x a j = List.nth j b (Q2Qc 0).
Proof.
move=> /solve_ok /= h j hj.
move/matrixP/(_ ord0 (Ordinal hj)): h; rewrite !mxE => <-.
by rewrite qdot_sum; apply: eq_bigr => i _; rewrite !mxE.
Qed.
