(** The invariant of Cohen's sub-resultant algorithm 3.3.1 / 3.3.7 in terms of the polynomial
    subresultants [SR] of the *initial* pair (A0, B0), over an integral domain, and what it gives for
    one step: the pseudo-remainder is +-(a b^delta) times a subresultant of (A0, B0) (so the division of
    the algorithm is exact), c^delta b is +- b^delta times a principal subresultant coefficient, and the
    invariant holds again for the next pair. Signs are not tracked ([pmeq]). ssreflect/MathComp style. *)
From mathcomp Require Import all_ssreflect fingroup perm ssralg poly matrix.
From mathcomp Require Import zify ring.
From RNT.Refine Require Import SubresDet.
Set Implicit Arguments.
Unset Strict Implicit.
Unset Printing Implicit Defensive.
Import GRing.Theory.
Local Open Scope ring_scope.

Local Notation dg p := (size p).-1.

Ltac gsz := repeat match goal with |- context [size (polyseq ?p)] =>
  let x := fresh "sz" in move: (size p) => x end.
Ltac slia := gsz; lia.

Ltac gen_pows :=
  repeat (let t := fresh "t" in set t := (_ ^+ _); clearbody t).

Section PM.
Variable D : idomainType.
Implicit Types X Y Z : D.

(** equality up to sign *)
Definition pmeq X Y : Prop := exists k : nat, X = (-1) ^+ k * Y.

Lemma pmeq_refl X : pmeq X X.
Proof. by exists 0%N; rewrite expr0 mul1r. Qed.

Lemma pmeq_sym X Y : pmeq X Y -> pmeq Y X.
Proof. by case=> k ->; exists k; rewrite signrMK. Qed.

Lemma pmeq_trans Y X Z : pmeq X Y -> pmeq Y Z -> pmeq X Z.
Proof. by case=> k1 -> [k2 ->]; exists (k1 + k2)%N; rewrite exprD mulrA. Qed.

Lemma pmeq_mull Z X Y : pmeq X Y -> pmeq (Z * X) (Z * Y).
Proof. by case=> k ->; exists k; rewrite mulrCA. Qed.

Lemma pmeq_mulIl Z X Y : Z != 0 -> pmeq (Z * X) (Z * Y) -> pmeq X Y.
Proof. by move=> nz [k]; rewrite mulrCA => /(mulfI nz) ->; exists k. Qed.

(** Bookkeeping of one step, multiplicative form: m'+1 = deg G - j, e = deg H - j, dl = deg F - deg G. *)
Lemma inv_step_pm (a b c b' S0 X Y : D) (m' e dl : nat) :
    a != 0 -> b != 0 -> c != 0 -> (e <= m')%N ->
    pmeq (b ^+ (dl + m') * a ^+ m'.+1 * S0) X ->
    pmeq ((c ^+ dl.+1) ^+ m'.+1 * X) (c ^+ (dl + m'.+1 - e) * (a * b ^+ dl) ^+ m'.+1 * Y) ->
    b' * b ^+ dl = c ^+ dl * b ->
  pmeq (b' ^+ m' * c ^+ e * S0) Y.
Proof.
move=> nza nzb nzc le_e H1 H2 Hb'.
set K := c ^+ (dl + m'.+1 - e) * (a * b ^+ dl) ^+ m'.+1 in H2.
have nzK : K * (b ^+ dl) ^+ m' != 0 by rewrite !mulf_neq0 ?expf_neq0 ?mulf_neq0 ?expf_neq0.
apply: (pmeq_mulIl nzK).
apply: pmeq_trans (_ : pmeq _ ((b ^+ dl) ^+ m' * (K * Y))) _; last first.
  by rewrite mulrCA mulrA; apply: pmeq_refl.
apply: pmeq_trans (pmeq_mull _ H2).
apply: pmeq_trans (_ : pmeq _ ((b ^+ dl) ^+ m' * ((c ^+ dl.+1) ^+ m'.+1 *
                                 (b ^+ (dl + m') * a ^+ m'.+1 * S0)))) _; last first.
  by do 2!apply: pmeq_mull.
have -> : K * (b ^+ dl) ^+ m' * (b' ^+ m' * c ^+ e * S0) =
          (c ^+ (dl + m'.+1 - e) * c ^+ e) * (a * b ^+ dl) ^+ m'.+1 * (b' * b ^+ dl) ^+ m' * S0.
  by rewrite /K [(b' * _) ^+ m']exprMn; gen_pows; ring.
rewrite -exprD subnK; last by move: le_e; clear; lia.
rewrite Hb' addnS !exprS !exprD !exprMn ?exprS.
by gen_pows; exists 0%N; rewrite expr0 mul1r; ring.
Qed.

End PM.

Lemma coef_signM (R : ringType) k (p : {poly R}) i : ((-1) ^+ k * p)`_i = (-1) ^+ k * p`_i.
Proof.
rewrite -signr_odd -[in RHS]signr_odd.
by case: (odd k); rewrite ?expr1 ?expr0 ?mulN1r ?mul1r ?coefN.
Qed.

Section Inv.
Variable R : idomainType.
Implicit Types (F G H P Q : {poly R}) (a b c : R).
Variables A0 B0 : {poly R}.

Local Notation p0 := (dg A0).
Local Notation q0 := (dg B0).

(** the j-th subresultant polynomial of the initial pair *)
Definition S0 (j : nat) : {poly R} := SR j (q0 - j) (p0 - j) A0 B0.

Definition sinv F G a b : Prop :=
  forall j, (j <= dg G)%N -> (j < dg F)%N ->
    pmeq ((b ^+ (dg F - j).-1 * a ^+ (dg G - j))%:P * S0 j) (SR j (dg G - j) (dg F - j) F G).

Lemma sinv_init : sinv A0 B0 1 1.
Proof. by move=> j _ _; rewrite !expr1n mul1r mul1r; apply: pmeq_refl. Qed.

Section Step.
Variables (F G Q P : {poly R}) (a b : R).
Hypothesis nzF : F != 0.
Hypothesis nzG : G != 0.
Hypothesis leGF : (size G <= size F)%N.
Hypothesis G_gt1 : (1 < size G)%N.
Hypothesis nza : a != 0.
Hypothesis nzb : b != 0.
Let c := lead_coef G.
Let dl := (dg F - dg G)%N.
Hypothesis defF : c ^+ dl.+1 *: F = Q * G + P.
Hypothesis ltPG : (size P < size G)%N.
Hypothesis HI : sinv F G a b.

Let nzc : c != 0. Proof. by rewrite lead_coef_eq0. Qed.

Let szQ : (size Q <= dl.+1)%N.
Proof.
have [->|nzQ] := eqVneq Q 0; first by rewrite size_poly0.
have: (size (Q * G)%R <= size F)%N.
  have -> : Q * G = c ^+ dl.+1 *: F - P by rewrite defF addrK.
  rewrite (leq_trans (size_add _ _)) // geq_max size_scale ?expf_neq0 // leqnn size_opp.
  by apply: leq_trans leGF; apply: ltnW.
rewrite size_mul // /dl; move: (polySpred nzG) leGF; move: (size Q) (size G) (size F) => x y z.
by lia.
Qed.

Let cE : G`_(dg G) = c. Proof. by rewrite /c lead_coefE. Qed.

(** the division by a * b^dl is exact: P is +- (a b^dl) times a subresultant of (A0, B0) *)
Lemma step_prem : pmeq ((a * b ^+ dl) *: S0 (dg G).-1) P.
Proof.
have q1 : dg G = (dg G).-1.+1 by move: G_gt1; clear; lia.
set j := (dg G).-1 in q1 *.
have [||||e He] := @SR_step _ j 1 0 dl.+1 (c ^+ dl.+1) F G Q P defF.
- by rewrite add0n addn1.
- by [].
- by rewrite addn0 /j; move: ltPG G_gt1; clear; move: (size P) (size G) => x y; lia.
- by rewrite addn1 -q1; move: G_gt1; clear; move: (size G) => y; lia.
move: He; rewrite addn1 -q1 cE add0n expr1 SR_tri; last first.
  by rewrite /j; move: ltPG G_gt1; clear; move: (size P) (size G) => x y; lia.
rewrite expr0 mul1r -mulrA mulrCA => He.
have nzal : (c ^+ dl.+1)%:P != 0 :> {poly R} by rewrite polyC_eq0 expf_neq0.
have {}He : SR j 1 dl.+1 F G = (-1) ^+ e * P := mulfI nzal He.
have dGj : (dg G - j = 1)%N by rewrite q1 subSnn.
have dFj : (dg F - j = dl.+1)%N.
  by rewrite /dl q1; move: leGF G_gt1; rewrite /j; clear; move: (size G) (size F) => x y; lia.
have lt_jF : (j < dg F)%N by rewrite /j; move: leGF G_gt1; clear; move: (size G) (size F) => x y; lia.
have := HI (leq_pred _) lt_jF; rewrite -/j dGj dFj He expr1 /= [b ^+ dl * a]mulrC -mul_polyC => h.
by case: h => k ->; exists (k + e)%N; rewrite exprD mulrA.
Qed.

(** the division of c^dl b by b^dl is exact *)
Lemma step_h : (0 < dl)%N -> exists k : nat, c ^+ dl * b = (-1) ^+ k * (b ^+ dl * (S0 (dg G))`_(dg G)).
Proof.
move=> dl_gt0; have ltqp : (dg G < dg F)%N by move: dl_gt0; rewrite /dl; clear; move: (size G) (size F) => x y; lia.
have [k Hk] := HI (leqnn _) ltqp; exists k.
move: Hk; rewrite subnn expr0 mulr1.
have -> : (dg F - dg G = dl.-1.+1)%N by rewrite -/dl; move: dl_gt0; clear; lia.
rewrite SR_tri /=; last by move: G_gt1; clear; move: (size G) => y; lia.
move=> Hk.
have H : b ^+ dl.-1 * (S0 (dg G))`_(dg G) = (-1) ^+ k * (c ^+ dl.-1 * c).
  move/(congr1 (fun X : {poly R} => X`_(dg G))): Hk; rewrite coefCM => ->.
  by rewrite coef_signM coefCM cE.
have -> : dl = dl.-1.+1 by move: dl_gt0; clear; lia.
rewrite /= [b ^+ _]exprS -mulrA H [b * _]mulrCA signrMK.
by rewrite exprSr mulrC.
Qed.

(** the invariant for the next pair *)
Lemma step_inv H b' : H != 0 -> P = (a * b ^+ dl) *: H -> b' * b ^+ dl = c ^+ dl * b ->
  sinv G H c b'.
Proof.
move=> nzH defP Hb' j le_jr lt_jq.
have nzphi : a * b ^+ dl != 0 by rewrite mulf_neq0 ?expf_neq0.
have szP : size P = size H by rewrite defP size_scale.
have lt_rq : (dg H < dg G)%N.
  by move: ltPG (polySpred nzH); rewrite szP; clear; move: (size H) (size G) => x y; lia.
have le_qp : (dg G <= dg F)%N by move: leGF; clear; move: (size G) (size F) => x y; lia.
pose m' := (dg G - j).-1.
have mE : (dg G - j)%N = m'.+1 by rewrite /m'; move: lt_jq; clear; slia.
have [||||e He] := @SR_step _ j (dg G - j) (dg H - j) (dg F - dg H) (c ^+ dl.+1) F G Q P defF.
- by move: szQ le_jr lt_rq le_qp; rewrite /dl; clear; slia.
- by move: lt_jq; clear; slia.
- by rewrite szP subnKC // leqSpred.
- by rewrite subnKC ?leqSpred // ltnW.
move: He; have -> : (dg H - j + (dg F - dg H) = dg F - j)%N.
  by move: le_jr lt_rq le_qp; clear; slia.
have -> : (j + (dg G - j) = dg G)%N by rewrite subnKC // ltnW.
rewrite cE defP SR_scaler => He.
have lt_jp : (j < dg F)%N by apply: leq_trans lt_jq le_qp.
have := HI (ltnW lt_jq) lt_jp.
have -> : (dg F - j).-1 = (dl + m')%N by rewrite /dl /m'; move: lt_jq le_qp; clear; slia.
rewrite mE polyCM !polyC_exp => H1.
have H2 : pmeq ((c%:P ^+ dl.+1) ^+ m'.+1 * SR j m'.+1 (dg F - j) F G)
               (c%:P ^+ (dl + m'.+1 - (dg H - j)) * (a%:P * b%:P ^+ dl) ^+ m'.+1 * SR j (dg H - j) m'.+1 G H).
  exists e; rewrite mE in He; rewrite -!polyC_exp -polyCM -!polyC_exp He -!mulrA.
  congr (_ * (_%:P * _)); congr (_ ^+ _).
  by rewrite /dl; move: lt_rq le_qp le_jr mE; clear; slia.
have le_e : (dg H - j <= m')%N by rewrite /m'; move: lt_rq; clear; slia.
have Hb'P : b'%:P * b%:P ^+ dl = c%:P ^+ dl * b%:P by rewrite -!polyC_exp -!polyCM Hb'.
have := inv_step_pm _ _ _ le_e H1 H2 Hb'P; rewrite !polyC_eq0 => /(_ nza nzb nzc).
by rewrite succnK -!polyC_exp -polyCM.
Qed.

End Step.

(** the last division of Algorithm 3.3.7 (G a non-zero constant) is exact *)
Lemma finish_exact F G a b : sinv F G a b -> size G = 1%N -> (1 < size F)%N ->
  exists k : nat, G`_0 ^+ dg F = (-1) ^+ k * (b ^+ (dg F).-1 * (S0 0)`_0).
Proof.
move=> HI sG sF; have lt0F : (0 < dg F)%N by move: sF; clear; slia.
have [k Hk] := HI 0%N (leq0n _) lt0F; exists k.
move: Hk; rewrite sG /= !subn0 expr0 mulr1.
have -> : dg F = (dg F).-1.+1 by move: lt0F; clear; slia.
rewrite SR_tri ?sG //= => /(congr1 (fun X : {poly R} => X`_0)).
by rewrite coefCM coef_signM coefCM -exprSr => ->; rewrite signrMK.
Qed.

End Inv.
