(** * OrderW3Union (C15): [order::union] is total on full-rank input.

      For n x n rational bases a, b (n >= 1) with a non-singular, [order_union a b] returns: the two
      normal forms exist (HNF totality, C02), the union of the normal forms is the normal form of
      the stacked generators, whose rank over Q is n, so it has exactly n rows; the read-back loop
      therefore stays in bounds and the final [hnf_reduce] is applied to a non-singular matrix
      ([DetOrder.hnf_reduce_total]).  In particular union returns on two stored orders of the same
      dimension.  Style: ssreflect/MathComp. *)
From Coq Require Import ZArith List.
From mathcomp Require Import all_ssreflect ssralg zmodp matrix mxalgebra.
From mathcomp Require Import ssrZ zify.
From Coq Require Import QArith Qcanon.
From RNT.Model Require Import Base Poly Algebraic LinAlg MultTable Order.
From RNT.Model Require Hnf.
From RNT.Refine Require Import QcField LinAlgQc MatZ HnfSpec HnfMain HnfDet HnfTotal OrderLint OrderCanon OrderUnion.
From RNT.Refine Require Import DetBridge DetHnf DetOrder.
From RNT.Refine Require LinAlgList.
Set Implicit Arguments.
Unset Strict Implicit.
Unset Printing Implicit Defensive.
Import GRing.Theory.
Local Close Scope Z_scope.
Local Close Scope Q_scope.
Local Close Scope Qc_scope.
Local Open Scope ring_scope.

(** the normal form of a generating set of rank m (= number of columns) is square with positive
    determinant *)
Lemma hnf_new_full_rank X k m h : shape k m X -> (1 <= k)%coq_nat -> (1 <= m)%coq_nat ->
  Hnf.hnf_new X = Done h -> \rank (mxQ k m X) = m ->
  shape m m h /\ (0 < \det (zmx m m h))%Z.
Proof.
move=> sX hk hm E rk.
have [U [k' EU]] := hnf_new_Done _ _ E.
have [rkh _] := hnf_rank_Q sX hk hm EU.
have lh : length h = m by rewrite -rkh.
have [ih [wh _]] := hnf_new_correct _ k m h sX hk hm E.
have hr := is_hnf_hnf_rows m h wh ih.
have [dh dpos] := hnf_square_det hr hm lh.
by split; [split|rewrite dh].
Qed.

Lemma rank_scaled_full n l (b : qmat) : qshape n n b -> all_lint l b -> l <> 0%Z ->
  \det (qmx n n b) != 0 -> \rank (mxQ n n (toZm l b)) = n.
Proof.
move=> sb hl l0 d0; apply: mxrank_unit.
rewrite (qmx_toZm sb hl) unitmxE detZ unitfE mulf_neq0 // expf_neq0 // q_of_Z_eq0.
exact/eqP.
Qed.

(** [P] union_total *)
Theorem order_union_total n (a b : qmat) : (1 <= n)%coq_nat -> qshape n n a -> qshape n n b ->
  \det (qmx n n a) != 0 -> exists r, order_union a b = Done r.
Proof.
move=> hn sa sb d0.
rewrite (order_union_unfold n a b hn sa sb); cbv zeta.
set l := lcm_den (lcm_den 1 a) b.
have lpos : (0 < l)%Z by apply: lcm_den2_pos.
have l0 : l <> 0%Z by lia.
have [la lb] := lcm_den2_lint a b; rewrite -/l in la lb.
have TA := toZm_shape l n n a sa; have TB := toZm_shape l n n b sb.
have [ha Ea] := hnf_new_total _ n n TA hn hn.
have [hb Eb] := hnf_new_total _ n n TB hn hn.
rewrite Ea Eb; cbn [bind].
have rkA := rank_scaled_full sa la l0 d0.
have [sha dha] := hnf_new_full_rank TA hn hn Ea rkA.
(* the union of the two normal forms: square, positive determinant *)
have [h [Eu [sh dh]]] : exists h, Hnf.hnf_union ha hb = Done h /\ (shape n n h /\ (0 < \det (zmx n n h))%Z).
  case eha : ha => [|a0 ha'].
    by move: sha.1; rewrite eha /=; lia.
  case ehb : hb => [|b0 hb'].
    by exists ha; rewrite -eha; split=> //; rewrite eha.
  rewrite -eha -ehb.
  have na : ha <> [::] by rewrite eha.
  have nb : hb <> [::] by rewrite ehb.
  rewrite (union_eq _ _ n n n ha hb TA TB hn hn hn Ea Eb na nb).
  have TAB : shape (n + n) n (toZm l a ++ toZm l b).
    case: TA TB => lA wA [lB wB]; split; first by rewrite List.app_length lA lB.
    by apply/wf_app.
  have hnn : (1 <= n + n)%coq_nat by lia.
  have [h Eh] := hnf_new_total _ (n + n) n TAB hnn hn.
  exists h; split=> //.
  apply: (hnf_new_full_rank TAB hnn hn Eh).
  apply/eqP; rewrite eqn_leq rank_leq_col /=.
  rewrite /mxQ (@zmx_cat n n n _ _ TA.1) map_col_mx -/(mxQ n n (toZm l a)) -/(mxQ n n (toZm l b)).
  rewrite -{1}rkA; apply: mxrankS.
  by rewrite -addsmxE addsmxSl.
rewrite Eu; cbn [bind].
have h0 : nth_chk h 0 = Done (List.nth 0 h [::]).
  by apply: LinAlgList.nth_chk_lt; rewrite sh.1; lia.
rewrite h0; cbn [bind].
have -> : length (List.nth 0 h [::]) = n.
  by apply: (wf_row n h 0 sh.2); rewrite sh.1; lia.
rewrite (rat_matrix_closed l n h sh); cbn [bind].
apply: (hnf_reduce_total hn (toQm_shape l n n h sh)).
have : q_of_Z l ^+ n * \det (qmx n n (toQm l h)) = q_of_Z (\det (zmx n n h)).
  by rewrite -detZ (qmx_toQm sh l0) det_mxQ.
move=> e; apply/eqP => dz; move: e; rewrite dz mulr0 => /esym/eqP.
by rewrite q_of_Z_eq0 => /eqP; lia.
Qed.

(** ... in particular on two stored orders (outputs of [hnf_reduce] = [from_basis]) of the same dimension *)
Theorem order_union_total_stored n (a0 b0 a b : qmat) : (1 <= n)%coq_nat ->
  qshape n n a0 -> qshape n n b0 -> hnf_reduce a0 = Done a -> hnf_reduce b0 = Done b ->
  exists r, order_union a b = Done r.
Proof.
move=> hn sa0 sb0 Ea Eb.
have [la [pa [lapos papos lena sqa da]]] := stored_det hn sa0 Ea.
have [lb' [pb [_ _ lenb sqb _]]] := stored_det hn sb0 Eb.
have sa : qshape n n a by split=> //; move: sqa; rewrite /square lena.
have sb : qshape n n b by split=> //; move: sqb; rewrite /square lenb.
apply: (order_union_total hn sa sb).
apply/eqP => dz; move: da; rewrite dz mulr0 => /esym/eqP.
by rewrite q_of_Z_eq0 => /eqP; lia.
Qed.
