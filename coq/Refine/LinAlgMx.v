(** * LinAlgMx: the elimination routines of Model/LinAlg.v against MathComp matrices, for the
    model instantiated at the operations of an arbitrary MathComp [fieldType]. Style: ssreflect. *)
From mathcomp Require Import all_ssreflect ssralg zmodp matrix perm fingroup.
From mathcomp Require Import zify.
From RNT.Model Require Import Base Poly LinAlg.
From RNT.Refine Require Import LinAlgList LinAlgStep.

Set Implicit Arguments.
Unset Strict Implicit.
Unset Printing Implicit Defensive.

Import GRing.Theory.
Local Close Scope Z_scope.
Local Open Scope ring_scope.

Lemma Nat_eqbE (a b : nat) : Nat.eqb a b = (a == b).
Proof. by apply/idP/eqP => /PeanoNat.Nat.eqb_eq. Qed.

Lemma Nat_ltbE (a b : nat) : Nat.ltb a b = (a < b).
Proof. by apply/idP/ltP => /PeanoNat.Nat.ltb_lt. Qed.
Lemma Nat_lebE (a b : nat) : Nat.leb a b = (a <= b).
Proof. by apply/idP/leP => /PeanoNat.Nat.leb_le. Qed.

Section Gen.
Variable K : fieldType.
Variable ofz : Z -> K.

(** the model's record of operations built from the MathComp operations of [K] *)
Definition fops_of : field_ops K :=
  mkFOps K (mkOps K 0 1 +%R (fun x y => x - y) *%R -%R eq_op ofz) GRing.inv (fun x y => x / y).
Notation F := fops_of.

Definition mx_of n m (a : list (list K)) : 'M[K]_(n, m) := \matrix_(i, j) ent F a i j.

Lemma is0E (x : K) : is0 (fr F) x = (x == 0). Proof. by []. Qed.

Lemma singular_kernel n (A : 'M[K]_n) (v : 'cV[K]_n) : A *m v = 0 -> v != 0 -> \det A = 0.
Proof.
move=> Av nz; case: (boolP (A \in unitmx)) => [U|]; last by rewrite unitmxE unitfE negbK => /eqP.
by move: nz; rewrite -(mul1mx v) -(mulVmx U) -mulmxA Av mulmx0 eqxx.
Qed.


Lemma sum_delta n (r : 'I_n) (c : 'I_n -> K) : \sum_k (k == r)%:R * c k = c r.
Proof.
rewrite (bigD1 r) //= eqxx mul1r big1 ?addr0 // => k /negbTE ->; exact: mul0r.
Qed.

Lemma sum_delta' n (r : 'I_n) (c : 'I_n -> K) : \sum_k (r == k)%:R * c k = c r.
Proof. by rewrite -[RHS]sum_delta; apply: eq_bigr => k _; rewrite eq_sym. Qed.

(** ** matrix::inv *)
Lemma inv_loop_spec cnt : forall i n a b (A0 : 'M[K]_n) res,
  inv_loop F cnt i n a b = Done res -> (cnt + i = n)%nat -> length a = n -> length b = n ->
  mx_of n n b *m A0 = mx_of n n a ->
  (forall r c : 'I_n, c < i -> ent F a r c = (r == c)%:R) ->
  (forall v : 'cV[K]_n, mx_of n n a *m v = 0 -> A0 *m v = 0) ->
  match res with Ok b' => mx_of n n b' *m A0 = 1%:M | Err _ => \det A0 = 0 end.
Proof.
elim: cnt => [|cnt IH] i n a b A0 res.
  move=> [<-] /= Hn La Lb P1 P2 _; rewrite P1; apply/matrixP => r c.
  by rewrite !mxE P2 //; have := ltn_ord c; lia.
move=> H Hn La Lb P1 P2 P3.
have Hi : (i < n)%coq_nat by lia.
case: (inv_loop_step F cnt i n a b res H La Lb Hi) => [[-> Hz]|[idx [a' [b' [Hidx [Hnz [Hzs [La' [Lb' [H' Hent]]]]]]]]]].
  have Hin : i < n by lia.
  pose oi := Ordinal Hin.
  pose c (k : 'I_n) : K := if k < i then ent F a k i else 0.
  pose v : 'cV[K]_n := \col_k (c k - (k == oi)%:R).
  apply: (@singular_kernel _ _ v); last first.
    apply/eqP => /matrixP /(_ oi 0); rewrite !mxE eqxx /c ltnn sub0r => /eqP.
    by rewrite oppr_eq0 oner_eq0.
  apply: P3; apply/matrixP => r z; rewrite !mxE.
  under eq_bigr => k _ do rewrite !mxE mulrBr.
  rewrite sumrB.
  have -> : \sum_(k < n) ent F a r k * c k = c r.
    rewrite -[RHS]sum_delta'; apply: eq_bigr => k _; rewrite /c.
    by case: ifP => [ki|_]; [rewrite P2|rewrite !mulr0].
  under eq_bigr => k _ do rewrite mulrC.
  rewrite sum_delta /c; case: ifP => [_|ri]; first by rewrite subrr.
  have /eqP -> : ent F a r i == 0 by rewrite -is0E Hz //; have := ltn_ord r; lia.
  by rewrite subrr.
have {Hent} Hent : forall r k : 'I_n,
    ent F a' r k = (if r == i :> nat then ent F a idx k * (ent F a idx i)^-1
                    else ent F a (swp i idx r) k
                         - ent F a (swp i idx r) i * (ent F a idx k * (ent F a idx i)^-1)) /\
    ent F b' r k = (if r == i :> nat then ent F b idx k * (ent F a idx i)^-1
                    else ent F b (swp i idx r) k
                         - ent F a (swp i idx r) i * (ent F b idx k * (ent F a idx i)^-1)).
  move=> r k; have Hr : (r < n)%coq_nat by apply/ltP.
  have Hk : (k < n)%coq_nat by apply/ltP.
  by have /= := Hent r k Hr Hk; rewrite Nat_eqbE.
have swn r : r < n -> swp i idx r < n.
  by rewrite /swp !Nat_eqbE; case: ifP => _; [lia|case: ifP => _; lia].
have E1 r (k : 'I_n) : r < n -> \sum_(j < n) ent F b r j * A0 j k = ent F a r k.
  move=> Hr; move/matrixP: (P1) => /(_ (Ordinal Hr) k); rewrite !mxE => <-.
  by apply: eq_bigr => j _; rewrite mxE.
have Hidxn : idx < n by lia.
have Hin : i < n by lia.
move: Hnz; rewrite is0E => /negbT Hnz.
apply: (IH _ _ a' b' A0 res H') => //; first lia.
- apply/matrixP => r k; rewrite !mxE (Hent r k).1.
  under eq_bigr => j _ do rewrite mxE (Hent r j).2.
  case: ifP => _.
    under eq_bigr => j _ do rewrite mulrAC.
    by rewrite -mulr_suml E1.
  under eq_bigr => j _ do rewrite mulrBl -mulrA (mulrAC (ent F b idx j)).
  by rewrite sumrB -mulr_sumr -mulr_suml !E1 // swn.
- move=> r c Hc; rewrite (Hent r c).1.
  have P2n r' c' : r' < n -> c' < i -> ent F a r' c' = (r' == c')%:R.
    move=> Hr' Hc'; have Hc'n : c' < n by lia.
    exact: (P2 (Ordinal Hr') (Ordinal Hc'n)).
  have Hr := ltn_ord r.
  move: Hc; rewrite ltnS leq_eqVlt => /orP [/eqP Hc|Hc]; last first.
    rewrite (P2n idx c) // (_ : (idx == c) = false) ?mul0r; last by lia.
    case: ifP => [/eqP ri|ri]; first by rewrite (_ : (r == c) = false) //; apply/eqP => rc; move: Hc; rewrite -rc ri ltnn.
    rewrite mulr0 subr0 P2n ?swn //; congr (_ %:R); congr nat_of_bool.
    rewrite /swp !Nat_eqbE ri; case: ifP => [/eqP ridx|_]; last by [].
    by rewrite -val_eqE /= ridx; apply/eqP/eqP; lia.
  have -> : (r == c) = (r == i :> nat) by rewrite -val_eqE /= Hc.
  rewrite Hc; case: ifP => _; first by rewrite mulfV.
  by rewrite mulfV // mulr1 subrr.
- move=> v Hv; apply: P3; apply/matrixP => r0 z; rewrite !mxE.
  pose S (r : nat) := \sum_(k < n) ent F a r k * v k z.
  have S' (r : 'I_n) : \sum_(k < n) ent F a' r k * v k z = 0.
    move/matrixP: (Hv) => /(_ r z); rewrite !mxE => H0; rewrite -[RHS]H0.
    by apply: eq_bigr => k _; rewrite mxE.
  have Sidx : S idx = 0.
    have := S' (Ordinal Hin).
    under eq_bigr => k _ do rewrite (Hent _ k).1 /= eqxx mulrAC.
    by rewrite -mulr_suml => /eqP; rewrite mulf_eq0 invr_eq0 (negbTE Hnz) orbF => /eqP.
  suff: S r0 = 0 by rewrite /S => H0; rewrite -[RHS]H0; apply: eq_bigr => k _; rewrite mxE.
  case: (idx =P r0 :> nat) => [<- //|/eqP ne].
  have Hs : swp i idx r0 < n by apply: swn.
  have nei : (swp i idx r0 == i) = false.
    by rewrite /swp !Nat_eqbE; case: ifP => [/eqP E|/eqP E]; [|case: ifP => [/eqP E2|/eqP E2]]; apply/eqP; move/eqP: ne; lia.
  have := S' (Ordinal Hs).
  under eq_bigr => k _ do rewrite (Hent _ k).1 /= nei mulrBl -mulrA (mulrAC (ent F a idx k)).
  rewrite sumrB -mulr_sumr -mulr_suml -/(S idx) Sidx mul0r mulr0 subr0.
  have -> : swp i idx (swp i idx r0) = r0.
    by rewrite /swp !Nat_eqbE; repeat case: ifP => //; lia.
  by [].
Qed.



Lemma ent_identity n (r k : nat) : r < n -> k < n -> ent F (identity F n) r k = (r == k)%:R.
Proof.
move=> /ltP Hr /ltP Hk; rewrite /ent /identity.
rewrite (List.nth_indep _ _ (List.map (fun j => if Nat.eqb 0 j then 1 else 0) (List.seq 0 n))); last first.
  by rewrite List.map_length List.seq_length.
rewrite (List.map_nth (fun i => List.map (fun j => if Nat.eqb i j then r1 (fr F) else r0 (fr F)) (List.seq 0 n))).
rewrite List.seq_nth //=.
rewrite (List.nth_indep _ _ ((fun j => if Nat.eqb r j then r1 (fr F) else r0 (fr F)) 0%nat)); last first.
  by rewrite List.map_length List.seq_length.
rewrite (List.map_nth (fun j => if Nat.eqb r j then r1 (fr F) else r0 (fr F))) List.seq_nth //= Nat_eqbE.
by case: eqP.
Qed.

Lemma length_identity n : length (identity F n) = n.
Proof. by rewrite /identity List.map_length List.seq_length. Qed.

Theorem inv_spec_gen (a : list (list K)) res :
  inv F a = Done res ->
  let n := length a in
  match res with
  | Ok b => mx_of n n b *m mx_of n n a = 1%:M
  | Err _ => \det (mx_of n n a) = 0
  end.
Proof.
rewrite /inv => H; set n := length a; apply: (inv_loop_spec H) => //.
- by rewrite addn0.
- exact: length_identity.
- rewrite (_ : mx_of n n (identity F n) = 1%:M) ?mul1mx //.
  by apply/matrixP => r k; rewrite !mxE ent_identity.
Qed.


(** ** determinant *)

(** an [(n - i) x (i + 1)] block of zeros in the lower left corner forces a zero determinant *)
Lemma det_zero_block n (i : 'I_n) (A : 'M[K]_n) :
  (forall r c : 'I_n, i <= r -> c <= i -> A r c = 0) -> \det A = 0.
Proof.
move=> HA; rewrite /matrix.determinant big1 // => s _.
suff [r Hr Hs] : exists2 r : 'I_n, i <= r & s r <= i.
  by rewrite (bigD1 r) //= (HA _ _ Hr Hs) mul0r mulr0.
apply/exists_inP; apply: contraT; rewrite negb_exists_in => /forall_inP Hall.
pose R := [set r : 'I_n | i <= r]; pose C := [set c : 'I_n | i < c].
have sub : s @: R \subset C.
  by apply/subsetP => x /imsetP [r]; rewrite !inE => Hr ->; have := Hall r Hr; rewrite -ltnNge.
have := subset_leq_card sub; rewrite (card_imset _ perm_inj).
have : C \proper R.
  apply/properP; split; first by apply/subsetP => c; rewrite !inE; apply: ltnW.
  by exists i; rewrite !inE ?leqnn ?ltnn.
by move/proper_card; rewrite ltnNge => /negbTE ->.
Qed.

(** subtracting multiples of row [i] from rows below it does not change the determinant *)
Lemma det_rowop n (i : 'I_n) (c : 'I_n -> K) (A : 'M[K]_n) :
  (forall r : 'I_n, r <= i -> c r = 0) ->
  \det (\matrix_(r, k) (A r k - c r * A i k)) = \det A.
Proof.
move=> Hc.
pose E : 'M[K]_n := \matrix_(r, l) ((r == l)%:R - c r * (l == i)%:R).
have -> : (\matrix_(r, k) (A r k - c r * A i k)) = E *m A.
  apply/matrixP => r k; rewrite !mxE.
  under eq_bigr => l _ do rewrite mxE mulrBl -mulrA.
  by rewrite sumrB -mulr_sumr sum_delta' sum_delta.
rewrite det_mulmx (_ : \det E = 1) ?mul1r // det_trig; last first.
  apply/is_trig_mxP => r l Hrl; rewrite !mxE (_ : (r == l) = false) ?sub0r; last by apply/eqP => E'; move: Hrl; rewrite E' ltnn.
  case: (l =P i) => [li|_]; last by rewrite mulr0 oppr0.
  by rewrite Hc ?mul0r ?oppr0 // -li ltnW.
rewrite big1 // => r _; rewrite !mxE eqxx.
case: (r =P i) => [->|_]; last by rewrite mulr0 subr0.
by rewrite Hc // mul0r subr0.
Qed.

Lemma det_xrow n (i j : 'I_n) (A : 'M[K]_n) :
  \det (xrow i j A) = (if i == j then 1 else -1) * \det A.
Proof.
rewrite xrowE det_mulmx det_perm odd_tperm.
by case: eqP => _; rewrite ?expr0 ?expr1.
Qed.

Lemma det_loop_spec cnt : forall i n a result (A0 : 'M[K]_n) res,
  det_loop F cnt i n a result = Done res -> (cnt + i = n)%nat -> length a = n ->
  \det A0 * \prod_(k < n | k < i) ent F a k k = result * \det (mx_of n n a) ->
  (forall k : 'I_n, k < i -> ent F a k k != 0) ->
  (forall r c : 'I_n, c < i -> c < r -> ent F a r c = 0) ->
  res = \det A0.
Proof.
elim: cnt => [|cnt IH] i n a result A0 res.
  move=> [<-] /= Hn La D1 D2 D3.
  have Hall (k : 'I_n) : k < i by have := ltn_ord k; lia.
  have detT : \det (mx_of n n a) = \prod_(k < n) ent F a k k.
    rewrite -det_tr det_trig; first by apply: eq_bigr => k _; rewrite !mxE.
    by apply/is_trig_mxP => r l Hrl; rewrite !mxE D3.
  move: D1; rewrite detT (eq_bigl xpredT) // => /mulIf -> //.
  by apply/prodf_neq0 => k _; apply: D2.
move=> H Hn La D1 D2 D3.
have Hi : (i < n)%coq_nat by lia.
have Hin : i < n by lia.
pose oi := Ordinal Hin.
have Pnz : \prod_(k < n | k < i) ent F a k k != 0 by apply/prodf_neq0 => k; apply: D2.
case: (det_loop_step F cnt i n a result res H La Hi) => [[-> Hz]|[idx [a' [Hidx [Hnz [La' [H' Hent]]]]]]].
  suff dz : \det (mx_of n n a) = 0.
    by move/eqP: D1; rewrite dz mulr0 mulf_eq0 (negbTE Pnz) orbF => /eqP.
  apply: (@det_zero_block _ oi) => r c /= Hr Hc; rewrite mxE.
  move: Hc; rewrite leq_eqVlt => /orP [/eqP ->|Hc]; last by rewrite D3 //; lia.
  by apply/eqP; rewrite -is0E Hz //; have := ltn_ord r; lia.
have Hidxn : idx < n by lia.
pose oidx := Ordinal Hidxn.
move: Hnz; rewrite is0E => /negbT Hnz.
have swn r : r < n -> swp i idx r < n.
  by rewrite /swp !Nat_eqbE; case: ifP => _; [lia|case: ifP => _; lia].
have {Hent} Hent : forall r k : nat, r < n -> k < n ->
    ent F a' r k = if (i < r) && (i <= k)
                   then ent F a (swp i idx r) k - ent F a (swp i idx r) i / ent F a idx i * ent F a idx k
                   else ent F a (swp i idx r) k.
  move=> r k /ltP Hr Hk; have /= -> := Hent r k Hr.
  by rewrite !Nat_ltbE Nat_lebE Hk andbT.
have swlt r : r < i -> swp i idx r = r.
  by move=> Hr; rewrite /swp !Nat_eqbE; case: ifP => [/eqP E|_]; [lia|case: ifP => [/eqP E|_] //; lia].
have swi : swp i idx i = idx by rewrite /swp Nat_eqbE eqxx.
(* the swapped matrix and the multipliers *)
pose As : 'M[K]_n := xrow oi oidx (mx_of n n a).
have AsE (r k : 'I_n) : As r k = ent F a (swp i idx r) k.
  rewrite !mxE /swp !Nat_eqbE; case: tpermP => [->|->|/eqP H1 /eqP H2]; rewrite ?mxE /= ?eqxx //.
    by case: ifP => // /eqP ->.
  by move: H1 H2; rewrite -!val_eqE /= => /negbTE -> /negbTE ->.
pose c (r : 'I_n) : K := if i < r then As r oi / As oi oi else 0.
have A'E : mx_of n n a' = \matrix_(r, k) (As r k - c r * As oi k).
  apply/matrixP => r k; rewrite [LHS]mxE [RHS]mxE !AsE Hent // /c !AsE /= swi.
  case: (ltnP i r) => Hr /=; last by rewrite mul0r subr0.
  case: (leqP i k) => Hk //.
  rewrite (D3 oidx k) ?mulr0 ?subr0 //=; lia.
have detA' : \det (mx_of n n a') = (if i == idx then 1 else -1) * \det (mx_of n n a).
  rewrite A'E det_rowop; last by move=> r Hr; rewrite /c ltnNge Hr.
  by rewrite det_xrow -val_eqE.
apply: (IH _ _ a' _ A0 res H') => //; first lia.
- rewrite detA' /= Nat_eqbE (bigD1 oi) //= (eq_bigl (fun k : 'I_n => k < i)); last first.
    move=> k; rewrite ltnS leq_eqVlt -val_eqE /=; case: eqP => [->|_] /=; first by rewrite ltnn.
    by rewrite andbT.
  rewrite (eq_bigr (fun k : 'I_n => ent F a k k)); last first.
    by move=> k Hk; rewrite Hent // (ltnNge i k) (ltnW Hk) /= swlt.
  rewrite Hent // ltnn /= swi mulrCA D1.
  case: ifP => _; first by rewrite mul1r mulrCA mulrA.
  by rewrite mulN1r mulrN !mulNr opprK mulrCA mulrA.
- move=> k; rewrite ltnS leq_eqVlt => /orP [/eqP Hk|Hk].
    by rewrite Hent // Hk ltnn /= swi.
  by rewrite Hent // (ltnNge i k) (ltnW Hk) /= swlt //; apply: D2.
- move=> r cc; rewrite ltnS leq_eqVlt => /orP [/eqP Hc|Hc] Hrc.
    rewrite Hent //; move: Hrc; rewrite Hc => -> /=; rewrite leqnn.
    by rewrite -mulrA mulVf // mulr1 subrr.
  have Hs : cc < swp i idx r.
    rewrite /swp !Nat_eqbE; case: ifP => [/eqP E|_]; first by lia.
    by case: ifP => [/eqP E|_]; lia.
  have D3n r' : r' < n -> cc < r' -> ent F a r' cc = 0.
    by move=> Hr' Hlt; apply: (D3 (Ordinal Hr') cc).
  rewrite Hent // (leqNgt i cc) Hc andbF D3n // swn //.
Qed.

Theorem determinant_spec_gen (a : list (list K)) d :
  determinant F a = Done d -> d = \det (mx_of (length a) (length a) a).
Proof.
rewrite /LinAlg.determinant => H; apply: (det_loop_spec H) => //; first by rewrite addn0.
by rewrite big_pred0 // mulr1 mul1r.
Qed.

(** ** solve_linear_system: solves x * A = b *)
Definition rv_of n (b : list K) : 'rV[K]_n := \row_k vent F b k.

Lemma singular_lkernel n (A : 'M[K]_n) (u : 'rV[K]_n) : u *m A = 0 -> u != 0 -> \det A = 0.
Proof.
move=> uA nz; case: (boolP (A \in unitmx)) => [U|]; last by rewrite unitmxE unitfE negbK => /eqP.
by move: nz; rewrite -(mulmx1 u) -(mulmxV U) mulmxA uA mul0mx eqxx.
Qed.

Lemma solve_loop_spec cnt : forall row n a b (A0 : 'M[K]_n) (b0 : 'rV[K]_n) res,
  solve_loop F cnt row n a b = Done res -> (cnt + row = n)%nat -> length a = n -> length b = n ->
  (forall (u : 'rV[K]_n) (t : K), u *m mx_of n n a = t *: rv_of n b -> u *m A0 = t *: b0) ->
  (forall r c : 'I_n, r < row -> ent F a r c = (r == c)%:R) ->
  match res with Ok x => rv_of n x *m A0 = b0 | Err _ => \det A0 = 0 end.
Proof.
elim: cnt => [|cnt IH] row n a b A0 b0 res.
  move=> [<-] /= Hn La Lb Q1 Q2; rewrite -[RHS]scale1r; apply: Q1; rewrite scale1r.
  rewrite (_ : mx_of n n a = 1%:M) ?mulmx1 //; apply/matrixP => r c.
  by rewrite !mxE Q2 //; have := ltn_ord r; lia.
move=> H Hn La Lb Q1 Q2.
have Hrow : (row < n)%coq_nat by lia.
have Hrown : row < n by lia.
case: (solve_loop_step F cnt row n a b res H La Lb Hrow)
  => [[-> Hz]|[nxt [a' [b' [Hnxt [Hnz [Hzs [La' [Lb' [H' [Ha' Hb']]]]]]]]]]].
  pose orow := Ordinal Hrown.
  pose c (k : 'I_n) : K := if k < row then ent F a row k else 0.
  pose u : 'rV[K]_n := \row_k (c k - (k == orow)%:R).
  apply: (@singular_lkernel _ _ u); last first.
    apply/eqP => /matrixP /(_ 0 orow); rewrite !mxE eqxx /c ltnn sub0r => /eqP.
    by rewrite oppr_eq0 oner_eq0.
  rewrite -[RHS](scale0r b0); apply: Q1; rewrite scale0r; apply/matrixP => z k; rewrite !mxE.
  under eq_bigr => r _ do rewrite !mxE mulrBl.
  rewrite sumrB sum_delta.
  have -> : \sum_(r < n) c r * ent F a r k = c k.
    rewrite -[RHS]sum_delta; apply: eq_bigr => r _; rewrite /c mulrC.
    by case: ifP => [ki|_]; [rewrite Q2|rewrite !mulr0].
  rewrite /c; case: ifP => [_|ri]; first by rewrite subrr.
  have /eqP -> : ent F a row k == 0 by rewrite -is0E Hz //; have := ltn_ord k; lia.
  by rewrite subrr.
have {Ha'} Ha' : forall r k : nat, r < n -> k < n ->
    ent F a' r k = (if k == row then ent F a r nxt / ent F a row nxt
                    else ent F a r (swp row nxt k)
                         - ent F a row (swp row nxt k) * (ent F a r nxt / ent F a row nxt)).
  by move=> r k /ltP Hr /ltP Hk; have /= := Ha' r k Hr Hk; rewrite Nat_eqbE.
have {Hb'} Hb' : forall k : nat, k < n ->
    vent F b' k = (if k == row then vent F b nxt / ent F a row nxt
                   else vent F b (swp row nxt k)
                        - ent F a row (swp row nxt k) * (vent F b nxt / ent F a row nxt)).
  by move=> k /ltP Hk; have /= := Hb' k Hk; rewrite Nat_eqbE.
have swn k : k < n -> swp row nxt k < n.
  by rewrite /swp !Nat_eqbE; case: ifP => _; [lia|case: ifP => _; lia].
have Hnxtn : nxt < n by lia.
move: Hnz; rewrite is0E => /negbT Hnz.
apply: (IH _ _ a' b' A0 b0 res H') => //; first lia.
- move=> u t Hu; apply: Q1; apply/matrixP => z c0; rewrite !mxE.
  pose S (c : nat) := \sum_(r < n) u z r * ent F a r c.
  have S' (k : 'I_n) : \sum_(r < n) u z r * ent F a' r k = t * vent F b' k.
    move/matrixP: (Hu) => /(_ z k); rewrite !mxE => H0; rewrite -[RHS]H0.
    by apply: eq_bigr => r _; rewrite mxE.
  have Snxt : S nxt = t * vent F b nxt.
    have := S' (Ordinal Hrown); rewrite /= Hb' // eqxx.
    under eq_bigr => r _ do rewrite Ha' // eqxx mulrA.
    by rewrite -mulr_suml mulrA => /(mulIf (invr_neq0 Hnz)).
  suff: S c0 = t * vent F b c0 by rewrite /S => H0; rewrite -[RHS]H0; apply: eq_bigr => r _; rewrite mxE.
  case: (nxt =P c0 :> nat) => [<- //|/eqP ne].
  have Hs : swp row nxt c0 < n by apply: swn.
  have nei : (swp row nxt c0 == row) = false.
    by rewrite /swp !Nat_eqbE; case: ifP => [/eqP E|/eqP E]; [|case: ifP => [/eqP E2|/eqP E2]]; apply/eqP; move/eqP: ne; lia.
  have Hsw : swp row nxt (swp row nxt c0) = c0.
    by rewrite /swp !Nat_eqbE; repeat case: ifP => //; lia.
  have := S' (Ordinal Hs); rewrite /= Hb' // nei Hsw.
  under eq_bigr => r _ do rewrite Ha' // nei Hsw mulrBr mulrCA (mulrA (u z r)).
  rewrite sumrB -mulr_sumr -mulr_suml -/(S nxt) -/(S c0) Snxt mulrBr.
  by rewrite (mulrCA t) (mulrA t) => /addIr.
- move=> r c Hr; rewrite Ha' //.
  have Q2n r' c' : r' < row -> c' < n -> ent F a r' c' = (r' == c')%:R.
    move=> Hr' Hc'; have Hr'n : r' < n by lia.
    exact: (Q2 (Ordinal Hr'n) (Ordinal Hc')).
  have Hc := ltn_ord c.
  move: Hr; rewrite ltnS leq_eqVlt => /orP [/eqP Hr|Hr]; last first.
    rewrite (Q2n r nxt) // (_ : (r == nxt :> nat) = false) ?mul0r; last by lia.
    case: ifP => [/eqP ci|ci]; first by rewrite (_ : (r == c) = false) //; apply/eqP => rc; move: Hr; rewrite rc ci ltnn.
    rewrite mulr0 subr0 Q2n ?swn //; congr (_ %:R); congr nat_of_bool.
    rewrite /swp !Nat_eqbE ci; case: ifP => [/eqP cn|_]; last by [].
    by rewrite -val_eqE /= cn; apply/eqP/eqP; lia.
  have -> : (r == c) = (c == row :> nat) by rewrite -val_eqE /= Hr eq_sym.
  rewrite Hr; case: ifP => _; first by rewrite mulfV.
  by rewrite mulfV // mulr1 subrr.
Qed.


(** when all pivots are found the matrix is non-singular *)
Lemma solve_loop_det cnt : forall row n a b (A0 : 'M[K]_n) x,
  solve_loop F cnt row n a b = Done (Ok x) -> (cnt + row = n)%nat -> length a = n -> length b = n ->
  (forall u : 'rV[K]_n, u *m A0 = 0 -> u *m mx_of n n a = 0) ->
  (forall r c : 'I_n, r < row -> ent F a r c = (r == c)%:R) ->
  \det A0 != 0.
Proof.
elim: cnt => [|cnt IH] row n a b A0 x.
  move=> _ /= Hn La Lb Q1 Q2; apply/negP => /det0P [u nz /Q1].
  rewrite (_ : mx_of n n a = 1%:M) ?mulmx1; first by move=> E; rewrite E eqxx in nz.
  by apply/matrixP => r c; rewrite !mxE Q2 //; have := ltn_ord r; lia.
move=> H Hn La Lb Q1 Q2.
have Hrow : (row < n)%coq_nat by lia.
have Hrown : row < n by lia.
case: (solve_loop_step F cnt row n a b _ H La Lb Hrow)
  => [[//]|[nxt [a' [b' [Hnxt [Hnz [Hzs [La' [Lb' [H' [Ha' _]]]]]]]]]]].
have {Ha'} Ha' : forall r k : nat, r < n -> k < n ->
    ent F a' r k = (if k == row then ent F a r nxt / ent F a row nxt
                    else ent F a r (swp row nxt k)
                         - ent F a row (swp row nxt k) * (ent F a r nxt / ent F a row nxt)).
  by move=> r k /ltP Hr /ltP Hk; have /= := Ha' r k Hr Hk; rewrite Nat_eqbE.
have swn k : k < n -> swp row nxt k < n.
  by rewrite /swp !Nat_eqbE; case: ifP => _; [lia|case: ifP => _; lia].
have Hnxtn : nxt < n by lia.
move: Hnz; rewrite is0E => /negbT Hnz.
apply: (IH _ _ a' b' A0 x H') => //; first lia.
- move=> u /Q1 Hu; apply/matrixP => z k; rewrite !mxE.
  have S (c : nat) (Hc : c < n) : \sum_(r < n) u z r * ent F a r c = 0.
    move/matrixP: (Hu) => /(_ z (Ordinal Hc)); rewrite !mxE => H0; rewrite -[RHS]H0.
    by apply: eq_bigr => r _; rewrite mxE.
  under eq_bigr => r _ do rewrite mxE Ha' //.
  case: (k == row :> nat).
    under eq_bigr => r _ do rewrite mulrA.
    by rewrite -mulr_suml S // mul0r.
  under eq_bigr => r _ do rewrite mulrBr mulrCA (mulrA (u z r)).
  by rewrite sumrB -mulr_sumr -mulr_suml !S ?swn // mul0r mulr0 subrr.
- move=> r c Hr; rewrite Ha' //.
  have Q2n r' c' : r' < row -> c' < n -> ent F a r' c' = (r' == c')%:R.
    move=> Hr' Hc'; have Hr'n : r' < n by lia.
    exact: (Q2 (Ordinal Hr'n) (Ordinal Hc')).
  have Hc := ltn_ord c.
  move: Hr; rewrite ltnS leq_eqVlt => /orP [/eqP Hr|Hr]; last first.
    rewrite (Q2n r nxt) // (_ : (r == nxt :> nat) = false) ?mul0r; last by lia.
    case: ifP => [/eqP ci|ci]; first by rewrite (_ : (r == c) = false) //; apply/eqP => rc; move: Hr; rewrite rc ci ltnn.
    rewrite mulr0 subr0 Q2n ?swn //; congr (_ %:R); congr nat_of_bool.
    rewrite /swp !Nat_eqbE ci; case: ifP => [/eqP cn|_]; last by [].
    by rewrite -val_eqE /= cn; apply/eqP/eqP; lia.
  have -> : (r == c) = (c == row :> nat) by rewrite -val_eqE /= Hr eq_sym.
  rewrite Hr; case: ifP => _; first by rewrite mulfV.
  by rewrite mulfV // mulr1 subrr.
Qed.

Theorem solve_ok_det (a : list (list K)) (b x : list K) :
  solve_linear_system F a b = Done (Ok x) -> \det (mx_of (length a) (length a) a) != 0.
Proof.
rewrite /solve_linear_system; case E: (Nat.eqb _ _) => //= H.
move: E; rewrite Nat_eqbE => /eqP E.
by apply: (solve_loop_det H) => //; rewrite addn0.
Qed.

Theorem solve_spec_gen (a : list (list K)) (b : list K) res :
  solve_linear_system F a b = Done res ->
  let n := length a in
  match res with
  | Ok x => rv_of n x *m mx_of n n a = rv_of n b
  | Err _ => \det (mx_of n n a) = 0
  end.
Proof.
rewrite /solve_linear_system; case E: (Nat.eqb _ _) => //= H.
move: E; rewrite Nat_eqbE => /eqP E.
by apply: (solve_loop_spec H) => //; rewrite addn0.
Qed.

End Gen.
