(** Round 2 step, third wave (C06): on a stored basis the only panic of the construction of the two tables
    (round2.rs:26-45) is [assert!(inv[k].is_integer())]: the [expect] on [solve_linear_system] and all index
    operations are unreachable, and no fuel is involved.  Style: ssreflect (needs AlgQuot.alg_mul_ok). *)
From RNT.Model Require Import Base Poly Algebraic LinAlg MultTable Order Round2.
From Coq Require Import QArith Qcanon.
From mathcomp Require Import all_ssreflect ssralg poly polydiv.
From mathcomp Require Import ssrZ zify ring.
From RNT.Refine Require Import QcRing PolyRefine PolyDiv PolyZ PolyQ AlgMul AlgQuot MultTableOps MultTableGet TableAgrees.
From RNT.Refine Require Round2Det Round2W3Solve Round2W3Det Round2W3Lift.
Set Implicit Arguments.
Unset Strict Implicit.
Unset Printing Implicit Defensive.
Import GRing.Theory.
Local Open Scope ring_scope.

Definition ok_or_assert A (r : outcome A) : Prop :=
  match r with Done _ => True | Panic PAssert => True | _ => False end.

Lemma mapM_ok_or_assert A B (g : A -> outcome B) (l : seq A) :
  (forall x, List.In x l -> ok_or_assert (g x)) -> ok_or_assert (mapM g l).
Proof.
elim: l => [|x l IH] h //=.
have := h x (or_introl erefl); case: (g x) => [y|[]|] //= _.
have := IH (fun z hz => h z (or_intror hz)); case: (mapM g l) => [t|[]|] //=.
Qed.

Lemma in_seq0 n k : List.In k (List.seq 0 n) -> (k < n)%N.
Proof. by move/List.in_seq => [_ h]; apply/ltP. Qed.

Theorem mult_tables_ok_or_assert (f : seq Z) (n : nat) (o : seq (seq Qc)) (p : Z) :
  canonZ f -> size f = n.+1 -> Round2Det.lower_from n 0 o -> p <> 0%Z ->
  ok_or_assert (mult_tables f o n p (p * p)).
Proof.
move=> cf szf LO p0.
have [so wo] := Round2Det.lower_from_shape n o LO.
have ro := Round2W3Lift.rows_size so wo.
have p2 : (p * p)%Z <> 0%Z by nia.
have Wsize i : (i < n)%N -> (size (Poly (nth [::] o i)) <= n)%N.
  by move=> hi; rewrite (leq_trans (size_Poly _)) // ro.
rewrite /mult_tables.
set cells := mapM _ _.
suff: ok_or_assert cells by case: cells => [c|[]|].
apply: mapM_ok_or_assert => i /in_seq0 hi.
rewrite (nth_chk_ok [::]) /bind; last by rewrite -Llength_eq so.
apply: mapM_ok_or_assert => j /in_seq0 hj.
rewrite (nth_chk_ok [::]) /bind; last by rewrite -Llength_eq so.
have ei : elem n (from_raw opsQc (nth [::] o i)).
  by rewrite opsQc_eq /from_raw (@strip_Poly _ Qc_ofZ); apply: elem_polyseq; apply: Wsize.
have ej : elem n (from_raw opsQc (nth [::] o j)).
  by rewrite opsQc_eq /from_raw (@strip_Poly _ Qc_ofZ); apply: elem_polyseq; apply: Wsize.
have [prod -> _] := alg_mul_ok cf szf ei ej.
have sco : length (coefs_upto n prod) = n.
  by rewrite /coefs_upto List.map_length List.seq_length.
have [inv hs] := Round2W3Det.lower_solvable LO sco; rewrite hs /=.
have sinv : size inv = n.
  by rewrite -Llength_eq (Round2W3Solve.solve_length fopsQc _ _ _ hs) Llength_eq.
rewrite /table_entries; apply: mapM_ok_or_assert => k /in_seq0 hk.
rewrite (nth_chk_ok 0) ?sinv // /bind.
case: (q_is_integer _) => //=.
rewrite /zrem; have -> : (p * p =? 0)%Z = false by apply/Z.eqb_neq.
by have -> : (p =? 0)%Z = false by apply/Z.eqb_neq.
Qed.
